"""Tie A: translate fragments of /repo's C sources into Lean 4 definitions.

A small symbolic executor over clang's typed JSON AST.  Integer values become `BitVec n` terms with
C's conversion rules applied exactly as the AST spells them out (ImplicitCastExpr nodes), pointers
become (base symbol, BitVec 64 offset) pairs, `if` becomes `if … then … else …` on every assigned
local, memory stores / calls / returns are recorded as named observations.

Anything outside the supported subset raises Unsupported: the extractor then fails loudly and the
check reports a broken proof obligation; nothing is ever defaulted.
"""
import json, os, subprocess, hashlib, re, sys

REPO = os.environ.get('VERIF_REPO', '/repo')
INC = ['Lib/core', 'Lib/core/public', 'Lib/core/fs', 'Lib/core/poll', 'Lib/utils', 'Lib/structs',
       'Lib/structs/public', 'Lib/mem', 'Lib/mem/public', 'Lib/thpool', 'Lib/thpool/public']
CFLAGS = ['-std=gnu11', '-D_GNU_SOURCE'] + ['-I' + os.path.join(REPO, i) for i in INC]


class Unsupported(Exception):
    pass


def clang_ast(path, func):
    """Typed AST (dict) of function `func` defined in `path` (relative to REPO)."""
    cmd = ['clang-14'] + CFLAGS + ['-fsyntax-only', '-Xclang', '-ast-dump=json', '-Xclang',
                                   '-ast-dump-filter=' + func, os.path.join(REPO, path)]
    p = subprocess.run(cmd, capture_output=True, text=True)
    if p.returncode != 0:
        raise Unsupported('clang failed on %s: %s' % (path, p.stderr[:400]))
    dec = json.JSONDecoder()
    s = p.stdout
    i = 0
    best = None
    while i < len(s):
        while i < len(s) and s[i].isspace():
            i += 1
        if i >= len(s):
            break
        o, i = dec.raw_decode(s, i)
        if o.get('kind') == 'FunctionDecl' and o.get('name') == func and \
                any(c.get('kind') == 'CompoundStmt' for c in o.get('inner', [])):
            best = o
    if best is None:
        raise Unsupported('no definition of %s in %s' % (func, path))
    return best


def const_printer(path, items, extra_cflags=()):
    """Compile a tiny program that #includes the .c file (so file-private types are visible) and
    prints the value of each C constant expression in `items` (name -> expression)."""
    src = ['#define main lm_verif_hidden_main', '#include "%s"' % os.path.join(REPO, path), '#undef main',
           '#include <stdio.h>', '#include <stddef.h>', 'int main(void){']
    for k, e in items.items():
        src.append('  printf("%s %%lld\\n", (long long)(%s));' % (k, e))
    src.append('  return 0; }')
    wd = os.path.join(os.environ.get('VERIF_WORK', '/verif/.work'), 'extract')
    os.makedirs(wd, exist_ok=True)
    h = hashlib.sha1(('\n'.join(src)).encode()).hexdigest()[:12]
    cfile = os.path.join(wd, 'cp_%s.c' % h)
    exe = os.path.join(wd, 'cp_%s' % h)
    open(cfile, 'w').write('\n'.join(src))
    # link against nothing: the included file's undefined externs are fine because we only need
    # compile-time constants; use -Wl,--unresolved-symbols=ignore-all
    p = subprocess.run(['clang-14'] + CFLAGS + list(extra_cflags) +
                       ['-w', '-o', exe, cfile, '-Wl,--unresolved-symbols=ignore-all', '-lpthread', '-ldl'],
                       capture_output=True, text=True)
    if p.returncode != 0:
        raise Unsupported('constant printer failed: ' + p.stderr[:600])
    out = subprocess.run([exe], capture_output=True, text=True).stdout
    os.unlink(cfile)
    os.unlink(exe)
    res = {}
    for line in out.splitlines():
        k, v = line.split()
        res[k] = int(v)
    return res


INT_TYPES = {
    'unsigned long': (64, False), 'size_t': (64, False), 'uint64_t': (64, False), 'uintptr_t': (64, False),
    'unsigned long long': (64, False), 'const size_t': (64, False), 'const uint64_t': (64, False),
    'long': (64, True), 'ssize_t': (64, True), 'ptrdiff_t': (64, True), 'int64_t': (64, True), 'long long': (64, True),
    'int': (32, True), 'const int': (32, True), 'int32_t': (32, True), 'pid_t': (32, True), 'clockid_t': (32, True),
    'unsigned int': (32, False), 'uint32_t': (32, False), 'const uint32_t': (32, False),
    'unsigned short': (16, False), 'uint16_t': (16, False), 'short': (16, True),
    'unsigned char': (8, False), 'uint8_t': (8, False), 'const uint8_t': (8, False), 'char': (8, True),
    'const char': (8, True), 'signed char': (8, True),
    'bool': (8, False), '_Bool': (8, False), 'const bool': (8, False),
}


def int_type(node):
    t = node.get('type', {})
    for key in ('desugaredQualType', 'qualType'):
        q = t.get(key)
        if q is None:
            continue
        q = q.replace('const ', '').strip()
        if q in INT_TYPES:
            return INT_TYPES[q]
    return None


class BV:
    def __init__(self, term, bits, signed):
        self.term, self.bits, self.signed = term, bits, signed

    def __repr__(self):
        return 'BV(%s,%d,%s)' % (self.term, self.bits, self.signed)


class BoolV:
    def __init__(self, term):
        self.term = term


class Ptr:
    def __init__(self, base, off, elem=None):
        self.base, self.off, self.elem = base, off, elem  # off: Lean term of type BitVec 64


class LV:
    """an lvalue designating memory at `ptr` (array element, struct field, *p)"""
    def __init__(self, ptr, name=None):
        self.ptr, self.name = ptr, name


def lit(v, bits):
    return '%d#%d' % (v % (1 << bits), bits)


def to_bv(x, bits, signed):
    if isinstance(x, BoolV):
        return BV('(if %s then %s else %s)' % (x.term, lit(1, bits), lit(0, bits)), bits, signed)
    return x


def to_bool(x):
    if isinstance(x, BoolV):
        return x
    if isinstance(x, Ptr):
        return BoolV('(%s != 0#64)' % ptr_addr(x))
    return BoolV('(%s != %s)' % (x.term, lit(0, x.bits)))


def ptr_addr(p):
    return '(%s + %s)' % (p.base, p.off)


def cast_bv(x, bits, signed):
    x = to_bv(x, bits, signed)
    if x.bits == bits:
        return BV(x.term, bits, signed)
    if bits < x.bits:
        return BV('(BitVec.setWidth %d %s)' % (bits, x.term), bits, signed)
    if x.signed:
        return BV('(BitVec.signExtend %d %s)' % (bits, x.term), bits, signed)
    return BV('(BitVec.setWidth %d %s)' % (bits, x.term), bits, signed)


class SymExec:
    """Symbolic execution of one function body."""

    def __init__(self, fn_ast, path, params, sizeof_fn, field_off_fn=None, call_model=None, opaque=None, load_fn=None):
        self.fn = fn_ast
        self.path = path
        self.env = {}          # local name -> value
        self.stores = []       # (Ptr, value) in order
        self.calls = []        # (callee name, [args])
        self.ret = None
        self.sizeof_fn = sizeof_fn
        self.field_off_fn = field_off_fn
        self.call_model = call_model or {}
        self.opaque = opaque or {}
        self.load_fn = load_fn
        for name, v in params.items():
            self.env[name] = v

    # --- expressions -------------------------------------------------------------------------
    def ev(self, n):
        k = n['kind']
        m = getattr(self, 'e_' + k, None)
        if m is None:
            raise Unsupported('expression kind %s in %s' % (k, self.fn.get('name')))
        return m(n)

    def e_ParenExpr(self, n):
        return self.ev(n['inner'][0])

    def e_ConstantExpr(self, n):
        return self.ev(n['inner'][0])

    def e_IntegerLiteral(self, n):
        b, s = int_type(n)
        return BV(lit(int(n['value']), b), b, s)

    def e_CharacterLiteral(self, n):
        b, s = int_type(n)
        return BV(lit(int(n['value']), b), b, s)

    def e_DeclRefExpr(self, n):
        name = n['referencedDecl']['name']
        if name in self.env:
            return self.env[name]
        if name in self.opaque:
            return self.opaque[name]
        raise Unsupported('reference to unknown name %s' % name)

    def e_UnaryExprOrTypeTraitExpr(self, n):
        b, s = int_type(n)
        if 'argType' in n:
            ty = n['argType']['qualType']
        else:
            ty = n['inner'][0]['type']['qualType']
            # strip array/lvalue decorations are not handled: only plain named types
        v = self.sizeof_fn(n['name'], ty)
        return BV(lit(v, b), b, s)

    def e_ImplicitCastExpr(self, n):
        ck = n['castKind']
        x = self.ev(n['inner'][0])
        if ck == 'LValueToRValue' and isinstance(x, LV):
            if self.load_fn is None:
                raise Unsupported('memory load')
            return self.load_fn(x, n)
        if ck in ('LValueToRValue', 'NoOp', 'FunctionToPointerDecay', 'BitCast'):
            if ck == 'BitCast' and isinstance(x, Ptr):
                return Ptr(x.base, x.off, self.elem_size(n))
            return x
        if ck == 'ArrayToPointerDecay':
            if isinstance(x, LV):
                return Ptr(x.ptr.base, x.ptr.off, self.elem_size(n))
            raise Unsupported('array decay of non-lvalue')
        if ck == 'IntegralCast':
            t = int_type(n)
            if t is None:
                raise Unsupported('IntegralCast to %s' % n['type'])
            return cast_bv(x, *t)
        if ck == 'IntegralToBoolean':
            return to_bool(x)
        if ck == 'PointerToBoolean':
            return to_bool(x)
        if ck == 'NullToPointer':
            return Ptr('0#64', '0#64', 1)
        if ck == 'IntegralToPointer':
            x = cast_bv(x, 64, False)
            return Ptr(x.term, '0#64', self.elem_size(n))
        if ck == 'PointerToIntegral':
            t = int_type(n)
            return cast_bv(BV(ptr_addr(x), 64, False), *t)
        raise Unsupported('cast kind %s' % ck)

    e_CStyleCastExpr = e_ImplicitCastExpr

    def elem_size(self, n):
        q = n['type'].get('desugaredQualType', n['type']['qualType'])
        q = q.strip()
        if not q.endswith('*'):
            return None
        el = q[:-1].strip().replace('const ', '').strip()
        if el == 'void':
            return 1
        if el in INT_TYPES:
            return INT_TYPES[el][0] // 8
        if el.endswith('*'):
            return 8
        try:
            return self.sizeof_fn('sizeof', el)
        except Exception:
            return None

    def e_MemberExpr(self, n):
        base = self.ev(n['inner'][0])
        if isinstance(base, Ptr) and self.field_off_fn:
            st = n['inner'][0]['type'].get('desugaredQualType', n['inner'][0]['type']['qualType'])
            off = self.field_off_fn(st, n['name'])
            return LV(Ptr(base.base, '(%s + %s)' % (base.off, lit(off, 64)), None), n['name'])
        key = ('member', getattr(base, 'base', None), n['name'])
        if key in self.opaque:
            return self.opaque[key]
        raise Unsupported('member access %s' % n['name'])

    def e_UnaryOperator(self, n):
        op = n['opcode']
        x = self.ev(n['inner'][0])
        if op == '~':
            return BV('(~~~%s)' % x.term, x.bits, x.signed)
        if op == '-':
            return BV('(-%s)' % x.term, x.bits, x.signed)
        if op == '!':
            return BoolV('(!%s)' % to_bool(x).term)
        if op == '+':
            return x
        if op == '*':
            if isinstance(x, Ptr):
                return LV(x)
            raise Unsupported('deref')
        raise Unsupported('unary %s' % op)

    def e_BinaryOperator(self, n):
        op = n['opcode']
        if op == '=':
            return self.assign(n['inner'][0], self.ev(n['inner'][1]))
        if op == ',':
            self.ev(n['inner'][0])
            return self.ev(n['inner'][1])
        a = self.ev(n['inner'][0])
        if op in ('&&', '||'):
            b = self.ev(n['inner'][1])
            return BoolV('(%s %s %s)' % (to_bool(a).term, op, to_bool(b).term))
        b = self.ev(n['inner'][1])
        if isinstance(a, Ptr) or isinstance(b, Ptr):
            return self.ptr_binop(op, a, b, n)
        t = int_type(n)
        if isinstance(a, BoolV):
            a = to_bv(a, 32, True)
        if isinstance(b, BoolV):
            b = to_bv(b, 32, True)
        if op in ('<<', '>>'):
            sh = '%s.toNat' % b.term
            if op == '<<':
                return BV('(%s <<< %s)' % (a.term, sh), a.bits, a.signed)
            if a.signed:
                return BV('(BitVec.sshiftRight %s %s)' % (a.term, sh), a.bits, a.signed)
            return BV('(%s >>> %s)' % (a.term, sh), a.bits, a.signed)
        if a.bits != b.bits:
            raise Unsupported('operand widths differ for %s (%d vs %d)' % (op, a.bits, b.bits))
        sg = a.signed and b.signed
        if op in ('+', '-', '*'):
            return BV('(%s %s %s)' % (a.term, op, b.term), a.bits, sg)
        if op in ('&', '|', '^'):
            o = {'&': '&&&', '|': '|||', '^': '^^^'}[op]
            return BV('(%s %s %s)' % (a.term, o, b.term), a.bits, sg)
        if op == '/':
            return BV('(BitVec.sdiv %s %s)' % (a.term, b.term) if sg else '(%s / %s)' % (a.term, b.term), a.bits, sg)
        if op == '%':
            return BV('(BitVec.srem %s %s)' % (a.term, b.term) if sg else '(%s %% %s)' % (a.term, b.term), a.bits, sg)
        if op == '==':
            return BoolV('(%s == %s)' % (a.term, b.term))
        if op == '!=':
            return BoolV('(%s != %s)' % (a.term, b.term))
        cmpf = {'<': 'lt', '<=': 'le'}
        if op in ('<', '<='):
            return BoolV('(BitVec.%s%s %s %s)' % ('s' if sg else 'u', cmpf[op], a.term, b.term))
        if op in ('>', '>='):
            f = {'>': 'lt', '>=': 'le'}[op]
            return BoolV('(BitVec.%s%s %s %s)' % ('s' if sg else 'u', f, b.term, a.term))
        raise Unsupported('binary %s' % op)

    def ptr_binop(self, op, a, b, n):
        if op in ('+', '-') and isinstance(a, Ptr) and isinstance(b, BV):
            es = a.elem if a.elem else self.elem_size(n)
            if not es:
                raise Unsupported('pointer arithmetic with unknown element size')
            d = cast_bv(b, 64, b.signed).term
            if es != 1:
                d = '(%s * %s)' % (d, lit(es, 64))
            return Ptr(a.base, '(%s %s %s)' % (a.off, op, d), a.elem)
        if op == '-' and isinstance(a, Ptr) and isinstance(b, Ptr):
            # pointer difference in elements; only byte-sized / void pointers supported
            es = a.elem or 1
            if es != 1:
                raise Unsupported('pointer difference with element size %s' % es)
            return BV('(%s - %s)' % (ptr_addr(a), ptr_addr(b)), 64, True)
        if op in ('==', '!='):
            pa = ptr_addr(a) if isinstance(a, Ptr) else cast_bv(a, 64, False).term
            pb = ptr_addr(b) if isinstance(b, Ptr) else cast_bv(b, 64, False).term
            return BoolV('(%s %s %s)' % (pa, op, pb))
        raise Unsupported('pointer op %s' % op)

    def e_CompoundAssignOperator(self, n):
        op = n['opcode'][:-1]
        lhs = n['inner'][0]
        fake = dict(n)
        fake['kind'] = 'BinaryOperator'
        fake['opcode'] = op
        # C: lhs op= rhs computes in the common type then converts back
        a = self.ev(lhs)
        b = self.ev(n['inner'][1])
        ct = None
        q = n.get('computeResultType', {}).get('qualType')
        if q and q.replace('const ', '') in INT_TYPES:
            ct = INT_TYPES[q.replace('const ', '')]
        if ct and isinstance(a, BV):
            a2 = cast_bv(a, *ct)
        else:
            a2 = a
        saved = self.ev
        tmp = {'kind': 'BinaryOperator', 'opcode': op, 'type': {'qualType': q or ''},
               'inner': [{'kind': '__val', '_v': a2}, {'kind': '__val', '_v': b}]}
        r = self.e_BinaryOperator(tmp)
        if isinstance(a, BV):
            r = cast_bv(r, a.bits, a.signed)
        return self.assign(lhs, r)

    def e___val(self, n):
        return n['_v']

    def e_ConditionalOperator(self, n):
        c = to_bool(self.ev(n['inner'][0]))
        a = self.ev(n['inner'][1])
        b = self.ev(n['inner'][2])
        if isinstance(a, BV) and isinstance(b, BV):
            return BV('(if %s then %s else %s)' % (c.term, a.term, b.term), a.bits, a.signed)
        if isinstance(a, BoolV) and isinstance(b, BoolV):
            return BoolV('(if %s then %s else %s)' % (c.term, a.term, b.term))
        raise Unsupported('conditional on non-integers')

    def e_CallExpr(self, n):
        callee = n['inner'][0]
        while callee['kind'] in ('ImplicitCastExpr', 'ParenExpr'):
            callee = callee['inner'][0]
        name = callee.get('name') or callee.get('referencedDecl', {}).get('name')
        args = [self.ev(a) for a in n['inner'][1:]]
        self.calls.append((name, args))
        if name in self.call_model:
            return self.call_model[name](args)
        raise Unsupported('call to %s' % name)

    def e_ArraySubscriptExpr(self, n):
        p = self.ev(n['inner'][0])
        i = self.ev(n['inner'][1])
        if isinstance(p, Ptr) and isinstance(i, BV):
            return LV(self.ptr_binop('+', p, i, n['inner'][0]))
        raise Unsupported('subscript')

    def assign(self, lhs, v):
        while lhs['kind'] == 'ParenExpr':
            lhs = lhs['inner'][0]
        if lhs['kind'] == 'DeclRefExpr':
            self.env[lhs['referencedDecl']['name']] = v
            return v
        if lhs['kind'] in ('ArraySubscriptExpr', 'MemberExpr', 'UnaryOperator'):
            p = self.ev(lhs)
            if not isinstance(p, LV):
                raise Unsupported('assignment to non-lvalue')
            self.stores.append((p.ptr, v, p.name))
            return v
        raise Unsupported('assignment target %s' % lhs['kind'])

    # --- statements --------------------------------------------------------------------------
    def run(self):
        body = [c for c in self.fn['inner'] if c['kind'] == 'CompoundStmt'][0]
        self.stmt(body)
        return self

    def stmt(self, n):
        """returns True when control definitely left the function"""
        k = n['kind']
        if k == 'CompoundStmt':
            for c in n.get('inner', []):
                if self.stmt(c):
                    return True
            return False
        if k == 'DeclStmt':
            for d in n['inner']:
                if d['kind'] != 'VarDecl':
                    raise Unsupported('decl %s' % d['kind'])
                if d.get('inner'):
                    init = [c for c in d['inner'] if c['kind'] not in ('FullComment',)]
                    self.env[d['name']] = self.ev(init[0]) if init else None
                else:
                    self.env[d['name']] = None
            return False
        if k == 'ReturnStmt':
            if self.ret is None:
                self.ret = self.ev(n['inner'][0]) if n.get('inner') else 'void'
            return True
        if k == 'IfStmt':
            inner = n['inner']
            cond = to_bool(self.ev(inner[0]))
            before = dict(self.env)
            st_before = len(self.stores)
            left = self.stmt(inner[1])
            env_then = self.env
            ret_then = self.ret if left else None
            self.env = dict(before)
            if left:
                self.ret = None
            left2 = False
            if len(inner) > 2:
                left2 = self.stmt(inner[2])
            env_else = self.env
            if left and left2:
                r2 = self.ret
                self.ret = self.merge(cond, ret_then, r2)
                return True
            if left:
                # then-branch returned: remember guarded return, continue with else env
                self.guarded = getattr(self, 'guarded', []) + [(cond.term, ret_then)]
                self.env = env_else
                return False
            if left2:
                self.guarded = getattr(self, 'guarded', []) + [('(!%s)' % cond.term, self.ret)]
                self.ret = None
                self.env = env_then
                return False
            merged = {}
            for name in set(env_then) | set(env_else):
                a, b = env_then.get(name), env_else.get(name)
                merged[name] = a if a is b else self.merge(cond, a, b)
            self.env = merged
            return False
        if k in ('NullStmt',):
            return False
        # expression statement
        self.ev(n)
        return False

    def merge(self, cond, a, b):
        if a is None or b is None:
            return a if b is None else b
        if isinstance(a, BV) and isinstance(b, BV):
            if a.term == b.term:
                return a
            return BV('(if %s then %s else %s)' % (cond.term, a.term, b.term), a.bits, a.signed)
        if isinstance(a, BoolV) and isinstance(b, BoolV):
            return BoolV('(if %s then %s else %s)' % (cond.term, a.term, b.term))
        if isinstance(a, Ptr) and isinstance(b, Ptr) and a.base == b.base:
            return Ptr(a.base, '(if %s then %s else %s)' % (cond.term, a.off, b.off), a.elem)
        raise Unsupported('cannot merge branch values')

    def final_ret(self):
        """the returned value as one term, folding guarded early returns"""
        r = self.ret
        for c, v in reversed(getattr(self, 'guarded', [])):
            r = self.merge(BoolV(c), v, r) if r is not None else v
        return r


def write_if_changed(path, text):
    old = open(path).read() if os.path.exists(path) else None
    if old != text:
        os.makedirs(os.path.dirname(path), exist_ok=True)
        open(path, 'w').write(text)
        return True
    return False
