"""Tie A for C05: translate the pure fragments of Lib/structs/map.c into Lm/Generated/Map.lean.

Fragments: MAP_SIZE_DEFAULT; MAP_PROBE_LEN (initialiser of `probe_len` in hashmap_entry_find);
MAP_SIZE_MOD applied to the hash (return expression of hashmap_calc_index); the load rule
(hashmap_table_min_size_calc); the back-shift decision of clear_elem (condition of the `if` that
guards the memcpy, as a function of size / removed_index / index / entry_index); the string hash
(initial value, loop body and finalizer statements of hashmap_hash_string; the `while ((c = *key++))`
loop itself is the fold in the template below, after checking that it has exactly that shape)."""
import os, sys
sys.path.insert(0, os.path.dirname(__file__))
from cast import *

SRC = 'Lib/structs/map.c'
# the constant printer #includes map.c, which refers to `memhook` and the logger: link their objects
LINK = [os.path.join(REPO, 'Lib/utils/mem.c'), os.path.join(REPO, 'Lib/utils/log.c')]


class SE(SymExec):
    """SymExec with parenthesised shift amounts (`(5#32).toNat`)."""

    def e_BinaryOperator(self, n):
        if n.get('opcode') in ('<<', '>>'):
            a = self.ev(n['inner'][0])
            b = self.ev(n['inner'][1])
            if not isinstance(a, BV) or not isinstance(b, BV):
                raise Unsupported('shift of non-integers')
            sh = '(%s).toNat' % b.term
            if n['opcode'] == '<<':
                return BV('(%s <<< %s)' % (a.term, sh), a.bits, a.signed)
            if a.signed:
                return BV('(BitVec.sshiftRight %s %s)' % (a.term, sh), a.bits, a.signed)
            return BV('(%s >>> %s)' % (a.term, sh), a.bits, a.signed)
        return SymExec.e_BinaryOperator(self, n)


def walk(n):
    yield n
    for c in n.get('inner', []) or []:
        yield from walk(c)


def refs(n):
    return {x['referencedDecl']['name'] for x in walk(n) if x.get('kind') == 'DeclRefExpr' and 'referencedDecl' in x}


def body_of(fn):
    return [c for c in fn['inner'] if c['kind'] == 'CompoundStmt'][0]


def strip(n):
    while n['kind'] in ('ParenExpr', 'ImplicitCastExpr', 'ConstantExpr'):
        n = n['inner'][0]
    return n


def generate(outdir):
    consts = const_printer(SRC, {'sizeDefault': 'MAP_SIZE_DEFAULT', 'elemSize': 'sizeof(map_elem)',
                                 'EPERM': 'EPERM', 'ENOENT': 'ENOENT', 'ENOMEM': 'ENOMEM', 'EACCES': 'EACCES',
                                 'EINVAL': 'EINVAL', 'flagDup': 'M_MAP_KEY_DUP', 'flagAutofree': 'M_MAP_KEY_AUTOFREE',
                                 'flagUpdate': 'M_MAP_VAL_ALLOW_UPDATE'}, extra_cflags=LINK)

    def sizeof_fn(kind, ty):
        return const_printer(SRC, {'v': 'sizeof(%s)' % ty}, extra_cflags=LINK)['v']

    def field_off(st, name):
        return 0   # only the *name* of the field read matters below

    def load_fn(lv, node):
        if lv.name == 'table_size':
            return BV('size', 64, False)
        raise Unsupported('load of field %s' % lv.name)

    mptr = Ptr('m', '0#64', 1)

    # ---- MAP_PROBE_LEN: `const size_t probe_len = MAP_PROBE_LEN(m);` in hashmap_entry_find ----
    fn = clang_ast(SRC, 'hashmap_entry_find')
    decls = [x for x in walk(fn) if x.get('kind') == 'VarDecl' and x.get('name') == 'probe_len']
    if len(decls) != 1 or not decls[0].get('inner'):
        raise Unsupported('hashmap_entry_find: no initialised probe_len')
    se = SE(fn, SRC, {'m': mptr}, sizeof_fn, field_off, load_fn=load_fn)
    probe = se.ev(decls[0]['inner'][0])
    if not isinstance(probe, BV) or probe.bits != 64:
        raise Unsupported('probe_len is not a size_t expression')
    # the probing loop must be `for (size_t i = 0; i < probe_len; i++)`
    fors = [x for x in walk(fn) if x.get('kind') == 'ForStmt']
    if len(fors) != 1:
        raise Unsupported('hashmap_entry_find: expected one for loop')
    fcond = [c for c in fors[0]['inner'] if c.get('kind') == 'BinaryOperator']
    if not fcond or fcond[0].get('opcode') != '<' or refs(fcond[0]) != {'i', 'probe_len'}:
        raise Unsupported('hashmap_entry_find: loop is not bounded by i < probe_len')

    # ---- hashmap_calc_index ----
    fn = clang_ast(SRC, 'hashmap_calc_index')
    se = SE(fn, SRC, {'m': mptr, 'key': Ptr('key', '0#64', 1)}, sizeof_fn, field_off, load_fn=load_fn,
            call_model={'hashmap_hash_string': lambda args: BV('val', 64, False)})
    se.run()
    idx = se.final_ret()
    if not isinstance(idx, BV) or idx.bits != 64 or [c[0] for c in se.calls] != ['hashmap_hash_string']:
        raise Unsupported('hashmap_calc_index: unexpected shape')

    # ---- load rule ----
    fn = clang_ast(SRC, 'hashmap_table_min_size_calc')
    se = SE(fn, SRC, {'num_entries': BV('num', 64, False)}, sizeof_fn, field_off)
    se.run()
    minsz = se.final_ret()
    if not isinstance(minsz, BV) or minsz.bits != 64:
        raise Unsupported('hashmap_table_min_size_calc: unexpected shape')
    # and hashmap_put must grow exactly when `m->table_size <= hashmap_table_min_size_calc(m->length)`
    fn = clang_ast(SRC, 'hashmap_put')
    ok = False
    for x in walk(fn):
        if x.get('kind') == 'IfStmt':
            c = strip(x['inner'][0])
            if c.get('kind') == 'BinaryOperator' and c.get('opcode') == '<=':
                l, r = strip(c['inner'][0]), strip(c['inner'][1])
                if l.get('kind') == 'MemberExpr' and l.get('name') == 'table_size' and r.get('kind') == 'CallExpr' \
                        and 'hashmap_table_min_size_calc' in refs(r) and \
                        [y.get('name') for y in walk(r) if y.get('kind') == 'MemberExpr'] == ['length']:
                    ok = True
    if not ok:
        raise Unsupported('hashmap_put: growth test is not `table_size <= hashmap_table_min_size_calc(length)`')

    # ---- back-shift decision of clear_elem ----
    fn = clang_ast(SRC, 'clear_elem')
    fors = [x for x in walk(fn) if x.get('kind') == 'ForStmt']
    if len(fors) != 1:
        raise Unsupported('clear_elem: expected one loop')
    ifs = [x for x in walk(fors[0]) if x.get('kind') == 'IfStmt' and 'entry_index' in refs(x['inner'][0])]
    if len(ifs) != 1:
        raise Unsupported('clear_elem: expected one decision on entry_index')
    if 'memcpy' not in refs(ifs[0]['inner'][1]):
        raise Unsupported('clear_elem: the decision does not guard the move')
    # entry_index must be the home slot of the entry looked at
    ei = [x for x in walk(fors[0]) if x.get('kind') == 'VarDecl' and x.get('name') == 'entry_index']
    if len(ei) != 1 or 'hashmap_calc_index' not in refs(ei[0]):
        raise Unsupported('clear_elem: entry_index is not hashmap_calc_index(entry->key)')
    se = SE(fn, SRC, {'m': mptr, 'removed_index': BV('hole', 64, False), 'index': BV('idx', 64, False),
                      'entry_index': BV('home', 64, False)}, sizeof_fn, field_off, load_fn=load_fn)
    dec = to_bool(se.ev(ifs[0]['inner'][0]))

    # ---- string hash ----
    fn = clang_ast(SRC, 'hashmap_hash_string')
    stmts = body_of(fn)['inner']
    se = SE(fn, SRC, {'key': Ptr('key', '0#64', 1)}, sizeof_fn, field_off)
    i = 0
    while i < len(stmts) and stmts[i]['kind'] == 'DeclStmt':
        se.stmt(stmts[i]); i += 1
    init = se.env.get('hash')
    if not isinstance(init, BV) or init.bits != 64 or 'c' not in se.env:
        raise Unsupported('hashmap_hash_string: no initialised 64-bit `hash` / no `c`')
    if i >= len(stmts) or stmts[i]['kind'] != 'WhileStmt':
        raise Unsupported('hashmap_hash_string: expected the while loop after the declarations')
    w = stmts[i]
    cond = strip(w['inner'][0])
    # while ((c = *key++))
    shape_ok = cond.get('kind') == 'BinaryOperator' and cond.get('opcode') == '=' and \
        strip(cond['inner'][0]).get('referencedDecl', {}).get('name') == 'c'
    if shape_ok:
        rhs = strip(cond['inner'][1])
        shape_ok = rhs.get('kind') == 'UnaryOperator' and rhs.get('opcode') == '*'
        if shape_ok:
            inc = strip(rhs['inner'][0])
            shape_ok = inc.get('kind') == 'UnaryOperator' and inc.get('opcode') == '++' and inc.get('isPostfix', True) \
                and strip(inc['inner'][0]).get('referencedDecl', {}).get('name') == 'key'
    if not shape_ok:
        raise Unsupported('hashmap_hash_string: loop condition is not (c = *key++)')
    cty = int_type(cond)
    if cty != (8, True):
        raise Unsupported('hashmap_hash_string: c is not a (signed) char')
    body = w['inner'][1]
    bstm = body['inner'] if body['kind'] == 'CompoundStmt' else [body]
    se2 = SE(fn, SRC, {'hash': BV('hash', 64, False), 'c': BV('c', 8, True)}, sizeof_fn, field_off)
    for s in bstm:
        if se2.stmt(s):
            raise Unsupported('hashmap_hash_string: return inside the loop')
    step = se2.env['hash']
    if set(se2.env) != {'hash', 'c'} or se2.env['c'].term != 'c':
        raise Unsupported('hashmap_hash_string: loop body assigns something else than hash')
    se3 = SE(fn, SRC, {'hash': BV('hash', 64, False)}, sizeof_fn, field_off)
    for s in stmts[i + 1:]:
        if se3.stmt(s):
            break
    fin = se3.final_ret()
    if not isinstance(fin, BV) or fin.bits != 64:
        raise Unsupported('hashmap_hash_string: unexpected finalizer')

    L = []
    L.append('/- GENERATED by extract/gen_map.py from %s — do not edit. -/' % SRC)
    L.append('namespace Lm.Generated.Map')
    for k in ('sizeDefault', 'elemSize', 'EPERM', 'ENOENT', 'ENOMEM', 'EACCES', 'EINVAL', 'flagDup', 'flagAutofree', 'flagUpdate'):
        L.append('def %s : Nat := %d' % (k, consts[k]))
    L.append('/-- `MAP_PROBE_LEN(m)` -/')
    L.append('def probeLen (size : BitVec 64) : BitVec 64 := %s' % probe.term)
    L.append('/-- `hashmap_calc_index`: `MAP_SIZE_MOD(m, val)` with `val` the hash of the key -/')
    L.append('def sizeMod (size val : BitVec 64) : BitVec 64 := %s' % idx.term)
    L.append('/-- `hashmap_table_min_size_calc(num)`; the table grows when `table_size <= minSize length` -/')
    L.append('def minSize (num : BitVec 64) : BitVec 64 := %s' % minsz.term)
    L.append('/-- `clear_elem`: move the entry at `idx` (home slot `home`) into the removed slot `hole`? -/')
    L.append('def shiftDec (size hole idx home : BitVec 64) : Bool := %s' % dec.term)
    L.append('/-- `hashmap_hash_string`: initial value, one loop round, finalizer -/')
    L.append('def hashInit : BitVec 64 := %s' % init.term)
    L.append('def hashStep (hash : BitVec 64) (c : BitVec 8) : BitVec 64 := %s' % step.term)
    L.append('def hashFinal (hash : BitVec 64) : BitVec 64 := %s' % fin.term)
    L.append('/-- `while ((c = *key++)) hash = step hash c;` over the bytes of the key (none of them 0) -/')
    L.append('def hashBytes (bytes : List (BitVec 8)) : BitVec 64 := hashFinal (bytes.foldl hashStep hashInit)')
    L.append('end Lm.Generated.Map')
    return write_if_changed(os.path.join(outdir, 'Map.lean'), '\n'.join(L) + '\n')


if __name__ == '__main__':
    out = sys.argv[1] if len(sys.argv) > 1 else os.path.join(os.path.dirname(os.path.dirname(os.path.abspath(__file__))), 'lean', 'Lm', 'Generated')
    try:
        ch = generate(out)
        print('generated Map.lean', 'changed' if ch else 'unchanged')
    except Unsupported as e:
        print('EXTRACT-FAIL', e)
        sys.exit(3)
