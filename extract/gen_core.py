"""Tie A for the core machine (C01, C07, C09, C14, C15-C18): regenerated from /repo on every run

  Lm/Generated/CoreGuards.lean   for every public function of ctx.c / mod.c / ps.c / src.c / evts.c: the ordered list of
                                 guard statements in front of its first other statement, as (condition text, returned code),
                                 read from clang's AST *after* macro expansion (so an edit of M_MOD_ASSERT & co. shows up in
                                 every function that uses it), plus the flag / state constants the conditions mention;
  Lm/Generated/Statics.lean      the inventory of every object with static storage duration defined in Lib/ (file scope and
                                 function scope), with its type class (const / synchronisation object / plain) and every site
                                 that writes it or lets its address escape, with the kind of the enclosing function
                                 (constructor, destructor, pthread_once routine, ordinary).

  Lm/Generated/Threads.lean      for every function that Lib/core hands to another thread (m_thpool_add / pthread_create): everything
                                 reachable from it through direct calls (functions defined in Lib/ are followed), the indirect
                                 calls it makes, and every store through a pointer in the functions followed.

The Lean side (Lm/Inst/CoreTie.lean) states what the model was written against and proves the generated tables equal to it.
Anything the walkers do not understand raises Unsupported (a broken obligation, never a default)."""
import json, os, subprocess, sys, glob
sys.path.insert(0, os.path.dirname(__file__))
from cast import REPO, CFLAGS, Unsupported, write_if_changed, const_printer

API_TUS = ['Lib/core/ctx.c', 'Lib/core/mod.c', 'Lib/core/ps.c', 'Lib/core/src.c', 'Lib/core/evts.c']
ALL_TUS = ['Lib/core/ctx.c', 'Lib/core/mod.c', 'Lib/core/ps.c', 'Lib/core/evts.c', 'Lib/core/src.c', 'Lib/core/main.c',
           'Lib/core/fs/fs_noop.c', 'Lib/core/poll/epoll.c', 'Lib/core/poll/cmn_linux.c', 'Lib/structs/map.c',
           'Lib/structs/queue.c', 'Lib/structs/stack.c', 'Lib/structs/list.c', 'Lib/structs/bst.c', 'Lib/structs/itr.c',
           'Lib/mem/mem.c', 'Lib/thpool/thpool.c', 'Lib/utils/mem.c', 'Lib/utils/log.c', 'Lib/utils/utils.c']


def tu_ast(path):
    p = subprocess.run(['clang-14'] + CFLAGS + ['-fsyntax-only', '-Xclang', '-ast-dump=json', os.path.join(REPO, path)],
                       capture_output=True, text=True)
    if p.returncode != 0:
        raise Unsupported('clang failed on %s: %s' % (path, p.stderr[:400]))
    return json.loads(p.stdout)


# ---------------------------------------------------------------- expression printer (guard conditions)

def strip(n):
    """skip nodes that do not change the meaning of a condition"""
    while n.get('kind') in ('ImplicitCastExpr', 'ParenExpr', 'CStyleCastExpr', 'ConstantExpr') and n.get('inner'):
        n = n['inner'][-1]
    return n


def pp(n):
    n = strip(n)
    k = n.get('kind')
    if k == 'DeclRefExpr':
        return n['referencedDecl']['name']
    if k == 'IntegerLiteral':
        return str(int(n['value']))
    if k == 'CharacterLiteral':
        return str(int(n['value']))
    if k == 'StringLiteral':
        return n['value']
    if k == 'MemberExpr':
        base, arrow = strip(n['inner'][0]), n.get('isArrow')
        while base.get('kind') == 'MemberExpr' and not base.get('name'):
            # member of an anonymous struct / union: `a->x` where x lives in an unnamed member of *a
            arrow = base.get('isArrow')
            base = strip(base['inner'][0])
        if not n.get('name'):
            return pp(base)
        return pp(base) + ('->' if arrow else '.') + n['name']
    if k == 'UnaryOperator':
        op = n['opcode']
        x = pp(n['inner'][0])
        return (x + op) if n.get('isPostfix') else (op + x)
    if k == 'BinaryOperator':
        return '(' + pp(n['inner'][0]) + ' ' + n['opcode'] + ' ' + pp(n['inner'][1]) + ')'
    if k == 'CallExpr':
        f = pp(n['inner'][0])
        return f + '(' + ', '.join(pp(a) for a in n['inner'][1:]) + ')'
    if k == 'ArraySubscriptExpr':
        return pp(n['inner'][0]) + '[' + pp(n['inner'][1]) + ']'
    if k == 'ConditionalOperator':
        return '(' + pp(n['inner'][0]) + ' ? ' + pp(n['inner'][1]) + ' : ' + pp(n['inner'][2]) + ')'
    if k == 'UnaryExprOrTypeTraitExpr':
        return n.get('name', 'sizeof') + '(' + (n.get('argType', {}).get('qualType') or pp(n['inner'][0])) + ')'
    raise Unsupported('guard condition: unsupported node %s' % k)


def const_int(n):
    n = strip(n)
    if n.get('kind') == 'IntegerLiteral':
        return int(n['value'])
    if n.get('kind') == 'UnaryOperator' and n.get('opcode') == '-':
        return -const_int(n['inner'][0])
    return None


def guard_of(stmt):
    """`if (__builtin_expect(!!(!(cond)), 0)) { log; return CODE; }`  ->  (cond text, CODE)   else None"""
    if stmt.get('kind') != 'IfStmt' or len(stmt.get('inner', [])) != 2:
        return None
    cond, then = stmt['inner']
    c = strip(cond)
    if c.get('kind') == 'CallExpr' and pp(c['inner'][0]) == '__builtin_expect':
        c = strip(c['inner'][1])
    # the guard fires when `c` is true; the condition that must hold is its negation
    nots = 0
    while c.get('kind') == 'UnaryOperator' and c.get('opcode') == '!':
        c = strip(c['inner'][0])
        nots += 1
    cond_txt = pp(c) if nots % 2 == 1 else '!' + pp(c)
    body = then.get('inner', []) if then.get('kind') == 'CompoundStmt' else [then]
    rets = [s for s in body if s.get('kind') == 'ReturnStmt']
    if len(rets) != 1 or body[-1] is not rets[0]:
        return None
    if any(s.get('kind') not in ('CallExpr', 'ReturnStmt', 'NullStmt') for s in body):
        return None
    rv = rets[0].get('inner')
    code = None
    if rv:
        code = const_int(rv[0])
        if code is None:
            r = strip(rv[0])
            code_txt = pp(r)
            return (cond_txt, code_txt)
    else:
        return (cond_txt, 'void')
    return (cond_txt, code)


def leading_guards(fn):
    body = [c for c in fn.get('inner', []) if c.get('kind') == 'CompoundStmt']
    if not body:
        return None
    out = []
    for st in body[0].get('inner', []):
        if st.get('kind') == 'NullStmt':
            continue
        g = guard_of(st)
        if g is not None:
            out.append(g)
            continue
        # declarations of locals computed from the arguments may sit between guards (`m_ctx_t *c = m_ctx();`,
        # token bookkeeping): they are recorded as steps so that their position relative to the guards is pinned
        if st.get('kind') == 'DeclStmt':
            names = [d.get('name', '?') for d in st.get('inner', []) if d.get('kind') == 'VarDecl']
            inits = []
            for d in st.get('inner', []):
                if d.get('kind') == 'VarDecl' and d.get('inner'):
                    try:
                        inits.append(pp(d['inner'][-1]))
                    except Unsupported:
                        inits.append('?')
            out.append(('let ' + ','.join(names) + ' = ' + ','.join(inits), STEP))
            continue
        if st.get('kind') in ('UnaryOperator', 'CompoundAssignOperator', 'BinaryOperator', 'CallExpr'):
            # side effects between guards (token consumption, statistics) — keep going while guards may follow
            try:
                out.append(('do ' + pp(st), STEP))
            except Unsupported:
                out.append(('do ?', STEP))
            continue
        tail = None
        if st.get('kind') == 'ReturnStmt' and st.get('inner'):
            r = strip(st['inner'][0])
            if r.get('kind') == 'CallExpr':
                try:
                    tail = ('return ' + pp(r['inner'][0]), TAIL)
                except Unsupported:
                    tail = None
        break
    else:
        tail = None
    # drop the trailing non-guard steps: the list ends with the last guard
    while out and (out[-1][0].startswith('do ') or out[-1][0].startswith('let ')):
        out.pop()
    if tail:
        out.append(tail)
    return out


def public_functions(ast, path):
    res = []
    for d in ast.get('inner', []):
        if d.get('kind') != 'FunctionDecl':
            continue
        if not any(c.get('kind') == 'CompoundStmt' for c in d.get('inner', [])):
            continue
        res.append(d)
    return res


# ---------------------------------------------------------------- statics inventory

STEP = 7777      # code of the non-guard statements recorded between guards
TAIL = 7778      # `return f(…)`: the function the public entry point delegates to

SYNC_TYPES = ('pthread_once_t', 'pthread_mutex_t', 'pthread_cond_t', '_Atomic', 'atomic_')


class FileTracker:
    def __init__(self):
        self.cur = None

    def loc(self, l):
        if not isinstance(l, dict):
            return
        for k in ('spellingLoc', 'expansionLoc'):
            if k in l:
                self.loc(l[k])
        if 'file' in l:
            self.cur = l['file']


def walk_statics(ast, path, inv):
    ft = FileTracker()
    main = os.path.join(REPO, path)
    fn_kinds = {}     # function name -> kind
    once_routines = set()
    var_by_id = {}

    def visit(n, fn, parents):
        if not isinstance(n, dict):
            return
        ft.loc(n.get('loc'))
        rng = n.get('range') or {}
        k = n.get('kind')
        here = ft.cur
        ft.loc(rng.get('begin'))
        if k == 'FunctionDecl':
            kind = 'plain'
            for c in n.get('inner', []):
                if c.get('kind') == 'ConstructorAttr':
                    kind = 'constructor'
                if c.get('kind') == 'DestructorAttr':
                    kind = 'destructor'
            if any(c.get('kind') == 'CompoundStmt' for c in n.get('inner', [])) or n['name'] not in fn_kinds:
                fn_kinds[n['name']] = kind if kind != 'plain' else fn_kinds.get(n['name'], 'plain')
            fn = n['name']
        if k == 'VarDecl':
            sc = n.get('storageClass')
            is_static_storage = fn is None or sc == 'static'
            f = ft.cur or main
            if is_static_storage and f.startswith(REPO + '/Lib'):
                q = n['type'].get('qualType', '')
                dq = n['type'].get('desugaredQualType', q)
                # top-level constness: `T *const x`, `const T x`
                top = q.split('[')[0].strip()
                const = top.endswith('const') or (top.startswith('const ') and '*' not in top)
                sync = any(s in q or s in dq for s in SYNC_TYPES)
                if fn is None and sc != 'static':
                    # external linkage: one object for all translation units, declared `extern` in headers
                    key = ('', n['name'], '')
                else:
                    key = (os.path.relpath(f, REPO), n['name'], fn or '')
                var_by_id[n['id']] = key
                e = inv.setdefault(key, {'type': q, 'const': const, 'sync': sync, 'sites': set(), 'def': None})
                if sc != 'extern':
                    e['def'] = os.path.relpath(f, REPO)
        if k == 'CallExpr' and n.get('inner'):
            try:
                callee = pp(n['inner'][0])
            except Unsupported:
                callee = '?'
            if callee == 'pthread_once' and len(n['inner']) >= 3:
                try:
                    once_routines.add(pp(n['inner'][2]))
                except Unsupported:
                    pass
        if k == 'DeclRefExpr' and n.get('referencedDecl', {}).get('id') in var_by_id:
            key = var_by_id[n['referencedDecl']['id']]
            how = classify_use(n, parents)
            if how != 'read':
                inv[key]['sites'].add((how, fn or '<init>'))
        for c in n.get('inner', []) or []:
            visit(c, fn, parents + [n])
        ft.loc(rng.get('end'))

    visit(ast, None, [])
    return fn_kinds, once_routines


def classify_use(ref, parents):
    """how a reference to a static object is used: read / write / escape"""
    child = ref
    for p in reversed(parents):
        k = p.get('kind')
        if k in ('ParenExpr',):
            child = p
            continue
        if k == 'ImplicitCastExpr':
            ck = p.get('castKind')
            if ck == 'LValueToRValue':
                return 'read'
            if ck == 'FunctionToPointerDecay':
                return 'read'
            if ck == 'ArrayToPointerDecay':
                child = p
                # an array decayed to a pointer: reading through it is fine, passing it on is an escape
                continue
            child = p
            continue
        if k == 'MemberExpr':
            child = p
            continue
        if k == 'ArraySubscriptExpr':
            if p['inner'][0] is child or strip(p['inner'][0]) is strip(child):
                child = p
                continue
            return 'read'
        if k == 'UnaryOperator':
            op = p.get('opcode')
            if op in ('++', '--'):
                return 'write'
            if op == '&':
                return 'escape'
            if op == '*':
                child = p
                continue
            return 'read'
        if k == 'CompoundAssignOperator':
            return 'write' if p['inner'][0] is child else 'read'
        if k == 'BinaryOperator':
            if p.get('opcode') == '=' and p['inner'][0] is child:
                return 'write'
            if p.get('opcode') == '=':
                return 'escape' if child.get('castKind') == 'ArrayToPointerDecay' else 'read'
            return 'read'
        if k == 'CallExpr':
            if p['inner'][0] is child:
                return 'read'
            return 'escape' if child.get('castKind') == 'ArrayToPointerDecay' else 'read'
        if k in ('UnaryExprOrTypeTraitExpr',):
            return 'read'
        if k in ('VarDecl', 'InitListExpr', 'ReturnStmt'):
            return 'escape' if child.get('castKind') == 'ArrayToPointerDecay' else 'read'
        return 'read'
    return 'read'



# ---------------------------------------------------------------- footprint of the functions run on other threads

SPAWNERS = {'m_thpool_add': 1, 'pthread_create': 2}     # callee -> index of the argument that is the thread function


def function_bodies(ast, idx):
    for n in ast.get('inner', []):
        if n.get('kind') == 'FunctionDecl' and any(c.get('kind') == 'CompoundStmt' for c in n.get('inner', [])):
            idx.setdefault(n['name'], n)


def walk(n, f, parents=()):
    if not isinstance(n, dict):
        return
    f(n, parents)
    for c in n.get('inner', []) or []:
        walk(c, f, parents + (n,))


def spawn_sites(ast):
    """(spawning function, thread function) for every call of a spawner whose function argument is a function name"""
    res = []
    for fn in ast.get('inner', []):
        if fn.get('kind') != 'FunctionDecl':
            continue
        def f(n, parents, fn=fn):
            if n.get('kind') == 'CallExpr' and n.get('inner'):
                callee = strip(n['inner'][0])
                if callee.get('kind') == 'DeclRefExpr' and callee['referencedDecl']['name'] in SPAWNERS:
                    i = SPAWNERS[callee['referencedDecl']['name']] + 1
                    if i < len(n['inner']):
                        a = strip(n['inner'][i])
                        if a.get('kind') == 'DeclRefExpr' and a['referencedDecl'].get('kind') == 'FunctionDecl':
                            res.append((fn['name'], a['referencedDecl']['name']))
                        else:
                            raise Unsupported('thread function of %s in %s is not a function name' % (callee['referencedDecl']['name'], fn['name']))
        walk(fn, f)
    return res


def footprint(entry, bodies):
    """(direct callees reachable, indirect callee expressions, stores through pointers) of a thread function"""
    calls, indirect, writes = set(), set(), set()
    todo, seen = [entry], set()
    while todo:
        name = todo.pop()
        if name in seen or name not in bodies:
            continue
        seen.add(name)
        def f(n, parents, name=name):
            k = n.get('kind')
            if k == 'CallExpr' and n.get('inner'):
                c = strip(n['inner'][0])
                if c.get('kind') == 'DeclRefExpr' and c['referencedDecl'].get('kind') == 'FunctionDecl':
                    calls.add(c['referencedDecl']['name'])
                    todo.append(c['referencedDecl']['name'])
                else:
                    try:
                        indirect.add('%s: %s' % (name, pp(c)))
                    except Unsupported:
                        indirect.add('%s: ?' % name)
            if k == 'AtomicExpr' and len(n.get('inner', [])) >= 3:
                # atomic store / exchange / read-modify-write (a plain atomic load has two operands): a store through its pointer
                try:
                    writes.add('%s: atomic %s' % (name, pp(n['inner'][0])))
                except Unsupported:
                    writes.add('%s: atomic ?' % name)
            lhs = None
            if k == 'BinaryOperator' and n.get('opcode') == '=':
                lhs = n['inner'][0]
            if k == 'CompoundAssignOperator':
                lhs = n['inner'][0]
            if k == 'UnaryOperator' and n.get('opcode') in ('++', '--'):
                lhs = n['inner'][0]
            if lhs is not None:
                try:
                    t = pp(lhs)
                except Unsupported:
                    t = '?'
                if '->' in t or t.startswith('*') or '[' in t or t == '?':
                    writes.add('%s: %s' % (name, t))
        walk(bodies[name], f)
    return sorted(calls), sorted(indirect), sorted(writes)


def lean_str(s):
    return '"' + s.replace('\\', '\\\\').replace('"', '\\"').replace('\n', '\\n') + '"'


def generate(outdir):
    # ---- guards
    L = ['/- GENERATED by extract/gen_core.py from %s — do not edit. -/' % ', '.join(API_TUS),
         'namespace Lm.Generated.CoreGuards',
         '/-- public function ↦ its leading guard statements in order: (condition that must hold, code returned otherwise);',
         'code 7777 entries are the statements found between two guards, 7778 the function an entry point delegates to;\n   a returned NULL / false / 0 is code 0 -/',
         'def guards : List (String × List (String × Int)) := [']
    rows = []
    asts = {}
    for tu in API_TUS:
        ast = tu_ast(tu)
        asts[tu] = ast
        for fn in public_functions(ast, tu):
            gs = leading_guards(fn)
            if gs is None:
                continue
            public = fn['name'].startswith('m_') and fn.get('storageClass') != 'static'
            if not public and not any(isinstance(c, int) and c < 0 for _, c in gs):
                continue
            items = []
            for cond, code in gs:
                if not isinstance(code, int):
                    # NULL / false / void returning getters: encode by a fixed out-of-band number
                    code = {'void': 1000, '0': 1001}.get(str(code), 1002)
                items.append('(%s, %d)' % (lean_str(cond), code))
            rows.append('  (%s, [%s])' % (lean_str(fn['name']), ', '.join(items)))
    if len(rows) < 40:
        raise Unsupported('only %d public functions found' % len(rows))
    L.append(',\n'.join(rows))
    L.append(']')
    consts = const_printer('Lib/core/src.h', {
        'M_MOD_IDLE': 'M_MOD_IDLE', 'M_MOD_RUNNING': 'M_MOD_RUNNING', 'M_MOD_PAUSED': 'M_MOD_PAUSED',
        'M_MOD_STOPPED': 'M_MOD_STOPPED', 'M_MOD_ZOMBIE': 'M_MOD_ZOMBIE',
        'M_MOD_ALLOW_REPLACE': 'M_MOD_ALLOW_REPLACE', 'M_MOD_PERSIST': 'M_MOD_PERSIST', 'M_MOD_DENY_CTX': 'M_MOD_DENY_CTX',
        'M_MOD_DENY_PUB': 'M_MOD_DENY_PUB', 'M_MOD_DENY_SUB': 'M_MOD_DENY_SUB',
        'M_CTX_IDLE': 'M_CTX_IDLE', 'M_CTX_LOOPING': 'M_CTX_LOOPING', 'M_CTX_PERSIST': 'M_CTX_PERSIST',
        'M_SRC_PRIO_LOW': 'M_SRC_PRIO_LOW', 'M_SRC_PRIO_NORM': 'M_SRC_PRIO_NORM', 'M_SRC_PRIO_HIGH': 'M_SRC_PRIO_HIGH',
        'M_SRC_ONESHOT': 'M_SRC_ONESHOT', 'M_SRC_FD_AUTOCLOSE': 'M_SRC_FD_AUTOCLOSE', 'M_SRC_INTERNAL': 'M_SRC_INTERNAL',
        'M_PS_AUTOFREE': 'M_PS_AUTOFREE',
        'EPERM': 'EPERM', 'ENOENT': 'ENOENT', 'EAGAIN': 'EAGAIN', 'EACCES': 'EACCES', 'EEXIST': 'EEXIST', 'EINVAL': 'EINVAL',
        'EPIPE': 'EPIPE', 'ENOMEM': 'ENOMEM'}, extra_cflags=['-DLIBMODULE_LOG_CTX=CORE', '-include', 'errno.h', '-include', os.path.join(REPO, 'Lib/core/ctx.h')])
    if len(consts) < 20:
        raise Unsupported('constant printer returned %d values' % len(consts))
    for k in sorted(consts):
        L.append('def %s : Int := %d' % (k, consts[k]))
    L.append('end Lm.Generated.CoreGuards')
    ch1 = write_if_changed(os.path.join(outdir, 'CoreGuards.lean'), '\n'.join(L) + '\n')

    # ---- statics
    inv = {}
    all_asts = {}
    fn_kinds, once = {}, set()
    for tu in ALL_TUS:
        if not os.path.exists(os.path.join(REPO, tu)):
            continue
        ast = asts.get(tu) or tu_ast(tu)
        all_asts[tu] = ast
        fk, on = walk_statics(ast, tu, inv)
        for k, v in fk.items():
            if v != 'plain' or k not in fn_kinds:
                fn_kinds[k] = v
        once |= on
    S = ['/- GENERATED by extract/gen_core.py from every translation unit of Lib/ (Linux build) — do not edit. -/',
         'namespace Lm.Generated.Statics',
         'structure Site where', '  how : String', '  fn : String', '  fnKind : String', '  deriving DecidableEq, Repr',
         'structure Entry where', '  file : String', '  name : String', '  scope : String', '  type : String', '  const : Bool',
         '  sync : Bool', '  sites : List Site', '  deriving DecidableEq, Repr',
         '/-- every object with static storage duration defined in Lib/, with the sites that write it or let its address escape -/',
         'def inventory : List Entry := [']
    ents = []
    for key in sorted(inv):
        e = inv[key]
        sites = []
        for how, fn in sorted(e['sites']):
            kind = 'once' if fn in once else fn_kinds.get(fn, 'plain')
            sites.append('{ how := %s, fn := %s, fnKind := %s }' % (lean_str(how), lean_str(fn), lean_str(kind)))
        if e.get('def') is None and key[0] == '':
            continue      # declared in a header of Lib/ but defined nowhere in the Linux build
        ents.append('  { file := %s, name := %s, scope := %s, type := %s, const := %s, sync := %s, sites := [%s] }' % (
            lean_str(key[0] or e['def']), lean_str(key[1]), lean_str(key[2]), lean_str(e['type']), 'true' if e['const'] else 'false',
            'true' if e['sync'] else 'false', ', '.join(sites)))
    if not ents:
        raise Unsupported('no static objects found at all (the walker is broken)')
    S.append(',\n'.join(ents))
    S.append(']')
    S.append('end Lm.Generated.Statics')
    ch2 = write_if_changed(os.path.join(outdir, 'Statics.lean'), '\n'.join(S) + '\n')

    # ---- thread functions spawned by Lib/core
    bodies = {}
    for tu in ALL_TUS:
        if tu in all_asts:
            function_bodies(all_asts[tu], bodies)
    T = ['/- GENERATED by extract/gen_core.py from every translation unit of Lib/ (Linux build) — do not edit. -/',
         'namespace Lm.Generated.Threads',
         'structure Entry where', '  spawnedBy : String', '  entry : String', '  calls : List String', '  indirect : List String',
         '  writes : List String', '  deriving DecidableEq, Repr',
         '/-- every function Lib/core hands to another thread, with all it can reach: functions called directly (those defined in',
         'Lib/ are followed), callee expressions of indirect calls, and stores through pointers (`function: lvalue`) -/',
         'def entries : List Entry := [']
    rows = []
    for tu in ALL_TUS:
        if not tu.startswith('Lib/core/') or tu not in all_asts:
            continue
        for by, entry in sorted(set(spawn_sites(all_asts[tu]))):
            calls, ind, wr = footprint(entry, bodies)
            if entry not in bodies:
                raise Unsupported('thread function %s has no body in Lib/' % entry)
            ls = lambda l: '[' + ', '.join(lean_str(x) for x in l) + ']'
            rows.append('  { spawnedBy := %s, entry := %s, calls := %s, indirect := %s, writes := %s }' % (
                lean_str(by), lean_str(entry), ls(calls), ls(ind), ls(wr)))
    T.append(',\n'.join(rows))
    T.append(']')
    T.append('end Lm.Generated.Threads')
    ch3 = write_if_changed(os.path.join(outdir, 'Threads.lean'), '\n'.join(T) + '\n')
    return ch1 or ch2 or ch3


if __name__ == '__main__':
    out = sys.argv[1] if len(sys.argv) > 1 else os.path.join(os.path.dirname(os.path.dirname(os.path.abspath(__file__))), 'lean', 'Lm', 'Generated')
    try:
        ch = generate(out)
        print('generated CoreGuards.lean, Statics.lean, Threads.lean', 'changed' if ch else 'unchanged')
    except Unsupported as e:
        print('EXTRACT-FAIL', e)
        sys.exit(3)
