/* Shared infrastructure for the correspondence harnesses.
 *
 * A script file holds many scripts; each starts with a line "# <id>".  Scripts are executed in a
 * forked child so that a sanitizer abort / crash is a *result* ("FAULT <what>") and not the end of
 * the run: the parent restarts a child at the next script.  Output goes to stdout (one canonical
 * line per observable event); sanitizer reports go to stderr.
 */
#pragma once
#define _GNU_SOURCE
#include <stdio.h>
#include <stdlib.h>
#include <string.h>
#include <unistd.h>
#include <errno.h>
#include <signal.h>
#include <sys/wait.h>
#include <sys/mman.h>

typedef struct {
    char **lines;
    int nlines;
    char id[64];
} script_t;

static script_t *g_scripts;
static int g_nscripts;

static void load_scripts(const char *path) {
    FILE *f = fopen(path, "r");
    if (!f) { perror(path); exit(2); }
    char *line = NULL; size_t cap = 0; ssize_t n;
    int cap_s = 0;
    script_t *cur = NULL; int cap_l = 0;
    while ((n = getline(&line, &cap, f)) > 0) {
        while (n > 0 && (line[n-1] == '\n' || line[n-1] == '\r' || line[n-1] == ' ')) line[--n] = 0;
        if (line[0] == '#' && line[1] == ' ') {
            if (g_nscripts == cap_s) { cap_s = cap_s ? cap_s * 2 : 64; g_scripts = realloc(g_scripts, cap_s * sizeof(script_t)); }
            cur = &g_scripts[g_nscripts++];
            memset(cur, 0, sizeof(*cur));
            snprintf(cur->id, sizeof(cur->id), "%s", line + 2);
            cap_l = 0;
            continue;
        }
        if (!cur || n == 0) continue;
        if (cur->nlines == cap_l) { cap_l = cap_l ? cap_l * 2 : 32; cur->lines = realloc(cur->lines, cap_l * sizeof(char *)); }
        cur->lines[cur->nlines++] = strdup(line);
    }
    free(line);
    fclose(f);
}

/* split a line into at most max tokens (destructive) */
static int split_ws(char *s, char **tok, int max) {
    int n = 0;
    while (*s && n < max) {
        while (*s == ' ') s++;
        if (!*s) break;
        tok[n++] = s;
        while (*s && *s != ' ') s++;
        if (*s) *s++ = 0;
    }
    return n;
}

/* implemented by each harness: run one script (fresh library state), printing output lines */
static void run_script(const script_t *s);

/* shared progress cell so the parent knows which script the child was in when it died */
static volatile int *g_progress;

static int harness_main(int argc, char **argv) {
    if (argc < 2) { fprintf(stderr, "usage: %s <scripts>\n", argv[0]); return 2; }
    load_scripts(argv[1]);
    g_progress = mmap(NULL, sizeof(int), PROT_READ | PROT_WRITE, MAP_SHARED | MAP_ANONYMOUS, -1, 0);
    *g_progress = 0;
    setvbuf(stdout, NULL, _IOLBF, 0);
    int next = 0;
    while (next < g_nscripts) {
        fflush(stdout);
        pid_t pid = fork();
        if (pid == 0) {
            for (int i = next; i < g_nscripts; i++) {
                *g_progress = i;
                printf("## %s\n", g_scripts[i].id);
                run_script(&g_scripts[i]);
                fflush(stdout);
#ifdef HARNESS_FORK_EACH
                /* one script per process: no library state survives a script */
                *g_progress = i + 1;
                _exit(0);
#endif
            }
            *g_progress = g_nscripts;
            _exit(0);
        }
        int st = 0;
        waitpid(pid, &st, 0);
        if (*g_progress >= g_nscripts) break;
#ifdef HARNESS_FORK_EACH
        if (WIFEXITED(st) && WEXITSTATUS(st) == 0) { next = *g_progress; continue; }
#endif
        /* child died inside script *g_progress */
        if (WIFSIGNALED(st)) printf("FAULT signal %d\n", WTERMSIG(st));
        else printf("FAULT exit %d\n", WEXITSTATUS(st));
        next = *g_progress + 1;
    }
    fflush(stdout);
    return 0;
}
