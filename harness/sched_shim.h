/* Scheduler shim for Lib/thpool/thpool.c (property C06).
 *
 * thpool.c — and only thpool.c — is compiled with `-include harness/sched_shim.h`.  Every pthread
 * primitive the pool uses and every access to its two shared containers (`tasks`, `threads`) is
 * redirected to a function of the harness (thpool_harness.c) that
 *   - is a scheduling point of a deterministic cooperative scheduler (only the thread holding the
 *     token runs; the next runnable thread is drawn from a PRNG seeded per schedule),
 *   - logs one event line in the vocabulary of the Lean model `Lm.Thpool`,
 *   - flags use of a destroyed / freed primitive and deadlock.
 * No source line of libmodule is changed.
 */
#pragma once
#include <pthread.h>
#include <stddef.h>
#include <sys/types.h>
#include "public/module/structs/queue.h"
#include "public/module/structs/list.h"

int shim_mutex_init(pthread_mutex_t *m, const pthread_mutexattr_t *a);
int shim_mutex_destroy(pthread_mutex_t *m);
int shim_mutex_lock(pthread_mutex_t *m);
int shim_mutex_unlock(pthread_mutex_t *m);
int shim_cond_init(pthread_cond_t *c, const pthread_condattr_t *a);
int shim_cond_destroy(pthread_cond_t *c);
int shim_cond_wait(pthread_cond_t *c, pthread_mutex_t *m);
int shim_cond_signal(pthread_cond_t *c);
int shim_cond_broadcast(pthread_cond_t *c);
int shim_create(pthread_t *th, const pthread_attr_t *attr, void *(*fn)(void *), void *arg);
int shim_join(pthread_t th, void **ret);
int shim_attr_setdetachstate(pthread_attr_t *attr, int state);

ssize_t shim_queue_len(const m_queue_t *q);
int shim_queue_enqueue(m_queue_t *q, void *data);
void *shim_queue_dequeue(m_queue_t *q);
int shim_queue_free(m_queue_t **q);
ssize_t shim_list_len(const m_list_t *l);
int shim_list_insert(m_list_t *l, void *data);
int shim_list_free(m_list_t **l);

#ifndef SCHED_SHIM_IMPL
#define pthread_mutex_init          shim_mutex_init
#define pthread_mutex_destroy       shim_mutex_destroy
#define pthread_mutex_lock          shim_mutex_lock
#define pthread_mutex_unlock        shim_mutex_unlock
#define pthread_cond_init           shim_cond_init
#define pthread_cond_destroy        shim_cond_destroy
#define pthread_cond_wait           shim_cond_wait
#define pthread_cond_signal         shim_cond_signal
#define pthread_cond_broadcast      shim_cond_broadcast
#define pthread_create              shim_create
#define pthread_join                shim_join
#define pthread_attr_setdetachstate shim_attr_setdetachstate
#define m_queue_len                 shim_queue_len
#define m_queue_enqueue             shim_queue_enqueue
#define m_queue_dequeue             shim_queue_dequeue
#define m_queue_free                shim_queue_free
#define m_list_len                  shim_list_len
#define m_list_insert               shim_list_insert
#define m_list_free                 shim_list_free
#endif
