/* Correspondence harness for Lib/mem/mem.c (property C10).  Links the library's own objects. */
#include "common.h"
#include <stdint.h>
#include <stddef.h>
#include "public/module/mem/mem.h"
#include "mem.h"   /* Lib/utils/mem.h: memhook */

#define MAXB 4096
typedef struct { void *user; void *base; int child; int live; size_t size; } blk_t;
static blk_t B[MAXB];
static int nb;
static void *last_base; static size_t last_bytes; static int ncalloc;
static long outstanding;

static void *my_malloc(size_t n) { outstanding++; return malloc(n); }
static void *my_calloc(size_t a, size_t b) { outstanding++; ncalloc++; last_bytes = a * b; last_base = calloc(a, b); return last_base; }
static void my_free(void *p) {
    if (!p) return;
    outstanding--;
    for (int i = 0; i < nb; i++) if (B[i].base == p && B[i].live) { printf("free %d\n", i); B[i].live = 0; free(p); return; }
    printf("free ?\n");
    free(p);
}

static int find_user(void *u) { for (int i = 0; i < nb; i++) if (B[i].user == u && B[i].live) return i; return -1; }

static void dtor_cb(void *u) {
    int i = find_user(u);
    printf("dtor %d\n", i);
    if (i >= 0) {
        /* the block must still be fully usable while its destructor runs */
        volatile unsigned char *p = u; unsigned acc = 0;
        for (size_t k = 0; k < B[i].size; k++) acc += p[k];
        (void)acc;
        if (m_mem_size(u) != B[i].size) printf("dtor-size-mismatch %d\n", i);
        if (B[i].child >= 0) m_mem_unref(B[B[i].child].user);
    }
}

static void run_script(const script_t *s) {
    memhook._malloc = my_malloc; memhook._calloc = my_calloc; memhook._free = my_free;
    nb = 0; outstanding = 0;
    for (int l = 0; l < s->nlines; l++) {
        char buf[256]; snprintf(buf, sizeof buf, "%s", s->lines[l]);
        char *t[8]; int n = split_ws(buf, t, 8);
        if (n == 0) continue;
        if (!strcmp(t[0], "new") && n == 4) {
            size_t size = strtoull(t[1], NULL, 10); int d = atoi(t[2]); int child = !strcmp(t[3], "-") ? -1 : atoi(t[3]);
            ncalloc = 0;
            void *u = m_mem_new(size, d ? dtor_cb : NULL);
            if (!u || ncalloc != 1) { printf("new-failed\n"); continue; }
            B[nb].user = u; B[nb].base = last_base; B[nb].child = child; B[nb].live = 1; B[nb].size = size;
            memset(u, 0xA5, size);     /* every requested byte is writable (ASan checks the bounds) */
            printf("calloc %zu\n", last_bytes);
            printf("ptr%%A %zu\n", (size_t)((uintptr_t)u % _Alignof(max_align_t)));
            /* header recovered by the library == allocation start?  observable through m_mem_size + free */
            printf("hdr %zu\n", (size_t)(m_mem_size(u) == size ? 0 : 1));
            printf("= b%d\n", nb);
            nb++;
        } else if (!strcmp(t[0], "ref") && n == 2) {
            int i = atoi(t[1]); void *r = m_mem_ref(B[i].user);
            printf(r == B[i].user ? "= b%d\n" : "= ?%d\n", i);
        } else if (!strcmp(t[0], "unref") && n == 2) {
            int i = atoi(t[1]); void *r = m_mem_unref(B[i].user);
            printf(r ? "= nonnull\n" : "= nil\n");
        } else if (!strcmp(t[0], "unrefp") && n == 2) {
            int i = atoi(t[1]); void *p = B[i].user; m_mem_unrefp(&p);
            printf(p ? "= nonnull\n" : "= nil\n");
        } else if (!strcmp(t[0], "size") && n == 2) {
            int i = atoi(t[1]); printf("= %zu\n", m_mem_size(B[i].user));
        } else if (!strcmp(t[0], "null") && n == 2) {
            if (!strcmp(t[1], "ref")) printf(m_mem_ref(NULL) ? "= nonnull\n" : "= nil\n");
            else if (!strcmp(t[1], "unref")) printf(m_mem_unref(NULL) ? "= nonnull\n" : "= nil\n");
            else if (!strcmp(t[1], "unrefp")) { m_mem_unrefp(NULL); void *z = NULL; m_mem_unrefp(&z); printf("= void\n"); }
            else if (!strcmp(t[1], "size")) printf("= %zu\n", m_mem_size(NULL));
            else printf("bad-op\n");
        } else if (!strcmp(t[0], "end")) {
            printf("live %ld\n", outstanding);
        } else printf("bad-op\n");
    }
}

int main(int argc, char **argv) { return harness_main(argc, argv); }
