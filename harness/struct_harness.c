/* Correspondence harness for Lib/structs/{queue,stack,list}.c (property C12).
 * Links the library's own objects.  One container and at most one live iterator per script.
 *
 * Values are small integers used as fake pointers (the containers never dereference user data);
 * 0 is the NULL pointer.  The list comparator matches key % 8 against (element / 8) % 8: distinct pointers can compare equal, and it is not symmetric.
 *
 * Output per op:  `dtor v`* (destructor calls, in order), `= <result>`, after `it new`/`it next`
 * `cur v` when the iterator is live (the element a for-loop body would see), and after every op the
 * content as seen by m_*_iterate plus m_*_len:  `seq v… ; len n`.
 */
#include "common.h"
#include <stdint.h>
#include <stddef.h>
#include "public/module/structs/queue.h"
#include "public/module/structs/stack.h"
#include "public/module/structs/list.h"

enum { K_NONE, K_QUEUE, K_STACK, K_LIST };
static int kind;
static m_queue_t *Q; static m_queue_itr_t *QI;
static m_stack_t *S; static m_stack_itr_t *SI;
static m_list_t *L;  static m_list_itr_t *LI;

#define P(v) ((void *)(uintptr_t)(v))
#define V(p) ((unsigned long)(uintptr_t)(p))

static int quiet;
static void dtor_cb(void *p) { if (!quiet) printf("dtor %lu\n", V(p)); }
/* first argument: the caller's data, second: the list element (list.h); deliberately not symmetric */
static int cmp_cb(void *a, void *b) { return (int)(V(a) % 8) - (int)((V(b) / 8) % 8); }

/* iterate callback: prints the values; stops with rc > 0 before index stop_at (if >= 0) */
typedef struct { int idx; int stop_at; int is_cb; int started; } cbst_t;
static int iter_cb(void *up, void *data) {
    cbst_t *c = up;
    if (!c->started) { c->started = 1; if (c->is_cb) printf("cb"); }
    if (c->stop_at >= 0 && c->idx == c->stop_at) return 1;
    c->idx++;
    printf(" %lu", V(data));
    return 0;
}

static void pr_ptr(void *p) { if (p) printf("= %lu\n", V(p)); else printf("= nil\n"); }
static void pr_int(long r) { printf("= %ld\n", r); }

static void print_seq(void) {
    cbst_t c = { 0, -1, 0, 0 };
    long n = 0;
    printf("seq");
    switch (kind) {
    case K_QUEUE: m_queue_iterate(Q, iter_cb, &c); n = m_queue_len(Q); break;
    case K_STACK: m_stack_iterate(S, iter_cb, &c); n = m_stack_len(S); break;
    case K_LIST:  m_list_iterate(L, iter_cb, &c);  n = m_list_len(L);  break;
    }
    printf(" ; len %ld\n", n);
}

static void print_cur(void) {
    void *d = NULL; int live = 0;
    switch (kind) {
    case K_QUEUE: if (QI) { live = 1; d = m_queue_itr_get_data(QI); } break;
    case K_STACK: if (SI) { live = 1; d = m_stack_itr_get_data(SI); } break;
    case K_LIST:  if (LI) { live = 1; d = m_list_itr_get_data(LI); } break;
    }
    if (live) { if (d) printf("cur %lu\n", V(d)); else printf("cur nil\n"); }
}

/* the API has no call to abandon an iterator: the harness releases the stale object itself */
static void drop_itr(void) { free(QI); free(SI); free(LI); QI = NULL; SI = NULL; LI = NULL; }

static int do_iterate(int stop_at) {
    /* the `cb` line (values handed to the callback) is printed when the callback ran or the call succeeded */
    cbst_t c = { 0, stop_at, 1, 0 };
    int rc = 0;
    switch (kind) {
    case K_QUEUE: rc = m_queue_iterate(Q, iter_cb, &c); break;
    case K_STACK: rc = m_stack_iterate(S, iter_cb, &c); break;
    case K_LIST:  rc = m_list_iterate(L, iter_cb, &c); break;
    }
    if (c.started) printf("\n"); else if (rc == 0) printf("cb\n");
    return rc;
}

/* returns 0 when the line is not an op of the current kind */
static int do_op(char **t, int n) {
    const char *o = t[0];
    unsigned long v = n >= 2 ? strtoul(t[n - 1], NULL, 10) : 0;
    if (!strcmp(o, "it") && n >= 2) {
        const char *s = t[1];
        if (!strcmp(s, "new") && n == 2) {
            drop_itr();
            int ok = 0;
            switch (kind) {
            case K_QUEUE: QI = m_queue_itr_new(Q); ok = QI != NULL; break;
            case K_STACK: SI = m_stack_itr_new(S); ok = SI != NULL; break;
            case K_LIST:  LI = m_list_itr_new(L);  ok = LI != NULL; break;
            }
            printf(ok ? "= itr\n" : "= nil\n");
            print_cur();
            return 1;
        }
        if (!strcmp(s, "next") && n == 2) {
            switch (kind) {
            case K_QUEUE: pr_int(m_queue_itr_next(&QI)); break;
            case K_STACK: pr_int(m_stack_itr_next(&SI)); break;
            case K_LIST:  pr_int(m_list_itr_next(&LI)); break;
            }
            print_cur();
            return 1;
        }
        if (!strcmp(s, "get") && n == 2) {
            switch (kind) {
            case K_QUEUE: pr_ptr(m_queue_itr_get_data(QI)); break;
            case K_STACK: pr_ptr(m_stack_itr_get_data(SI)); break;
            case K_LIST:  pr_ptr(m_list_itr_get_data(LI)); break;
            }
            return 1;
        }
        if (!strcmp(s, "set") && n == 3) {
            switch (kind) {
            case K_QUEUE: pr_int(m_queue_itr_set_data(QI, P(v))); break;
            case K_STACK: pr_int(m_stack_itr_set_data(SI, P(v))); break;
            case K_LIST:  pr_int(m_list_itr_set_data(LI, P(v))); break;
            }
            return 1;
        }
        if (!strcmp(s, "rm") && n == 2) {
            switch (kind) {
            case K_QUEUE: pr_int(m_queue_itr_remove(QI)); break;
            case K_STACK: pr_int(m_stack_itr_remove(SI)); break;
            case K_LIST:  pr_int(m_list_itr_remove(LI)); break;
            }
            return 1;
        }
        if (!strcmp(s, "ins") && n == 3 && kind == K_LIST) {
            pr_int(m_list_itr_insert(LI, P(v)));
            return 1;
        }
        return 0;
    }
    if (!strcmp(o, "len") && n == 1) {
        switch (kind) {
        case K_QUEUE: pr_int(m_queue_len(Q)); break;
        case K_STACK: pr_int(m_stack_len(S)); break;
        case K_LIST:  pr_int(m_list_len(L)); break;
        }
        return 1;
    }
    if (!strcmp(o, "clear") && n == 1) {
        switch (kind) {
        case K_QUEUE: pr_int(m_queue_clear(Q)); break;
        case K_STACK: pr_int(m_stack_clear(S)); break;
        case K_LIST:  pr_int(m_list_clear(L)); break;
        }
        return 1;
    }
    if (!strcmp(o, "free") && n == 1) {
        drop_itr();
        switch (kind) {
        case K_QUEUE: pr_int(m_queue_free(&Q)); break;
        case K_STACK: pr_int(m_stack_free(&S)); break;
        case K_LIST:  pr_int(m_list_free(&L)); break;
        }
        return 1;
    }
    if (!strcmp(o, "iterate") && n <= 2) {
        pr_int(do_iterate(n == 2 ? (int)v : -1));
        return 1;
    }
    if (kind == K_QUEUE) {
        if (!strcmp(o, "enq") && n == 2) { pr_int(m_queue_enqueue(Q, P(v))); return 1; }
        if (!strcmp(o, "deq") && n == 1) { pr_ptr(m_queue_dequeue(Q)); return 1; }
        if (!strcmp(o, "peek") && n == 1) { pr_ptr(m_queue_peek(Q)); return 1; }
        if (!strcmp(o, "rm") && n == 1) { pr_int(m_queue_remove(Q)); return 1; }
    } else if (kind == K_STACK) {
        if (!strcmp(o, "push") && n == 2) { pr_int(m_stack_push(S, P(v))); return 1; }
        if (!strcmp(o, "pop") && n == 1) { pr_ptr(m_stack_pop(S)); return 1; }
        if (!strcmp(o, "peek") && n == 1) { pr_ptr(m_stack_peek(S)); return 1; }
        if (!strcmp(o, "rm") && n == 1) { pr_int(m_stack_remove(S)); return 1; }
    } else if (kind == K_LIST) {
        if (!strcmp(o, "ins") && n == 2) { pr_int(m_list_insert(L, P(v))); return 1; }
        if (!strcmp(o, "rm") && n == 2) { pr_int(m_list_remove(L, P(v))); return 1; }
        if (!strcmp(o, "find") && n == 2) { pr_ptr(m_list_find(L, P(v))); return 1; }
    }
    return 0;
}

static int all_digits(const char *s) { if (!*s) return 0; for (; *s; s++) if (*s < '0' || *s > '9') return 0; return 1; }

static void run_script(const script_t *s) {
    quiet = 0; kind = K_NONE; Q = NULL; S = NULL; L = NULL; QI = NULL; SI = NULL; LI = NULL;
    for (int l = 0; l < s->nlines; l++) {
        char buf[256]; snprintf(buf, sizeof buf, "%s", s->lines[l]);
        char *t[8]; int n = split_ws(buf, t, 8);
        if (n == 0) continue;
        if (!strcmp(t[0], "new") && n == 4 && kind == K_NONE && all_digits(t[2]) && all_digits(t[3])) {
            int d = atoi(t[2]) != 0, c = atoi(t[3]) != 0;
            if (!strcmp(t[1], "queue")) { kind = K_QUEUE; Q = m_queue_new(d ? dtor_cb : NULL); }
            else if (!strcmp(t[1], "stack")) { kind = K_STACK; S = m_stack_new(d ? dtor_cb : NULL); }
            else if (!strcmp(t[1], "list")) { kind = K_LIST; L = m_list_new(c ? cmp_cb : NULL, d ? dtor_cb : NULL); }
            else { printf("bad-op\n"); continue; }
            printf((Q || S || L) ? "= ok\n" : "= nil\n");
            print_seq();
            continue;
        }
        /* numeric arguments must be plain decimal numbers (the driver rejects anything else too) */
        int ok = kind != K_NONE;
        if (ok && n >= 2 && strcmp(t[0], "it") && !all_digits(t[n - 1])) ok = 0;
        if (ok && n == 3 && !strcmp(t[0], "it") && !all_digits(t[2])) ok = 0;
        if (!ok || !do_op(t, n)) { printf("bad-op\n"); continue; }
        print_seq();
    }
    /* leave nothing behind for the next script of this child */
    drop_itr(); quiet = 1;
    if (Q) { m_queue_free(&Q); }
    if (S) { m_stack_free(&S); }
    if (L) { m_list_free(&L); }
}

int main(int argc, char **argv) { return harness_main(argc, argv); }
