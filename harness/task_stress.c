/* Stress program for task sources (properties C04, C14): three modules of one context register tasks of random length and are
 * paused, resumed, stopped, started and deregistered at random while the tasks run on the context's thread pool; loops are
 * started and stopped in between.  Built with AddressSanitizer (C04) and ThreadSanitizer (C14).  argv[1] = seed.
 * Exit 0 and a line "done got=<events>" = the library survived; anything the sanitizer reports is the failure. */
#include <module/mod.h>
#include <module/ctx.h>
#include <module/structs/queue.h>
#include <stdio.h>
#include <stdlib.h>
#include <unistd.h>
static int got;
static void *work(void *p) { usleep((unsigned)((intptr_t)p % 7) * 300); return p; }
static void on_evt(m_mod_t *m, const m_queue_t *const evts) { (void)m; got += (int)m_queue_len(evts); }
int main(int argc, char **argv) {
    srand(argc > 1 ? atoi(argv[1]) : 1);
    m_mod_hook_t h = { .on_evt = on_evt };
    for (int round = 0; round < 60; round++) {
        m_mod_t *m[3] = { 0 };
        m_ctx_register("c", M_CTX_PERSIST, NULL);
        for (int i = 0; i < 3; i++) { static const char *N[3] = { "m0", "m1", "m2" }; m_mod_register(N[i], &m[i], &h, 0, NULL); m_mod_start(m[i]); }
        if (rand() % 2) m_ctx_dispatch();
        for (int step = 0; step < 40; step++) {
            int i = rand() % 3;
            if (!m[i]) continue;
            switch (rand() % 9) {
            case 0: case 1: case 2: { m_src_task_t t = { rand() % 5 + 1, work }; m_mod_src_register_task(m[i], &t, 0, (void *)(intptr_t)(rand() % 50)); break; }
            case 3: m_mod_pause(m[i]); break;
            case 4: m_mod_resume(m[i]); break;
            case 5: m_mod_stop(m[i]); break;
            case 6: m_mod_start(m[i]); break;
            case 7: m_ctx_dispatch(); break;
            case 8: if (rand() % 6 == 0) m_mod_deregister(&m[i]); break;
            }
        }
        if (rand() % 2) { m_ctx_quit(0); m_ctx_dispatch(); m_ctx_dispatch(); }
        for (int i = 0; i < 3; i++) if (m[i]) m_mod_deregister(&m[i]);
        m_ctx_deregister();
        if (m_ctx()) { m_ctx_quit(0); m_ctx_dispatch(); m_ctx_dispatch(); m_ctx_deregister(); }
    }
    printf("done got=%d\n", got);
    return 0;
}
