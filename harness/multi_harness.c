/* C14: several contexts on several threads of one process.
 *
 *   multi_harness <scripts> <k>
 *
 * The scripts of the file are taken in groups of k consecutive ones.  Each group runs in a forked child, one thread per
 * script, all threads released together; every thread is an independent instance of the core harness interpreter
 * (own context, own handles, own descriptor pool, own output buffer).  After the join the outputs are printed in script
 * order, so the result has the same shape as a run of core_harness on the same file — and must be *equal* to it
 * (a context does not depend on what the others do), and, with the batches it recorded, to the model's run.
 * Built twice: ASan+UBSan (like every other harness) and ThreadSanitizer.
 */
#define HARNESS_MULTI 1
#include "core_harness.c"

typedef struct { const script_t *s; int index; char *buf; size_t len; pthread_barrier_t *bar; } targ_t;

static void *script_thread(void *p) {
    targ_t *a = p;
    hstate_t *st = calloc(1, sizeof *st);
    st->g_errno_leave_ = -1;
    st->index_ = a->index;
    st->out_ = open_memstream(&a->buf, &a->len);
    T = st;
    pthread_barrier_wait(a->bar);
    run_script(a->s);
    fflush(st->out_);
    fclose(st->out_);
    return NULL;
}

int main(int argc, char **argv) {
    if (argc < 3) { fprintf(stderr, "usage: %s <scripts> <threads per group>\n", argv[0]); return 2; }
    load_scripts(argv[1]);
    int k = atoi(argv[2]);
    if (k < 1 || k > 6) k = 2;
    setvbuf(stdout, NULL, _IOFBF, 1 << 16);
    m_set_memhook(my_malloc, my_calloc, my_free);
    for (int g = 0; g < g_nscripts; g += k) {
        int n = g_nscripts - g < k ? g_nscripts - g : k;
        fflush(stdout);
        int pfd[2];
        if (__real_pipe(pfd) != 0) return 2;
        pid_t pid = fork();
        if (pid == 0) {
            __real_close(pfd[0]);
            targ_t a[6]; pthread_t th[6]; pthread_barrier_t bar;
            pthread_barrier_init(&bar, NULL, n);
            for (int j = 0; j < n; j++) {
                a[j].s = &g_scripts[g + j]; a[j].index = j; a[j].buf = NULL; a[j].len = 0; a[j].bar = &bar;
                pthread_create(&th[j], NULL, script_thread, &a[j]);
            }
            for (int j = 0; j < n; j++) pthread_join(th[j], NULL);
            FILE *o = fdopen(pfd[1], "w");
            for (int j = 0; j < n; j++) { fprintf(o, "## %s\n", g_scripts[g + j].id); if (a[j].buf) fwrite(a[j].buf, 1, a[j].len, o); }
            fflush(o);
            _exit(0);
        }
        __real_close(pfd[1]);
        /* copy the child's output; if it died, every script of the group is a fault */
        char *acc = NULL; size_t cap = 0, len = 0; char tmp[65536]; ssize_t r;
        while ((r = read(pfd[0], tmp, sizeof tmp)) > 0) {
            if (len + r + 1 > cap) { cap = (len + r + 1) * 2; acc = realloc(acc, cap); }
            memcpy(acc + len, tmp, r); len += r;
        }
        __real_close(pfd[0]);
        int st = 0;
        waitpid(pid, &st, 0);
        if (WIFEXITED(st) && WEXITSTATUS(st) == 0 && len > 0) fwrite(acc, 1, len, stdout);
        else for (int j = 0; j < n; j++) {
            printf("## %s\n", g_scripts[g + j].id);
            if (WIFSIGNALED(st)) fprintf(stdout, "FAULT signal %d\n", WTERMSIG(st)); else fprintf(stdout, "FAULT exit %d\n", WEXITSTATUS(st));
        }
        free(acc);
    }
    fflush(stdout);
    return 0;
}
