/* Correspondence harness for Lib/structs/map.c (property C05).  Links the library's own objects.
 *
 * Script language (DESIGN Appendix A, container scripts):
 *   new <flags> <dtor 0|1>      flags = OR of 1 (KEY_DUP), 2 (KEY_AUTOFREE), 256 (VAL_ALLOW_UPDATE)
 *   put k v | get k | has k | del k | len | clear | free | seq | oom
 *   iterate [rm-all | rm-at i… | stop-at i | err-at i | del-at i k | put-at i k v]
 *   it new | it next | it get | it key | it set v | it rm
 * Keys are tokens (the C string), values small positive integers used as fake pointers.
 *
 * Keys: without KEY_DUP/KEY_AUTOFREE the map borrows the caller's string (interned here, never
 * freed).  With KEY_DUP the library duplicates it through memhook._malloc: the hook prints
 * `kalloc k`; every release of such a block through memhook._free prints `kfree k`.  With
 * KEY_AUTOFREE alone the *caller* hands over a heap copy: the harness allocates it (`kalloc k`) and,
 * when the map did not take it (update, -EPERM, -ENOMEM), releases it itself (`kfree k`) - the same
 * event sequence the library must produce for its own duplicates.
 * `free` ends with `leak <key blocks still allocated> <other blocks still allocated>`.
 */
#include "common.h"
#include <stdint.h>
#include <stddef.h>
#include <stdbool.h>
#include "public/module/structs/map.h"
#include "mem.h"   /* Lib/utils/mem.h: memhook, mem_strdup */

/* ---- allocation tracking ---- */
#define MAXBLK 65536
typedef struct { void *p; int is_key; } blk_t;
static blk_t blk[MAXBLK];
static int nblk;
static long live_keys, live_other;
static const char *cur_put_key;      /* token of the put in progress (a malloc inside it is the key copy) */
static int fail_next_table;          /* `oom`: the next table allocation fails */

static void track(void *p, int is_key) {
    if (!p) return;
    if (nblk == MAXBLK) { printf("harness-overflow\n"); exit(3); }
    blk[nblk].p = p; blk[nblk].is_key = is_key; nblk++;
    if (is_key) live_keys++; else live_other++;
}
static int find_blk(void *p) { for (int i = nblk - 1; i >= 0; i--) if (blk[i].p == p) return i; return -1; }

static void *my_malloc(size_t n) {
    void *p = malloc(n);
    if (cur_put_key) { printf("kalloc %s\n", cur_put_key); track(p, 1); }
    else track(p, 0);
    return p;
}
static void *my_calloc(size_t a, size_t b) {
    if (a > 1 && fail_next_table) { fail_next_table = 0; return NULL; }
    void *p = calloc(a, b);
    track(p, 0);
    return p;
}
static void my_free(void *p) {
    if (!p) return;
    int i = find_blk(p);
    if (i < 0) { printf("free-untracked\n"); return; }
    if (blk[i].is_key) { printf("kfree %s\n", (const char *)p); live_keys--; }
    else live_other--;
    blk[i] = blk[--nblk];
    free(p);
}

/* ---- interned key tokens (borrowed keys must outlive their entry) ---- */
#define MAXTOK 8192
static char *tok[MAXTOK]; static int ntok;
static const char *intern(const char *s) {
    for (int i = 0; i < ntok; i++) if (!strcmp(tok[i], s)) return tok[i];
    if (ntok == MAXTOK) { printf("harness-overflow\n"); exit(3); }
    return tok[ntok++] = strdup(s);
}

static void dtor_cb(void *v) { printf("dtor %lu\n", (unsigned long)(uintptr_t)v); }

static m_map_t *M;
static m_map_itr_t *IT;
static int flags_now;

/* ---- callbacks ---- */
static int seq_cb(void *up, const char *k, void *v) { printf(" %s:%lu", k, (unsigned long)(uintptr_t)v); return 0; }
static int ptr_found;
static int ptr_cb2(void *up, const char *k, void *v) { if (k == (const char *)up) { ptr_found = 1; return 1; } return 0; }

typedef struct { int kind; int at[16]; int nat; const char *k; unsigned long v; int n; } cbprog_t;
enum { CB_NONE, CB_RM_ALL, CB_RM_AT, CB_STOP_AT, CB_ERR_AT, CB_DEL_AT, CB_PUT_AT };

static int do_put(const char *k, unsigned long v);

static int prog_cb(void *up, const char *k, void *v) {
    cbprog_t *p = up;
    int i = p->n++;
    printf("visit %s %lu\n", k, (unsigned long)(uintptr_t)v);
    int hit = 0;
    for (int j = 0; j < p->nat; j++) if (p->at[j] == i) hit = 1;
    switch (p->kind) {
    case CB_RM_ALL: printf("= %d\n", m_map_remove(M, k)); return 0;
    case CB_RM_AT: if (hit) printf("= %d\n", m_map_remove(M, k)); return 0;
    case CB_STOP_AT: return hit ? 1 : 0;
    case CB_ERR_AT: return hit ? -7 : 0;
    case CB_DEL_AT: if (hit) printf("= %d\n", m_map_remove(M, p->k)); return 0;
    case CB_PUT_AT: if (hit) printf("= %d\n", do_put(p->k, p->v)); return 0;
    }
    return 0;
}

static int do_put(const char *k, unsigned long v) {
    int rc;
    if (!M) return m_map_put(M, k, (void *)(uintptr_t)v);
    if (flags_now & 1) {                          /* KEY_DUP: the library copies */
        cur_put_key = k;
        rc = m_map_put(M, k, (void *)(uintptr_t)v);
        cur_put_key = NULL;
    } else if ((flags_now & 2) && v != 0) {       /* KEY_AUTOFREE: the caller hands over a heap copy (a NULL value is refused before the key is looked at) */
        char *c = malloc(strlen(k) + 1); strcpy(c, k);
        printf("kalloc %s\n", k); track(c, 1);
        rc = m_map_put(M, c, (void *)(uintptr_t)v);
        ptr_found = 0;
        if (m_map_len(M) > 0) m_map_iterate(M, ptr_cb2, c);
        if (!ptr_found) my_free(c);               /* not taken by the map: still the caller's */
    } else {
        rc = m_map_put(M, intern(k), (void *)(uintptr_t)v);
    }
    return rc;
}

static void drop_itr(void) { if (IT) { my_free(IT); IT = NULL; } }

static void run_script(const script_t *s) {
    memhook._malloc = my_malloc; memhook._calloc = my_calloc; memhook._free = my_free;
    M = NULL; IT = NULL; nblk = 0; live_keys = live_other = 0; fail_next_table = 0; cur_put_key = NULL; flags_now = 0;
    for (int l = 0; l < s->nlines; l++) {
        char buf[512]; snprintf(buf, sizeof buf, "%s", s->lines[l]);
        char *t[24]; int n = split_ws(buf, t, 24);
        if (n == 0) continue;
        if (!strcmp(t[0], "new") && n == 3) {
            if (M) { printf("bad-op\n"); continue; }
            flags_now = atoi(t[1]);
            M = m_map_new((m_map_flags)flags_now, atoi(t[2]) ? dtor_cb : NULL);
            printf(M ? "= ok\n" : "= nil\n");
        } else if (!strcmp(t[0], "put") && n == 3) {
            printf("= %d\n", do_put(t[1], strtoul(t[2], NULL, 10)));
        } else if (!strcmp(t[0], "get") && n == 2) {
            void *v = m_map_get(M, t[1]);
            if (v) printf("= %lu\n", (unsigned long)(uintptr_t)v); else printf("= nil\n");
        } else if (!strcmp(t[0], "has") && n == 2) {
            printf("= %d\n", m_map_contains(M, t[1]) ? 1 : 0);
        } else if (!strcmp(t[0], "del") && n == 2) {
            printf("= %d\n", m_map_remove(M, t[1]));
        } else if (!strcmp(t[0], "len") && n == 1) {
            printf("= %zd\n", m_map_len(M));
        } else if (!strcmp(t[0], "clear") && n == 1) {
            printf("= %d\n", m_map_clear(M));
        } else if (!strcmp(t[0], "free") && n == 1) {
            drop_itr();
            int rc = m_map_free(&M);
            printf("= %d\n", rc);
            printf("leak %ld %ld\n", live_keys, live_other);
        } else if (!strcmp(t[0], "oom") && n == 1) {
            fail_next_table = 1;
        } else if (!strcmp(t[0], "seq") && n == 1) {
            printf("seq");
            if (M && m_map_len(M) > 0) m_map_iterate(M, seq_cb, NULL);
            printf("\n");
        } else if (!strcmp(t[0], "iterate")) {
            cbprog_t p; memset(&p, 0, sizeof p);
            int ok = 1;
            if (n == 1) p.kind = CB_NONE;
            else if (!strcmp(t[1], "rm-all") && n == 2) p.kind = CB_RM_ALL;
            else if (!strcmp(t[1], "rm-at") && n >= 3 && n <= 18) { p.kind = CB_RM_AT; for (int j = 2; j < n; j++) p.at[p.nat++] = atoi(t[j]); }
            else if (!strcmp(t[1], "stop-at") && n == 3) { p.kind = CB_STOP_AT; p.at[p.nat++] = atoi(t[2]); }
            else if (!strcmp(t[1], "err-at") && n == 3) { p.kind = CB_ERR_AT; p.at[p.nat++] = atoi(t[2]); }
            else if (!strcmp(t[1], "del-at") && n == 4) { p.kind = CB_DEL_AT; p.at[p.nat++] = atoi(t[2]); p.k = t[3]; }
            else if (!strcmp(t[1], "put-at") && n == 5) { p.kind = CB_PUT_AT; p.at[p.nat++] = atoi(t[2]); p.k = t[3]; p.v = strtoul(t[4], NULL, 10); }
            else ok = 0;
            if (!ok) { printf("bad-op\n"); continue; }
            printf("= %d\n", m_map_iterate(M, prog_cb, &p));
        } else if (!strcmp(t[0], "it") && n >= 2) {
            if (!strcmp(t[1], "new") && n == 2) {
                drop_itr();
                IT = m_map_itr_new(M);
                printf(IT ? "= it\n" : "= nil\n");
            } else if (!strcmp(t[1], "next") && n == 2) {
                int rc = m_map_itr_next(&IT);
                printf("= %d %s\n", rc, IT ? "it" : "nil");
            } else if (!strcmp(t[1], "get") && n == 2) {
                void *v = m_map_itr_get_data(IT);
                if (v) printf("= %lu\n", (unsigned long)(uintptr_t)v); else printf("= nil\n");
            } else if (!strcmp(t[1], "key") && n == 2) {
                const char *k = m_map_itr_get_key(IT);
                printf("= %s\n", k ? k : "nil");
            } else if (!strcmp(t[1], "set") && n == 3) {
                printf("= %d\n", m_map_itr_set_data(IT, (void *)(uintptr_t)strtoul(t[2], NULL, 10)));
            } else if (!strcmp(t[1], "rm") && n == 2) {
                printf("= %d\n", m_map_itr_remove(IT));
            } else printf("bad-op\n");
        } else printf("bad-op\n");
    }
}

int main(int argc, char **argv) { return harness_main(argc, argv); }
