/* Correspondence harness for the core library (ctx/mod/ps/evts/src).  One script per process.
 * Callbacks are trampolines that keep consuming lines of the same script until `ret`. */
#define HARNESS_FORK_EACH 1
#include "common.h"
#include <stdint.h>
#include <stddef.h>
#include <pthread.h>
#include <sys/poll.h>
#include <fcntl.h>
#include "poll.h"      /* private headers: read-only peeking for the state dump and batch recording */
#include "ctx.h"
#include "mod.h"
#include "src.h"
#include "evts.h"
#include "ps.h"

#define MAXH 64
#define MAXF 8
#define MAXP 16384
#define NHANDLERS 8

typedef struct { char tok[16]; m_mod_t *mod; int owned; /* the harness holds an extra reference */ int userref; /* the reference m_mod_register() handed out is still held */ int gone; /* no reference left: never touched again */ } handle_t;
typedef struct { m_evt_t *ev[128]; int n; } frame_t;   /* the events of the innermost on_evt invocation (for `stash`) */

/* All state of one running script.  One instance per process in the ordinary harness; one per script thread in
 * multi_harness.c (several contexts on several threads, C14).  Helper threads that play "another thread" point at
 * their parent's instance. */
typedef struct {
    handle_t H_[MAXH]; int nh_;
    int FDR_[MAXF], FDW_[MAXF];            /* user descriptor pool: pipes (read end registered) */
    void *PAY_[MAXP]; int PAYAF_[MAXP];
    const script_t *S_; int cur_;          /* script cursor shared by all nesting levels */
    m_ctx_t *g_ctx_;                       /* recorded from pthread_setspecific */
    int pipe_r_[256], pipe_w_[256], npipes_;
    int dup_fd_[32], dup_of_[32], ndups_;  /* descriptors the library duplicated (M_SRC_DUP) and the pool index they came from */
    int g_errno_leave_;
    int g_foreign_;                        /* a foreign-thread call is in progress: results are printed without the dump */
    int in_blocking_loop_, empty_polls_, loop_polls_;
    frame_t *FR_[64]; int nfr_;
    pthread_t g_main_thread_;
    int leak_deferred_;                    /* `leakcheck` was read inside a callback: done when the script ends */
    int fd_base_;                          /* open descriptors right after the pool was set up */
    FILE *out_;                            /* where this script's output lines go */
    int index_;                            /* position of the script thread (descriptor pool numbers depend on it) */
} hstate_t;
static hstate_t G0 = { .g_errno_leave_ = -1 };
static __thread hstate_t *T = &G0;
static __thread int t_alien;               /* set in helper threads that play "another thread" (C14) */
#define H (T->H_)
#define nh (T->nh_)
#define FDR (T->FDR_)
#define FDW (T->FDW_)
#define PAY (T->PAY_)
#define PAYAF (T->PAYAF_)
#define S (T->S_)
#define cur (T->cur_)
#define g_ctx (T->g_ctx_)
#define pipe_r (T->pipe_r_)
#define pipe_w (T->pipe_w_)
#define npipes (T->npipes_)
#define dup_fd (T->dup_fd_)
#define dup_of (T->dup_of_)
#define ndups (T->ndups_)
#define g_errno_leave (T->g_errno_leave_)
#define g_foreign (T->g_foreign_)
#define in_blocking_loop (T->in_blocking_loop_)
#define empty_polls (T->empty_polls_)
#define loop_polls (T->loop_polls_)
#define FR (T->FR_)
#define nfr (T->nfr_)
#define g_main_thread (T->g_main_thread_)
/* every output line goes through here: a script that makes the library spin (or recurse) must not fill the machine */
#include <stdarg.h>
static long g_out_bytes;
static int hprintf(const char *fmt, ...) {
    va_list ap; va_start(ap, fmt);
    int n = vfprintf(T->out_ ? T->out_ : stdout, fmt, ap);
    va_end(ap);
    if (n > 0 && (g_out_bytes += n) > (8L << 20)) { fflush(NULL); _exit(96); }    /* reported as `FAULT exit 96` */
    return n;
}
#define printf(...) hprintf(__VA_ARGS__)

static const char *htok(const m_mod_t *m) {
    for (int i = 0; i < nh; i++) if (H[i].mod == m) return H[i].tok;
    return "?";
}
static handle_t *hent(const char *tok) {
    for (int i = 0; i < nh; i++) if (!strcmp(H[i].tok, tok)) return &H[i];
    return NULL;
}
static m_mod_t *hmod(const char *tok) {
    handle_t *h = hent(tok);
    return h && !h->gone ? h->mod : NULL;
}
static int fd_index(int fd) {
    for (int i = 0; i < MAXF; i++) if (FDR[i] == fd) return i;
    for (int i = 0; i < ndups; i++) if (dup_fd[i] == fd) return 100 + dup_of[i];   /* a duplicate made by the library */
    return -1;
}
static int pay_index(const void *p) { if (!p) return 0; for (int i = 1; i < MAXP; i++) if (PAY[i] == p) return i; return -1; }

/* ---- interposition ---- */
int __real_pthread_setspecific(pthread_key_t k, const void *v);
int __wrap_pthread_setspecific(pthread_key_t k, const void *v) {
    /* only the script's own thread: helper threads (and the sanitizer runtime starting them) use thread-specific data too */
    if (pthread_equal(pthread_self(), g_main_thread)) g_ctx = (m_ctx_t *)v;
    return __real_pthread_setspecific(k, v);
}

int __real_pipe(int fd[2]);
int __wrap_pipe(int fd[2]) {
    int r = __real_pipe(fd);
    if (t_alien) return r;
    if (r == 0 && npipes < 256) { pipe_r[npipes] = fd[0]; pipe_w[npipes] = fd[1]; npipes++; }
    return r;
}
int __real_dup(int fd);
int __wrap_dup(int fd) {
    if (t_alien) return __real_dup(fd);
    int k = -1;
    for (int i = 0; i < MAXF; i++) if (FDR[i] == fd) k = i;
    /* a duplicate of pool descriptor k gets a number above every pool descriptor of this script and ordered like k: the
     * order in which a module's sources are destroyed (by descriptor number) is then the same in every run */
    int r = k >= 0 && T ? fcntl(fd, F_DUPFD, 600 + 32 * T->index_ + 2 * k) : __real_dup(fd);
    if (r >= 0 && k >= 0 && ndups < 32) { dup_fd[ndups] = r; dup_of[ndups] = k; ndups++; }
    return r;
}
int __real_close(int fd);
int __wrap_close(int fd) {
    if (t_alien) return __real_close(fd);
    for (int i = 0; i < ndups; i++) if (dup_fd[i] == fd) { printf("close dup:%d\n", dup_of[i]); dup_fd[i] = -1; return __real_close(fd); }
    for (int i = 0; i < npipes; i++) {
        if (pipe_r[i] == fd) { printf("close pipe-r\n"); pipe_r[i] = -1; return __real_close(fd); }
        if (pipe_w[i] == fd) { printf("close pipe-w\n"); pipe_w[i] = -1; return __real_close(fd); }
    }
    int k = fd_index(fd);
    if (k >= 0) { printf("close fd:%d\n", k); FDR[k] = -1; }
    else if (fd >= 0 && fcntl(fd, F_GETFD) == -1) printf("close BADFD\n");   /* not an open descriptor: closed twice, or a stale number */
    return __real_close(fd);
}

static void src_token(ev_src_t *p, char *buf, size_t n) {
    if (!p) { snprintf(buf, n, "err"); return; }
    if (!p->mod) { snprintf(buf, n, "tick"); return; }
    switch (p->type) {
    case M_SRC_TYPE_PS: snprintf(buf, n, "ps:%s", htok(p->mod)); break;
    case M_SRC_TYPE_FD: snprintf(buf, n, "fd:%s:%d", htok(p->mod), fd_index(p->fd_src.fd)); break;
    case M_SRC_TYPE_TMR: {
        const char *r = "u";
        if (p->flags & M_SRC_INTERNAL) r = p->userptr == &p->mod->batch ? "b" : "t";
        snprintf(buf, n, "tmr:%s:%llu:%s", htok(p->mod), (unsigned long long)p->tmr_src.its.ns, r);
        break; }
    case M_SRC_TYPE_TASK: snprintf(buf, n, "task:%s:%d", htok(p->mod), p->task_src.tid.tid); break;
    default: snprintf(buf, n, "other:%s:%d", htok(p->mod), p->type); break;
    }
}

/* Task sources run on pool threads.  The library frees a task's source under its thread when the module is stopped, paused
 * or deregistered meanwhile (known finding D-04g), and discards queued tasks at loop stop: to keep every script deterministic
 * and on the safe side of that finding, every task that was started is given the time to finish before the library gets control
 * back: before each script line, at the end of every callback and before every poll — its source's eventfd becoming readable
 * is the last thing the task thread does with the source. */
#include <stdatomic.h>
static atomic_long g_task_adds, g_task_runs;
static void *task_fn(void *arg) { atomic_fetch_add(&g_task_runs, 1); return (void *)((intptr_t)arg + 100); }
/* the context's pool is only used for tasks: count what is handed to it, and let everything that was accepted at least start
 * before the pool is freed (loop_stop frees it without waiting for queued tasks, which would then never run) */
int __real_m_thpool_add(m_thpool_t *pool, m_thpool_task task, void *arg);
int __wrap_m_thpool_add(m_thpool_t *pool, m_thpool_task task, void *arg) {
    int rc = __real_m_thpool_add(pool, task, arg);
    if (rc == 0) atomic_fetch_add(&g_task_adds, 1);
    return rc;
}
int __real_m_thpool_free(m_thpool_t **pool, bool wait_all);
int __wrap_m_thpool_free(m_thpool_t **pool, bool wait_all) {
    for (int i = 0; i < 3000 && atomic_load(&g_task_runs) < atomic_load(&g_task_adds); i++) usleep(1000);
    return __real_m_thpool_free(pool, wait_all);
}
static int settle_cb(void *up, void *data) {
    (void)up;
    ev_src_t *src = data;
    if (src->ev && src->task_src.f.fd >= 0) {
        struct pollfd pf = { src->task_src.f.fd, POLLIN, 0 };
        poll(&pf, 1, 3000);
    }
    return 0;
}
static void settle_tasks(void) {
    for (int i = 0; i < nh; i++) {
        if (H[i].gone) continue;
        m_mod_t *m = H[i].mod;
        if (m->state != M_MOD_RUNNING || !m->srcs[M_SRC_TYPE_TASK] || m_bst_len(m->srcs[M_SRC_TYPE_TASK]) <= 0) continue;
        m_bst_traverse(m->srcs[M_SRC_TYPE_TASK], M_BST_PRE, settle_cb, NULL);
    }
}

int __real_poll_wait(poll_priv_t *priv, const int timeout);
int __wrap_poll_wait(poll_priv_t *priv, const int timeout) {
    /* never block: the blocking loop is driven by polling; after a few empty polls the
     * environment forces a quit (recorded, so that the model can follow) */
    settle_tasks();
    int n = __real_poll_wait(priv, 0);
    if (n < 0) n = 0;
    if (timeout != 0) loop_polls++;
    if (timeout != 0 && (n == 0 || loop_polls > 12)) {
        /* the context that is being polled (not necessarily the thread's current one any more) */
        m_ctx_t *lc = (m_ctx_t *)((char *)priv - offsetof(m_ctx_t, ppriv));
        if ((++empty_polls >= 3 || loop_polls > 12) && lc) {
            printf("BATCH !quit\n");
            lc->quit = true; lc->quit_code = 77;
            errno = 0;
            return 0;
        }
    } else empty_polls = 0;
    printf("BATCH");
    for (int i = 0; i < n; i++) { char b[64]; src_token(poll_recv(priv, i), b, sizeof b); printf(" %s", b); }
    printf("\n");
    errno = 0;
    return n;
}

/* ---- allocator hook: payload frees are observable; blocks the library allocated are counted (leak check) ---- */
#define LSET (1 << 16)
static void *lset[LSET]; static long live_blocks;
static pthread_mutex_t lset_lock = PTHREAD_MUTEX_INITIALIZER;
static void lset_add(void *p) {
    if (!p) return;
    pthread_mutex_lock(&lset_lock);
    size_t i = ((uintptr_t)p >> 4) & (LSET - 1);
    for (int n = 0; n < LSET; n++, i = (i + 1) & (LSET - 1)) if (!lset[i] || lset[i] == (void *)1) { lset[i] = p; live_blocks++; break; }
    pthread_mutex_unlock(&lset_lock);
}
static void lset_del(void *p) {
    if (!p) return;
    pthread_mutex_lock(&lset_lock);
    size_t i = ((uintptr_t)p >> 4) & (LSET - 1);
    for (int n = 0; n < LSET && lset[i]; n++, i = (i + 1) & (LSET - 1)) if (lset[i] == p) { lset[i] = (void *)1; live_blocks--; break; }
    pthread_mutex_unlock(&lset_lock);
}
static void *my_malloc(size_t n) { void *p = malloc(n); lset_add(p); return p; }
static void *my_calloc(size_t a, size_t b) { void *p = calloc(a, b); lset_add(p); return p; }
static void my_free(void *p) {
    int i = pay_index(p);
    if (p && i > 0) { printf("free p%d\n", i); PAY[i] = NULL; }
    lset_del(p);
    free(p);
}
static int open_fds(void) {
    int n = 0;
    for (int fd = 0; fd < 1024; fd++) if (fcntl(fd, F_GETFD) != -1) n++;
    return n;
}

/* ---- state dump ---- */
static char stl(const m_mod_t *m) {
    switch (m->state) { case M_MOD_IDLE: return 'I'; case M_MOD_RUNNING: return 'R'; case M_MOD_PAUSED: return 'P';
                        case M_MOD_STOPPED: return 'S'; case M_MOD_ZOMBIE: return 'Z'; default: return '?'; }
}
static long qlen(ssize_t n) { return n < 0 ? 0 : (long)n; }
static void dump(void) {
    if (!g_ctx) printf("S ctx=none |");
    else printf("S ctx=%s%s%s run=%zu |", g_ctx->state == M_CTX_LOOPING ? "loop" : "idle", g_ctx->quit ? ",q" : "",
                g_ctx->finalized ? ",fin" : "", g_ctx->stats.running_modules);
    for (int i = 0; i < nh; i++) {
        m_mod_t *m = H[i].mod;
        if (H[i].gone || m->state == M_MOD_ZOMBIE) { printf(" %s:Z", H[i].tok); continue; }
        long ns = 0;
        for (int k = M_SRC_TYPE_FD; k < M_SRC_TYPE_END; k++) ns += qlen(m_bst_len(m->srcs[k]));
        long nsub = m->subscriptions ? qlen(m_map_len(m->subscriptions)) : 0;
        char bl[32]; if (m->batch.len == SIZE_MAX) snprintf(bl, sizeof bl, "inf"); else snprintf(bl, sizeof bl, "%zu", m->batch.len);
        char tk[32]; if (m->tb.timer.ns == 0) snprintf(tk, sizeof tk, "-"); else snprintf(tk, sizeof tk, "%llu", (unsigned long long)m->tb.tokens);
        printf(" %s:%c:p%d:s%ld:u%ld:b%s/%ld:st%ld:r%ld:tk%s", H[i].tok, stl(m), m->pubsub_fd[1] != -1, ns, nsub, bl,
               qlen(m_queue_len(m->batch.events)), qlen(m_queue_len(m->stashed)), qlen(m_stack_len(m->recvs)), tk);
    }
    printf("\n");
}
static void result(long code) { printf("= %ld\n", code); if (!g_foreign) dump(); else g_foreign = 2; }

/* ---- script interpreter ---- */
static int exec_line(const char *line);   /* returns 1 for `ret 1`, 0 for `ret 0`, -1 otherwise */
static void foreign_call(int with_ctx, const char *rest);
static void leakcheck(void);
static void xtell_call(m_mod_t *m, const char *name, int pill);

/* run nested lines until `ret`; exhausted script == ret true */
static bool callback_body(void) {
    while (cur < S->nlines) {
        if (!strcmp(S->lines[cur], "leakcheck")) { cur++; T->leak_deferred_ = 1; return true; }
        int r = exec_line(S->lines[cur++]);
        if (r >= 0) { settle_tasks(); if (g_errno_leave >= 0) { errno = g_errno_leave; g_errno_leave = -1; } return r; }
    }
    settle_tasks();
    return true;
}

static bool cb_start(m_mod_t *m) { printf("INVOKE on_start %s:%c\n", htok(m), stl(m)); return callback_body(); }
static bool cb_eval(m_mod_t *m) { printf("INVOKE on_eval %s:%c\n", htok(m), stl(m)); return callback_body(); }
static void cb_stop(m_mod_t *m) { printf("INVOKE on_stop %s:%c\n", htok(m), stl(m)); callback_body(); }

static void tramp_evt(int k, m_mod_t *m, const m_queue_t *const evts) {
    frame_t fr; fr.n = 0;
    printf("INVOKE on_evt#%d %s:%c", k, htok(m), stl(m));
    m_itr_foreach(evts, {
        m_evt_t *e = m_itr_get(m_itr);
        if (fr.n < 128) fr.ev[fr.n++] = e;
        switch (e->type) {
        case M_SRC_TYPE_PS:
            printf(" ps(%s,%s,p%d,%d,u%ld)", e->ps_evt->topic ? e->ps_evt->topic : "-",
                   e->ps_evt->sender ? htok(e->ps_evt->sender) : "-", pay_index(e->ps_evt->data), e->ps_evt->system, (long)(intptr_t)e->userdata);
            break;
        case M_SRC_TYPE_FD: printf(" fd(f%d,u%ld)", fd_index(e->fd_evt->fd), (long)(intptr_t)e->userdata); break;
        case M_SRC_TYPE_TMR: printf(" tmr(%llu,u%ld)", (unsigned long long)e->tmr_evt->ns, (long)(intptr_t)e->userdata); break;
        case M_SRC_TYPE_TASK: printf(" task(%d,%ld,u%ld)", e->task_evt->tid, (long)(intptr_t)e->task_evt->retval, (long)(intptr_t)e->userdata); break;
        default: printf(" other(%d)", e->type); break;
        }
    });
    printf("\n");
    FR[nfr++] = &fr;
    callback_body();
    nfr--;
}
#define EVT_CB(k) static void evt_cb_##k(m_mod_t *m, const m_queue_t *const e) { tramp_evt(k, m, e); }
EVT_CB(0) EVT_CB(1) EVT_CB(2) EVT_CB(3) EVT_CB(4) EVT_CB(5) EVT_CB(6) EVT_CB(7)
static m_evt_cb HANDLERS[NHANDLERS] = { evt_cb_0, evt_cb_1, evt_cb_2, evt_cb_3, evt_cb_4, evt_cb_5, evt_cb_6, evt_cb_7 };

static long idnum(const char *t) { return strtol(t + 1, NULL, 10); }

/* topic strings owned by the caller for as long as the process lives (subscriptions made without M_SRC_DUP point into it) */
static const char *intern_topic(const char *t) {
    static char *pool[64]; static int n; static pthread_mutex_t mx = PTHREAD_MUTEX_INITIALIZER;
    const char *r = NULL;
    pthread_mutex_lock(&mx);
    for (int i = 0; i < n && !r; i++) if (!strcmp(pool[i], t)) r = pool[i];
    if (!r && n < 64) r = pool[n++] = strdup(t);
    pthread_mutex_unlock(&mx);
    return r ? r : t;
}

static m_src_flags prio_flags(const char *f) {
    m_src_flags fl = 0;
    if (strchr(f, 'l')) fl |= M_SRC_PRIO_LOW;
    if (strchr(f, 'n')) fl |= M_SRC_PRIO_NORM;
    if (strchr(f, 'h')) fl |= M_SRC_PRIO_HIGH;
    return fl;
}

static int exec_line(const char *line) {
    settle_tasks();
    char buf[256]; snprintf(buf, sizeof buf, "%s", line);
    char *t[10] = { 0 }; int n = split_ws(buf, t, 9);
    if (n == 0) return -1;
#define NEEDH(i, var) m_mod_t *var = hmod(t[i]); if (!var) { printf("bad-handle\n"); return -1; }
    if (!strcmp(t[0], "ret") && n == 2) return atoi(t[1]) != 0;
    if (!strcmp(t[0], "errno") && n == 2) { g_errno_leave = atoi(t[1]); if (nfr == 0) {} return -1; }
    if (!strcmp(t[0], "ctx_reg") && n == 2) { result(m_ctx_register("ctx", atoi(t[1]) ? M_CTX_PERSIST : 0, NULL)); return -1; }
    if (!strcmp(t[0], "ctx_dereg")) { result(m_ctx_deregister()); return -1; }
    if (!strcmp(t[0], "finalize")) { result(m_ctx_finalize()); return -1; }
    if (!strcmp(t[0], "dispatch")) { result(m_ctx_dispatch()); return -1; }
    if (!strcmp(t[0], "loop")) { in_blocking_loop++; empty_polls = 0; loop_polls = 0; long r = m_ctx_loop(); in_blocking_loop--; result(r); return -1; }
    if (!strcmp(t[0], "quit") && n == 2) { result(m_ctx_quit((uint8_t)atoi(t[1]))); return -1; }
    if (!strcmp(t[0], "ctx_len")) { result(m_ctx_len()); return -1; }
    if (!strcmp(t[0], "tick") && n == 2) { result(m_ctx_set_tick(strtoull(t[1], NULL, 10))); return -1; }
    if (!strcmp(t[0], "reg") && n == 5) {
        m_mod_flags fl = M_MOD_NAME_DUP;
        if (strchr(t[3], 'R')) fl |= M_MOD_ALLOW_REPLACE;
        if (strchr(t[3], 'P')) fl |= M_MOD_PERSIST;
        if (strchr(t[3], 'C')) fl |= M_MOD_DENY_CTX;
        if (strchr(t[3], 'B')) fl |= M_MOD_DENY_PUB;
        if (strchr(t[3], 'S')) fl |= M_MOD_DENY_SUB;
        m_mod_hook_t hook = { 0 };
        hook.on_evt = evt_cb_0;
        if (strchr(t[4], 's')) hook.on_start = cb_start;
        if (strchr(t[4], 't')) hook.on_stop = cb_stop;
        if (strchr(t[4], 'e')) hook.on_eval = cb_eval;
        m_mod_t *ref = NULL;
        int r = m_mod_register(t[2], &ref, &hook, fl, NULL);
        if (r == 0 && nh < MAXH) { snprintf(H[nh].tok, sizeof H[nh].tok, "%s", t[1]); H[nh].mod = ref; H[nh].owned = 1; H[nh].userref = 1; H[nh].gone = 0; nh++; m_mem_ref(ref); }
        result(r); return -1;
    }
    if (!strcmp(t[0], "dereg") && n == 2) {
        NEEDH(1, m); m_mod_t *tmp = m; handle_t *he = hent(t[1]);
        int r = m_mod_deregister(&tmp);
        /* the call consumed the user's reference: without the extra one nothing keeps the object alive for us */
        if (r == 0 && he) he->userref = 0;
        if (r == 0 && he && !he->owned) he->gone = 1;
        result(r); return -1;
    }
    if (!strcmp(t[0], "unref") && n == 2) {
        /* the user drops the extra reference it took with m_mod_ref(); a ZOMBIE may be freed by this */
        handle_t *he = hent(t[1]);
        if (!he) { printf("bad-handle\n"); return -1; }
        if (he->owned && !he->gone) { he->owned = 0; if (!he->userref) he->gone = 1; m_mem_unref(he->mod); }
        result(0); return -1;
    }
    if (!strcmp(t[0], "leakcheck")) { leakcheck(); return -1; }
    if (!strcmp(t[0], "burst") && n == 6) {
        /* many tells in a row (more than a pipe holds): prints how many were accepted */
        NEEDH(1, m); NEEDH(2, r);
        int p0 = (int)idnum(t[3]), af = atoi(t[4]), cnt = atoi(t[5]), okc = 0;
        if (p0 <= 0 || cnt < 0 || p0 + cnt >= MAXP) { printf("bad-op\n"); return -1; }
        for (int i = 0; i < cnt; i++) {
            if (!PAY[p0 + i]) { PAY[p0 + i] = malloc(8); PAYAF[p0 + i] = af; }
            if (m_mod_ps_tell(m, r, PAY[p0 + i], af ? M_PS_AUTOFREE : 0) == 0) okc++;
        }
        result(okc); return -1;
    }
    if (!strcmp(t[0], "start") && n == 2) { NEEDH(1, m); result(m_mod_start(m)); return -1; }
    if (!strcmp(t[0], "pause") && n == 2) { NEEDH(1, m); result(m_mod_pause(m)); return -1; }
    if (!strcmp(t[0], "resume") && n == 2) { NEEDH(1, m); result(m_mod_resume(m)); return -1; }
    if (!strcmp(t[0], "stop") && n == 2) { NEEDH(1, m); result(m_mod_stop(m)); return -1; }
    if (!strcmp(t[0], "become") && n == 3) { NEEDH(1, m); int k = atoi(t[2]); result(m_mod_become(m, k >= 0 && k < NHANDLERS ? HANDLERS[k] : NULL)); return -1; }
    if (!strcmp(t[0], "unbecome") && n == 2) { NEEDH(1, m); result(m_mod_unbecome(m)); return -1; }
    if (!strcmp(t[0], "stash") && n == 3) {
        NEEDH(1, m); int i = atoi(t[2]);
        m_evt_t *e = (nfr > 0 && i >= 0 && i < FR[nfr - 1]->n) ? FR[nfr - 1]->ev[i] : NULL;
        result(m_mod_stash(m, e)); return -1;
    }
    if (!strcmp(t[0], "unstash") && n == 3) { NEEDH(1, m); result(m_mod_unstash(m, strtoull(t[2], NULL, 10))); return -1; }
    if (!strcmp(t[0], "batch_size") && n == 3) { NEEDH(1, m); result(m_mod_set_batch_size(m, strtoull(t[2], NULL, 10))); return -1; }
    if (!strcmp(t[0], "batch_to") && n == 3) { NEEDH(1, m); result(m_mod_set_batch_timeout(m, strtoull(t[2], NULL, 10))); return -1; }
    if (!strcmp(t[0], "tb") && n == 4) { NEEDH(1, m); result(m_mod_set_tokenbucket(m, strtoul(t[2], NULL, 10), strtoull(t[3], NULL, 10))); return -1; }
    if ((!strcmp(t[0], "tell") && n == 5) || (!strcmp(t[0], "pub") && n == 5)) {
        NEEDH(1, m);
        int pi = (int)idnum(t[3]); int af = atoi(t[4]);
        if (pi <= 0 || pi >= MAXP) { printf("bad-op\n"); return -1; }
        if (!PAY[pi]) { PAY[pi] = malloc(8); PAYAF[pi] = af; }
        if (!strcmp(t[0], "tell")) { NEEDH(2, r); result(m_mod_ps_tell(m, r, PAY[pi], af ? M_PS_AUTOFREE : 0)); }
        else result(m_mod_ps_publish(m, !strcmp(t[2], "-") ? NULL : strdup(t[2]), PAY[pi], af ? M_PS_AUTOFREE : 0));
        return -1;
    }
    if (!strcmp(t[0], "pill") && n == 3) { NEEDH(1, m); NEEDH(2, r); result(m_mod_ps_poisonpill(m, r)); return -1; }
    if (!strcmp(t[0], "sub") && n == 6) {
        NEEDH(1, m);
        /* 'x' in the flags field: the topic string stays the caller's (no M_SRC_DUP): it is handed over from a pool of strings
         * that live as long as the process; otherwise the library duplicates the (stack) string */
        int nodup = strchr(t[3], 'x') != NULL;
        m_src_flags fl = prio_flags(t[3]) | (nodup ? 0 : M_SRC_DUP);
        if (atoi(t[4])) fl |= M_SRC_ONESHOT;
        result(m_mod_ps_subscribe(m, nodup ? intern_topic(t[2]) : t[2], fl, (void *)(intptr_t)idnum(t[5]))); return -1;
    }
    if (!strcmp(t[0], "unsub") && n == 3) { NEEDH(1, m); result(m_mod_ps_unsubscribe(m, t[2])); return -1; }
    if (!strcmp(t[0], "reg_fd") && n == 5) {
        NEEDH(1, m); int k = (int)idnum(t[2]);
        m_src_flags fl = prio_flags(t[3]);
        if (strchr(t[3], 'o')) fl |= M_SRC_ONESHOT;
        if (strchr(t[3], 'a')) fl |= M_SRC_FD_AUTOCLOSE;
        if (strchr(t[3], 'd')) fl |= M_SRC_DUP;
        /* f6, f7 are regular files, which the poll set refuses: only meaningful on a RUNNING module */
        if (k >= 6 && m->state != M_MOD_RUNNING) { printf("bad-op\n"); return -1; }
        result(m_mod_src_register_fd(m, k >= 0 && k < MAXF ? FDR[k] : -1, fl, (void *)(intptr_t)idnum(t[4]))); return -1;
    }
    if (!strcmp(t[0], "dereg_fd") && n == 3) { NEEDH(1, m); int k = (int)idnum(t[2]); result(m_mod_src_deregister_fd(m, k >= 0 && k < MAXF ? FDR[k] : -1)); return -1; }
    if (!strcmp(t[0], "reg_tmr") && n == 5) {
        NEEDH(1, m); m_src_tmr_t its = { CLOCK_MONOTONIC, strtoull(t[2], NULL, 10) };
        m_src_flags fl = prio_flags(t[3]);
        if (strchr(t[3], 'o')) fl |= M_SRC_ONESHOT;
        result(m_mod_src_register_tmr(m, &its, fl, (void *)(intptr_t)idnum(t[4]))); return -1;
    }
    if (!strcmp(t[0], "dereg_tmr") && n == 3) { NEEDH(1, m); m_src_tmr_t its = { CLOCK_MONOTONIC, strtoull(t[2], NULL, 10) }; result(m_mod_src_deregister_tmr(m, &its)); return -1; }
    /* task sources: the function runs on the context's thread pool and returns its argument + 100 (the event's retval) */
    if (!strcmp(t[0], "reg_task") && n == 5) {
        NEEDH(1, m); m_src_task_t tk = { atoi(t[2]), task_fn };
        result(m_mod_src_register_task(m, &tk, prio_flags(t[3]), (void *)(intptr_t)idnum(t[4]))); return -1;
    }
    if (!strcmp(t[0], "dereg_task") && n == 3) { NEEDH(1, m); m_src_task_t tk = { atoi(t[2]), task_fn }; result(m_mod_src_deregister_task(m, &tk)); return -1; }
    /* the other source kinds: registry behaviour and the descriptors the poll plug-in creates for them (they never fire here) */
    if (!strcmp(t[0], "reg_sgn") && n == 5) {
        NEEDH(1, m); m_src_sgn_t sg = { (unsigned)atoi(t[2]) };
        m_src_flags fl = prio_flags(t[3]); if (strchr(t[3], 'o')) fl |= M_SRC_ONESHOT;
        result(m_mod_src_register_sgn(m, &sg, fl, (void *)(intptr_t)idnum(t[4]))); return -1;
    }
    if (!strcmp(t[0], "dereg_sgn") && n == 3) { NEEDH(1, m); m_src_sgn_t sg = { (unsigned)atoi(t[2]) }; result(m_mod_src_deregister_sgn(m, &sg)); return -1; }
    if ((!strcmp(t[0], "reg_pid") && n == 5) || (!strcmp(t[0], "dereg_pid") && n == 3)) {
        NEEDH(1, m); int i = atoi(t[2]);
        m_src_pid_t pd = { i == 1 ? getpid() : i == 2 ? getppid() : i == 3 ? 1 : 0, 0 };
        if (t[0][0] == 'd') { result(m_mod_src_deregister_pid(m, &pd)); return -1; }
        m_src_flags fl = prio_flags(t[3]); if (strchr(t[3], 'o')) fl |= M_SRC_ONESHOT;
        result(m_mod_src_register_pid(m, &pd, fl, (void *)(intptr_t)idnum(t[4]))); return -1;
    }
    if ((!strcmp(t[0], "reg_path") && n == 5) || (!strcmp(t[0], "dereg_path") && n == 3)) {
        NEEDH(1, m); int i = atoi(t[2]);
        /* directories of pseudo file systems: watchable, and nothing another process does creates an inotify event there */
        static const char *paths[] = { "", "/proc/sys", "/sys", "/proc", "/nonexistent/lmverif" /* cannot be watched */ };
        m_src_path_t pt = { paths[i >= 0 && i < 5 ? i : 0], 0x100 /* IN_CREATE */ };
        if (t[0][0] == 'd') { result(m_mod_src_deregister_path(m, &pt)); return -1; }
        m_src_flags fl = prio_flags(t[3]); if (strchr(t[3], 'o')) fl |= M_SRC_ONESHOT; if (strchr(t[3], 'd')) fl |= M_SRC_DUP;
        result(m_mod_src_register_path(m, &pt, fl, (void *)(intptr_t)idnum(t[4]))); return -1;
    }
    if ((!strcmp(t[0], "reg_thr") && n == 6) || (!strcmp(t[0], "dereg_thr") && n == 4)) {
        /* thresholds out of reach: 10^13 ms of inactivity (a module that never acted counts as inactive since the epoch);
         * activity thresholds are not used by the generator: the library divides by the module's age in ms, which can be 0 */
        NEEDH(1, m);
        m_src_thresh_t th = { (uint64_t)atoi(t[2]) * 10000000000000ULL, (double)atoi(t[3]) * 1e9 };
        if (t[0][0] == 'd') { result(m_mod_src_deregister_thresh(m, &th)); return -1; }
        m_src_flags fl = prio_flags(t[4]); if (strchr(t[4], 'o')) fl |= M_SRC_ONESHOT;
        result(m_mod_src_register_thresh(m, &th, fl, (void *)(intptr_t)idnum(t[5]))); return -1;
    }
    if (!strcmp(t[0], "srclen") && n == 2) { NEEDH(1, m); result(m_mod_src_len(m, M_SRC_TYPE_END)); return -1; }
    if (!strcmp(t[0], "make_ready") && n == 2) { int k = (int)idnum(t[1]); if (k >= 0 && k < MAXF && FDW[k] >= 0) { char c = 'x'; if (write(FDW[k], &c, 1) < 0) {} } return -1; }
    if (!strcmp(t[0], "drain") && n == 2) { int k = (int)idnum(t[1]); char b[64]; if (k >= 0 && k < MAXF && FDR[k] >= 0) while (read(FDR[k], b, sizeof b) > 0) {} return -1; }
    if (!strcmp(t[0], "foreign") && n >= 3) {
        /* the rest of the line is executed by another thread, which holds its own context ("ctx") or none */
        const char *rest = strstr(line, t[2]);
        if (!strcmp(t[2], "foreign") || !strcmp(t[2], "xtell") || !strcmp(t[2], "ret") || !strcmp(t[2], "reg") || !t[3]) { printf("bad-op\n"); return -1; }
        foreign_call(!strcmp(t[1], "ctx"), rest);
        return -1;
    }
    if (!strcmp(t[0], "xtell") && n == 4) { NEEDH(1, m); xtell_call(m, t[2], atoi(t[3])); return -1; }
    printf("bad-op\n");
    return -1;
}

/* ---- C14: calls that cross a thread / context boundary ---- */
typedef struct { int with_ctx; const char *line; hstate_t *parent; } foreign_arg_t;
static void *foreign_thread(void *p) {
    foreign_arg_t *a = p;
    T = a->parent;
    t_alien = 1;
    if (a->with_ctx && m_ctx_register("alien", M_CTX_PERSIST, NULL) != 0) { printf("alien-ctx-failed\n"); return NULL; }
    exec_line(a->line);
    if (a->with_ctx) m_ctx_deregister();
    return NULL;
}
static void foreign_call(int with_ctx, const char *rest) {
    foreign_arg_t a = { with_ctx, rest, T };
    pthread_t th;
    fflush(T->out_ ? T->out_ : stdout);
    g_foreign = 1;
    pthread_create(&th, NULL, foreign_thread, &a);
    pthread_join(th, NULL);
    int printed = g_foreign == 2;
    g_foreign = 0;
    if (printed) dump();
}

#include <semaphore.h>
typedef struct { const char *name; sem_t ready, done; m_mod_t *mod; hstate_t *parent; } alien_arg_t;
static void *alien_thread(void *p) {
    alien_arg_t *a = p;
    T = a->parent;
    t_alien = 1;
    m_mod_hook_t hook = { 0 }; hook.on_evt = evt_cb_0;
    if (m_ctx_register("alien", M_CTX_PERSIST, NULL) == 0 && m_mod_register(a->name, &a->mod, &hook, M_MOD_NAME_DUP, NULL) == 0)
        m_mod_start(a->mod);
    sem_post(&a->ready);
    sem_wait(&a->done);
    m_mod_t *tmp = a->mod;
    if (tmp) m_mod_deregister(&tmp);
    m_ctx_deregister();
    return NULL;
}
static void xtell_call(m_mod_t *m, const char *name, int pill) {
    alien_arg_t a; memset(&a, 0, sizeof a); a.name = name; a.parent = T;
    sem_init(&a.ready, 0, 0); sem_init(&a.done, 0, 0);
    pthread_t th;
    pthread_create(&th, NULL, alien_thread, &a);
    sem_wait(&a.ready);
    long r;
    static char payload[8];
    if (!a.mod) r = -99;
    else if (pill) r = m_mod_ps_poisonpill(m, a.mod);
    else r = m_mod_ps_tell(m, a.mod, payload, 0);
    printf("= %ld\n", r);
    sem_post(&a.done);
    pthread_join(th, NULL);
    dump();
}

static void run_script(const script_t *s) {
    alarm(20);          /* wall-clock budget of one script: SIGALRM ends the child, the parent reports `FAULT signal 14` */
    g_out_bytes = 0;
    S = s; cur = 0; nh = 0; nfr = 0; npipes = 0; ndups = 0; g_ctx = NULL; g_main_thread = pthread_self(); g_errno_leave = -1;
#ifndef HARNESS_MULTI
    m_set_memhook(my_malloc, my_calloc, my_free);
#endif
    /* user descriptor pool at fixed numbers, so that their order is the order of their ids */
    for (int k = 0; k < MAXF; k++) {
        int p[2];
        if (k >= 6) {
            /* regular files: epoll refuses them (EPERM) */
            char path[64]; snprintf(path, sizeof path, "/tmp/lmverif_%d_%d_%d", (int)getpid(), T->index_, k);
            int fd = open(path, O_RDWR | O_CREAT, 0600); unlink(path);
            FDR[k] = dup2(fd, 200 + 32 * T->index_ + 2 * k); FDW[k] = -1; __real_close(fd);
            continue;
        }
        if (__real_pipe(p) != 0) { FDR[k] = FDW[k] = -1; continue; }
        /* the first pipe of the pool is read through descriptor number 0 (a daemon that closed stdin: the boundary value) */
        FDR[k] = dup2(p[0], (k == 0 && T->index_ == 0) ? 0 : 200 + 32 * T->index_ + 2 * k); FDW[k] = dup2(p[1], 201 + 32 * T->index_ + 2 * k);
        __real_close(p[0]); __real_close(p[1]);
        fcntl(FDR[k], F_SETFL, O_NONBLOCK); fcntl(FDW[k], F_SETFL, O_NONBLOCK);
    }
    T->fd_base_ = open_fds();
    T->leak_deferred_ = 0;
    while (cur < s->nlines) exec_line(s->lines[cur++]);
    if (T->leak_deferred_) leakcheck();
}

/* after a complete teardown (no context left on this thread) and with every user reference dropped, nothing the library
 * allocated and no descriptor it opened may be left; before that the numbers mean nothing and are not printed */
static void leakcheck(void) {
    if (g_ctx) { printf("LEAKCHECK skipped\n"); return; }
    for (int i = 0; i < nh; i++) if (!H[i].gone) {
        /* the reference handed out by m_mod_register() (consumed only by the user's own m_mod_deregister()) and the extra one */
        if (H[i].userref) { H[i].userref = 0; m_mem_unref(H[i].mod); }
        if (H[i].owned) { H[i].owned = 0; m_mem_unref(H[i].mod); }
        H[i].gone = 1;
    }
    int closed_by_lib = 0;
    for (int k = 0; k < MAXF; k++) if (FDR[k] == -1) closed_by_lib++;
#ifdef HARNESS_MULTI
    printf("LEAKCHECK skipped\n");     /* the counters are per process */
#else
    printf("LEAKCHECK live=%ld fds=%d\n", live_blocks, open_fds() - (T->fd_base_ - closed_by_lib));
    if (getenv("HARNESS_DEBUG_LEAK")) {
        /* where the leaked blocks were allocated (sanitizer builds only) */
        extern void __asan_describe_address(void *) __attribute__((weak));
        for (int i = 0; i < LSET; i++) if (lset[i] && lset[i] != (void *)1 && __asan_describe_address) __asan_describe_address(lset[i]);
    }
#endif
}

#ifndef HARNESS_MULTI
int main(int argc, char **argv) { return harness_main(argc, argv); }
#endif
