/* Trace harness for Lib/thpool/thpool.c (property C06).
 *
 * Shim mode (default): thpool.c is compiled with -include sched_shim.h; this file implements the
 * shim functions = a deterministic cooperative scheduler over real pthreads, and the scenario
 * (main thread: new, spawn submitters, wait for them, free; submitters: their add calls).
 * One script = one line
 *     run <threads> <flags> <wait_all> <seed> <spur%> <failcreate> <sub>|<sub>|...     (<sub> = id:arg,id:arg,... or -)
 * and the output is the configuration line, the event sequence of that schedule (vocabulary of the
 * Lean model Lm.Thpool) and an `end` line.
 *
 * Stress mode (-DC06_STRESS, thpool.c compiled WITHOUT the shim, meant for -fsanitize=thread):
 * the same scenario on real, freely running threads; prints one summary line per script.
 */
#define SCHED_SHIM_IMPL
#include "common.h"
#include <stdint.h>
#include <stdatomic.h>
#include <pthread.h>
#include <sched.h>
#include "public/module/thpool/thpool.h"
#include "mem.h"   /* Lib/utils/mem.h: memhook */
#ifndef C06_STRESS
#include "sched_shim.h"
#endif

#define MAXT 64
#define MAXTASK 256
#define MAXSUB 16

typedef struct { int id; int val; } rec_t;
static rec_t R[MAXTASK];
typedef struct { int n; int task[MAXTASK]; int tid; } sub_t;
static sub_t S[MAXSUB];
static int nsub;
static int cfg_threads, cfg_flags, cfg_waitall, cfg_spur, cfg_failcreate;
static uint64_t rng;
static m_thpool_t *g_pool;

static int parse_cfg(const script_t *s) {
    if (s->nlines < 1) return -1;
    char buf[4096]; snprintf(buf, sizeof buf, "%s", s->lines[0]);
    char *t[16]; int n = split_ws(buf, t, 16);
    if (n != 8 || strcmp(t[0], "run")) return -1;
    cfg_threads = atoi(t[1]); cfg_flags = atoi(t[2]); cfg_waitall = atoi(t[3]);
    rng = strtoull(t[4], NULL, 10) * 0x9E3779B97F4A7C15ull + 0x1234567ull;
    if (!rng) rng = 1;
    cfg_spur = atoi(t[5]); cfg_failcreate = atoi(t[6]);
    nsub = 0;
    memset(S, 0, sizeof S);
    if (strcmp(t[7], "-")) {
        char *sp = t[7];
        while (sp && *sp && nsub < MAXSUB) {
            char *bar = strchr(sp, '|');
            if (bar) *bar = 0;
            sub_t *su = &S[nsub++];
            if (strcmp(sp, "-")) {
                char *p = sp;
                while (p && *p) {
                    char *comma = strchr(p, ',');
                    if (comma) *comma = 0;
                    int id, val;
                    if (sscanf(p, "%d:%d", &id, &val) != 2 || id < 0 || id >= 128) return -1;
                    R[id].id = id; R[id].val = val;
                    su->task[su->n++] = id;
                    p = comma ? comma + 1 : NULL;
                }
            }
            sp = bar ? bar + 1 : NULL;
        }
    }
    return 0;
}

/* ---- allocation accounting through the public memhook ---- */
#define MAXBLK 4096
static struct { void *p; size_t n; } blk[MAXBLK];
static atomic_long outstanding;
static void blk_add(void *p, size_t n);
static void blk_del(void *p);

#ifndef C06_STRESS
/* ======================================================================================== */
/*                                  cooperative scheduler                                   */
/* ======================================================================================== */
typedef enum { ST_FREE, ST_NEW, ST_RUN, ST_LOCK, ST_COND, ST_WOKEN, ST_JOIN, ST_JOINSUBS, ST_WAITALL, ST_DONE } tstate;
static const char *st_name[] = { "free", "new", "run", "lock", "cond", "woken", "join", "joinsubs", "waitall", "done" };
typedef struct {
    pthread_t th; pthread_cond_t cv; tstate st; int join_target; int woke_by; int detached; int is_sub;
    void *(*fn)(void *); void *arg; int joined; int seg_fresh;
} thr_t;
static thr_t T[MAXT];
static int nT;
static int token;
static pthread_mutex_t G = PTHREAD_MUTEX_INITIALIZER;
static __thread int me = 0;

/* the modelled primitives */
static pthread_mutex_t *mx_addr; static int mx_state;   /* 0 none, 1 inited, 2 destroyed */
static int mx_owner = -1;
static pthread_cond_t *cv_addr; static int cv_state;
static void *pool_blk; static size_t pool_len; static int pool_freed;
static int next_detached;
static int n_create, n_spurious, n_events;
static int g_shim_on;

static uint64_t rnd(void) { rng ^= rng << 13; rng ^= rng >> 7; rng ^= rng << 17; return rng; }

static void fault(const char *what) {
    printf("FAULT %s\n", what);
    for (int i = 0; i < nT; i++) printf("# T%d %s\n", i, st_name[T[i].st]);
    fflush(stdout);
    _exit(3);
}

static int enabled(int i) {
    switch (T[i].st) {
    case ST_NEW: case ST_RUN: return 1;
    case ST_LOCK: case ST_WOKEN: return mx_owner < 0;
    case ST_JOIN: return T[T[i].join_target].st == ST_DONE;
    case ST_JOINSUBS:
        for (int k = 0; k < nT; k++) if (T[k].is_sub && T[k].st != ST_DONE) return 0;
        return 1;
    case ST_WAITALL:
        for (int k = 0; k < nT; k++) if (k != i && T[k].st != ST_DONE) return 0;
        return 1;
    default: return 0;
    }
}

/* choose the next thread to run; a thread blocked in cond_wait is offered as a candidate (spurious
 * wake-up) with probability cfg_spur % — but never in order to escape a deadlock */
static int pick(void) {
    int cand[MAXT * 2], n = 0;
    for (int i = 0; i < nT; i++) if (enabled(i)) cand[n++] = i;
    if (n == 0) {
        int alldone = 1;
        for (int i = 0; i < nT; i++) if (T[i].st != ST_DONE) alldone = 0;
        if (alldone) return -1;
        fault("deadlock");
    }
    if (mx_owner < 0)
        for (int i = 0; i < nT; i++)
            if (T[i].st == ST_COND && (int)(rnd() % 100) < cfg_spur) cand[n++] = i;
    return cand[rnd() % n];
}

static void switch_to(int next) {
    if (next == me) return;
    token = next;
    pthread_cond_signal(&T[next].cv);
    while (token != me) pthread_cond_wait(&T[me].cv, &G);
}

/* scheduling point: I am about to perform an operation whose guard is described by `st` */
static void sched(tstate st) {
    T[me].st = st;
    int next = pick();
    if (next < 0) fault("scheduler-no-thread");
    switch_to(next);
    /* picked: the guard holds (or, for ST_COND, this is a spurious wake-up) */
    T[me].seg_fresh = 1;
}

#define EV(...) do { printf("T%d ", me); printf(__VA_ARGS__); printf("\n"); n_events++; } while (0)

static void check_mx(pthread_mutex_t *m, const char *op) {
    char b[96];
    if (pool_freed) { snprintf(b, sizeof b, "use-after-free %s by T%d after the pool was freed", op, me); fault(b); }
    if (m != mx_addr || mx_state != 1) { snprintf(b, sizeof b, "use-after-destroy %s by T%d on a %s mutex", op, me, mx_state == 2 ? "destroyed" : "foreign"); fault(b); }
}
static void check_cv(pthread_cond_t *c, const char *op) {
    char b[96];
    if (pool_freed) { snprintf(b, sizeof b, "use-after-free %s by T%d after the pool was freed", op, me); fault(b); }
    if (c != cv_addr || cv_state != 1) { snprintf(b, sizeof b, "use-after-destroy %s by T%d on a %s condition variable", op, me, cv_state == 2 ? "destroyed" : "foreign"); fault(b); }
}
static void check_pool(const char *op) {
    char b[96];
    if (pool_freed) { snprintf(b, sizeof b, "use-after-free %s by T%d after the pool was freed", op, me); fault(b); }
}

int shim_mutex_init(pthread_mutex_t *m, const pthread_mutexattr_t *a) {
    (void)a;
    mx_addr = m; mx_state = 1; mx_owner = -1;
    for (int i = 0; i < MAXBLK; i++)
        if (blk[i].p && (char *)m >= (char *)blk[i].p && (char *)m < (char *)blk[i].p + blk[i].n) { pool_blk = blk[i].p; pool_len = blk[i].n; }
    return 0;
}
int shim_cond_init(pthread_cond_t *c, const pthread_condattr_t *a) { (void)a; cv_addr = c; cv_state = 1; return 0; }

int shim_mutex_destroy(pthread_mutex_t *m) {
    sched(ST_RUN);
    check_mx(m, "destroy");
    EV("destroy mutex");
    if (mx_owner >= 0) fault("destroy-locked-mutex");
    mx_state = 2;
    return 0;
}
int shim_cond_destroy(pthread_cond_t *c) {
    sched(ST_RUN);
    check_cv(c, "destroy");
    EV("destroy cond");
    for (int i = 0; i < nT; i++) if (T[i].st == ST_COND) fault("destroy-cond-with-waiters");
    cv_state = 2;
    return 0;
}
int shim_mutex_lock(pthread_mutex_t *m) {
    if (mx_owner == me) { check_mx(m, "lock"); fault("relock by the owner"); }
    sched(ST_LOCK);
    check_mx(m, "lock");
    mx_owner = me; T[me].st = ST_RUN;
    EV("lock");
    return 0;
}
int shim_mutex_unlock(pthread_mutex_t *m) {
    sched(ST_RUN);
    check_mx(m, "unlock");
    EV("unlock");
    if (mx_owner != me) fault("unlock-not-owner");
    mx_owner = -1;
    return 0;
}
int shim_cond_wait(pthread_cond_t *c, pthread_mutex_t *m) {
    static const char *why[] = { "spurious", "signal", "broadcast" };
    sched(ST_RUN);
    check_cv(c, "wait"); check_mx(m, "wait");
    EV("wait");
    if (mx_owner != me) fault("wait-not-owner");
    mx_owner = -1;
    T[me].woke_by = 0;
    sched(ST_COND);
    /* woken (signal / broadcast set ST_WOKEN) or spuriously picked; the mutex is free */
    check_cv(c, "wake"); check_mx(m, "wake");
    if (T[me].st == ST_COND) n_spurious++;
    mx_owner = me; T[me].st = ST_RUN;
    EV("wake %s", why[T[me].woke_by]);
    return 0;
}
int shim_cond_signal(pthread_cond_t *c) {
    sched(ST_RUN);
    check_cv(c, "signal");
    int w[MAXT], n = 0;
    for (int i = 0; i < nT; i++) if (T[i].st == ST_COND) w[n++] = i;
    if (n == 0) EV("signal -");
    else { int k = w[rnd() % n]; T[k].st = ST_WOKEN; T[k].woke_by = 1; EV("signal T%d", k); }
    return 0;
}
int shim_cond_broadcast(pthread_cond_t *c) {
    sched(ST_RUN);
    check_cv(c, "broadcast");
    for (int i = 0; i < nT; i++) if (T[i].st == ST_COND) { T[i].st = ST_WOKEN; T[i].woke_by = 2; }
    EV("broadcast");
    return 0;
}
int shim_attr_setdetachstate(pthread_attr_t *attr, int state) {
    next_detached = (state == PTHREAD_CREATE_DETACHED);
    return pthread_attr_setdetachstate(attr, state);
}

static void *trampoline(void *p) {
    int id = (int)(intptr_t)p;
    pthread_mutex_lock(&G);
    me = id;
    while (token != me) pthread_cond_wait(&T[me].cv, &G);
    T[me].st = ST_RUN;
    T[me].fn(T[me].arg);
    if (!T[me].is_sub) { sched(ST_RUN); EV("exit"); }
    T[me].st = ST_DONE;
    int next = pick();
    if (next >= 0) { token = next; pthread_cond_signal(&T[next].cv); }
    pthread_mutex_unlock(&G);
    return NULL;
}

static int spawn(void *(*fn)(void *), void *arg, int detached, int is_sub, const pthread_attr_t *attr) {
    if (nT >= MAXT) fault("too-many-threads");
    int j = nT++;
    memset(&T[j], 0, sizeof T[j]);
    pthread_cond_init(&T[j].cv, NULL);
    T[j].st = ST_NEW; T[j].fn = fn; T[j].arg = arg; T[j].detached = detached; T[j].is_sub = is_sub;
    if (pthread_create(&T[j].th, attr, trampoline, (void *)(intptr_t)j) != 0) fault("real-pthread_create-failed");
    return j;
}

int shim_create(pthread_t *th, const pthread_attr_t *attr, void *(*fn)(void *), void *arg) {
    sched(ST_RUN);
    check_pool("create");
    if (n_create++ == cfg_failcreate) { EV("create_fail"); return EAGAIN; }
    int j = spawn(fn, arg, next_detached, 0, attr);
    *th = T[j].th;
    EV("create T%d", j);
    return 0;
}
int shim_join(pthread_t th, void **ret) {
    int j = -1;
    for (int i = 0; i < nT; i++) if (T[i].st != ST_FREE && !T[i].is_sub && i != 0 && pthread_equal(T[i].th, th)) j = i;
    if (j < 0) fault("join-unknown-thread");
    if (T[j].detached) fault("join-detached-thread");
    T[me].join_target = j;
    sched(ST_JOIN);
    T[me].st = ST_RUN;
    EV("join T%d", j);
    T[j].joined = 1;
    return pthread_join(th, ret);
}

/* ---- the two shared containers ---- */
static void need_lock(const char *op) { (void)op; /* judged by the monitor from the trace, not here */ }

ssize_t shim_queue_len(const m_queue_t *q) {
    sched(ST_RUN); check_pool("qlen"); need_lock("qlen");
    ssize_t n = m_queue_len(q);
    EV("qlen %zd", n);
    return n;
}
int shim_queue_enqueue(m_queue_t *q, void *data) {
    sched(ST_RUN); check_pool("enq");
    /* first field of the task record is the function pointer, second the argument */
    rec_t *r = ((void **)data)[1];
    EV("enq %d", r ? r->id : -1);
    return m_queue_enqueue(q, data);
}
void *shim_queue_dequeue(m_queue_t *q) {
    sched(ST_RUN); check_pool("deq");
    void *d = m_queue_dequeue(q);
    if (d) { rec_t *r = ((void **)d)[1]; EV("deq %d", r ? r->id : -1); }
    else EV("deq -");
    return d;
}
static int collect_cb(void *up, void *data) {
    (void)up;
    rec_t *r = ((void **)data)[1];
    printf(" %d", r ? r->id : -1);
    return 0;
}
int shim_queue_free(m_queue_t **q) {
    sched(ST_RUN); check_pool("qfree");
    printf("T%d qfree", me);
    if (q && *q && m_queue_len(*q) > 0) m_queue_iterate(*q, collect_cb, NULL);
    printf("\n"); n_events++;
    return m_queue_free(q);
}
ssize_t shim_list_len(const m_list_t *l) {
    sched(ST_RUN); check_pool("tlen");
    ssize_t n = m_list_len(l);
    EV("tlen %zd", n);
    return n;
}
int shim_list_insert(m_list_t *l, void *data) {
    sched(ST_RUN); check_pool("tins");
    int j = -1;
    for (int i = 0; i < nT; i++) if (T[i].st != ST_FREE && !T[i].is_sub && i != 0 && pthread_equal(T[i].th, *(pthread_t *)data)) j = i;
    EV("tins T%d", j);
    return m_list_insert(l, data);
}
int shim_list_free(m_list_t **l) {
    sched(ST_RUN); check_pool("tfree");
    EV("tfree");
    return m_list_free(l);
}

/* ---- plain memory accesses of thpool.c ----
 * thpool.c is compiled with -fsanitize=thread *instrumentation only*; the __tsan_* entry points are
 * ours.  The first access to the pool object after a scheduling point is itself a scheduling point
 * (`T<i> @`): what a thread does to the pool between two library calls happens atomically at that
 * place.  Every access is logged (`T<i> . r|w|a <offset>`) for the race detector of the monitor;
 * an access to released memory is a fault. */
#define MAXFREED 4096
static struct { char *p; size_t n; } freed[MAXFREED];
static int nfreed;
static void note_freed(void *p, size_t n) { if (nfreed < MAXFREED) { freed[nfreed].p = p; freed[nfreed].n = n; nfreed++; } }
static void note_alloc(void *p, size_t n) {
    for (int i = 0; i < nfreed; i++)
        if ((char *)p < freed[i].p + freed[i].n && freed[i].p < (char *)p + n) { freed[i] = freed[--nfreed]; i--; }
}
static void pool_access(void *addr, int kind) {
    char *a = addr;
    static const char kn[] = "rwa";
    if (!g_shim_on) return;
    if (pool_blk && a >= (char *)pool_blk && a < (char *)pool_blk + pool_len) {
        if (pool_freed) { char b[96]; snprintf(b, sizeof b, "use-after-free access to the freed pool (+%ld) by T%d", (long)(a - (char *)pool_blk), me); fault(b); }
        if (T[me].seg_fresh) { sched(ST_RUN); EV("@"); }
        T[me].seg_fresh = 0;
        printf("T%d . %c %ld\n", me, kn[kind], (long)(a - (char *)pool_blk));
        return;
    }
    for (int i = 0; i < nfreed; i++)
        if (a >= freed[i].p && a < freed[i].p + freed[i].n) { char b[96]; snprintf(b, sizeof b, "use-after-free access to released memory by T%d", me); fault(b); }
}
void __tsan_init(void) {}
void __tsan_func_entry(void *pc) { (void)pc; }
void __tsan_func_exit(void) {}
#define TSAN_RW(n) \
    void __tsan_read##n(void *a) { pool_access(a, 0); } \
    void __tsan_write##n(void *a) { pool_access(a, 1); } \
    void __tsan_unaligned_read##n(void *a) { pool_access(a, 0); } \
    void __tsan_unaligned_write##n(void *a) { pool_access(a, 1); }
TSAN_RW(1) TSAN_RW(2) TSAN_RW(4) TSAN_RW(8) TSAN_RW(16)
void __tsan_read_range(void *a, long n) { (void)n; pool_access(a, 0); }
void __tsan_write_range(void *a, long n) { (void)n; pool_access(a, 1); }
#define TSAN_ATOMIC(bits, ty) \
    ty __tsan_atomic##bits##_load(const volatile ty *a, int mo) { (void)mo; pool_access((void *)a, 2); return __atomic_load_n(a, __ATOMIC_SEQ_CST); } \
    void __tsan_atomic##bits##_store(volatile ty *a, ty v, int mo) { (void)mo; pool_access((void *)a, 2); __atomic_store_n(a, v, __ATOMIC_SEQ_CST); } \
    ty __tsan_atomic##bits##_fetch_add(volatile ty *a, ty v, int mo) { (void)mo; pool_access((void *)a, 2); return __atomic_fetch_add(a, v, __ATOMIC_SEQ_CST); } \
    ty __tsan_atomic##bits##_fetch_sub(volatile ty *a, ty v, int mo) { (void)mo; pool_access((void *)a, 2); return __atomic_fetch_sub(a, v, __ATOMIC_SEQ_CST); } \
    ty __tsan_atomic##bits##_exchange(volatile ty *a, ty v, int mo) { (void)mo; pool_access((void *)a, 2); return __atomic_exchange_n(a, v, __ATOMIC_SEQ_CST); }
TSAN_ATOMIC(8, unsigned char) TSAN_ATOMIC(16, unsigned short) TSAN_ATOMIC(32, unsigned int) TSAN_ATOMIC(64, unsigned long)

/* ---- memhook ---- */
static void *my_malloc(size_t n) { void *p = malloc(n); if (p) { outstanding++; blk_add(p, n); note_alloc(p, n); } return p; }
static void *my_calloc(size_t a, size_t b) { void *p = calloc(a, b); if (p) { outstanding++; blk_add(p, a * b); note_alloc(p, a * b); } return p; }
static void my_free(void *p) {
    if (!p) return;
    if (p == pool_blk && !pool_freed) {
        sched(ST_RUN);
        EV("free pool");
        pool_freed = 1;
    }
    outstanding--;
    for (int i = 0; i < MAXBLK; i++) if (blk[i].p == p) note_freed(p, blk[i].n);
    blk_del(p);
    free(p);
}

/* ---- scenario ---- */
static m_thpool_t *g_pool_w;     /* the handle as the tasks know it (m_thpool_free clears the caller's copy) */
static void *task_fn(void *arg) {
    rec_t *r = arg;
    sched(ST_RUN);
    EV("task_start %d %d", r->id, r->val);
    for (int i = 0; i < r->val % 4; i++) sched(ST_RUN);     /* tasks of different lengths */
    if (r->val >= 100 && r->id < 128) {
        /* a task that submits a follow-up task (id 128 + its own) from inside the pool: legal at any time, the pool
         * cannot go away while one of its workers is running a task */
        rec_t *ch = &R[128 + r->id];
        ch->id = 128 + r->id; ch->val = r->val % 100;
        sched(ST_RUN);
        EV("add_call %d %d", ch->id, ch->val);
        int rc = m_thpool_add(g_pool_w, task_fn, ch);
        sched(ST_RUN);
        EV("add_ret %d", rc);
    }
    sched(ST_RUN);
    EV("task_end %d", r->id);
    return NULL;
}
static void *submitter(void *arg) {
    sub_t *su = arg;
    for (int k = 0; k < su->n; k++) {
        rec_t *r = &R[su->task[k]];
        sched(ST_RUN);
        EV("add_call %d %d", r->id, r->val);
        int rc = m_thpool_add(g_pool, task_fn, r);
        sched(ST_RUN);
        EV("add_ret %d", rc);
    }
    return NULL;
}

static void run_script(const script_t *s) {
    if (parse_cfg(s) < 0) { printf("bad-op\n"); return; }
    memhook._malloc = my_malloc; memhook._calloc = my_calloc; memhook._free = my_free;
    memset(blk, 0, sizeof blk); outstanding = 0;
    memset(T, 0, sizeof T); nT = 1; me = 0; token = 0;
    pthread_cond_init(&T[0].cv, NULL); T[0].st = ST_RUN;
    mx_addr = NULL; mx_state = 0; mx_owner = -1; cv_addr = NULL; cv_state = 0;
    pool_blk = NULL; pool_freed = 0; next_detached = 0; n_create = 0; n_spurious = 0; n_events = 0; nfreed = 0; g_shim_on = 1;
    printf("cfg threads=%d lazy=%d detached=%d\n", cfg_threads, cfg_flags & 1, (cfg_flags >> 1) & 1);

    pthread_mutex_lock(&G);
    g_pool = m_thpool_new((uint8_t)cfg_threads, (m_thpool_flags)cfg_flags);
    sched(ST_RUN);
    EV("new_ret %d", g_pool ? 1 : 0);
    g_pool_w = g_pool;
    if (g_pool) {
        for (int k = 0; k < nsub; k++) S[k].tid = spawn(submitter, &S[k], 0, 1, NULL);
        sched(ST_JOINSUBS);
        T[me].st = ST_RUN;
        EV("free_call %d", cfg_waitall);
        int rc = m_thpool_free(&g_pool, cfg_waitall);
        sched(ST_RUN);
        EV("free_ret %d", rc);
    }
    sched(ST_WAITALL);
    T[me].st = ST_RUN;
    pthread_mutex_unlock(&G);
    for (int i = 1; i < nT; i++) if (T[i].is_sub) pthread_join(T[i].th, NULL);
    g_shim_on = 0;
    printf("end live=%ld spurious=%d events=%d\n", (long)outstanding, n_spurious, n_events);
}

#else
/* ======================================================================================== */
/*                      stress mode: real threads, no scheduler (TSan)                      */
/* ======================================================================================== */
static atomic_int execs[MAXTASK];
static atomic_int wrong_arg, running_now, max_running;
static int addrc[MAXTASK];
static m_thpool_t *g_pool_w;
static void *my_malloc(size_t n) { void *p = malloc(n); if (p) outstanding++; return p; }
static void *my_calloc(size_t a, size_t b) { void *p = calloc(a, b); if (p) outstanding++; return p; }
static void my_free(void *p) { if (!p) return; outstanding--; free(p); }
static void *task_fn(void *arg) {
    rec_t *r = arg;
    int now = ++running_now, m = max_running;
    while (now > m && !atomic_compare_exchange_weak(&max_running, &m, now)) {}
    if (r->id < 0 || r->id >= MAXTASK || &R[r->id] != r) wrong_arg++;
    else execs[r->id]++;
    if (r->val & 1) sched_yield();
    if (r->val >= 100 && r->id < 128) {
        /* a task that submits a follow-up task from inside the pool */
        rec_t *ch = &R[128 + r->id];
        ch->id = 128 + r->id; ch->val = r->val % 100;
        addrc[ch->id] = m_thpool_add(g_pool_w, task_fn, ch);
    }
    running_now--;
    return NULL;
}
static void *submitter(void *arg) {
    sub_t *su = arg;
    for (int k = 0; k < su->n; k++) {
        rec_t *r = &R[su->task[k]];
        addrc[r->id] = m_thpool_add(g_pool, task_fn, r);
        if (r->val & 2) sched_yield();
    }
    return NULL;
}
static void run_script(const script_t *s) {
    if (parse_cfg(s) < 0) { printf("bad-op\n"); return; }
    memhook._malloc = my_malloc; memhook._calloc = my_calloc; memhook._free = my_free;
    outstanding = 0; wrong_arg = 0; running_now = 0; max_running = 0;
    for (int i = 0; i < MAXTASK; i++) { execs[i] = 0; addrc[i] = -9999; }
    g_pool = m_thpool_new((uint8_t)cfg_threads, (m_thpool_flags)cfg_flags);
    if (!g_pool) { printf("stress new-failed\n"); return; }
    g_pool_w = g_pool;
    pthread_t th[MAXSUB];
    for (int k = 0; k < nsub; k++) pthread_create(&th[k], NULL, submitter, &S[k]);
    for (int k = 0; k < nsub; k++) pthread_join(th[k], NULL);
    int rc = m_thpool_free(&g_pool, cfg_waitall);
    int twice = 0, missing = 0, unaccepted = 0, ran = 0, acc = 0;
    for (int k = 0; k < nsub; k++)
        for (int i = 0; i < 2 * S[k].n; i++) {
            /* every submitted task, then the follow-up task of each one that submits one */
            int id = S[k].task[i % S[k].n];
            if (i >= S[k].n) { if (R[id].val < 100) continue; id += 128; if (addrc[id] == -9999) continue; }
            if (addrc[id] == 0) acc++;
            if (execs[id] > 1) twice++;
            if (execs[id] >= 1) ran++;
            if (execs[id] >= 1 && addrc[id] != 0) unaccepted++;
            if (cfg_waitall && addrc[id] == 0 && execs[id] != 1) missing++;
        }
    /* give detached threads a moment to leave before the next scenario reuses the globals */
    if (cfg_flags & 2) usleep(2000);
    printf("stress rc=%d accepted=%d ran=%d twice=%d missing=%d unaccepted=%d wrong_arg=%d running_at_return=%d max_running=%d live=%ld\n",
           rc, acc, ran, twice, missing, unaccepted, (int)wrong_arg, (int)running_now, (int)max_running, (long)outstanding);
}
#endif

static void blk_add(void *p, size_t n) {
    for (int i = 0; i < MAXBLK; i++) if (!blk[i].p) { blk[i].p = p; blk[i].n = n; return; }
}
static void blk_del(void *p) {
    for (int i = 0; i < MAXBLK; i++) if (blk[i].p == p) { blk[i].p = NULL; return; }
}

int main(int argc, char **argv) { return harness_main(argc, argv); }
