/* Witness of known finding D-04g (property C04): a module is stopped while one of its task sources is still running on the
 * context's thread pool.  manage_srcs() drops the source (its memory is freed, its eventfd closed); the task thread then stores
 * its return value into the freed source and notifies through it (heap-use-after-free in task_thread, Lib/core/src.c).
 * Deterministic: the task sleeps 200 ms, the stop follows the registration at once.  Exit 0 = the library survived. */
#include <module/mod.h>
#include <module/ctx.h>
#include <module/structs/queue.h>
#include <stdio.h>
#include <unistd.h>
static void *slow(void *p) { usleep(200000); return (void *)7; }
static void on_evt(m_mod_t *m, const m_queue_t *const evts) { (void)m; (void)evts; }
int main(void) {
    m_mod_t *m = NULL;
    m_mod_hook_t h = { .on_evt = on_evt };
    m_ctx_register("c", M_CTX_PERSIST, NULL);
    m_mod_register("a", &m, &h, 0, NULL);
    m_mod_start(m);
    m_ctx_dispatch();                       /* loop started */
    m_src_task_t t = { 1, slow };
    printf("reg %d\n", m_mod_src_register_task(m, &t, 0, NULL));
    printf("stop %d\n", m_mod_stop(m));     /* the task is still running */
    usleep(400000);
    m_ctx_quit(0); printf("dispatch %d\n", m_ctx_dispatch());
    m_mod_deregister(&m);
    m_ctx_deregister();
    printf("done\n");
    return 0;
}
