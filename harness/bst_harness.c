/* Correspondence harness for Lib/structs/bst.c (property C11).  Links the library's own objects.
 *
 * Script language (DESIGN Appendix A, container scripts):
 *   new <dtor:0|1> <user|default>     create the set (an existing one is leaked on purpose: scripts start with new)
 *   ins v | rm v | find v | len | clear | free
 *   trav pre|in|post [i c]            m_bst_traverse; the callback returns c at the element with index i
 *   iterate [i c]                     m_bst_iterate
 *   it new | it next | it get | it rm
 * Values are integers used as fake pointers (void *)(uintptr_t)v; the set never dereferences them.
 * The user comparator orders by v / 4, so that distinct pointers can compare equal.
 * Any op that modifies the set other than through the iterator (new/ins/rm/clear/free) first drops a
 * live iterator (C: the iterator would be invalid), as the model does.
 * After every op the three traversals and the length are printed ("T pre:.. in:.. post:.. len:n").
 */
#include "common.h"
#include <stdint.h>
#include <stddef.h>
#include <inttypes.h>
#include "public/module/structs/bst.h"

static int user_cmp(void *a, void *b) {
    uint64_t x = (uint64_t)(uintptr_t)a / 4, y = (uint64_t)(uintptr_t)b / 4;
    return (x > y) - (x < y);
}

static void dtor_cb(void *p) { printf("dtor %" PRIu64 "\n", (uint64_t)(uintptr_t)p); }

typedef struct { int n; int stop_at; int code; int first; } trav_t;

static int trav_cb(void *ud, void *data) {
    trav_t *t = ud;
    printf(" %" PRIu64, (uint64_t)(uintptr_t)data);
    if (t->n++ == t->stop_at) return t->code;
    return 0;
}

static int dump_cb(void *ud, void *data) {
    printf(" %" PRIu64, (uint64_t)(uintptr_t)data);
    return 0;
}

static void dump(m_bst_t *l) {
    printf("T pre:");
    if (l) m_bst_traverse(l, M_BST_PRE, dump_cb, NULL);
    printf(" in:");
    if (l) m_bst_traverse(l, M_BST_IN, dump_cb, NULL);
    printf(" post:");
    if (l) m_bst_traverse(l, M_BST_POST, dump_cb, NULL);
    printf(" len:%ld\n", l ? (long)m_bst_len(l) : -1L);
}

static void run_script(const script_t *s) {
    m_bst_t *l = NULL;
    m_bst_itr_t *it = NULL;
    for (int k = 0; k < s->nlines; k++) {
        char buf[256]; snprintf(buf, sizeof buf, "%s", s->lines[k]);
        char *t[8]; int n = split_ws(buf, t, 8);
        if (n == 0) continue;
        int modifies = !strcmp(t[0], "new") || !strcmp(t[0], "ins") || !strcmp(t[0], "rm") ||
                       !strcmp(t[0], "clear") || !strcmp(t[0], "free");
        if (modifies && it) { free(it); it = NULL; }
        if (!strcmp(t[0], "new") && n == 3 && (!strcmp(t[2], "user") || !strcmp(t[2], "default")) &&
            (!strcmp(t[1], "0") || !strcmp(t[1], "1"))) {
            l = m_bst_new(!strcmp(t[2], "user") ? user_cmp : NULL, atoi(t[1]) ? dtor_cb : NULL);
            printf(l ? "= ok\n" : "= nil\n");
        } else if ((!strcmp(t[0], "ins") || !strcmp(t[0], "rm")) && n == 2) {
            void *v = (void *)(uintptr_t)strtoull(t[1], NULL, 10);
            int r = !strcmp(t[0], "ins") ? m_bst_insert(l, v) : m_bst_remove(l, v);
            printf("= %d\n", r);
        } else if (!strcmp(t[0], "find") && n == 2) {
            void *v = (void *)(uintptr_t)strtoull(t[1], NULL, 10);
            void *r = m_bst_find(l, v);
            if (r) printf("= %" PRIu64 "\n", (uint64_t)(uintptr_t)r); else printf("= nil\n");
        } else if (!strcmp(t[0], "len") && n == 1) {
            printf("= %ld\n", (long)m_bst_len(l));
        } else if (!strcmp(t[0], "clear") && n == 1) {
            printf("= %d\n", m_bst_clear(l));
        } else if (!strcmp(t[0], "free") && n == 1) {
            int r = m_bst_free(&l);
            printf("= %d %s\n", r, l ? "nonnull" : "null");
        } else if ((!strcmp(t[0], "trav") && (n == 2 || n == 4)) || (!strcmp(t[0], "iterate") && (n == 1 || n == 3))) {
            int isit = !strcmp(t[0], "iterate");
            int a = isit ? 1 : 2;
            trav_t tv = { 0, -1, 0, 1 };
            if (n == a + 2) { tv.stop_at = atoi(t[a]); tv.code = atoi(t[a + 1]); }
            m_bst_order o = M_BST_PRE;
            if (!isit) {
                if (!strcmp(t[1], "pre")) o = M_BST_PRE;
                else if (!strcmp(t[1], "in")) o = M_BST_IN;
                else if (!strcmp(t[1], "post")) o = M_BST_POST;
                else { printf("bad-op\n"); continue; }
            }
            printf("seq");
            int r = isit ? m_bst_iterate(l, trav_cb, &tv) : m_bst_traverse(l, o, trav_cb, &tv);
            printf("\n= %d\n", r);
        } else if (!strcmp(t[0], "it") && n == 2 && !strcmp(t[1], "new")) {
            if (it) { free(it); it = NULL; }
            it = m_bst_itr_new(l);
            printf(it ? "= itr\n" : "= nil\n");
        } else if (!strcmp(t[0], "it") && n == 2 && !strcmp(t[1], "next")) {
            int r = m_bst_itr_next(&it);
            printf("= %d %s\n", r, it ? "live" : "end");
        } else if (!strcmp(t[0], "it") && n == 2 && !strcmp(t[1], "get")) {
            void *r = m_bst_itr_get_data(it);
            if (r) printf("= %" PRIu64 "\n", (uint64_t)(uintptr_t)r); else printf("= nil\n");
        } else if (!strcmp(t[0], "it") && n == 2 && !strcmp(t[1], "rm")) {
            printf("= %d\n", m_bst_itr_remove(it));
        } else { printf("bad-op\n"); continue; }
        dump(l);
    }
    if (it) free(it);
}

int main(int argc, char **argv) { return harness_main(argc, argv); }
