/-!
# Model of `Lib/thpool/thpool.c` (property C06): a labelled transition system

One program counter value per pthread primitive and per shared-state access group of
`thpool_thread`, `m_thpool_add` (+ `has_space`, `add_threads`), `m_thpool_new`, `wait_pool` and
`m_thpool_free`, as the code is after the fix commits (D-06a: `alive` counter + wait for detached
workers, D-06b: unlock on the `add_threads` failure path, D-06c: `INITED_STARTED` set before the
workers are created).  The C statement each value stands for is quoted next to it.

Threads are natural numbers.  Thread `0` is the thread that calls `m_thpool_new` and later
`m_thpool_free`; any other thread becomes a *submitter* by its first `addCall` and a *worker* by
being the target of a `create`.  A worker may call `m_thpool_add` itself from inside the task it is
running (program counters `n…`), at any time — also while `m_thpool_free` is in progress.  There is no bound on the number of threads or tasks: program
counters and per-task records are total functions, the labels name the thread that moves and every
nondeterministic choice (which waiter a signal wakes, the identity of a created thread / submitted
task, whether `pthread_create` fails, spurious wake-ups), so `step` is a function and a recorded
trace can be replayed (`accept`).

POSIX semantics encoded here (trusted): a mutex is free or owned by one thread; `cond_wait`
atomically releases the mutex and blocks; a blocked waiter leaves the wait set by a signal (which
picks *any one* waiter), by a broadcast (all) or spuriously, and then has to re-acquire the mutex;
`join` returns once the target's start routine has returned; `pthread_create` may fail.
`running_tasks` is a C11 atomic: its increments/decrements are steps of their own.
-/
namespace Lm.Thpool

abbrev Tid := Nat
abbrev TaskId := Nat

inductive Pc
  | none          -- the thread does not exist (yet)
  /- thpool_thread -/
  | wLock         -- pthread_mutex_lock(&pool->lock)                          (top of `while (true)`)
  | wLoop         -- while (m_queue_len(pool->tasks) == 0 && pool->shutdown == SHUTDOWN_NO)
  | wWait         --     pthread_cond_wait(&pool->notify, &pool->lock)
  | wWaiting      --     … blocked in / returning from pthread_cond_wait
  | wBreakChk     -- if (pool->shutdown && (pool->shutdown == SHUTDOWN_WAITCURR ||
  | wBreakLen     --                        m_queue_len(pool->tasks) == 0)) break;
  | wDequeue      -- task = m_queue_dequeue(pool->tasks)
  | wUnlock       -- pthread_mutex_unlock(&pool->lock)
  | wInc          -- pool->running_tasks++
  | wCall         -- task->fn(task->arg)            (call)
  | wInTask       --                                (the task function runs; return)
  | wDec          -- memhook._free(task); pool->running_tasks--
  | wExitDec      -- pool->alive--                                              (after the loop)
  | wExitBcast    -- if (flags & DETACHED) pthread_cond_broadcast(&pool->notify)
  | wExitUnlock   -- pthread_mutex_unlock(&pool->lock)
  | wRet          -- return NULL
  | wDone         -- the start routine has returned
  /- m_thpool_add -/
  | sIdle         -- between two calls
  | sLock         -- pthread_mutex_lock(&pool->lock)
  | sShutChk      -- M_SHUTDOWN_ASSERT_LOCKED: if (pool->shutdown != SHUTDOWN_NO)        (read with the lock held)
  | sPermUnlock   --     { pthread_mutex_unlock(&pool->lock); return -EPERM; }
  | sLazy0        -- if (flags & LAZY) if (!(pool->running_tasks             (atomic load; clang evaluates it first)
  | sLazy1        --                         < m_list_len(pool->threads))
  | sLazy2        --                       && m_list_len(pool->threads) < pool->max_threads)
  | sCreate       -- add_threads(pool, 1): pthread_create(th, &tattr, thpool_thread, pool)
  | sInsert       --                       m_list_insert(pool->threads, th); pool->alive++
  | sFailUnlock   -- if (ret) { pthread_mutex_unlock(&pool->lock); return ret; }
  | sEnq          -- m_queue_enqueue(pool->tasks, new_task)
  | sSignal       -- pthread_cond_signal(&pool->notify)
  | sUnlock       -- pthread_mutex_unlock(&pool->lock)
  | sRetOk        -- return 0
  | sRetPerm      -- return -EPERM
  | sRetFail      -- return ret  (error of pthread_create)
  /- m_thpool_add called by a worker from inside the task it is running (same statements; it returns into the task) -/
  | nLock | nShutChk | nPermUnlock | nLazy0 | nLazy1 | nLazy2 | nCreate | nInsert | nFailUnlock | nEnq | nSignal | nUnlock
  | nRetOk | nRetPerm | nRetFail
  /- m_thpool_new (thread 0) -/
  | mNewCreate    -- add_threads(pool, thread_count): pthread_create(...)       (eager pools only)
  | mNewInsert    --                                  m_list_insert(pool->threads, th); pool->alive++
  | mNewRet       -- return pool
  | mIdle         -- the caller owns a live handle
  /- m_thpool_free → wait_pool (thread 0) -/
  | fLock         -- pthread_mutex_lock(&pool->lock)
  | fSetShut      -- pool->shutdown = shutdown
  | fBcast        -- pthread_cond_broadcast(&pool->notify)
  | fAliveChk     -- if (flags & DETACHED) while (pool->alive > 0)
  | fWait         --     pthread_cond_wait(&pool->notify, &pool->lock)
  | fWaiting      --     … blocked in / returning from pthread_cond_wait
  | fUnlock       -- pthread_mutex_unlock(&pool->lock)
  | fJoinInit     -- if (!(flags & DETACHED)) m_itr_foreach(pool->threads, …
  | fJoin         --     pthread_join(*th, NULL)
  | fCondDestroy  -- pthread_cond_destroy(&p->notify)
  | fMutDestroy   -- pthread_mutex_destroy(&p->lock)
  | fQueueFree    -- m_queue_free(&p->tasks)        (destructor memhook._free on every queued task)
  | fListFree     -- m_list_free(&p->threads)
  | fFreePool     -- memhook._free(p)
  | fRet          -- return 0   (from m_thpool_free; or NULL from m_thpool_new when it failed)
  | mDone
  deriving DecidableEq, Repr

inductive Shutdown | no | waitCurr | waitAll
  deriving DecidableEq, Repr

structure Cfg where
  maxThreads : Nat
  isLazy : Bool
  detached : Bool
  deriving DecidableEq, Repr

/-- what is known about one task; everything except `arg` is ghost (history) state -/
structure TaskInfo where
  submitted : Bool := false     -- some `m_thpool_add` was called with it
  arg : Nat := 0                -- the argument it was submitted with
  accepted : Bool := false      -- it was enqueued (its `add` returns 0)
  started : Bool := false
  finished : Bool := false
  discarded : Bool := false     -- freed by `m_queue_free` without having run
  execCount : Nat := 0
  ranWith : Option Nat := none  -- the argument its function was called with
  runner : Tid := 0             -- the worker that dequeued it
  subBy : Tid := 0              -- the thread that submitted it
  deriving DecidableEq, Repr

inductive Act
  | tau                                   -- a step without a library call (plain memory access)
  | lock | unlock | wait
  | spurious                              -- leave the wait set without having been signalled
  | reacq                                 -- re-acquire the mutex on the way out of `cond_wait`
  | signal (w : Option Tid)               -- the waiter chosen (`none`: nobody is waiting)
  | broadcast
  | create (j : Tid) | createFail
  | join (j : Tid) | exit
  | qlen (n : Nat) | enq (k : TaskId) | deq (k : TaskId) | qfree (ks : List TaskId)
  | tlen (n : Nat) | tins (j : Tid) | tfree
  | taskStart (k : TaskId) (arg : Nat) | taskEnd (k : TaskId)
  | addCall (k : TaskId) (arg : Nat) | addRet (code : Int)
  | newRet (ok : Bool) | freeCall (waitAll : Bool) | freeRet
  | destroyCond | destroyMutex | freePool
  deriving DecidableEq, Repr

structure Label where
  tid : Tid
  act : Act
  deriving DecidableEq, Repr

structure State where
  cfg : Cfg
  pc : Tid → Pc
  cur : Tid → TaskId            -- local: the task being added (submitters) / executed (workers)
  addK : Tid → TaskId           -- local: the task a worker is adding from inside its task
  newTh : Tid → Tid             -- local: `th` in add_threads
  rd : Tid → Nat                -- local: the value of `running_tasks` loaded in has_space
  lockOwner : Option Tid
  waiters : List Tid            -- blocked on `notify`
  tasks : List TaskId           -- pool->tasks, head first
  shutdown : Shutdown
  threads : List Tid            -- pool->threads (m_list_insert without comparator: newest first)
  alive : Nat
  running : Nat                 -- pool->running_tasks
  task : TaskId → TaskInfo
  idx : Nat                     -- thread 0: `i` in add_threads
  mode : Bool                   -- thread 0: wait_all
  joinRest : List Tid           -- thread 0: rest of the m_itr_foreach iteration
  newFailed : Bool              -- thread 0: m_thpool_free was called by m_thpool_new
  workers : List Tid            -- ghost: every thread ever created
  pendBy : Option Tid           -- ghost: the thread that has created `newTh` but not yet inserted it into `threads`
  adding : List Tid             -- ghost: submitters inside m_thpool_add
  condDestroyed : Bool
  mutexDestroyed : Bool
  poolFreed : Bool

def upd {α : Type} (f : Nat → α) (k : Nat) (v : α) : Nat → α := fun x => if x = k then v else f x

@[simp] theorem upd_same {α : Type} (f : Nat → α) (k : Nat) (v : α) : upd f k v k = v := by simp [upd]
theorem upd_other {α : Type} (f : Nat → α) (k x : Nat) (v : α) (h : x ≠ k) : upd f k v x = f x := by simp [upd, h]
theorem upd_apply {α : Type} (f : Nat → α) (k x : Nat) (v : α) : upd f k v x = if x = k then v else f x := rfl

/-- the state in which thread 0 enters `m_thpool_new` (after the allocations, which do not matter here) -/
def init (c : Cfg) : State :=
  { cfg := c, pc := upd (fun _ => Pc.none) 0 (if c.isLazy then .mNewRet else .mNewCreate),
    cur := fun _ => 0, addK := fun _ => 0, newTh := fun _ => 0, rd := fun _ => 0, lockOwner := none, waiters := [], tasks := [],
    shutdown := .no, threads := [], alive := 0, running := 0, task := fun _ => {}, idx := 0, mode := false,
    joinRest := [], newFailed := false, workers := [], pendBy := none, adding := [],
    condDestroyed := false, mutexDestroyed := false, poolFreed := false }

def State.goto (s : State) (t : Tid) (p : Pc) : State := { s with pc := upd s.pc t p }

def EPERM : Int := -1
def EAGAIN : Int := 11

/-- One transition.  `none`: the label is not enabled in `s`. -/
def step (s : State) (l : Label) : Option State :=
  let t := l.tid
  match s.pc t with
  /- ---------------------------------- thpool_thread ---------------------------------- -/
  | .wLock => match l.act with
    | .lock => if s.lockOwner = none then some { s.goto t .wLoop with lockOwner := some t } else none
    | _ => none
  | .wLoop => match l.act with
    | .qlen n => if n = s.tasks.length then
        some (s.goto t (if s.tasks = [] ∧ s.shutdown = .no then .wWait else .wBreakChk)) else none
    | _ => none
  | .wWait => match l.act with
    | .wait => some { s.goto t .wWaiting with lockOwner := none, waiters := t :: s.waiters }
    | _ => none
  | .wWaiting => match l.act with
    | .spurious => if t ∈ s.waiters then some { s with waiters := s.waiters.erase t } else none
    | .reacq => if t ∉ s.waiters ∧ s.lockOwner = none then some { s.goto t .wLoop with lockOwner := some t } else none
    | _ => none
  | .wBreakChk => match l.act with
    | .tau => some (s.goto t (match s.shutdown with | .no => .wDequeue | .waitCurr => .wExitDec | .waitAll => .wBreakLen))
    | _ => none
  | .wBreakLen => match l.act with
    | .qlen n => if n = s.tasks.length then some (s.goto t (if s.tasks = [] then .wExitDec else .wDequeue)) else none
    | _ => none
  | .wDequeue => match l.act with
    | .deq k => match s.tasks with
      | k' :: rest => if k = k' then some { s.goto t .wUnlock with tasks := rest, cur := upd s.cur t k, task := upd s.task k ({ s.task k with runner := t }) } else none
      | [] => none          -- m_queue_dequeue returns NULL and `task->fn` dereferences it
    | _ => none
  | .wUnlock => match l.act with
    | .unlock => some { s.goto t .wInc with lockOwner := none }
    | _ => none
  | .wInc => match l.act with
    | .tau => some { s.goto t .wCall with running := s.running + 1 }
    | _ => none
  | .wCall => match l.act with
    | .taskStart k a => if k = s.cur t ∧ a = (s.task k).arg then
        some { s.goto t .wInTask with task := upd s.task k ({ s.task k with started := true, execCount := (s.task k).execCount + 1, ranWith := some a }) }
      else none
    | _ => none
  | .wInTask => match l.act with
    | .taskEnd k => if k = s.cur t then
        some { s.goto t .wDec with task := upd s.task k ({ s.task k with finished := true }) } else none
    | .addCall k a => if (s.task k).submitted = false then
        some { s.goto t .nLock with addK := upd s.addK t k, task := upd s.task k ({ s.task k with submitted := true, arg := a, subBy := t }) }
      else none
    | _ => none
  | .wDec => match l.act with
    | .tau => some { s.goto t .wLock with running := s.running - 1 }
    | _ => none
  | .wExitDec => match l.act with
    | .tau => some { s.goto t (if s.cfg.detached then .wExitBcast else .wExitUnlock) with alive := s.alive - 1 }
    | _ => none
  | .wExitBcast => match l.act with
    | .broadcast => some { s.goto t .wExitUnlock with waiters := [] }
    | _ => none
  | .wExitUnlock => match l.act with
    | .unlock => some { s.goto t .wRet with lockOwner := none }
    | _ => none
  | .wRet => match l.act with
    | .exit => some (s.goto t .wDone)
    | _ => none
  | .wDone => none
  /- ---------------------------------- m_thpool_add ----------------------------------- -/
  | .none | .sIdle => match l.act with
    | .addCall k a => if t ≠ 0 ∧ (s.task k).submitted = false then
        some { s.goto t .sLock with cur := upd s.cur t k, adding := t :: s.adding, task := upd s.task k ({ s.task k with submitted := true, arg := a, subBy := t }) }
      else none
    | _ => none
  | .sLock => match l.act with
    | .lock => if s.lockOwner = none then some { s.goto t .sShutChk with lockOwner := some t } else none
    | _ => none
  | .sShutChk => match l.act with
    | .tau => some (s.goto t (if s.shutdown = .no then (if s.cfg.isLazy then .sLazy0 else .sEnq) else .sPermUnlock))
    | _ => none
  | .sPermUnlock => match l.act with
    | .unlock => some { s.goto t .sRetPerm with lockOwner := none }
    | _ => none
  | .sLazy0 => match l.act with
    | .tau => some { s.goto t .sLazy1 with rd := upd s.rd t s.running }
    | _ => none
  | .sLazy1 => match l.act with
    | .tlen n => if n = s.threads.length then some (s.goto t (if s.rd t < s.threads.length then .sEnq else .sLazy2)) else none
    | _ => none
  | .sLazy2 => match l.act with
    | .tlen n => if n = s.threads.length then some (s.goto t (if s.threads.length < s.cfg.maxThreads then .sCreate else .sEnq)) else none
    | _ => none
  | .sCreate => match l.act with
    | .create j => if j ≠ 0 ∧ s.pc j = .none then
        some { s with pc := upd (upd s.pc j .wLock) t .sInsert, newTh := upd s.newTh t j, workers := j :: s.workers, pendBy := some t } else none
    | .createFail => some (s.goto t .sFailUnlock)
    | _ => none
  | .sInsert => match l.act with
    | .tins j => if j = s.newTh t then
        some { s.goto t .sEnq with threads := j :: s.threads, alive := s.alive + 1, pendBy := none } else none
    | _ => none
  | .sFailUnlock => match l.act with
    | .unlock => some { s.goto t .sRetFail with lockOwner := none }
    | _ => none
  | .sEnq => match l.act with
    | .enq k => if k = s.cur t then
        some { s.goto t .sSignal with tasks := s.tasks ++ [k], task := upd s.task k ({ s.task k with accepted := true }) }
      else none
    | _ => none
  | .sSignal => match l.act with
    | .signal none => if s.waiters = [] then some (s.goto t .sUnlock) else none
    | .signal (some w) => if w ∈ s.waiters then some { s.goto t .sUnlock with waiters := s.waiters.erase w } else none
    | _ => none
  | .sUnlock => match l.act with
    | .unlock => some { s.goto t .sRetOk with lockOwner := none }
    | _ => none
  | .sRetOk => match l.act with
    | .addRet c => if c = 0 then some { s.goto t .sIdle with adding := s.adding.erase t } else none
    | _ => none
  | .sRetPerm => match l.act with
    | .addRet c => if c = EPERM then some { s.goto t .sIdle with adding := s.adding.erase t } else none
    | _ => none
  | .sRetFail => match l.act with
    | .addRet c => if c = EAGAIN then some { s.goto t .sIdle with adding := s.adding.erase t } else none
    | _ => none
  /- ------------------------ m_thpool_add from inside a task -------------------------- -/
  | .nLock => match l.act with
    | .lock => if s.lockOwner = none then some { s.goto t .nShutChk with lockOwner := some t } else none
    | _ => none
  | .nShutChk => match l.act with
    | .tau => some (s.goto t (if s.shutdown = .no then (if s.cfg.isLazy then .nLazy0 else .nEnq) else .nPermUnlock))
    | _ => none
  | .nPermUnlock => match l.act with
    | .unlock => some { s.goto t .nRetPerm with lockOwner := none }
    | _ => none
  | .nLazy0 => match l.act with
    | .tau => some { s.goto t .nLazy1 with rd := upd s.rd t s.running }
    | _ => none
  | .nLazy1 => match l.act with
    | .tlen n => if n = s.threads.length then some (s.goto t (if s.rd t < s.threads.length then .nEnq else .nLazy2)) else none
    | _ => none
  | .nLazy2 => match l.act with
    | .tlen n => if n = s.threads.length then some (s.goto t (if s.threads.length < s.cfg.maxThreads then .nCreate else .nEnq)) else none
    | _ => none
  | .nCreate => match l.act with
    | .create j => if j ≠ 0 ∧ s.pc j = .none then
        some { s with pc := upd (upd s.pc j .wLock) t .nInsert, newTh := upd s.newTh t j, workers := j :: s.workers, pendBy := some t } else none
    | .createFail => some (s.goto t .nFailUnlock)
    | _ => none
  | .nInsert => match l.act with
    | .tins j => if j = s.newTh t then
        some { s.goto t .nEnq with threads := j :: s.threads, alive := s.alive + 1, pendBy := none } else none
    | _ => none
  | .nFailUnlock => match l.act with
    | .unlock => some { s.goto t .nRetFail with lockOwner := none }
    | _ => none
  | .nEnq => match l.act with
    | .enq k => if k = s.addK t then
        some { s.goto t .nSignal with tasks := s.tasks ++ [k], task := upd s.task k ({ s.task k with accepted := true }) }
      else none
    | _ => none
  | .nSignal => match l.act with
    | .signal none => if s.waiters = [] then some (s.goto t .nUnlock) else none
    | .signal (some w) => if w ∈ s.waiters then some { s.goto t .nUnlock with waiters := s.waiters.erase w } else none
    | _ => none
  | .nUnlock => match l.act with
    | .unlock => some { s.goto t .nRetOk with lockOwner := none }
    | _ => none
  | .nRetOk => match l.act with
    | .addRet c => if c = 0 then some (s.goto t .wInTask) else none
    | _ => none
  | .nRetPerm => match l.act with
    | .addRet c => if c = EPERM then some (s.goto t .wInTask) else none
    | _ => none
  | .nRetFail => match l.act with
    | .addRet c => if c = EAGAIN then some (s.goto t .wInTask) else none
    | _ => none
  /- ---------------------------------- m_thpool_new ----------------------------------- -/
  | .mNewCreate => match l.act with
    | .create j => if j ≠ 0 ∧ s.pc j = .none then
        some { s with pc := upd (upd s.pc j .wLock) t .mNewInsert, newTh := upd s.newTh t j, workers := j :: s.workers, pendBy := some t } else none
    | .createFail => some { s.goto t .fLock with mode := false, newFailed := true }
    | _ => none
  | .mNewInsert => match l.act with
    | .tins j => if j = s.newTh t then
        some { s.goto t (if s.idx + 1 < s.cfg.maxThreads then .mNewCreate else .mNewRet) with threads := j :: s.threads, alive := s.alive + 1, idx := s.idx + 1, pendBy := none }
      else none
    | _ => none
  | .mNewRet => match l.act with
    | .newRet ok => if ok = true then some (s.goto t .mIdle) else none
    | _ => none
  | .mIdle => match l.act with
    | .freeCall w => some { s.goto t .fLock with mode := w }
    | _ => none
  /- ---------------------------- m_thpool_free / wait_pool ---------------------------- -/
  | .fLock => match l.act with
    | .lock => if s.lockOwner = none then some { s.goto t .fSetShut with lockOwner := some t } else none
    | _ => none
  | .fSetShut => match l.act with
    | .tau => some { s.goto t .fBcast with shutdown := if s.mode then .waitAll else .waitCurr }
    | _ => none
  | .fBcast => match l.act with
    | .broadcast => some { s.goto t (if s.cfg.detached then .fAliveChk else .fUnlock) with waiters := [] }
    | _ => none
  | .fAliveChk => match l.act with
    | .tau => some (s.goto t (if 0 < s.alive then .fWait else .fUnlock))
    | _ => none
  | .fWait => match l.act with
    | .wait => some { s.goto t .fWaiting with lockOwner := none, waiters := t :: s.waiters }
    | _ => none
  | .fWaiting => match l.act with
    | .spurious => if t ∈ s.waiters then some { s with waiters := s.waiters.erase t } else none
    | .reacq => if t ∉ s.waiters ∧ s.lockOwner = none then some { s.goto t .fAliveChk with lockOwner := some t } else none
    | _ => none
  | .fUnlock => match l.act with
    | .unlock => some { s.goto t (if s.cfg.detached then .fCondDestroy else .fJoinInit) with lockOwner := none }
    | _ => none
  | .fJoinInit => match l.act with
    | .tau => some { s.goto t .fJoin with joinRest := s.threads }
    | _ => none
  | .fJoin => match l.act with
    | .join j => match s.joinRest with
      | j' :: rest => if j = j' ∧ s.pc j = .wDone then some { s with joinRest := rest } else none
      | [] => none
    | .tau => if s.joinRest = [] then some (s.goto t .fCondDestroy) else none
    | _ => none
  | .fCondDestroy => match l.act with
    | .destroyCond => some { s.goto t .fMutDestroy with condDestroyed := true }
    | _ => none
  | .fMutDestroy => match l.act with
    | .destroyMutex => some { s.goto t .fQueueFree with mutexDestroyed := true }
    | _ => none
  | .fQueueFree => match l.act with
    | .qfree ks => if ks = s.tasks then
        some { s.goto t .fListFree with tasks := [], task := fun k => if k ∈ s.tasks then { s.task k with discarded := true } else s.task k }
      else none
    | _ => none
  | .fListFree => match l.act with
    | .tfree => some { s.goto t .fFreePool with threads := [] }
    | _ => none
  | .fFreePool => match l.act with
    | .freePool => some { s.goto t .fRet with poolFreed := true }
    | _ => none
  | .fRet => match l.act with
    | .freeRet => if s.newFailed = false then some (s.goto t .mDone) else none
    | .newRet ok => if s.newFailed = true ∧ ok = false then some (s.goto t .mDone) else none
    | _ => none
  | .mDone => none

/-- The API precondition of a call, evaluated in the state it is made in: `m_thpool_add` needs a
live handle (`m_thpool_new` has returned it and `m_thpool_free` has not been called), and
`m_thpool_free` may only be called when no `m_thpool_add` is in progress. -/
def pre (s : State) (l : Label) : Bool :=
  match l.act with
  | .addCall _ _ => s.pc 0 == .mIdle || s.pc l.tid == .wInTask      -- (a running task keeps its pool alive)
  | .freeCall _ => s.adding.isEmpty
  | _ => true

/-- run a label sequence; `none` when some label is not enabled -/
def run (s : State) : List Label → Option State
  | [] => some s
  | l :: ls => match step s l with
    | some s' => run s' ls
    | none => none

/-- every call of the history respects the API precondition (decidable on histories) -/
def okRun (s : State) : List Label → Bool
  | [] => true
  | l :: ls => pre s l && (match step s l with | some s' => okRun s' ls | none => false)

/-- trace acceptance: the final state, or the index of the first label that is not enabled -/
def accept (s : State) (ls : List Label) (i : Nat := 0) : State ⊕ Nat :=
  match ls with
  | [] => .inl s
  | l :: ls => match step s l with
    | some s' => accept s' ls (i + 1)
    | none => .inr i

/-- program counters at which a thread's next step is not a library call -/
def isTauPc (s : State) (t : Tid) : Bool :=
  match s.pc t with
  | .wBreakChk | .wInc | .wDec | .wExitDec | .sShutChk | .sLazy0 | .nShutChk | .nLazy0 | .fSetShut | .fAliveChk | .fJoinInit => true
  | .fJoin => s.joinRest.isEmpty
  | _ => false

/-- Internal steps of thread `t`, as many as are pending (at most `fuel`).  Used by trace acceptance:
the harness marks the place where a thread first touches the pool object after a scheduling point
(`T<i> @`); everything the thread does to the pool before its next library call happens there,
atomically (the cooperative scheduler cannot preempt it in between), so that is where its pending
internal steps fire.  See `Driver.Thpool`. -/
def runTaus (s : State) (t : Tid) : Nat → State
  | 0 => s
  | fuel + 1 => if isTauPc s t then
      match step s ⟨t, .tau⟩ with
      | some s' => runTaus s' t fuel
      | none => s
    else s

/-- all worker / submitter threads are at rest and thread 0 is done -/
def quiescent (s : State) (tids : List Tid) : Bool :=
  s.pc 0 == .mDone && tids.all fun t => t == 0 || s.pc t == .none || s.pc t == .sIdle || s.pc t == .wDone

end Lm.Thpool
