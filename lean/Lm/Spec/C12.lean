import Lm.Struct.Queue
import Lm.Struct.Stack
import Lm.Struct.ListM
/-!
# The property C12 as executable array machines

What the property text says about queue, stack and list, written as three small machines over a
plain `List Val` (the content in container order) — no nodes, no links, no `tail`, no `len` field.
An iterator is a cursor *index* into that list.  These machines are the Spec the chain models are
proved to refine (`Lm.Props.C12`); the python oracle of the check is the same array model.

* queue: `enq` appends, `deq`/`peek`/`rm` act on the first element            (first in, first out)
* stack: `push` prepends, `pop`/`peek`/`rm` act on the first element          (last in, first out)
* list:  `ins` adds one element and leaves the others in their order; `find`/`rm` hit the first
         element with `cmp = 0` or the same pointer; `rm` leaves the others in their order
* iterator: `new` is on element 0, `next` moves to the following element (after a removal: to the
         element that followed the removed one), the end frees the iterator; `get`/`set`/`rm` act on
         the element under the cursor
* the destructor is called for exactly the elements dropped by `rm`/`clear`/`free`/`it rm`
-/
namespace Lm.Spec.C12
open Lm.Struct

structure ACur where
  pos     : Nat
  removed : Bool := false     -- queue, stack: the current element was removed through the iterator
  diff    : Int := 0          -- list: insertions minus removals through the iterator since `next`
  deriving DecidableEq, Repr

inductive AEv
  | dtor (v : Val)
  | cur (v : Option Val)
  | cb (vs : List Val)
  deriving DecidableEq, Repr

structure ASt where
  alive : Bool := true
  dtor  : Bool := false
  cmp   : Bool := false
  xs    : List Val := []
  cur   : Option ACur := none
  out   : List AEv := []
  deriving DecidableEq, Repr

/-- destructor events for the dropped elements `vs` -/
def drop (d : Bool) (vs : List Val) : List AEv := if d then vs.map AEv.dtor else []

/-! ## Operations shared by the three containers -/

def len (a : ASt) : Int := if a.alive then a.xs.length else EINVAL

def peek (a : ASt) : ASt × Ret :=
  match a.xs with
  | x :: _ => (a, .ptr x)
  | [] => (a, .ptr 0)

def iterate (a : ASt) (stop : Option Nat) : ASt × Ret :=
  if a.xs = [] then (a, .int EINVAL)
  else ({ a with out := a.out ++ [AEv.cb (match stop with | some k => a.xs.take k | none => a.xs)] }, .int 0)

/-- remove the first element, destructor called -/
def rmFirst (a : ASt) : ASt × Ret :=
  match a.xs with
  | x :: r => ({ a with xs := r, out := a.out ++ drop a.dtor [x] }, .int 0)
  | [] => (a, .int EINVAL)

/-- hand the first element back to the caller, no destructor -/
def takeFirst (a : ASt) : ASt × Ret :=
  match a.xs with
  | x :: r => ({ a with xs := r }, .ptr x)
  | [] => (a, .ptr 0)

def itNew (a : ASt) : ASt × Ret :=
  match a.xs with
  | x :: _ => ({ a with cur := some { pos := 0 }, out := a.out ++ [AEv.cur (some x)] }, .handle true)
  | [] => ({ a with cur := none }, .handle false)

/-- leave the cursor at index `p`: the iterator ends when `p` is past the last element -/
def settle (a : ASt) (p : Nat) : ASt × Ret :=
  match a.xs[p]? with
  | some x => ({ a with cur := some { pos := p }, out := a.out ++ [AEv.cur (some x)] }, .int 0)
  | none => ({ a with cur := none }, .int 0)

/-- queue / stack iterator -/
def itNext (a : ASt) : ASt × Ret :=
  match a.cur with
  | none => (a, .int EINVAL)
  | some c => settle a (if c.removed then c.pos else c.pos + 1)

def itGet (a : ASt) : ASt × Ret :=
  match a.cur with
  | none => (a, .ptr 0)
  | some c => if c.removed then (a, .ptr 0) else
    match a.xs[c.pos]? with
    | some x => (a, .ptr x)
    | none => (a, .ptr 0)

def itSet (a : ASt) (v : Val) : ASt × Ret :=
  match a.cur with
  | none => (a, .int EINVAL)
  | some c => if c.removed ∨ v = 0 then (a, .int EINVAL) else
    ({ a with xs := a.xs.set c.pos v }, .int 0)

def itRm (a : ASt) : ASt × Ret :=
  match a.cur with
  | none => (a, .int EINVAL)
  | some c => if c.removed then (a, .int EINVAL) else
    match a.xs[c.pos]? with
    | some x => ({ a with xs := a.xs.eraseIdx c.pos, cur := some { c with removed := true },
                          out := a.out ++ drop a.dtor [x] }, .int 0)
    | none => (a, .int ENOENT)

/-! ## Queue: first in, first out -/
namespace Queue

def init (dtor : Bool) : ASt := { dtor := dtor }

def step (a : ASt) : Queue.Op → ASt × Ret
  | .enq v => if a.alive ∧ v ≠ 0 then ({ a with xs := a.xs ++ [v] }, .int 0) else (a, .int EINVAL)
  | .deq => takeFirst a
  | .peek => peek a
  | .rm => rmFirst a
  | .len => (a, .int (len a))
  | .clear => if a.xs = [] then (a, .int EINVAL) else ({ a with xs := [], out := a.out ++ drop a.dtor a.xs }, .int 0)
  | .free => ({ a with alive := false, xs := [], cur := none, out := a.out ++ drop a.dtor a.xs }, .int 0)
  | .iterate k => iterate a k
  | .itNew => itNew a
  | .itNext => itNext a
  | .itGet => itGet a
  | .itSet v => itSet a v
  | .itRm => itRm a

def run (a : ASt) (ops : List Queue.Op) : ASt := ops.foldl (fun a o => (step a o).1) a

def trace (a : ASt) : List Queue.Op → List Ret
  | [] => []
  | o :: os => (step a o).2 :: trace (step a o).1 os

end Queue

/-! ## Stack: last in, first out -/
namespace Stack

def init (dtor : Bool) : ASt := { dtor := dtor }

def step (a : ASt) : Stack.Op → ASt × Ret
  | .push v => if a.alive ∧ v ≠ 0 then ({ a with xs := v :: a.xs }, .int 0) else (a, .int EINVAL)
  | .pop => takeFirst a
  | .peek => peek a
  | .rm => rmFirst a
  | .len => (a, .int (len a))
  | .clear => if a.alive then ({ a with xs := [], out := a.out ++ drop a.dtor a.xs }, .int 0) else (a, .int EINVAL)
  | .free => if a.alive then ({ a with alive := false, xs := [], cur := none, out := a.out ++ drop a.dtor a.xs }, .int 0)
             else (a, .int EINVAL)
  | .iterate k => iterate a k
  | .itNew => itNew a
  | .itNext => itNext a
  | .itGet => itGet a
  | .itSet v => itSet a v
  | .itRm => itRm a

def run (a : ASt) (ops : List Stack.Op) : ASt := ops.foldl (fun a o => (step a o).1) a

def trace (a : ASt) : List Stack.Op → List Ret
  | [] => []
  | o :: os => (step a o).2 :: trace (step a o).1 os

end Stack

/-! ## List: a multiset in a stable order -/
namespace ListM

def init (dtor cmp : Bool) : ASt := { dtor := dtor, cmp := cmp }

/-- `v` names the element `x`: the comparator says equal, or it is the same pointer -/
def hits (eq : Val → Val → Bool) (cmp : Bool) (v x : Val) : Bool := (cmp && eq v x) || x == v

/-- where `ins v` puts the new element (the property leaves this open; this is what the code does):
in front of the first element comparing equal, at the end if there is none, at the head without
comparator -/
def insPos (eq : Val → Val → Bool) (a : ASt) (v : Val) : Nat :=
  if a.cmp then a.xs.findIdx (fun x => eq v x) else 0

def step (eq : Val → Val → Bool) (a : ASt) : ListM.Op → ASt × Ret
  | .ins v => if a.alive ∧ v ≠ 0 then ({ a with xs := a.xs.insertIdx (insPos eq a v) v }, .int 0) else (a, .int EINVAL)
  | .rm v =>
    if a.xs = [] ∨ v = 0 then (a, .int EINVAL) else
    match a.xs.find? (hits eq a.cmp v) with
    | some x => ({ a with xs := a.xs.eraseIdx (a.xs.findIdx (hits eq a.cmp v)), out := a.out ++ drop a.dtor [x] }, .int 0)
    | none => (a, .int ENOENT)
  | .find v =>
    if v = 0 then (a, .ptr 0) else
    match a.xs.find? (hits eq a.cmp v) with
    | some x => (a, .ptr x)
    | none => (a, .ptr 0)
  | .len => (a, .int (len a))
  | .clear => if a.alive then ({ a with xs := [], out := a.out ++ drop a.dtor a.xs }, .int 0) else (a, .int EINVAL)
  | .free => if a.alive then ({ a with alive := false, xs := [], cur := none, out := a.out ++ drop a.dtor a.xs }, .int 0)
             else (a, .int EINVAL)
  | .iterate k => iterate a k
  | .itNew => itNew a
  | .itNext =>
    -- after insertions in front of the cursor (diff ≥ 0) skip them and the current element; after a
    -- removal (diff < 0) the cursor already is on the next element
    match a.cur with
    | none => (a, .int EINVAL)
    | some c => settle a (if c.pos < a.xs.length ∧ c.diff ≥ 0 then min (c.pos + c.diff.toNat + 1) a.xs.length else c.pos)
  | .itGet =>
    match a.cur with
    | none => (a, .ptr 0)
    | some c => (match a.xs[c.pos]? with | some x => (a, .ptr x) | none => (a, .ptr 0))
  | .itSet v =>
    match a.cur with
    | none => (a, .int EINVAL)
    | some c => if v = 0 ∨ c.pos ≥ a.xs.length then (a, .int EINVAL) else ({ a with xs := a.xs.set c.pos v }, .int 0)
  | .itRm =>
    match a.cur with
    | none => (a, .int EINVAL)
    | some c =>
      match a.xs[c.pos]? with
      | some x => ({ a with xs := a.xs.eraseIdx c.pos, cur := some { c with diff := c.diff - 1 },
                            out := a.out ++ drop a.dtor [x] }, .int 0)
      | none => (a, .int EINVAL)
  | .itIns v =>
    match a.cur with
    | none => (a, .int EINVAL)
    | some c => if v = 0 then (a, .int EINVAL) else
      ({ a with xs := a.xs.insertIdx c.pos v, cur := some { c with diff := c.diff + 1 } }, .int 0)

def run (eq : Val → Val → Bool) (a : ASt) (ops : List ListM.Op) : ASt := ops.foldl (fun a o => (step eq a o).1) a

def trace (eq : Val → Val → Bool) (a : ASt) : List ListM.Op → List Ret
  | [] => []
  | o :: os => (step eq a o).2 :: trace eq (step eq a o).1 os

end ListM

end Lm.Spec.C12
