import Lm.Struct.Queue
import Lm.Struct.ListM
/-!
# The two functions as they were before the fixes (D-12a, D-12b)

Kept so that the theorems of `Lm.Props.C12` can be seen to be about something: with these versions
in place of the repaired ones the invariants fail on small histories (`Lm.Props.C12`, last section).
-/
namespace Lm.Struct

/-- `m_queue_itr_remove` before the fix of D-12a: `tail = NULL` whenever the tail node is removed -/
def itrRemoveOld (s : St) : St × Ret :=
  match s.itr, s.obj with
  | none, _ => (s, .int EINVAL)
  | some it, obj =>
    if it.removed then (s, .int EINVAL) else
    match obj with
    | none => (s.crash, .int 0)
    | some q =>
      match linkPos q.chain it.elem with
      | none => (s.crash, .int 0)
      | some p =>
        match q.chain[p]? with
        | none => (s, .int ENOENT)
        | some tmp =>
          let tail' := if q.tail = some tmp.id then none else q.tail
          ({ s with obj := some { q with chain := eraseAt q.chain p, tail := tail', len := q.len - 1 },
                    itr := some { it with removed := true },
                    log := callDtor q.dtor s.log tmp.val }, .int 0)

def Queue.stepOld (s : St) : Queue.Op → St × Ret
  | .itRm => itrRemoveOld s
  | o => Queue.step s o

def Queue.runOld (s : St) (ops : List Queue.Op) : St := ops.foldl (fun s o => (Queue.stepOld s o).1) s

/-- `m_list_itr_next` before the fix of D-12b: one link forward whatever was inserted -/
def ListM.itrNextOld (s : St) : St × Ret :=
  match s.itr, s.obj with
  | none, _ => (s, .int EINVAL)
  | some _, none => (s.crash, .int 0)
  | some it, some q =>
    match linkPos q.chain it.elem with
    | none => (s.crash, .int 0)
    | some p =>
      let lp := if (q.chain[p]?).isSome ∧ it.diff ≥ 0 then ListM.advance q.chain 1 (it.elem, p) else (it.elem, p)
      if (q.chain[lp.2]?).isNone then ({ s with itr := none }, .int 0)
      else ({ s with itr := some { it with elem := lp.1, diff := 0 } }, .int 0)

def ListM.stepOld (eq : Val → Val → Bool) (s : St) : ListM.Op → St × Ret
  | .itNext => ListM.noteCur (ListM.itrNextOld s)
  | o => ListM.step eq s o

def ListM.runOld (eq : Val → Val → Bool) (s : St) (ops : List ListM.Op) : St :=
  ops.foldl (fun s o => (ListM.stepOld eq s o).1) s

end Lm.Struct
