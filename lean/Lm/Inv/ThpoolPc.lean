import Lm.Thpool
/-!
# Program-counter classes of the thread-pool transition system

Each class is a total function on `Pc` together with one `@[simp]` equation per constructor, so
that `simp` evaluates a class on a concrete program counter and leaves `cls (s.pc u)` alone.
(The equations are mechanical; they were written by a throw-away script.)
-/
namespace Lm.Thpool

/-- the thread owns the pool mutex -/
def holds : Pc → Bool
  | .wLoop | .wWait | .wBreakChk | .wBreakLen | .wDequeue | .wUnlock | .wExitDec | .wExitBcast | .wExitUnlock | .sLazy0 | .sLazy1 | .sLazy2 | .sCreate | .sInsert | .sFailUnlock | .sEnq | .sSignal | .sUnlock | .fSetShut | .fBcast | .fAliveChk | .fWait | .fUnlock => true
  | _ => false
@[simp, grind =] theorem holds_none : holds .none = false := rfl
@[simp, grind =] theorem holds_wLock : holds .wLock = false := rfl
@[simp, grind =] theorem holds_wLoop : holds .wLoop = true := rfl
@[simp, grind =] theorem holds_wWait : holds .wWait = true := rfl
@[simp, grind =] theorem holds_wWaiting : holds .wWaiting = false := rfl
@[simp, grind =] theorem holds_wBreakChk : holds .wBreakChk = true := rfl
@[simp, grind =] theorem holds_wBreakLen : holds .wBreakLen = true := rfl
@[simp, grind =] theorem holds_wDequeue : holds .wDequeue = true := rfl
@[simp, grind =] theorem holds_wUnlock : holds .wUnlock = true := rfl
@[simp, grind =] theorem holds_wInc : holds .wInc = false := rfl
@[simp, grind =] theorem holds_wCall : holds .wCall = false := rfl
@[simp, grind =] theorem holds_wInTask : holds .wInTask = false := rfl
@[simp, grind =] theorem holds_wDec : holds .wDec = false := rfl
@[simp, grind =] theorem holds_wExitDec : holds .wExitDec = true := rfl
@[simp, grind =] theorem holds_wExitBcast : holds .wExitBcast = true := rfl
@[simp, grind =] theorem holds_wExitUnlock : holds .wExitUnlock = true := rfl
@[simp, grind =] theorem holds_wRet : holds .wRet = false := rfl
@[simp, grind =] theorem holds_wDone : holds .wDone = false := rfl
@[simp, grind =] theorem holds_sIdle : holds .sIdle = false := rfl
@[simp, grind =] theorem holds_sAssert : holds .sAssert = false := rfl
@[simp, grind =] theorem holds_sLock : holds .sLock = false := rfl
@[simp, grind =] theorem holds_sLazy0 : holds .sLazy0 = true := rfl
@[simp, grind =] theorem holds_sLazy1 : holds .sLazy1 = true := rfl
@[simp, grind =] theorem holds_sLazy2 : holds .sLazy2 = true := rfl
@[simp, grind =] theorem holds_sCreate : holds .sCreate = true := rfl
@[simp, grind =] theorem holds_sInsert : holds .sInsert = true := rfl
@[simp, grind =] theorem holds_sFailUnlock : holds .sFailUnlock = true := rfl
@[simp, grind =] theorem holds_sEnq : holds .sEnq = true := rfl
@[simp, grind =] theorem holds_sSignal : holds .sSignal = true := rfl
@[simp, grind =] theorem holds_sUnlock : holds .sUnlock = true := rfl
@[simp, grind =] theorem holds_sRetOk : holds .sRetOk = false := rfl
@[simp, grind =] theorem holds_sRetPerm : holds .sRetPerm = false := rfl
@[simp, grind =] theorem holds_sRetFail : holds .sRetFail = false := rfl
@[simp, grind =] theorem holds_mNewCreate : holds .mNewCreate = false := rfl
@[simp, grind =] theorem holds_mNewInsert : holds .mNewInsert = false := rfl
@[simp, grind =] theorem holds_mNewRet : holds .mNewRet = false := rfl
@[simp, grind =] theorem holds_mIdle : holds .mIdle = false := rfl
@[simp, grind =] theorem holds_fLock : holds .fLock = false := rfl
@[simp, grind =] theorem holds_fSetShut : holds .fSetShut = true := rfl
@[simp, grind =] theorem holds_fBcast : holds .fBcast = true := rfl
@[simp, grind =] theorem holds_fAliveChk : holds .fAliveChk = true := rfl
@[simp, grind =] theorem holds_fWait : holds .fWait = true := rfl
@[simp, grind =] theorem holds_fWaiting : holds .fWaiting = false := rfl
@[simp, grind =] theorem holds_fUnlock : holds .fUnlock = true := rfl
@[simp, grind =] theorem holds_fJoinInit : holds .fJoinInit = false := rfl
@[simp, grind =] theorem holds_fJoin : holds .fJoin = false := rfl
@[simp, grind =] theorem holds_fCondDestroy : holds .fCondDestroy = false := rfl
@[simp, grind =] theorem holds_fMutDestroy : holds .fMutDestroy = false := rfl
@[simp, grind =] theorem holds_fQueueFree : holds .fQueueFree = false := rfl
@[simp, grind =] theorem holds_fListFree : holds .fListFree = false := rfl
@[simp, grind =] theorem holds_fFreePool : holds .fFreePool = false := rfl
@[simp, grind =] theorem holds_fRet : holds .fRet = false := rfl
@[simp, grind =] theorem holds_mDone : holds .mDone = false := rfl

/-- a pool worker thread (any stage, including returned) -/
def isW : Pc → Bool
  | .wLock | .wLoop | .wWait | .wWaiting | .wBreakChk | .wBreakLen | .wDequeue | .wUnlock | .wInc | .wCall | .wInTask | .wDec | .wExitDec | .wExitBcast | .wExitUnlock | .wRet | .wDone => true
  | _ => false
@[simp, grind =] theorem isW_none : isW .none = false := rfl
@[simp, grind =] theorem isW_wLock : isW .wLock = true := rfl
@[simp, grind =] theorem isW_wLoop : isW .wLoop = true := rfl
@[simp, grind =] theorem isW_wWait : isW .wWait = true := rfl
@[simp, grind =] theorem isW_wWaiting : isW .wWaiting = true := rfl
@[simp, grind =] theorem isW_wBreakChk : isW .wBreakChk = true := rfl
@[simp, grind =] theorem isW_wBreakLen : isW .wBreakLen = true := rfl
@[simp, grind =] theorem isW_wDequeue : isW .wDequeue = true := rfl
@[simp, grind =] theorem isW_wUnlock : isW .wUnlock = true := rfl
@[simp, grind =] theorem isW_wInc : isW .wInc = true := rfl
@[simp, grind =] theorem isW_wCall : isW .wCall = true := rfl
@[simp, grind =] theorem isW_wInTask : isW .wInTask = true := rfl
@[simp, grind =] theorem isW_wDec : isW .wDec = true := rfl
@[simp, grind =] theorem isW_wExitDec : isW .wExitDec = true := rfl
@[simp, grind =] theorem isW_wExitBcast : isW .wExitBcast = true := rfl
@[simp, grind =] theorem isW_wExitUnlock : isW .wExitUnlock = true := rfl
@[simp, grind =] theorem isW_wRet : isW .wRet = true := rfl
@[simp, grind =] theorem isW_wDone : isW .wDone = true := rfl
@[simp, grind =] theorem isW_sIdle : isW .sIdle = false := rfl
@[simp, grind =] theorem isW_sAssert : isW .sAssert = false := rfl
@[simp, grind =] theorem isW_sLock : isW .sLock = false := rfl
@[simp, grind =] theorem isW_sLazy0 : isW .sLazy0 = false := rfl
@[simp, grind =] theorem isW_sLazy1 : isW .sLazy1 = false := rfl
@[simp, grind =] theorem isW_sLazy2 : isW .sLazy2 = false := rfl
@[simp, grind =] theorem isW_sCreate : isW .sCreate = false := rfl
@[simp, grind =] theorem isW_sInsert : isW .sInsert = false := rfl
@[simp, grind =] theorem isW_sFailUnlock : isW .sFailUnlock = false := rfl
@[simp, grind =] theorem isW_sEnq : isW .sEnq = false := rfl
@[simp, grind =] theorem isW_sSignal : isW .sSignal = false := rfl
@[simp, grind =] theorem isW_sUnlock : isW .sUnlock = false := rfl
@[simp, grind =] theorem isW_sRetOk : isW .sRetOk = false := rfl
@[simp, grind =] theorem isW_sRetPerm : isW .sRetPerm = false := rfl
@[simp, grind =] theorem isW_sRetFail : isW .sRetFail = false := rfl
@[simp, grind =] theorem isW_mNewCreate : isW .mNewCreate = false := rfl
@[simp, grind =] theorem isW_mNewInsert : isW .mNewInsert = false := rfl
@[simp, grind =] theorem isW_mNewRet : isW .mNewRet = false := rfl
@[simp, grind =] theorem isW_mIdle : isW .mIdle = false := rfl
@[simp, grind =] theorem isW_fLock : isW .fLock = false := rfl
@[simp, grind =] theorem isW_fSetShut : isW .fSetShut = false := rfl
@[simp, grind =] theorem isW_fBcast : isW .fBcast = false := rfl
@[simp, grind =] theorem isW_fAliveChk : isW .fAliveChk = false := rfl
@[simp, grind =] theorem isW_fWait : isW .fWait = false := rfl
@[simp, grind =] theorem isW_fWaiting : isW .fWaiting = false := rfl
@[simp, grind =] theorem isW_fUnlock : isW .fUnlock = false := rfl
@[simp, grind =] theorem isW_fJoinInit : isW .fJoinInit = false := rfl
@[simp, grind =] theorem isW_fJoin : isW .fJoin = false := rfl
@[simp, grind =] theorem isW_fCondDestroy : isW .fCondDestroy = false := rfl
@[simp, grind =] theorem isW_fMutDestroy : isW .fMutDestroy = false := rfl
@[simp, grind =] theorem isW_fQueueFree : isW .fQueueFree = false := rfl
@[simp, grind =] theorem isW_fListFree : isW .fListFree = false := rfl
@[simp, grind =] theorem isW_fFreePool : isW .fFreePool = false := rfl
@[simp, grind =] theorem isW_fRet : isW .fRet = false := rfl
@[simp, grind =] theorem isW_mDone : isW .mDone = false := rfl

/-- inside m_thpool_add -/
def isS : Pc → Bool
  | .sAssert | .sLock | .sLazy0 | .sLazy1 | .sLazy2 | .sCreate | .sInsert | .sFailUnlock | .sEnq | .sSignal | .sUnlock | .sRetOk | .sRetPerm | .sRetFail => true
  | _ => false
@[simp, grind =] theorem isS_none : isS .none = false := rfl
@[simp, grind =] theorem isS_wLock : isS .wLock = false := rfl
@[simp, grind =] theorem isS_wLoop : isS .wLoop = false := rfl
@[simp, grind =] theorem isS_wWait : isS .wWait = false := rfl
@[simp, grind =] theorem isS_wWaiting : isS .wWaiting = false := rfl
@[simp, grind =] theorem isS_wBreakChk : isS .wBreakChk = false := rfl
@[simp, grind =] theorem isS_wBreakLen : isS .wBreakLen = false := rfl
@[simp, grind =] theorem isS_wDequeue : isS .wDequeue = false := rfl
@[simp, grind =] theorem isS_wUnlock : isS .wUnlock = false := rfl
@[simp, grind =] theorem isS_wInc : isS .wInc = false := rfl
@[simp, grind =] theorem isS_wCall : isS .wCall = false := rfl
@[simp, grind =] theorem isS_wInTask : isS .wInTask = false := rfl
@[simp, grind =] theorem isS_wDec : isS .wDec = false := rfl
@[simp, grind =] theorem isS_wExitDec : isS .wExitDec = false := rfl
@[simp, grind =] theorem isS_wExitBcast : isS .wExitBcast = false := rfl
@[simp, grind =] theorem isS_wExitUnlock : isS .wExitUnlock = false := rfl
@[simp, grind =] theorem isS_wRet : isS .wRet = false := rfl
@[simp, grind =] theorem isS_wDone : isS .wDone = false := rfl
@[simp, grind =] theorem isS_sIdle : isS .sIdle = false := rfl
@[simp, grind =] theorem isS_sAssert : isS .sAssert = true := rfl
@[simp, grind =] theorem isS_sLock : isS .sLock = true := rfl
@[simp, grind =] theorem isS_sLazy0 : isS .sLazy0 = true := rfl
@[simp, grind =] theorem isS_sLazy1 : isS .sLazy1 = true := rfl
@[simp, grind =] theorem isS_sLazy2 : isS .sLazy2 = true := rfl
@[simp, grind =] theorem isS_sCreate : isS .sCreate = true := rfl
@[simp, grind =] theorem isS_sInsert : isS .sInsert = true := rfl
@[simp, grind =] theorem isS_sFailUnlock : isS .sFailUnlock = true := rfl
@[simp, grind =] theorem isS_sEnq : isS .sEnq = true := rfl
@[simp, grind =] theorem isS_sSignal : isS .sSignal = true := rfl
@[simp, grind =] theorem isS_sUnlock : isS .sUnlock = true := rfl
@[simp, grind =] theorem isS_sRetOk : isS .sRetOk = true := rfl
@[simp, grind =] theorem isS_sRetPerm : isS .sRetPerm = true := rfl
@[simp, grind =] theorem isS_sRetFail : isS .sRetFail = true := rfl
@[simp, grind =] theorem isS_mNewCreate : isS .mNewCreate = false := rfl
@[simp, grind =] theorem isS_mNewInsert : isS .mNewInsert = false := rfl
@[simp, grind =] theorem isS_mNewRet : isS .mNewRet = false := rfl
@[simp, grind =] theorem isS_mIdle : isS .mIdle = false := rfl
@[simp, grind =] theorem isS_fLock : isS .fLock = false := rfl
@[simp, grind =] theorem isS_fSetShut : isS .fSetShut = false := rfl
@[simp, grind =] theorem isS_fBcast : isS .fBcast = false := rfl
@[simp, grind =] theorem isS_fAliveChk : isS .fAliveChk = false := rfl
@[simp, grind =] theorem isS_fWait : isS .fWait = false := rfl
@[simp, grind =] theorem isS_fWaiting : isS .fWaiting = false := rfl
@[simp, grind =] theorem isS_fUnlock : isS .fUnlock = false := rfl
@[simp, grind =] theorem isS_fJoinInit : isS .fJoinInit = false := rfl
@[simp, grind =] theorem isS_fJoin : isS .fJoin = false := rfl
@[simp, grind =] theorem isS_fCondDestroy : isS .fCondDestroy = false := rfl
@[simp, grind =] theorem isS_fMutDestroy : isS .fMutDestroy = false := rfl
@[simp, grind =] theorem isS_fQueueFree : isS .fQueueFree = false := rfl
@[simp, grind =] theorem isS_fListFree : isS .fListFree = false := rfl
@[simp, grind =] theorem isS_fFreePool : isS .fFreePool = false := rfl
@[simp, grind =] theorem isS_fRet : isS .fRet = false := rfl
@[simp, grind =] theorem isS_mDone : isS .mDone = false := rfl

/-- thread 0: m_thpool_new / idle / m_thpool_free -/
def isM : Pc → Bool
  | .mNewCreate | .mNewInsert | .mNewRet | .mIdle | .fLock | .fSetShut | .fBcast | .fAliveChk | .fWait | .fWaiting | .fUnlock | .fJoinInit | .fJoin | .fCondDestroy | .fMutDestroy | .fQueueFree | .fListFree | .fFreePool | .fRet | .mDone => true
  | _ => false
@[simp, grind =] theorem isM_none : isM .none = false := rfl
@[simp, grind =] theorem isM_wLock : isM .wLock = false := rfl
@[simp, grind =] theorem isM_wLoop : isM .wLoop = false := rfl
@[simp, grind =] theorem isM_wWait : isM .wWait = false := rfl
@[simp, grind =] theorem isM_wWaiting : isM .wWaiting = false := rfl
@[simp, grind =] theorem isM_wBreakChk : isM .wBreakChk = false := rfl
@[simp, grind =] theorem isM_wBreakLen : isM .wBreakLen = false := rfl
@[simp, grind =] theorem isM_wDequeue : isM .wDequeue = false := rfl
@[simp, grind =] theorem isM_wUnlock : isM .wUnlock = false := rfl
@[simp, grind =] theorem isM_wInc : isM .wInc = false := rfl
@[simp, grind =] theorem isM_wCall : isM .wCall = false := rfl
@[simp, grind =] theorem isM_wInTask : isM .wInTask = false := rfl
@[simp, grind =] theorem isM_wDec : isM .wDec = false := rfl
@[simp, grind =] theorem isM_wExitDec : isM .wExitDec = false := rfl
@[simp, grind =] theorem isM_wExitBcast : isM .wExitBcast = false := rfl
@[simp, grind =] theorem isM_wExitUnlock : isM .wExitUnlock = false := rfl
@[simp, grind =] theorem isM_wRet : isM .wRet = false := rfl
@[simp, grind =] theorem isM_wDone : isM .wDone = false := rfl
@[simp, grind =] theorem isM_sIdle : isM .sIdle = false := rfl
@[simp, grind =] theorem isM_sAssert : isM .sAssert = false := rfl
@[simp, grind =] theorem isM_sLock : isM .sLock = false := rfl
@[simp, grind =] theorem isM_sLazy0 : isM .sLazy0 = false := rfl
@[simp, grind =] theorem isM_sLazy1 : isM .sLazy1 = false := rfl
@[simp, grind =] theorem isM_sLazy2 : isM .sLazy2 = false := rfl
@[simp, grind =] theorem isM_sCreate : isM .sCreate = false := rfl
@[simp, grind =] theorem isM_sInsert : isM .sInsert = false := rfl
@[simp, grind =] theorem isM_sFailUnlock : isM .sFailUnlock = false := rfl
@[simp, grind =] theorem isM_sEnq : isM .sEnq = false := rfl
@[simp, grind =] theorem isM_sSignal : isM .sSignal = false := rfl
@[simp, grind =] theorem isM_sUnlock : isM .sUnlock = false := rfl
@[simp, grind =] theorem isM_sRetOk : isM .sRetOk = false := rfl
@[simp, grind =] theorem isM_sRetPerm : isM .sRetPerm = false := rfl
@[simp, grind =] theorem isM_sRetFail : isM .sRetFail = false := rfl
@[simp, grind =] theorem isM_mNewCreate : isM .mNewCreate = true := rfl
@[simp, grind =] theorem isM_mNewInsert : isM .mNewInsert = true := rfl
@[simp, grind =] theorem isM_mNewRet : isM .mNewRet = true := rfl
@[simp, grind =] theorem isM_mIdle : isM .mIdle = true := rfl
@[simp, grind =] theorem isM_fLock : isM .fLock = true := rfl
@[simp, grind =] theorem isM_fSetShut : isM .fSetShut = true := rfl
@[simp, grind =] theorem isM_fBcast : isM .fBcast = true := rfl
@[simp, grind =] theorem isM_fAliveChk : isM .fAliveChk = true := rfl
@[simp, grind =] theorem isM_fWait : isM .fWait = true := rfl
@[simp, grind =] theorem isM_fWaiting : isM .fWaiting = true := rfl
@[simp, grind =] theorem isM_fUnlock : isM .fUnlock = true := rfl
@[simp, grind =] theorem isM_fJoinInit : isM .fJoinInit = true := rfl
@[simp, grind =] theorem isM_fJoin : isM .fJoin = true := rfl
@[simp, grind =] theorem isM_fCondDestroy : isM .fCondDestroy = true := rfl
@[simp, grind =] theorem isM_fMutDestroy : isM .fMutDestroy = true := rfl
@[simp, grind =] theorem isM_fQueueFree : isM .fQueueFree = true := rfl
@[simp, grind =] theorem isM_fListFree : isM .fListFree = true := rfl
@[simp, grind =] theorem isM_fFreePool : isM .fFreePool = true := rfl
@[simp, grind =] theorem isM_fRet : isM .fRet = true := rfl
@[simp, grind =] theorem isM_mDone : isM .mDone = true := rfl

/-- inside m_thpool_add, before the task is enqueued, on a path that can still reach the enqueue -/
def preEnq : Pc → Bool
  | .sAssert | .sLock | .sLazy0 | .sLazy1 | .sLazy2 | .sCreate | .sInsert | .sEnq => true
  | _ => false
@[simp, grind =] theorem preEnq_none : preEnq .none = false := rfl
@[simp, grind =] theorem preEnq_wLock : preEnq .wLock = false := rfl
@[simp, grind =] theorem preEnq_wLoop : preEnq .wLoop = false := rfl
@[simp, grind =] theorem preEnq_wWait : preEnq .wWait = false := rfl
@[simp, grind =] theorem preEnq_wWaiting : preEnq .wWaiting = false := rfl
@[simp, grind =] theorem preEnq_wBreakChk : preEnq .wBreakChk = false := rfl
@[simp, grind =] theorem preEnq_wBreakLen : preEnq .wBreakLen = false := rfl
@[simp, grind =] theorem preEnq_wDequeue : preEnq .wDequeue = false := rfl
@[simp, grind =] theorem preEnq_wUnlock : preEnq .wUnlock = false := rfl
@[simp, grind =] theorem preEnq_wInc : preEnq .wInc = false := rfl
@[simp, grind =] theorem preEnq_wCall : preEnq .wCall = false := rfl
@[simp, grind =] theorem preEnq_wInTask : preEnq .wInTask = false := rfl
@[simp, grind =] theorem preEnq_wDec : preEnq .wDec = false := rfl
@[simp, grind =] theorem preEnq_wExitDec : preEnq .wExitDec = false := rfl
@[simp, grind =] theorem preEnq_wExitBcast : preEnq .wExitBcast = false := rfl
@[simp, grind =] theorem preEnq_wExitUnlock : preEnq .wExitUnlock = false := rfl
@[simp, grind =] theorem preEnq_wRet : preEnq .wRet = false := rfl
@[simp, grind =] theorem preEnq_wDone : preEnq .wDone = false := rfl
@[simp, grind =] theorem preEnq_sIdle : preEnq .sIdle = false := rfl
@[simp, grind =] theorem preEnq_sAssert : preEnq .sAssert = true := rfl
@[simp, grind =] theorem preEnq_sLock : preEnq .sLock = true := rfl
@[simp, grind =] theorem preEnq_sLazy0 : preEnq .sLazy0 = true := rfl
@[simp, grind =] theorem preEnq_sLazy1 : preEnq .sLazy1 = true := rfl
@[simp, grind =] theorem preEnq_sLazy2 : preEnq .sLazy2 = true := rfl
@[simp, grind =] theorem preEnq_sCreate : preEnq .sCreate = true := rfl
@[simp, grind =] theorem preEnq_sInsert : preEnq .sInsert = true := rfl
@[simp, grind =] theorem preEnq_sFailUnlock : preEnq .sFailUnlock = false := rfl
@[simp, grind =] theorem preEnq_sEnq : preEnq .sEnq = true := rfl
@[simp, grind =] theorem preEnq_sSignal : preEnq .sSignal = false := rfl
@[simp, grind =] theorem preEnq_sUnlock : preEnq .sUnlock = false := rfl
@[simp, grind =] theorem preEnq_sRetOk : preEnq .sRetOk = false := rfl
@[simp, grind =] theorem preEnq_sRetPerm : preEnq .sRetPerm = false := rfl
@[simp, grind =] theorem preEnq_sRetFail : preEnq .sRetFail = false := rfl
@[simp, grind =] theorem preEnq_mNewCreate : preEnq .mNewCreate = false := rfl
@[simp, grind =] theorem preEnq_mNewInsert : preEnq .mNewInsert = false := rfl
@[simp, grind =] theorem preEnq_mNewRet : preEnq .mNewRet = false := rfl
@[simp, grind =] theorem preEnq_mIdle : preEnq .mIdle = false := rfl
@[simp, grind =] theorem preEnq_fLock : preEnq .fLock = false := rfl
@[simp, grind =] theorem preEnq_fSetShut : preEnq .fSetShut = false := rfl
@[simp, grind =] theorem preEnq_fBcast : preEnq .fBcast = false := rfl
@[simp, grind =] theorem preEnq_fAliveChk : preEnq .fAliveChk = false := rfl
@[simp, grind =] theorem preEnq_fWait : preEnq .fWait = false := rfl
@[simp, grind =] theorem preEnq_fWaiting : preEnq .fWaiting = false := rfl
@[simp, grind =] theorem preEnq_fUnlock : preEnq .fUnlock = false := rfl
@[simp, grind =] theorem preEnq_fJoinInit : preEnq .fJoinInit = false := rfl
@[simp, grind =] theorem preEnq_fJoin : preEnq .fJoin = false := rfl
@[simp, grind =] theorem preEnq_fCondDestroy : preEnq .fCondDestroy = false := rfl
@[simp, grind =] theorem preEnq_fMutDestroy : preEnq .fMutDestroy = false := rfl
@[simp, grind =] theorem preEnq_fQueueFree : preEnq .fQueueFree = false := rfl
@[simp, grind =] theorem preEnq_fListFree : preEnq .fListFree = false := rfl
@[simp, grind =] theorem preEnq_fFreePool : preEnq .fFreePool = false := rfl
@[simp, grind =] theorem preEnq_fRet : preEnq .fRet = false := rfl
@[simp, grind =] theorem preEnq_mDone : preEnq .mDone = false := rfl

/-- a dequeued task that has not been started yet -/
def held : Pc → Bool
  | .wUnlock | .wInc | .wCall => true
  | _ => false
@[simp, grind =] theorem held_none : held .none = false := rfl
@[simp, grind =] theorem held_wLock : held .wLock = false := rfl
@[simp, grind =] theorem held_wLoop : held .wLoop = false := rfl
@[simp, grind =] theorem held_wWait : held .wWait = false := rfl
@[simp, grind =] theorem held_wWaiting : held .wWaiting = false := rfl
@[simp, grind =] theorem held_wBreakChk : held .wBreakChk = false := rfl
@[simp, grind =] theorem held_wBreakLen : held .wBreakLen = false := rfl
@[simp, grind =] theorem held_wDequeue : held .wDequeue = false := rfl
@[simp, grind =] theorem held_wUnlock : held .wUnlock = true := rfl
@[simp, grind =] theorem held_wInc : held .wInc = true := rfl
@[simp, grind =] theorem held_wCall : held .wCall = true := rfl
@[simp, grind =] theorem held_wInTask : held .wInTask = false := rfl
@[simp, grind =] theorem held_wDec : held .wDec = false := rfl
@[simp, grind =] theorem held_wExitDec : held .wExitDec = false := rfl
@[simp, grind =] theorem held_wExitBcast : held .wExitBcast = false := rfl
@[simp, grind =] theorem held_wExitUnlock : held .wExitUnlock = false := rfl
@[simp, grind =] theorem held_wRet : held .wRet = false := rfl
@[simp, grind =] theorem held_wDone : held .wDone = false := rfl
@[simp, grind =] theorem held_sIdle : held .sIdle = false := rfl
@[simp, grind =] theorem held_sAssert : held .sAssert = false := rfl
@[simp, grind =] theorem held_sLock : held .sLock = false := rfl
@[simp, grind =] theorem held_sLazy0 : held .sLazy0 = false := rfl
@[simp, grind =] theorem held_sLazy1 : held .sLazy1 = false := rfl
@[simp, grind =] theorem held_sLazy2 : held .sLazy2 = false := rfl
@[simp, grind =] theorem held_sCreate : held .sCreate = false := rfl
@[simp, grind =] theorem held_sInsert : held .sInsert = false := rfl
@[simp, grind =] theorem held_sFailUnlock : held .sFailUnlock = false := rfl
@[simp, grind =] theorem held_sEnq : held .sEnq = false := rfl
@[simp, grind =] theorem held_sSignal : held .sSignal = false := rfl
@[simp, grind =] theorem held_sUnlock : held .sUnlock = false := rfl
@[simp, grind =] theorem held_sRetOk : held .sRetOk = false := rfl
@[simp, grind =] theorem held_sRetPerm : held .sRetPerm = false := rfl
@[simp, grind =] theorem held_sRetFail : held .sRetFail = false := rfl
@[simp, grind =] theorem held_mNewCreate : held .mNewCreate = false := rfl
@[simp, grind =] theorem held_mNewInsert : held .mNewInsert = false := rfl
@[simp, grind =] theorem held_mNewRet : held .mNewRet = false := rfl
@[simp, grind =] theorem held_mIdle : held .mIdle = false := rfl
@[simp, grind =] theorem held_fLock : held .fLock = false := rfl
@[simp, grind =] theorem held_fSetShut : held .fSetShut = false := rfl
@[simp, grind =] theorem held_fBcast : held .fBcast = false := rfl
@[simp, grind =] theorem held_fAliveChk : held .fAliveChk = false := rfl
@[simp, grind =] theorem held_fWait : held .fWait = false := rfl
@[simp, grind =] theorem held_fWaiting : held .fWaiting = false := rfl
@[simp, grind =] theorem held_fUnlock : held .fUnlock = false := rfl
@[simp, grind =] theorem held_fJoinInit : held .fJoinInit = false := rfl
@[simp, grind =] theorem held_fJoin : held .fJoin = false := rfl
@[simp, grind =] theorem held_fCondDestroy : held .fCondDestroy = false := rfl
@[simp, grind =] theorem held_fMutDestroy : held .fMutDestroy = false := rfl
@[simp, grind =] theorem held_fQueueFree : held .fQueueFree = false := rfl
@[simp, grind =] theorem held_fListFree : held .fListFree = false := rfl
@[simp, grind =] theorem held_fFreePool : held .fFreePool = false := rfl
@[simp, grind =] theorem held_fRet : held .fRet = false := rfl
@[simp, grind =] theorem held_mDone : held .mDone = false := rfl

/-- left the worker loop -/
def exiting : Pc → Bool
  | .wExitDec | .wExitBcast | .wExitUnlock | .wRet | .wDone => true
  | _ => false
@[simp, grind =] theorem exiting_none : exiting .none = false := rfl
@[simp, grind =] theorem exiting_wLock : exiting .wLock = false := rfl
@[simp, grind =] theorem exiting_wLoop : exiting .wLoop = false := rfl
@[simp, grind =] theorem exiting_wWait : exiting .wWait = false := rfl
@[simp, grind =] theorem exiting_wWaiting : exiting .wWaiting = false := rfl
@[simp, grind =] theorem exiting_wBreakChk : exiting .wBreakChk = false := rfl
@[simp, grind =] theorem exiting_wBreakLen : exiting .wBreakLen = false := rfl
@[simp, grind =] theorem exiting_wDequeue : exiting .wDequeue = false := rfl
@[simp, grind =] theorem exiting_wUnlock : exiting .wUnlock = false := rfl
@[simp, grind =] theorem exiting_wInc : exiting .wInc = false := rfl
@[simp, grind =] theorem exiting_wCall : exiting .wCall = false := rfl
@[simp, grind =] theorem exiting_wInTask : exiting .wInTask = false := rfl
@[simp, grind =] theorem exiting_wDec : exiting .wDec = false := rfl
@[simp, grind =] theorem exiting_wExitDec : exiting .wExitDec = true := rfl
@[simp, grind =] theorem exiting_wExitBcast : exiting .wExitBcast = true := rfl
@[simp, grind =] theorem exiting_wExitUnlock : exiting .wExitUnlock = true := rfl
@[simp, grind =] theorem exiting_wRet : exiting .wRet = true := rfl
@[simp, grind =] theorem exiting_wDone : exiting .wDone = true := rfl
@[simp, grind =] theorem exiting_sIdle : exiting .sIdle = false := rfl
@[simp, grind =] theorem exiting_sAssert : exiting .sAssert = false := rfl
@[simp, grind =] theorem exiting_sLock : exiting .sLock = false := rfl
@[simp, grind =] theorem exiting_sLazy0 : exiting .sLazy0 = false := rfl
@[simp, grind =] theorem exiting_sLazy1 : exiting .sLazy1 = false := rfl
@[simp, grind =] theorem exiting_sLazy2 : exiting .sLazy2 = false := rfl
@[simp, grind =] theorem exiting_sCreate : exiting .sCreate = false := rfl
@[simp, grind =] theorem exiting_sInsert : exiting .sInsert = false := rfl
@[simp, grind =] theorem exiting_sFailUnlock : exiting .sFailUnlock = false := rfl
@[simp, grind =] theorem exiting_sEnq : exiting .sEnq = false := rfl
@[simp, grind =] theorem exiting_sSignal : exiting .sSignal = false := rfl
@[simp, grind =] theorem exiting_sUnlock : exiting .sUnlock = false := rfl
@[simp, grind =] theorem exiting_sRetOk : exiting .sRetOk = false := rfl
@[simp, grind =] theorem exiting_sRetPerm : exiting .sRetPerm = false := rfl
@[simp, grind =] theorem exiting_sRetFail : exiting .sRetFail = false := rfl
@[simp, grind =] theorem exiting_mNewCreate : exiting .mNewCreate = false := rfl
@[simp, grind =] theorem exiting_mNewInsert : exiting .mNewInsert = false := rfl
@[simp, grind =] theorem exiting_mNewRet : exiting .mNewRet = false := rfl
@[simp, grind =] theorem exiting_mIdle : exiting .mIdle = false := rfl
@[simp, grind =] theorem exiting_fLock : exiting .fLock = false := rfl
@[simp, grind =] theorem exiting_fSetShut : exiting .fSetShut = false := rfl
@[simp, grind =] theorem exiting_fBcast : exiting .fBcast = false := rfl
@[simp, grind =] theorem exiting_fAliveChk : exiting .fAliveChk = false := rfl
@[simp, grind =] theorem exiting_fWait : exiting .fWait = false := rfl
@[simp, grind =] theorem exiting_fWaiting : exiting .fWaiting = false := rfl
@[simp, grind =] theorem exiting_fUnlock : exiting .fUnlock = false := rfl
@[simp, grind =] theorem exiting_fJoinInit : exiting .fJoinInit = false := rfl
@[simp, grind =] theorem exiting_fJoin : exiting .fJoin = false := rfl
@[simp, grind =] theorem exiting_fCondDestroy : exiting .fCondDestroy = false := rfl
@[simp, grind =] theorem exiting_fMutDestroy : exiting .fMutDestroy = false := rfl
@[simp, grind =] theorem exiting_fQueueFree : exiting .fQueueFree = false := rfl
@[simp, grind =] theorem exiting_fListFree : exiting .fListFree = false := rfl
@[simp, grind =] theorem exiting_fFreePool : exiting .fFreePool = false := rfl
@[simp, grind =] theorem exiting_fRet : exiting .fRet = false := rfl
@[simp, grind =] theorem exiting_mDone : exiting .mDone = false := rfl

/-- a worker that has not yet executed `pool->alive--` -/
def beforeDec : Pc → Bool
  | .wLock | .wLoop | .wWait | .wWaiting | .wBreakChk | .wBreakLen | .wDequeue | .wUnlock | .wInc | .wCall | .wInTask | .wDec | .wExitDec => true
  | _ => false
@[simp, grind =] theorem beforeDec_none : beforeDec .none = false := rfl
@[simp, grind =] theorem beforeDec_wLock : beforeDec .wLock = true := rfl
@[simp, grind =] theorem beforeDec_wLoop : beforeDec .wLoop = true := rfl
@[simp, grind =] theorem beforeDec_wWait : beforeDec .wWait = true := rfl
@[simp, grind =] theorem beforeDec_wWaiting : beforeDec .wWaiting = true := rfl
@[simp, grind =] theorem beforeDec_wBreakChk : beforeDec .wBreakChk = true := rfl
@[simp, grind =] theorem beforeDec_wBreakLen : beforeDec .wBreakLen = true := rfl
@[simp, grind =] theorem beforeDec_wDequeue : beforeDec .wDequeue = true := rfl
@[simp, grind =] theorem beforeDec_wUnlock : beforeDec .wUnlock = true := rfl
@[simp, grind =] theorem beforeDec_wInc : beforeDec .wInc = true := rfl
@[simp, grind =] theorem beforeDec_wCall : beforeDec .wCall = true := rfl
@[simp, grind =] theorem beforeDec_wInTask : beforeDec .wInTask = true := rfl
@[simp, grind =] theorem beforeDec_wDec : beforeDec .wDec = true := rfl
@[simp, grind =] theorem beforeDec_wExitDec : beforeDec .wExitDec = true := rfl
@[simp, grind =] theorem beforeDec_wExitBcast : beforeDec .wExitBcast = false := rfl
@[simp, grind =] theorem beforeDec_wExitUnlock : beforeDec .wExitUnlock = false := rfl
@[simp, grind =] theorem beforeDec_wRet : beforeDec .wRet = false := rfl
@[simp, grind =] theorem beforeDec_wDone : beforeDec .wDone = false := rfl
@[simp, grind =] theorem beforeDec_sIdle : beforeDec .sIdle = false := rfl
@[simp, grind =] theorem beforeDec_sAssert : beforeDec .sAssert = false := rfl
@[simp, grind =] theorem beforeDec_sLock : beforeDec .sLock = false := rfl
@[simp, grind =] theorem beforeDec_sLazy0 : beforeDec .sLazy0 = false := rfl
@[simp, grind =] theorem beforeDec_sLazy1 : beforeDec .sLazy1 = false := rfl
@[simp, grind =] theorem beforeDec_sLazy2 : beforeDec .sLazy2 = false := rfl
@[simp, grind =] theorem beforeDec_sCreate : beforeDec .sCreate = false := rfl
@[simp, grind =] theorem beforeDec_sInsert : beforeDec .sInsert = false := rfl
@[simp, grind =] theorem beforeDec_sFailUnlock : beforeDec .sFailUnlock = false := rfl
@[simp, grind =] theorem beforeDec_sEnq : beforeDec .sEnq = false := rfl
@[simp, grind =] theorem beforeDec_sSignal : beforeDec .sSignal = false := rfl
@[simp, grind =] theorem beforeDec_sUnlock : beforeDec .sUnlock = false := rfl
@[simp, grind =] theorem beforeDec_sRetOk : beforeDec .sRetOk = false := rfl
@[simp, grind =] theorem beforeDec_sRetPerm : beforeDec .sRetPerm = false := rfl
@[simp, grind =] theorem beforeDec_sRetFail : beforeDec .sRetFail = false := rfl
@[simp, grind =] theorem beforeDec_mNewCreate : beforeDec .mNewCreate = false := rfl
@[simp, grind =] theorem beforeDec_mNewInsert : beforeDec .mNewInsert = false := rfl
@[simp, grind =] theorem beforeDec_mNewRet : beforeDec .mNewRet = false := rfl
@[simp, grind =] theorem beforeDec_mIdle : beforeDec .mIdle = false := rfl
@[simp, grind =] theorem beforeDec_fLock : beforeDec .fLock = false := rfl
@[simp, grind =] theorem beforeDec_fSetShut : beforeDec .fSetShut = false := rfl
@[simp, grind =] theorem beforeDec_fBcast : beforeDec .fBcast = false := rfl
@[simp, grind =] theorem beforeDec_fAliveChk : beforeDec .fAliveChk = false := rfl
@[simp, grind =] theorem beforeDec_fWait : beforeDec .fWait = false := rfl
@[simp, grind =] theorem beforeDec_fWaiting : beforeDec .fWaiting = false := rfl
@[simp, grind =] theorem beforeDec_fUnlock : beforeDec .fUnlock = false := rfl
@[simp, grind =] theorem beforeDec_fJoinInit : beforeDec .fJoinInit = false := rfl
@[simp, grind =] theorem beforeDec_fJoin : beforeDec .fJoin = false := rfl
@[simp, grind =] theorem beforeDec_fCondDestroy : beforeDec .fCondDestroy = false := rfl
@[simp, grind =] theorem beforeDec_fMutDestroy : beforeDec .fMutDestroy = false := rfl
@[simp, grind =] theorem beforeDec_fQueueFree : beforeDec .fQueueFree = false := rfl
@[simp, grind =] theorem beforeDec_fListFree : beforeDec .fListFree = false := rfl
@[simp, grind =] theorem beforeDec_fFreePool : beforeDec .fFreePool = false := rfl
@[simp, grind =] theorem beforeDec_fRet : beforeDec .fRet = false := rfl
@[simp, grind =] theorem beforeDec_mDone : beforeDec .mDone = false := rfl

/-- a worker after its last access to the pool -/
def gone : Pc → Bool
  | .wRet | .wDone => true
  | _ => false
@[simp, grind =] theorem gone_none : gone .none = false := rfl
@[simp, grind =] theorem gone_wLock : gone .wLock = false := rfl
@[simp, grind =] theorem gone_wLoop : gone .wLoop = false := rfl
@[simp, grind =] theorem gone_wWait : gone .wWait = false := rfl
@[simp, grind =] theorem gone_wWaiting : gone .wWaiting = false := rfl
@[simp, grind =] theorem gone_wBreakChk : gone .wBreakChk = false := rfl
@[simp, grind =] theorem gone_wBreakLen : gone .wBreakLen = false := rfl
@[simp, grind =] theorem gone_wDequeue : gone .wDequeue = false := rfl
@[simp, grind =] theorem gone_wUnlock : gone .wUnlock = false := rfl
@[simp, grind =] theorem gone_wInc : gone .wInc = false := rfl
@[simp, grind =] theorem gone_wCall : gone .wCall = false := rfl
@[simp, grind =] theorem gone_wInTask : gone .wInTask = false := rfl
@[simp, grind =] theorem gone_wDec : gone .wDec = false := rfl
@[simp, grind =] theorem gone_wExitDec : gone .wExitDec = false := rfl
@[simp, grind =] theorem gone_wExitBcast : gone .wExitBcast = false := rfl
@[simp, grind =] theorem gone_wExitUnlock : gone .wExitUnlock = false := rfl
@[simp, grind =] theorem gone_wRet : gone .wRet = true := rfl
@[simp, grind =] theorem gone_wDone : gone .wDone = true := rfl
@[simp, grind =] theorem gone_sIdle : gone .sIdle = false := rfl
@[simp, grind =] theorem gone_sAssert : gone .sAssert = false := rfl
@[simp, grind =] theorem gone_sLock : gone .sLock = false := rfl
@[simp, grind =] theorem gone_sLazy0 : gone .sLazy0 = false := rfl
@[simp, grind =] theorem gone_sLazy1 : gone .sLazy1 = false := rfl
@[simp, grind =] theorem gone_sLazy2 : gone .sLazy2 = false := rfl
@[simp, grind =] theorem gone_sCreate : gone .sCreate = false := rfl
@[simp, grind =] theorem gone_sInsert : gone .sInsert = false := rfl
@[simp, grind =] theorem gone_sFailUnlock : gone .sFailUnlock = false := rfl
@[simp, grind =] theorem gone_sEnq : gone .sEnq = false := rfl
@[simp, grind =] theorem gone_sSignal : gone .sSignal = false := rfl
@[simp, grind =] theorem gone_sUnlock : gone .sUnlock = false := rfl
@[simp, grind =] theorem gone_sRetOk : gone .sRetOk = false := rfl
@[simp, grind =] theorem gone_sRetPerm : gone .sRetPerm = false := rfl
@[simp, grind =] theorem gone_sRetFail : gone .sRetFail = false := rfl
@[simp, grind =] theorem gone_mNewCreate : gone .mNewCreate = false := rfl
@[simp, grind =] theorem gone_mNewInsert : gone .mNewInsert = false := rfl
@[simp, grind =] theorem gone_mNewRet : gone .mNewRet = false := rfl
@[simp, grind =] theorem gone_mIdle : gone .mIdle = false := rfl
@[simp, grind =] theorem gone_fLock : gone .fLock = false := rfl
@[simp, grind =] theorem gone_fSetShut : gone .fSetShut = false := rfl
@[simp, grind =] theorem gone_fBcast : gone .fBcast = false := rfl
@[simp, grind =] theorem gone_fAliveChk : gone .fAliveChk = false := rfl
@[simp, grind =] theorem gone_fWait : gone .fWait = false := rfl
@[simp, grind =] theorem gone_fWaiting : gone .fWaiting = false := rfl
@[simp, grind =] theorem gone_fUnlock : gone .fUnlock = false := rfl
@[simp, grind =] theorem gone_fJoinInit : gone .fJoinInit = false := rfl
@[simp, grind =] theorem gone_fJoin : gone .fJoin = false := rfl
@[simp, grind =] theorem gone_fCondDestroy : gone .fCondDestroy = false := rfl
@[simp, grind =] theorem gone_fMutDestroy : gone .fMutDestroy = false := rfl
@[simp, grind =] theorem gone_fQueueFree : gone .fQueueFree = false := rfl
@[simp, grind =] theorem gone_fListFree : gone .fListFree = false := rfl
@[simp, grind =] theorem gone_fFreePool : gone .fFreePool = false := rfl
@[simp, grind =] theorem gone_fRet : gone .fRet = false := rfl
@[simp, grind =] theorem gone_mDone : gone .mDone = false := rfl

/-- inside pthread_cond_wait -/
def waitingPc : Pc → Bool
  | .wWaiting | .fWaiting => true
  | _ => false
@[simp, grind =] theorem waitingPc_none : waitingPc .none = false := rfl
@[simp, grind =] theorem waitingPc_wLock : waitingPc .wLock = false := rfl
@[simp, grind =] theorem waitingPc_wLoop : waitingPc .wLoop = false := rfl
@[simp, grind =] theorem waitingPc_wWait : waitingPc .wWait = false := rfl
@[simp, grind =] theorem waitingPc_wWaiting : waitingPc .wWaiting = true := rfl
@[simp, grind =] theorem waitingPc_wBreakChk : waitingPc .wBreakChk = false := rfl
@[simp, grind =] theorem waitingPc_wBreakLen : waitingPc .wBreakLen = false := rfl
@[simp, grind =] theorem waitingPc_wDequeue : waitingPc .wDequeue = false := rfl
@[simp, grind =] theorem waitingPc_wUnlock : waitingPc .wUnlock = false := rfl
@[simp, grind =] theorem waitingPc_wInc : waitingPc .wInc = false := rfl
@[simp, grind =] theorem waitingPc_wCall : waitingPc .wCall = false := rfl
@[simp, grind =] theorem waitingPc_wInTask : waitingPc .wInTask = false := rfl
@[simp, grind =] theorem waitingPc_wDec : waitingPc .wDec = false := rfl
@[simp, grind =] theorem waitingPc_wExitDec : waitingPc .wExitDec = false := rfl
@[simp, grind =] theorem waitingPc_wExitBcast : waitingPc .wExitBcast = false := rfl
@[simp, grind =] theorem waitingPc_wExitUnlock : waitingPc .wExitUnlock = false := rfl
@[simp, grind =] theorem waitingPc_wRet : waitingPc .wRet = false := rfl
@[simp, grind =] theorem waitingPc_wDone : waitingPc .wDone = false := rfl
@[simp, grind =] theorem waitingPc_sIdle : waitingPc .sIdle = false := rfl
@[simp, grind =] theorem waitingPc_sAssert : waitingPc .sAssert = false := rfl
@[simp, grind =] theorem waitingPc_sLock : waitingPc .sLock = false := rfl
@[simp, grind =] theorem waitingPc_sLazy0 : waitingPc .sLazy0 = false := rfl
@[simp, grind =] theorem waitingPc_sLazy1 : waitingPc .sLazy1 = false := rfl
@[simp, grind =] theorem waitingPc_sLazy2 : waitingPc .sLazy2 = false := rfl
@[simp, grind =] theorem waitingPc_sCreate : waitingPc .sCreate = false := rfl
@[simp, grind =] theorem waitingPc_sInsert : waitingPc .sInsert = false := rfl
@[simp, grind =] theorem waitingPc_sFailUnlock : waitingPc .sFailUnlock = false := rfl
@[simp, grind =] theorem waitingPc_sEnq : waitingPc .sEnq = false := rfl
@[simp, grind =] theorem waitingPc_sSignal : waitingPc .sSignal = false := rfl
@[simp, grind =] theorem waitingPc_sUnlock : waitingPc .sUnlock = false := rfl
@[simp, grind =] theorem waitingPc_sRetOk : waitingPc .sRetOk = false := rfl
@[simp, grind =] theorem waitingPc_sRetPerm : waitingPc .sRetPerm = false := rfl
@[simp, grind =] theorem waitingPc_sRetFail : waitingPc .sRetFail = false := rfl
@[simp, grind =] theorem waitingPc_mNewCreate : waitingPc .mNewCreate = false := rfl
@[simp, grind =] theorem waitingPc_mNewInsert : waitingPc .mNewInsert = false := rfl
@[simp, grind =] theorem waitingPc_mNewRet : waitingPc .mNewRet = false := rfl
@[simp, grind =] theorem waitingPc_mIdle : waitingPc .mIdle = false := rfl
@[simp, grind =] theorem waitingPc_fLock : waitingPc .fLock = false := rfl
@[simp, grind =] theorem waitingPc_fSetShut : waitingPc .fSetShut = false := rfl
@[simp, grind =] theorem waitingPc_fBcast : waitingPc .fBcast = false := rfl
@[simp, grind =] theorem waitingPc_fAliveChk : waitingPc .fAliveChk = false := rfl
@[simp, grind =] theorem waitingPc_fWait : waitingPc .fWait = false := rfl
@[simp, grind =] theorem waitingPc_fWaiting : waitingPc .fWaiting = true := rfl
@[simp, grind =] theorem waitingPc_fUnlock : waitingPc .fUnlock = false := rfl
@[simp, grind =] theorem waitingPc_fJoinInit : waitingPc .fJoinInit = false := rfl
@[simp, grind =] theorem waitingPc_fJoin : waitingPc .fJoin = false := rfl
@[simp, grind =] theorem waitingPc_fCondDestroy : waitingPc .fCondDestroy = false := rfl
@[simp, grind =] theorem waitingPc_fMutDestroy : waitingPc .fMutDestroy = false := rfl
@[simp, grind =] theorem waitingPc_fQueueFree : waitingPc .fQueueFree = false := rfl
@[simp, grind =] theorem waitingPc_fListFree : waitingPc .fListFree = false := rfl
@[simp, grind =] theorem waitingPc_fFreePool : waitingPc .fFreePool = false := rfl
@[simp, grind =] theorem waitingPc_fRet : waitingPc .fRet = false := rfl
@[simp, grind =] theorem waitingPc_mDone : waitingPc .mDone = false := rfl

/-- blocked in pthread_mutex_lock -/
def wantsLock : Pc → Bool
  | .wLock | .sLock | .fLock => true
  | _ => false
@[simp, grind =] theorem wantsLock_none : wantsLock .none = false := rfl
@[simp, grind =] theorem wantsLock_wLock : wantsLock .wLock = true := rfl
@[simp, grind =] theorem wantsLock_wLoop : wantsLock .wLoop = false := rfl
@[simp, grind =] theorem wantsLock_wWait : wantsLock .wWait = false := rfl
@[simp, grind =] theorem wantsLock_wWaiting : wantsLock .wWaiting = false := rfl
@[simp, grind =] theorem wantsLock_wBreakChk : wantsLock .wBreakChk = false := rfl
@[simp, grind =] theorem wantsLock_wBreakLen : wantsLock .wBreakLen = false := rfl
@[simp, grind =] theorem wantsLock_wDequeue : wantsLock .wDequeue = false := rfl
@[simp, grind =] theorem wantsLock_wUnlock : wantsLock .wUnlock = false := rfl
@[simp, grind =] theorem wantsLock_wInc : wantsLock .wInc = false := rfl
@[simp, grind =] theorem wantsLock_wCall : wantsLock .wCall = false := rfl
@[simp, grind =] theorem wantsLock_wInTask : wantsLock .wInTask = false := rfl
@[simp, grind =] theorem wantsLock_wDec : wantsLock .wDec = false := rfl
@[simp, grind =] theorem wantsLock_wExitDec : wantsLock .wExitDec = false := rfl
@[simp, grind =] theorem wantsLock_wExitBcast : wantsLock .wExitBcast = false := rfl
@[simp, grind =] theorem wantsLock_wExitUnlock : wantsLock .wExitUnlock = false := rfl
@[simp, grind =] theorem wantsLock_wRet : wantsLock .wRet = false := rfl
@[simp, grind =] theorem wantsLock_wDone : wantsLock .wDone = false := rfl
@[simp, grind =] theorem wantsLock_sIdle : wantsLock .sIdle = false := rfl
@[simp, grind =] theorem wantsLock_sAssert : wantsLock .sAssert = false := rfl
@[simp, grind =] theorem wantsLock_sLock : wantsLock .sLock = true := rfl
@[simp, grind =] theorem wantsLock_sLazy0 : wantsLock .sLazy0 = false := rfl
@[simp, grind =] theorem wantsLock_sLazy1 : wantsLock .sLazy1 = false := rfl
@[simp, grind =] theorem wantsLock_sLazy2 : wantsLock .sLazy2 = false := rfl
@[simp, grind =] theorem wantsLock_sCreate : wantsLock .sCreate = false := rfl
@[simp, grind =] theorem wantsLock_sInsert : wantsLock .sInsert = false := rfl
@[simp, grind =] theorem wantsLock_sFailUnlock : wantsLock .sFailUnlock = false := rfl
@[simp, grind =] theorem wantsLock_sEnq : wantsLock .sEnq = false := rfl
@[simp, grind =] theorem wantsLock_sSignal : wantsLock .sSignal = false := rfl
@[simp, grind =] theorem wantsLock_sUnlock : wantsLock .sUnlock = false := rfl
@[simp, grind =] theorem wantsLock_sRetOk : wantsLock .sRetOk = false := rfl
@[simp, grind =] theorem wantsLock_sRetPerm : wantsLock .sRetPerm = false := rfl
@[simp, grind =] theorem wantsLock_sRetFail : wantsLock .sRetFail = false := rfl
@[simp, grind =] theorem wantsLock_mNewCreate : wantsLock .mNewCreate = false := rfl
@[simp, grind =] theorem wantsLock_mNewInsert : wantsLock .mNewInsert = false := rfl
@[simp, grind =] theorem wantsLock_mNewRet : wantsLock .mNewRet = false := rfl
@[simp, grind =] theorem wantsLock_mIdle : wantsLock .mIdle = false := rfl
@[simp, grind =] theorem wantsLock_fLock : wantsLock .fLock = true := rfl
@[simp, grind =] theorem wantsLock_fSetShut : wantsLock .fSetShut = false := rfl
@[simp, grind =] theorem wantsLock_fBcast : wantsLock .fBcast = false := rfl
@[simp, grind =] theorem wantsLock_fAliveChk : wantsLock .fAliveChk = false := rfl
@[simp, grind =] theorem wantsLock_fWait : wantsLock .fWait = false := rfl
@[simp, grind =] theorem wantsLock_fWaiting : wantsLock .fWaiting = false := rfl
@[simp, grind =] theorem wantsLock_fUnlock : wantsLock .fUnlock = false := rfl
@[simp, grind =] theorem wantsLock_fJoinInit : wantsLock .fJoinInit = false := rfl
@[simp, grind =] theorem wantsLock_fJoin : wantsLock .fJoin = false := rfl
@[simp, grind =] theorem wantsLock_fCondDestroy : wantsLock .fCondDestroy = false := rfl
@[simp, grind =] theorem wantsLock_fMutDestroy : wantsLock .fMutDestroy = false := rfl
@[simp, grind =] theorem wantsLock_fQueueFree : wantsLock .fQueueFree = false := rfl
@[simp, grind =] theorem wantsLock_fListFree : wantsLock .fListFree = false := rfl
@[simp, grind =] theorem wantsLock_fFreePool : wantsLock .fFreePool = false := rfl
@[simp, grind =] theorem wantsLock_fRet : wantsLock .fRet = false := rfl
@[simp, grind =] theorem wantsLock_mDone : wantsLock .mDone = false := rfl

/-- how far thread 0 has got (0 for the program counters of other threads) -/
def ph : Pc → Nat
  | .mNewCreate => 0
  | .mNewInsert => 0
  | .mNewRet => 1
  | .mIdle => 2
  | .fLock => 3
  | .fSetShut => 4
  | .fBcast => 5
  | .fAliveChk => 6
  | .fWait => 6
  | .fWaiting => 6
  | .fUnlock => 7
  | .fJoinInit => 8
  | .fJoin => 9
  | .fCondDestroy => 10
  | .fMutDestroy => 11
  | .fQueueFree => 12
  | .fListFree => 13
  | .fFreePool => 14
  | .fRet => 15
  | .mDone => 16
  | _ => 0
@[simp, grind =] theorem ph_none : ph .none = 0 := rfl
@[simp, grind =] theorem ph_wLock : ph .wLock = 0 := rfl
@[simp, grind =] theorem ph_wLoop : ph .wLoop = 0 := rfl
@[simp, grind =] theorem ph_wWait : ph .wWait = 0 := rfl
@[simp, grind =] theorem ph_wWaiting : ph .wWaiting = 0 := rfl
@[simp, grind =] theorem ph_wBreakChk : ph .wBreakChk = 0 := rfl
@[simp, grind =] theorem ph_wBreakLen : ph .wBreakLen = 0 := rfl
@[simp, grind =] theorem ph_wDequeue : ph .wDequeue = 0 := rfl
@[simp, grind =] theorem ph_wUnlock : ph .wUnlock = 0 := rfl
@[simp, grind =] theorem ph_wInc : ph .wInc = 0 := rfl
@[simp, grind =] theorem ph_wCall : ph .wCall = 0 := rfl
@[simp, grind =] theorem ph_wInTask : ph .wInTask = 0 := rfl
@[simp, grind =] theorem ph_wDec : ph .wDec = 0 := rfl
@[simp, grind =] theorem ph_wExitDec : ph .wExitDec = 0 := rfl
@[simp, grind =] theorem ph_wExitBcast : ph .wExitBcast = 0 := rfl
@[simp, grind =] theorem ph_wExitUnlock : ph .wExitUnlock = 0 := rfl
@[simp, grind =] theorem ph_wRet : ph .wRet = 0 := rfl
@[simp, grind =] theorem ph_wDone : ph .wDone = 0 := rfl
@[simp, grind =] theorem ph_sIdle : ph .sIdle = 0 := rfl
@[simp, grind =] theorem ph_sAssert : ph .sAssert = 0 := rfl
@[simp, grind =] theorem ph_sLock : ph .sLock = 0 := rfl
@[simp, grind =] theorem ph_sLazy0 : ph .sLazy0 = 0 := rfl
@[simp, grind =] theorem ph_sLazy1 : ph .sLazy1 = 0 := rfl
@[simp, grind =] theorem ph_sLazy2 : ph .sLazy2 = 0 := rfl
@[simp, grind =] theorem ph_sCreate : ph .sCreate = 0 := rfl
@[simp, grind =] theorem ph_sInsert : ph .sInsert = 0 := rfl
@[simp, grind =] theorem ph_sFailUnlock : ph .sFailUnlock = 0 := rfl
@[simp, grind =] theorem ph_sEnq : ph .sEnq = 0 := rfl
@[simp, grind =] theorem ph_sSignal : ph .sSignal = 0 := rfl
@[simp, grind =] theorem ph_sUnlock : ph .sUnlock = 0 := rfl
@[simp, grind =] theorem ph_sRetOk : ph .sRetOk = 0 := rfl
@[simp, grind =] theorem ph_sRetPerm : ph .sRetPerm = 0 := rfl
@[simp, grind =] theorem ph_sRetFail : ph .sRetFail = 0 := rfl
@[simp, grind =] theorem ph_mNewCreate : ph .mNewCreate = 0 := rfl
@[simp, grind =] theorem ph_mNewInsert : ph .mNewInsert = 0 := rfl
@[simp, grind =] theorem ph_mNewRet : ph .mNewRet = 1 := rfl
@[simp, grind =] theorem ph_mIdle : ph .mIdle = 2 := rfl
@[simp, grind =] theorem ph_fLock : ph .fLock = 3 := rfl
@[simp, grind =] theorem ph_fSetShut : ph .fSetShut = 4 := rfl
@[simp, grind =] theorem ph_fBcast : ph .fBcast = 5 := rfl
@[simp, grind =] theorem ph_fAliveChk : ph .fAliveChk = 6 := rfl
@[simp, grind =] theorem ph_fWait : ph .fWait = 6 := rfl
@[simp, grind =] theorem ph_fWaiting : ph .fWaiting = 6 := rfl
@[simp, grind =] theorem ph_fUnlock : ph .fUnlock = 7 := rfl
@[simp, grind =] theorem ph_fJoinInit : ph .fJoinInit = 8 := rfl
@[simp, grind =] theorem ph_fJoin : ph .fJoin = 9 := rfl
@[simp, grind =] theorem ph_fCondDestroy : ph .fCondDestroy = 10 := rfl
@[simp, grind =] theorem ph_fMutDestroy : ph .fMutDestroy = 11 := rfl
@[simp, grind =] theorem ph_fQueueFree : ph .fQueueFree = 12 := rfl
@[simp, grind =] theorem ph_fListFree : ph .fListFree = 13 := rfl
@[simp, grind =] theorem ph_fFreePool : ph .fFreePool = 14 := rfl
@[simp, grind =] theorem ph_fRet : ph .fRet = 15 := rfl
@[simp, grind =] theorem ph_mDone : ph .mDone = 16 := rfl

end Lm.Thpool
