import Lm.Inv.ThpoolInv
/-! Preservation of the invariants about the worker loop. -/
namespace Lm.Thpool
variable {s s' : State} {l : Label}
set_option linter.unusedSimpArgs false
set_option linter.unusedVariables false

set_option maxHeartbeats 1000000 in
theorem waitShut_step (hi : Inv s) (h : step s l = some s') : ∀ u, s'.pc u = .wWait → s'.shutdown = .no := by
  intro u hu
  have h1 := hi.waitShut u
  have h2 := hi.mutex u
  have h3 := hi.mutex l.tid
  have hA := ph_of_pastChk hi l.tid
  have hB := ph_of_inTask hi l.tid
  step_cases h
  all_goals (
    by_cases ht : u = l.tid
    · subst ht; simp_all [State.goto, upd_apply, zero_eq] <;> fin
    · simp_all [State.goto, upd_apply, zero_eq] <;> fin)

set_option maxHeartbeats 1000000 in
theorem bcastDone_step (hi : Inv s) (h : step s l = some s') : 6 ≤ ph (s'.pc 0) → ∀ u, u ∈ s'.waiters → u = 0 := by
  intro hph u hu
  have h1 := fun hp => hi.bcastDone hp u
  have h2 := hi.waitShut l.tid
  have h3 := hi.shutSet
  have h4 := hi.othersNotM l.tid
  have h5 := hi.mainIsM
  have h6 := fun (w : Tid) => List.mem_of_mem_erase (a := u) (b := w) (l := s.waiters)
  have hA := ph_of_pastChk hi l.tid
  have hB := ph_of_inTask hi l.tid
  step_cases h
  all_goals (
    by_cases h0 : l.tid = 0
    · simp_all [State.goto, upd_apply, zero_eq] <;> fin
    · simp_all [State.goto, upd_apply, zero_eq] <;> fin)


set_option maxHeartbeats 1000000 in
theorem breakChk_step (hi : Inv s) (h : step s l = some s') :
    ∀ u, s'.pc u = .wBreakChk → s'.tasks ≠ [] ∨ s'.shutdown ≠ .no := by
  intro u hu
  have h1 := hi.breakChk u
  have h2 := hi.mutex u
  have h3 := hi.mutex l.tid
  have h4 := hi.shutSet
  have h5 := hi.othersNotM l.tid
  have hA := ph_of_pastChk hi l.tid
  have hB := ph_of_inTask hi l.tid
  step_cases h
  all_goals (
    by_cases ht : u = l.tid
    · subst ht; simp_all [State.goto, upd_apply, zero_eq] <;> fin
    · by_cases h0 : l.tid = 0
      · simp_all [State.goto, upd_apply, zero_eq] <;> fin
      · simp_all [State.goto, upd_apply, zero_eq] <;> fin)

set_option maxHeartbeats 1000000 in
theorem breakLen_step (hi : Inv s) (h : step s l = some s') : ∀ u, s'.pc u = .wBreakLen → s'.shutdown = .waitAll := by
  intro u hu
  have h1 := hi.breakLen u
  have h2 := hi.mutex u
  have h3 := hi.mutex l.tid
  have hA := ph_of_pastChk hi l.tid
  have hB := ph_of_inTask hi l.tid
  step_cases h
  all_goals (
    by_cases ht : u = l.tid
    · subst ht; simp_all [State.goto, upd_apply, zero_eq] <;> fin
    · simp_all [State.goto, upd_apply, zero_eq] <;> fin)

set_option maxHeartbeats 1000000 in
theorem deqNonempty_step (hi : Inv s) (h : step s l = some s') : ∀ u, s'.pc u = .wDequeue → s'.tasks ≠ [] := by
  intro u hu
  have h1 := hi.deqNonempty u
  have h2 := hi.mutex u
  have h3 := hi.mutex l.tid
  have h4 := hi.breakChk l.tid
  have h5 := hi.goneAll
  have h6 := hi.othersNotM l.tid
  have hA := ph_of_pastChk hi l.tid
  have hB := ph_of_inTask hi l.tid
  step_cases h
  all_goals (
    by_cases ht : u = l.tid
    · subst ht; simp_all [State.goto, upd_apply, zero_eq] <;> fin
    · by_cases h0 : l.tid = 0
      · have h7 := fun hp => h5 hp u; simp_all [State.goto, upd_apply, zero_eq] <;> fin
      · simp_all [State.goto, upd_apply, zero_eq] <;> fin)


set_option maxHeartbeats 1000000 in
theorem exitShut_step (hi : Inv s) (h : step s l = some s') : ∀ u, exiting (s'.pc u) = true → s'.shutdown ≠ .no := by
  intro u hu
  have h1 := hi.exitShut u
  have h2 := hi.breakLen l.tid
  have hA := ph_of_pastChk hi l.tid
  have hB := ph_of_inTask hi l.tid
  step_cases h
  all_goals (
    by_cases ht : u = l.tid
    · subst ht; simp_all [State.goto, upd_apply, zero_eq] <;> fin
    · simp_all [State.goto, upd_apply, zero_eq] <;> fin)

set_option maxHeartbeats 1000000 in
theorem exitAllEmpty_step (hi : Inv s) (h : step s l = some s') :
    ∀ u, exiting (s'.pc u) = true → s'.shutdown = .waitAll → s'.tasks = [] := by
  intro u hu
  have h1 := hi.exitAllEmpty u
  have h2 := hi.exitShut u
  have h3 := hi.liveHandle l.tid
  have h4 := hi.shutNo
  have h5 := hi.othersNotM l.tid
  have hA := ph_of_pastChk hi l.tid
  have hB := ph_of_inTask hi l.tid
  step_cases h
  all_goals (
    by_cases ht : u = l.tid
    · subst ht; simp_all [State.goto, upd_apply, zero_eq] <;> fin
    · by_cases h0 : l.tid = 0
      · simp_all [State.goto, upd_apply, zero_eq] <;> fin
      · simp_all [State.goto, upd_apply, zero_eq] <;> fin)

end Lm.Thpool
