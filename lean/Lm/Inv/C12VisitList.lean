import Lm.Inv.C12Visit
/-!
# The list iterator visits every remaining element exactly once, in list order

The list iterator can also insert nodes and (after a removal) remove nodes it has not visited yet, so
"visited = a prefix of the original chain" (queue, stack) does not hold.  The invariant here: the
chain splits into a *done* part `D` (in front of the position `next` will move to) and an *unvisited*
part `U`; no node is visited twice; no unvisited node has been visited; every done node was visited
or was inserted through the iterator; the visited nodes still present appear in the chain in the
order in which they were visited.
-/
namespace Lm.Struct
open Lm.Spec.C12

structure LProg (I D U vis : List NodeId) : Prop where
  nodupV : vis.Nodup
  unv : ∀ x ∈ U, x ∉ vis
  done : ∀ x ∈ D, x ∈ vis ∨ x ∉ I
  order : D.filter (fun x => decide (x ∈ vis)) = vis.filter (fun x => decide (x ∈ D))

theorem LProg.start (x : NodeId) (r : List NodeId) (hn : (x :: r).Nodup) : LProg (x :: r) [x] r [x] where
  nodupV := by simp
  unv := by
    intro y hy; simp only [List.nodup_cons] at hn
    simp; intro e; subst e; exact hn.1 hy
  done := by simp
  order := by simp

/-- `next` moves on to the first unvisited node -/
theorem LProg.visit {I D U vis : List NodeId} {u : NodeId} (h : LProg I D (u :: U) vis) (hn : (D ++ u :: U).Nodup) :
    LProg I (D ++ [u]) U (vis ++ [u]) := by
  have hn' := List.nodup_append.mp hn
  have huD : u ∉ D := fun hm => hn'.2.2 u hm u (by simp) rfl
  have huU : u ∉ U := (List.nodup_cons.mp hn'.2.1).1
  have huv : u ∉ vis := h.unv u (by simp)
  refine ⟨?_, ?_, ?_, ?_⟩
  · rw [List.nodup_append]
    exact ⟨h.nodupV, by simp, by intro a ha b hb; simp at hb; subst hb; intro e; subst e; exact huv ha⟩
  · intro x hx
    have h1 := h.unv x (by simp [hx])
    simp only [List.mem_append, List.mem_singleton, not_or]
    exact ⟨h1, fun e => huU (e ▸ hx)⟩
  · intro x hx
    simp only [List.mem_append, List.mem_singleton] at hx
    rcases hx with hx | rfl
    · rcases h.done x hx with h1 | h1
      · left; simp [h1]
      · right; exact h1
    · left; simp
  · rw [List.filter_append, List.filter_append]
    have e1 : D.filter (fun x => decide (x ∈ vis ++ [u])) = D.filter (fun x => decide (x ∈ vis)) := by
      apply List.filter_congr
      intro x hx
      have : x ≠ u := fun e => huD (e ▸ hx)
      simp [this]
    have e2 : vis.filter (fun x => decide (x ∈ D ++ [u])) = vis.filter (fun x => decide (x ∈ D)) := by
      apply List.filter_congr
      intro x hx
      have : x ≠ u := fun e => huv (e ▸ hx)
      simp [this]
    rw [e1, e2, h.order]
    simp

theorem nodup_split_filter {A B : List NodeId} {y : NodeId} (hn : (A ++ y :: B).Nodup) :
    (A ++ y :: B).filter (fun x => decide (x ≠ y)) = A ++ B := by
  have hn' := List.nodup_append.mp hn
  have hyA : ∀ x ∈ A, x ≠ y := fun x hx => hn'.2.2 x hx y (by simp)
  have hyB : ∀ x ∈ B, x ≠ y := by
    intro x hx e; subst e; exact (List.nodup_cons.mp hn'.2.1).1 hx
  rw [List.filter_append, List.filter_cons]
  simp only [ne_eq, not_true_eq_false, decide_false, Bool.false_eq_true, if_false]
  rw [List.filter_eq_self.mpr (by intro a ha; simp [hyA a ha]), List.filter_eq_self.mpr (by intro a ha; simp [hyB a ha])]

/-- a done node is removed through the iterator -/
theorem LProg.rmDone {I A B U vis : List NodeId} {y : NodeId} (h : LProg I (A ++ y :: B) U vis)
    (hn : (A ++ y :: B).Nodup) : LProg I (A ++ B) U vis := by
  have hf := nodup_split_filter hn
  refine ⟨h.nodupV, h.unv, ?_, ?_⟩
  · intro x hx
    apply h.done
    simp only [List.mem_append, List.mem_cons] at hx ⊢
    rcases hx with hx | hx
    · exact Or.inl hx
    · exact Or.inr (Or.inr hx)
  · have hmem : ∀ x, x ∈ A ++ B ↔ (x ∈ A ++ y :: B ∧ x ≠ y) := by
      intro x; rw [← hf, List.mem_filter]; simp
    calc (A ++ B).filter (fun x => decide (x ∈ vis))
        = ((A ++ y :: B).filter (fun x => decide (x ≠ y))).filter (fun x => decide (x ∈ vis)) := by rw [hf]
      _ = ((A ++ y :: B).filter (fun x => decide (x ∈ vis))).filter (fun x => decide (x ≠ y)) := by
          rw [List.filter_filter, List.filter_filter]; apply List.filter_congr; intro x _; exact Bool.and_comm _ _
      _ = (vis.filter (fun x => decide (x ∈ A ++ y :: B))).filter (fun x => decide (x ≠ y)) := by rw [h.order]
      _ = vis.filter (fun x => decide (x ∈ A ++ B)) := by
          rw [List.filter_filter]; apply List.filter_congr; intro x _
          by_cases h1 : x ∈ A ++ y :: B <;> by_cases h2 : x = y <;> simp [hmem, h1, h2]

/-- an unvisited node is removed through the iterator -/
theorem LProg.rmUnvisited {I D U vis : List NodeId} {u : NodeId} (h : LProg I D (u :: U) vis) : LProg I D U vis :=
  ⟨h.nodupV, fun x hx => h.unv x (by simp [hx]), h.done, h.order⟩

/-- a fresh node is inserted into the done part -/
theorem LProg.insDone {I A B U vis : List NodeId} {f : NodeId} (h : LProg I (A ++ B) U vis)
    (hv : f ∉ vis) (hI : f ∉ I) : LProg I (A ++ f :: B) U vis := by
  refine ⟨h.nodupV, h.unv, ?_, ?_⟩
  · intro x hx
    simp only [List.mem_append, List.mem_cons] at hx
    rcases hx with hx | rfl | hx
    · exact h.done x (by simp [hx])
    · exact Or.inr hI
    · exact h.done x (by simp [hx])
  · have e1 : (A ++ f :: B).filter (fun x => decide (x ∈ vis)) = (A ++ B).filter (fun x => decide (x ∈ vis)) := by
      simp [List.filter_append, List.filter_cons, hv]
    have e2 : vis.filter (fun x => decide (x ∈ A ++ f :: B)) = vis.filter (fun x => decide (x ∈ A ++ B)) := by
      apply List.filter_congr
      intro x hx
      have : x ≠ f := fun e => hv (e ▸ hx)
      simp [this]
    rw [e1, e2, h.order]

/-- a fresh node is inserted in front of the unvisited part (it will be visited) -/
theorem LProg.insUnvisited {I D U vis : List NodeId} {f : NodeId} (h : LProg I D U vis) (hv : f ∉ vis) :
    LProg I D (f :: U) vis :=
  ⟨h.nodupV, by intro x hx; simp at hx; rcases hx with rfl | hx; exact hv; exact h.unv x hx, h.done, h.order⟩

/-! ## Explicit results of the list iterator functions -/

theorem R_wf {k : Kind} {s : St} {a : ASt} {q : Cont} (h : R k s a) (ho : s.obj = some q) : q.WF := by
  obtain ⟨obj, itr, log, fault⟩ := s
  simp only at ho; subst ho
  simp only [R] at h
  exact h.2.2.2.2.2.2.1

theorem ids_insertAt (c : Chain) (p : Nat) (nd : Node) :
    ids (insertAt c p nd) = (ids c).take p ++ nd.id :: (ids c).drop p := by
  simp [ids, insertAt, List.map_take, List.map_drop]

theorem ids_eraseAt' (c : Chain) (p : Nat) : ids (eraseAt c p) = (ids c).take p ++ (ids c).drop (p + 1) := by
  simp [ids, eraseAt, List.map_take, List.map_drop]

namespace ListM

/-- index in front of which everything is done: where `next` will move to -/
def kbOf (p : Nat) (d : Int) : Nat := if 0 ≤ d then p + d.toNat + 1 else p

theorem itrNext_cases {s : St} {q : Cont} {it : Itr} {p : Nat} (ho : s.obj = some q) (hi : s.itr = some it)
    (hf : s.fault = false) (hp : linkPos q.chain it.elem = some p) (hn : (ids q.chain).Nodup) :
    ∃ l' p', linkPos q.chain l' = some p' ∧
      p' = (if p < q.chain.length ∧ it.diff ≥ 0 then min (p + it.diff.toNat + 1) q.chain.length else p) ∧
      ((q.chain[p']? = none ∧ noteCur (itrNext s) = ({ s with itr := none }, .int 0)) ∨
       (∃ nd', q.chain[p']? = some nd' ∧ noteCur (itrNext s) =
          ({ s with itr := some { it with elem := l', diff := 0 }, log := s.log ++ [Ev.cur (some nd')] }, .int 0))) := by
  obtain ⟨obj, itr, log, fault⟩ := s
  simp only at ho hi hf; subst ho hi hf
  generalize hlp : (if (q.chain[p]?).isSome ∧ it.diff ≥ 0 then advance q.chain (it.diff.toNat + 1) (it.elem, p)
            else (it.elem, p)) = lp
  have hlp1 : linkPos q.chain lp.1 = some lp.2 ∧
      lp.2 = (if p < q.chain.length ∧ it.diff ≥ 0 then min (p + it.diff.toNat + 1) q.chain.length else p) := by
    by_cases hc : (q.chain[p]?).isSome ∧ it.diff ≥ 0
    · have hpl : p < q.chain.length := by
        obtain ⟨x, hx⟩ := Option.isSome_iff_exists.mp hc.1
        exact lt_of_getElem?_some hx
      have := advance_spec hn (it.diff.toNat + 1) it.elem p hp
      rw [if_pos hc] at hlp
      rw [← hlp, if_pos ⟨hpl, hc.2⟩]
      exact ⟨this.1, by rw [this.2]; congr 1⟩
    · have hnn : ¬ (p < q.chain.length ∧ it.diff ≥ 0) := by
        intro ⟨h1, h2⟩; exact hc ⟨by simp [List.getElem?_eq_getElem h1], h2⟩
      rw [if_neg hc] at hlp
      rw [← hlp, if_neg hnn]
      exact ⟨hp, rfl⟩
  refine ⟨lp.1, lp.2, hlp1.1, hlp1.2, ?_⟩
  cases hnx : q.chain[lp.2]? with
  | none =>
    left
    have e1 : itrNext ⟨some q, some it, log, false⟩ = (⟨some q, none, log, false⟩, .int 0) := by
      simp only [itrNext, hp, hlp, hnx, Option.isNone_none, if_true]
    exact ⟨rfl, by rw [e1, noteCur_list_noitr rfl]⟩
  | some nd' =>
    right
    have e1 : itrNext ⟨some q, some it, log, false⟩ =
        (⟨some q, some { it with elem := lp.1, diff := 0 }, log, false⟩, .int 0) := by
      simp only [itrNext, hp, hlp, hnx, Option.isNone_some, Bool.false_eq_true, if_false]
    refine ⟨nd', rfl, ?_⟩
    rw [e1, noteCur_list (q := q) (it := { it with elem := lp.1, diff := 0 }) (p := lp.2) rfl rfl rfl hlp1.1, hnx]

theorem itrRemove_cases {s : St} {q : Cont} {it : Itr} {p : Nat} (ho : s.obj = some q) (hi : s.itr = some it)
    (hp : linkPos q.chain it.elem = some p) :
    (q.chain[p]? = none ∧ itrRemove s = (s, .int EINVAL)) ∨
    (∃ tmp, q.chain[p]? = some tmp ∧ itrRemove s =
      ({ s with obj := some { q with chain := eraseAt q.chain p, len := q.len - 1 },
                itr := some { it with diff := it.diff - 1 }, log := callDtor q.dtor s.log tmp.val }, .int 0)) := by
  obtain ⟨obj, itr, log, fault⟩ := s
  simp only at ho hi; subst ho hi
  cases hnd : q.chain[p]? with
  | none => left; exact ⟨rfl, by simp [itrRemove, hp, removeNode, hnd]⟩
  | some tmp => right; exact ⟨tmp, rfl, by simp [itrRemove, hp, removeNode, hnd]⟩

theorem itrInsert_cases {s : St} {q : Cont} {it : Itr} {p : Nat} (v : Val) (ho : s.obj = some q) (hi : s.itr = some it)
    (hp : linkPos q.chain it.elem = some p) :
    itrInsert s v = (s, .int EINVAL) ∨
    itrInsert s v = ({ s with obj := some (insertNode q p v), itr := some { it with diff := it.diff + 1 } }, .int 0) := by
  obtain ⟨obj, itr, log, fault⟩ := s
  simp only at ho hi; subst ho hi
  by_cases hv : v = 0
  · left; simp [itrInsert, hv]
  · right; simp [itrInsert, hv, hp]

theorem itrSet_cases {s : St} {q : Cont} {it : Itr} {p : Nat} (v : Val) (ho : s.obj = some q) (hi : s.itr = some it)
    (hp : linkPos q.chain it.elem = some p) :
    itrSet s v = (s, .int EINVAL) ∨
    itrSet s v = ({ s with obj := some { q with chain := setAt q.chain p v } }, .int 0) := by
  obtain ⟨obj, itr, log, fault⟩ := s
  simp only at ho hi; subst ho hi
  by_cases hv : v = 0
  · left; simp [itrSet, hv]
  · cases hnd : q.chain[p]? with
    | none => left; simp [itrSet, hv, hp, hnd]
    | some nd => right; simp [itrSet, hv, hp, hnd]

theorem itrGet_state {s : St} {a : ASt} (h : R .list s a) : (itrGet s).1 = s := by
  have hw := wellFormed_of_R h
  obtain ⟨obj, itr, log, fault⟩ := s
  cases itr with
  | none => simp [itrGet]
  | some it =>
    cases obj with
    | none => have := hw.noitr rfl; simp at this
    | some q =>
      obtain ⟨p, hp, _⟩ := hw.itr q it rfl rfl
      cases hnd : q.chain[p]? <;> simp [itrGet, hp, hnd]

theorem find_state (eq : Val → Val → Bool) {s : St} {a : ASt} (v : Val) (h : R .list s a) : (find eq s v).1 = s := by
  have h1 := (find_R eq v h).1
  have hf : (find eq s v).1.fault = false := h1.1
  -- `find` returns the state unchanged unless it crashes
  have : (find eq s v).1 = s ∨ (find eq s v).1 = s.crash := by
    unfold find
    split
    · left; rfl
    · split
      · left; rfl
      · split
        · right; rfl
        · split
          · left; rfl
          · right; rfl
        · left; rfl
  rcases this with e | e
  · exact e
  · rw [e] at hf; simp [St.crash] at hf

/-! ## The iteration invariant of the list -/

/-- An iteration over a list whose chain identities were `I` at `itr_new` is in progress (or has
ended); `V0` is what had been visited before. -/
def LVis (I V0 : List NodeId) (s : St) : Prop :=
  (∃ a, R .list s a) ∧ ∃ q vis, s.obj = some q ∧ (∀ x ∈ I, x < q.fresh) ∧ visited s.log = V0 ++ vis ∧
    (∀ x ∈ vis, x < q.fresh) ∧
    match s.itr with
    | none => LProg I (ids q.chain) [] vis
    | some it => ∃ p D U, linkPos q.chain it.elem = some p ∧ ids q.chain = D ++ U ∧ D.length = kbOf p it.diff ∧
        LProg I D U vis

theorem lvis_itrNew {s : St} {a : ASt} {q : Cont} (h : R .list s a) (ho : s.obj = some q) (hne : q.chain ≠ []) :
    LVis (ids q.chain) (visited s.log) (noteCur (itrNew s)).1 := by
  refine ⟨⟨_, (itrNew_R h).1⟩, ?_⟩
  have wf := R_wf h ho
  obtain ⟨obj, itr, log, fault⟩ := s
  simp only at ho; subst ho
  have hf : fault = false := h.1
  subst hf
  cases hc : q.chain with
  | nil => exact absurd hc hne
  | cons nd rest =>
    have hl : 0 < q.len := by simp [wf.len, hc]
    have e1 : itrNew ⟨some q, itr, log, false⟩ = (⟨some q, some { elem := .head }, log, false⟩, .handle true) := by
      simp [itrNew, Lm.Struct.itrNew, cLen, hl]
    rw [e1, noteCur_list (q := q) (it := { elem := .head }) (p := 0) rfl rfl rfl rfl]
    have hfr : ∀ x ∈ ids (nd :: rest), x < q.fresh := by
      intro x hx
      obtain ⟨n', hn', e⟩ := List.mem_map.mp hx
      rw [← e]; exact wf.fresh n' (hc ▸ hn')
    have hnd : (ids (nd :: rest)).Nodup := hc ▸ wf.nodup
    refine ⟨q, [nd.id], rfl, hfr, ?_, ?_, 0, [nd.id], ids rest, rfl, ?_, ?_, ?_⟩
    · simp [hc, visited_append, visited]
    · intro x hx; simp at hx; subst hx; exact hfr _ (by simp [ids])
    · simp [hc, ids]
    · simp [kbOf]
    · exact LProg.start nd.id (ids rest) hnd

theorem lvis_same {I V0 : List NodeId} {s s' : St} {a' : ASt} (h : LVis I V0 s) (hR : R .list s' a')
    (ho : s'.obj = s.obj) (hi : s'.itr = s.itr) (hl : visited s'.log = visited s.log) : LVis I V0 s' := by
  obtain ⟨_, q, vis, ho', hI, hvis, hvf, hitr⟩ := h
  exact ⟨⟨a', hR⟩, q, vis, by rw [ho, ho'], hI, by rw [hl, hvis], hvf, by rw [hi]; exact hitr⟩

theorem lvis_itrNext {eq : Val → Val → Bool} {I V0 : List NodeId} {s : St} (h : LVis I V0 s) :
    LVis I V0 (noteCur (itrNext s)).1 := by
  obtain ⟨⟨a, hR⟩, q, vis, ho, hI, hvis, hvf, hitr⟩ := h
  refine ⟨⟨_, (itrNext_R (eq := eq) hR).1⟩, ?_⟩
  have wf := R_wf hR ho
  have hf : s.fault = false := hR.1
  cases hi : s.itr with
  | none =>
    have e : noteCur (itrNext s) = (s, .int EINVAL) := by
      have : itrNext s = (s, .int EINVAL) := by
        obtain ⟨obj, itr, log, fault⟩ := s
        simp only at hi; subst hi; simp [itrNext]
      rw [this, noteCur_list_noitr hi]
    rw [e]; rw [hi] at hitr
    exact ⟨q, vis, ho, hI, hvis, hvf, by rw [hi]; exact hitr⟩
  | some it =>
    rw [hi] at hitr
    obtain ⟨p, D, U, hp, hids, hD, hprog⟩ := hitr
    obtain ⟨l', p', hl', hp', hcase⟩ := itrNext_cases ho hi hf hp wf.nodup
    have hlen : D.length + U.length = q.chain.length := by
      have := congrArg List.length hids; simp [ids] at this; omega
    -- `next` lands exactly on the first node that is not done
    have hpD : p' = D.length := by
      rw [hp', hD]
      unfold kbOf
      by_cases hd : 0 ≤ it.diff
      · have : p + it.diff.toNat + 1 ≤ q.chain.length := by rw [hD] at hlen; simp [kbOf, hd] at hlen; omega
        have hpl : p < q.chain.length := by omega
        rw [if_pos ⟨hpl, hd⟩, if_pos hd]; omega
      · have : ¬ (p < q.chain.length ∧ it.diff ≥ 0) := fun h => hd h.2
        rw [if_neg this, if_neg hd]
    subst hpD
    rcases hcase with ⟨hnone, e⟩ | ⟨nd', hsome, e⟩
    · rw [e]
      have hU : U = [] := by
        have : q.chain.length ≤ D.length := by simpa using hnone
        apply List.eq_nil_of_length_eq_zero; omega
      subst hU
      simp only [List.append_nil] at hids
      exact ⟨q, vis, ho, hI, hvis, hvf, by simp only; rw [hids]; exact hprog⟩
    · rw [e]
      have hu : U[0]? = some nd'.id := by
        have : (ids q.chain)[D.length]? = some nd'.id := by rw [ids_getElem?, hsome]; rfl
        rw [hids, List.getElem?_append_right (Nat.le_refl _)] at this
        simpa using this
      obtain ⟨U', rfl⟩ : ∃ U', U = nd'.id :: U' := by
        cases U with
        | nil => simp at hu
        | cons u U' => simp at hu; exact ⟨U', by rw [hu]⟩
      have hnd : (D ++ nd'.id :: U').Nodup := hids ▸ wf.nodup
      have hfr : nd'.id < q.fresh := wf.fresh nd' (List.mem_of_getElem? hsome)
      refine ⟨q, vis ++ [nd'.id], ho, hI, ?_, ?_, D.length, D ++ [nd'.id], U', hl', ?_, ?_, hprog.visit hnd⟩
      · show visited (s.log ++ [Ev.cur (some nd')]) = V0 ++ (vis ++ [nd'.id])
        rw [visited_append, hvis]; simp [visited]
      · intro x hx; simp at hx; rcases hx with hx | rfl
        · exact hvf x hx
        · exact hfr
      · rw [hids]; simp
      · simp [kbOf]

theorem lvis_itrRemove {eq : Val → Val → Bool} {I V0 : List NodeId} {s : St} (h : LVis I V0 s) :
    LVis I V0 (itrRemove s).1 := by
  obtain ⟨⟨a, hR⟩, q, vis, ho, hI, hvis, hvf, hitr⟩ := h
  refine ⟨⟨_, (itrRemove_R (eq := eq) hR).1⟩, ?_⟩
  have wf := R_wf hR ho
  cases hi : s.itr with
  | none =>
    have : itrRemove s = (s, .int EINVAL) := by
      obtain ⟨obj, itr, log, fault⟩ := s
      simp only at hi; subst hi; simp [itrRemove]
    rw [this]; rw [hi] at hitr
    exact ⟨q, vis, ho, hI, hvis, hvf, by rw [hi]; exact hitr⟩
  | some it =>
    rw [hi] at hitr
    obtain ⟨p, D, U, hp, hids, hD, hprog⟩ := hitr
    rcases itrRemove_cases ho hi hp with ⟨_, e⟩ | ⟨tmp, hsome, e⟩
    · rw [e]; exact ⟨q, vis, ho, hI, hvis, hvf, by rw [hi]; exact ⟨p, D, U, hp, hids, hD, hprog⟩⟩
    · rw [e]
      have hpl := lt_of_getElem?_some hsome
      have hlen : D.length + U.length = q.chain.length := by
        have := congrArg List.length hids; simp [ids] at this; omega
      have hnd : (D ++ U).Nodup := hids ▸ wf.nodup
      by_cases hd : 0 ≤ it.diff
      · -- the node at the link is a done node
        have hpD : p < D.length := by rw [hD]; simp [kbOf, hd]; omega
        have hsplit : D = D.take p ++ D[p] :: D.drop (p + 1) := by
          rw [List.getElem_cons_drop, List.take_append_drop]
        have hprog' : LProg I (D.take p ++ D[p] :: D.drop (p + 1)) U vis := hsplit ▸ hprog
        have hnD : (D.take p ++ D[p] :: D.drop (p + 1)).Nodup := hsplit ▸ (List.nodup_append.mp hnd).1
        refine ⟨_, vis, rfl, hI, ?_, hvf, p, D.take p ++ D.drop (p + 1), U, linkPos_eraseAt hp, ?_, ?_, hprog'.rmDone hnD⟩
        · simp only [visited_callDtor]; exact hvis
        · simp only [ids_eraseAt', hids]
          rw [List.take_append_of_le_length (by omega), List.drop_append_of_le_length (by omega)]
          simp
        · simp only [List.length_append, List.length_take, List.length_drop]
          rw [hD] at hpD ⊢
          unfold kbOf at hpD ⊢
          simp only [hd, if_true] at hpD ⊢
          split <;> omega
      · -- the node at the link is the first unvisited node
        have hpD : p = D.length := by rw [hD]; simp [kbOf, hd]
        subst hpD
        have hu : U[0]? = some tmp.id := by
          have : (ids q.chain)[D.length]? = some tmp.id := by rw [ids_getElem?, hsome]; rfl
          rw [hids, List.getElem?_append_right (Nat.le_refl _)] at this
          simpa using this
        obtain ⟨U', rfl⟩ : ∃ U', U = tmp.id :: U' := by
          cases U with
          | nil => simp at hu
          | cons u U' => simp at hu; exact ⟨U', by rw [hu]⟩
        refine ⟨_, vis, rfl, hI, ?_, hvf, D.length, D, U', linkPos_eraseAt hp, ?_, ?_, hprog.rmUnvisited⟩
        · simp only [visited_callDtor]; exact hvis
        · simp only [ids_eraseAt', hids]; simp
        · simp only [kbOf]; rw [if_neg (by omega)]

theorem lvis_itrInsert {eq : Val → Val → Bool} {I V0 : List NodeId} {s : St} (v : Val) (h : LVis I V0 s) :
    LVis I V0 (itrInsert s v).1 := by
  obtain ⟨⟨a, hR⟩, q, vis, ho, hI, hvis, hvf, hitr⟩ := h
  refine ⟨⟨_, (itrInsert_R (eq := eq) v hR).1⟩, ?_⟩
  have wf := R_wf hR ho
  cases hi : s.itr with
  | none =>
    have : itrInsert s v = (s, .int EINVAL) := by
      obtain ⟨obj, itr, log, fault⟩ := s
      simp only at hi; subst hi; simp [itrInsert]
    rw [this]; rw [hi] at hitr
    exact ⟨q, vis, ho, hI, hvis, hvf, by rw [hi]; exact hitr⟩
  | some it =>
    rw [hi] at hitr
    obtain ⟨p, D, U, hp, hids, hD, hprog⟩ := hitr
    rcases itrInsert_cases v ho hi hp with e | e
    · rw [e]; exact ⟨q, vis, ho, hI, hvis, hvf, by rw [hi]; exact ⟨p, D, U, hp, hids, hD, hprog⟩⟩
    · rw [e]
      have hfv : q.fresh ∉ vis := fun hm => Nat.lt_irrefl _ (hvf _ hm)
      have hfI : q.fresh ∉ I := fun hm => Nat.lt_irrefl _ (hI _ hm)
      have hI' : ∀ x ∈ I, x < (insertNode q p v).fresh := fun x hx => Nat.lt_succ_of_lt (hI x hx)
      have hvf' : ∀ x ∈ vis, x < (insertNode q p v).fresh := fun x hx => Nat.lt_succ_of_lt (hvf x hx)
      have hple := linkPos_le hp
      have hlen : D.length + U.length = q.chain.length := by
        have := congrArg List.length hids; simp [ids] at this; omega
      have hidsn : ids (insertNode q p v).chain = (ids q.chain).take p ++ q.fresh :: (ids q.chain).drop p := by
        simp [insertNode, ids_insertAt]
      by_cases hd : 0 ≤ it.diff
      · have hpD : p ≤ D.length := by rw [hD]; simp [kbOf, hd]; omega
        have hprog0 : LProg I (D.take p ++ D.drop p) U vis := by rw [List.take_append_drop]; exact hprog
        refine ⟨_, vis, rfl, hI', hvis, hvf', p, D.take p ++ q.fresh :: D.drop p, U,
          linkPos_insertAt _ hp, ?_, ?_, hprog0.insDone hfv hfI⟩
        · rw [hidsn, hids, List.take_append_of_le_length hpD, List.drop_append_of_le_length hpD]; simp
        · simp only [List.length_append, List.length_take, List.length_cons, List.length_drop]
          rw [hD] at hpD ⊢
          unfold kbOf at hpD ⊢
          have : 0 ≤ it.diff + 1 := by omega
          simp only [hd, this, if_true] at hpD ⊢
          omega
      · have hpD : p = D.length := by rw [hD]; simp [kbOf, hd]
        subst hpD
        by_cases hd1 : it.diff = -1
        · -- the new node is the last done node
          have hprog0 : LProg I (D ++ []) U vis := by rw [List.append_nil]; exact hprog
          refine ⟨_, vis, rfl, hI', hvis, hvf', D.length, D ++ [q.fresh], U,
            linkPos_insertAt _ hp, ?_, ?_, hprog0.insDone hfv hfI⟩
          · rw [hidsn, hids]; simp
          · simp [kbOf, hd1]
        · -- the new node is the first unvisited node
          refine ⟨_, vis, rfl, hI', hvis, hvf', D.length, D, q.fresh :: U,
            linkPos_insertAt _ hp, ?_, ?_, hprog.insUnvisited hfv⟩
          · rw [hidsn, hids]; simp
          · simp only [kbOf]; rw [if_neg (by omega)]

theorem lvis_itrSet {eq : Val → Val → Bool} {I V0 : List NodeId} {s : St} (v : Val) (h : LVis I V0 s) :
    LVis I V0 (itrSet s v).1 := by
  obtain ⟨⟨a, hR⟩, q, vis, ho, hI, hvis, hvf, hitr⟩ := h
  refine ⟨⟨_, (itrSet_R (eq := eq) v hR).1⟩, ?_⟩
  cases hi : s.itr with
  | none =>
    have : itrSet s v = (s, .int EINVAL) := by
      obtain ⟨obj, itr, log, fault⟩ := s
      simp only at hi; subst hi; simp [itrSet]
    rw [this]; rw [hi] at hitr
    exact ⟨q, vis, ho, hI, hvis, hvf, by rw [hi]; exact hitr⟩
  | some it =>
    rw [hi] at hitr
    obtain ⟨p, D, U, hp, hids, hD, hprog⟩ := hitr
    rcases itrSet_cases v ho hi hp with e | e
    · rw [e]; exact ⟨q, vis, ho, hI, hvis, hvf, by rw [hi]; exact ⟨p, D, U, hp, hids, hD, hprog⟩⟩
    · rw [e]
      refine ⟨_, vis, rfl, hI, hvis, hvf, ?_⟩
      simp only [hi, linkPos_setAt, ids_setAt]
      exact ⟨p, D, U, hp, hids, hD, hprog⟩

/-- calls that may be made while an iteration is in progress and do not restart or abandon it -/
def Op.inIteration : Op → Bool
  | .itNext | .itGet | .itSet _ | .itRm | .itIns _ | .find _ | .len | .iterate _ => true
  | _ => false

theorem lvis_step (eq : Val → Val → Bool) {I V0 : List NodeId} {s : St} (o : Op) (h : LVis I V0 s)
    (ho : o.inIteration = true) : LVis I V0 (step eq s o).1 := by
  obtain ⟨a, hR⟩ := h.1
  cases o with
  | itNext => exact lvis_itrNext (eq := eq) h
  | itGet => simp only [step]; rw [itrGet_state hR]; exact h
  | itSet v => exact lvis_itrSet (eq := eq) v h
  | itRm => exact lvis_itrRemove (eq := eq) h
  | itIns v => exact lvis_itrInsert (eq := eq) v h
  | find v => simp only [step]; rw [find_state eq v hR]; exact h
  | len => exact h
  | iterate k =>
    have := iterate_state s k
    exact lvis_same h (iterate_R k hR).1 this.1 this.2.1 this.2.2
  | ins v => simp [Op.inIteration] at ho
  | rm v => simp [Op.inIteration] at ho
  | clear => simp [Op.inIteration] at ho
  | free => simp [Op.inIteration] at ho
  | itNew => simp [Op.inIteration] at ho

theorem lvis_run (eq : Val → Val → Bool) {I V0 : List NodeId} : ∀ (ops : List Op) {s : St}, LVis I V0 s →
    ops.all Op.inIteration = true → LVis I V0 (run eq s ops)
  | [], _, h, _ => h
  | o :: os, s, h, ha => by
    simp only [List.all_cons, Bool.and_eq_true] at ha
    exact lvis_run eq os (lvis_step eq o h ha.1) ha.2

/-- what the invariant says in the terms of the theorems -/
theorem LVis.result {I V0 : List NodeId} {s : St} (h : LVis I V0 s) :
    ∃ vis q, visited s.log = V0 ++ vis ∧ s.obj = some q ∧ vis.Nodup ∧
      (s.itr = none →
        (∀ x ∈ ids q.chain, x ∈ I → x ∈ vis) ∧
        (ids q.chain).filter (fun x => decide (x ∈ vis)) = vis.filter (fun x => decide (x ∈ ids q.chain))) := by
  obtain ⟨_, q, vis, ho, _, hvis, _, hitr⟩ := h
  cases hi : s.itr with
  | none =>
    rw [hi] at hitr
    refine ⟨vis, q, hvis, ho, hitr.nodupV, fun _ => ⟨?_, hitr.order⟩⟩
    intro x hx hxI
    rcases hitr.done x hx with h1 | h1
    · exact h1
    · exact absurd hxI h1
  | some it =>
    rw [hi] at hitr
    obtain ⟨p, D, U, _, _, _, hprog⟩ := hitr
    exact ⟨vis, q, hvis, ho, hprog.nodupV, fun h => nomatch h⟩

end ListM
end Lm.Struct
