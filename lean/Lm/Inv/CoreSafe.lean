import Lm.Inv.CoreInv
/-!
# Every library program keeps `Inv` and `Mono` — for every callback program

A small Hoare logic on top of `wpA`: `Triple P p Q` — started in an `Inv`-state satisfying `P` (and
`Mono`-later than the anchor), `p` keeps `Inv`/`Mono` at each suspension and at its end, where `Q`
holds; after a callback only `Inv`, `Mono` and what `Mono` preserves may be assumed.
-/
namespace Lm.Core

def Triple {α} (P : St → Prop) (p : Prog α) (Q : α → St → Prop) : Prop :=
  ∀ a s, Inv s → Mono a s → P s → wpA Inv Mono p (fun x s' => Inv s' ∧ Mono a s' ∧ Q x s') a s

abbrev Spec {α} (p : Prog α) : Prop := Triple (fun _ => True) p (fun _ _ => True)

theorem Triple.ret {α} {P : St → Prop} (x : α) : Triple P (pure x : Prog α) (fun y s => y = x ∧ P s) :=
  fun _ _ hI hM hP => ⟨hI, hM, rfl, hP⟩

theorem Triple.bind {α β} {P} {p : Prog α} {Q} {f : α → Prog β} {R}
    (hp : Triple P p Q) (hf : ∀ x, Triple (Q x) (f x) R) : Triple P (p >>= f) R := by
  intro a s hI hM hP
  rw [wpA_bind']
  exact wpA_mono _ _ _ _ _ _ _ (fun x s' h => hf x a s' h.1 h.2.1 h.2.2) (hp a s hI hM hP)

theorem Triple.weaken {α} {P P' : St → Prop} {p : Prog α} {Q Q' : α → St → Prop}
    (h : Triple P p Q) (hP : ∀ s, Inv s → P' s → P s) (hQ : ∀ x s, Inv s → Q x s → Q' x s) : Triple P' p Q' := by
  intro a s hI hM hP'
  exact wpA_mono _ _ _ _ _ _ _ (fun x s' h => ⟨h.1, h.2.1, hQ x s' h.1 h.2.2⟩) (h a s hI hM (hP s hI hP'))

theorem Triple.get {P : St → Prop} : Triple P getSt (fun x s => x = s ∧ P s) :=
  fun _ _ hI hM hP => ⟨hI, hM, rfl, hP⟩

theorem Triple.mod {P : St → Prop} {Q : Unit → St → Prop} (g : St → St)
    (h : ∀ s, Inv s → P s → Inv (g s) ∧ (∀ a, Mono a s → Mono a (g s)) ∧ Q () (g s)) : Triple P (modify g) Q :=
  fun a s hI hM hP => ⟨(h s hI hP).1, (h s hI hP).2.1 a hM, (h s hI hP).2.2⟩

theorem Triple.set {P : St → Prop} {Q : Unit → St → Prop} (x : St)
    (h : ∀ s, Inv s → P s → Inv x ∧ (∀ a, Mono a s → Mono a x) ∧ Q () x) : Triple P (setSt x) Q :=
  fun a s hI hM hP => ⟨(h s hI hP).1, (h s hI hP).2.1 a hM, (h s hI hP).2.2⟩

/-- a user callback: afterwards, only what `Mono` preserves from the state at the call is known -/
theorem Triple.call {P : St → Prop} (cb m e) :
    Triple P (callCb cb m e) (fun _ s' => ∃ s0, P s0 ∧ Inv s0 ∧ Mono s0 s') :=
  fun _ s hI hM hP => ⟨hI, hM, fun _ s' hI' hM' => ⟨hI', Mono.trans hM hM', s, hP, hI, hM'⟩⟩

theorem Triple.ite {α} (c : Prop) [Decidable c] {P} {p q : Prog α} {Q}
    (hp : c → Triple P p Q) (hq : ¬c → Triple P q Q) : Triple P (if c then p else q) Q := by
  by_cases h : c
  · simp only [h, if_true]; exact hp h
  · simp only [h, if_false]; exact hq h

/-- a quiet state update keeps everything that only depends on the life-cycle view -/
theorem Triple.quiet {P : St → Prop} (g : St → St) (hg : Quiet g) (hP : ∀ s, P s → P (g s)) :
    Triple P (modify g) (fun _ s => P s) :=
  Triple.mod g fun s hI hp => ⟨Inv.congr (hg.sigs s) (hg.ctx s) (hg.next s) hI (hg.trans s), fun _ hM => Mono.congr_right (hg.sigs s) hM, hP s hp⟩

/-- facts about the life-cycle view that quiet updates and `curr_mod` updates preserve -/
def ViewP (F : List Sig → Prop) : St → Prop := fun s => F s.sigs

theorem quiet_setCurrOf_sigs (m x) (s : St) : (setCurrOf m x s).sigs = s.sigs := by simp

theorem Triple.setCurr {F : List Sig → Prop} (m x) : Triple (ViewP F) (modify (setCurrOf m x)) (fun _ => ViewP F) :=
  Triple.mod _ fun s hI hp => ⟨Inv.setCurrOf m x hI, fun _ hM => Mono.congr_right (by simp) hM, by simpa [ViewP] using hp⟩


/-- predicates on the life-cycle view that survive everything the environment may do -/
structure Stable (R : St → Prop) : Prop where
  view : ∀ s s', s'.sigs = s.sigs → R s → R s'
  mono : ∀ s s', Mono s s' → R s → R s'

theorem Stable.true : Stable (fun _ => True) := ⟨fun _ _ _ _ => trivial, fun _ _ _ _ => trivial⟩

/-- module `m` has left its context's table (final) -/
def OutOf (m : ModId) : St → Prop := fun s => ∃ g : Sig, s.sigs[m]? = some g ∧ g.inCtx = false

theorem Stable.outOf (m : ModId) : Stable (OutOf m) := by
  refine ⟨fun s s' h ⟨g, hg, hi⟩ => ⟨g, by rw [h]; exact hg, hi⟩, fun s s' hM ⟨g, hg, hi⟩ => ?_⟩
  obtain ⟨g', e, i, _⟩ := hM m g hg
  exact ⟨g', e, i hi⟩

/-- one state update that is monotone -/
theorem Triple.step {P Q R : St → Prop} (hR : Stable R) (g : St → St)
    (h : ∀ s, Inv s → P s → R s → Inv (g s) ∧ Mono s (g s) ∧ Q (g s)) :
    Triple (fun s => P s ∧ R s) (Lm.Core.modify g) (fun _ s => Q s ∧ R s) :=
  Triple.mod g fun s hI hp =>
    have := h s hI hp.1 hp.2
    ⟨this.1, fun _ hM => Mono.trans hM this.2.1, this.2.2, hR.mono _ _ this.2.1 hp.2⟩

theorem Triple.quietR {P R : St → Prop} (hR : Stable R) (g : St → St) (hg : Quiet g) (hP : ∀ s, P s → P (g s)) :
    Triple (fun s => P s ∧ R s) (Lm.Core.modify g) (fun _ s => P s ∧ R s) :=
  Triple.mod g fun s hI hp => ⟨Inv.congr (hg.sigs s) (hg.ctx s) (hg.next s) hI (hg.trans s), fun _ hM => Mono.congr_right (hg.sigs s) hM,
    hP s hp.1, hR.view _ _ (hg.sigs s) hp.2⟩

theorem Triple.callR {R : St → Prop} (hR : Stable R) (cb m e) : Triple R (callCb cb m e) (fun _ => R) :=
  Triple.weaken (Triple.call (P := R) cb m e) (fun _ _ h => h) (fun _ s _ ⟨s0, h0, _, hM⟩ => hR.mono s0 s hM h0)

theorem Mono_of_sigs {s s' : St} (h : s'.sigs = s.sigs) : Mono s s' := Mono.congr_right h (Mono.refl s)

/-- `optional_hook` keeps every stable fact -/
theorem optionalHook_triple {R : St → Prop} (hR : Stable R) (m : ModId) (cb : Cb) (present : Bool) :
    Triple R (optionalHook m cb present) (fun _ => R) := by
  unfold optionalHook
  refine Triple.bind Triple.get fun s => ?_
  refine Triple.bind (Q := fun _ => R) ?_ fun _ => ?_
  · exact Triple.mod _ fun s' hI hp => ⟨Inv.setCurrOf _ _ hI, fun _ hM => Mono.congr_right (by simp) hM,
      hR.view _ _ (by simp) hp.2⟩
  refine Triple.bind (Q := fun _ => R) ?_ fun b => ?_
  · apply Triple.ite
    · intro _; exact Triple.callR hR _ _ _
    · intro _; exact Triple.weaken (Triple.ret true) (fun _ _ h => h) (fun _ _ _ h => h.2)
  refine Triple.bind (Q := fun _ => R) ?_ fun _ => ?_
  · exact Triple.mod _ fun s' hI hp => ⟨Inv.setCurrOf _ _ hI, fun _ hM => Mono.congr_right (by simp) hM,
      hR.view _ _ (by simp) hp⟩
  refine Triple.bind Triple.get fun s' => ?_
  apply Triple.ite
  · intro _; exact Triple.weaken (Triple.ret _) (fun _ _ h => h) (fun _ _ _ h => h.2.2)
  · intro _; exact Triple.weaken (Triple.ret _) (fun _ _ h => h) (fun _ _ _ h => h.2.2)


theorem Triple.retR {α} {P R : St → Prop} (x : α) (h : ∀ s, P s → R s) : Triple P (pure x : Prog α) (fun _ => R) :=
  Triple.weaken (Triple.ret x) (fun _ _ h => h) (fun _ s _ hp => h s hp.2)

theorem Triple.quietS {R : St → Prop} (hR : Stable R) (g : St → St) (hg : Quiet g) :
    Triple R (Lm.Core.modify g) (fun _ => R) :=
  Triple.mod g fun s hI hp => ⟨Inv.congr (hg.sigs s) (hg.ctx s) (hg.next s) hI (hg.trans s), fun _ hM => Mono.congr_right (hg.sigs s) hM,
    hR.view _ _ (hg.sigs s) hp⟩

/-- the state the module leaves makes the change a documented edge: pause only from RUNNING; stop from RUNNING or PAUSED
(a repeated stop of a STOPPED module changes nothing), or from any state as the first half of a deregistration -/
def StopEdge (g : Sig) (stopping leave : Bool) : Prop :=
  (stopping = false → g.state = .running) ∧
  (stopping = true → leave = true ∨ g.state = .running ∨ g.state = .paused ∨ g.state = .stopped)

/-- `stop(mod, stopping[, leave])`: for a module that is not a ZOMBIE (and, when pausing, is in its context).
When `leave` is set the module is out of the table afterwards. -/
theorem stopP_triple {R : St → Prop} (hR : Stable R) (m : ModId) (stopping leave : Bool) :
    Triple (fun s => R s ∧ ∃ g : Sig, s.sigs[m]? = some g ∧ g.state ≠ .zombie ∧ (stopping = false → g.inCtx = true ∧ leave = false) ∧
        StopEdge g stopping leave)
      (stopP m stopping leave) (fun _ s => R s ∧ (leave = true → OutOf m s)) := by
  unfold stopP
  refine Triple.bind (Q := fun _ s => R s ∧ ∃ g : Sig, s.sigs[m]? = some g ∧ g.state ≠ .zombie ∧ (stopping = false → g.inCtx = true ∧ leave = false) ∧
        StopEdge g stopping leave) ?_ fun _ => ?_
  · exact Triple.mod _ fun s hI hp =>
      have q := quiet_manageSrcsRm m stopping
      ⟨Inv.congr (q.sigs s) (q.ctx s) (q.next s) hI (q.trans s), fun _ hM => Mono.congr_right (q.sigs s) hM, hR.view _ _ (q.sigs s) hp.1,
        by rw [q.sigs s]; exact hp.2⟩
  have hS : Stable (fun s => R s ∧ (leave = true → OutOf m s)) :=
    ⟨fun s s' h hp => ⟨hR.view _ _ h hp.1, fun hl => (Stable.outOf m).view _ _ h (hp.2 hl)⟩,
     fun s s' h hp => ⟨hR.mono _ _ h hp.1, fun hl => (Stable.outOf m).mono _ _ h (hp.2 hl)⟩⟩
  refine Triple.bind (Q := fun _ s => R s ∧ (leave = true → OutOf m s)) ?_ fun _ => ?_
  · refine Triple.mod _ fun s hI hp => ?_
    obtain ⟨hr, g, hg, hz, hin, hedge⟩ := hp
    have hx : (if stopping = true then MState.stopped else MState.paused) = .stopped ∨
        ((if stopping = true then MState.stopped else MState.paused) = .paused ∧ g.inCtx = true ∧ leave = false) := by
      cases stopping with
      | true => left; rfl
      | false => right; exact ⟨rfl, (hin rfl).1, (hin rfl).2⟩
    have hinv := inv_stop s m g _ leave hI hg hx ⟨hz, fun h => hedge.1 (by cases stopping <;> simp_all),
      fun h => hedge.2 (by cases stopping <;> simp_all)⟩
    have hsig := stopStep_sigs s m g (if stopping = true then MState.stopped else MState.paused) leave hg
    have hmono : Mono s (stopStep s m (if stopping = true then MState.stopped else MState.paused) leave) :=
      Mono_set s s _ m g _ (Mono.refl s) hg hsig (fun h => by cases leave <;> simp [Sig.stopped, h])
        (fun h => absurd h hz) rfl rfl rfl rfl rfl
    refine ⟨hinv, fun _ hM => Mono.trans hM hmono, hR.mono _ _ hmono hr, fun hl => ?_⟩
    have hlt : m < s.sigs.length := (List.getElem?_eq_some_iff.mp hg).1
    exact ⟨g.stopped (if stopping = true then MState.stopped else MState.paused) leave, by rw [hsig]; simp [hlt], by simp [Sig.stopped, hl]⟩
  refine Triple.bind Triple.get fun s => ?_
  refine Triple.bind (Q := fun _ s => R s ∧ (leave = true → OutOf m s)) ?_ fun ret => ?_
  · apply Triple.ite
    · intro _
      refine Triple.bind (Q := fun _ s => R s ∧ (leave = true → OutOf m s)) ?_ fun _ => optionalHook_triple hS _ _ _
      exact Triple.weaken (Triple.quietS hS _ (quiet_resetModule m)) (fun _ _ h => h.2) (fun _ _ _ h => h)
    · intro _; exact Triple.retR _ (fun _ h => h.2)
  apply Triple.ite
  · intro _; exact Triple.retR _ (fun _ h => h)
  · intro _
    refine Triple.bind (Q := fun _ s => R s ∧ (leave = true → OutOf m s)) (Triple.quietS hS _ (quiet_tellSystem _ _ _ _)) fun _ => ?_
    exact Triple.retR _ (fun _ h => h)

theorem sig_of_stateIs (s : St) (m : ModId) (x : MState) (h : stateIs s m x = true) :
    ∃ g : Sig, s.sigs[m]? = some g ∧ g.state = x := by
  unfold stateIs at h
  cases hm : s.mods[m]? with
  | none => simp [hm] at h
  | some md =>
    simp [hm] at h
    exact ⟨md.sig, by rw [sigs_getElem?, hm]; rfl, h⟩

theorem sig_of_isRP (s : St) (m : ModId) (h : isRP s m = true) :
    ∃ g : Sig, s.sigs[m]? = some g ∧ (g.state = .running ∨ g.state = .paused) := by
  unfold isRP at h
  simp only [Bool.or_eq_true] at h
  rcases h with h | h
  · obtain ⟨g, hg, hs⟩ := sig_of_stateIs s m _ h; exact ⟨g, hg, Or.inl hs⟩
  · obtain ⟨g, hg, hs⟩ := sig_of_stateIs s m _ h; exact ⟨g, hg, Or.inr hs⟩

/-- `start(mod, starting)`: for a module of the table that is neither RUNNING nor a ZOMBIE -/
theorem startP_triple {R : St → Prop} (hR : Stable R) (m : ModId) (starting : Bool) :
    Triple (fun s => R s ∧ ∃ g : Sig, s.sigs[m]? = some g ∧ g.state ≠ .running ∧ g.state ≠ .zombie ∧ g.inCtx = true)
      (startP m starting) (fun _ => R) := by
  unfold startP
  have qv : ∀ (g : St → St), Quiet g →
      Triple (fun s => R s ∧ ∃ g : Sig, s.sigs[m]? = some g ∧ g.state ≠ .running ∧ g.state ≠ .zombie ∧ g.inCtx = true)
        (Lm.Core.modify g)
        (fun _ s => R s ∧ ∃ g : Sig, s.sigs[m]? = some g ∧ g.state ≠ .running ∧ g.state ≠ .zombie ∧ g.inCtx = true) :=
    fun g q => Triple.mod _ fun s hI hp =>
      ⟨Inv.congr (q.sigs s) (q.ctx s) (q.next s) hI (q.trans s), fun _ hM => Mono.congr_right (q.sigs s) hM, hR.view _ _ (q.sigs s) hp.1,
        by rw [q.sigs s]; exact hp.2⟩
  refine Triple.bind (qv _ (Quiet.ite _ (quiet_updMod m _ (fun md => rfl)) Quiet.id)) fun _ => ?_
  refine Triple.bind (qv _ (quiet_manageSrcsAdd m)) fun _ => ?_
  refine Triple.bind (Q := fun _ => R) ?_ fun _ => ?_
  · refine Triple.mod _ fun s hI hp => ?_
    obtain ⟨hr, g, hg, hnr, hz, hin⟩ := hp
    have hinv := inv_start s m g hI hg hnr hin hz
    have hsig : (setState (s.updCtxId (s.ctxIdOf m) (fun c => { c with running := c.running + 1 })) m .running).sigs
        = s.sigs.set m (g.setState .running) := by
      rw [setState_sigs]; simp [hg]
    have hmono : Mono s (setState (s.updCtxId (s.ctxIdOf m) (fun c => { c with running := c.running + 1 })) m .running) :=
      Mono_set s s _ m g _ (Mono.refl s) hg hsig (fun h => h) (fun h => absurd h hz) rfl rfl rfl rfl rfl
    exact ⟨hinv, fun _ hM => Mono.trans hM hmono, hR.mono _ _ hmono hr⟩
  refine Triple.bind Triple.get fun s => ?_
  refine Triple.bind (Q := fun _ => R) ?_ fun ret => ?_
  · apply Triple.ite
    · intro _; exact Triple.weaken (optionalHook_triple hR _ _ _) (fun _ _ h => h.2) (fun _ _ _ h => h)
    · intro _; exact Triple.retR _ (fun _ h => h.2)
  apply Triple.ite
  · intro _
    refine Triple.bind (Q := fun _ => R) (Triple.quietS hR _ (quiet_tellSystem _ _ _ _)) fun _ => ?_
    exact Triple.retR _ (fun _ h => h)
  · intro _
    apply Triple.ite
    · intro _
      refine Triple.bind Triple.get fun s' => ?_
      apply Triple.ite
      · intro hrp
        refine Triple.bind (Q := fun _ => R) ?_ fun _ => Triple.retR _ (fun _ h => h)
        refine Triple.weaken (stopP_triple hR m true false) ?_ (fun _ _ _ h => h.1)
        intro st _ ⟨he, hr⟩
        subst he
        obtain ⟨g, hg, hs⟩ := sig_of_isRP _ m hrp
        refine ⟨hr, g, hg, ?_, (fun h => by cases h), ⟨(fun h => by cases h), fun _ => by rcases hs with h | h <;> simp [h]⟩⟩
        rcases hs with h | h <;> (rw [h]; decide)
      · intro _; exact Triple.retR _ (fun _ h => h.2)
    · intro _; exact Triple.retR _ (fun _ h => h)

/-- `evaluate_module` -/
theorem evaluateP_triple {R : St → Prop} (hR : Stable R) (m : ModId) : Triple R (evaluateP m) (fun _ => R) := by
  unfold evaluateP
  refine Triple.bind Triple.get fun s => ?_
  apply Triple.ite
  · intro _
    refine Triple.bind (Q := fun _ => R) ?_ fun r => ?_
    · exact Triple.weaken (optionalHook_triple hR _ _ _) (fun _ _ h => h.2) (fun _ _ _ h => h)
    refine Triple.bind Triple.get fun s' => ?_
    apply Triple.ite
    · intro hc
      refine Triple.bind (Q := fun _ => R) ?_ fun _ => Triple.retR _ (fun _ h => h)
      refine Triple.weaken (startP_triple hR m true) ?_ (fun _ _ _ h => h)
      intro st hI ⟨he, hr⟩
      subst he
      simp only [Bool.and_eq_true] at hc
      obtain ⟨g, hg, hs⟩ := sig_of_stateIs _ m _ hc.2
      refine ⟨hr, g, hg, by rw [hs]; decide, by rw [hs]; decide, ?_⟩
      -- an IDLE module is still in the table
      cases hin : g.inCtx with
      | true => rfl
      | false =>
        rcases hI.out m g hg hin with h | h <;> (rw [hs] at h; cases h)
    · intro _; exact Triple.retR _ (fun _ h => h.2)
  · intro _; exact Triple.retR _ (fun _ h => h.2)


/-- `call_pubsub_cb` -/
theorem callPubsubCb_triple {R : St → Prop} (hR : Stable R) (m : ModId) (evts : List Evt) :
    Triple R (callPubsubCb m evts) (fun _ => R) := by
  unfold callPubsubCb
  apply Triple.ite
  · intro _; exact Triple.retR _ (fun _ h => h)
  · intro _
    refine Triple.bind Triple.get fun s => ?_
    refine Triple.bind (Q := fun _ => R) ?_ fun _ => ?_
    · exact Triple.mod _ fun s' hI hp => ⟨Inv.setCurrOf _ _ hI, fun _ hM => Mono.congr_right (by simp) hM,
        hR.view _ _ (by simp) hp.2⟩
    refine Triple.bind (Q := fun _ => R) (Triple.callR hR _ _ _) fun _ => ?_
    refine Triple.bind (Q := fun _ => R) (Triple.quietS hR _ (quiet_updMod m _ (fun md => rfl))) fun _ => ?_
    refine Triple.bind (Q := fun _ => R) ?_ fun _ => ?_
    · exact Triple.mod _ fun s' hI hp => ⟨Inv.setCurrOf _ _ hI, fun _ hM => Mono.congr_right (by simp) hM,
        hR.view _ _ (by simp) hp⟩
    refine Triple.quietS hR _ ?_
    apply Quiet.pointwise'
    intro s'
    exact ⟨_, quiet_destroyEvts evts (s'.mods.flatMap (·.stash)), rfl⟩

theorem quiet_pushEvtStore (m : ModId) (e : Evt) : Quiet (fun s => pushEvtStore s m e) := by
  apply Quiet.pointwise'
  intro s
  unfold pushEvtStore
  by_cases h1 : (srcRole s e != .user) = true
  · simp only [h1, if_true]
    by_cases h2 : (srcRole s e == .tbTimer) = true
    · simp only [h2, if_true]
      refine ⟨_, quiet_updMod m _ (fun md => ?_), rfl⟩
      cases md.tb with
      | none => rfl
      | some tb => simp only; split <;> rfl
    · simp only [h2]; exact ⟨_, Quiet.id, rfl⟩
  · simp only [h1, Bool.false_eq_true, if_false]
    exact ⟨fun s0 => s0.updMod m (fun md => { md with batch := md.batch ++ [stampEvt s e] }), quiet_updMod m _ (fun md => rfl), rfl⟩

/-- `push_evt` -/
theorem pushEvtP_triple {R : St → Prop} (hR : Stable R) (m : ModId) (e : Evt) :
    Triple R (pushEvtP m e) (fun _ => R) := by
  unfold pushEvtP
  refine Triple.bind Triple.get fun s => ?_
  refine Triple.bind (Q := fun _ => R) ?_ fun _ => ?_
  · exact Triple.weaken (Triple.quietS hR _ (quiet_pushEvtStore m e)) (fun _ _ h => h.2) (fun _ _ _ h => h)
  apply Triple.ite
  · intro _; exact Triple.retR _ (fun _ h => h)
  · intro _
    refine Triple.bind Triple.get fun s' => ?_
    cases hm : s'.mods[m]? with
    | none => exact Triple.retR _ (fun _ h => h.2)
    | some md =>
      simp only
      apply Triple.ite
      · intro _; exact Triple.retR _ (fun _ h => h.2)
      · intro _
        apply Triple.ite
        · intro _
          refine Triple.bind (Q := fun _ => R) ?_ fun _ => callPubsubCb_triple hR _ _
          exact Triple.weaken (Triple.quietS hR _ (quiet_updMod m _ (fun md => rfl))) (fun _ _ h => h.2) (fun _ _ _ h => h)
        · intro _; exact Triple.retR _ (fun _ h => h.2)


theorem sig_of_mod (s : St) (m : ModId) (md : Mod) (h : s.mods[m]? = some md) : s.sigs[m]? = some md.sig := by
  rw [sigs_getElem?, h]; rfl

/-- `mod_deregister`: any stable fact survives, given that the auto-release program keeps it -/
theorem modDeregCore_triple {R : St → Prop} (hR : Stable R) (ar : Prog Int) (har : Triple R ar (fun _ => R)) (m : ModId) :
    Triple R (modDeregCore ar m) (fun _ => R) := by
  unfold modDeregCore
  refine Triple.bind Triple.get fun s => ?_
  cases hma : modAssert s m with
  | some e => exact Triple.retR _ (fun _ h => h.2)
  | none =>
    simp only
    cases hmd : s.mods[m]? with
    | none => exact Triple.retR _ (fun _ h => h.2)
    | some md =>
      cases hc : s.ctx with
      | none => exact Triple.retR _ (fun _ h => h.2)
      | some c =>
        simp only
        apply Triple.ite
        · intro _; exact Triple.retR _ (fun _ h => h.2)
        · intro _
          apply Triple.ite
          · intro _; exact Triple.retR _ (fun _ h => h.2)
          · intro _
            refine Triple.bind (Q := fun _ s' => R s' ∧ OutOf m s') ?_ fun _ => ?_
            · refine Triple.weaken (stopP_triple hR m true true) ?_ (fun _ _ _ h => ⟨h.1, h.2 rfl⟩)
              intro st _ ⟨he, hr⟩
              subst he
              refine ⟨hr, md.sig, sig_of_mod _ m md hmd, ?_, (fun h => by cases h), ⟨(fun h => by cases h), fun _ => Or.inl rfl⟩⟩
              -- not a ZOMBIE: `M_MOD_ASSERT` passed
              unfold modAssert at hma
              simp only [hmd] at hma
              intro hz
              have : (md.state == MState.zombie) = true := by simpa [Mod.sig] using hz
              simp [this] at hma
            refine Triple.bind (Q := fun _ => R) ?_ fun _ => ?_
            · refine Triple.mod _ fun st hI hp => ?_
              obtain ⟨hr, g, hg, hout⟩ := hp
              have hnr : g.state ≠ .running := by
                rcases hI.out m g hg hout with h | h <;> (rw [h]; decide)
              have hsig : (setState st m .zombie).sigs = st.sigs.set m (g.setState .zombie) := by
                rw [setState_sigs]; simp [hg]
              have hmono : Mono st (setState st m .zombie) :=
                Mono_set st st _ m g _ (Mono.refl st) hg hsig (fun h => h) (fun _ => rfl) rfl rfl rfl rfl rfl
              exact ⟨inv_zombie st m g hI hg hnr, fun _ hM => Mono.trans hM hmono, hR.mono _ _ hmono hr⟩
            refine Triple.bind Triple.get fun s' => ?_
            cases s'.ctx with
            | none => exact Triple.retR _ (fun _ h => h.2)
            | some c' =>
              simp only
              apply Triple.ite
              · intro _; exact Triple.weaken har (fun _ _ h => h.2) (fun _ _ _ h => h)
              · intro _; exact Triple.retR _ (fun _ h => h.2)

/-- `m_map_iterate` over the module table -/
theorem unmodelled_triple {R : St → Prop} (hR : Stable R) (w : String) : Triple R (unmodelled w) (fun _ => R) := by
  unfold unmodelled
  exact Triple.bind (Q := fun _ => R) (Triple.quietS hR _ (quiet_emit _)) fun _ => Triple.retR _ (fun _ h => h)

theorem iterSlots_triple {R : St → Prop} (hR : Stable R) (f : ModId → Prog Int) (hf : ∀ m, Triple R (f m) (fun _ => R)) :
    ∀ (slots : List (Nat × Bool)) (again : Option Nat), Triple R (iterSlots f slots again) (fun _ => R) := by
  intro slots
  induction slots with
  | nil => intro again; unfold iterSlots; exact Triple.retR _ (fun _ h => h)
  | cons hd rest ih =>
    intro again
    obtain ⟨i, isRepeat⟩ := hd
    unfold iterSlots
    apply Triple.ite
    · intro _; exact ih again
    · intro _
      refine Triple.bind Triple.get fun s => ?_
      cases s.modAtSlot i with
      | none => exact Triple.weaken (ih none) (fun _ _ h => h.2) (fun _ _ _ h => h)
      | some m =>
        simp only
        refine Triple.bind (Q := fun _ => R) (Triple.weaken (hf m) (fun _ _ h => h.2) (fun _ _ _ h => h)) fun rc => ?_
        apply Triple.ite
        · intro _; exact Triple.retR _ (fun _ h => h)
        · intro _
          apply Triple.ite
          · intro _; exact Triple.retR _ (fun _ h => h)
          · intro _
            refine Triple.bind Triple.get fun s' => ?_
            apply Triple.ite
            · intro _
              apply Triple.ite
              · intro _; exact Triple.weaken (unmodelled_triple hR _) (fun _ _ h => h.2) (fun _ _ _ h => h)
              · intro _; exact Triple.weaken (ih (some i)) (fun _ _ h => h.2) (fun _ _ _ h => h)
            · intro _
              apply Triple.ite
              · intro _; exact Triple.retR _ (fun _ h => h.2)
              · intro _; exact Triple.weaken (ih none) (fun _ _ h => h.2) (fun _ _ _ h => h)

theorem iterMods_triple {R : St → Prop} (hR : Stable R) (f : ModId → Prog Int) (hf : ∀ m, Triple R (f m) (fun _ => R)) :
    Triple R (iterMods f) (fun _ => R) := by
  unfold iterMods
  refine Triple.bind Triple.get fun s => ?_
  apply Triple.ite
  · intro _; exact Triple.retR _ (fun _ h => h.2)
  · intro _
    refine Triple.weaken (iterSlots_triple hR _ (fun m => ?_) _ _) (fun _ _ h => h.2) (fun _ _ _ h => h)
    refine Triple.bind (Q := fun _ => R) (hf m) fun r => ?_
    refine Triple.bind Triple.get fun s' => ?_
    cases s'.ctx with
    | none => exact Triple.retR _ (fun _ h => h.2)
    | some c' =>
      simp only
      apply Triple.ite
      · intro _
        refine Triple.bind (Q := fun _ => R) ?_ fun _ => Triple.retR _ (fun _ h => h)
        exact Triple.weaken (unmodelled_triple hR _) (fun _ _ h => h.2) (fun _ _ _ h => h)
      · intro _; exact Triple.retR _ (fun _ h => h.2)

theorem destroyLoop_triple {R : St → Prop} (hR : Stable R) : ∀ n, Triple R (destroyLoop n) (fun _ => R) := by
  intro n
  induction n with
  | zero => unfold destroyLoop; exact Triple.retR _ (fun _ h => h)
  | succ n ih =>
    unfold destroyLoop
    refine Triple.bind Triple.get fun s => ?_
    apply Triple.ite
    · intro _; exact Triple.retR _ (fun _ h => h.2)
    · intro _
      refine Triple.bind (Q := fun _ => R) ?_ fun r => ?_
      · refine Triple.weaken (iterMods_triple hR _ fun m => modDeregCore_triple hR _ (Triple.retR _ (fun _ h => h)) m)
          (fun _ _ h => h.2) (fun _ _ _ h => h)
      apply Triple.ite
      · intro _; exact Triple.retR _ (fun _ h => h)
      · intro _; exact ih


/-- a context update that touches neither identity nor running counter -/
theorem Triple.updCtx {R : St → Prop} (hR : Stable R) (f : Ctx → Ctx) (hid : ∀ c, (f c).id = c.id)
    (hrun : ∀ c, (f c).running = c.running) : Triple R (Lm.Core.modify fun s => s.updCtx f) (fun _ => R) :=
  Triple.mod _ fun s hI hp => ⟨inv_updCtx s f hid hrun hI, fun _ hM => Mono.congr_right (by simp) hM, hR.view _ _ (by simp) hp⟩

/-- `m_ctx_deregister` -/
theorem ctxDeregisterP_triple {R : St → Prop} (hR : Stable R) : Triple R ctxDeregisterP (fun _ => R) := by
  unfold ctxDeregisterP
  refine Triple.bind Triple.get fun s => ?_
  cases mctx s with
  | none => exact Triple.retR _ (fun _ h => h.2)
  | some c =>
    simp only
    apply Triple.ite
    · intro _; exact Triple.retR _ (fun _ h => h.2)
    · intro _
      apply Triple.ite
      · intro _; exact Triple.retR _ (fun _ h => h.2)
      · intro _
        refine Triple.bind (Q := fun _ => R) ?_ fun _ => ?_
        · exact Triple.weaken (Triple.updCtx hR _ (fun _ => rfl) (fun _ => rfl)) (fun _ _ h => h.2) (fun _ _ _ h => h)
        refine Triple.bind (Q := fun _ => R) (destroyLoop_triple hR _) fun _ => ?_
        refine Triple.bind (Q := fun _ => R) ?_ fun _ => Triple.retR _ (fun _ h => h)
        exact Triple.mod _ fun st hI hp => ⟨inv_ctx_none st _ hI, fun _ hM => Mono.congr_right rfl hM, hR.view st _ rfl hp⟩

theorem modDeregisterP_triple {R : St → Prop} (hR : Stable R) (m : ModId) : Triple R (modDeregisterP m) (fun _ => R) :=
  modDeregCore_triple hR _ (ctxDeregisterP_triple hR) m

theorem quiet_consumeOneshot (m : ModId) (md : Mod) (msg : Msg) : Quiet (fun s => consumeOneshot s m md msg) := by
  apply Quiet.pointwise0
  intro s
  unfold consumeOneshot
  split
  · split
    · split
      · exact ⟨_, quiet_removeSrc m _, rfl⟩
      · exact ⟨_, Quiet.id, rfl⟩
    · exact ⟨_, Quiet.id, rfl⟩
  · exact ⟨_, Quiet.id, rfl⟩

theorem quiet_flushStep (m : ModId) (x : Msg) : Quiet (fun s => flushStep m s x) := by
  apply Quiet.pointwise0
  intro s
  unfold flushStep
  split
  · split
    · exact ⟨_, quiet_destroyMsg x, rfl⟩
    · exact ⟨_, quiet_consumeOneshot m _ x, rfl⟩
  · exact ⟨_, Quiet.id, rfl⟩

/-- loop-stop flush of one module -/
theorem flushModP_triple {R : St → Prop} (hR : Stable R) (m : ModId) : Triple R (flushModP m) (fun _ => R) := by
  unfold flushModP
  refine Triple.bind Triple.get fun s => ?_
  cases hmd : s.mods[m]? with
  | none => exact Triple.retR _ (fun _ h => h.2)
  | some md =>
    simp only
    cases md.pipe with
    | none => exact Triple.retR _ (fun _ h => h.2)
    | some q =>
      simp only
      apply Triple.ite
      · intro _
        refine Triple.bind (Q := fun _ => R) ?_ fun _ => ?_
        · exact Triple.weaken (Triple.quietS hR _ (quiet_updMod m _ (fun md => rfl))) (fun _ _ h => h.2) (fun _ _ _ h => h)
        refine Triple.bind Triple.get fun s1 => ?_
        refine Triple.bind (Q := fun _ => R) ?_ fun _ => ?_
        · exact Triple.weaken (Triple.quietS hR _ (Quiet.foldl (flushStep m) (quiet_flushStep m) _)) (fun _ _ h => h.2) (fun _ _ _ h => h)
        refine Triple.bind (Q := fun _ => R) (callPubsubCb_triple hR _ _) fun _ => ?_
        refine Triple.bind Triple.get fun s' => ?_
        apply Triple.ite
        · intro hc
          refine Triple.bind (Q := fun _ => R) ?_ fun _ => Triple.retR _ (fun _ h => h)
          refine Triple.weaken (stopP_triple hR m true false) ?_ (fun _ _ _ h => h.1)
          intro st _ ⟨he, hr⟩
          subst he
          simp only [Bool.and_eq_true] at hc
          obtain ⟨g, hg, hs⟩ := sig_of_isRP _ m hc.2
          refine ⟨hr, g, hg, ?_, (fun h => by cases h), ⟨(fun h => by cases h), fun _ => by rcases hs with h | h <;> simp [h]⟩⟩
          rcases hs with h | h <;> (rw [h]; decide)
        · intro _; exact Triple.retR _ (fun _ h => h.2)
      · intro _
        refine Triple.bind (Q := fun _ => R) ?_ fun _ => Triple.retR _ (fun _ h => h)
        refine Triple.weaken (Triple.quietS hR _ ?_) (fun _ _ h => h.2) (fun _ _ _ h => h)
        exact Quiet.comp (quiet_updMod m (fun md => { md with pipe := some [], pipeSkip := 0 }) (fun md => rfl)) (Quiet.foldl destroyMsg quiet_destroyMsg q)

/-- `loop_start` -/
theorem loopStartP_triple {R : St → Prop} (hR : Stable R) : Triple R loopStartP (fun _ => R) := by
  unfold loopStartP
  refine Triple.bind (Q := fun _ => R) (Triple.updCtx hR _ (fun _ => rfl) (fun _ => rfl)) fun _ => ?_
  refine Triple.bind (Q := fun _ => R) (Triple.updCtx hR _ (fun _ => rfl) (fun _ => rfl)) fun _ => ?_
  refine Triple.bind (Q := fun _ => R) (iterMods_triple hR _ (evaluateP_triple hR)) fun _ => ?_
  refine Triple.bind (Q := fun _ => R) (Triple.quietS hR _ (quiet_tellSystem _ _ _ _)) fun _ => ?_
  exact Triple.retR _ (fun _ h => h)

/-- `loop_stop` -/
theorem loopStopP_triple {R : St → Prop} (hR : Stable R) (cid : Nat) : Triple R (loopStopP cid) (fun _ => R) := by
  unfold loopStopP
  refine Triple.bind Triple.get fun s0 => ?_
  cases s0.ctx with
  | none => exact Triple.weaken (unmodelled_triple hR _) (fun _ _ h => h.2) (fun _ _ _ h => h)
  | some c0 =>
  simp only
  apply Triple.ite
  · intro _; exact Triple.weaken (unmodelled_triple hR _) (fun _ _ h => h.2) (fun _ _ _ h => h)
  · intro _
    refine Triple.bind (Q := fun _ => R) ?_ fun _ => ?_
    · exact Triple.weaken (Triple.updCtx hR _ (fun _ => rfl) (fun _ => rfl)) (fun _ _ h => h.2) (fun _ _ _ h => h)
    refine Triple.bind (Q := fun _ => R) (Triple.quietS hR _ (quiet_tellSystem _ _ _ _)) fun _ => ?_
    refine Triple.bind (Q := fun _ => R) (iterMods_triple hR _ (flushModP_triple hR)) fun _ => ?_
    refine Triple.bind Triple.get fun s => ?_
    cases s.ctx with
    | none => exact Triple.retR _ (fun _ h => h.2)
    | some c =>
      simp only
      apply Triple.ite
      · intro _; exact Triple.retR _ (fun _ h => h.2)
      · intro _
        refine Triple.bind (Q := fun _ => R) ?_ fun _ => ?_
        · exact Triple.weaken (Triple.updCtx hR _ (fun _ => rfl) (fun _ => rfl)) (fun _ _ h => h.2) (fun _ _ _ h => h)
        apply Triple.ite
        · intro _
          refine Triple.bind (Q := fun _ => R) (ctxDeregisterP_triple hR) fun _ => Triple.retR _ (fun _ h => h)
        · intro _; exact Triple.retR _ (fun _ h => h)


/-- one entry of a poll batch -/
theorem recvOneP_triple {R : St → Prop} (hR : Stable R) (p : PollEnt) : Triple R (recvOneP p) (fun _ => R) := by
  unfold recvOneP
  refine Triple.bind Triple.get fun s => ?_
  cases p with
  | bad t =>
    simp only
    refine Triple.bind (Q := fun _ => R) ?_ fun _ => Triple.retR _ (fun _ h => h)
    exact Triple.weaken (Triple.quietS hR _ (quiet_emit _)) (fun _ _ h => h.2) (fun _ _ _ h => h)
  | tick =>
    simp only
    cases s.ctx with
    | none => exact Triple.retR _ (fun _ h => h.2)
    | some c =>
      simp only
      apply Triple.ite
      · intro _; exact Triple.retR _ (fun _ h => h.2)
      · intro _
        refine Triple.bind (Q := fun _ => R) ?_ fun _ => Triple.retR _ (fun _ h => h)
        exact Triple.weaken (Triple.quietS hR _ (quiet_tellSystem _ _ _ _)) (fun _ _ h => h.2) (fun _ _ _ h => h)
  | src i =>
    simp only
    cases s.srcs[i]? with
    | none => exact Triple.retR _ (fun _ h => h.2)
    | some x =>
      simp only
      apply Triple.ite
      · intro _; exact Triple.retR _ (fun _ h => h.2)
      · intro _
        refine Triple.bind (Q := fun _ => R) ?_ fun _ => ?_
        · exact Triple.weaken (Triple.quietS hR _ (Quiet.ite _ (quiet_removeSrc _ _) Quiet.id)) (fun _ _ h => h.2) (fun _ _ _ h => h)
        refine Triple.bind (Q := fun _ => R) (pushEvtP_triple hR _ _) fun _ => Triple.retR _ (fun _ h => h)
  | ps m =>
    simp only
    cases s.mods[m]? with
    | none => exact Triple.retR _ (fun _ h => h.2)
    | some md =>
      simp only
      apply Triple.ite
      · intro _; exact Triple.retR _ (fun _ h => h.2)
      · intro _
        cases md.pipe with
        | none => exact Triple.retR _ (fun _ h => h.2)
        | some q =>
          cases q with
          | nil => exact Triple.retR _ (fun _ h => h.2)
          | cons msg rest =>
            simp only
            refine Triple.bind (Q := fun _ => R) ?_ fun _ => ?_
            · exact Triple.weaken (Triple.quietS hR _ (quiet_updMod m _ (fun md => rfl)))
                (fun _ _ h => h.2) (fun _ _ _ h => h)
            apply Triple.ite
            · intro _
              refine Triple.bind (Q := fun _ => R) (Triple.quietS hR _ (quiet_destroyMsg msg)) fun _ => Triple.retR _ (fun _ h => h)
            intro _
            refine Triple.bind (Q := fun _ => R) (Triple.quietS hR _ (quiet_consumeOneshot m md msg)) fun _ => ?_
            apply Triple.ite
            · intro _
              refine Triple.bind Triple.get fun s1 => ?_
              refine Triple.bind (Q := fun _ => R) ?_ fun _ => ?_
              · exact Triple.weaken (Triple.quietS hR _ (quiet_destroyMsg msg)) (fun _ _ h => h.2) (fun _ _ _ h => h)
              refine Triple.bind (Q := fun _ => R) (Triple.quietS hR _ (quiet_updMod m (fun md => { md with batch := [] }) (fun md => rfl))) fun _ => ?_
              refine Triple.bind (Q := fun _ => R) (callPubsubCb_triple hR _ _) fun _ => ?_
              refine Triple.bind Triple.get fun s2 => ?_
              apply Triple.ite
              · intro hrp
                refine Triple.bind (Q := fun _ => R) ?_ fun _ => Triple.retR _ (fun _ h => h)
                refine Triple.weaken (stopP_triple hR m true false) ?_ (fun _ _ _ h => h.1)
                intro st _ ⟨he, hr⟩
                subst he
                obtain ⟨g, hg, hs⟩ := sig_of_isRP _ m hrp
                refine ⟨hr, g, hg, ?_, (fun h => by cases h), ⟨(fun h => by cases h), fun _ => by rcases hs with h | h <;> simp [h]⟩⟩
                rcases hs with h | h <;> (rw [h]; decide)
              · intro _; exact Triple.retR _ (fun _ h => h.2)
            · intro _
              refine Triple.bind (Q := fun _ => R) (pushEvtP_triple hR _ _) fun _ => Triple.retR _ (fun _ h => h)

theorem recvBatchP_triple {R : St → Prop} (hR : Stable R) : ∀ (l : List PollEnt) (n : Nat), Triple R (recvBatchP l n) (fun _ => R) := by
  intro l
  induction l with
  | nil => intro n; unfold recvBatchP; exact Triple.retR _ (fun _ h => h)
  | cons p ps ih =>
    intro n
    unfold recvBatchP
    refine Triple.bind Triple.get fun s0 => ?_
    refine Triple.bind (Q := fun _ => R) ?_ fun k => ?_
    · exact Triple.weaken (recvOneP_triple hR p) (fun _ _ h => h.2) (fun _ _ _ h => h)
    refine Triple.bind Triple.get fun s1 => ?_
    apply Triple.ite
    · intro _
      refine Triple.bind (Q := fun _ => R) ?_ fun _ => Triple.retR _ (fun _ h => h)
      exact Triple.weaken (unmodelled_triple hR _) (fun _ _ h => h.2) (fun _ _ _ h => h)
    · intro _
      apply Triple.ite
      · intro _; exact Triple.retR _ (fun _ h => h.2)
      · intro _; exact Triple.weaken (ih _) (fun _ _ h => h.2) (fun _ _ _ h => h)

theorem recvEventsP_triple {R : St → Prop} (hR : Stable R) (b : List PollEnt) : Triple R (recvEventsP b) (fun _ => R) := by
  unfold recvEventsP
  refine Triple.bind (Q := fun _ => R) (recvBatchP_triple hR b 0) fun r => ?_
  obtain ⟨recved, err⟩ := r
  simp only
  apply Triple.ite
  · intro _; exact Triple.retR _ (fun _ h => h)
  · intro _
    apply Triple.ite
    · intro _
      refine Triple.bind (Q := fun _ => R) (iterMods_triple hR _ (evaluateP_triple hR)) fun _ => ?_
      refine Triple.bind (Q := fun _ => R) (Triple.updCtx hR _ (fun _ => rfl) (fun _ => rfl)) fun _ => ?_
      exact Triple.retR _ (fun _ h => h)
    · intro _; exact Triple.retR _ (fun _ h => h)

theorem nextBatch_triple {R : St → Prop} (hR : Stable R) : Triple R nextBatch (fun _ => R) := by
  unfold nextBatch
  refine Triple.bind Triple.get fun s => ?_
  cases hb : s.batches with
  | nil =>
    simp only
    refine Triple.bind (Q := fun _ => R) ?_ fun _ => Triple.retR _ (fun _ h => h)
    exact Triple.weaken (Triple.quietS hR _ (quiet_emit _)) (fun _ _ h => h.2) (fun _ _ _ h => h)
  | cons b rest =>
    simp only
    refine Triple.bind (Q := fun _ => R) ?_ fun _ => ?_
    · refine Triple.set _ fun st hI hp => ?_
      obtain ⟨he, hr⟩ := hp
      subst he
      exact ⟨Inv.congr (s := s) rfl rfl rfl hI, fun _ hM => Mono.congr_right (s := s) rfl hM, hR.view s _ rfl hr⟩
    apply Triple.ite
    · intro _
      refine Triple.bind (Q := fun _ => R) (Triple.updCtx hR _ (fun _ => rfl) (fun _ => rfl)) fun _ => Triple.retR _ (fun _ h => h)
    · intro _; exact Triple.retR _ (fun _ h => h)

theorem apiDispatch_triple {R : St → Prop} (hR : Stable R) : Triple R apiDispatch (fun _ => R) := by
  unfold apiDispatch
  refine Triple.bind Triple.get fun s => ?_
  cases mctx s with
  | none => exact Triple.retR _ (fun _ h => h.2)
  | some c =>
    simp only
    apply Triple.ite
    · intro _
      apply Triple.ite
      · intro _; exact Triple.retR _ (fun _ h => h.2)
      · intro _; exact Triple.weaken (loopStartP_triple hR) (fun _ _ h => h.2) (fun _ _ _ h => h)
    · intro _
      apply Triple.ite
      · intro _; exact Triple.weaken (loopStopP_triple hR _) (fun _ _ h => h.2) (fun _ _ _ h => h)
      · intro _
        refine Triple.bind (Q := fun _ => R) ?_ fun b => recvEventsP_triple hR b
        exact Triple.weaken (nextBatch_triple hR) (fun _ _ h => h.2) (fun _ _ _ h => h)

theorem loopBody_triple {R : St → Prop} (hR : Stable R) (cid : Nat) : ∀ n, Triple R (loopBody cid n) (fun _ => R) := by
  intro n
  induction n with
  | zero => unfold loopBody; exact Triple.retR _ (fun _ h => h)
  | succ n ih =>
    unfold loopBody
    refine Triple.bind Triple.get fun s => ?_
    cases s.ctx with
    | none => exact Triple.retR _ (fun _ h => h.2)
    | some c =>
      simp only
      apply Triple.ite
      · intro _
        refine Triple.bind (Q := fun _ => R) ?_ fun b => ?_
        · exact Triple.weaken (nextBatch_triple hR) (fun _ _ h => h.2) (fun _ _ _ h => h)
        refine Triple.bind (Q := fun _ => R) (recvEventsP_triple hR b) fun _ => ih
      · intro _; exact Triple.retR _ (fun _ h => h.2)

theorem apiLoop_triple {R : St → Prop} (hR : Stable R) : Triple R apiLoop (fun _ => R) := by
  unfold apiLoop
  refine Triple.bind Triple.get fun s => ?_
  cases mctx s with
  | none => exact Triple.retR _ (fun _ h => h.2)
  | some c =>
    simp only
    apply Triple.ite
    · intro _; exact Triple.retR _ (fun _ h => h.2)
    · intro _
      apply Triple.ite
      · intro _; exact Triple.retR _ (fun _ h => h.2)
      · intro _
        apply Triple.ite
        · intro _; exact Triple.retR _ (fun _ h => h.2)
        · intro _
          refine Triple.bind (Q := fun _ => R) ?_ fun _ => ?_
          · exact Triple.weaken (loopStartP_triple hR) (fun _ _ h => h.2) (fun _ _ _ h => h)
          refine Triple.bind Triple.get fun s' => ?_
          refine Triple.bind (Q := fun _ => R) ?_ fun _ => loopStopP_triple hR _
          exact Triple.weaken (loopBody_triple hR _ _) (fun _ _ h => h.2) (fun _ _ _ h => h)


/-! ## The public API programs -/

theorem consumeToken_view (s s' : St) (m : ModId) (h : consumeToken s m = some s') :
    s'.sigs = s.sigs ∧ s'.ctx = s.ctx ∧ s'.nextCtx = s.nextCtx ∧ s'.trans = s.trans := by
  unfold consumeToken at h
  cases hm : s.mods[m]? with
  | none => simp [hm] at h
  | some md =>
    simp only [hm] at h
    cases htb : md.tb with
    | none => simp [htb] at h; subst h; exact ⟨rfl, rfl, rfl, rfl⟩
    | some tb =>
      simp only [htb] at h
      by_cases h0 : tb.tokens = 0
      · simp [h0] at h
      · simp only [h0, if_false, Option.some.injEq] at h
        subst h
        exact ⟨updMod_sigs s m _ (fun _ => rfl), by simp, by simp, by simp⟩

/-- setting the state to one obtained from the current one without touching the life-cycle view -/
theorem Triple.setView {P : St → Prop} {R : St → Prop} (hR : Stable R) (x : St)
    (h : ∀ s, P s → x.sigs = s.sigs ∧ x.ctx = s.ctx ∧ x.nextCtx = s.nextCtx ∧ x.trans = s.trans) :
    Triple (fun s => P s ∧ R s) (setSt x) (fun _ => R) :=
  Triple.set x fun s hI hp =>
    have hv := h s hp.1
    ⟨Inv.congr hv.1 hv.2.1 hv.2.2.1 hI hv.2.2.2, fun _ hM => Mono.congr_right hv.1 hM, hR.view _ _ hv.1 hp.2⟩

theorem modAssert_not_zombie (s : St) (m : ModId) (md : Mod) (hm : s.mods[m]? = some md) (h : modAssert s m = none) :
    md.state ≠ .zombie := by
  unfold modAssert at h
  simp only [hm] at h
  intro hz
  simp [hz] at h

/-- what the body of a guarded call may assume -/
def Passed (m : ModId) (mask : Option (List MState)) : St → Prop :=
  fun s => ∃ g : Sig, s.sigs[m]? = some g ∧ g.state ≠ .zombie ∧ ∀ l, mask = some l → g.state ∈ l

theorem Passed.view (m mask) (s s' : St) (h : s'.sigs = s.sigs) (hp : Passed m mask s) : Passed m mask s' := by
  unfold Passed; rw [h]; exact hp

/-- `M_MOD_ASSERT…` + permission + state mask + token, then the body -/
theorem guarded_triple {R : St → Prop} (hR : Stable R) (m : ModId) (deny : ModFlags → Bool) (mask : Option (List MState))
    (tok : Bool) (body : Prog Int) (hbody : Triple (fun s => R s ∧ Passed m mask s) body (fun _ => R)) :
    Triple R (guarded m deny mask tok body) (fun _ => R) := by
  unfold guarded
  refine Triple.bind Triple.get fun s => ?_
  cases hma : modAssert s m with
  | some e => exact Triple.retR _ (fun _ h => h.2)
  | none =>
    simp only
    cases hmd : s.mods[m]? with
    | none => exact Triple.retR _ (fun _ h => h.2)
    | some md =>
      simp only
      apply Triple.ite
      · intro _; exact Triple.retR _ (fun _ h => h.2)
      · intro _
        apply Triple.ite
        · intro _; exact Triple.retR _ (fun _ h => h.2)
        · intro hmask
          have hpass : Passed m mask s := by
            refine ⟨md.sig, sig_of_mod s m md hmd, modAssert_not_zombie s m md hmd hma, fun l hl => ?_⟩
            subst hl
            simp at hmask
            exact hmask
          apply Triple.ite
          · intro _
            cases hct : consumeToken s m with
            | none => exact Triple.retR _ (fun _ h => h.2)
            | some s' =>
              simp only
              have hv := consumeToken_view s s' m hct
              refine Triple.bind (Q := fun _ st => R st ∧ Passed m mask st) ?_ fun _ => hbody
              refine Triple.set s' fun st hI hp => ?_
              obtain ⟨he, hr⟩ := hp
              subst he
              exact ⟨Inv.congr hv.1 hv.2.1 hv.2.2.1 hI hv.2.2.2, fun _ hM => Mono.congr_right hv.1 hM, hR.view _ _ hv.1 hr,
                Passed.view m mask _ _ hv.1 hpass⟩
          · intro _
            refine Triple.weaken hbody ?_ (fun _ _ _ h => h)
            intro st _ ⟨he, hr⟩
            subst he
            exact ⟨hr, hpass⟩

theorem apiPause_triple {R : St → Prop} (hR : Stable R) (m : ModId) : Triple R (apiPause m) (fun _ => R) := by
  unfold apiPause
  refine guarded_triple hR m _ _ _ _ ?_
  refine Triple.weaken (stopP_triple hR m false false) ?_ (fun _ _ _ h => h.1)
  intro s hI ⟨hr, g, hg, hz, hmask⟩
  have hrun : g.state = .running := by simpa using hmask _ rfl
  refine ⟨hr, g, hg, hz, fun _ => ⟨?_, rfl⟩, ⟨fun _ => hrun, (fun h => by cases h)⟩⟩
  cases hin : g.inCtx with
  | true => rfl
  | false => rcases hI.out m g hg hin with h | h <;> (rw [hrun] at h; cases h)

theorem apiResume_triple {R : St → Prop} (hR : Stable R) (m : ModId) : Triple R (apiResume m) (fun _ => R) := by
  unfold apiResume
  refine guarded_triple hR m _ _ _ _ ?_
  refine Triple.weaken (startP_triple hR m false) ?_ (fun _ _ _ h => h)
  intro s hI ⟨hr, g, hg, hz, hmask⟩
  have hp : g.state = .paused := by simpa using hmask _ rfl
  refine ⟨hr, g, hg, by rw [hp]; decide, hz, ?_⟩
  cases hin : g.inCtx with
  | true => rfl
  | false => rcases hI.out m g hg hin with h | h <;> (rw [hp] at h; cases h)

theorem apiStop_triple {R : St → Prop} (hR : Stable R) (m : ModId) : Triple R (apiStop m) (fun _ => R) := by
  unfold apiStop
  refine guarded_triple hR m _ _ _ _ ?_
  refine Triple.weaken (stopP_triple hR m true false) ?_ (fun _ _ _ h => h.1)
  intro s _ ⟨hr, g, hg, hz, hmask⟩
  have hrp : g.state = .running ∨ g.state = .paused := by simpa using hmask _ rfl
  exact ⟨hr, g, hg, hz, (fun h => by cases h), ⟨(fun h => by cases h), fun _ => by rcases hrp with h | h <;> simp [h]⟩⟩

theorem sig_inCtx_of_modByName (s : St) (m : ModId) (n : String) (h : s.modByName n = some m) :
    ∃ g : Sig, s.sigs[m]? = some g ∧ g.inCtx = true := by
  unfold St.modByName at h
  have hlt := List.findIdx?_eq_some_iff_getElem.mp h
  obtain ⟨hl, hp, _⟩ := hlt
  refine ⟨(s.mods[m]).sig, ?_, ?_⟩
  · rw [sigs_getElem?]; simp [List.getElem?_eq_getElem hl]
  · simp at hp; simp [Mod.sig, hp.1]

theorem apiStart_triple {R : St → Prop} (hR : Stable R) (m : ModId) : Triple R (apiStart m) (fun _ => R) := by
  unfold apiStart
  refine Triple.bind Triple.get fun s => ?_
  cases hma : modAssert s m with
  | some e => exact Triple.retR _ (fun _ h => h.2)
  | none =>
    simp only
    cases hmd : s.mods[m]? with
    | none => exact Triple.retR _ (fun _ h => h.2)
    | some md =>
      simp only
      apply Triple.ite
      · intro _; exact Triple.retR _ (fun _ h => h.2)
      · intro hst
        apply Triple.ite
        · intro _; exact Triple.retR _ (fun _ h => h.2)
        · intro hby
          have hby' : s.modByName md.name = some m := by simpa using hby
          obtain ⟨g, hg, hin⟩ := sig_inCtx_of_modByName s m _ hby'
          have hgm : g = md.sig := by rw [sig_of_mod s m md hmd] at hg; exact (Option.some.inj hg).symm
          have hnr : g.state ≠ .running ∧ g.state ≠ .zombie := by
            subst hgm
            simp at hst
            by_cases hi : md.state = .idle
            · simp [Mod.sig, hi]
            · simp [Mod.sig, hst hi]
          cases hct : consumeToken s m with
          | none => exact Triple.retR _ (fun _ h => h.2)
          | some s' =>
            simp only
            have hv := consumeToken_view s s' m hct
            refine Triple.bind (Q := fun _ st => R st ∧ ∃ g : Sig, st.sigs[m]? = some g ∧ g.state ≠ .running ∧ g.state ≠ .zombie ∧ g.inCtx = true) ?_
              fun _ => startP_triple hR m true
            refine Triple.set s' fun st hI hp => ?_
            obtain ⟨he, hr⟩ := hp
            subst he
            exact ⟨Inv.congr hv.1 hv.2.1 hv.2.2.1 hI hv.2.2.2, fun _ hM => Mono.congr_right hv.1 hM, hR.view _ _ hv.1 hr,
              g, by rw [hv.1]; exact hg, hnr.1, hnr.2, hin⟩


theorem Triple.quietP {P R : St → Prop} (hR : Stable R) (g : St → St) (hg : Quiet g) :
    Triple (fun s => P s ∧ R s) (Lm.Core.modify g) (fun _ => R) :=
  Triple.weaken (Triple.quietS hR g hg) (fun _ _ h => h.2) (fun _ _ _ h => h)

theorem Triple.retP {α} {P R : St → Prop} (x : α) : Triple (fun s => P s ∧ R s) (pure x : Prog α) (fun _ => R) :=
  Triple.retR x (fun _ h => h.2)

/-- a guarded call whose body is one quiet update followed by a result -/
theorem guarded_quiet {R : St → Prop} (hR : Stable R) (m deny mask tok) (g : St → St) (hg : Quiet g) (r : Int) :
    Triple R (guarded m deny mask tok (do Lm.Core.modify g; pure r)) (fun _ => R) := by
  refine guarded_triple hR m deny mask tok _ ?_
  refine Triple.bind (Q := fun _ => R) ?_ fun _ => Triple.retR _ (fun _ h => h)
  exact Triple.weaken (Triple.quietS hR g hg) (fun _ _ h => h.1) (fun _ _ _ h => h)

theorem apiBecome_triple {R : St → Prop} (hR : Stable R) (m : ModId) (h : Nat) : Triple R (apiBecome m h) (fun _ => R) := by
  unfold apiBecome
  refine guarded_quiet hR m _ _ _ _ ?_ 0
  exact quiet_updMod m _ (fun md => rfl)

theorem apiBatchSize_triple {R : St → Prop} (hR : Stable R) (m : ModId) (n : Nat) : Triple R (apiBatchSize m n) (fun _ => R) := by
  unfold apiBatchSize
  refine guarded_quiet hR m _ _ _ _ ?_ 0
  exact quiet_updMod m _ (fun md => rfl)

theorem apiUnbecome_triple {R : St → Prop} (hR : Stable R) (m : ModId) : Triple R (apiUnbecome m) (fun _ => R) := by
  unfold apiUnbecome
  refine guarded_triple hR m _ _ _ _ ?_
  refine Triple.bind Triple.get fun s => ?_
  cases s.mods[m]? with
  | none => exact Triple.retR _ (fun _ h => h.2.1)
  | some md =>
    simp only
    cases md.recvs with
    | nil => exact Triple.retR _ (fun _ h => h.2.1)
    | cons x rest =>
      simp only
      refine Triple.bind (Q := fun _ => R) ?_ fun _ => Triple.retR _ (fun _ h => h)
      exact Triple.weaken (Triple.quietS hR _ (quiet_updMod m (fun md => { md with recvs := rest }) (fun md => rfl)))
        (fun _ _ h => h.2.1) (fun _ _ _ h => h)

theorem apiStash_triple {R : St → Prop} (hR : Stable R) (m : ModId) (e : Option Evt) : Triple R (apiStash m e) (fun _ => R) := by
  unfold apiStash
  refine guarded_triple hR m _ _ _ _ ?_
  cases e with
  | none => exact Triple.retR _ (fun _ h => h.1)
  | some e =>
    simp only
    refine Triple.bind Triple.get fun s => ?_
    cases hct : consumeToken s m with
    | none => exact Triple.retR _ (fun _ h => h.2.1)
    | some s' =>
      simp only
      have hv := consumeToken_view s s' m hct
      refine Triple.bind (Q := fun _ => R) ?_ fun _ => ?_
      · refine Triple.set s' fun st hI hp => ?_
        obtain ⟨he, hr, _⟩ := hp
        subst he
        exact ⟨Inv.congr hv.1 hv.2.1 hv.2.2.1 hI hv.2.2.2, fun _ hM => Mono.congr_right hv.1 hM, hR.view _ _ hv.1 hr⟩
      apply Triple.ite
      · intro _; exact Triple.retR _ (fun _ h => h)
      · intro _
        refine Triple.bind (Q := fun _ => R) (Triple.quietS hR _ (quiet_updMod m (fun md => { md with stash := md.stash ++ [e] }) (fun md => rfl)))
          fun _ => Triple.retR _ (fun _ h => h)

theorem apiUnstash_triple {R : St → Prop} (hR : Stable R) (m : ModId) (n : Nat) : Triple R (apiUnstash m n) (fun _ => R) := by
  unfold apiUnstash
  refine guarded_triple hR m _ _ _ _ ?_
  apply Triple.ite
  · intro _; exact Triple.retR _ (fun _ h => h.1)
  · intro _
    refine Triple.bind Triple.get fun s => ?_
    cases hct : consumeToken s m with
    | none => exact Triple.retR _ (fun _ h => h.2.1)
    | some s' =>
      simp only
      have hv := consumeToken_view s s' m hct
      refine Triple.bind (Q := fun _ => R) ?_ fun _ => ?_
      · refine Triple.set s' fun st hI hp => ?_
        obtain ⟨he, hr, _⟩ := hp
        subst he
        exact ⟨Inv.congr hv.1 hv.2.1 hv.2.2.1 hI hv.2.2.2, fun _ hM => Mono.congr_right hv.1 hM, hR.view _ _ hv.1 hr⟩
      cases s'.mods[m]? with
      | none => exact Triple.retR _ (fun _ h => h)
      | some md =>
        simp only
        refine Triple.bind (Q := fun _ => R) (Triple.quietS hR _ (quiet_updMod m (fun md => { md with stash := md.stash.drop n }) (fun md => rfl))) fun _ => ?_
        refine Triple.bind (Q := fun _ => R) (callPubsubCb_triple hR _ _) fun _ => Triple.retR _ (fun _ h => h)

theorem quiet_rmInternal (m ns role) : Quiet (fun s => rmInternal s m ns role) := by
  apply Quiet.pointwise0
  intro s
  unfold rmInternal
  split
  · split
    · exact ⟨_, quiet_removeSrc m _, rfl⟩
    · exact ⟨_, Quiet.id, rfl⟩
  · exact ⟨_, Quiet.id, rfl⟩

theorem addSrc_view (s : St) (m : ModId) (x : Src) :
    (addSrc s m x).1.sigs = s.sigs ∧ (addSrc s m x).1.ctx = s.ctx ∧ (addSrc s m x).1.nextCtx = s.nextCtx ∧
    (addSrc s m x).1.trans = s.trans := by
  unfold addSrc
  split
  · split
    · exact ⟨rfl, rfl, rfl, rfl⟩
    · exact ⟨rfl, rfl, rfl, rfl⟩
  · split
    · exact ⟨rfl, rfl, rfl, rfl⟩
    · split
      · split <;> exact ⟨rfl, rfl, rfl, rfl⟩
      · simp only
        exact ⟨updMod_sigs _ m _ (fun _ => rfl), by simp, by simp, by simp⟩

theorem apiBatchTimeout_triple {R : St → Prop} (hR : Stable R) (m : ModId) (ns : Nat) : Triple R (apiBatchTimeout m ns) (fun _ => R) := by
  unfold apiBatchTimeout
  refine guarded_triple hR m _ _ _ _ ?_
  refine Triple.bind Triple.get fun s => ?_
  cases s.mods[m]? with
  | none => exact Triple.retR _ (fun _ h => h.2.1)
  | some md =>
    simp only
    refine Triple.bind (Q := fun _ => R) ?_ fun _ => ?_
    · exact Triple.weaken (Triple.quietS hR _ (quiet_rmInternal m _ _)) (fun _ _ h => h.2.1) (fun _ _ _ h => h)
    refine Triple.bind (Q := fun _ => R) (Triple.quietS hR _ (quiet_updMod m (fun md => { md with batchTimer := ns }) (fun md => rfl))) fun _ => ?_
    apply Triple.ite
    · intro _
      refine Triple.bind (Q := fun _ => R) (Triple.quietS hR _ (quiet_updMod m _ (fun md => by split <;> rfl))) fun _ => ?_
      refine Triple.bind Triple.get fun s1 => ?_
      have hv := addSrc_view s1 m { kind := .tmr, owner := m, key := ns, prio := .high, role := .batchTimer }
      refine Triple.bind (Q := fun _ => R) ?_ fun _ => Triple.retR _ (fun _ h => h)
      refine Triple.set _ fun st hI hp => ?_
      obtain ⟨he, hr⟩ := hp
      subst he
      exact ⟨Inv.congr hv.1 hv.2.1 hv.2.2.1 hI hv.2.2.2, fun _ hM => Mono.congr_right hv.1 hM, hR.view _ _ hv.1 hr⟩
    · intro _
      refine Triple.bind (Q := fun _ => R) (Triple.quietS hR _ (quiet_updMod m _ (fun md => by split <;> rfl))) fun _ => ?_
      exact Triple.retR _ (fun _ h => h)

theorem apiTokenBucket_triple {R : St → Prop} (hR : Stable R) (m : ModId) (rate burst : Nat) :
    Triple R (apiTokenBucket m rate burst) (fun _ => R) := by
  unfold apiTokenBucket
  refine guarded_triple hR m _ _ _ _ ?_
  apply Triple.ite
  · intro _; exact Triple.retR _ (fun _ h => h.1)
  · intro _
    refine Triple.bind Triple.get fun s => ?_
    cases s.mods[m]? with
    | none => exact Triple.retR _ (fun _ h => h.2.1)
    | some md =>
      simp only
      refine Triple.bind (Q := fun _ => R) ?_ fun _ => ?_
      · exact Triple.weaken (Triple.quietS hR _ (quiet_rmInternal m _ _)) (fun _ _ h => h.2.1) (fun _ _ _ h => h)
      apply Triple.ite
      · intro _
        refine Triple.bind (Q := fun _ => R) (Triple.quietS hR _ (quiet_updMod m (fun md => { md with tb := none, tbTimer := 0 }) (fun md => rfl))) fun _ => ?_
        exact Triple.retR _ (fun _ h => h)
      · intro _
        refine Triple.bind (Q := fun _ => R) (Triple.quietS hR _ (quiet_updMod m
          (fun md => { md with tb := some { rate := rate, burst := burst, tokens := burst }, tbTimer := BILLION / rate }) (fun md => rfl))) fun _ => ?_
        refine Triple.bind Triple.get fun s1 => ?_
        have hv := addSrc_view s1 m { kind := .tmr, owner := m, key := BILLION / rate, prio := .high, role := .tbTimer }
        refine Triple.bind (Q := fun _ => R) ?_ fun _ => Triple.retR _ (fun _ h => h)
        refine Triple.set _ fun st hI hp => ?_
        obtain ⟨he, hr⟩ := hp
        subst he
        exact ⟨Inv.congr hv.1 hv.2.1 hv.2.2.1 hI hv.2.2.2, fun _ hM => Mono.congr_right hv.1 hM, hR.view _ _ hv.1 hr⟩


theorem apiTell_triple {R : St → Prop} (hR : Stable R) (m r : ModId) (p : Nat) (af : Bool) : Triple R (apiTell m r p af) (fun _ => R) := by
  unfold apiTell
  refine guarded_triple hR m _ _ _ _ ?_
  refine Triple.bind Triple.get fun s => ?_
  apply Triple.ite
  · intro _; exact Triple.retR _ (fun _ h => h.2.1)
  · intro _
    cases hct : consumeToken s m with
    | none => exact Triple.retR _ (fun _ h => h.2.1)
    | some s' =>
      simp only
      have hv := consumeToken_view s s' m hct
      refine Triple.bind (Q := fun _ => R) ?_ fun _ => ?_
      · refine Triple.set s' fun st hI hp => ?_
        obtain ⟨he, hr, _⟩ := hp
        subst he
        exact ⟨Inv.congr hv.1 hv.2.1 hv.2.2.1 hI hv.2.2.2, fun _ hM => Mono.congr_right hv.1 hM, hR.view _ _ hv.1 hr⟩
      refine Triple.bind (Q := fun _ => R) (Triple.quietS hR _ (quiet_sendMsg _ _ _ _ _)) fun _ => Triple.retR _ (fun _ h => h)

theorem apiPublish_triple {R : St → Prop} (hR : Stable R) (m : ModId) (t : Option String) (p : Nat) (af : Bool) :
    Triple R (apiPublish m t p af) (fun _ => R) := by
  unfold apiPublish
  refine guarded_triple hR m _ _ _ _ ?_
  apply Triple.ite
  · intro _; exact Triple.retR _ (fun _ h => h.1)
  · intro _
    refine Triple.bind Triple.get fun s => ?_
    cases hct : consumeToken s m with
    | none => exact Triple.retR _ (fun _ h => h.2.1)
    | some s' =>
      simp only
      have hv := consumeToken_view s s' m hct
      refine Triple.bind (Q := fun _ => R) ?_ fun _ => ?_
      · refine Triple.set s' fun st hI hp => ?_
        obtain ⟨he, hr, _⟩ := hp
        subst he
        exact ⟨Inv.congr hv.1 hv.2.1 hv.2.2.1 hI hv.2.2.2, fun _ hM => Mono.congr_right hv.1 hM, hR.view _ _ hv.1 hr⟩
      refine Triple.bind (Q := fun _ => R) (Triple.quietS hR _ (quiet_sendMsg _ _ _ _ _)) fun _ => Triple.retR _ (fun _ h => h)

theorem apiPill_triple {R : St → Prop} (hR : Stable R) (m r : ModId) : Triple R (apiPill m r) (fun _ => R) := by
  unfold apiPill
  refine guarded_triple hR m _ _ _ _ ?_
  refine Triple.bind Triple.get fun s => ?_
  apply Triple.ite
  · intro _; exact Triple.retR _ (fun _ h => h.2.1)
  · intro _
    apply Triple.ite
    · intro _; exact Triple.retR _ (fun _ h => h.2.1)
    · intro _
      cases hct : consumeToken s m with
      | none => exact Triple.retR _ (fun _ h => h.2.1)
      | some s' =>
        simp only
        have hv := consumeToken_view s s' m hct
        refine Triple.bind (Q := fun _ => R) ?_ fun _ => ?_
        · refine Triple.set s' fun st hI hp => ?_
          obtain ⟨he, hr, _⟩ := hp
          subst he
          exact ⟨Inv.congr hv.1 hv.2.1 hv.2.2.1 hI hv.2.2.2, fun _ hM => Mono.congr_right hv.1 hM, hR.view _ _ hv.1 hr⟩
        refine Triple.bind (Q := fun _ => R) (Triple.quietS hR _ (quiet_tellSystem _ _ _ _)) fun _ => Triple.retR _ (fun _ h => h)

theorem quiet_addSub (m : ModId) (x : Src) : Quiet (fun s => addSub s m x) := by
  apply Quiet.pointwise0
  intro s
  unfold addSub
  exact ⟨fun s0 => ({ s0 with srcs := s0.srcs ++ [x] } : St).updMod m (fun md => { md with subs := md.subs ++ [s.srcs.length] }),
    Quiet.comp (quiet_updMod m (fun md => { md with subs := md.subs ++ [s.srcs.length] }) (fun md => rfl))
      (g := fun s0 => s0.updMod m (fun md => { md with subs := md.subs ++ [s.srcs.length] }))
      (h := fun s0 => ({ s0 with srcs := s0.srcs ++ [x] } : St))
      ⟨fun _ => rfl, fun _ => rfl, fun _ => rfl, fun _ => rfl, fun _ => rfl⟩, rfl⟩

theorem apiSubscribe_triple {R : St → Prop} (hR : Stable R) (m : ModId) (t : String) (sl : Nat) (p : Option Prio) (pb : Nat)
    (os : Bool) (u : Nat) : Triple R (apiSubscribe m t sl p pb os u) (fun _ => R) := by
  unfold apiSubscribe
  refine guarded_triple hR m _ _ _ _ ?_
  apply Triple.ite
  · intro _; exact Triple.retR _ (fun _ h => h.1)
  · intro _
    refine Triple.bind Triple.get fun s => ?_
    cases hct : consumeToken s m with
    | none => exact Triple.retR _ (fun _ h => h.2.1)
    | some s' =>
      simp only
      have hv := consumeToken_view s s' m hct
      refine Triple.bind (Q := fun _ => R) ?_ fun _ => ?_
      · refine Triple.set s' fun st hI hp => ?_
        obtain ⟨he, hr, _⟩ := hp
        subst he
        exact ⟨Inv.congr hv.1 hv.2.1 hv.2.2.1 hI hv.2.2.2, fun _ hM => Mono.congr_right hv.1 hM, hR.view _ _ hv.1 hr⟩
      cases s'.mods[m]? with
      | none => exact Triple.retR _ (fun _ h => h)
      | some md =>
        simp only
        split
        · refine Triple.bind (Q := fun _ => R) (Triple.quietS hR _ (quiet_updSrc _ _)) fun _ => Triple.retR _ (fun _ h => h)
        · refine Triple.bind (Q := fun _ => R) (Triple.quietS hR _ (quiet_addSub m _)) fun _ => Triple.retR _ (fun _ h => h)

theorem apiUnsubscribe_triple {R : St → Prop} (hR : Stable R) (m : ModId) (t : String) : Triple R (apiUnsubscribe m t) (fun _ => R) := by
  unfold apiUnsubscribe
  refine guarded_triple hR m _ _ _ _ ?_
  refine Triple.bind Triple.get fun s => ?_
  cases s.mods[m]? with
  | none => exact Triple.retR _ (fun _ h => h.2.1)
  | some md =>
    simp only
    apply Triple.ite
    · intro _; exact Triple.retR _ (fun _ h => h.2.1)
    · intro _
      split
      · refine Triple.bind (Q := fun _ => R) ?_ fun _ => Triple.retR _ (fun _ h => h)
        exact Triple.weaken (Triple.quietS hR _ (quiet_removeSrc m _)) (fun _ _ h => h.2.1) (fun _ _ _ h => h)
      · exact Triple.retR _ (fun _ h => h.2.1)

theorem apiRegSrc_triple {R : St → Prop} (hR : Stable R) (m : ModId) (ok : Bool) (x : Src) (pb : Nat) :
    Triple R (apiRegSrc m ok x pb) (fun _ => R) := by
  unfold apiRegSrc
  apply Triple.ite
  · intro _; exact Triple.retR _ (fun _ h => h)
  · intro _
    refine guarded_triple hR m _ _ _ _ ?_
    apply Triple.ite
    · intro _; exact Triple.retR _ (fun _ h => h.1)
    · intro _
      refine Triple.bind Triple.get fun s => ?_
      have hv := addSrc_view s m (forceHigh (forceOneshot (dupSrc x)))
      refine Triple.bind (Q := fun _ => R) ?_ fun _ => Triple.retR _ (fun _ h => h)
      refine Triple.set _ fun st hI hp => ?_
      obtain ⟨he, hr, _⟩ := hp
      subst he
      exact ⟨Inv.congr hv.1 hv.2.1 hv.2.2.1 hI hv.2.2.2, fun _ hM => Mono.congr_right hv.1 hM, hR.view _ _ hv.1 hr⟩

theorem burstP_triple {R : St → Prop} (hR : Stable R) (m r : ModId) (af : Bool) :
    ∀ (n p : Nat) (acc : Int), Triple R (burstP m r af n p acc) (fun _ => R)
  | 0, _, _ => Triple.retR _ (fun _ h => h)
  | n + 1, p, acc => by
    unfold burstP
    exact Triple.bind (Q := fun _ => R) (apiTell_triple hR m r p af) fun c => burstP_triple hR m r af n (p + 1) _

theorem apiDeregSrc_triple {R : St → Prop} (hR : Stable R) (m : ModId) (ok : Bool) (k : SrcKind) (key : Nat) :
    Triple R (apiDeregSrc m ok k key) (fun _ => R) := by
  unfold apiDeregSrc
  apply Triple.ite
  · intro _; exact Triple.retR _ (fun _ h => h)
  · intro _
    apply Triple.ite
    · intro _; exact Triple.retR _ (fun _ h => h)
    · intro _
      refine guarded_triple hR m _ _ _ _ ?_
      refine Triple.bind Triple.get fun s => ?_
      cases s.mods[m]? with
      | none => exact Triple.retR _ (fun _ h => h.2.1)
      | some md =>
        simp only
        apply Triple.ite
        · intro _; exact Triple.retR _ (fun _ h => h.2.1)
        · intro _
          split
          · refine Triple.bind (Q := fun _ => R) ?_ fun _ => Triple.retR _ (fun _ h => h)
            exact Triple.weaken (Triple.quietS hR _ (quiet_removeSrc m _)) (fun _ _ h => h.2.1) (fun _ _ _ h => h)
          · exact Triple.retR _ (fun _ h => h.2.1)

theorem apiSrcLen_triple {R : St → Prop} (hR : Stable R) (m : ModId) : Triple R (apiSrcLen m) (fun _ => R) := by
  unfold apiSrcLen
  refine guarded_triple hR m _ _ _ _ ?_
  refine Triple.bind Triple.get fun s => ?_
  cases s.mods[m]? with
  | none => exact Triple.retR _ (fun _ h => h.2.1)
  | some md => exact Triple.retR _ (fun _ h => h.2.1)


theorem modByName_none_free (s : St) (n : String) (h : s.modByName n = none) :
    ∀ (k : Nat) (g : Sig), s.sigs[k]? = some g → g.inCtx = true → g.name ≠ n := by
  intro k g hk hin hname
  unfold St.modByName at h
  rw [List.findIdx?_eq_none_iff] at h
  rw [sigs_getElem?] at hk
  cases hm : s.mods[k]? with
  | none => simp [hm] at hk
  | some md =>
    simp [hm] at hk
    subst hk
    have := h md (List.mem_of_getElem? hm)
    simp [Mod.sig] at hin hname
    simp [hin, hname] at this

theorem apiRegister_triple {R : St → Prop} (hR : Stable R) (name : String) (slot : Nat) (flags : ModFlags) (hooks : Hooks) :
    Triple R (apiRegister name slot flags hooks) (fun _ => R) := by
  unfold apiRegister
  apply Triple.ite
  · intro _; exact Triple.retR _ (fun _ h => h)
  · intro _
    refine Triple.bind Triple.get fun s => ?_
    cases mctx s with
    | none => exact Triple.retR _ (fun _ h => h.2)
    | some c =>
      simp only
      apply Triple.ite
      · intro _; exact Triple.retR _ (fun _ h => h.2)
      · intro _
        -- the final step: append the module if its name is (still) free
        have hgo : Triple R (do
            let s ← getSt
            if (s.modByName name).isSome then pure (-12)
            else match s.ctx with
              | some c' =>
                if c'.id == c.id then do
                  Lm.Core.modify fun s => { s with mods := s.mods ++ [{ name := name, slot := slot, ctxId := c'.id, flags := flags, hooks := hooks }] }
                  pure 0
                else do Lm.Core.modify fun s => s.emit (.note "CTX-CHANGED-DURING-REGISTER"); pure (-12)
              | none => do Lm.Core.modify fun s => s.emit (.note "CTX-CHANGED-DURING-REGISTER"); pure (-12) : Prog Int) (fun _ => R) := by
          refine Triple.bind Triple.get fun s1 => ?_
          apply Triple.ite
          · intro _; exact Triple.retR _ (fun _ h => h.2)
          · intro hfree
            cases hc1 : s1.ctx with
            | none =>
              simp only
              refine Triple.bind (Q := fun _ => R) ?_ fun _ => Triple.retR _ (fun _ h => h)
              exact Triple.weaken (Triple.quietS hR _ (quiet_emit _)) (fun _ _ h => h.2) (fun _ _ _ h => h)
            | some c' =>
              simp only
              apply Triple.ite
              · intro _
                refine Triple.bind (Q := fun _ => R) ?_ fun _ => Triple.retR _ (fun _ h => h)
                refine Triple.mod _ fun st hI hp => ?_
                obtain ⟨he, hr⟩ := hp
                subst he
                have hn : s1.modByName name = none := by
                  cases h : s1.modByName name with
                  | none => rfl
                  | some _ => simp [h] at hfree
                have hmono : Mono s1 { s1 with mods := s1.mods ++ [{ name := name, slot := slot, ctxId := c'.id, flags := flags, hooks := hooks }] } :=
                  Mono_append s1 s1 _ (Mono.refl s1)
                exact ⟨inv_append s1 _ c' hI hc1 rfl rfl rfl (modByName_none_free s1 name hn),
                  fun _ hM => Mono.trans hM hmono, hR.mono _ _ hmono hr⟩
              · intro _
                refine Triple.bind (Q := fun _ => R) ?_ fun _ => Triple.retR _ (fun _ h => h)
                exact Triple.weaken (Triple.quietS hR _ (quiet_emit _)) (fun _ _ h => h.2) (fun _ _ _ h => h)
        cases s.modByName name with
        | none => exact Triple.weaken hgo (fun _ _ h => h.2) (fun _ _ _ h => h)
        | some old =>
          simp only
          cases s.mods[old]? with
          | none => exact Triple.weaken hgo (fun _ _ h => h.2) (fun _ _ _ h => h)
          | some omd =>
            simp only
            apply Triple.ite
            · intro _; exact Triple.retR _ (fun _ h => h.2)
            · intro _
              refine Triple.bind (Q := fun _ => R) ?_ fun _ => ?_
              · exact Triple.weaken (Triple.updCtx hR _ (fun _ => rfl) (fun _ => rfl)) (fun _ _ h => h.2) (fun _ _ _ h => h)
              refine Triple.bind (Q := fun _ => R) (modDeregCore_triple hR _ (Triple.retR _ (fun _ h => h)) old) fun r => ?_
              refine Triple.bind (Q := fun _ => R) (Triple.updCtx hR _ (fun _ => rfl) (fun _ => rfl)) fun _ => ?_
              apply Triple.ite
              · intro _; exact Triple.retR _ (fun _ h => h)
              · intro _; exact hgo

theorem apiCtxRegister_triple {R : St → Prop} (hR : Stable R) (persist : Bool) : Triple R (apiCtxRegister persist) (fun _ => R) := by
  unfold apiCtxRegister
  refine Triple.bind Triple.get fun s => ?_
  cases hc : s.ctx with
  | some c => exact Triple.retR _ (fun _ h => h.2)
  | none =>
    simp only
    refine Triple.bind (Q := fun _ => R) ?_ fun _ => Triple.retR _ (fun _ h => h)
    refine Triple.set _ fun st hI hp => ?_
    obtain ⟨he, hr⟩ := hp
    subst he
    exact ⟨inv_ctx_new s { persist := persist, id := s.nextCtx } hI rfl rfl, fun _ hM => Mono.congr_right (s := s) rfl hM,
      hR.view s _ rfl hr⟩

theorem ctxUpd_triple {R : St → Prop} (hR : Stable R) (f : Ctx → Ctx) (hid : ∀ c, (f c).id = c.id) (hrun : ∀ c, (f c).running = c.running)
    (r : Int) {P : St → Prop} : Triple (fun s => P s ∧ R s) (do Lm.Core.modify (fun s => s.updCtx f); pure r) (fun _ => R) :=
  Triple.bind (Q := fun _ => R) (Triple.weaken (Triple.updCtx hR f hid hrun) (fun _ _ h => h.2) (fun _ _ _ h => h))
    fun _ => Triple.retR _ (fun _ h => h)

theorem apiQuit_triple {R : St → Prop} (hR : Stable R) (code : Nat) : Triple R (apiQuit code) (fun _ => R) := by
  unfold apiQuit
  refine Triple.bind Triple.get fun s => ?_
  cases mctx s with
  | none => exact Triple.retR _ (fun _ h => h.2)
  | some c =>
    simp only
    apply Triple.ite
    · intro _; exact Triple.retR _ (fun _ h => h.2)
    · intro _
      refine ctxUpd_triple hR _ ?_ ?_ 0 <;> (intro _; rfl)

theorem apiFinalize_triple {R : St → Prop} (hR : Stable R) : Triple R apiFinalize (fun _ => R) := by
  unfold apiFinalize
  refine Triple.bind Triple.get fun s => ?_
  cases mctx s with
  | none => exact Triple.retR _ (fun _ h => h.2)
  | some c =>
    simp only
    refine ctxUpd_triple hR _ ?_ ?_ 0 <;> (intro _; rfl)

theorem apiCtxLen_triple {R : St → Prop} (hR : Stable R) : Triple R apiCtxLen (fun _ => R) := by
  unfold apiCtxLen
  refine Triple.bind Triple.get fun s => ?_
  cases mctx s with
  | none => exact Triple.retR _ (fun _ h => h.2)
  | some c => exact Triple.retR _ (fun _ h => h.2)

theorem apiSetTick_triple {R : St → Prop} (hR : Stable R) (ns : Nat) : Triple R (apiSetTick ns) (fun _ => R) := by
  unfold apiSetTick
  refine Triple.bind Triple.get fun s => ?_
  cases mctx s with
  | none => exact Triple.retR _ (fun _ h => h.2)
  | some c =>
    simp only
    refine ctxUpd_triple hR _ ?_ ?_ 0 <;> (intro _; rfl)

/-- every API line of the machine -/
theorem apiProg_triple (c : Cfg) (op : Op) : Triple (fun _ => True) (apiProg c op) (fun _ _ => True) := by
  have hR := Stable.true
  cases op with
  | ctxReg p => exact apiCtxRegister_triple hR p
  | ctxDereg => exact ctxDeregisterP_triple hR
  | finalize => exact apiFinalize_triple hR
  | dispatch => exact apiDispatch_triple hR
  | loop => exact apiLoop_triple hR
  | quit code => exact apiQuit_triple hR code
  | ctxLen => exact apiCtxLen_triple hR
  | setTick ns => exact apiSetTick_triple hR ns
  | reg h name slot flags hooks =>
    simp only [apiProg]
    refine Triple.bind (Q := fun _ _ => True) (apiRegister_triple hR name slot flags hooks) fun r => ?_
    refine Triple.bind (Q := fun _ _ => True) ?_ fun _ => Triple.retR _ (fun _ h => h)
    refine Triple.mod _ fun s hI _ => ?_
    by_cases h0 : (r == 0) = true
    · simp only [h0, if_true]
      exact ⟨Inv.congr (s := s) rfl rfl rfl hI, fun _ hM => Mono.congr_right (s := s) rfl hM, trivial⟩
    · simp only [h0]
      exact ⟨hI, fun _ hM => hM, trivial⟩
  | dereg m =>
    simp only [apiProg]
    refine Triple.bind (Q := fun _ _ => True) (modDeregisterP_triple hR m) fun r => ?_
    refine Triple.bind (Q := fun _ _ => True) ?_ fun _ => Triple.retR _ (fun _ h => h)
    refine Triple.mod _ fun s hI _ => ?_
    by_cases h0 : (r == 0) = true
    · simp only [h0, if_true]
      exact ⟨Inv.congr (s := s) rfl rfl rfl hI, fun _ hM => Mono.congr_right (s := s) rfl hM, trivial⟩
    · simp only [h0]
      exact ⟨hI, fun _ hM => hM, trivial⟩
  | unref m =>
    simp only [apiProg]
    refine Triple.bind (Q := fun _ _ => True) ?_ fun _ => Triple.retR _ (fun _ h => h)
    exact Triple.mod _ fun s hI _ => ⟨Inv.congr (s := s) rfl rfl rfl hI, fun _ hM => Mono.congr_right (s := s) rfl hM, trivial⟩
  | start m => exact apiStart_triple hR m
  | pause m => exact apiPause_triple hR m
  | resume m => exact apiResume_triple hR m
  | stop m => exact apiStop_triple hR m
  | become m h => exact apiBecome_triple hR m h
  | unbecome m => exact apiUnbecome_triple hR m
  | stash m idx => exact apiStash_triple hR m _
  | unstash m n => exact apiUnstash_triple hR m n
  | batchSize m n => exact apiBatchSize_triple hR m n
  | batchTimeout m ns => exact apiBatchTimeout_triple hR m ns
  | tokenBucket m r b => exact apiTokenBucket_triple hR m r b
  | tell m r p af => exact apiTell_triple hR m r p af
  | publish m t p af => exact apiPublish_triple hR m t p af
  | pill m r => exact apiPill_triple hR m r
  | burst m r p af n => exact burstP_triple hR m r af n p 0
  | subscribe m t sl p pb os u => exact apiSubscribe_triple hR m t sl p pb os u
  | unsubscribe m t => exact apiUnsubscribe_triple hR m t
  | regSrc m ok x pb => exact apiRegSrc_triple hR m ok x pb
  | deregSrc m ok k key => exact apiDeregSrc_triple hR m ok k key
  | srcLen m => exact apiSrcLen_triple hR m
  | errno e => exact Triple.retR _ (fun _ h => h)
  | ret b => exact Triple.retR _ (fun _ h => h)
  | foreign hc op' => exact Triple.retR _ (fun _ h => h)
  | xtell m name pill => exact Triple.retR _ (fun _ h => h)

theorem apiProg_safe (c : Cfg) (op : Op) : SafeA Inv Mono (apiProg c op) := by
  intro s hI
  exact wpA_mono _ _ _ _ _ _ _ (fun _ s' h => ⟨h.1, h.2.1⟩) (apiProg_triple c op s s hI (Mono.refl s) trivial)

/-- **Every configuration reachable by any sequence of script lines** — API calls from outside and
from inside callbacks at any depth, any callback return values — satisfies the invariants. -/
theorem reach_inv (ops : List Op) : CfgOK Inv Mono (run {} ops) :=
  reach_ok Inv Mono frameable apiProg_safe inv_init ops

end Lm.Core
