import Lm.Inv.ThpoolLive
/-! Histories (label sequences): splitting, and facts that never change once established. -/
namespace Lm.Thpool
set_option linter.unusedSimpArgs false
set_option linter.unusedVariables false

/-- `s` is reached from the initial state of `c` by the history `ls`, every API call of which
respects its precondition -/
def Hist (c : Cfg) (ls : List Label) (s : State) : Prop :=
  okRun (init c) ls = true ∧ run (init c) ls = some s

theorem run_append (s : State) (l1 l2 : List Label) :
    run s (l1 ++ l2) = (run s l1).bind (fun s1 => run s1 l2) := by
  induction l1 generalizing s with
  | nil => simp [run]
  | cons l ls ih =>
    simp only [List.cons_append, run]
    cases step s l with
    | none => simp
    | some s1 => simpa using ih s1

theorem okRun_append (s s1 : State) (l1 l2 : List Label) (h : run s l1 = some s1) :
    okRun s (l1 ++ l2) = (okRun s l1 && okRun s1 l2) := by
  induction l1 generalizing s with
  | nil => simp [run] at h; subst h; simp [okRun]
  | cons l ls ih =>
    simp only [run] at h
    simp only [List.cons_append, okRun]
    cases hs : step s l with
    | none => simp [hs] at h
    | some s2 =>
      simp only [hs] at h ⊢
      rw [ih s2 h, Bool.and_assoc]

theorem hist_inv {c : Cfg} (hc : 0 < c.maxThreads) {ls : List Label} {s : State} (h : Hist c ls s) : Inv s :=
  inv_reach hc (reach_of_run ls _ _ Reach.init h.1 h.2)

theorem hist_cfg {c : Cfg} {ls : List Label} {s : State} (h : Hist c ls s) : s.cfg = c :=
  reach_cfg (reach_of_run ls _ _ Reach.init h.1 h.2)

/-- a history can be cut anywhere -/
theorem hist_split {c : Cfg} {l1 l2 : List Label} {s : State} (h : Hist c (l1 ++ l2) s) :
    ∃ s1, Hist c l1 s1 ∧ run s1 l2 = some s ∧ okRun s1 l2 = true := by
  have hr := h.2
  rw [run_append] at hr
  cases h1 : run (init c) l1 with
  | none => simp [h1] at hr
  | some s1 =>
    simp [h1] at hr
    have hk := h.1
    rw [okRun_append _ s1 _ _ h1, Bool.and_eq_true] at hk
    exact ⟨s1, ⟨hk.1, h1⟩, hr, hk.2⟩

theorem hist_snoc {c : Cfg} {ls : List Label} {s s' : State} {l : Label} (h : Hist c ls s)
    (hp : pre s l = true) (hs : step s l = some s') : Hist c (ls ++ [l]) s' := by
  refine ⟨?_, ?_⟩
  · rw [okRun_append _ s _ _ h.2, h.1]; simp [okRun, hp, hs]
  · rw [run_append, h.2]; simp [run, hs]

set_option maxHeartbeats 1000000 in
/-- what a task was submitted with, and that it was discarded, never change -/
theorem stable_step {s s' : State} {l : Label} (h : step s l = some s') (k : TaskId) :
    ((s.task k).submitted = true → (s'.task k).submitted = true ∧ (s'.task k).arg = (s.task k).arg) ∧
    ((s.task k).discarded = true → (s'.task k).discarded = true) := by
  step_cases h
  all_goals first
    | exact ⟨fun h => ⟨h, rfl⟩, fun h => h⟩
    | (simp only [State.goto, upd_apply]
       split <;> simp_all)

theorem stable_run (k : TaskId) : ∀ (ls : List Label) (s s' : State), run s ls = some s' →
    ((s.task k).submitted = true → (s'.task k).submitted = true ∧ (s'.task k).arg = (s.task k).arg) ∧
    ((s.task k).discarded = true → (s'.task k).discarded = true)
  | [], s, s', h => by simp [run] at h; subst h; exact ⟨fun h => ⟨h, rfl⟩, fun h => h⟩
  | l :: ls, s, s', h => by
    simp only [run] at h
    cases hs : step s l with
    | none => simp [hs] at h
    | some s1 =>
      simp only [hs] at h
      have a := stable_step hs k
      have b := stable_run k ls s1 s' h
      refine ⟨fun hh => ?_, fun hh => b.2 (a.2 hh)⟩
      have a1 := a.1 hh
      have b1 := b.1 a1.1
      exact ⟨b1.1, b1.2.trans a1.2⟩

/-- the effect of the `m_thpool_add` call itself -/
theorem addCall_effect {s s' : State} {t : Tid} {k : TaskId} {a : Nat} (h : step s ⟨t, .addCall k a⟩ = some s') :
    (s'.task k).submitted = true ∧ (s'.task k).arg = a ∧ (s.task k).submitted = false := by
  unfold step at h
  simp only [] at h
  split at h <;> simp at h
  · obtain ⟨h2, h3⟩ := h; subst h3; simp [State.goto, h2]
  all_goals (obtain ⟨⟨_, h2⟩, h3⟩ := h; subst h3; simp [State.goto, h2])

theorem inTask_isW (p : Pc) (h : inTask p = true) : isW p = true := by cases p <;> simp_all
theorem inTask_not_gone (p : Pc) (h : inTask p = true) : gone p = false := by cases p <;> simp_all

theorem nodup_map_of_inj {α β : Type} (f : α → β) : ∀ (l : List α), l.Nodup → (∀ a ∈ l, ∀ b ∈ l, f a = f b → a = b) → (l.map f).Nodup
  | [], _, _ => by simp
  | a :: l, hn, hinj => by
    have hn' := List.nodup_cons.mp hn
    simp only [List.map_cons, List.nodup_cons]
    refine ⟨?_, nodup_map_of_inj f l hn'.2 (fun x hx y hy => hinj x (by simp [hx]) y (by simp [hy]))⟩
    intro hm
    obtain ⟨b, hb, he⟩ := List.mem_map.mp hm
    have := hinj b (by simp [hb]) a (by simp) he
    subst this
    exact hn'.1 hb

end Lm.Thpool
