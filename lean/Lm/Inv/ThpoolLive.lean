import Lm.Inv.ThpoolAll
/-!
# Deadlock freedom of the thread-pool transition system

In every reachable state that is not final some thread can take a step that is neither a spurious
wake-up nor a new API call of a submitter (the only API call that may be needed is the `free` of
thread 0).  `nextAct` names the step a thread takes; `ready` is its guard.
-/
namespace Lm.Thpool
variable {s : State}
set_option linter.unusedSimpArgs false
set_option linter.unusedVariables false

/-- the label thread `t` can fire next (`fresh`: an unused thread id for `pthread_create`) -/
def nextAct (s : State) (t : Tid) (fresh : Tid) : Act :=
  match s.pc t with
  | .wLock | .sLock | .nLock | .fLock => .lock
  | .wLoop | .wBreakLen => .qlen s.tasks.length
  | .wWait | .fWait => .wait
  | .wWaiting | .fWaiting => .reacq
  | .wBreakChk | .wInc | .wDec | .wExitDec | .sShutChk | .sLazy0 | .nShutChk | .nLazy0 | .fSetShut | .fAliveChk | .fJoinInit => .tau
  | .wDequeue => .deq (s.tasks.headD 0)
  | .wUnlock | .wExitUnlock | .sFailUnlock | .sPermUnlock | .sUnlock | .nFailUnlock | .nPermUnlock | .nUnlock | .fUnlock => .unlock
  | .wCall => .taskStart (s.cur t) (s.task (s.cur t)).arg
  | .wInTask => .taskEnd (s.cur t)
  | .wExitBcast | .fBcast => .broadcast
  | .wRet => .exit
  | .sLazy1 | .sLazy2 | .nLazy1 | .nLazy2 => .tlen s.threads.length
  | .sCreate | .nCreate | .mNewCreate => .create fresh
  | .sInsert | .nInsert | .mNewInsert => .tins (s.newTh t)
  | .sEnq => .enq (s.cur t)
  | .nEnq => .enq (s.addK t)
  | .sSignal | .nSignal => .signal s.waiters.head?
  | .sRetOk | .nRetOk => .addRet 0
  | .sRetPerm | .nRetPerm => .addRet EPERM
  | .sRetFail | .nRetFail => .addRet EAGAIN
  | .mNewRet => .newRet true
  | .mIdle => .freeCall true
  | .fJoin => match s.joinRest with
    | [] => .tau
    | j :: _ => .join j
  | .fCondDestroy => .destroyCond
  | .fMutDestroy => .destroyMutex
  | .fQueueFree => .qfree s.tasks
  | .fListFree => .tfree
  | .fFreePool => .freePool
  | .fRet => if s.newFailed then .newRet false else .freeRet
  | .none | .sIdle | .wDone | .mDone => .tau

/-- the guard of `nextAct` -/
def ready (s : State) (t : Tid) : Prop :=
  match s.pc t with
  | .none | .sIdle | .wDone | .mDone => False
  | .wLock | .sLock | .nLock | .fLock => s.lockOwner = none
  | .wWaiting | .fWaiting => t ∉ s.waiters ∧ s.lockOwner = none
  | .wDequeue => s.tasks ≠ []
  | .mIdle => s.adding = []
  | .fJoin => match s.joinRest with
    | [] => True
    | j :: _ => s.pc j = .wDone
  | _ => True

theorem step_of_ready (t fresh : Tid) (hf : fresh ≠ 0 ∧ s.pc fresh = .none) (hr : ready s t) :
    ∃ s', step s ⟨t, nextAct s t fresh⟩ = some s' ∧ pre s ⟨t, nextAct s t fresh⟩ = true ∧
      nextAct s t fresh ≠ .spurious ∧ ∀ k v, nextAct s t fresh ≠ .addCall k v := by
  by_cases h1 : s.pc t = .sSignal
  · cases hw : s.waiters <;> simp [step, nextAct, pre, h1, hw]
  by_cases h1n : s.pc t = .nSignal
  · cases hw : s.waiters <;> simp [step, nextAct, pre, h1n, hw]
  by_cases h2 : s.pc t = .fJoin
  · cases hj : s.joinRest <;> simp [ready, h2, hj] at hr <;> simp [step, nextAct, pre, h2, hj, hr]
  by_cases h3 : s.pc t = .fRet
  · cases hn : s.newFailed <;> simp [step, nextAct, pre, h3, hn]
  unfold ready at hr
  unfold step nextAct pre
  cases hpc : s.pc t <;> simp [hpc] at hr h1 h1n h2 h3 ⊢ <;> (try simp [hr, hf]) <;> (try (split <;> simp_all))


/-- nothing is left to do: `free` has returned, every worker has returned, no `add` is in progress -/
def final (s : State) : Prop :=
  s.pc 0 = .mDone ∧ ∀ u, u ≠ 0 → (s.pc u = .none ∨ s.pc u = .sIdle ∨ s.pc u = .wDone)

def idle : Pc → Bool
  | .none | .sIdle | .wDone | .mDone => true
  | _ => false

theorem ready_of_owner (hi : Inv s) (t : Tid) (hl : s.lockOwner = some t) : ready s t := by
  have h1 := hi.owner t hl
  have h2 := hi.deqNonempty t
  unfold ready
  cases hpc : s.pc t <;> simp [hpc] at h1 h2 ⊢
  exact h2

theorem ready_of_free (hi : Inv s) (hl : s.lockOwner = none) (u : Tid) (h1 : idle (s.pc u) = false)
    (h2 : s.pc u ≠ .mIdle) (h3 : s.pc u ≠ .fJoin) (h4 : waitingPc (s.pc u) = true → u ∉ s.waiters) : ready s u := by
  have hm := hi.mutex u
  rw [hl] at hm
  unfold ready
  cases hpc : s.pc u <;> simp [hpc, idle] at h1 h2 h3 h4 hm ⊢ <;> first | exact hl | exact ⟨h4, hl⟩

/-- a worker that is not done can move when the mutex is free and the broadcast of `wait_pool` has happened -/
theorem worker_ready (hi : Inv s) (hl : s.lockOwner = none) (hb : 6 ≤ ph (s.pc 0)) (u : Tid) (hw : isW (s.pc u) = true)
    (hd : s.pc u ≠ .wDone) : ready s u := by
  have hne : u ≠ 0 := fun e => by
    have := isW_not_isM _ hw; rw [e, hi.mainIsM] at this; cases this
  apply ready_of_free hi hl u
  · revert hw hd; cases s.pc u <;> simp [idle]
  · intro e; simp [e] at hw
  · intro e; simp [e] at hw
  · intro _ hmem; exact hne (hi.bcastDone hb u hmem)

theorem exists_ready (hi : Inv s) (hnf : ¬ final s) : ∃ t, ready s t := by
  cases hl : s.lockOwner with
  | some t => exact ⟨t, ready_of_owner hi t hl⟩
  | none =>
    by_cases hD : s.pc 0 = .mDone
    · -- free has returned: some other thread is not at rest
      have : ¬ ∀ u, u ≠ 0 → (s.pc u = .none ∨ s.pc u = .sIdle ∨ s.pc u = .wDone) := fun h => hnf ⟨hD, h⟩
      obtain ⟨u, hu⟩ := Classical.not_forall.mp this
      have hu0 : u ≠ 0 := fun e => hu (fun h => absurd e h)
      have hrest : ¬ (s.pc u = .none ∨ s.pc u = .sIdle ∨ s.pc u = .wDone) := fun h => hu (fun _ => h)
      have hM := hi.othersNotM u hu0
      refine ⟨u, ready_of_free hi hl u ?_ ?_ ?_ ?_⟩
      · revert hrest hM; cases s.pc u <;> simp [idle]
      · intro e; simp [e] at hM
      · intro e; simp [e] at hM
      · intro _ hmem; exact hu0 (hi.bcastDone (by simp [hD]) u hmem)
    by_cases hI : s.pc 0 = .mIdle
    · cases ha : s.adding with
      | nil => exact ⟨0, by simp [ready, hI, ha]⟩
      | cons u us =>
        have hS := (hi.addingIff u).mp (by simp [ha])
        have hu0 : u ≠ 0 := fun e => by rw [e, hI] at hS; simp at hS
        refine ⟨u, ready_of_free hi hl u ?_ ?_ ?_ ?_⟩
        · revert hS; cases s.pc u <;> simp [idle]
        · intro e; simp [e] at hS
        · intro e; simp [e] at hS
        · intro hw; revert hS hw; cases s.pc u <;> simp
    by_cases hJ : s.pc 0 = .fJoin
    · cases hj : s.joinRest with
      | nil => exact ⟨0, by simp [ready, hJ, hj]⟩
      | cons j js =>
        by_cases hd : s.pc j = .wDone
        · exact ⟨0, by simp [ready, hJ, hj, hd]⟩
        · have hm := hi.joinSub hJ j (by simp [hj])
          have hw := (hi.workersIff j).mp (hi.thrSub j hm)
          exact ⟨j, worker_ready hi hl (by simp [hJ]) j hw hd⟩
    by_cases hW : s.pc 0 = .fWaiting
    · by_cases hmem : 0 ∈ s.waiters
      · by_cases ha : s.alive = 0
        · obtain ⟨u, hu⟩ := hi.mainWait hW hmem ha
          have := hi.mutex u (by simp [hu])
          rw [hl] at this; cases this
        · have hc := hi.aliveCnt (by simp [hW])
          have hpos : 0 < s.threads.countP (fun u => beforeDec (s.pc u)) := by omega
          obtain ⟨u, hmu, hbu⟩ := List.countP_pos_iff.mp hpos
          have hw := beforeDec_isW _ hbu
          refine ⟨u, worker_ready hi hl (by simp [hW]) u hw ?_⟩
          intro e; simp [e] at hbu
      · exact ⟨0, by simp [ready, hW, hmem, hl]⟩
    · refine ⟨0, ready_of_free hi hl 0 ?_ hI hJ ?_⟩
      · have := hi.mainIsM; revert this hD; cases s.pc 0 <;> simp [idle]
      · intro hw; have := hi.mainIsM; revert this hw hW; cases s.pc 0 <;> simp

/-- **No deadlock.**  In a state satisfying the invariant that is not final, some thread can take a
step other than a spurious wake-up and other than a new `m_thpool_add` call. -/
theorem progress (hi : Inv s) (hnf : ¬ final s) :
    ∃ t a s', step s ⟨t, a⟩ = some s' ∧ pre s ⟨t, a⟩ = true ∧ a ≠ .spurious ∧ ∀ k v, a ≠ .addCall k v := by
  obtain ⟨t, hr⟩ := exists_ready hi hnf
  obtain ⟨N, hN⟩ := hi.finSupp
  have hf : (N + 1) ≠ 0 ∧ s.pc (N + 1) = .none := ⟨by omega, hN (N + 1) (by omega)⟩
  obtain ⟨s', h1, h2, h3, h4⟩ := step_of_ready t (N + 1) hf hr
  exact ⟨t, _, s', h1, h2, h3, h4⟩

end Lm.Thpool
