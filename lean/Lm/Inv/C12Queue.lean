import Lm.Inv.C12Refine
/-! # `queue.c` refines the FIFO array machine -/
namespace Lm.Struct
open Lm.Spec.C12

theorem Cont.WF.withTail {q : Cont} (h : q.WF) (t : Option NodeId) : Cont.WF { q with tail := t } :=
  ⟨h.len, h.nodup, h.fresh, h.nonnull⟩

theorem insertAt_length (c : Chain) (nd : Node) : insertAt c c.length nd = c ++ [nd] := by
  simp [insertAt]

theorem drop_cons (d : Bool) (x : Val) (r : List Val) : drop d (x :: r) = drop d [x] ++ drop d r := by
  cases d <;> simp [drop]

theorem drop_nil (d : Bool) : drop d [] = [] := by cases d <;> simp [drop]

namespace Queue

/-- under a correct tail pointer `enqueue` links the new node behind the last one -/
theorem enqueue_chain {q : Cont} (wf : q.WF) (tl : tailOK .queue q) (nd : Node) :
    enqChain q nd = q.chain ++ [nd] := by
  unfold enqChain
  simp only [tailOK] at tl
  cases hl : q.chain.getLast? with
  | none =>
    have : q.chain = [] := List.getLast?_eq_none_iff.mp hl
    simp [tl, lastId, this]
  | some l =>
    have hne : q.chain ≠ [] := by intro e; simp [e] at hl
    have hlen : 0 < q.chain.length := List.length_pos_iff.mpr hne
    have hg : q.chain[q.chain.length - 1]? = some l := by rw [← List.getLast?_eq_getElem?]; exact hl
    have hp := posOf_of_getElem wf.nodup hg
    have : q.chain.length - 1 + 1 = q.chain.length := by omega
    simp [tl, lastId, hl, hp, this, hne]

theorem enqueue_R {s : St} {a : ASt} (v : Val) (h : R .queue s a) :
    R .queue (enqueue s v).1 (Spec.C12.Queue.step a (.enq v)).1 ∧ (enqueue s v).2 = (Spec.C12.Queue.step a (.enq v)).2 := by
  obtain ⟨alive, dt, cmp, xs, cur, out⟩ := a
  obtain ⟨obj, itr, log, fault⟩ := s
  cases obj with
  | none =>
    have h' := h
    simp only [R] at h; obtain ⟨rfl, rfl, rfl, rfl, rfl, _⟩ := h
    simp [enqueue, Spec.C12.Queue.step]; exact h'
  | some q =>
    have h' := h
    simp only [R] at h
    obtain ⟨rfl, rfl, rfl, rfl, rfl, rfl, wf, tl, hi⟩ := h
    by_cases hv : v = 0
    · simp [enqueue, Spec.C12.Queue.step, hv]; exact h'
    · simp only [enqueue, hv, if_false, enqueue_chain wf tl, Spec.C12.Queue.step]
      simp only [R]
      simp [hv, vals]
      refine ⟨?_, ?_, ?_⟩
      · have := (wf.insert (Nat.le_refl _) hv).withTail (some q.fresh)
        simpa [insertAt_length] using this
      · simp [tailOK, lastId_concat]
      · -- a live iterator keeps its place: the link it holds is not touched
        cases itr with
        | none => simpa using hi
        | some it =>
          obtain ⟨ac, hc, hpos, hrem, hdiff, hk⟩ := hi
          refine ⟨ac, hc, linkPos_append _ hpos, hrem, hdiff, hk.1, ?_⟩
          intro hr; have := hk.2 hr; simp; omega

theorem dequeue_empty {s : St} (h : ¬ cLen s.obj > 0) : dequeue s = (s, .ptr 0) := by
  simp [dequeue, h]

theorem dequeue_cons {s : St} {q : Cont} {hd : Node} {rest : Chain} (ho : s.obj = some q) (wf : q.WF)
    (hc : q.chain = hd :: rest) :
    dequeue s = ({ s with obj := some { q with chain := rest, tail := if q.tail = some hd.id then none else q.tail,
                                               len := q.len - 1 } }, .ptr hd.val) := by
  have : cLen s.obj > 0 := by simp [ho, cLen, wf.len, hc]
  have h2 : cLen (some q) > 0 := ho ▸ this
  simp only [dequeue, ho, h2, if_true, hc]

/-- the state after unlinking the head node is well formed, tail pointer included -/
theorem head_erase_ok {k : Kind} {q : Cont} {hd : Node} {rest : Chain} (wf : q.WF) (tl : tailOK k q) (hc : q.chain = hd :: rest) :
    Cont.WF { q with chain := rest, tail := if q.tail = some hd.id then none else q.tail, len := q.len - 1 } ∧
    tailOK k { q with chain := rest, tail := if q.tail = some hd.id then none else q.tail, len := q.len - 1 } := by
  have h0 : q.chain[0]? = some hd := by simp [hc]
  have he : eraseAt q.chain 0 = rest := by simp [eraseAt, hc]
  have h1 := wf.erase (p := 0) (by simp [hc]) (if q.tail = some hd.id then none else q.tail)
  have h2 := tailOK_erase (l := .head) wf tl h0 rfl
  rw [he] at h1 h2
  exact ⟨h1, h2⟩

theorem dequeue_R {s : St} {a : ASt} (h : R .queue s a) (hi : s.itr = none) :
    R .queue (dequeue s).1 (takeFirst a).1 ∧ (dequeue s).2 = (takeFirst a).2 := by
  by_cases hx : a.xs = []
  · have hn : ¬ cLen s.obj > 0 := by rw [R_cLen_pos h]; simp [hx]
    rw [dequeue_empty hn]
    simp [takeFirst, hx]; exact h
  · have hpos : cLen s.obj > 0 := (R_cLen_pos h).mpr hx
    obtain ⟨alive, dt, cmp, xs, cur, out⟩ := a
    obtain ⟨obj, itr, log, fault⟩ := s
    simp only at hi; subst hi
    cases obj with
    | none => simp [cLen, EINVAL] at hpos
    | some q =>
      simp only [R] at h
      obtain ⟨rfl, rfl, rfl, rfl, rfl, rfl, wf, tl, rfl⟩ := h
      cases hc : q.chain with
      | nil => simp [vals, hc] at hx
      | cons hd rest =>
        rw [dequeue_cons rfl wf hc]
        have := head_erase_ok wf tl hc
        simp [takeFirst, vals, hc, R, this]

theorem remove_R {s : St} {a : ASt} (h : R .queue s a) (hi : s.itr = none) :
    R .queue (remove s).1 (rmFirst a).1 ∧ (remove s).2 = (rmFirst a).2 ∧ (remove s).1.itr = none := by
  by_cases hx : a.xs = []
  · have hn : ¬ cLen s.obj > 0 := by rw [R_cLen_pos h]; simp [hx]
    simp only [remove, dequeue_empty hn]
    simp [rmFirst, hx, hi]; exact h
  · have hpos : cLen s.obj > 0 := (R_cLen_pos h).mpr hx
    obtain ⟨alive, dt, cmp, xs, cur, out⟩ := a
    obtain ⟨obj, itr, log, fault⟩ := s
    simp only at hi; subst hi
    cases obj with
    | none => simp [cLen, EINVAL] at hpos
    | some q =>
      simp only [R] at h
      obtain ⟨rfl, rfl, rfl, rfl, rfl, rfl, wf, tl, rfl⟩ := h
      cases hc : q.chain with
      | nil => simp [vals, hc] at hx
      | cons hd rest =>
        have hv : hd.val ≠ 0 := wf.nonnull hd (by simp [hc])
        have e := dequeue_cons (s := ⟨some q, none, log, false⟩) rfl wf hc
        simp only [remove, e]
        have := head_erase_ok wf tl hc
        simp [rmFirst, vals, hc, R, this, hv, absEv_callDtor]

theorem R_nofault {k : Kind} {s : St} {a : ASt} (h : R k s a) : s.fault = false := h.1

theorem clearLoop_R : ∀ (n : Nat) {s : St} {a : ASt}, R .queue s a → s.itr = none → n = a.xs.length →
    R .queue (clearLoop n s) { a with xs := [], out := a.out ++ drop a.dtor a.xs } ∧ (clearLoop n s).itr = none
  | 0, s, a, h, hi, hn => by
    have : a.xs = [] := List.eq_nil_of_length_eq_zero hn.symm
    simp only [clearLoop, this, drop_nil, List.append_nil]
    refine ⟨?_, hi⟩
    have e : { a with xs := [], out := a.out } = a := by cases a; simp_all
    rw [e]; exact h
  | n + 1, s, a, h, hi, hn => by
    have hx : a.xs ≠ [] := by intro e; simp [e] at hn
    have hpos : cLen s.obj > 0 := (R_cLen_pos h).mpr hx
    simp only [clearLoop, R_nofault h, hpos, if_true, Bool.false_eq_true, if_false]
    obtain ⟨h1, _, h3⟩ := remove_R h hi
    cases hxs : a.xs with
    | nil => exact absurd hxs hx
    | cons x r =>
      have hr : (rmFirst a).1 = { a with xs := r, out := a.out ++ drop a.dtor [x] } := by simp [rmFirst, hxs]
      rw [hr] at h1
      have := clearLoop_R n h1 h3 (by simp [hxs] at hn; simpa using hn)
      simpa [drop_cons a.dtor x r, List.append_assoc] using this

theorem clear_R {s : St} {a : ASt} (h : R .queue s a) (hi : s.itr = none) :
    R .queue (clear s).1 (Spec.C12.Queue.step a .clear).1 ∧ (clear s).2 = (Spec.C12.Queue.step a .clear).2 ∧
    (clear s).1.itr = none := by
  by_cases hx : a.xs = []
  · have hn : ¬ cLen s.obj > 0 := by rw [R_cLen_pos h]; simp [hx]
    simp [clear, hn, Spec.C12.Queue.step, hx, hi]; exact h
  · have hpos : cLen s.obj > 0 := (R_cLen_pos h).mpr hx
    cases ho : s.obj with
    | none => simp [ho, cLen, EINVAL] at hpos
    | some q =>
      have hl : q.len = a.xs.length := by
        have := R_len h
        simp [ho, cLen, len] at this
        split at this
        · exact_mod_cast this
        · simp [EINVAL] at this
      have := clearLoop_R q.len h hi hl
      rw [ho] at hpos
      simp only [clear, hpos, if_true, ho, Spec.C12.Queue.step, hx, if_false]
      exact ⟨this.1, trivial, this.2⟩

theorem free_R {s : St} {a : ASt} (h : R .queue s a) :
    R .queue (free s).1 (Spec.C12.Queue.step a .free).1 ∧ (free s).2 = (Spec.C12.Queue.step a .free).2 := by
  -- dropping the iterator handle keeps `R`
  have h0 : R .queue { s with itr := none } { a with cur := none } := by
    obtain ⟨obj, itr, log, fault⟩ := s
    cases obj with
    | none => simp only [R] at h ⊢; simp_all
    | some q => simp only [R] at h ⊢; simp_all
  have hc := clear_R h0 rfl
  have key : ∀ {s' : St} {a' : ASt}, R .queue s' a' → s'.itr = none → R .queue { s' with obj := none } { a' with alive := false, xs := [], cur := none } := by
    intro s' a' hr hi'
    simp only [R] at hr ⊢
    exact ⟨hr.1, hr.2.1, trivial, trivial, trivial, hi'⟩
  simp only [free]
  by_cases hx : a.xs = []
  · have hn : ¬ cLen ({ s with itr := none } : St).obj > 0 := by
      have := R_cLen_pos h; simp only [hx] at this; intro hp; exact (this.mp hp) rfl
    simp only [clear, hn, if_false, Spec.C12.Queue.step, hx, drop_nil, List.append_nil]
    exact ⟨key h0 rfl, trivial⟩
  · simp only [Spec.C12.Queue.step, hx, if_false] at hc ⊢
    obtain ⟨h1, _, h3⟩ := hc
    exact ⟨key h1 h3, trivial⟩

end Queue
end Lm.Struct

namespace Lm.Struct.Queue
open Lm.Spec.C12

theorem okOp_itr {s : St} {o : Op} (h : okOp s o = true) (hm : o.mutates = true) : s.itr = none := by
  simp only [okOp, hm, Bool.true_and, Bool.not_eq_true', Option.isSome_eq_false_iff, Option.isNone_iff_eq_none] at h
  exact h

/-- one call: the chain model does what the FIFO array machine does -/
theorem step_R {s : St} {a : ASt} (o : Op) (h : R .queue s a) (hok : okOp s o = true) :
    R .queue (step s o).1 (Spec.C12.Queue.step a o).1 ∧ (step s o).2 = (Spec.C12.Queue.step a o).2 := by
  cases o with
  | enq v => exact enqueue_R v h
  | deq => exact dequeue_R h (okOp_itr hok rfl)
  | peek => exact peek_R h
  | rm => have := remove_R h (okOp_itr hok rfl); exact ⟨this.1, this.2.1⟩
  | len => simp only [step, Spec.C12.Queue.step, R_len h]; exact ⟨h, trivial⟩
  | clear => have := clear_R h (okOp_itr hok rfl); exact ⟨this.1, this.2.1⟩
  | free => exact free_R h
  | iterate k => exact iterate_R k h
  | itNew => exact itrNew_R h
  | itNext => exact itrNext_R (by decide) h
  | itGet => exact itrGet_R (by decide) h
  | itSet v => exact itrSet_R (by decide) v h
  | itRm => exact itrRemove_R (by decide) h

theorem run_R : ∀ (ops : List Op) {s : St} {a : ASt}, R .queue s a → okRun s ops = true →
    R .queue (run s ops) (Spec.C12.Queue.run a ops) ∧ trace s ops = Spec.C12.Queue.trace a ops
  | [], s, a, h, _ => ⟨h, rfl⟩
  | o :: os, s, a, h, hok => by
    simp only [okRun, Bool.and_eq_true] at hok
    have h1 := step_R o h hok.1
    have h2 := run_R os h1.1 hok.2
    simp only [run, List.foldl_cons, Spec.C12.Queue.run, trace, Spec.C12.Queue.trace, h1.2] at h2 ⊢
    exact ⟨h2.1, by rw [h2.2]⟩

theorem init_R (dtor : Bool) : R .queue (new dtor) (Spec.C12.Queue.init dtor) := by
  simp [R, new, Spec.C12.Queue.init, vals, tailOK, lastId]
  exact ⟨rfl, by simp [ids], by simp, by simp⟩

end Lm.Struct.Queue
