import Lm.Struct.Map
/-!
# Invariants and helper lemmas for the map model (property C05)

Part 1: modular arithmetic, `slot`, occupancy counting.
Part 2: the probing invariant `TWF` (table level) / `WF` (map level); lookup soundness and completeness.
-/
set_option linter.unusedSectionVars false
namespace Lm.Struct.Map
variable {κ : Type} [DecidableEq κ]

/-! ## Modular arithmetic on unreduced indices -/

theorem mod_add_cases (n r o : Nat) (hr : r < n) (ho : o < n) :
    (r + o) % n = if r + o < n then r + o else r + o - n := by
  split
  · exact Nat.mod_eq_of_lt ‹_›
  · rw [Nat.mod_eq_sub_mod (by omega), Nat.mod_eq_of_lt (by omega)]

theorem add_mod_inj (n a o1 o2 : Nat) (h1 : o1 < n) (h2 : o2 < n)
    (h : (a + o1) % n = (a + o2) % n) : o1 = o2 := by
  have hn : 0 < n := by omega
  have e1 : (a + o1) % n = (a % n + o1) % n := by rw [Nat.add_mod, Nat.mod_eq_of_lt h1]
  have e2 : (a + o2) % n = (a % n + o2) % n := by rw [Nat.add_mod, Nat.mod_eq_of_lt h2]
  rw [e1, e2] at h
  have ha : a % n < n := Nat.mod_lt _ hn
  generalize a % n = r at h ha
  rw [mod_add_cases n r o1 ha h1, mod_add_cases n r o2 ha h2] at h
  split at h <;> split at h <;> omega

/-- two unreduced positions less than `n` apart are different slots -/
theorem mod_ne_of_lt (n a b : Nat) (hab : a < b) (hbn : b < a + n) : a % n ≠ b % n := by
  intro h
  have : (a + 0) % n = (a + (b - a)) % n := by
    rw [Nat.add_zero, h]; congr 1; omega
  have := add_mod_inj n a 0 (b - a) (by omega) (by omega) this
  omega

/-- circular distance from a reduced home to an unreduced position, computed on reduced indices -/
theorem dist_of_offset (n hm i d : Nat) (hhm : hm < n) (hd : d < n) (h : (hm + d) % n = i % n) :
    (i % n + n - hm) % n = d := by
  rw [← h, mod_add_cases n hm d hhm hd]
  split
  · rw [show hm + d + n - hm = d + n by omega, Nat.add_mod_right, Nat.mod_eq_of_lt hd]
  · rw [show hm + d - n + n - hm = d by omega, Nat.mod_eq_of_lt hd]

theorem dist_unreduced (n h i : Nat) (hlt : h < i) (hin : i < h + n) :
    (i % n + n - h % n) % n = i - h := by
  have hn : 0 < n := by omega
  have hh : h % n < n := Nat.mod_lt _ hn
  apply dist_of_offset n (h % n) i (i - h) hh (by omega)
  rw [Nat.mod_add_mod]; congr 1; omega

/-! ## `slot` -/

theorem slot_mod (c : List (Cell κ)) (i : Nat) : slot c (i % c.length) = slot c i := by
  unfold slot; rw [Nat.mod_mod]

theorem slot_congr (c : List (Cell κ)) (i j : Nat) (h : i % c.length = j % c.length) : slot c i = slot c j := by
  unfold slot; rw [h]

theorem slot_lt (c : List (Cell κ)) (i : Nat) (h : i < c.length) : slot c i = (c[i]?).join := by
  unfold slot; rw [Nat.mod_eq_of_lt h]

theorem slot_set_self (c : List (Cell κ)) (i : Nat) (x : Cell κ) (hn : 0 < c.length) :
    slot (c.set (i % c.length) x) i = x := by
  unfold slot
  simp [List.length_set, Nat.mod_lt _ hn]

theorem slot_set_ne (c : List (Cell κ)) (i j : Nat) (x : Cell κ) (h : i % c.length ≠ j % c.length) :
    slot (c.set (i % c.length) x) j = slot c j := by
  unfold slot
  simp [List.length_set, List.getElem?_set_ne h]

theorem slot_set (c : List (Cell κ)) (i j : Nat) (x : Cell κ) (hn : 0 < c.length) :
    slot (c.set (i % c.length) x) j = if i % c.length = j % c.length then x else slot c j := by
  split
  · rename_i h
    rw [slot_congr _ j i (by simp [List.length_set, h]), slot_set_self c i x hn]
  · exact slot_set_ne c i j x ‹_›

/-! ## Occupancy -/

def occ (c : List (Cell κ)) : Nat := (c.filterMap id).length

theorem occ_cons (x : Cell κ) (c : List (Cell κ)) : occ (x :: c) = occ c + (if x.isSome then 1 else 0) := by
  cases x <;> simp [occ]

theorem occ_set (c : List (Cell κ)) (i : Nat) (x : Cell κ) (h : i < c.length) :
    occ (c.set i x) + (if (c[i]).isSome then 1 else 0) = occ c + (if x.isSome then 1 else 0) := by
  induction c generalizing i with
  | nil => simp at h
  | cons y ys ih =>
    cases i with
    | zero => simp only [List.set_cons_zero, occ_cons, List.getElem_cons_zero]; omega
    | succ j =>
      simp only [List.length_cons, Nat.add_lt_add_iff_right] at h
      have := ih j h
      simp only [List.set_cons_succ, occ_cons, List.getElem_cons_succ]
      omega

theorem occ_le_length (c : List (Cell κ)) : occ c ≤ c.length := by
  unfold occ; exact List.length_filterMap_le _ _

theorem exists_none_of_occ_lt (c : List (Cell κ)) (h : occ c < c.length) : ∃ j, j < c.length ∧ slot c j = none := by
  induction c with
  | nil => simp at h
  | cons x xs ih =>
    cases x with
    | none => exact ⟨0, by simp, by simp [slot]⟩
    | some e =>
      have : occ xs < xs.length := by simp [occ_cons] at h; omega
      obtain ⟨j, hj, hs⟩ := ih this
      refine ⟨j + 1, by simp; omega, ?_⟩
      rw [slot_lt _ _ (by simp; omega)]
      rw [slot_lt _ _ hj] at hs
      simpa using hs

theorem mem_content_iff (c : List (Cell κ)) (e : κ × Nat) :
    e ∈ c.filterMap id ↔ ∃ j, j < c.length ∧ slot c j = some e := by
  constructor
  · intro h
    obtain ⟨x, hx, hxe⟩ := List.mem_filterMap.mp h
    simp only [id] at hxe
    obtain ⟨j, hj, hjx⟩ := List.getElem_of_mem hx
    refine ⟨j, hj, ?_⟩
    rw [slot_lt _ _ hj, List.getElem?_eq_getElem hj, hjx, hxe]; rfl
  · rintro ⟨j, hj, hs⟩
    rw [slot_lt _ _ hj, List.getElem?_eq_getElem hj] at hs
    apply List.mem_filterMap.mpr
    refine ⟨c[j], List.getElem_mem hj, ?_⟩
    simpa using hs

/-! ## Side conditions on the regenerated fragments -/

def Pow2 (n : Nat) : Prop := ∃ k, n = 2 ^ k

/-- what the proofs need to know about the pure fragments of `map.c` -/
structure Params.Good (P : Params κ) : Prop where
  home_lt : ∀ n k, 0 < n → n ≤ P.maxSize → P.home n k < n
  probe_eq : ∀ n, n ≤ P.maxSize → P.probeLen n = n / 2
  /-- load rule: a table that is not grown before an insertion still has a free slot afterwards -/
  load_ok : ∀ n len, P.sizeDefault ≤ n → n ≤ P.maxSize → len < n → ¬ (n ≤ P.minSize len) → len + 1 < n
  /-- the back-shift decision compares circular distances: move iff `dist home idx ≥ dist hole idx` -/
  shift_eq : ∀ n hole idx home, Pow2 n → n ≤ P.maxSize → hole < n → idx < n → home < n →
    P.shift n hole idx home = decide ((idx + n - hole) % n ≤ (idx + n - home) % n)
  default_pow2 : Pow2 P.sizeDefault
  default_ge : 2 ≤ P.sizeDefault
  default_le : P.sizeDefault ≤ P.maxSize

/-! ## The probing invariant -/

/-- table level: (W1) no empty slot between the home of an entry and its slot, (W3) fewer than
`size/2` steps from home, (W2) keys unique -/
structure TWF (P : Params κ) (c : List (Cell κ)) : Prop where
  run : ∀ j k v, j < c.length → slot c j = some (k, v) →
    ∃ d, d < c.length / 2 ∧ (P.home c.length k + d) % c.length = j ∧
      ∀ e, e < d → slot c (P.home c.length k + e) ≠ none
  uniq : ∀ i j k v w, i < c.length → j < c.length → slot c i = some (k, v) → slot c j = some (k, w) → i = j

/-- sizes a table can have -/
structure SizeOk (P : Params κ) (n : Nat) : Prop where
  pow2 : Pow2 n
  ge : P.sizeDefault ≤ n
  le : n ≤ P.maxSize

/-- map level: `TWF` + (W4) `length` counts the occupied slots and leaves one slot free -/
structure WF (P : Params κ) (m : Map κ) : Prop where
  size : SizeOk P m.size
  tbl : TWF P m.cells
  len : m.length = occ m.cells
  room : m.length < m.size

theorem SizeOk.pos {P : Params κ} (hP : P.Good) {n : Nat} (h : SizeOk P n) : 2 ≤ n := by
  have := hP.default_ge; have := h.ge; omega

/-! ## Lookup -/

theorem findFrom_some (c : List (Cell κ)) (k : κ) (fe : Bool) : ∀ (fuel s i : Nat),
    findFrom c k fe s fuel = some i →
    s ≤ i ∧ i < s + fuel ∧
    (∀ p, s ≤ p → p < i → ∃ k' v', slot c p = some (k', v') ∧ k' ≠ k) ∧
    ((∃ v, slot c i = some (k, v)) ∨ (fe = true ∧ slot c i = none)) := by
  intro fuel
  induction fuel with
  | zero => intro s i h; simp [findFrom] at h
  | succ fuel ih =>
    intro s i h
    simp only [findFrom] at h
    split at h
    · rename_i hs
      split at h
      · rename_i hfe
        simp at h; subst h
        exact ⟨Nat.le_refl _, by omega, fun p h1 h2 => by omega, Or.inr ⟨hfe, hs⟩⟩
      · simp at h
    · rename_i k' v' hs
      split at h
      · rename_i hk; subst hk; simp at h; subst h
        exact ⟨Nat.le_refl _, by omega, fun p h1 h2 => by omega, Or.inl ⟨v', hs⟩⟩
      · rename_i hk
        obtain ⟨h1, h2, h3, h4⟩ := ih _ _ h
        refine ⟨by omega, by omega, ?_, h4⟩
        intro p hp1 hp2
        rcases Nat.eq_or_lt_of_le hp1 with e | hlt
        · subst e; exact ⟨k', v', hs, hk⟩
        · exact h3 p (by omega) hp2

theorem findFrom_none (c : List (Cell κ)) (k : κ) (fe : Bool) : ∀ (fuel s : Nat),
    findFrom c k fe s fuel = none →
    (∀ p, s ≤ p → p < s + fuel → ∃ k' v', slot c p = some (k', v') ∧ k' ≠ k) ∨
    (fe = false ∧ ∃ i, s ≤ i ∧ i < s + fuel ∧ slot c i = none ∧
      ∀ p, s ≤ p → p < i → ∃ k' v', slot c p = some (k', v') ∧ k' ≠ k) := by
  intro fuel
  induction fuel with
  | zero => intro s _; left; intro p h1 h2; omega
  | succ fuel ih =>
    intro s h
    simp only [findFrom] at h
    split at h
    · rename_i hs
      split at h
      · simp at h
      · rename_i hfe
        right
        refine ⟨by simpa using hfe, s, Nat.le_refl _, by omega, hs, fun p h1 h2 => by omega⟩
    · rename_i k' v' hs
      split at h
      · simp at h
      · rename_i hk
        rcases ih _ h with h1 | ⟨hfe, i, hi1, hi2, hi3, hi4⟩
        · left
          intro p hp1 hp2
          rcases Nat.eq_or_lt_of_le hp1 with e | hlt
          · subst e; exact ⟨k', v', hs, hk⟩
          · exact h1 p (by omega) (by omega)
        · right
          refine ⟨hfe, i, by omega, by omega, hi3, ?_⟩
          intro p hp1 hp2
          rcases Nat.eq_or_lt_of_le hp1 with e | hlt
          · subst e; exact ⟨k', v', hs, hk⟩
          · exact hi4 p (by omega) hp2

/-- if the first `d` probed slots hold other keys, the probe continues at distance `d` -/
theorem findFrom_skip (c : List (Cell κ)) (k : κ) (fe : Bool) (s : Nat) :
    ∀ (d fuel : Nat), d ≤ fuel →
      (∀ e, e < d → ∃ k' v', slot c (s + e) = some (k', v') ∧ k' ≠ k) →
      findFrom c k fe s fuel = findFrom c k fe (s + d) (fuel - d) := by
  intro d
  induction d generalizing s with
  | zero => intro fuel _ _; simp
  | succ d ih =>
    intro fuel hle hocc
    cases fuel with
    | zero => omega
    | succ fuel =>
      obtain ⟨k', v', hs, hne⟩ := hocc 0 (by omega)
      simp only [Nat.add_zero] at hs
      simp only [findFrom, hs, hne, if_false]
      have := ih (s + 1) fuel (by omega) (fun e he => by
        have := hocc (e + 1) (by omega)
        simpa [Nat.add_assoc, Nat.add_comm 1 e] using this)
      rw [this]
      congr 1 <;> omega

/-- completeness: a stored key is found, at its slot (whatever `find_empty`) -/
theorem entryFind_complete (P : Params κ) (hP : P.Good) (c : List (Cell κ)) (hle : c.length ≤ P.maxSize)
    (h : TWF P c) (fe : Bool) (j : Nat) (k : κ) (v : Nat) (hj : j < c.length) (hs : slot c j = some (k, v)) :
    ∃ i, entryFind P c k fe = some i ∧ i % c.length = j := by
  obtain ⟨d, hd, hpos, hrun⟩ := h.run j k v hj hs
  refine ⟨P.home c.length k + d, ?_, hpos⟩
  unfold entryFind
  rw [hP.probe_eq _ hle]
  have hn : 0 < c.length := by omega
  have hdn : d < c.length := by have := Nat.div_le_self c.length 2; omega
  have hocc : ∀ e, e < d → ∃ k' v', slot c (P.home c.length k + e) = some (k', v') ∧ k' ≠ k := by
    intro e he
    cases hse : slot c (P.home c.length k + e) with
    | none => exact absurd hse (hrun e he)
    | some kv =>
      obtain ⟨k', v'⟩ := kv
      refine ⟨k', v', rfl, ?_⟩
      intro heq
      subst heq
      have hlt : (P.home c.length k' + e) % c.length < c.length := Nat.mod_lt _ hn
      have hse' : slot c ((P.home c.length k' + e) % c.length) = some (k', v') := by rw [slot_mod]; exact hse
      have := h.uniq _ _ _ _ _ hlt hj hse' hs
      rw [← hpos] at this
      have := add_mod_inj c.length (P.home c.length k') e d (by omega) hdn this
      omega
  rw [findFrom_skip c k fe (P.home c.length k) d (c.length / 2) (by omega) hocc]
  have hfuel : c.length / 2 - d = (c.length / 2 - d - 1) + 1 := by omega
  rw [hfuel]
  have hsd : slot c (P.home c.length k + d) = some (k, v) := by
    rw [← slot_mod, hpos]; exact hs
  simp [findFrom, hsd]

/-- soundness: what `hashmap_entry_find` returns is the slot of the key, or (only with
`find_empty`) an empty slot reached from the key's home over occupied slots within the probe window -/
theorem entryFind_sound (P : Params κ) (hP : P.Good) (c : List (Cell κ)) (hle : c.length ≤ P.maxSize)
    (k : κ) (fe : Bool) (i : Nat) (h : entryFind P c k fe = some i) :
    ∃ d, i = P.home c.length k + d ∧ d < c.length / 2 ∧
      (∀ e, e < d → slot c (P.home c.length k + e) ≠ none) ∧
      ((∃ v, slot c i = some (k, v)) ∨ (fe = true ∧ slot c i = none)) := by
  unfold entryFind at h
  rw [hP.probe_eq _ hle] at h
  obtain ⟨h1, h2, h3, h4⟩ := findFrom_some c k fe _ _ _ h
  refine ⟨i - P.home c.length k, by omega, by omega, ?_, h4⟩
  intro e he
  obtain ⟨k', v', hs, _⟩ := h3 (P.home c.length k + e) (by omega) (by omega)
  rw [hs]; simp

/-- a key that is not in the table is not found; with `find_empty` only an empty slot can come back -/
theorem entryFind_absent (P : Params κ) (hP : P.Good) (c : List (Cell κ)) (hle : c.length ≤ P.maxSize)
    (k : κ) (habs : ∀ j v, j < c.length → slot c j ≠ some (k, v)) (fe : Bool) (i : Nat)
    (h : entryFind P c k fe = some i) : fe = true ∧ slot c i = none := by
  obtain ⟨d, _, _, _, h4⟩ := entryFind_sound P hP c hle k fe i h
  rcases h4 with ⟨v, hv⟩ | h4
  · exfalso
    have hn : 0 < c.length := by
      rcases Nat.eq_zero_or_pos c.length with h0 | h0
      · unfold slot at hv; simp [h0] at hv
      · exact h0
    exact habs (i % c.length) v (Nat.mod_lt _ hn) (by rw [slot_mod]; exact hv)
  · exact h4

/-! ## Insertion into an empty slot found by probing; value update -/

theorem slot_set_some_ne_none (c : List (Cell κ)) (i x : Nat) (e : κ × Nat) (hn : 0 < c.length)
    (h : slot c x ≠ none) : slot (c.set (i % c.length) (some e)) x ≠ none := by
  rw [slot_set c i x _ hn]; split
  · simp
  · exact h

theorem absent_of_find_empty (P : Params κ) (hP : P.Good) (c : List (Cell κ)) (hle : c.length ≤ P.maxSize)
    (h : TWF P c) (k : κ) (i : Nat) (hf : entryFind P c k true = some i) (hnone : slot c i = none) :
    ∀ j v, j < c.length → slot c j ≠ some (k, v) := by
  intro j v hj hs
  obtain ⟨i', hi', hm⟩ := entryFind_complete P hP c hle h true j k v hj hs
  rw [hf] at hi'; cases hi'
  rw [← slot_mod, hm, hs] at hnone; cases hnone

theorem TWF_insert (P : Params κ) (hP : P.Good) (c : List (Cell κ)) (hle : c.length ≤ P.maxSize)
    (h : TWF P c) (k : κ) (v : Nat) (i : Nat) (hf : entryFind P c k true = some i) (hnone : slot c i = none) :
    TWF P (c.set (i % c.length) (some (k, v))) := by
  have habs := absent_of_find_empty P hP c hle h k i hf hnone
  obtain ⟨d, hid, hd, hrun, _⟩ := entryFind_sound P hP c hle k true i hf
  have hn : 0 < c.length := by omega
  have hin : i % c.length < c.length := Nat.mod_lt _ hn
  constructor
  · intro j k' v' hj hs
    simp only [List.length_set] at hj ⊢
    rw [slot_set c i j _ hn] at hs
    split at hs
    · rename_i hij
      cases hs
      refine ⟨d, hd, ?_, ?_⟩
      · rw [← hid, hij, Nat.mod_eq_of_lt hj]
      · intro e he; exact slot_set_some_ne_none c i _ _ hn (hrun e he)
    · obtain ⟨d', hd', hp', hr'⟩ := h.run j k' v' hj hs
      exact ⟨d', hd', hp', fun e he => slot_set_some_ne_none c i _ _ hn (hr' e he)⟩
  · intro a b k' v' w' ha hb hsa hsb
    simp only [List.length_set] at ha hb
    rw [slot_set c i a _ hn] at hsa
    rw [slot_set c i b _ hn] at hsb
    split at hsa <;> split at hsb
    · rename_i h1 h2
      rw [Nat.mod_eq_of_lt ha] at h1; rw [Nat.mod_eq_of_lt hb] at h2; omega
    · cases hsa; exact absurd hsb (habs b w' hb)
    · cases hsb; exact absurd hsa (habs a v' ha)
    · exact h.uniq a b k' v' w' ha hb hsa hsb

/-- a table with the same key (or none) in every slot is as well-formed -/
theorem TWF_of_keys_eq (P : Params κ) (c c' : List (Cell κ)) (hlen : c'.length = c.length)
    (hk : ∀ j, (slot c' j).map (·.1) = (slot c j).map (·.1)) (h : TWF P c) : TWF P c' := by
  have key : ∀ j k v, slot c' j = some (k, v) → ∃ w, slot c j = some (k, w) := by
    intro j k v hs
    have := hk j; rw [hs] at this
    cases hc : slot c j with
    | none => rw [hc] at this; simp at this
    | some e => rw [hc] at this; simp at this; exact ⟨e.2, by rw [this]⟩
  have nn : ∀ j, slot c j ≠ none → slot c' j ≠ none := by
    intro j hj hc; have := hk j; rw [hc] at this
    cases h' : slot c j with
    | none => exact hj h'
    | some e => rw [h'] at this; simp at this
  constructor
  · intro j k v hj hs
    rw [hlen] at hj ⊢
    obtain ⟨w, hw⟩ := key j k v hs
    obtain ⟨d, hd, hp, hr⟩ := h.run j k w hj hw
    exact ⟨d, hd, hp, fun e he => nn _ (hr e he)⟩
  · intro a b k v w ha hb hsa hsb
    rw [hlen] at ha hb
    obtain ⟨v', hv'⟩ := key a k v hsa
    obtain ⟨w', hw'⟩ := key b k w hsb
    exact h.uniq a b k v' w' ha hb hv' hw'

theorem TWF_update (P : Params κ) (c : List (Cell κ)) (h : TWF P c) (i : Nat) (k0 : κ) (v0 v : Nat)
    (hs : slot c i = some (k0, v0)) : TWF P (c.set (i % c.length) (some (k0, v))) := by
  have hn : 0 < c.length := by
    rcases Nat.eq_zero_or_pos c.length with h0 | h0
    · unfold slot at hs; simp [h0] at hs
    · exact h0
  apply TWF_of_keys_eq P c _ (by simp) _ h
  intro j
  rw [slot_set c i j _ hn]
  split
  · rename_i hij; rw [← slot_congr c i j hij, hs]; rfl
  · rfl

/-! ## Back-shift deletion (`clear_elem`) -/

theorem add_mod_congr (a b g n : Nat) (h : a % n = b % n) : (a + g) % n = (b + g) % n := by
  rw [Nat.add_mod a, h, ← Nat.add_mod]

theorem slot_set' (c : List (Cell κ)) (n i j : Nat) (x : Cell κ) (hc : c.length = n) (hn : 0 < n) :
    slot (c.set (i % n) x) j = if i % n = j % n then x else slot c j := by
  subst hc; exact slot_set c i j x hn

/-- loop invariant of the back-shift: `h` is the hole, `i` the next index looked at -/
structure LInv (P : Params κ) (n : Nat) (c : List (Cell κ)) (h i : Nat) : Prop where
  /-- (L1) the hole is empty -/
  hole : slot c h = none
  /-- (L2) entries between the hole and `i` have their home strictly after the hole -/
  after : ∀ p k v, h < p → p < i → slot c p = some (k, v) → ∃ d, d < p - h ∧ (P.home n k + d) % n = p % n
  /-- (L3) W1 weakened (the run from home to slot is occupied or is the hole) + W3 -/
  run : ∀ j k v, j < n → slot c j = some (k, v) →
    ∃ d, d < n / 2 ∧ (P.home n k + d) % n = j ∧
      ∀ e, e < d → slot c (P.home n k + e) ≠ none ∨ (P.home n k + e) % n = h % n
  uniq : ∀ a b k v w, a < n → b < n → slot c a = some (k, v) → slot c b = some (k, w) → a = b

/-- the loop ends at an empty slot: the probing invariant holds again -/
theorem LInv_done (P : Params κ) (n : Nat) (c : List (Cell κ)) (h i : Nat) (hc : c.length = n)
    (hhi : h < i) (hin : i < h + n) (inv : LInv P n c h i) (hnone : slot c i = none) : TWF P c := by
  subst hc
  constructor
  · intro j k v hj hs
    obtain ⟨d, hd, hp, hr⟩ := inv.run j k v hj hs
    refine ⟨d, hd, hp, ?_⟩
    intro e he
    rcases hr e he with h1 | h1
    · exact h1
    · exfalso
      have hdn : d < c.length := by have := Nat.div_le_self c.length 2; omega
      -- the entry sits `g = d - e` slots after the hole
      have hpj : (h + (d - e)) % c.length = j := by
        rw [← hp, show P.home c.length k + d = P.home c.length k + e + (d - e) by omega]
        exact (add_mod_congr _ _ _ _ h1).symm
      have hsp : slot c (h + (d - e)) = some (k, v) := by rw [← slot_mod, hpj]; exact hs
      rcases Nat.lt_or_ge (h + (d - e)) i with hlt | hge
      · obtain ⟨d', hd', hp'⟩ := inv.after (h + (d - e)) k v (by omega) hlt hsp
        rw [hpj, ← hp] at hp'
        have := add_mod_inj c.length _ d' d (by omega) hdn hp'
        omega
      · have hne : h + (d - e) ≠ i := by intro heq; rw [heq, hnone] at hsp; cases hsp
        have hi' : (P.home c.length k + (e + (i - h))) % c.length = i % c.length := by
          rw [show P.home c.length k + (e + (i - h)) = P.home c.length k + e + (i - h) by omega,
              add_mod_congr _ _ _ _ h1]
          congr 1; omega
        rcases hr (e + (i - h)) (by omega) with h2 | h2
        · apply h2; rw [slot_congr c _ i hi']; exact hnone
        · rw [hi'] at h2
          exact mod_ne_of_lt c.length h i hhi hin h2.symm
  · exact inv.uniq

/-- the entry at `i` stays: its home is strictly after the hole -/
theorem LInv_skip (P : Params κ) (n : Nat) (c : List (Cell κ)) (h i : Nat) (inv : LInv P n c h i)
    (k : κ) (v : Nat) (hs : slot c i = some (k, v)) (d : Nat) (hd : d < i - h)
    (hp : (P.home n k + d) % n = i % n) : LInv P n c h (i + 1) := by
  refine ⟨inv.hole, ?_, inv.run, inv.uniq⟩
  intro p k' v' hp1 hp2 hs'
  rcases Nat.lt_or_ge p i with hlt | hge
  · exact inv.after p k' v' hp1 hlt hs'
  · have : p = i := by omega
    subst this
    rw [hs] at hs'; cases hs'
    exact ⟨d, hd, hp⟩

/-- the entry at `i` moves into the hole; `i` is the new hole -/
theorem LInv_shift (P : Params κ) (n : Nat) (c : List (Cell κ)) (h i : Nat) (hc : c.length = n)
    (hhi : h < i) (hin : i < h + n) (inv : LInv P n c h i)
    (k : κ) (v : Nat) (hs : slot c i = some (k, v)) (d : Nat) (hdn : d < n / 2)
    (hp : (P.home n k + d) % n = i % n) (hge : i - h ≤ d) :
    LInv P n ((c.set (h % n) (some (k, v))).set (i % n) none) i (i + 1) := by
  have hn : 0 < n := by omega
  have hne : h % n ≠ i % n := mod_ne_of_lt n h i hhi hin
  have hc1 : (c.set (h % n) (some (k, v))).length = n := by simp [hc]
  -- the new table, slot by slot
  have hslot : ∀ j, slot ((c.set (h % n) (some (k, v))).set (i % n) none) j =
      if i % n = j % n then none else if h % n = j % n then some (k, v) else slot c j := by
    intro j
    rw [slot_set' _ n i j none hc1 hn, slot_set' c n h j _ hc hn]
  have hd2 : d < n := by have := Nat.div_le_self n 2; omega
  -- the moved entry is `d - (i - h)` steps from its home now
  have hnewpos : (P.home n k + (d - (i - h))) % n = h % n := by
    have e1 : (P.home n k + (d - (i - h)) + (i - h)) % n = (h + (i - h)) % n := by
      rw [show P.home n k + (d - (i - h)) + (i - h) = P.home n k + d by omega, hp]; congr 1; omega
    -- cancel `i - h`
    have hx : (P.home n k + (d - (i - h))) % n < n := Nat.mod_lt _ hn
    have hy : h % n < n := Nat.mod_lt _ hn
    have e2 : ((P.home n k + (d - (i - h))) % n + (i - h)) % n = (h % n + (i - h)) % n := by
      rw [Nat.mod_add_mod, Nat.mod_add_mod]; exact e1
    -- both sides: add the same offset `< n` to two residues
    have key : ∀ a b g : Nat, a < n → b < n → g < n → (a + g) % n = (b + g) % n → a = b := by
      intro a b g ha hb hg hab
      rw [Nat.add_comm a g, Nat.add_comm b g] at hab
      exact add_mod_inj n g a b ha hb hab
    exact key _ _ (i - h) hx hy (by omega) e2
  have hsi : slot c (i % n) = some (k, v) := by rw [← hc, slot_mod]; exact hs
  have hstep : ∀ x, (slot c x ≠ none ∨ x % n = h % n) →
      (slot ((c.set (h % n) (some (k, v))).set (i % n) none) x ≠ none ∨ x % n = i % n) := by
    intro x hx
    rw [hslot]
    split
    · right; exact (‹i % n = x % n›).symm
    · split
      · left; simp
      · rcases hx with hx | hx
        · left; exact hx
        · exact absurd hx.symm ‹_›
  constructor
  · rw [hslot]; simp
  · intro p k' v' h1 h2 _; omega
  · intro j k' v' hj hs'
    rw [hslot] at hs'
    split at hs'
    · cases hs'
    · rename_i hij
      split at hs'
      · -- the moved entry
        rename_i hhj
        cases hs'
        refine ⟨d - (i - h), by omega, by rw [hnewpos, hhj, Nat.mod_eq_of_lt hj], ?_⟩
        intro e he
        obtain ⟨d0, hd0, hp0, hr0⟩ := inv.run (i % n) k v (Nat.mod_lt _ hn) hsi
        have : d0 = d := add_mod_inj n _ d0 d (by have := Nat.div_le_self n 2; omega) hd2 (by rw [hp0, hp])
        subst this
        exact hstep _ (hr0 e (by omega))
      · obtain ⟨d', hd', hp', hr'⟩ := inv.run j k' v' hj hs'
        exact ⟨d', hd', hp', fun e he => hstep _ (hr' e he)⟩
  · intro a b k' v' w' ha hb hsa hsb
    rw [hslot] at hsa hsb
    split at hsa
    · cases hsa
    · split at hsb
      · cases hsb
      · rename_i hia hib
        rw [Nat.mod_eq_of_lt ha] at hsa hia
        rw [Nat.mod_eq_of_lt hb] at hsb hib
        split at hsa <;> split at hsb
        · omega
        · cases hsa
          have := inv.uniq (i % n) b _ _ _ (Nat.mod_lt _ hn) hb hsi hsb
          omega
        · cases hsb
          have := inv.uniq a (i % n) _ _ _ ha (Nat.mod_lt _ hn) hsa hsi
          omega
        · exact inv.uniq a b k' v' w' ha hb hsa hsb

theorem exists_rep (n i j : Nat) (hj : j < n) (hne : j ≠ i % n) : ∃ q, i < q ∧ q < i + n ∧ q % n = j := by
  have hn : 0 < n := by omega
  have hr : i % n < n := Nat.mod_lt _ hn
  rcases Nat.lt_or_ge (i % n) j with hlt | hge
  · refine ⟨i + (j - i % n), by omega, by omega, ?_⟩
    rw [Nat.add_mod, Nat.mod_eq_of_lt (show j - i % n < n by omega),
        show i % n + (j - i % n) = j by omega, Nat.mod_eq_of_lt hj]
  · refine ⟨i + (n - i % n + j), by omega, by omega, ?_⟩
    rw [Nat.add_mod, Nat.mod_eq_of_lt (show n - i % n + j < n by omega),
        show i % n + (n - i % n + j) = j + n by omega, Nat.add_mod_right, Nat.mod_eq_of_lt hj]

/-- clearing an occupied slot of a well-formed table establishes the loop invariant -/
theorem LInv_init (P : Params κ) (c : List (Cell κ)) (h : TWF P c) (i : Nat) (hn : 0 < c.length) :
    LInv P c.length (c.set (i % c.length) none) i (i + 1) := by
  have hslot : ∀ j, slot (c.set (i % c.length) none) j = if i % c.length = j % c.length then none else slot c j :=
    fun j => slot_set c i j none hn
  constructor
  · rw [hslot]; simp
  · intro p k v h1 h2 _; omega
  · intro j k v hj hs
    rw [hslot] at hs
    split at hs
    · cases hs
    · obtain ⟨d, hd, hp, hr⟩ := h.run j k v hj hs
      refine ⟨d, hd, hp, ?_⟩
      intro e he
      rw [hslot]
      split
      · right; exact (‹i % c.length = _›).symm
      · left; exact hr e he
  · intro a b k v w ha hb hsa hsb
    rw [hslot] at hsa hsb
    split at hsa
    · cases hsa
    · split at hsb
      · cases hsb
      · exact h.uniq a b k v w ha hb hsa hsb

/-- the back-shift loop restores the probing invariant -/
theorem backshift_TWF (P : Params κ) (hP : P.Good) (n : Nat) (hsz : SizeOk P n) (b : Nat) :
    ∀ (fuel : Nat) (c : List (Cell κ)) (h i : Nat), c.length = n → b ≤ h → h < i → i + fuel = b + n →
      LInv P n c h i → (∃ q, i ≤ q ∧ q < b + n ∧ slot c q = none) → TWF P (backshift P n fuel c h i) := by
  have hn2 := hsz.pos hP
  intro fuel
  induction fuel with
  | zero =>
    intro c h i _ _ _ hf _ hq
    obtain ⟨q, h1, h2, _⟩ := hq
    omega
  | succ fuel ih =>
    intro c h i hc hbh hhi hf inv hq
    have hin : i < h + n := by omega
    unfold backshift
    split
    · rename_i hs
      exact LInv_done P n c h i hc hhi hin inv hs
    · rename_i k v hs
      have hsi : slot c (i % n) = some (k, v) := by rw [← hc, slot_mod]; exact hs
      obtain ⟨d, hd, hp, _⟩ := inv.run (i % n) k v (Nat.mod_lt _ (by omega)) hsi
      have hhome : P.home n k < n := hP.home_lt n k (by omega) hsz.le
      have hd2 : d < n := by have := Nat.div_le_self n 2; omega
      have hdec : P.shift n (h % n) (i % n) (P.home n k) = decide (i - h ≤ d) := by
        rw [hP.shift_eq n _ _ _ hsz.pow2 hsz.le (Nat.mod_lt _ (by omega)) (Nat.mod_lt _ (by omega)) hhome,
            dist_unreduced n h i hhi hin, dist_of_offset n (P.home n k) i d hhome hd2 hp]
      obtain ⟨q, hq1, hq2, hq3⟩ := hq
      have hqi : q ≠ i := by intro e; rw [e, hs] at hq3; cases hq3
      rw [hdec]
      split
      · rename_i hge
        have hge : i - h ≤ d := by simp at hge; omega
        apply ih _ i (i + 1) (by simp [hc]) (by omega) (by omega) (by omega)
          (LInv_shift P n c h i hc hhi hin inv k v hs d hd hp hge)
        refine ⟨q, by omega, hq2, ?_⟩
        rw [slot_set' _ n i q none (by simp [hc]) (by omega), slot_set' c n h q _ hc (by omega)]
        have h1 : i % n ≠ q % n := mod_ne_of_lt n i q (by omega) (by omega)
        have h2 : h % n ≠ q % n := mod_ne_of_lt n h q (by omega) (by omega)
        simp [h1, h2, hq3]
      · rename_i hlt
        have hlt : d < i - h := by simp at hlt; omega
        apply ih c h (i + 1) hc hbh (by omega) (by omega) (LInv_skip P n c h i inv k v hs d hlt hp)
        exact ⟨q, by omega, hq2, hq3⟩

/-! ## What the back-shift does to the contents: it only moves entries into the hole -/

/-- one move of the back-shift: the entry `e` at `i` goes to the hole `h` -/
def move (n : Nat) (c : List (Cell κ)) (h i : Nat) (e : κ × Nat) : List (Cell κ) :=
  (c.set (h % n) (some e)).set (i % n) none

theorem length_move (n : Nat) (c : List (Cell κ)) (h i : Nat) (e : κ × Nat) : (move n c h i e).length = c.length := by
  simp [move]

theorem slot_move (n : Nat) (c : List (Cell κ)) (h i : Nat) (e : κ × Nat) (hc : c.length = n) (hn : 0 < n) (j : Nat) :
    slot (move n c h i e) j = if i % n = j % n then none else if h % n = j % n then some e else slot c j := by
  unfold move
  rw [slot_set' _ n i j none (by simp [hc]) hn, slot_set' c n h j _ hc hn]

/-- any property kept by single moves is kept by the whole back-shift loop; `stop` is an empty slot
ahead (the loop never gets past it) -/
theorem backshift_ind (P : Params κ) (n b stop : Nat) (hstop : stop < b + n) (Q : List (Cell κ) → Prop)
    (hmove : ∀ c h i e, c.length = n → b ≤ h → h < i → i < stop → slot c h = none → slot c i = some e →
      slot c stop = none → Q c → Q (move n c h i e)) :
    ∀ (fuel : Nat) (c : List (Cell κ)) (h i : Nat), c.length = n → b ≤ h → h < i → i ≤ stop →
      slot c h = none → slot c stop = none → Q c →
      Q (backshift P n fuel c h i) ∧ slot (backshift P n fuel c h i) stop = none := by
  intro fuel
  induction fuel with
  | zero => intro c h i _ _ _ _ _ hs hq; exact ⟨hq, hs⟩
  | succ fuel ih =>
    intro c h i hc hbh hhi his hh hs hq
    unfold backshift
    split
    · exact ⟨hq, hs⟩
    · rename_i k v hsi
      have hlt : i < stop := by
        rcases Nat.eq_or_lt_of_le his with e | e
        · rw [e, hs] at hsi; cases hsi
        · exact e
      split
      · have hn : 0 < n := by omega
        have hm : (c.set (h % n) (some (k, v))).set (i % n) none = move n c h i (k, v) := rfl
        rw [hm]
        apply ih _ i (i + 1) (by rw [length_move, hc]) (by omega) (by omega) (by omega)
        · rw [slot_move n c h i _ hc hn]; simp
        · rw [slot_move n c h i _ hc hn]
          have h1 : i % n ≠ stop % n := mod_ne_of_lt n i stop hlt (by omega)
          have h2 : h % n ≠ stop % n := mod_ne_of_lt n h stop (by omega) (by omega)
          simp [h1, h2, hs]
        · exact hmove c h i (k, v) hc hbh hhi hlt hh hsi hs hq
      · exact ih c h (i + 1) hc hbh (by omega) (by omega) hh hs hq

theorem occ_move (n : Nat) (c : List (Cell κ)) (h i : Nat) (e : κ × Nat) (hc : c.length = n)
    (hne : h % n ≠ i % n) (hh : slot c h = none) (hi : slot c i = some e) : occ (move n c h i e) = occ c := by
  have hn : 0 < n := by
    rcases Nat.eq_zero_or_pos n with h0 | h0
    · subst h0; simp at hne
      unfold slot at hh hi; rw [hc] at hh hi; simp at hh hi
      exfalso
      have : c = [] := List.eq_nil_of_length_eq_zero hc
      subst this; simp at hi
    · exact h0
  have hhn : h % n < c.length := by rw [hc]; exact Nat.mod_lt _ hn
  have hin : i % n < (c.set (h % n) (some e)).length := by simp [hc]; exact Nat.mod_lt _ hn
  have e1 := occ_set c (h % n) (some e) hhn
  have e2 := occ_set (c.set (h % n) (some e)) (i % n) none hin
  have g1 : c[h % n] = none := by
    unfold slot at hh; rw [hc, List.getElem?_eq_getElem hhn] at hh; simpa using hh
  have g2 : (c.set (h % n) (some e))[i % n] = some e := by
    rw [List.getElem_set_ne hne]
    unfold slot at hi
    have : i % n < c.length := by rw [hc]; exact Nat.mod_lt _ hn
    rw [hc, List.getElem?_eq_getElem this] at hi; simpa using hi
  rw [g1] at e1; rw [g2] at e2
  simp at e1 e2
  unfold move; omega

/-- a move inside a window of at most `n` consecutive positions keeps the set of entries in the window -/
theorem mem_move_window (n : Nat) (c : List (Cell κ)) (h i : Nat) (e : κ × Nat) (hc : c.length = n)
    (p w : Nat) (hw : w ≤ p + n) (hph : p ≤ h) (hhi : h < i) (hiw : i < w)
    (hh : slot c h = none) (hi : slot c i = some e) (e' : κ × Nat) :
    (∃ q, p ≤ q ∧ q < w ∧ slot (move n c h i e) q = some e') ↔ (∃ q, p ≤ q ∧ q < w ∧ slot c q = some e') := by
  have hn : 0 < n := by omega
  have hne : h % n ≠ i % n := mod_ne_of_lt n h i hhi (by omega)
  constructor
  · rintro ⟨q, hq1, hq2, hs⟩
    rw [slot_move n c h i e hc hn] at hs
    split at hs
    · cases hs
    · split at hs
      · cases hs; exact ⟨i, by omega, hiw, hi⟩
      · exact ⟨q, hq1, hq2, hs⟩
  · rintro ⟨q, hq1, hq2, hs⟩
    by_cases hqi : q = i
    · subst hqi
      rw [hi] at hs; cases hs
      refine ⟨h, hph, by omega, ?_⟩
      rw [slot_move n c h q e hc hn]
      have hne' : ¬ q % n = h % n := fun x => hne x.symm
      simp [hne']
    · have h1 : i % n ≠ q % n := by
        rcases Nat.lt_or_ge q i with hlt | hge
        · exact fun x => mod_ne_of_lt n q i hlt (by omega) x.symm
        · exact mod_ne_of_lt n i q (by omega) (by omega)
      have h2 : h % n ≠ q % n := by
        intro heq
        have : slot c q = slot c h := by apply slot_congr; rw [hc]; exact heq.symm
        rw [this, hh] at hs; cases hs
      refine ⟨q, hq1, hq2, ?_⟩
      rw [slot_move n c h i e hc hn]
      simp [h1, h2, hs]

/-- entries of the whole table, seen through a window of `n` consecutive positions -/
theorem window_full (c : List (Cell κ)) (n b : Nat) (hc : c.length = n) (hn : 0 < n) (e : κ × Nat) :
    (∃ q, b ≤ q ∧ q < b + n ∧ slot c q = some e) ↔ (∃ j, j < n ∧ slot c j = some e) := by
  constructor
  · rintro ⟨q, _, _, hs⟩
    exact ⟨q % n, Nat.mod_lt _ hn, by rw [← hc, slot_mod]; exact hs⟩
  · rintro ⟨j, hj, hs⟩
    by_cases hjb : j = b % n
    · refine ⟨b, Nat.le_refl _, by omega, ?_⟩
      rw [← hs]; apply slot_congr; rw [hc, hjb, Nat.mod_mod]
    · obtain ⟨q, h1, h2, h3⟩ := exists_rep n b j hj hjb
      refine ⟨q, by omega, h2, ?_⟩
      rw [← hs]; apply slot_congr; rw [hc, h3, Nat.mod_eq_of_lt hj]

/-! ## `clear_elem` as a whole -/

/-- the table after `clear_elem` on slot `i` -/
def cleared (P : Params κ) (c : List (Cell κ)) (i : Nat) : List (Cell κ) :=
  backshift P c.length (c.length - 1) (c.set (i % c.length) none) i (i + 1)

theorem exists_ahead (c : List (Cell κ)) (i : Nat) (e : κ × Nat) (hs : slot c i = some e) (hocc : occ c < c.length) :
    ∃ q, i < q ∧ q < i + c.length ∧ slot c q = none := by
  obtain ⟨j, hj, hjn⟩ := exists_none_of_occ_lt c hocc
  have hne : j ≠ i % c.length := by
    intro heq; rw [← slot_mod, ← heq, hjn] at hs; cases hs
  obtain ⟨q, h1, h2, h3⟩ := exists_rep c.length i j hj hne
  exact ⟨q, h1, h2, by rw [← slot_mod, h3]; exact hjn⟩

theorem cleared_window (P : Params κ) (c : List (Cell κ)) (i : Nat) (e : κ × Nat) (hs : slot c i = some e)
    (stop w : Nat) (h1 : i < stop) (h2 : stop < i + c.length) (h3 : stop ≤ w) (h4 : w ≤ i + c.length)
    (hstop : slot c stop = none) :
    slot (cleared P c i) stop = none ∧
    ∀ e', (∃ q, i ≤ q ∧ q < w ∧ slot (cleared P c i) q = some e') ↔ (∃ q, i < q ∧ q < w ∧ slot c q = some e') := by
  have hn : 0 < c.length := by omega
  have hslot0 : ∀ j, slot (c.set (i % c.length) none) j = if i % c.length = j % c.length then none else slot c j :=
    fun j => slot_set c i j none hn
  have key := backshift_ind P c.length i stop h2
    (fun t => ∀ e', (∃ q, i ≤ q ∧ q < w ∧ slot t q = some e') ↔ (∃ q, i < q ∧ q < w ∧ slot c q = some e'))
    (by
      intro t h i' e0 ht hb hhi his hh hi _ hq e'
      rw [mem_move_window c.length t h i' e0 ht i w h4 hb hhi (by omega) hh hi e']
      exact hq e')
    (c.length - 1) (c.set (i % c.length) none) i (i + 1) (by simp) (Nat.le_refl _) (by omega) (by omega)
    (by rw [hslot0]; simp)
    (by rw [hslot0]; simp [mod_ne_of_lt c.length i stop h1 h2, hstop])
    (by
      intro e'
      constructor
      · rintro ⟨q, hq1, hq2, hq3⟩
        rw [hslot0] at hq3
        split at hq3
        · cases hq3
        · rename_i hne
          refine ⟨q, ?_, hq2, hq3⟩
          rcases Nat.eq_or_lt_of_le hq1 with heq | hlt
          · subst heq; exact absurd rfl hne
          · exact hlt
      · rintro ⟨q, hq1, hq2, hq3⟩
        refine ⟨q, by omega, hq2, ?_⟩
        rw [hslot0]
        simp [mod_ne_of_lt c.length i q hq1 (by omega), hq3])
  exact ⟨key.2, key.1⟩

theorem length_cleared (P : Params κ) (c : List (Cell κ)) (i : Nat) : (cleared P c i).length = c.length := by
  unfold cleared
  generalize c.length - 1 = fuel
  have : ∀ (fuel : Nat) (t : List (Cell κ)) (h j : Nat), (backshift P c.length fuel t h j).length = t.length := by
    intro fuel
    induction fuel with
    | zero => intro t h j; rfl
    | succ fuel ih =>
      intro t h j
      unfold backshift
      split
      · rfl
      · split
        · rw [ih]; simp
        · rw [ih]
  rw [this]; simp

theorem occ_cleared (P : Params κ) (c : List (Cell κ)) (i : Nat) (e : κ × Nat) (hs : slot c i = some e)
    (hocc : occ c < c.length) : occ (cleared P c i) + 1 = occ c := by
  have hn : 0 < c.length := by omega
  obtain ⟨stop, h1, h2, h3⟩ := exists_ahead c i e hs hocc
  have hslot0 : ∀ j, slot (c.set (i % c.length) none) j = if i % c.length = j % c.length then none else slot c j :=
    fun j => slot_set c i j none hn
  have hin : i % c.length < c.length := Nat.mod_lt _ hn
  have h0 : occ (c.set (i % c.length) none) + 1 = occ c := by
    have := occ_set c (i % c.length) none hin
    have g : c[i % c.length] = some e := by
      unfold slot at hs; rw [List.getElem?_eq_getElem hin] at hs; simpa using hs
    rw [g] at this; simpa using this
  have key := backshift_ind P c.length i stop h2 (fun t => occ t + 1 = occ c)
    (by
      intro t h i' e0 ht hb hhi his hh hi _ hq
      rw [occ_move c.length t h i' e0 ht (mod_ne_of_lt c.length h i' hhi (by omega)) hh hi]
      exact hq)
    (c.length - 1) (c.set (i % c.length) none) i (i + 1) (by simp) (Nat.le_refl _) (by omega) (by omega)
    (by rw [hslot0]; simp)
    (by rw [hslot0]; simp [mod_ne_of_lt c.length i stop h1 h2, h3])
    h0
  exact key.1

theorem TWF_cleared (P : Params κ) (hP : P.Good) (c : List (Cell κ)) (hsz : SizeOk P c.length) (h : TWF P c)
    (i : Nat) (e : κ × Nat) (hs : slot c i = some e) (hocc : occ c < c.length) : TWF P (cleared P c i) := by
  have hn2 := hsz.pos hP
  obtain ⟨stop, h1, h2, h3⟩ := exists_ahead c i e hs hocc
  unfold cleared
  apply backshift_TWF P hP c.length hsz i (c.length - 1) _ i (i + 1) (by simp) (Nat.le_refl _) (by omega) (by omega)
    (LInv_init P c h i (by omega))
  refine ⟨stop, by omega, h2, ?_⟩
  rw [slot_set c i stop none (by omega)]
  simp [mod_ne_of_lt c.length i stop h1 h2, h3]

/-- entries of the table after `clear_elem`: all the others, each still there -/
theorem mem_cleared (P : Params κ) (c : List (Cell κ)) (h : TWF P c) (i : Nat) (k : κ) (v : Nat)
    (hs : slot c i = some (k, v)) (hocc : occ c < c.length) (e' : κ × Nat) :
    (∃ j, j < c.length ∧ slot (cleared P c i) j = some e') ↔
    ((∃ j, j < c.length ∧ slot c j = some e') ∧ e'.1 ≠ k) := by
  have hn : 0 < c.length := by omega
  obtain ⟨stop, h1, h2, h3⟩ := exists_ahead c i (k, v) hs hocc
  have key := (cleared_window P c i (k, v) hs stop (i + c.length) h1 h2 (by omega) (Nat.le_refl _) h3).2 e'
  rw [← window_full (cleared P c i) c.length i (length_cleared P c i) hn e', key]
  have hsi : slot c (i % c.length) = some (k, v) := by rw [slot_mod]; exact hs
  constructor
  · rintro ⟨q, hq1, hq2, hq3⟩
    refine ⟨⟨q % c.length, Nat.mod_lt _ hn, by rw [slot_mod]; exact hq3⟩, ?_⟩
    intro hk
    obtain ⟨k', v'⟩ := e'
    simp only at hk; subst hk
    have := h.uniq (q % c.length) (i % c.length) k' v' v (Nat.mod_lt _ hn) (Nat.mod_lt _ hn)
      (by rw [slot_mod]; exact hq3) hsi
    exact mod_ne_of_lt c.length i q hq1 hq2 this.symm
  · rintro ⟨⟨j, hj, hjs⟩, hk⟩
    have hne : j ≠ i % c.length := by
      intro heq; subst heq; rw [hsi] at hjs; cases hjs; exact hk rfl
    obtain ⟨q, g1, g2, g3⟩ := exists_rep c.length i j hj hne
    exact ⟨q, g1, g2, by rw [← slot_mod, g3]; exact hjs⟩

/-! ## Counting: a probe window longer than the number of entries contains an empty slot -/

theorem occ_ge_of_window : ∀ (w : Nat) (c : List (Cell κ)) (s : Nat), w ≤ c.length →
    (∀ e, e < w → slot c (s + e) ≠ none) → w ≤ occ c := by
  intro w
  induction w with
  | zero => intro c s _ _; exact Nat.zero_le _
  | succ w ih =>
    intro c s hw hocc
    have hn : 0 < c.length := by omega
    have hin : (s + w) % c.length < c.length := Nat.mod_lt _ hn
    -- clear the last slot of the window
    have h1 := occ_set c ((s + w) % c.length) none hin
    have hsome : (c[(s + w) % c.length]).isSome = true := by
      have := hocc w (by omega)
      unfold slot at this
      rw [List.getElem?_eq_getElem hin] at this
      cases hc : c[(s + w) % c.length] with
      | none => rw [hc] at this; simp at this
      | some x => rfl
    rw [hsome] at h1
    have h2 := ih (c.set ((s + w) % c.length) none) s (by simp; omega) (by
      intro e he
      rw [slot_set c (s + w) (s + e) none hn]
      have : (s + w) % c.length ≠ (s + e) % c.length :=
        fun x => mod_ne_of_lt c.length (s + e) (s + w) (by omega) (by omega) x.symm
      simp [this]
      exact hocc e (by omega))
    simp at h1
    omega

/-- probing with `find_empty` succeeds when the window is longer than the number of entries -/
theorem entryFind_succeeds (P : Params κ) (hP : P.Good) (c : List (Cell κ)) (hle : c.length ≤ P.maxSize)
    (k : κ) (hocc : occ c < c.length / 2) : ∃ i, entryFind P c k true = some i := by
  cases hf : entryFind P c k true with
  | some i => exact ⟨i, rfl⟩
  | none =>
    exfalso
    unfold entryFind at hf
    rw [hP.probe_eq _ hle] at hf
    rcases findFrom_none c k true _ _ hf with h | ⟨h, _⟩
    · have := occ_ge_of_window (c.length / 2) c (P.home c.length k) (Nat.div_le_self _ _) (by
        intro e he
        obtain ⟨k', v', hs, _⟩ := h (P.home c.length k + e) (by omega) (by omega)
        rw [hs]; simp)
      omega
    · cases h

/-! ## Keys of the content are distinct -/

def keysOf (c : List (Cell κ)) : List κ := (c.filterMap id).map (·.1)

theorem nodup_keysOf_aux : ∀ (l : List (Cell κ)),
    (∀ (a b : Nat) (k : κ) (v w : Nat), l[a]? = some (some (k, v)) → l[b]? = some (some (k, w)) → a = b) → (keysOf l).Nodup := by
  intro l
  induction l with
  | nil => intro _; simp [keysOf]
  | cons x xs ih =>
    intro h
    have hxs : (keysOf xs).Nodup := ih (by
      intro a b k v w ha hb
      have := h (a + 1) (b + 1) k v w (by simpa using ha) (by simpa using hb)
      omega)
    cases x with
    | none => simpa [keysOf] using hxs
    | some e =>
      obtain ⟨k, v⟩ := e
      simp only [keysOf, List.filterMap_cons, id, List.map_cons, List.nodup_cons]
      refine ⟨?_, hxs⟩
      intro hmem
      obtain ⟨e', he', hk⟩ := List.mem_map.mp hmem
      obtain ⟨x, hx, hxe⟩ := List.mem_filterMap.mp he'
      obtain ⟨b, hb, hbx⟩ := List.getElem_of_mem hx
      simp only [id] at hxe
      obtain ⟨k', w⟩ := e'
      simp only at hk; subst hk
      have := h 0 (b + 1) k' v w (by simp) (by simp [List.getElem?_eq_getElem hb, hbx, hxe])
      omega

theorem nodup_keysOf (P : Params κ) (c : List (Cell κ)) (h : TWF P c) : (keysOf c).Nodup := by
  apply nodup_keysOf_aux
  intro a b k v w ha hb
  have hal : a < c.length := (List.getElem?_eq_some_iff.mp ha).1
  have hbl : b < c.length := (List.getElem?_eq_some_iff.mp hb).1
  exact h.uniq a b k v w hal hbl (by rw [slot_lt c a hal, ha]; rfl) (by rw [slot_lt c b hbl, hb]; rfl)

/-! ## Growth: `hashmap_rehash` keeps the contents and cannot fail -/

/-- the entry `e` is in the table -/
def Has (c : List (Cell κ)) (e : κ × Nat) : Prop := ∃ j, j < c.length ∧ slot c j = some e

theorem has_iff_mem (c : List (Cell κ)) (e : κ × Nat) : Has c e ↔ e ∈ c.filterMap id :=
  (mem_content_iff c e).symm

theorem has_insert (c : List (Cell κ)) (i : Nat) (e : κ × Nat) (hn : 0 < c.length) (hnone : slot c i = none)
    (e' : κ × Nat) : Has (c.set (i % c.length) (some e)) e' ↔ Has c e' ∨ e' = e := by
  unfold Has
  simp only [List.length_set]
  constructor
  · rintro ⟨j, hj, hs⟩
    rw [slot_set c i j _ hn] at hs
    split at hs
    · cases hs; right; rfl
    · left; exact ⟨j, hj, hs⟩
  · rintro (⟨j, hj, hs⟩ | rfl)
    · refine ⟨j, hj, ?_⟩
      rw [slot_set c i j _ hn]
      have : i % c.length ≠ j % c.length := by
        intro heq; rw [slot_congr c i j heq, hs] at hnone; cases hnone
      simp [this, hs]
    · exact ⟨i % c.length, Nat.mod_lt _ hn, by rw [slot_set c i _ _ hn]; simp⟩

theorem occ_insert (c : List (Cell κ)) (i : Nat) (e : κ × Nat) (hn : 0 < c.length) (hnone : slot c i = none) :
    occ (c.set (i % c.length) (some e)) = occ c + 1 := by
  have hin : i % c.length < c.length := Nat.mod_lt _ hn
  have := occ_set c (i % c.length) (some e) hin
  have g : c[i % c.length] = none := by
    unfold slot at hnone; rw [List.getElem?_eq_getElem hin] at hnone; simpa using hnone
  rw [g] at this; simpa using this

theorem keysOf_cons_some (k : κ) (v : Nat) (rest : List (Cell κ)) : keysOf (some (k, v) :: rest) = k :: keysOf rest := by
  simp [keysOf]

theorem keysOf_cons_none (rest : List (Cell κ)) : keysOf (none :: rest) = keysOf rest := by
  simp [keysOf]

theorem rehashFill_spec (P : Params κ) (hP : P.Good) : ∀ (old t : List (Cell κ)), t.length ≤ P.maxSize → TWF P t →
    occ t + occ old ≤ t.length / 2 → (keysOf old).Nodup → (∀ k, k ∈ keysOf old → ∀ w, ¬ Has t (k, w)) →
    ∃ t', rehashFill P old t = some t' ∧ t'.length = t.length ∧ TWF P t' ∧ occ t' = occ t + occ old ∧
      ∀ e, Has t' e ↔ Has t e ∨ e ∈ old.filterMap id := by
  intro old
  induction old with
  | nil => intro t _ ht _ _ _; exact ⟨t, rfl, rfl, ht, by simp [occ], by simp⟩
  | cons x rest ih =>
    intro t hle ht hocc hnd hdis
    cases x with
    | none =>
      rw [keysOf_cons_none] at hnd hdis
      rw [occ_cons] at hocc
      obtain ⟨t', h1, h2, h3, h4, h5⟩ := ih t hle ht (by simpa using hocc) hnd hdis
      exact ⟨t', by simpa [rehashFill] using h1, h2, h3, by simp [occ_cons, h4], by simpa using h5⟩
    | some e =>
      obtain ⟨k, v⟩ := e
      rw [keysOf_cons_some] at hnd hdis
      rw [occ_cons] at hocc
      simp only [Option.isSome_some, if_true] at hocc
      obtain ⟨i, hi⟩ := entryFind_succeeds P hP t hle k (by omega)
      have hn : 0 < t.length := by omega
      have hnone : slot t i = none := by
        refine (entryFind_absent P hP t hle k ?_ true i hi).2
        intro j w hj hs
        exact hdis k (by simp) w ⟨j, hj, hs⟩
      have hnd' := List.nodup_cons.mp hnd
      obtain ⟨t', h1, h2, h3, h4, h5⟩ := ih (t.set (i % t.length) (some (k, v))) (by simpa using hle)
        (TWF_insert P hP t hle ht k v i hi hnone)
        (by rw [occ_insert t i _ hn hnone]; simp; omega) hnd'.2 (by
          intro k' hk' w hhas
          rcases (has_insert t i (k, v) hn hnone (k', w)).mp hhas with h | h
          · exact hdis k' (by simp [hk']) w h
          · cases h; exact hnd'.1 hk')
      refine ⟨t', by simp [rehashFill, hi, h1], by simpa using h2, h3, ?_, ?_⟩
      · rw [h4, occ_insert t i _ hn hnone, occ_cons]; simp; omega
      · intro e'
        rw [h5, has_insert t i (k, v) hn hnone]
        simp only [List.filterMap_cons, id, List.mem_cons]
        constructor
        · rintro ((h | h) | h)
          · left; exact h
          · right; left; exact h
          · right; right; exact h
        · rintro (h | h | h)
          · left; left; exact h
          · left; right; exact h
          · right; exact h

end Lm.Struct.Map
