import Lm.Inv.MapRun
/-!
# The ledger of key blocks over whole histories (property C05)

For a map that owns its keys (`KEY_DUP`, which forces `KEY_AUTOFREE`, or `KEY_AUTOFREE` alone), at
every point of every history: key blocks allocated = key blocks released + one per live entry.
-/
set_option linter.unusedSectionVars false
namespace Lm.Struct.Map
variable {κ : Type} [DecidableEq κ]

/-- 1 when `k` is the key of a live entry -/
def live (m : Map κ) (k : κ) : Int := if k ∈ keysOf m.cells then 1 else 0

/-- blocks for key `k` allocated minus released by the events -/
def kdelta (k : κ) (evs : List (Ev κ)) : Int := (evs.count (Ev.kalloc k) : Int) - (evs.count (Ev.kfree k) : Int)

theorem kdelta_nil (k : κ) : kdelta k ([] : List (Ev κ)) = 0 := by simp [kdelta]

theorem kdelta_append (k : κ) (a b : List (Ev κ)) : kdelta k (a ++ b) = kdelta k a + kdelta k b := by
  simp only [kdelta, List.count_append]; omega

theorem kdelta_cons (k : κ) (e : Ev κ) (r : List (Ev κ)) :
    kdelta k (e :: r) = kdelta k r + (match e with | .kalloc k' => if k' = k then 1 else 0
                                                   | .kfree k' => if k' = k then -1 else 0 | .dtor _ => 0) := by
  cases e with
  | dtor v => simp [kdelta, List.count_cons]
  | kalloc k' =>
    by_cases h : k' = k
    · subst h; simp [kdelta, List.count_cons]; omega
    · simp [kdelta, List.count_cons, h]
  | kfree k' =>
    by_cases h : k' = k
    · subst h; simp [kdelta, List.count_cons]; omega
    · simp [kdelta, List.count_cons, h]

theorem mem_keysOf (c : List (Cell κ)) (k : κ) : k ∈ keysOf c ↔ ∃ v, Has c (k, v) := by
  unfold keysOf
  simp only [List.mem_map, ← has_iff_mem]
  constructor
  · rintro ⟨⟨k', v⟩, h, rfl⟩; exact ⟨v, h⟩
  · rintro ⟨v, h⟩; exact ⟨(k, v), h, rfl⟩

theorem live_congr (m m' : Map κ) (h : ∀ e, Has m'.cells e ↔ Has m.cells e) (k : κ) : live m' k = live m k := by
  unfold live
  have : k ∈ keysOf m'.cells ↔ k ∈ keysOf m.cells := by
    rw [mem_keysOf, mem_keysOf]; exact ⟨fun ⟨v, hv⟩ => ⟨v, (h _).mp hv⟩, fun ⟨v, hv⟩ => ⟨v, (h _).mpr hv⟩⟩
  by_cases hk : k ∈ keysOf m.cells
  · rw [if_pos hk, if_pos (this.mpr hk)]
  · rw [if_neg hk, if_neg (fun x => hk (this.mp x))]

theorem live_putOk (m m' : Map κ) (k : κ) (v : Nat) (h : PutOk m m' k v) (k' : κ) :
    live m' k' = if k' = k then 1 else live m k' := by
  unfold live
  by_cases hk : k' = k
  · subst hk
    rw [if_pos rfl, if_pos ((mem_keysOf _ _).mpr ⟨v, (h _).mpr (Or.inl rfl)⟩)]
  · rw [if_neg hk]
    have : k' ∈ keysOf m'.cells ↔ k' ∈ keysOf m.cells := by
      rw [mem_keysOf, mem_keysOf]
      constructor
      · rintro ⟨w, hw⟩
        rcases (h _).mp hw with h1 | ⟨h1, _⟩
        · cases h1; exact absurd rfl hk
        · exact ⟨w, h1⟩
      · rintro ⟨w, hw⟩; exact ⟨w, (h _).mpr (Or.inr ⟨hw, hk⟩)⟩
    by_cases hm : k' ∈ keysOf m.cells
    · rw [if_pos hm, if_pos (this.mpr hm)]
    · rw [if_neg hm, if_neg (fun x => hm (this.mp x))]

theorem live_removed (m m' : Map κ) (k : κ) (h : ∀ e, Has m'.cells e ↔ (Has m.cells e ∧ e.1 ≠ k)) (k' : κ) :
    live m' k' = if k' = k then 0 else live m k' := by
  unfold live
  by_cases hk : k' = k
  · subst hk
    rw [if_pos rfl, if_neg]
    rw [mem_keysOf]; rintro ⟨w, hw⟩; exact ((h _).mp hw).2 rfl
  · rw [if_neg hk]
    have : k' ∈ keysOf m'.cells ↔ k' ∈ keysOf m.cells := by
      rw [mem_keysOf, mem_keysOf]
      exact ⟨fun ⟨w, hw⟩ => ⟨w, ((h _).mp hw).1⟩, fun ⟨w, hw⟩ => ⟨w, (h _).mpr ⟨hw, hk⟩⟩⟩
    by_cases hm : k' ∈ keysOf m.cells
    · rw [if_pos hm, if_pos (this.mpr hm)]
    · rw [if_neg hm, if_neg (fun x => hm (this.mp x))]

theorem live_of_has (m : Map κ) (k : κ) (v : Nat) (h : Has m.cells (k, v)) : live m k = 1 := by
  unfold live; rw [if_pos ((mem_keysOf _ _).mpr ⟨v, h⟩)]

theorem live_of_absent (m : Map κ) (k : κ) (h : ∀ v, ¬ Has m.cells (k, v)) : live m k = 0 := by
  unfold live; rw [if_neg]; rw [mem_keysOf]; rintro ⟨v, hv⟩; exact h v hv

theorem kdelta_remEvs (m : Map κ) (ha : m.autofree = true) (e : κ × Nat) (k' : κ) :
    kdelta k' (remEvs m e) = if e.1 = k' then -1 else 0 := by
  unfold remEvs
  rw [ha, if_pos rfl, kdelta_append, kdelta_cons, kdelta_nil]
  by_cases hd : m.dtor = true
  · rw [if_pos hd, kdelta_cons, kdelta_nil]; simp
  · rw [if_neg hd, kdelta_nil]; simp

theorem kdelta_dtorEvs (k' : κ) (b : Bool) (w : Nat) : kdelta k' (if b then [Ev.dtor w] else []) = 0 := by
  cases b <;> simp [kdelta]

/-- `m_map_put` -/
theorem put_delta (P : Params κ) (hP : P.Good) (m : Map κ) (hwf : WF P m) (ha : m.autofree = true)
    (k : κ) (v : Nat) (k' : κ) : kdelta k' (put P m k v).2.1 = live (put P m k v).1 k' - live m k' := by
  obtain ⟨_, _, h3⟩ := put_spec P hP m hwf k v
  rcases h3 with ⟨_, h⟩ | ⟨hv, r, hspec, e1, e2, e3⟩
  · rw [h]; simp [kdelta]
  · have hown : (m.dup || m.autofree) = true := by rw [ha]; simp
    rw [e3, if_pos hown, e1]
    rw [kdelta_append, kdelta_append, kdelta_cons, kdelta_nil]
    rcases hspec with ⟨a, b, c⟩ | ⟨a, b, c, d, w, e⟩ | ⟨a, b, c, d⟩
    · rw [live_putOk m r.1 k v b k']
      rcases c with ⟨c1, c2, c3⟩ | ⟨w, c1, c2, c3, c4⟩
      · have hc : ¬ (r.2.2 ≠ 0 ∨ r.1.length = m.length) := by rw [a, c2]; simp
        rw [c3, if_neg hc, kdelta_nil]
        by_cases hk : k' = k
        · subst hk; rw [live_of_absent m k' c1]; simp
        · have : ¬ k = k' := fun x => hk x.symm
          simp [hk, this]
      · have hc : (r.2.2 ≠ 0 ∨ r.1.length = m.length) := Or.inr c3
        rw [c4, if_pos hc, kdelta_dtorEvs, kdelta_cons, kdelta_nil]
        by_cases hk : k' = k
        · subst hk; rw [live_of_has m k' w c1]; simp
        · have : ¬ k = k' := fun x => hk x.symm
          simp [hk, this]
    · have hc : (r.2.2 ≠ 0 ∨ r.1.length = m.length) := Or.inl (by rw [a]; decide)
      rw [c, if_pos hc, kdelta_nil, kdelta_cons, kdelta_nil, live_congr m r.1 b.1 k']
      by_cases hk : k = k' <;> simp [hk]
    · have hc : (r.2.2 ≠ 0 ∨ r.1.length = m.length) := Or.inl (by rw [a]; decide)
      rw [c, if_pos hc, kdelta_nil, kdelta_cons, kdelta_nil, live_congr m r.1 b.1 k']
      by_cases hk : k = k' <;> simp [hk]

/-- `m_map_remove` -/
theorem remove_delta (P : Params κ) (hP : P.Good) (m : Map κ) (hwf : WF P m) (ha : m.autofree = true)
    (k : κ) (k' : κ) : kdelta k' (remove P m k).2.1 = live (remove P m k).1 k' - live m k' := by
  obtain ⟨_, _, h3⟩ := remove_spec P hP m hwf k
  rcases h3 with ⟨v, h1, _, _, _, h5, h6⟩ | ⟨_, h2, h3, _⟩
  · have : (remove P m k).2.1 = remEvs m (k, v) := h6
    rw [this, kdelta_remEvs m ha, live_removed m _ k h5 k']
    by_cases hk : k' = k
    · subst hk; rw [live_of_has m k' v h1]; simp
    · have : ¬ k = k' := fun x => hk x.symm
      simp [hk, this]
  · rw [h3, h2]; simp [kdelta]

/-- `clear_elem` (as used by `m_map_itr_remove`) -/
theorem clearElem_delta (P : Params κ) (hP : P.Good) (m : Map κ) (hwf : WF P m) (ha : m.autofree = true)
    (i : Nat) (k' : κ) : kdelta k' (clearElem P m i).2 = live (clearElem P m i).1 k' - live m k' := by
  cases hs : slot m.cells i with
  | none => unfold clearElem; rw [hs]; simp [kdelta]
  | some e =>
    obtain ⟨k, v⟩ := e
    have hn : 0 < m.cells.length := by have := hwf.size.pos hP; unfold Map.size at this; omega
    have hhas : Has m.cells (k, v) := ⟨i % m.cells.length, Nat.mod_lt _ hn, by rw [slot_mod]; exact hs⟩
    obtain ⟨_, _, _, _, g5, g6⟩ := clearElem_spec P hP m hwf i k v hs
    have : (clearElem P m i).2 = remEvs m (k, v) := g6
    rw [this, kdelta_remEvs m ha, live_removed m _ k g5 k']
    by_cases hk : k' = k
    · subst hk; rw [live_of_has m k' v hhas]; simp
    · have : ¬ k = k' := fun x => hk x.symm
      simp [hk, this]

theorem kdelta_flatMap_remEvs (m : Map κ) (ha : m.autofree = true) (k' : κ) :
    ∀ (order : List (κ × Nat)), (order.map (·.1)).Nodup →
      kdelta k' (order.flatMap (remEvs m)) = if k' ∈ order.map (·.1) then -1 else 0 := by
  intro order
  induction order with
  | nil => intro _; simp [kdelta]
  | cons e rest ih =>
    intro hnd
    simp only [List.map_cons, List.nodup_cons] at hnd
    rw [List.flatMap_cons, kdelta_append, kdelta_remEvs m ha, ih hnd.2]
    simp only [List.map_cons, List.mem_cons]
    by_cases h1 : e.1 = k'
    · subst h1; simp [hnd.1]
    · have : ¬ k' = e.1 := fun x => h1 x.symm
      rw [if_neg h1]
      by_cases h2 : k' ∈ List.map (fun x => x.1) rest
      · simp [h2]
      · simp [h2, this]

/-- `m_map_clear` -/
theorem clear_delta (P : Params κ) (hP : P.Good) (m : Map κ) (hwf : WF P m) (ha : m.autofree = true) (k' : κ) :
    kdelta k' (clear P m).2 = live (clear P m).1 k' - live m k' := by
  have h := clear_spec P hP m hwf
  obtain ⟨order, ho1, ho2, ho3⟩ := h.evs
  rw [ho1, kdelta_flatMap_remEvs m ha k' order ho2, live_of_absent _ k' (fun v => h.empty _)]
  unfold live
  have : k' ∈ order.map (·.1) ↔ k' ∈ keysOf m.cells := by
    rw [mem_keysOf, List.mem_map]
    constructor
    · rintro ⟨⟨k, v⟩, he, rfl⟩; exact ⟨v, (ho3 _).mp he⟩
    · rintro ⟨v, hv⟩; exact ⟨(k', v), (ho3 _).mpr hv, rfl⟩
  by_cases hm : k' ∈ keysOf m.cells
  · rw [if_pos hm, if_pos (this.mpr hm)]; simp
  · rw [if_neg hm, if_neg (fun x => hm (this.mp x))]; simp

/-- the callback of `m_map_iterate`, whatever it does -/
theorem runCb_delta (P : Params κ) (hP : P.Good) (m : Map κ) (hwf : WF P m) (ha : m.autofree = true) (k : κ)
    (a : CbAct κ) (k' : κ) :
    kdelta k' (outEvs (runCb P m k a).2.1) = live (runCb P m k a).1 k' - live m k' ∧
    (runCb P m k a).1.autofree = true := by
  have hoe : ∀ (evs : List (Ev κ)) (rc : Int), outEvs (evs.map Out.ev ++ [Out.rc rc]) = evs := by
    intro evs rc; rw [outEvs_append, outEvs_evs]; simp [outEvs]
  cases a with
  | cont => simp [runCb, outEvs, kdelta, ha]
  | stop => simp [runCb, outEvs, kdelta, ha]
  | err => simp [runCb, outEvs, kdelta, ha]
  | rm =>
    simp only [runCb]; rw [hoe]
    exact ⟨remove_delta P hP m hwf ha k k', by rw [(remove_spec P hP m hwf k).2.1.autofree]; exact ha⟩
  | del k2 =>
    simp only [runCb]; rw [hoe]
    exact ⟨remove_delta P hP m hwf ha k2 k', by rw [(remove_spec P hP m hwf k2).2.1.autofree]; exact ha⟩
  | put k2 v2 =>
    simp only [runCb]; rw [hoe]
    exact ⟨put_delta P hP m hwf ha k2 v2 k', by rw [(put_spec P hP m hwf k2 v2).2.1.autofree]; exact ha⟩

theorem iterLoop_delta (P : Params κ) (hP : P.Good) (cb : Nat → κ → Nat → CbAct κ) (stop : Nat) (k' : κ) :
    ∀ (fuel : Nat) (m : Map κ) (p vn : Nat), WF P m → m.autofree = true →
      kdelta k' (outEvs (iterLoop P cb fuel m p stop vn).2.1) = live (iterLoop P cb fuel m p stop vn).1 k' - live m k' ∧
      (iterLoop P cb fuel m p stop vn).1.autofree = true := by
  intro fuel
  induction fuel with
  | zero => intro m p vn _ ha; simp [iterLoop, outEvs, kdelta, ha]
  | succ fuel ih =>
    intro m p vn h ha
    rw [iterLoop]
    split
    · split
      · exact ih _ _ _ h ha
      · rename_i k v _
        have h1 := runCb_WF P hP m h k (cb vn k v)
        obtain ⟨d1, a1⟩ := runCb_delta P hP m h ha k (cb vn k v) k'
        have hv : ∀ (outs rest : List (Out κ)), outEvs (Out.visit k v :: outs ++ rest) = outEvs outs ++ outEvs rest := by
          intro outs rest
          show outEvs (Out.visit k v :: (outs ++ rest)) = _
          simp [outEvs, outEvs_append]
        have hv0 : ∀ (outs : List (Out κ)), outEvs (Out.visit k v :: outs) = outEvs outs := by
          intro outs; simp [outEvs]
        simp only
        split
        · rw [hv0]; exact ⟨d1, a1⟩
        · split
          · rw [hv0]; exact ⟨d1, a1⟩
          · split
            · obtain ⟨d2, a2⟩ := ih (runCb P m k (cb vn k v)).1 p (vn + 1) h1 a1
              simp only
              rw [hv, kdelta_append, d1, d2]
              exact ⟨by omega, a2⟩
            · split
              · rw [hv0]; exact ⟨d1, a1⟩
              · obtain ⟨d2, a2⟩ := ih (runCb P m k (cb vn k v)).1 (p + 1) (vn + 1) h1 a1
                simp only
                rw [hv, kdelta_append, d1, d2]
                exact ⟨by omega, a2⟩
    · simp [outEvs, kdelta, ha]

theorem iterate_delta (P : Params κ) (hP : P.Good) (m : Map κ) (hwf : WF P m) (ha : m.autofree = true)
    (cb : Nat → κ → Nat → CbAct κ) (k' : κ) :
    kdelta k' (outEvs (iterate P m cb).2.1) = live (iterate P m cb).1 k' - live m k' ∧
    (iterate P m cb).1.autofree = true := by
  unfold iterate
  split
  · simp [outEvs, kdelta, ha]
  · exact iterLoop_delta P hP cb _ k' _ _ _ _ hwf ha

/-- one API call keeps the ledger -/
theorem step_delta (P : Params κ) (hP : P.Good) (s : St κ) (h : StOk P s) (ha : s.map.autofree = true)
    (op : Op κ) (k' : κ) :
    kdelta k' (step P s op).log - live (step P s op).map k' = kdelta k' s.log - live s.map k' ∧
    (step P s op).map.autofree = true := by
  obtain ⟨hwf, hit⟩ := h
  cases op with
  | put k v =>
    simp only [step]; rw [kdelta_append, put_delta P hP s.map hwf ha k v k']
    exact ⟨by omega, by rw [(put_spec P hP s.map hwf k v).2.1.autofree]; exact ha⟩
  | get k => exact ⟨rfl, ha⟩
  | has k => exact ⟨rfl, ha⟩
  | del k =>
    simp only [step]; rw [kdelta_append, remove_delta P hP s.map hwf ha k k']
    exact ⟨by omega, by rw [(remove_spec P hP s.map hwf k).2.1.autofree]; exact ha⟩
  | len => exact ⟨rfl, ha⟩
  | clear =>
    simp only [step]; rw [kdelta_append, clear_delta P hP s.map hwf ha k']
    exact ⟨by omega, by rw [(clear_spec P hP s.map hwf).flags.autofree]; exact ha⟩
  | oom =>
    simp only [step]
    exact ⟨by rw [live_congr s.map { s.map with oom := true } (fun _ => Iff.rfl)], ha⟩
  | iterate cb =>
    simp only [step]
    obtain ⟨d, a⟩ := iterate_delta P hP s.map hwf ha cb k'
    rw [kdelta_append, d]
    exact ⟨by omega, a⟩
  | itNew => exact ⟨rfl, ha⟩
  | itNext =>
    simp only [step]
    cases s.itr <;> exact ⟨rfl, ha⟩
  | itGet => exact ⟨rfl, ha⟩
  | itKey => exact ⟨rfl, ha⟩
  | itSet v =>
    simp only [step]
    cases hi : s.itr with
    | none => exact ⟨rfl, ha⟩
    | some it0 =>
      obtain ⟨_, g2, _, _, g5, _, _⟩ := itrSet_spec P s.map hwf it0 v
      simp only
      refine ⟨?_, by rw [g2.autofree]; exact ha⟩
      have : live (itrSet s.map it0 v).1 k' = live s.map k' := by
        unfold live
        have hk : k' ∈ keysOf (itrSet s.map it0 v).1.cells ↔ k' ∈ keysOf s.map.cells := by
          rw [mem_keysOf, mem_keysOf]
          have hsz : (itrSet s.map it0 v).1.cells.length = s.map.cells.length := by
            have := (itrSet_spec P s.map hwf it0 v).2.2.1; unfold Map.size at this; exact this
          constructor
          · rintro ⟨w, j, hj, hs⟩
            have := g5 j; rw [hs] at this
            cases hc : slot s.map.cells j with
            | none => rw [hc] at this; simp at this
            | some e => rw [hc] at this; simp at this; exact ⟨e.2, j, by omega, by rw [hc, this]⟩
          · rintro ⟨w, j, hj, hs⟩
            have := g5 j; rw [hs] at this
            cases hc : slot (itrSet s.map it0 v).1.cells j with
            | none => rw [hc] at this; simp at this
            | some e => rw [hc] at this; simp at this; exact ⟨e.2, j, by omega, by rw [hc, ← this]⟩
        by_cases hm : k' ∈ keysOf s.map.cells
        · rw [if_pos hm, if_pos (hk.mpr hm)]
        · rw [if_neg hm, if_neg (fun x => hm (hk.mp x))]
      rw [this]
  | itRm =>
    simp only [step]
    cases hi : s.itr with
    | none => exact ⟨rfl, ha⟩
    | some it0 =>
      simp only
      unfold itrRemove
      by_cases hr : it0.removed = true
      · rw [if_pos hr]; simp only [List.append_nil]; exact ⟨by first | rfl | trivial, ha⟩
      · rw [if_neg hr]
        simp only
        rw [kdelta_append, clearElem_delta P hP s.map hwf ha it0.pos k']
        refine ⟨by omega, ?_⟩
        cases hs : slot s.map.cells it0.pos with
        | none => unfold clearElem; rw [hs]; exact ha
        | some e => rw [(clearElem_spec P hP s.map hwf it0.pos e.1 e.2 hs).2.1.autofree]; exact ha

theorem run_delta (P : Params κ) (hP : P.Good) (k' : κ) : ∀ (ops : List (Op κ)) (s : St κ), StOk P s →
    s.map.autofree = true →
    kdelta k' (run P s ops).log - live (run P s ops).map k' = kdelta k' s.log - live s.map k' := by
  intro ops
  induction ops with
  | nil => intro s _ _; rfl
  | cons o os ih =>
    intro s h ha
    obtain ⟨d, a⟩ := step_delta P hP s h ha o k'
    have := ih (step P s o) (step_ok P hP s h o) a
    show kdelta k' (run P (step P s o) os).log - live (run P (step P s o) os).map k' = _
    rw [this, d]

end Lm.Struct.Map
