import Lm.Inv.MapIter
/-!
# Every operation sequence keeps the map well-formed (property C05)
-/
set_option linter.unusedSectionVars false
namespace Lm.Struct.Map
variable {κ : Type} [DecidableEq κ]

theorem clearElem_WF (P : Params κ) (hP : P.Good) (m : Map κ) (hwf : WF P m) (i : Nat) :
    WF P (clearElem P m i).1 ∧ (clearElem P m i).1.size = m.size := by
  cases hs : slot m.cells i with
  | none => unfold clearElem; rw [hs]; exact ⟨hwf, rfl⟩
  | some e =>
    obtain ⟨k, v⟩ := e
    obtain ⟨g1, _, _, g4, _, _⟩ := clearElem_spec P hP m hwf i k v hs
    exact ⟨g1, g4⟩

/-- the callback of `m_map_iterate`, whatever it does, leaves a well-formed map -/
theorem runCb_WF (P : Params κ) (hP : P.Good) (m : Map κ) (hwf : WF P m) (k : κ) (a : CbAct κ) :
    WF P (runCb P m k a).1 := by
  cases a with
  | cont => exact hwf
  | rm => exact (remove_spec P hP m hwf k).1
  | stop => exact hwf
  | err => exact hwf
  | del k' => exact (remove_spec P hP m hwf k').1
  | put k' v' => exact (put_spec P hP m hwf k' v').1

theorem iterLoop_WF (P : Params κ) (hP : P.Good) (cb : Nat → κ → Nat → CbAct κ) (stop : Nat) :
    ∀ (fuel : Nat) (m : Map κ) (p vn : Nat), WF P m → WF P (iterLoop P cb fuel m p stop vn).1 := by
  intro fuel
  induction fuel with
  | zero => intro m p vn h; exact h
  | succ fuel ih =>
    intro m p vn h
    rw [iterLoop]
    split
    · split
      · exact ih _ _ _ h
      · rename_i k v _
        have h1 := runCb_WF P hP m h k (cb vn k v)
        simp only
        split
        · exact h1
        · split
          · exact h1
          · split
            · exact ih _ _ _ h1
            · split
              · exact h1
              · exact ih _ _ _ h1
    · exact h

theorem iterate_WF (P : Params κ) (hP : P.Good) (m : Map κ) (hwf : WF P m) (cb : Nat → κ → Nat → CbAct κ) :
    WF P (iterate P m cb).1 := by
  unfold iterate
  split
  · exact hwf
  · exact iterLoop_WF P hP cb _ _ _ _ _ hwf

/-- the script's iterator handle, when there is one, is valid for the current map -/
def StOk (P : Params κ) (s : St κ) : Prop :=
  WF P s.map ∧ ∀ it, s.itr = some it → ItrOk P s.map it

theorem ItrOk_of_keys_eq (P : Params κ) (m m' : Map κ) (it : Itr) (hwf' : WF P m') (hsz : m'.size = m.size)
    (hk : ∀ j, (slot m'.cells j).map (·.1) = (slot m.cells j).map (·.1)) (h : ItrOk P m it) : ItrOk P m' it := by
  refine ⟨⟨hwf', by rw [hsz]; exact h.scan.lo, ?_⟩, h.lt, ?_⟩
  · have := hk it.stop
    rw [h.scan.stopNone] at this
    cases hs : slot m'.cells it.stop with
    | none => rfl
    | some e => rw [hs] at this; simp at this
  · intro hr
    obtain ⟨e, he⟩ := h.occupied hr
    have := hk it.pos
    rw [he] at this
    cases hs : slot m'.cells it.pos with
    | none => rw [hs] at this; simp at this
    | some e' => exact ⟨e', rfl⟩

theorem step_ok (P : Params κ) (hP : P.Good) (s : St κ) (h : StOk P s) (op : Op κ) : StOk P (step P s op) := by
  obtain ⟨hwf, hit⟩ := h
  cases op with
  | put k v => exact ⟨(put_spec P hP s.map hwf k v).1, fun it h => by cases h⟩
  | get k => exact ⟨hwf, hit⟩
  | has k => exact ⟨hwf, hit⟩
  | del k => exact ⟨(remove_spec P hP s.map hwf k).1, fun it h => by cases h⟩
  | len => exact ⟨hwf, hit⟩
  | clear => exact ⟨(clear_spec P hP s.map hwf).wf, fun it h => by cases h⟩
  | oom =>
    have hwf' : WF P { s.map with oom := true } := ⟨hwf.size, hwf.tbl, hwf.len, hwf.room⟩
    refine ⟨hwf', fun it h => ?_⟩
    have := hit it h
    exact ⟨⟨hwf', this.scan.lo, this.scan.stopNone⟩, this.lt, this.occupied⟩
  | iterate cb => exact ⟨iterate_WF P hP s.map hwf cb, fun it h => by cases h⟩
  | itNew =>
    refine ⟨hwf, fun it h => ?_⟩
    simp only [step] at h
    rcases itrNew_spec P s.map hwf with ⟨_, h1⟩ | ⟨_, it', h1, h2, _, _⟩
    · rw [h1] at h; cases h
    · rw [h1] at h; cases h; exact h2
  | itNext =>
    simp only [step]
    cases hi : s.itr with
    | none => exact ⟨hwf, fun it h => by simp only at h; rw [hi] at h; cases h⟩
    | some it0 =>
      refine ⟨hwf, fun it h => ?_⟩
      simp only at h
      rcases itrNext_spec P s.map it0 (hit it0 hi) with ⟨h1, _⟩ | ⟨it', h1, h2, _, _, _, _⟩
      · rw [h1] at h; cases h
      · rw [h1] at h; cases h; exact h2
  | itGet => exact ⟨hwf, hit⟩
  | itKey => exact ⟨hwf, hit⟩
  | itSet v =>
    simp only [step]
    cases hi : s.itr with
    | none => exact ⟨hwf, fun it h => by simp only at h; rw [hi] at h; cases h⟩
    | some it0 =>
      obtain ⟨g1, _, g3, _, g5, _, _⟩ := itrSet_spec P s.map hwf it0 v
      refine ⟨g1, fun it h => ?_⟩
      simp only at h
      cases h
      exact ItrOk_of_keys_eq P s.map _ it0 g1 g3 g5 (hit it0 hi)
  | itRm =>
    simp only [step]
    cases hi : s.itr with
    | none => exact ⟨hwf, fun it h => by simp only at h; rw [hi] at h; cases h⟩
    | some it0 =>
      have hok := hit it0 hi
      simp only
      unfold itrRemove
      by_cases hr : it0.removed = true
      · rw [if_pos hr]
        exact ⟨hwf, fun it h => by simp only at h; cases h; exact hok⟩
      · rw [if_neg hr]
        have hr' : it0.removed = false := by simpa using hr
        obtain ⟨⟨k, v⟩, hs⟩ := hok.occupied hr'
        obtain ⟨g1, _⟩ := rm_step P hP s.map it0.pos it0.stop hok.scan hok.lt k v hs
        refine ⟨g1.wf, fun it h => ?_⟩
        simp only at h; cases h
        exact ⟨g1, hok.lt, fun h => by cases h⟩

theorem run_ok (P : Params κ) (hP : P.Good) (ops : List (Op κ)) (s : St κ) (h : StOk P s) : StOk P (run P s ops) := by
  induction ops generalizing s with
  | nil => exact h
  | cons o os ih => exact ih _ (step_ok P hP s h o)

end Lm.Struct.Map
