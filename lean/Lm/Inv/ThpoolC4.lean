import Lm.Inv.ThpoolInv
/-! Preservation of the invariants about the wait of `wait_pool` for detached workers. -/
namespace Lm.Thpool
variable {s s' : State} {l : Label}
set_option linter.unusedSimpArgs false
set_option linter.unusedVariables false

set_option maxHeartbeats 1000000 in
theorem waitAlive_step (hi : Inv s) (h : step s l = some s') : s'.pc 0 = .fWait → 0 < s'.alive := by
  have h1 := hi.waitAlive
  have h2 := hi.mutex 0
  have h3 := hi.mutex l.tid
  have h4 := hi.othersNotM l.tid
  have h5 := hi.mainIsM
  have hA := ph_of_pastChk hi l.tid
  have hB := ph_of_inTask hi l.tid
  step_cases h
  all_goals (
    by_cases h0 : l.tid = 0
    · simp [State.goto, upd_apply, zero_eq, h0] <;> grind
    · simp [State.goto, upd_apply, zero_eq, h0] <;> grind)

set_option maxHeartbeats 1000000 in
theorem mainWait_step (hi : Inv s) (h : step s l = some s') :
    s'.pc 0 = .fWaiting → 0 ∈ s'.waiters → s'.alive = 0 → ∃ u, s'.pc u = .wExitBcast := by
  intro hp hw ha
  have h1 := hi.mainWait
  have h2 := hi.waitAlive
  have h4 := hi.othersNotM l.tid
  have h5 := hi.mainIsM
  have h6 := hi.nondetPath
  have h7 := hi.liveHandle l.tid
  have h8 := fun w => List.mem_of_mem_erase (a := 0) (b := w) (l := s.waiters)
  by_cases hb : s.pc l.tid = .wExitBcast
  · -- the broadcasting worker empties the wait set
    exfalso
    simp [step, hb] at h
    split at h <;> simp at h
    subst h
    simp at hw
  · by_cases hd : s.pc l.tid = .wExitDec
    · refine ⟨l.tid, ?_⟩
      have hdet : s.cfg.detached = true := by
        cases hdd : s.cfg.detached with
        | true => rfl
        | false =>
          exfalso
          have hne : l.tid ≠ 0 := fun e => by rw [e] at hd; have := hi.mainIsM; simp [hd] at this
          have hpc := pc_frame h 0 (Ne.symm hne)
          rcases hpc with e | ⟨e, _, _⟩
          · rw [e] at hp; have := h6 hdd; simp [hp] at this
          · have := hi.mainIsM; simp [e] at this
      simp [step, hd] at h
      split at h <;> simp at h
      subst h
      simp [State.goto, hdet]
    · -- any other step: the old witness is still there, or the premises were false before
      have key : s.pc 0 = .fWaiting ∧ 0 ∈ s.waiters ∧ s.alive = 0 := by
        have hA := ph_of_pastChk hi l.tid
        have hB := ph_of_inTask hi l.tid
        step_cases h
        all_goals (
          by_cases h0 : l.tid = 0
          · simp [State.goto, upd_apply, zero_eq, h0] at hp hw ha ⊢ <;> grind
          · simp [State.goto, upd_apply, zero_eq, h0] at hp hw ha ⊢ <;> grind)
      obtain ⟨u, hu⟩ := h1 key.1 key.2.1 key.2.2
      have hne : u ≠ l.tid := fun e => hb (e ▸ hu)
      rcases pc_frame h u hne with e | ⟨e, _, _⟩
      · exact ⟨u, by rw [e]; exact hu⟩
      · rw [hu] at e; cases e

end Lm.Thpool
