import Lm.Inv.ThpoolInv
/-! Preservation of the per-task bookkeeping invariants. -/
namespace Lm.Thpool
variable {s s' : State} {l : Label}
set_option linter.unusedSimpArgs false
set_option linter.unusedVariables false

set_option maxHeartbeats 1000000 in
theorem taskFacts_step (hi : Inv s) (h : step s l = some s') : ∀ k,
    ((s'.task k).execCount = if (s'.task k).started then 1 else 0) ∧
    ((s'.task k).finished = true → (s'.task k).started = true) ∧
    ((s'.task k).accepted = true → (s'.task k).submitted = true) ∧
    ((s'.task k).started = true → (s'.task k).accepted = true) ∧
    ((s'.task k).discarded = true → (s'.task k).accepted = true ∧ (s'.task k).started = false) ∧
    ((s'.task k).started = true → (s'.task k).ranWith = some (s'.task k).arg) := by
  intro k
  have h1 := hi.execCnt k
  have h2 := hi.finStarted k
  have h3 := hi.accSub k
  have h4 := hi.startAcc k
  have h5 := hi.discInv k
  have h6 := hi.ranArg k
  have h7 := hi.heldInv l.tid
  have h8 := hi.inTaskInv l.tid
  have h9 := hi.preEnqInv l.tid
  have h10 := hi.queued k
  have hN := hi.nPreEnqInv l.tid
  have hA := ph_of_pastChk hi l.tid
  have hB := ph_of_inTask hi l.tid
  step_cases h
  all_goals first
    | exact ⟨h1, h2, h3, h4, h5, h6⟩
    | (simp only [State.goto, upd_apply]
       split <;> simp_all <;> fin)


set_option maxHeartbeats 1000000 in
theorem tasksNodup_step (hi : Inv s) (h : step s l = some s') : s'.tasks.Nodup := by
  have h1 := hi.tasksNodup
  have h2 := hi.preEnqInv l.tid
  have h3 := hi.queued (s.cur l.tid)
  have h3n := hi.queued (s.addK l.tid)
  have hN := hi.nPreEnqInv l.tid
  have hA := ph_of_pastChk hi l.tid
  have hB := ph_of_inTask hi l.tid
  step_cases h
  all_goals first
    | exact h1
    | (simp_all [State.goto, List.nodup_append] <;> fin)

set_option maxHeartbeats 1000000 in
theorem queued_step (hi : Inv s) (h : step s l = some s') :
    ∀ k, k ∈ s'.tasks → (s'.task k).accepted = true ∧ (s'.task k).started = false ∧ (s'.task k).discarded = false := by
  intro k hk
  have h1 := hi.queued k
  have h2 := hi.preEnqInv l.tid
  have h3 := hi.heldInv l.tid
  have h4 := hi.startAcc k
  have h5 := hi.discInv k
  have h6 := hi.inTaskInv l.tid
  have hN := hi.nPreEnqInv l.tid
  have hA := ph_of_pastChk hi l.tid
  have hB := ph_of_inTask hi l.tid
  step_cases h
  all_goals first
    | exact h1 hk
    | (simp only [State.goto, upd_apply] at hk ⊢
       (try split) <;> simp_all <;> fin)


set_option maxRecDepth 8000 in
set_option maxHeartbeats 1000000 in
theorem heldInv_step (hi : Inv s) (h : step s l = some s') : ∀ u, held (s'.pc u) = true →
    (s'.task (s'.cur u)).accepted = true ∧ (s'.task (s'.cur u)).started = false ∧ (s'.task (s'.cur u)).discarded = false ∧
    s'.cur u ∉ s'.tasks ∧ (s'.task (s'.cur u)).runner = u := by
  intro u hu
  have h1 := hi.heldInv u
  have h2 := hi.heldInv l.tid
  have h3 := hi.queued
  have h4 := hi.tasksNodup
  have h5 := hi.preEnqInv l.tid
  have h6 := hi.inTaskInv l.tid
  have hN := hi.nPreEnqInv l.tid
  have hA := ph_of_pastChk hi l.tid
  have hB := ph_of_inTask hi l.tid
  step_cases h
  all_goals (
    by_cases ht : u = l.tid
    · subst ht
      simp [State.goto, upd_apply] at hu ⊢ <;> grind
    · simp [State.goto, upd_apply, ht] at hu ⊢ <;> grind)


set_option maxHeartbeats 1000000 in
theorem inTaskInv_step (hi : Inv s) (h : step s l = some s') : ∀ u, inTask (s'.pc u) = true →
    (s'.task (s'.cur u)).started = true ∧ (s'.task (s'.cur u)).finished = false ∧ (s'.task (s'.cur u)).runner = u := by
  intro u hu
  have h1 := hi.inTaskInv u
  have h2 := hi.heldInv l.tid
  have h3 := hi.queued
  have h5 := hi.preEnqInv l.tid
  have h6 := hi.inTaskInv l.tid
  have h7 := hi.startAcc (s.cur u)
  have h8 := hi.accSub (s.cur u)
  have h9 := hi.finStarted (s.cur l.tid)
  have hN := hi.nPreEnqInv l.tid
  have hA := ph_of_pastChk hi l.tid
  have hB := ph_of_inTask hi l.tid
  step_cases h
  all_goals (
    by_cases ht : u = l.tid
    · subst ht
      simp [State.goto, upd_apply] at hu ⊢ <;> grind
    · simp [State.goto, upd_apply, ht] at hu ⊢ <;> grind)

set_option maxHeartbeats 1000000 in
theorem runningInv_step (hi : Inv s) (h : step s l = some s') : ∀ k, (s'.task k).started = true → (s'.task k).finished = false →
    inTask (s'.pc (s'.task k).runner) = true ∧ s'.cur (s'.task k).runner = k := by
  intro k hk1 hk2
  have h1 := hi.runningInv k
  have h2 := hi.heldInv l.tid
  have h3 := hi.queued k
  have h6 := hi.inTaskInv l.tid
  have h7 := hi.startAcc k
  have h8 := hi.accSub k
  have hN := hi.nPreEnqInv l.tid
  have hA := ph_of_pastChk hi l.tid
  have hB := ph_of_inTask hi l.tid
  step_cases h
  all_goals (
    by_cases ht : (s.task k).runner = l.tid <;>
    simp [State.goto, upd_apply] at hk1 hk2 ⊢ <;> grind)


set_option maxHeartbeats 1000000 in
theorem pendingInv_step (hi : Inv s) (h : step s l = some s') : ∀ k, (s'.task k).accepted = true → (s'.task k).started = false →
    (s'.task k).discarded = false →
    k ∈ s'.tasks ∨ (held (s'.pc (s'.task k).runner) = true ∧ s'.cur (s'.task k).runner = k) := by
  intro k hk1 hk2 hk3
  have h1 := hi.pendingInv k
  have h2 := hi.heldInv l.tid
  have h3 := hi.queued k
  have h5 := hi.preEnqInv l.tid
  have h6 := hi.inTaskInv l.tid
  have h7 := hi.tasksNodup
  have hN := hi.nPreEnqInv l.tid
  have hA := ph_of_pastChk hi l.tid
  have hB := ph_of_inTask hi l.tid
  step_cases h
  all_goals (
    by_cases ht : (s.task k).runner = l.tid <;>
    simp [State.goto, upd_apply] at hk1 hk2 hk3 ⊢ <;> grind)

set_option maxHeartbeats 1000000 in
theorem preEnqInv_step (hi : Inv s) (h : step s l = some s') : ∀ u, preEnq (s'.pc u) = true →
    (s'.task (s'.cur u)).submitted = true ∧ (s'.task (s'.cur u)).accepted = false ∧ (s'.task (s'.cur u)).subBy = u := by
  intro u hu
  have h1 := hi.preEnqInv u
  have h2 := hi.preEnqInv l.tid
  have h3 := hi.queued
  have h4 := hi.accSub
  have h5 := hi.heldInv l.tid
  have h6 := hi.inTaskInv l.tid
  have h7 := hi.startAcc
  have hN := hi.nPreEnqInv l.tid
  have hA := ph_of_pastChk hi l.tid
  have hB := ph_of_inTask hi l.tid
  step_cases h
  all_goals (
    by_cases ht : u = l.tid
    · subst ht
      simp [State.goto, upd_apply] at hu ⊢ <;> grind
    · simp [State.goto, upd_apply, ht] at hu ⊢ <;> grind)


/-- with wait_all, the queue is empty when `m_queue_free` runs: nothing is discarded -/
theorem waitall_queue_empty (hi : Inv s) (h0 : s.pc 0 = .fQueueFree) (hm : s.mode = true) : s.tasks = [] := by
  cases ht : s.tasks with
  | nil => rfl
  | cons k ks =>
    exfalso
    have hth := hi.tasksThreads (by simp [ht])
    cases hh : s.threads with
    | nil => exact hth hh
    | cons u us =>
      have hw := (hi.workersIff u).mp (hi.thrSub u (by simp [hh]))
      have hg := hi.goneAll (Or.inl (by simp [h0])) u hw
      have he : exiting (s.pc u) = true := by revert hg; cases s.pc u <;> simp
      have hs := hi.shutSet (by simp [h0])
      rw [hm] at hs
      have := hi.exitAllEmpty u he (by simpa using hs)
      simp [ht] at this

set_option maxHeartbeats 1000000 in
theorem discPhase_step (hi : Inv s) (h : step s l = some s') :
    ∀ k, (s'.task k).discarded = true → 13 ≤ ph (s'.pc 0) ∧ s'.mode = false := by
  intro k hk
  have h1 := hi.discPhase k
  have h2 := waitall_queue_empty hi
  have h4 := hi.othersNotM l.tid
  have h5 := hi.mainIsM
  have hN := hi.nPreEnqInv l.tid
  have hA := ph_of_pastChk hi l.tid
  have hB := ph_of_inTask hi l.tid
  step_cases h
  all_goals (
    by_cases h0 : l.tid = 0
    · simp [State.goto, upd_apply, zero_eq, h0] at hk ⊢ <;> grind
    · simp [State.goto, upd_apply, zero_eq, h0] at hk ⊢ <;> grind)

end Lm.Thpool
