import Lm.Spec.C12
/-!
# Destructor accounting on the array machines

Every pointer the caller stored in a container is, at any time, exactly one of: still in the
container, handed back to the caller (`deq`/`pop`), overwritten through `it set` (the caller still
owns it; the library does not destroy it), or destroyed — counted with multiplicity.  So with a
destructor installed it runs exactly once per dropped element and never for a returned one; without
one it never runs.
-/
namespace Lm.Spec.C12
open Lm.Struct

/-- what the caller did: pointers stored, pointers received back, pointers overwritten by `it set` -/
structure Ledger where
  entered : List Val := []
  handed  : List Val := []
  over    : List Val := []
  deriving Repr, DecidableEq

/-- the values the destructor was called with -/
def destroyed (out : List AEv) : List Val := out.filterMap fun e => match e with | .dtor v => some v | _ => none

theorem destroyed_append (l1 l2 : List AEv) : destroyed (l1 ++ l2) = destroyed l1 ++ destroyed l2 := by
  simp [destroyed, List.filterMap_append]

theorem destroyed_drop_true (vs : List Val) : destroyed (drop true vs) = vs := by
  induction vs with
  | nil => rfl
  | cons v r ih => simp [drop, destroyed] at ih ⊢; exact ih

theorem destroyed_drop_false (vs : List Val) : destroyed (drop false vs) = [] := rfl

theorem destroyed_cur (v : Option Val) : destroyed [AEv.cur v] = [] := rfl
theorem destroyed_cb (vs : List Val) : destroyed [AEv.cb vs] = [] := rfl

/-- the balance: (stored) = (inside) + (handed back) + (overwritten) + (destroyed), per pointer value -/
def Bal (L : Ledger) (a : ASt) : Prop :=
  (∀ y, L.entered.count y = a.xs.count y + L.handed.count y + L.over.count y + (destroyed a.out).count y) ∧
  a.dtor = true

theorem count_eraseIdx_add {l : List Val} {i : Nat} {x : Val} (h : l[i]? = some x) (y : Val) :
    l.count y = (l.eraseIdx i).count y + [x].count y := by
  have hi : i < l.length := by
    rcases Nat.lt_or_ge i l.length with h' | h'
    · exact h'
    · simp [List.getElem?_eq_none h'] at h
  have hx : l[i] = x := by simpa [List.getElem?_eq_getElem hi] using h
  have e : l = l.take i ++ x :: l.drop (i + 1) := by rw [← hx, List.getElem_cons_drop, List.take_append_drop]
  rw [List.eraseIdx_eq_take_drop_succ]
  conv => lhs; rw [e]
  simp only [List.count_append, List.count_cons, List.count_nil]
  omega

theorem count_set_add {l : List Val} {i : Nat} {x : Val} (h : l[i]? = some x) (v y : Val) :
    (l.set i v).count y + [x].count y = l.count y + [v].count y := by
  have hi : i < l.length := by
    rcases Nat.lt_or_ge i l.length with h' | h'
    · exact h'
    · simp [List.getElem?_eq_none h'] at h
  have hx : l[i] = x := by simpa [List.getElem?_eq_getElem hi] using h
  have e : l = l.take i ++ x :: l.drop (i + 1) := by rw [← hx, List.getElem_cons_drop, List.take_append_drop]
  rw [List.set_eq_take_append_cons_drop, if_pos hi]
  conv => rhs; rw [e]
  simp only [List.count_append, List.count_cons, List.count_nil]
  omega

theorem count_insertIdx_add {l : List Val} {i : Nat} (h : i ≤ l.length) (v y : Val) :
    (l.insertIdx i v).count y = l.count y + [v].count y := by
  rw [(List.perm_insertIdx v l h).count_eq y]
  simp only [List.count_cons, List.count_nil]; omega

/-! ## Shared operations -/

theorem Bal.rmFirst {L : Ledger} {a : ASt} (h : Bal L a) : Bal L (rmFirst a).1 := by
  obtain ⟨hb, hd⟩ := h
  unfold Lm.Spec.C12.rmFirst
  cases hx : a.xs with
  | nil => exact ⟨by simpa [hx] using hb, hd⟩
  | cons x r =>
    refine ⟨?_, hd⟩
    intro y
    have := hb y
    simp only [hx, hd, destroyed_append, destroyed_drop_true, List.count_append, List.count_cons, List.count_nil] at this ⊢
    omega

theorem Bal.takeFirst {L : Ledger} {a : ASt} (h : Bal L a) :
    Bal (match a.xs with | x :: _ => { L with handed := L.handed ++ [x] } | [] => L) (takeFirst a).1 := by
  obtain ⟨hb, hd⟩ := h
  unfold Lm.Spec.C12.takeFirst
  cases hx : a.xs with
  | nil => exact ⟨by simpa [hx] using hb, hd⟩
  | cons x r =>
    refine ⟨?_, hd⟩
    intro y
    have := hb y
    simp only [hx, List.count_append, List.count_cons, List.count_nil] at this ⊢
    omega

theorem Bal.dropAll {L : Ledger} {a : ASt} (h : Bal L a) (alive : Bool) (cur : Option ACur) :
    Bal L { a with alive := alive, xs := [], cur := cur, out := a.out ++ drop a.dtor a.xs } := by
  obtain ⟨hb, hd⟩ := h
  refine ⟨?_, hd⟩
  intro y
  have := hb y
  simp only [hd, destroyed_append, destroyed_drop_true, List.count_append, List.count_nil] at this ⊢
  omega

theorem Bal.sameContent {L : Ledger} {a a' : ASt} (h : Bal L a) (hx : a'.xs = a.xs) (hd : a'.dtor = a.dtor)
    (ho : destroyed a'.out = destroyed a.out) : Bal L a' :=
  ⟨by intro y; rw [hx, ho]; exact h.1 y, by rw [hd]; exact h.2⟩

theorem Bal.settle {L : Ledger} {a : ASt} (h : Bal L a) (p : Nat) : Bal L (settle a p).1 := by
  unfold Lm.Spec.C12.settle
  split
  · exact h.sameContent rfl rfl (by simp [destroyed_append, destroyed_cur])
  · exact h.sameContent rfl rfl rfl

theorem Bal.itNew {L : Ledger} {a : ASt} (h : Bal L a) : Bal L (itNew a).1 := by
  unfold Lm.Spec.C12.itNew
  split
  · exact h.sameContent rfl rfl (by simp [destroyed_append, destroyed_cur])
  · exact h.sameContent rfl rfl rfl

theorem Bal.iterate {L : Ledger} {a : ASt} (h : Bal L a) (k : Option Nat) : Bal L (iterate a k).1 := by
  unfold Lm.Spec.C12.iterate
  split
  · exact h
  · exact h.sameContent rfl rfl (by simp [destroyed_append, destroyed_cb])

/-- `it rm` at cursor index `p` -/
theorem Bal.eraseAt {L : Ledger} {a : ASt} (h : Bal L a) {p : Nat} {x : Val} (hx : a.xs[p]? = some x) (cur : Option ACur) :
    Bal L { a with xs := a.xs.eraseIdx p, cur := cur, out := a.out ++ drop a.dtor [x] } := by
  obtain ⟨hb, hd⟩ := h
  refine ⟨?_, hd⟩
  intro y
  have h1 := hb y
  have h2 := count_eraseIdx_add hx y
  simp only [hd, destroyed_append, destroyed_drop_true, List.count_append] at h1 ⊢
  omega

/-- `it set v` at cursor index `p` -/
theorem Bal.setAt {L : Ledger} {a : ASt} (h : Bal L a) {p : Nat} {x : Val} (hx : a.xs[p]? = some x) (v : Val) :
    Bal { L with entered := L.entered ++ [v], over := L.over ++ [x] } { a with xs := a.xs.set p v } := by
  obtain ⟨hb, hd⟩ := h
  refine ⟨?_, hd⟩
  intro y
  have h1 := hb y
  have h2 := count_set_add hx v y
  simp only [List.count_append] at h1 ⊢
  omega

/-- a pointer is stored at index `i` -/
theorem Bal.insertAt {L : Ledger} {a : ASt} (h : Bal L a) {i : Nat} (hi : i ≤ a.xs.length) (v : Val) (cur : Option ACur) :
    Bal { L with entered := L.entered ++ [v] } { a with xs := a.xs.insertIdx i v, cur := cur } := by
  obtain ⟨hb, hd⟩ := h
  refine ⟨?_, hd⟩
  intro y
  have h1 := hb y
  have h2 := count_insertIdx_add hi v y
  simp only [List.count_append] at h1 ⊢
  omega

/-! ## Queue -/
namespace Queue

def ledgerStep (a : ASt) (L : Ledger) : Lm.Struct.Queue.Op → Ledger
  | .enq v => if a.alive ∧ v ≠ 0 then { L with entered := L.entered ++ [v] } else L
  | .deq => (match a.xs with | x :: _ => { L with handed := L.handed ++ [x] } | [] => L)
  | .itSet v =>
    (match a.cur with
     | some c => if c.removed ∨ v = 0 then L else
        (match a.xs[c.pos]? with | some x => { L with entered := L.entered ++ [v], over := L.over ++ [x] } | none => L)
     | none => L)
  | _ => L

def ledger (a : ASt) (L : Ledger) : List Lm.Struct.Queue.Op → Ledger
  | [] => L
  | o :: os => ledger (step a o).1 (ledgerStep a L o) os

theorem bal_itSet {L : Ledger} {a : ASt} (h : Bal L a) (v : Val) :
    Bal (match a.cur with
     | some c => if c.removed ∨ v = 0 then L else
        (match a.xs[c.pos]? with | some x => { L with entered := L.entered ++ [v], over := L.over ++ [x] } | none => L)
     | none => L) (itSet a v).1 := by
  unfold Lm.Spec.C12.itSet
  cases hc : a.cur with
  | none => exact h
  | some c =>
    by_cases hg : c.removed ∨ v = 0
    · simp only [hg, if_true]; exact h
    · simp only [hg, if_false]
      cases hx : a.xs[c.pos]? with
      | some x => exact h.setAt hx v
      | none =>
        have : a.xs.length ≤ c.pos := by simpa using hx
        simp only [List.set_eq_of_length_le this]
        exact h

theorem bal_itRm {L : Ledger} {a : ASt} (h : Bal L a) : Bal L (itRm a).1 := by
  unfold Lm.Spec.C12.itRm
  cases hc : a.cur with
  | none => exact h
  | some c =>
    by_cases hg : c.removed = true
    · simp only [hg, if_true]; exact h
    · simp only [hg, Bool.false_eq_true, if_false]
      cases hx : a.xs[c.pos]? with
      | some x => exact h.eraseAt hx _
      | none => exact h

theorem bal_itNext {L : Ledger} {a : ASt} (h : Bal L a) : Bal L (itNext a).1 := by
  unfold Lm.Spec.C12.itNext
  cases a.cur with
  | none => exact h
  | some c => exact h.settle _

theorem bal_itGet {L : Ledger} {a : ASt} (h : Bal L a) : Bal L (itGet a).1 := by
  unfold Lm.Spec.C12.itGet
  cases a.cur with
  | none => exact h
  | some c => simp only; split <;> (try split) <;> exact h

theorem bal_step {L : Ledger} {a : ASt} (o : Lm.Struct.Queue.Op) (h : Bal L a) : Bal (ledgerStep a L o) (step a o).1 := by
  cases o with
  | enq v =>
    simp only [step, ledgerStep]
    split
    · have := h.insertAt (i := a.xs.length) (Nat.le_refl _) v a.cur
      simpa [List.insertIdx_length_self] using this
    · exact h
  | deq => exact h.takeFirst
  | peek => simp only [step, ledgerStep, Lm.Spec.C12.peek]; split <;> exact h
  | rm => exact h.rmFirst
  | len => exact h
  | clear =>
    simp only [step, ledgerStep]
    split
    · exact h
    · exact h.dropAll a.alive a.cur
  | free => exact h.dropAll false none
  | iterate k => exact h.iterate k
  | itNew => exact h.itNew
  | itNext => exact bal_itNext h
  | itGet => exact bal_itGet h
  | itSet v => exact bal_itSet h v
  | itRm => exact bal_itRm h

theorem bal_run {L : Ledger} : ∀ (ops : List Lm.Struct.Queue.Op) {a : ASt}, Bal L a → Bal (ledger a L ops) (run a ops)
  | [], _, h => h
  | o :: os, a, h => by
    simp only [ledger, run, List.foldl_cons]
    exact bal_run os (bal_step o h)

end Queue

/-! ## Stack -/
namespace Stack

def ledgerStep (a : ASt) (L : Ledger) : Lm.Struct.Stack.Op → Ledger
  | .push v => if a.alive ∧ v ≠ 0 then { L with entered := L.entered ++ [v] } else L
  | .pop => (match a.xs with | x :: _ => { L with handed := L.handed ++ [x] } | [] => L)
  | .itSet v =>
    (match a.cur with
     | some c => if c.removed ∨ v = 0 then L else
        (match a.xs[c.pos]? with | some x => { L with entered := L.entered ++ [v], over := L.over ++ [x] } | none => L)
     | none => L)
  | _ => L

def ledger (a : ASt) (L : Ledger) : List Lm.Struct.Stack.Op → Ledger
  | [] => L
  | o :: os => ledger (step a o).1 (ledgerStep a L o) os

theorem bal_step {L : Ledger} {a : ASt} (o : Lm.Struct.Stack.Op) (h : Bal L a) : Bal (ledgerStep a L o) (step a o).1 := by
  cases o with
  | push v =>
    simp only [step, ledgerStep]
    split
    · have := h.insertAt (i := 0) (Nat.zero_le _) v a.cur
      simpa using this
    · exact h
  | pop => exact h.takeFirst
  | peek => simp only [step, ledgerStep, Lm.Spec.C12.peek]; split <;> exact h
  | rm => exact h.rmFirst
  | len => exact h
  | clear =>
    simp only [step, ledgerStep]
    split
    · exact h.dropAll a.alive a.cur
    · exact h
  | free =>
    simp only [step, ledgerStep]
    split
    · exact h.dropAll false none
    · exact h
  | iterate k => exact h.iterate k
  | itNew => exact h.itNew
  | itNext => exact Queue.bal_itNext h
  | itGet => exact Queue.bal_itGet h
  | itSet v => exact Queue.bal_itSet h v
  | itRm => exact Queue.bal_itRm h

theorem bal_run {L : Ledger} : ∀ (ops : List Lm.Struct.Stack.Op) {a : ASt}, Bal L a → Bal (ledger a L ops) (run a ops)
  | [], _, h => h
  | o :: os, a, h => by
    simp only [ledger, run, List.foldl_cons]
    exact bal_run os (bal_step o h)

end Stack

/-! ## List -/
namespace ListM

def ledgerStep (eq : Val → Val → Bool) (a : ASt) (L : Ledger) : Lm.Struct.ListM.Op → Ledger
  | .ins v => if a.alive ∧ v ≠ 0 then { L with entered := L.entered ++ [v] } else L
  | .itIns v =>
    (match a.cur with
     | some c => if v = 0 ∨ a.xs.length < c.pos then L else { L with entered := L.entered ++ [v] }
     | none => L)
  | .itSet v =>
    (match a.cur with
     | some c => if v = 0 then L else
        (match a.xs[c.pos]? with | some x => { L with entered := L.entered ++ [v], over := L.over ++ [x] } | none => L)
     | none => L)
  | _ => L

def ledger (eq : Val → Val → Bool) (a : ASt) (L : Ledger) : List Lm.Struct.ListM.Op → Ledger
  | [] => L
  | o :: os => ledger eq (step eq a o).1 (ledgerStep eq a L o) os

theorem bal_step (eq : Val → Val → Bool) {L : Ledger} {a : ASt} (o : Lm.Struct.ListM.Op) (h : Bal L a) :
    Bal (ledgerStep eq a L o) (step eq a o).1 := by
  cases o with
  | ins v =>
    simp only [step, ledgerStep]
    split
    · have hle : insPos eq a v ≤ a.xs.length := by
        unfold insPos; split
        · exact List.findIdx_le_length
        · exact Nat.zero_le _
      exact h.insertAt hle v a.cur
    · exact h
  | rm v =>
    simp only [step, ledgerStep]
    split
    · exact h
    · rw [List.find?_eq_getElem?_findIdx]
      cases hx : a.xs[List.findIdx (hits eq a.cmp v) a.xs]? with
      | some x => exact h.eraseAt hx a.cur
      | none => exact h
  | find v => simp only [step, ledgerStep]; split <;> (try split) <;> exact h
  | len => exact h
  | clear =>
    simp only [step, ledgerStep]
    split
    · exact h.dropAll a.alive a.cur
    · exact h
  | free =>
    simp only [step, ledgerStep]
    split
    · exact h.dropAll false none
    · exact h
  | iterate k => exact h.iterate k
  | itNew => exact h.itNew
  | itNext =>
    simp only [step, ledgerStep]
    cases a.cur with
    | none => exact h
    | some c => exact h.settle _
  | itGet =>
    simp only [step, ledgerStep]
    cases a.cur with
    | none => exact h
    | some c => simp only; split <;> exact h
  | itSet v =>
    simp only [step, ledgerStep]
    cases hc : a.cur with
    | none => exact h
    | some c =>
      simp only
      by_cases hv : v = 0
      · simp only [hv, true_or, if_true]; exact h
      · cases hx : a.xs[c.pos]? with
        | some x =>
          have hlt : c.pos < a.xs.length := by
            rcases Nat.lt_or_ge c.pos a.xs.length with h' | h'
            · exact h'
            · simp [List.getElem?_eq_none h'] at hx
          have hge : ¬ c.pos ≥ a.xs.length := by omega
          simp only [hv, hge, false_or, if_false]
          have := h.setAt hx v
          rw [hc] at this; exact this
        | none =>
          have : a.xs.length ≤ c.pos := by simpa using hx
          have hge : c.pos ≥ a.xs.length := this
          simp only [hv, hge, false_or, if_true, if_false]
          exact h
  | itRm =>
    simp only [step, ledgerStep]
    cases hc : a.cur with
    | none => exact h
    | some c =>
      simp only
      cases hx : a.xs[c.pos]? with
      | some x => exact h.eraseAt hx _
      | none => exact h
  | itIns v =>
    simp only [step, ledgerStep]
    cases hc : a.cur with
    | none => exact h
    | some c =>
      simp only
      by_cases hv : v = 0
      · simp only [hv, true_or, if_true]; exact h
      · by_cases hp : a.xs.length < c.pos
        · simp only [hv, hp, or_true, if_true, if_false, List.insertIdx_of_length_lt hp]
          exact h.sameContent rfl rfl rfl
        · simp only [hv, hp, or_self, if_false]
          exact h.insertAt (by omega) v _

theorem bal_run (eq : Val → Val → Bool) {L : Ledger} : ∀ (ops : List Lm.Struct.ListM.Op) {a : ASt}, Bal L a →
    Bal (ledger eq a L ops) (run eq a ops)
  | [], _, h => h
  | o :: os, a, h => by
    simp only [ledger, run, List.foldl_cons]
    exact bal_run eq os (bal_step eq o h)

end ListM

/-- without a destructor no destructor event is ever produced -/
theorem drop_false_nil (vs : List Val) : drop false vs = [] := rfl

/-! ## Without a destructor nothing is ever destroyed -/

def NoD (a : ASt) : Prop := a.dtor = false ∧ destroyed a.out = []

theorem NoD.same {a a' : ASt} (h : NoD a) (hd : a'.dtor = a.dtor) (ho : destroyed a'.out = destroyed a.out) : NoD a' :=
  ⟨by rw [hd]; exact h.1, by rw [ho]; exact h.2⟩

theorem NoD.drop {a : ASt} (h : NoD a) (vs : List Val) (alive : Bool) (xs : List Val) (cur : Option ACur) :
    NoD { a with alive := alive, xs := xs, cur := cur, out := a.out ++ drop a.dtor vs } :=
  ⟨h.1, by simp only [destroyed_append, h.1, destroyed_drop_false, h.2, List.append_nil]⟩

theorem NoD.settle {a : ASt} (h : NoD a) (p : Nat) : NoD (settle a p).1 := by
  unfold Lm.Spec.C12.settle
  split
  · exact h.same rfl (by simp [destroyed_append, destroyed_cur])
  · exact h.same rfl rfl

theorem NoD.common {a : ASt} (h : NoD a) :
    NoD (rmFirst a).1 ∧ NoD (takeFirst a).1 ∧ NoD (peek a).1 ∧ NoD (itNew a).1 ∧ NoD (itNext a).1 ∧
    NoD (itGet a).1 ∧ NoD (itRm a).1 ∧ (∀ v, NoD (itSet a v).1) ∧ (∀ k, NoD (iterate a k).1) := by
  refine ⟨?_, ?_, ?_, ?_, ?_, ?_, ?_, ?_, ?_⟩
  · unfold Lm.Spec.C12.rmFirst; split
    · exact h.drop _ _ _ _
    · exact h
  · unfold Lm.Spec.C12.takeFirst; split
    · exact h.same rfl rfl
    · exact h
  · unfold Lm.Spec.C12.peek; split <;> exact h
  · unfold Lm.Spec.C12.itNew; split
    · exact h.same rfl (by simp [destroyed_append, destroyed_cur])
    · exact h.same rfl rfl
  · unfold Lm.Spec.C12.itNext; split
    · exact h
    · exact h.settle _
  · unfold Lm.Spec.C12.itGet; split
    · exact h
    · split
      · exact h
      · split <;> exact h
  · unfold Lm.Spec.C12.itRm; split
    · exact h
    · split
      · exact h
      · split
        · exact h.drop _ _ _ _
        · exact h
  · intro v; unfold Lm.Spec.C12.itSet; split
    · exact h
    · split
      · exact h
      · exact h.same rfl rfl
  · intro k; unfold Lm.Spec.C12.iterate; split
    · exact h
    · exact h.same rfl (by simp [destroyed_append, destroyed_cb])

theorem Queue.nod_step {a : ASt} (o : Lm.Struct.Queue.Op) (h : NoD a) : NoD (Queue.step a o).1 := by
  have hc := h.common
  cases o with
  | enq v => simp only [Queue.step]; split; exact h.same rfl rfl; exact h
  | deq => exact hc.2.1
  | peek => exact hc.2.2.1
  | rm => exact hc.1
  | len => exact h
  | clear => simp only [Queue.step]; split; exact h; exact h.drop _ _ _ _
  | free => exact h.drop _ _ _ _
  | iterate k => exact hc.2.2.2.2.2.2.2.2 k
  | itNew => exact hc.2.2.2.1
  | itNext => exact hc.2.2.2.2.1
  | itGet => exact hc.2.2.2.2.2.1
  | itSet v => exact hc.2.2.2.2.2.2.2.1 v
  | itRm => exact hc.2.2.2.2.2.2.1

theorem Queue.nod_run : ∀ (ops : List Lm.Struct.Queue.Op) {a : ASt}, NoD a → NoD (Queue.run a ops)
  | [], _, h => h
  | o :: os, a, h => by simp only [Queue.run, List.foldl_cons]; exact Queue.nod_run os (Queue.nod_step o h)

theorem Stack.nod_step {a : ASt} (o : Lm.Struct.Stack.Op) (h : NoD a) : NoD (Stack.step a o).1 := by
  have hc := h.common
  cases o with
  | push v => simp only [Stack.step]; split; exact h.same rfl rfl; exact h
  | pop => exact hc.2.1
  | peek => exact hc.2.2.1
  | rm => exact hc.1
  | len => exact h
  | clear => simp only [Stack.step]; split; exact h.drop _ _ _ _; exact h
  | free => simp only [Stack.step]; split; exact h.drop _ _ _ _; exact h
  | iterate k => exact hc.2.2.2.2.2.2.2.2 k
  | itNew => exact hc.2.2.2.1
  | itNext => exact hc.2.2.2.2.1
  | itGet => exact hc.2.2.2.2.2.1
  | itSet v => exact hc.2.2.2.2.2.2.2.1 v
  | itRm => exact hc.2.2.2.2.2.2.1

theorem Stack.nod_run : ∀ (ops : List Lm.Struct.Stack.Op) {a : ASt}, NoD a → NoD (Stack.run a ops)
  | [], _, h => h
  | o :: os, a, h => by simp only [Stack.run, List.foldl_cons]; exact Stack.nod_run os (Stack.nod_step o h)

theorem ListM.nod_step (eq : Val → Val → Bool) {a : ASt} (o : Lm.Struct.ListM.Op) (h : NoD a) : NoD (ListM.step eq a o).1 := by
  have hc := h.common
  cases o with
  | ins v => simp only [ListM.step]; split; exact h.same rfl rfl; exact h
  | rm v =>
    simp only [ListM.step]; split
    · exact h
    · split
      · exact h.drop _ _ _ _
      · exact h
  | find v => simp only [ListM.step]; split <;> (try split) <;> exact h
  | len => exact h
  | clear => simp only [ListM.step]; split; exact h.drop _ _ _ _; exact h
  | free => simp only [ListM.step]; split; exact h.drop _ _ _ _; exact h
  | iterate k => exact hc.2.2.2.2.2.2.2.2 k
  | itNew => exact hc.2.2.2.1
  | itNext => simp only [ListM.step]; split; exact h; exact h.settle _
  | itGet => simp only [ListM.step]; split; exact h; split <;> exact h
  | itSet v =>
    simp only [ListM.step]; split
    · exact h
    · split
      · exact h
      · exact h.same rfl rfl
  | itRm =>
    simp only [ListM.step]; split
    · exact h
    · split
      · exact h.drop _ _ _ _
      · exact h
  | itIns v =>
    simp only [ListM.step]; split
    · exact h
    · split
      · exact h
      · exact h.same rfl rfl

theorem ListM.nod_run (eq : Val → Val → Bool) : ∀ (ops : List Lm.Struct.ListM.Op) {a : ASt}, NoD a → NoD (ListM.run eq a ops)
  | [], _, h => h
  | o :: os, a, h => by simp only [ListM.run, List.foldl_cons]; exact ListM.nod_run eq os (ListM.nod_step eq o h)

end Lm.Spec.C12
