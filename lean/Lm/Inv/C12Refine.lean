import Lm.Inv.Chain
import Lm.Spec.C12
/-!
# The chain models refine the array machines of `Lm.Spec.C12`

`R k s a`: model state `s` (nodes, links, tail pointer, `len` field) represents array state `a`, the
container is well formed (incl. the queue's tail pointer), the iterator's link resolves to the
cursor index.  Every API function preserves `R` and returns what the array machine returns.
-/
namespace Lm.Struct
open Lm.Spec.C12

inductive Kind | queue | stack | list
  deriving DecidableEq, Repr

def absEv : Ev → AEv
  | .dtor v => .dtor v
  | .cur nd => .cur (nd.map (·.val))
  | .cb vs => .cb vs

/-- queue: `tail` names the last node (NULL iff empty); stack and list have no tail -/
def tailOK (k : Kind) (q : Cont) : Prop := q.tail = (match k with | .queue => lastId q.chain | _ => none)

/-- the iterator's link resolves to the cursor index; queue/stack: unless the current element was
removed the cursor is on an element -/
def ItrR (k : Kind) (c : Chain) (it : Itr) (ac : ACur) : Prop :=
  linkPos c it.elem = some ac.pos ∧ ac.removed = it.removed ∧ ac.diff = it.diff ∧
  (match k with
   | .list => it.removed = false
   | _ => it.diff = 0 ∧ (it.removed = false → ac.pos < c.length))

def R (k : Kind) (s : St) (a : ASt) : Prop :=
  s.fault = false ∧ a.out = s.log.map absEv ∧
  match s.obj with
  | none => a.alive = false ∧ a.xs = [] ∧ a.cur = none ∧ s.itr = none
  | some q => a.alive = true ∧ a.dtor = q.dtor ∧ a.cmp = q.cmp ∧ a.xs = vals q.chain ∧ q.WF ∧ tailOK k q ∧
      match s.itr with
      | none => a.cur = none
      | some it => ∃ ac, a.cur = some ac ∧ ItrR k q.chain it ac

theorem vals_length (c : Chain) : (vals c).length = c.length := by simp [vals]

theorem vals_getElem? (c : Chain) (p : Nat) : (vals c)[p]? = (c[p]?).map (·.val) := by simp [vals]

theorem vals_eq_nil {c : Chain} : vals c = [] ↔ c = [] := by simp [vals]

theorem linkPos_head (c : Chain) : linkPos c .head = some 0 := rfl

/-! ## `itr_new` (all three containers) -/

theorem cLen_some (q : Cont) : cLen (some q) = (q.len : Int) := rfl

theorem noteCur_some {r : St × Ret} {q : Cont} {it : Itr} {p : Nat} {nd : Node}
    (ho : r.1.obj = some q) (hi : r.1.itr = some it) (hf : r.1.fault = false)
    (hp : linkPos q.chain it.elem = some p) (hn : q.chain[p]? = some nd) :
    noteCur r = ({ r.1 with log := r.1.log ++ [Ev.cur (some nd)] }, r.2) := by
  unfold noteCur
  rw [ho, hi]
  simp [hf, hp, hn]

theorem noteCur_noitr {r : St × Ret} (hi : r.1.itr = none) : noteCur r = r := by
  unfold noteCur
  rw [hi]

theorem itrNew_R {k : Kind} {s : St} {a : ASt} (h : R k s a) :
    R k (noteCur (itrNew s)).1 (itNew a).1 ∧ (noteCur (itrNew s)).2 = (itNew a).2 := by
  obtain ⟨alive, dt, cmp, xs, cur, out⟩ := a
  obtain ⟨obj, itr, log, fault⟩ := s
  cases obj with
  | none =>
    simp only [R] at h
    obtain ⟨rfl, rfl, rfl, rfl, rfl, rfl⟩ := h
    simp [itrNew, cLen, EINVAL, noteCur, itNew, R]
  | some q =>
    simp only [R] at h
    obtain ⟨rfl, rfl, rfl, rfl, rfl, rfl, wf, tl, hi⟩ := h
    cases hc : q.chain with
    | nil =>
      have : q.len = 0 := by simp [wf.len, hc]
      simp [itrNew, cLen, this, noteCur, itNew, R, hc, vals, wf, tl]
    | cons nd rest =>
      have hl : 0 < q.len := by simp [wf.len, hc]
      have e1 : itrNew ⟨some q, itr, log, false⟩ = (⟨some q, some { elem := .head }, log, false⟩, .handle true) := by
        simp [itrNew, cLen, hl]
      rw [e1, noteCur_some (q := q) (it := { elem := .head }) (p := 0) (nd := nd) rfl rfl rfl rfl (by simp [hc])]
      simp [itNew, R, hc, vals, wf, tl, linkPos, absEv, ItrR]
      cases k <;> simp

/-! ## `itr_next` of queue and stack -/

theorem itrNext_R {k : Kind} (hk : k ≠ .list) {s : St} {a : ASt} (h : R k s a) :
    R k (noteCur (itrNext s)).1 (itNext a).1 ∧ (noteCur (itrNext s)).2 = (itNext a).2 := by
  obtain ⟨alive, dt, cmp, xs, cur, out⟩ := a
  obtain ⟨obj, itr, log, fault⟩ := s
  cases obj with
  | none =>
    simp only [R] at h
    obtain ⟨rfl, rfl, rfl, rfl, rfl, rfl⟩ := h
    simp [itrNext, noteCur, itNext, R]
  | some q =>
    simp only [R] at h
    obtain ⟨rfl, rfl, rfl, rfl, rfl, rfl, wf, tl, hi⟩ := h
    cases itr with
    | none =>
      simp only at hi; subst hi
      simp [itrNext, noteCur, itNext, R, wf, tl]
    | some it =>
      obtain ⟨ac, rfl, hpos, hrem, hdiff, hk'⟩ := hi
      obtain ⟨p, rem, df⟩ := ac
      simp only at hpos hrem hdiff hk'
      have hk2 : it.diff = 0 ∧ (it.removed = false → p < q.chain.length) := by cases k <;> simp_all
      subst hrem hdiff
      cases hr : it.removed with
      | false =>
        have hp := hk2.2 hr
        have hnd : q.chain[p]? = some q.chain[p] := List.getElem?_eq_getElem hp
        cases hnx : q.chain[p + 1]? with
        | none =>
          have e1 : itrNext ⟨some q, some it, log, false⟩ = (⟨some q, none, log, false⟩, .int 0) := by
            simp [itrNext, hpos, hr, hnd, hnx]
          rw [e1, noteCur_noitr rfl]
          simp [itNext, settle, hr, vals_getElem?, hnx, R, wf, tl]
        | some nd' =>
          have e1 : itrNext ⟨some q, some it, log, false⟩ =
              (⟨some q, some { it with elem := .after q.chain[p].id }, log, false⟩, .int 0) := by
            simp [itrNext, hpos, hr, hnd, hnx]
          rw [e1, noteCur_some (q := q) (p := p + 1) (nd := nd') rfl rfl rfl
            (linkPos_after_getElem wf.nodup hnd) hnx]
          have : p + 1 < q.chain.length := by
            rcases Nat.lt_or_ge (p + 1) q.chain.length with h' | h'
            · exact h'
            · simp [List.getElem?_eq_none h'] at hnx
          simp [itNext, settle, hr, vals_getElem?, hnx, R, wf, tl, absEv, ItrR,
            linkPos_after_getElem wf.nodup hnd, hk2.1, this]
          cases k <;> simp_all
      | true =>
        cases hnx : q.chain[p]? with
        | none =>
          have e1 : itrNext ⟨some q, some it, log, false⟩ = (⟨some q, none, log, false⟩, .int 0) := by
            simp [itrNext, hpos, hr, hnx]
          rw [e1, noteCur_noitr rfl]
          simp [itNext, settle, hr, vals_getElem?, hnx, R, wf, tl]
        | some nd' =>
          have e1 : itrNext ⟨some q, some it, log, false⟩ =
              (⟨some q, some { it with removed := false }, log, false⟩, .int 0) := by
            simp [itrNext, hpos, hr, hnx]
          rw [e1, noteCur_some (q := q) (it := { it with removed := false }) (p := p) (nd := nd') rfl rfl rfl hpos hnx]
          have : p < q.chain.length := by
            rcases Nat.lt_or_ge p q.chain.length with h' | h'
            · exact h'
            · simp [List.getElem?_eq_none h'] at hnx
          simp [itNext, settle, hr, vals_getElem?, hnx, R, wf, tl, absEv, ItrR, hpos, hk2.1, this]
          cases k <;> simp_all

theorem lt_of_getElem?_some {α} {l : List α} {p : Nat} {x : α} (h : l[p]? = some x) : p < l.length := by
  rcases Nat.lt_or_ge p l.length with h' | h'
  · exact h'
  · simp [List.getElem?_eq_none h'] at h

/-! ## `itr_get_data`, `itr_set_data`, `itr_remove` of queue and stack -/

theorem itrGet_R {k : Kind} (hk : k ≠ .list) {s : St} {a : ASt} (h : R k s a) :
    R k (itrGet s).1 (itGet a).1 ∧ (itrGet s).2 = (itGet a).2 := by
  obtain ⟨alive, dt, cmp, xs, cur, out⟩ := a
  obtain ⟨obj, itr, log, fault⟩ := s
  cases obj with
  | none =>
    have h' := h
    simp only [R] at h
    obtain ⟨rfl, rfl, rfl, rfl, rfl, rfl⟩ := h
    simp [itrGet, itGet]; exact h'
  | some q =>
    have h' := h
    simp only [R] at h
    obtain ⟨rfl, rfl, rfl, rfl, rfl, rfl, wf, tl, hi⟩ := h
    cases itr with
    | none =>
      simp only at hi; subst hi
      simp [itrGet, itGet]; exact h'
    | some it =>
      obtain ⟨ac, rfl, hpos, hrem, hdiff, hk'⟩ := hi
      obtain ⟨p, rem, df⟩ := ac
      simp only at hpos hrem hdiff hk'
      have hk2 : it.diff = 0 ∧ (it.removed = false → p < q.chain.length) := by cases k <;> simp_all
      subst hrem hdiff
      cases hr : it.removed with
      | true => simp [itrGet, itGet, hr]; simpa [hr] using h'
      | false =>
        have hp := hk2.2 hr
        have hnd : q.chain[p]? = some q.chain[p] := List.getElem?_eq_getElem hp
        simp [itrGet, itGet, hr, hpos, hnd, vals_getElem?]; simpa [hr] using h'

theorem itrSet_R {k : Kind} (hk : k ≠ .list) {s : St} {a : ASt} (v : Val) (h : R k s a) :
    R k (itrSet s v).1 (itSet a v).1 ∧ (itrSet s v).2 = (itSet a v).2 := by
  obtain ⟨alive, dt, cmp, xs, cur, out⟩ := a
  obtain ⟨obj, itr, log, fault⟩ := s
  cases obj with
  | none =>
    have h' := h
    simp only [R] at h
    obtain ⟨rfl, rfl, rfl, rfl, rfl, rfl⟩ := h
    simp [itrSet, itSet]; exact h'
  | some q =>
    have h' := h
    simp only [R] at h
    obtain ⟨rfl, rfl, rfl, rfl, rfl, rfl, wf, tl, hi⟩ := h
    cases itr with
    | none =>
      simp only at hi; subst hi
      simp [itrSet, itSet]; exact h'
    | some it =>
      obtain ⟨ac, rfl, hpos, hrem, hdiff, hk'⟩ := hi
      obtain ⟨p, rem, df⟩ := ac
      simp only at hpos hrem hdiff hk'
      have hk2 : it.diff = 0 ∧ (it.removed = false → p < q.chain.length) := by cases k <;> simp_all
      subst hrem hdiff
      cases hr : it.removed with
      | true => simp [itrSet, itSet, hr]; simpa [hr] using h'
      | false =>
        by_cases hv : v = 0
        · simp [itrSet, itSet, hr, hv]; simpa [hr] using h'
        · have hp := hk2.2 hr
          have hnd : q.chain[p]? = some q.chain[p] := List.getElem?_eq_getElem hp
          simp only [itrSet, itSet, hr, hv, hpos, hnd]
          simp [R, vals_setAt, wf.set p hv, ItrR, linkPos_setAt, hpos, hr, length_setAt, hp, hk2.1]
          simp only [tailOK, lastId_setAt] at tl ⊢
          exact tl

theorem absEv_callDtor (d : Bool) (log : List Ev) (v : Val) :
    (callDtor d log v).map absEv = log.map absEv ++ drop d [v] := by
  cases d <;> simp [callDtor, drop, absEv]

/-- the tail update of `m_queue_itr_remove` (D-12a): after unlinking the node at the iterator's link
the tail pointer again names the last node -/
theorem tailOK_erase {k : Kind} {q : Cont} (wf : q.WF) (tl : tailOK k q) {p : Nat} {tmp : Node}
    (hnd : q.chain[p]? = some tmp) {l : Link} (hl : linkPos q.chain l = some p) :
    tailOK k { q with chain := eraseAt q.chain p, len := q.len - 1,
                      tail := if q.tail = some tmp.id then l.owner else q.tail } := by
  have hp := lt_of_getElem?_some hnd
  cases k with
  | queue =>
    simp only [tailOK] at tl ⊢
    by_cases ht : q.tail = some tmp.id
    · have := last_unique wf.nodup hnd (tl ▸ ht)
      simp only [ht, if_true]
      exact (lastId_eraseAt_last hl this).symm
    · have hne : p + 1 ≠ q.chain.length := fun e => ht (tl ▸ lastId_of_last hnd e)
      simp only [ht, if_false]
      rw [lastId_eraseAt_of_lt (by omega)]
      exact tl
  | stack => simp only [tailOK] at tl ⊢; simp [tl]
  | list => simp only [tailOK] at tl ⊢; simp [tl]

theorem itrRemove_R {k : Kind} (hk : k ≠ .list) {s : St} {a : ASt} (h : R k s a) :
    R k (itrRemove s).1 (itRm a).1 ∧ (itrRemove s).2 = (itRm a).2 := by
  obtain ⟨alive, dt, cmp, xs, cur, out⟩ := a
  obtain ⟨obj, itr, log, fault⟩ := s
  cases obj with
  | none =>
    have h' := h
    simp only [R] at h
    obtain ⟨rfl, rfl, rfl, rfl, rfl, rfl⟩ := h
    simp [itrRemove, itRm]; exact h'
  | some q =>
    have h' := h
    simp only [R] at h
    obtain ⟨rfl, rfl, rfl, rfl, rfl, rfl, wf, tl, hi⟩ := h
    cases itr with
    | none =>
      simp only at hi; subst hi
      simp [itrRemove, itRm]; exact h'
    | some it =>
      obtain ⟨ac, rfl, hpos, hrem, hdiff, hk'⟩ := hi
      obtain ⟨p, rem, df⟩ := ac
      simp only at hpos hrem hdiff hk'
      have hk2 : it.diff = 0 ∧ (it.removed = false → p < q.chain.length) := by cases k <;> simp_all
      subst hrem hdiff
      cases hr : it.removed with
      | true => simp [itrRemove, itRm, hr]; simpa [hr] using h'
      | false =>
        have hp := hk2.2 hr
        have hnd : q.chain[p]? = some q.chain[p] := List.getElem?_eq_getElem hp
        simp only [itrRemove, itRm, hr, hpos, hnd, vals_getElem?]
        simp [R, vals_eraseAt, absEv_callDtor, ItrR, linkPos_eraseAt hpos, hk2.1]
        exact ⟨wf.erase hp _, tailOK_erase wf tl hnd hpos⟩

/-! ## `len`, `peek`, `iterate` (do not change the container) -/

theorem R_len {k : Kind} {s : St} {a : ASt} (h : R k s a) : cLen s.obj = len a := by
  obtain ⟨alive, dt, cmp, xs, cur, out⟩ := a
  obtain ⟨obj, itr, log, fault⟩ := s
  cases obj with
  | none => simp only [R] at h; obtain ⟨rfl, rfl, rfl, rfl, rfl, rfl⟩ := h; simp [cLen, len]
  | some q =>
    simp only [R] at h
    obtain ⟨rfl, rfl, rfl, rfl, rfl, rfl, wf, tl, hi⟩ := h
    simp [cLen, len, wf.len, vals]

theorem R_cLen_pos {k : Kind} {s : St} {a : ASt} (h : R k s a) : cLen s.obj > 0 ↔ a.xs ≠ [] := by
  obtain ⟨alive, dt, cmp, xs, cur, out⟩ := a
  obtain ⟨obj, itr, log, fault⟩ := s
  cases obj with
  | none => simp only [R] at h; obtain ⟨rfl, rfl, rfl, rfl, rfl, rfl⟩ := h; simp [cLen, EINVAL]
  | some q =>
    simp only [R] at h
    obtain ⟨rfl, rfl, rfl, rfl, rfl, rfl, wf, tl, hi⟩ := h
    cases hc : q.chain <;> simp [cLen, wf.len, vals, hc]

theorem peek_R {k : Kind} {s : St} {a : ASt} (h : R k s a) :
    R k (Lm.Struct.peek s).1 (Lm.Spec.C12.peek a).1 ∧ (Lm.Struct.peek s).2 = (Lm.Spec.C12.peek a).2 := by
  have hl := R_cLen_pos h
  obtain ⟨alive, dt, cmp, xs, cur, out⟩ := a
  obtain ⟨obj, itr, log, fault⟩ := s
  cases obj with
  | none =>
    have h' := h
    simp only [R] at h; obtain ⟨rfl, rfl, rfl, rfl, rfl, rfl⟩ := h
    simp [Lm.Struct.peek, Lm.Spec.C12.peek, cLen, EINVAL]; exact h'
  | some q =>
    have h' := h
    simp only [R] at h
    obtain ⟨rfl, rfl, rfl, rfl, rfl, rfl, wf, tl, hi⟩ := h
    cases hc : q.chain with
    | nil =>
      have : q.len = 0 := by simp [wf.len, hc]
      simp [Lm.Struct.peek, Lm.Spec.C12.peek, cLen, this, vals, hc]; simpa [vals, hc] using h'
    | cons nd rest =>
      have : 0 < q.len := by simp [wf.len, hc]
      simp [Lm.Struct.peek, Lm.Spec.C12.peek, cLen, this, vals, hc]; simpa [vals, hc] using h'

theorem iterate_R {k : Kind} {s : St} {a : ASt} (stop : Option Nat) (h : R k s a) :
    R k (Lm.Struct.iterate s stop).1 (Lm.Spec.C12.iterate a stop).1 ∧
    (Lm.Struct.iterate s stop).2 = (Lm.Spec.C12.iterate a stop).2 := by
  by_cases hx : a.xs = []
  · have hn : ¬ cLen s.obj > 0 := by rw [R_cLen_pos h]; simp [hx]
    simp only [Lm.Struct.iterate, Lm.Spec.C12.iterate, hn, hx, if_false, if_true]
    exact ⟨h, trivial⟩
  · have hpos : cLen s.obj > 0 := (R_cLen_pos h).mpr hx
    simp only [Lm.Struct.iterate, Lm.Spec.C12.iterate, hpos, hx, if_false, if_true]
    obtain ⟨alive, dt, cmp, xs, cur, out⟩ := a
    obtain ⟨obj, itr, log, fault⟩ := s
    cases obj with
    | none => simp [cLen, EINVAL] at hpos
    | some q =>
      simp only [R] at h ⊢
      obtain ⟨rfl, rfl, rfl, rfl, rfl, rfl, wf, tl, hi⟩ := h
      refine ⟨⟨rfl, ?_, rfl, rfl, rfl, rfl, wf, tl, hi⟩, trivial⟩
      cases stop <;> simp [absEv]
