import Lm.Inv.CoreAbs
/-!
# Life-cycle invariants of the core machine and their preservation by the library programs

`Inv`  (at every callback boundary and every API return, for every callback program):
* `run`   — the context's running counter equals the number of its modules in RUNNING state;
* `out`   — a module that is no longer in its context's table is STOPPED (being deregistered) or a ZOMBIE;
* `names` — modules in the table have pairwise distinct names.
`Mono` (from the start of a program to each of its suspensions and to its end; hence across every
callback): modules are only appended; leaving the table and becoming a ZOMBIE are final; name,
context, flags and hooks never change.
-/
namespace Lm.Core

/-- the documented edges of the module life cycle (docs/concepts/mod.md), plus "no change"; IDLE → STOPPED exists only
as the first half of a deregistration (`stop()` runs — with the stop hook — before the module becomes a ZOMBIE) -/
def Trans.ok (t : Trans) : Bool :=
  t.src == t.dst ||
  match t.src, t.dst with
  | .idle, .running | .running, .paused | .paused, .running | .running, .stopped | .paused, .stopped
  | .stopped, .running => true
  | .zombie, _ => false         -- final
  | _, .zombie => true          -- deregistration, from any state
  | .idle, .stopped => t.out
  | _, _ => false

/-- the state the ghost log says module `m` is in: the target of its last recorded change, IDLE if it never changed -/
def lastState (l : List Trans) (m : ModId) : MState :=
  match (l.filter (fun t => t.m == m)).getLast? with
  | some t => t.dst
  | none => .idle

theorem lastState_append_same (l : List Trans) (t : Trans) : lastState (l ++ [t]) t.m = t.dst := by
  simp [lastState, List.filter_append]

theorem lastState_append_other (l : List Trans) (t : Trans) (k : ModId) (h : t.m ≠ k) : lastState (l ++ [t]) k = lastState l k := by
  have : (t.m == k) = false := by simp [h]
  simp [lastState, List.filter_append, this]

theorem lastState_fresh (l : List Trans) (k : ModId) (h : ∀ t ∈ l, t.m ≠ k) : lastState l k = .idle := by
  have : l.filter (fun t => t.m == k) = [] := by
    apply List.filter_eq_nil_iff.mpr
    intro t ht; simp [h t ht]
  simp [lastState, this]

def runCount (l : List Sig) (id : Nat) : Nat := l.countP (fun g => g.state == .running && g.ctxId == id)

structure Inv (s : St) : Prop where
  run : ∀ c, s.ctx = some c → c.running = runCount s.sigs c.id
  out : ∀ (m : Nat) (g : Sig), s.sigs[m]? = some g → g.inCtx = false → g.state = .stopped ∨ g.state = .zombie
  names : ∀ (m n : Nat) (g h : Sig), s.sigs[m]? = some g → s.sigs[n]? = some h → g.inCtx = true → h.inCtx = true →
    g.name = h.name → m = n
  fresh : (∀ (m : Nat) (g : Sig), s.sigs[m]? = some g → g.ctxId < s.nextCtx) ∧ (∀ c, s.ctx = some c → c.id < s.nextCtx)
  trans : ∀ t ∈ s.trans, t.ok = true
  log : ∀ (m : Nat) (g : Sig), s.sigs[m]? = some g → lastState s.trans m = g.state
  logm : ∀ t ∈ s.trans, t.m < s.sigs.length

def Mono (a s : St) : Prop :=
  ∀ (m : Nat) (g : Sig), a.sigs[m]? = some g → ∃ g' : Sig, s.sigs[m]? = some g' ∧ (g.inCtx = false → g'.inCtx = false) ∧
    (g.state = .zombie → g'.state = .zombie) ∧ g'.name = g.name ∧ g'.ctxId = g.ctxId ∧ g'.hooks = g.hooks ∧
    g'.flags = g.flags ∧ g'.slot = g.slot

theorem Mono.refl (s : St) : Mono s s := fun m g h => ⟨g, h, id, id, rfl, rfl, rfl, rfl, rfl⟩

theorem Mono.trans {a b c : St} (h1 : Mono a b) (h2 : Mono b c) : Mono a c := by
  intro m g hg
  obtain ⟨g1, e1, i1, z1, n1, c1, k1, f1, s1⟩ := h1 m g hg
  obtain ⟨g2, e2, i2, z2, n2, c2, k2, f2, s2⟩ := h2 m g1 e1
  exact ⟨g2, e2, fun h => i2 (i1 h), fun h => z2 (z1 h), by rw [n2, n1], by rw [c2, c1], by rw [k2, k1], by rw [f2, f1],
    by rw [s2, s1]⟩

theorem Inv.congr {s s' : St} (h1 : s'.sigs = s.sigs) (h2 : s'.ctx = s.ctx) (h3 : s'.nextCtx = s.nextCtx) (h : Inv s)
    (h4 : s'.trans = s.trans := by rfl) : Inv s' :=
  ⟨fun c hc => by rw [h1]; exact h.run c (by rw [← h2]; exact hc), by rw [h1]; exact h.out, by rw [h1]; exact h.names,
   by rw [h1, h2, h3]; exact h.fresh, by rw [h4]; exact h.trans, by rw [h1, h4]; exact h.log, by rw [h1, h4]; exact h.logm⟩

theorem Mono.congr_right {a s s' : St} (h1 : s'.sigs = s.sigs) (h : Mono a s) : Mono a s' := by
  unfold Mono; rw [h1]; exact h

theorem Mono.congr_left {a a' s : St} (h1 : a'.sigs = a.sigs) (h : Mono a s) : Mono a' s := by
  unfold Mono; rw [h1]; exact h

theorem frameable : Frameable Inv Mono where
  refl := Mono.refl
  trans := fun _ _ _ => Mono.trans
  emitI := fun s o h => Inv.congr (s := s) (s' := s.emit o) rfl rfl rfl h
  emitM := fun a s o h => Mono.congr_right (s := s) (s' := s.emit o) rfl h
  emitM' := fun s o b h => Mono.congr_left (a := s.emit o) (a' := s) rfl h
  errnoI := fun s e h => Inv.congr (s := s) (s' := { s with errno := e }) rfl rfl rfl h
  errnoM := fun a s e h => Mono.congr_right (s := s) (s' := { s with errno := e }) rfl h

theorem inv_init : Inv {} := by
  refine ⟨fun c h => by simp at h, fun m g h => by simp [St.sigs] at h, fun m n g h hg => by simp [St.sigs] at hg,
    ⟨fun m g h => by simp [St.sigs] at h, fun c h => by simp at h⟩, fun t h => by simp at h, fun m g h => by simp [St.sigs] at h,
    fun t h => by simp at h⟩

/-! ## Effect of the non-quiet primitives on the view -/

def Sig.setState (g : Sig) (x : MState) : Sig := { g with state := x }

theorem setState_sigs (s : St) (m : ModId) (x : MState) :
    (setState s m x).sigs = match s.sigs[m]? with | some g => s.sigs.set m (g.setState x) | none => s.sigs := by
  unfold setState
  rw [sigs_getElem?]
  cases h : s.mods[m]? with
  | none => simp
  | some md => simp [St.sigs, List.map_set, Mod.sig, Sig.setState]

@[simp] theorem setState_ctx (s : St) (m x) : (setState s m x).ctx = s.ctx := by
  unfold setState; split <;> rfl
@[simp] theorem setState_deadCtx (s : St) (m x) : (setState s m x).deadCtx = s.deadCtx := by
  unfold setState; split <;> rfl

@[simp] theorem setState_nextCtx (s : St) (m x) : (setState s m x).nextCtx = s.nextCtx := by
  unfold setState; split <;> rfl
@[simp] theorem updCtxId_nextCtx (s : St) (id f) : (s.updCtxId id f).nextCtx = s.nextCtx := by
  unfold St.updCtxId; split
  · split <;> rfl
  · rfl
@[simp] theorem updCtxId_sigs (s : St) (id f) : (s.updCtxId id f).sigs = s.sigs := by
  unfold St.updCtxId; split
  · split <;> rfl
  · rfl

theorem updCtxId_ctx (s : St) (id f) :
    (s.updCtxId id f).ctx = match s.ctx with | some c => if c.id == id then some (f c) else some c | none => none := by
  unfold St.updCtxId; split
  · split <;> simp_all
  · simp_all

@[simp] theorem setCurrOf_sigs (s : St) (m x) : (setCurrOf m x s).sigs = s.sigs := by
  unfold setCurrOf; simp

@[simp] theorem updCtxId_trans (s : St) (id f) : (s.updCtxId id f).trans = s.trans := by
  unfold St.updCtxId; split
  · split <;> rfl
  · rfl

@[simp] theorem setCurrOf_trans (s : St) (m x) : (setCurrOf m x s).trans = s.trans := by
  unfold setCurrOf; simp

theorem setState_trans (s : St) (m : ModId) (x : MState) (md : Mod) (h : s.mods[m]? = some md) :
    (setState s m x).trans = s.trans ++ [{ m := m, src := md.state, dst := x, out := !md.inCtx }] := by
  unfold setState; simp [h]

theorem mod_of_sig (s : St) (m : ModId) (g : Sig) (h : s.sigs[m]? = some g) : ∃ md : Mod, s.mods[m]? = some md ∧ md.sig = g := by
  rw [sigs_getElem?] at h
  cases hm : s.mods[m]? with
  | none => simp [hm] at h
  | some md => simp [hm] at h; exact ⟨md, rfl, h⟩

/-- changing only `curr_mod` of some context object keeps the invariant -/
theorem Inv.setCurrOf {s : St} (m x) (h : Inv s) : Inv (setCurrOf m x s) := by
  have hfresh : (∀ (k : Nat) (g : Sig), (Lm.Core.setCurrOf m x s).sigs[k]? = some g → g.ctxId < (Lm.Core.setCurrOf m x s).nextCtx) ∧
      (∀ c : Ctx, (Lm.Core.setCurrOf m x s).ctx = some c → c.id < (Lm.Core.setCurrOf m x s).nextCtx) := by
    have hn : (Lm.Core.setCurrOf m x s).nextCtx = s.nextCtx := by unfold Lm.Core.setCurrOf; simp
    rw [hn, setCurrOf_sigs]
    refine ⟨h.fresh.1, fun c hc => ?_⟩
    unfold Lm.Core.setCurrOf at hc
    rw [updCtxId_ctx] at hc
    cases hcx : s.ctx with
    | none => simp [hcx] at hc
    | some c0 =>
      rw [hcx] at hc
      by_cases hid : (c0.id == s.ctxIdOf m) = true
      · simp only [hid, if_true, Option.some.injEq] at hc
        subst hc; exact h.fresh.2 c0 hcx
      · simp only [hid, Bool.false_eq_true, if_false, Option.some.injEq] at hc
        subst hc; exact h.fresh.2 c0 hcx
  refine ⟨fun c hc => ?_, by simpa using h.out, by simpa using h.names, hfresh, by rw [setCurrOf_trans]; exact h.trans,
    by rw [setCurrOf_trans, setCurrOf_sigs]; exact h.log, by rw [setCurrOf_trans, setCurrOf_sigs]; exact h.logm⟩
  simp only [setCurrOf_sigs]
  unfold Lm.Core.setCurrOf at hc
  rw [updCtxId_ctx] at hc
  cases hcx : s.ctx with
  | none => simp [hcx] at hc
  | some c0 =>
    rw [hcx] at hc
    by_cases hid : (c0.id == s.ctxIdOf m) = true
    · simp only [hid, if_true, Option.some.injEq] at hc
      subst hc
      exact h.run c0 hcx
    · simp only [hid, Bool.false_eq_true, if_false, Option.some.injEq] at hc
      subst hc
      exact h.run c0 hcx

theorem runCount_set (l : List Sig) (m : Nat) (g g' : Sig) (id : Nat) (h : l[m]? = some g) :
    runCount (l.set m g') id + (if (g.state == .running && g.ctxId == id) then 1 else 0)
      = runCount l id + (if (g'.state == .running && g'.ctxId == id) then 1 else 0) := by
  have hlt : m < l.length := (List.getElem?_eq_some_iff.mp h).1
  have hget : l[m] = g := (List.getElem?_eq_some_iff.mp h).2
  unfold runCount
  rw [List.countP_set hlt, hget]
  have : (if (g.state == .running && g.ctxId == id) = true then 1 else 0) ≤ l.countP (fun g => g.state == .running && g.ctxId == id) := by
    have := List.boole_getElem_le_countP (p := fun g => g.state == .running && g.ctxId == id) (l := l) hlt
    rw [hget] at this; exact this
  omega


theorem ctxIdOf_eq (s : St) (m : ModId) (g : Sig) (h : s.sigs[m]? = some g) : s.ctxIdOf m = g.ctxId := by
  rw [sigs_getElem?] at h
  unfold St.ctxIdOf
  cases hm : s.mods[m]? with
  | none => simp [hm] at h
  | some md => simp [hm] at h; subst h; rfl

theorem stateIs_sig (s : St) (m : ModId) (g : Sig) (h : s.sigs[m]? = some g) (x : MState) :
    stateIs s m x = (g.state == x) := by
  rw [sigs_getElem?] at h
  unfold stateIs
  cases hm : s.mods[m]? with
  | none => simp [hm] at h
  | some md => simp [hm] at h; subst h; rfl

theorem getElem?_set_sig (l : List Sig) (m k : Nat) (g' : Sig) (h : m < l.length) :
    (l.set m g')[k]? = if m = k then some g' else l[k]? := by
  rw [List.getElem?_set]; simp [h]

/-- generic: one module's signature is replaced (same name, not re-entering the table) -/
theorem inv_set (s s' : St) (m : ModId) (g g' : Sig) (hI : Inv s) (hg : s.sigs[m]? = some g)
    (hs : s'.sigs = s.sigs.set m g') (hname : g'.name = g.name) (hin : g'.inCtx = true → g.inCtx = true)
    (hout : g'.inCtx = false → g'.state = .stopped ∨ g'.state = .zombie)
    (hrun : ∀ c, s'.ctx = some c → c.running = runCount (s.sigs.set m g') c.id)
    (hcid : g'.ctxId = g.ctxId) (hnext : s'.nextCtx = s.nextCtx) (hctxid : ∀ c, s'.ctx = some c → ∃ c0, s.ctx = some c0 ∧ c0.id = c.id)
    (htr : ∀ t ∈ s'.trans, t.ok = true) (hlogt : ∃ t : Trans, s'.trans = s.trans ++ [t] ∧ t.m = m ∧ t.dst = g'.state) :
    Inv s' := by
  have hlt : m < s.sigs.length := (List.getElem?_eq_some_iff.mp hg).1
  obtain ⟨t0, ht0, htm, htd⟩ := hlogt
  have hlog : ∀ (k : Nat) (g1 : Sig), s'.sigs[k]? = some g1 → lastState s'.trans k = g1.state := by
    intro k g1 hk
    rw [hs, getElem?_set_sig _ _ _ _ hlt] at hk
    rw [ht0]
    by_cases hmk : m = k
    · simp [hmk] at hk; subst hk
      rw [← hmk, ← htm, lastState_append_same, htd]
    · simp [hmk] at hk
      rw [lastState_append_other _ _ _ (by rw [htm]; exact hmk)]
      exact hI.log k g1 hk
  have hlogm : ∀ t ∈ s'.trans, t.m < s'.sigs.length := by
    intro t ht
    rw [hs, List.length_set]
    rw [ht0] at ht
    rcases List.mem_append.mp ht with h1 | h1
    · exact hI.logm t h1
    · simp at h1; subst h1; rw [htm]; exact hlt
  refine ⟨fun c hc => by rw [hs]; exact hrun c hc, ?_, ?_, ?_, htr, hlog, hlogm⟩
  rotate_left 2
  · rw [hs, hnext]
    refine ⟨fun k g1 hk => ?_, fun c hc => ?_⟩
    · rw [getElem?_set_sig _ _ _ _ hlt] at hk
      by_cases hmk : m = k
      · simp [hmk] at hk; subst hk; rw [hcid]; exact hI.fresh.1 m g hg
      · simp [hmk] at hk; exact hI.fresh.1 k g1 hk
    · obtain ⟨c0, h0, hid⟩ := hctxid c hc
      rw [← hid]; exact hI.fresh.2 c0 h0
  · rw [hs]
    intro k g1 hk hi
    rw [getElem?_set_sig _ _ _ _ hlt] at hk
    by_cases hmk : m = k
    · simp [hmk] at hk; subst hk; exact hout hi
    · simp [hmk] at hk; exact hI.out k g1 hk hi
  · rw [hs]
    intro k n g1 g2 hk hn h1 h2 hnm
    rw [getElem?_set_sig _ _ _ _ hlt] at hk hn
    by_cases hmk : m = k <;> by_cases hmn : m = n
    · rw [← hmk, ← hmn]
    · simp [hmk] at hk; simp [hmn] at hn; subst hk
      rw [← hmk]; exact hI.names m n g g2 hg hn (hin h1) h2 (by rw [← hname]; exact hnm)
    · simp [hmk] at hk; simp [hmn] at hn; subst hn
      rw [← hmn]; exact hI.names k m g1 g hk hg h1 (hin h2) (by rw [hnm, hname])
    · simp [hmk] at hk; simp [hmn] at hn
      exact hI.names k n g1 g2 hk hn h1 h2 hnm

theorem updCtxId_ctx_id (s : St) (id : Nat) (f : Ctx → Ctx) (c : Ctx)
    (hc : (s.updCtxId id f).ctx = some c) (hf : ∀ c0, (f c0).id = c0.id) : ∃ c0, s.ctx = some c0 ∧ c0.id = c.id := by
  rw [updCtxId_ctx] at hc
  cases hcx : s.ctx with
  | none => simp [hcx] at hc
  | some c0 =>
    rw [hcx] at hc
    by_cases hid : (c0.id == id) = true
    · simp only [hid, if_true, Option.some.injEq] at hc
      subst hc; exact ⟨c0, rfl, (hf c0).symm⟩
    · simp only [hid, Bool.false_eq_true, if_false, Option.some.injEq] at hc
      subst hc; exact ⟨c0, rfl, rfl⟩

theorem updMod_leave_sigs (s : St) (m : ModId) :
    (s.updMod m fun x => { x with inCtx := false }).sigs =
      match s.sigs[m]? with | some g => s.sigs.set m { g with inCtx := false } | none => s.sigs := by
  unfold St.updMod
  rw [sigs_getElem?]
  cases h : s.mods[m]? with
  | none => simp
  | some md => simp [St.sigs, List.map_set, Mod.sig]

/-- the signature `stop()` leaves behind -/
def Sig.stopped (g : Sig) (x : MState) (leave : Bool) : Sig :=
  { g with state := x, inCtx := if leave then false else g.inCtx }

theorem stopStep_sigs (s : St) (m : ModId) (g : Sig) (x : MState) (leave : Bool) (hg : s.sigs[m]? = some g) :
    (stopStep s m x leave).sigs = s.sigs.set m (g.stopped x leave) := by
  have hlt : m < s.sigs.length := (List.getElem?_eq_some_iff.mp hg).1
  have hget : s.sigs[m] = g := (List.getElem?_eq_some_iff.mp hg).2
  unfold stopStep
  rw [setState_sigs]
  cases leave with
  | false =>
    by_cases hr : stateIs s m .running = true <;> simp [hr, hg, Sig.stopped, Sig.setState]
  | true =>
    simp only [if_true]
    rw [updMod_leave_sigs]
    by_cases hr : stateIs s m .running = true <;>
      simp [hr, hg, Sig.stopped, Sig.setState, List.getElem?_set, hlt, List.set_set, hget]

theorem stopStep_ctx (s : St) (m : ModId) (x : MState) (leave : Bool) :
    (stopStep s m x leave).ctx =
      (if stateIs s m .running then s.updCtxId (s.ctxIdOf m) (fun c => { c with running := c.running - 1 }) else s).ctx := by
  unfold stopStep
  cases leave <;> simp

theorem stopStep_nextCtx (s : St) (m : ModId) (x : MState) (leave : Bool) : (stopStep s m x leave).nextCtx = s.nextCtx := by
  unfold stopStep
  cases leave <;> by_cases hr : stateIs s m .running = true <;> simp [hr]

theorem trans_ok_append {l : List Trans} {t : Trans} (h : ∀ x ∈ l, x.ok = true) (ht : t.ok = true) : ∀ x ∈ l ++ [t], x.ok = true := by
  intro x hx
  rcases List.mem_append.mp hx with h1 | h1
  · exact h x h1
  · simp at h1; subst h1; exact ht

@[simp] theorem updCtxId_mods (s : St) (id f) : (s.updCtxId id f).mods = s.mods := by
  unfold St.updCtxId; split
  · split <;> rfl
  · rfl

theorem stopStep_trans (s : St) (m : ModId) (x : MState) (leave : Bool) (md : Mod) (h : s.mods[m]? = some md) :
    (stopStep s m x leave).trans = s.trans ++ [{ m := m, src := md.state, dst := x, out := leave || !md.inCtx }] := by
  have hlt : m < s.mods.length := (List.getElem?_eq_some_iff.mp h).1
  have hget : s.mods[m] = md := (List.getElem?_eq_some_iff.mp h).2
  unfold stopStep
  cases leave with
  | false =>
    by_cases hr : stateIs s m .running = true
    · simp only [hr, if_true, Bool.false_eq_true, if_false]
      rw [setState_trans _ m x md (by simpa using h)]; simp
    · simp only [hr, Bool.false_eq_true, if_false]
      rw [setState_trans _ m x md h]; simp
  | true =>
    simp only [if_true]
    by_cases hr : stateIs s m .running = true
    · simp only [hr, if_true]
      rw [setState_trans _ m x { md with inCtx := false } (by simp [St.updMod, h, hlt, hget])]
      simp [St.updMod, h]
    · simp only [hr, Bool.false_eq_true, if_false]
      rw [setState_trans _ m x { md with inCtx := false } (by simp [St.updMod, h, hlt, hget])]
      simp [St.updMod, h]

/-- the module leaves RUNNING/… for STOPPED or PAUSED (and possibly the table), its context's counter follows -/
theorem inv_stop (s : St) (m : ModId) (g : Sig) (x : MState) (leave : Bool) (hI : Inv s) (hg : s.sigs[m]? = some g)
    (hx : x = .stopped ∨ (x = .paused ∧ g.inCtx = true ∧ leave = false))
    (hedge : g.state ≠ .zombie ∧ (x = .paused → g.state = .running) ∧
      (x = .stopped → leave = true ∨ g.state = .running ∨ g.state = .paused ∨ g.state = .stopped)) :
    Inv (stopStep s m x leave) := by
  have hxr : x ≠ .running := by rcases hx with h | ⟨h, _⟩ <;> (rw [h]; decide)
  have htr : ∀ t ∈ (stopStep s m x leave).trans, t.ok = true := by
    obtain ⟨md, hmd, hsg⟩ := mod_of_sig s m g hg
    rw [stopStep_trans s m x leave md hmd]
    refine trans_ok_append hI.trans ?_
    have hst : md.state = g.state := by rw [← hsg]; rfl
    obtain ⟨hz, hp, hs⟩ := hedge
    rcases hx with hx | ⟨hx, _, _⟩
    · subst hx
      rcases hs rfl with h | h | h | h
      · subst h
        cases hmst : md.state <;> simp [Trans.ok, hmst] <;> (rw [hst] at hmst; exact absurd hmst hz)
      · simp [Trans.ok, hst, h]
      · simp [Trans.ok, hst, h]
      · simp [Trans.ok, hst, h]
    · subst hx
      simp [Trans.ok, hst, hp rfl]
  refine inv_set s _ m g (g.stopped x leave) hI hg (stopStep_sigs s m g x leave hg) rfl ?_ ?_ ?_ rfl
    (stopStep_nextCtx s m x leave) ?_ htr (by
      obtain ⟨md, hmd, _⟩ := mod_of_sig s m g hg
      exact ⟨_, stopStep_trans s m x leave md hmd, rfl, by cases leave <;> simp [Sig.stopped, Sig.setState]⟩)
  rotate_left 3
  · intro c hc
    rw [stopStep_ctx] at hc
    by_cases hr : stateIs s m .running = true
    · simp only [hr, if_true] at hc
      exact updCtxId_ctx_id s _ _ c hc (fun _ => rfl)
    · simp only [hr] at hc
      exact ⟨c, hc, rfl⟩
  · intro h; cases leave <;> simp [Sig.stopped] at h ⊢; exact h
  · intro h
    rcases hx with hx | ⟨_, hin, hl⟩
    · left; simp [Sig.stopped, hx]
    · subst hl; simp [Sig.stopped, hin] at h
  · intro c hc
    rw [stopStep_ctx, stateIs_sig s m g hg, ctxIdOf_eq s m g hg] at hc
    have key := runCount_set s.sigs m g (g.stopped x leave)
    have e2 : ∀ id, ((g.stopped x leave).state == .running && (g.stopped x leave).ctxId == id) = false := by
      intro id; simp [Sig.stopped]; intro h; exact absurd h hxr
    by_cases hr : (g.state == .running) = true
    · simp only [hr, if_true] at hc
      rw [updCtxId_ctx] at hc
      cases hcx : s.ctx with
      | none => simp [hcx] at hc
      | some c0 =>
        rw [hcx] at hc
        have h0 := hI.run c0 hcx
        by_cases hid : (c0.id == g.ctxId) = true
        · simp only [hid, if_true, Option.some.injEq] at hc
          subst hc
          have := key c0.id hg
          have e1 : (g.state == .running && g.ctxId == c0.id) = true := by
            simp at hid hr ⊢; exact ⟨hr, hid.symm⟩
          rw [e1, e2] at this
          simp at this ⊢
          omega
        · simp only [hid, Bool.false_eq_true, if_false, Option.some.injEq] at hc
          subst hc
          have := key c0.id hg
          have e1 : (g.state == .running && g.ctxId == c0.id) = false := by
            simp at hid ⊢; intro _ h; exact hid h.symm
          rw [e1, e2] at this
          simp at this
          rw [h0]; exact this.symm
    · simp only [hr, Bool.false_eq_true, if_false] at hc
      have h0 := hI.run c hc
      have := key c.id hg
      have e1 : (g.state == .running && g.ctxId == c.id) = false := by
        simp at hr ⊢; intro h; exact absurd h hr
      rw [e1, e2] at this
      simp at this
      rw [h0]; exact this.symm

/-- entering RUNNING from a non-RUNNING state, the context's counter follows -/
theorem inv_start (s : St) (m : ModId) (g : Sig) (hI : Inv s) (hg : s.sigs[m]? = some g)
    (hnr : g.state ≠ .running) (hin : g.inCtx = true) (hz : g.state ≠ .zombie) :
    Inv (setState (s.updCtxId (s.ctxIdOf m) (fun c => { c with running := c.running + 1 })) m .running) := by
  rw [ctxIdOf_eq s m g hg]
  have htr : ∀ t ∈ (setState (s.updCtxId g.ctxId fun c => { c with running := c.running + 1 }) m .running).trans, t.ok = true := by
    obtain ⟨md, hmd, hsg⟩ := mod_of_sig s m g hg
    rw [setState_trans _ m .running md (by simpa using hmd)]
    simp only [updCtxId_trans]
    refine trans_ok_append hI.trans ?_
    have hst : md.state = g.state := by rw [← hsg]; rfl
    cases hmst : md.state <;> simp [Trans.ok, hmst] <;> (rw [hst] at hmst; first | exact absurd hmst hz | exact absurd hmst hnr)
  have hsig : (setState (s.updCtxId g.ctxId fun c => { c with running := c.running + 1 }) m .running).sigs
      = s.sigs.set m (g.setState .running) := by
    rw [setState_sigs]; simp [hg]
  refine inv_set s _ m g (g.setState .running) hI hg hsig rfl (fun _ => hin) (fun h => by simp [Sig.setState, hin] at h) ?_ rfl
    (by simp) (fun c hc => by
      simp only [setState_ctx] at hc
      exact updCtxId_ctx_id s _ _ c hc (fun _ => rfl)) htr (by
      obtain ⟨md, hmd, _⟩ := mod_of_sig s m g hg
      exact ⟨{ m := m, src := md.state, dst := .running, out := !md.inCtx },
        by rw [setState_trans _ m .running md (by simpa using hmd)]; simp, rfl, by simp [Sig.setState]⟩)
  intro c hc
  simp only [setState_ctx] at hc
  rw [updCtxId_ctx] at hc
  cases hcx : s.ctx with
  | none => simp [hcx] at hc
  | some c0 =>
    rw [hcx] at hc
    have h0 := hI.run c0 hcx
    have key := runCount_set s.sigs m g (g.setState .running)
    have e1 : ∀ id, (g.state == .running && g.ctxId == id) = false := by
      intro id; simp; intro h; exact absurd h hnr
    by_cases hid : (c0.id == g.ctxId) = true
    · simp only [hid, if_true, Option.some.injEq] at hc
      subst hc
      have := key c0.id hg
      have e2 : ((g.setState .running).state == .running && (g.setState .running).ctxId == c0.id) = true := by
        simp [Sig.setState]; simp at hid; exact hid.symm
      rw [e1, e2] at this
      simp at this ⊢
      omega
    · simp only [hid, Bool.false_eq_true, if_false, Option.some.injEq] at hc
      subst hc
      have := key c0.id hg
      have e2 : ((g.setState .running).state == .running && (g.setState .running).ctxId == c0.id) = false := by
        simp [Sig.setState]; simp at hid; intro h; exact hid h.symm
      rw [e1, e2] at this
      simp at this
      rw [h0]; exact this.symm

/-- a module that is not RUNNING becomes a ZOMBIE -/
theorem inv_zombie (s : St) (m : ModId) (g : Sig) (hI : Inv s) (hg : s.sigs[m]? = some g) (hnr : g.state ≠ .running) :
    Inv (setState s m .zombie) := by
  have hsig : (setState s m .zombie).sigs = s.sigs.set m (g.setState .zombie) := by
    rw [setState_sigs]; simp [hg]
  have htr : ∀ t ∈ (setState s m .zombie).trans, t.ok = true := by
    obtain ⟨md, hmd, _⟩ := mod_of_sig s m g hg
    rw [setState_trans _ m .zombie md hmd]
    refine trans_ok_append hI.trans ?_
    cases hmst : md.state <;> simp [Trans.ok, hmst]
  refine inv_set s _ m g (g.setState .zombie) hI hg hsig rfl (fun h => h) (fun _ => Or.inr rfl) ?_ rfl
    (by simp) (fun c hc => ⟨c, by simpa using hc, rfl⟩) htr (by
      obtain ⟨md, hmd, _⟩ := mod_of_sig s m g hg
      exact ⟨_, setState_trans s m .zombie md hmd, rfl, by simp [Sig.setState]⟩)
  intro c hc
  simp only [setState_ctx] at hc
  have h0 := hI.run c hc
  have := runCount_set s.sigs m g (g.setState .zombie) c.id hg
  have e1 : (g.state == .running && g.ctxId == c.id) = false := by simp; intro h; exact absurd h hnr
  have e2 : ((g.setState .zombie).state == .running && (g.setState .zombie).ctxId == c.id) = false := by simp [Sig.setState]
  rw [e1, e2] at this
  simp at this
  rw [h0]; exact this.symm

theorem Mono_set (a s s' : St) (m : ModId) (g g' : Sig) (hM : Mono a s) (hg : s.sigs[m]? = some g)
    (hs : s'.sigs = s.sigs.set m g') (h1 : g.inCtx = false → g'.inCtx = false) (h2 : g.state = .zombie → g'.state = .zombie)
    (h3 : g'.name = g.name) (h4 : g'.ctxId = g.ctxId) (h5 : g'.hooks = g.hooks) (h6 : g'.flags = g.flags)
    (h7 : g'.slot = g.slot) : Mono a s' := by
  have hlt : m < s.sigs.length := (List.getElem?_eq_some_iff.mp hg).1
  intro k g0 hk
  obtain ⟨g1, e1, i1, z1, n1, c1, k1, f1, s1⟩ := hM k g0 hk
  rw [hs, getElem?_set_sig _ _ _ _ hlt]
  by_cases hmk : m = k
  · subst hmk
    rw [hg] at e1; cases e1
    exact ⟨g', by simp, fun h => h1 (i1 h), fun h => h2 (z1 h), by rw [h3, n1], by rw [h4, c1], by rw [h5, k1],
      by rw [h6, f1], by rw [h7, s1]⟩
  · exact ⟨g1, by simp [hmk, e1], i1, z1, n1, c1, k1, f1, s1⟩


@[simp] theorem updCtx_sigs (s : St) (f) : (s.updCtx f).sigs = s.sigs := by
  unfold St.updCtx; split <;> rfl
@[simp] theorem updCtx_nextCtx (s : St) (f) : (s.updCtx f).nextCtx = s.nextCtx := by
  unfold St.updCtx; split <;> rfl

@[simp] theorem updCtx_trans (s : St) (f) : (s.updCtx f).trans = s.trans := by
  unfold St.updCtx; split <;> rfl

theorem updCtx_ctx (s : St) (f) : (s.updCtx f).ctx = s.ctx.map f := by
  unfold St.updCtx; cases h : s.ctx <;> simp [h]

/-- a context update that touches neither the identity nor the running counter -/
theorem inv_updCtx (s : St) (f : Ctx → Ctx) (hid : ∀ c, (f c).id = c.id) (hrun : ∀ c, (f c).running = c.running)
    (hI : Inv s) : Inv (s.updCtx f) := by
  refine ⟨fun c hc => ?_, by simpa using hI.out, by simpa using hI.names, ?_, by rw [updCtx_trans]; exact hI.trans,
    by rw [updCtx_trans, updCtx_sigs]; exact hI.log, by rw [updCtx_trans, updCtx_sigs]; exact hI.logm⟩
  · rw [updCtx_ctx] at hc
    cases hcx : s.ctx with
    | none => simp [hcx] at hc
    | some c0 =>
      simp [hcx] at hc; subst hc
      simp only [updCtx_sigs, hid, hrun]
      exact hI.run c0 hcx
  · simp only [updCtx_sigs, updCtx_nextCtx]
    refine ⟨hI.fresh.1, fun c hc => ?_⟩
    rw [updCtx_ctx] at hc
    cases hcx : s.ctx with
    | none => simp [hcx] at hc
    | some c0 => simp [hcx] at hc; subst hc; rw [hid]; exact hI.fresh.2 c0 hcx

/-- releasing the context -/
theorem inv_ctx_none (s : St) (d : List Ctx) (hI : Inv s) : Inv { s with ctx := none, deadCtx := d } :=
  ⟨fun c hc => by simp at hc, hI.out, hI.names, ⟨hI.fresh.1, fun c hc => by simp at hc⟩, hI.trans, hI.log, hI.logm⟩

theorem runCount_fresh (l : List Sig) (id : Nat) (h : ∀ (m : Nat) (g : Sig), l[m]? = some g → g.ctxId < id) : runCount l id = 0 := by
  unfold runCount
  apply List.countP_eq_zero.mpr
  intro g hg
  obtain ⟨k, hk, hkg⟩ := List.getElem_of_mem hg
  have := h k g (by simp [List.getElem?_eq_getElem hk, hkg])
  simp
  intro _ he
  omega

/-- a fresh context -/
theorem inv_ctx_new (s : St) (c : Ctx) (hI : Inv s) (hid : c.id = s.nextCtx) (hr : c.running = 0) :
    Inv { s with ctx := some c, nextCtx := s.nextCtx + 1 } := by
  refine ⟨fun c' hc => ?_, hI.out, hI.names, ⟨fun m g hg => Nat.lt_succ_of_lt (hI.fresh.1 m g hg), fun c' hc => ?_⟩, hI.trans, hI.log, hI.logm⟩
  · simp at hc; subst hc
    show c.running = runCount s.sigs c.id
    rw [hr, hid, runCount_fresh s.sigs s.nextCtx hI.fresh.1]
  · simp at hc; subst hc
    show c.id < s.nextCtx + 1
    omega

theorem sigs_append (s : St) (md : Mod) : ({ s with mods := s.mods ++ [md] } : St).sigs = s.sigs ++ [md.sig] := by
  simp [St.sigs]

/-- a new IDLE module whose name is free -/
theorem inv_append (s : St) (md : Mod) (c : Ctx) (hI : Inv s) (hc : s.ctx = some c) (hst : md.state = .idle) (hin : md.inCtx = true)
    (hcid : md.ctxId = c.id) (hfree : ∀ (k : Nat) (g : Sig), s.sigs[k]? = some g → g.inCtx = true → g.name ≠ md.name) :
    Inv { s with mods := s.mods ++ [md] } := by
  have hs := sigs_append s md
  have hget : ∀ k, (s.sigs ++ [md.sig])[k]? = if k < s.sigs.length then s.sigs[k]? else if k = s.sigs.length then some md.sig else none := by
    intro k
    by_cases h1 : k < s.sigs.length
    · simp [h1, List.getElem?_append_left h1]
    · by_cases h2 : k = s.sigs.length
      · subst h2; simp
      · simp only [h1, h2, if_false]
        apply List.getElem?_eq_none
        simp; omega
  refine ⟨fun c' hc' => ?_, ?_, ?_, ?_, hI.trans, ?_, ?_⟩
  · rw [hs]
    have : c' = c := by
      have : s.ctx = some c' := hc'
      rw [hc] at this; exact (Option.some.inj this).symm
    subst this
    unfold runCount
    rw [List.countP_append]
    have := hI.run c' hc
    unfold runCount at this
    simp [Mod.sig, hst, this]
  · rw [hs]
    intro k g hk hi
    rw [hget] at hk
    by_cases h1 : k < s.sigs.length
    · simp only [h1, if_true] at hk; exact hI.out k g hk hi
    · by_cases h2 : k = s.sigs.length
      · simp [h2] at hk; subst hk; simp [Mod.sig, hin] at hi
      · simp [h1, h2] at hk
  · rw [hs]
    intro k n g1 g2 hk hn h1 h2 hname
    rw [hget] at hk hn
    by_cases a1 : k < s.sigs.length <;> by_cases b1 : n < s.sigs.length
    · simp only [a1, if_true] at hk; simp only [b1, if_true] at hn; exact hI.names k n g1 g2 hk hn h1 h2 hname
    · by_cases b2 : n = s.sigs.length
      · simp only [a1, if_true] at hk; simp [b2] at hn; subst hn
        exact absurd hname (hfree k g1 hk h1)
      · simp [b1, b2] at hn
    · by_cases a2 : k = s.sigs.length
      · simp [a2] at hk; simp only [b1, if_true] at hn; subst hk
        exact absurd hname.symm (hfree n g2 hn h2)
      · simp [a1, a2] at hk
    · by_cases a2 : k = s.sigs.length <;> by_cases b2 : n = s.sigs.length
      · omega
      · simp [b1, b2] at hn
      · simp [a1, a2] at hk
      · simp [a1, a2] at hk
  · rw [hs]
    refine ⟨fun k g hk => ?_, fun c' hc' => hI.fresh.2 c' hc'⟩
    rw [hget] at hk
    by_cases h1 : k < s.sigs.length
    · simp only [h1, if_true] at hk; exact hI.fresh.1 k g hk
    · by_cases h2 : k = s.sigs.length
      · simp [h2] at hk; subst hk; simp [Mod.sig, hcid]; exact hI.fresh.2 c hc
      · simp [h1, h2] at hk
  · rw [hs]
    intro k g hk
    rw [hget] at hk
    show lastState s.trans k = g.state
    by_cases h1 : k < s.sigs.length
    · simp only [h1, if_true] at hk; exact hI.log k g hk
    · by_cases h2 : k = s.sigs.length
      · simp [h2] at hk; subst hk
        rw [lastState_fresh s.trans k (fun t ht => Nat.ne_of_lt (by rw [h2]; exact hI.logm t ht))]
        simp [Mod.sig, hst]
      · simp [h1, h2] at hk
  · rw [hs]
    intro t ht
    have h := hI.logm t ht
    rw [List.length_append]
    exact Nat.lt_of_lt_of_le h (Nat.le_add_right _ _)

theorem Mono_append (a s : St) (md : Mod) (h : Mono a s) : Mono a { s with mods := s.mods ++ [md] } := by
  intro k g hk
  obtain ⟨g', e, r⟩ := h k g hk
  refine ⟨g', ?_, r⟩
  rw [sigs_append]
  have hlt : k < s.sigs.length := (List.getElem?_eq_some_iff.mp e).1
  rw [List.getElem?_append_left hlt]; exact e

end Lm.Core
