import Lm.Inv.C12WF
/-!
# Iterators visit every element exactly once, in container order

The element an iterator is on after `itr_new` / `itr_next` is logged as `Ev.cur (some node)`.
`visited log` is the sequence of the *identities* of these nodes, so "exactly once" is about nodes,
not about (possibly repeated) values.
-/
namespace Lm.Struct
open Lm.Spec.C12

def visited (log : List Ev) : List NodeId :=
  log.filterMap fun e => match e with | .cur (some nd) => some nd.id | _ => none

theorem visited_append (l1 l2 : List Ev) : visited (l1 ++ l2) = visited l1 ++ visited l2 := by
  simp [visited, List.filterMap_append]

theorem visited_callDtor (d : Bool) (log : List Ev) (v : Val) : visited (callDtor d log v) = visited log := by
  cases d <;> simp [callDtor, visited]

theorem ids_eraseAt (c : Chain) (p : Nat) : ids (eraseAt c p) = (ids c).eraseIdx p := by
  simp [ids, eraseAt, List.eraseIdx_eq_take_drop_succ, List.map_take, List.map_drop]

/-! ## Progress of an iteration over the identities `I` the chain had when the iterator was created

`n` nodes of `I` have been visited; of these, `pre` are still in the chain (the others were removed
through the iterator); the rest of the chain is the not yet visited part of `I`, untouched. -/

structure Prog (I cur : List NodeId) (n : Nat) (pre : List NodeId) : Prop where
  le : n ≤ I.length
  sub : pre.Sublist (I.take n)
  eq : cur = pre ++ I.drop n

theorem Prog.start {x : NodeId} {r : List NodeId} : Prog (x :: r) (x :: r) 1 [x] :=
  ⟨by simp, by simp, by simp⟩

theorem Prog.advance {I cur : List NodeId} {n : Nat} {pre : List NodeId} {x : NodeId} (h : Prog I cur n pre)
    (hx : cur[pre.length]? = some x) : Prog I cur (n + 1) (pre ++ [x]) ∧ I.take (n + 1) = I.take n ++ [x] := by
  have h1 : I[n]? = some x := by
    rw [h.eq, List.getElem?_append_right (Nat.le_refl _)] at hx
    simpa [List.getElem?_drop] using hx
  have hn : n < I.length := lt_of_getElem?_some h1
  have ht : I.take (n + 1) = I.take n ++ [x] := by rw [List.take_add_one, h1]; rfl
  refine ⟨⟨hn, ?_, ?_⟩, ht⟩
  · rw [ht]; exact List.Sublist.append h.sub (List.Sublist.refl _)
  · have hx' : I[n] = x := by simpa [List.getElem?_eq_getElem hn] using h1
    rw [h.eq, List.drop_eq_getElem_cons hn, hx']; simp

theorem Prog.done {I cur : List NodeId} {n : Nat} {pre : List NodeId} (h : Prog I cur n pre)
    (hx : cur.length ≤ pre.length) : n = I.length := by
  have := congrArg List.length h.eq
  simp at this
  have := h.le
  omega

theorem Prog.remove {I cur : List NodeId} {n : Nat} {pre : List NodeId} {p : Nat} (h : Prog I cur n pre)
    (hp : p + 1 = pre.length) : Prog I (cur.eraseIdx p) n pre.dropLast := by
  refine ⟨h.le, (List.dropLast_sublist pre).trans h.sub, ?_⟩
  rw [h.eq, List.eraseIdx_append_of_lt_length (by omega), List.eraseIdx_eq_dropLast hp]

/-! ## Explicit results of the queue / stack iterator functions -/

theorem itrNext_adv {s : St} {q : Cont} {it : Itr} {p : Nat} {nd nd' : Node} (ho : s.obj = some q) (hi : s.itr = some it)
    (hf : s.fault = false) (hp : linkPos q.chain it.elem = some p) (hr : it.removed = false)
    (hnd : q.chain[p]? = some nd) (hnx : q.chain[p + 1]? = some nd') (hn : (ids q.chain).Nodup) :
    noteCur (itrNext s) =
      ({ s with itr := some { it with elem := .after nd.id }, log := s.log ++ [Ev.cur (some nd')] }, .int 0) := by
  obtain ⟨obj, itr, log, fault⟩ := s
  simp only at ho hi hf; subst ho hi hf
  have e1 : itrNext ⟨some q, some it, log, false⟩ =
      (⟨some q, some { it with elem := .after nd.id }, log, false⟩, .int 0) := by
    simp [itrNext, hp, hr, hnd, hnx]
  rw [e1, noteCur_some (q := q) (p := p + 1) (nd := nd') rfl rfl rfl (linkPos_after_getElem hn hnd) hnx]

theorem itrNext_end {s : St} {q : Cont} {it : Itr} {p : Nat} {nd : Node} (ho : s.obj = some q) (hi : s.itr = some it)
    (hp : linkPos q.chain it.elem = some p) (hr : it.removed = false)
    (hnd : q.chain[p]? = some nd) (hnx : q.chain[p + 1]? = none) :
    noteCur (itrNext s) = ({ s with itr := none }, .int 0) := by
  obtain ⟨obj, itr, log, fault⟩ := s
  simp only at ho hi; subst ho hi
  have e1 : itrNext ⟨some q, some it, log, fault⟩ = (⟨some q, none, log, fault⟩, .int 0) := by
    simp [itrNext, hp, hr, hnd, hnx]
  rw [e1, noteCur_noitr rfl]

theorem itrNext_rem_adv {s : St} {q : Cont} {it : Itr} {p : Nat} {nd' : Node} (ho : s.obj = some q) (hi : s.itr = some it)
    (hf : s.fault = false) (hp : linkPos q.chain it.elem = some p) (hr : it.removed = true)
    (hnx : q.chain[p]? = some nd') :
    noteCur (itrNext s) =
      ({ s with itr := some { it with removed := false }, log := s.log ++ [Ev.cur (some nd')] }, .int 0) := by
  obtain ⟨obj, itr, log, fault⟩ := s
  simp only at ho hi hf; subst ho hi hf
  have e1 : itrNext ⟨some q, some it, log, false⟩ =
      (⟨some q, some { it with removed := false }, log, false⟩, .int 0) := by
    simp [itrNext, hp, hr, hnx]
  rw [e1, noteCur_some (q := q) (it := { it with removed := false }) (p := p) (nd := nd') rfl rfl rfl hp hnx]

theorem itrNext_rem_end {s : St} {q : Cont} {it : Itr} {p : Nat} (ho : s.obj = some q) (hi : s.itr = some it)
    (hp : linkPos q.chain it.elem = some p) (hr : it.removed = true) (hnx : q.chain[p]? = none) :
    noteCur (itrNext s) = ({ s with itr := none }, .int 0) := by
  obtain ⟨obj, itr, log, fault⟩ := s
  simp only at ho hi; subst ho hi
  have e1 : itrNext ⟨some q, some it, log, fault⟩ = (⟨some q, none, log, fault⟩, .int 0) := by
    simp [itrNext, hp, hr, hnx]
  rw [e1, noteCur_noitr rfl]

theorem itrRemove_live {s : St} {q : Cont} {it : Itr} {p : Nat} {tmp : Node} (ho : s.obj = some q) (hi : s.itr = some it)
    (hp : linkPos q.chain it.elem = some p) (hr : it.removed = false) (hnd : q.chain[p]? = some tmp) :
    ∃ t, itrRemove s = ({ s with obj := some { q with chain := eraseAt q.chain p, tail := t, len := q.len - 1 },
                                 itr := some { it with removed := true },
                                 log := callDtor q.dtor s.log tmp.val }, .int 0) := by
  obtain ⟨obj, itr, log, fault⟩ := s
  simp only at ho hi; subst ho hi
  exact ⟨if q.tail = some tmp.id then it.elem.owner else q.tail, by simp [itrRemove, hp, hr, hnd]⟩

theorem itrRemove_removed {s : St} {it : Itr} (hi : s.itr = some it) (hr : it.removed = true) :
    itrRemove s = (s, .int EINVAL) := by
  obtain ⟨obj, itr, log, fault⟩ := s
  simp only at hi; subst hi
  simp [itrRemove, hr]

theorem itrSet_cases {s : St} {q : Cont} {it : Itr} {p : Nat} (v : Val) (ho : s.obj = some q) (hi : s.itr = some it)
    (hp : linkPos q.chain it.elem = some p) (hlt : it.removed = false → p < q.chain.length) :
    itrSet s v = (s, .int EINVAL) ∨
    itrSet s v = ({ s with obj := some { q with chain := setAt q.chain p v } }, .int 0) := by
  obtain ⟨obj, itr, log, fault⟩ := s
  simp only at ho hi; subst ho hi
  cases hr : it.removed with
  | true => left; simp [itrSet, hr]
  | false =>
    by_cases hv : v = 0
    · left; simp [itrSet, hr, hv]
    · right
      have := hlt hr
      simp [itrSet, hr, hv, hp, List.getElem?_eq_getElem this]

theorem itrGet_state {k : Kind} (hk : k ≠ .list) {s : St} {a : ASt} (h : R k s a) : (itrGet s).1 = s := by
  have h1 := (itrGet_R hk h).1
  obtain ⟨obj, itr, log, fault⟩ := s
  cases itr with
  | none => simp [itrGet]
  | some it =>
    cases hr : it.removed with
    | true => simp [itrGet, hr]
    | false =>
      cases obj with
      | none => simp only [R] at h; simp at h
      | some q =>
        simp only [R] at h
        obtain ⟨_, _, _, _, _, _, wf, tl, ac, _, hpos, _, _, hkk⟩ := h
        have : ac.pos < q.chain.length := by cases k <;> simp_all
        simp [itrGet, hr, hpos, List.getElem?_eq_getElem this]

/-! ## The iteration invariant of queue and stack -/

/-- An iteration over the chain identities `I` is in progress (or has ended); `V0` is what had been
visited before it started.  So far exactly the first `n` nodes of `I` were visited, in this order. -/
def VisInv (k : Kind) (I V0 : List NodeId) (s : St) : Prop :=
  (∃ a, R k s a) ∧ ∃ q n pre, s.obj = some q ∧ Prog I (ids q.chain) n pre ∧ visited s.log = V0 ++ I.take n ∧
    match s.itr with
    | none => n = I.length
    | some it => ∃ p, linkPos q.chain it.elem = some p ∧ (if it.removed then p = pre.length else p + 1 = pre.length)

theorem ids_getElem? (c : Chain) (p : Nat) : (ids c)[p]? = (c[p]?).map (·.id) := by simp [ids]

theorem ids_length (c : Chain) : (ids c).length = c.length := by simp [ids]

theorem vis_itrNew {k : Kind} {s : St} {a : ASt} {q : Cont} (h : R k s a) (ho : s.obj = some q) (hne : q.chain ≠ []) :
    VisInv k (ids q.chain) (visited s.log) (noteCur (itrNew s)).1 := by
  refine ⟨⟨_, (itrNew_R h).1⟩, ?_⟩
  have wf := (wellFormed_of_R h).cont q ho
  obtain ⟨obj, itr, log, fault⟩ := s
  simp only at ho; subst ho
  have hf : fault = false := h.1
  subst hf
  cases hc : q.chain with
  | nil => exact absurd hc hne
  | cons nd rest =>
    have hl : 0 < q.len := by simp [wf.1, hc]
    have e1 : itrNew ⟨some q, itr, log, false⟩ = (⟨some q, some { elem := .head }, log, false⟩, .handle true) := by
      simp [itrNew, cLen, hl]
    rw [e1, noteCur_some (q := q) (it := { elem := .head }) (p := 0) (nd := nd) rfl rfl rfl rfl (by simp [hc])]
    refine ⟨q, 1, [nd.id], rfl, ?_, ?_, 0, rfl, ?_⟩
    · simp only [hc, ids, List.map_cons]; exact Prog.start
    · simp [visited_append, visited, ids]
    · simp

theorem vis_itrNext {k : Kind} (hk : k ≠ .list) {I V0 : List NodeId} {s : St} (h : VisInv k I V0 s) :
    VisInv k I V0 (noteCur (itrNext s)).1 := by
  obtain ⟨⟨a, hR⟩, q, n, pre, ho, hprog, hvis, hitr⟩ := h
  refine ⟨⟨_, (itrNext_R hk hR).1⟩, ?_⟩
  have hwf := wellFormed_of_R hR
  have hf := hwf.nofault
  cases hi : s.itr with
  | none =>
    have e : noteCur (itrNext s) = (s, .int EINVAL) := by
      have : itrNext s = (s, .int EINVAL) := by
        obtain ⟨obj, itr, log, fault⟩ := s
        simp only at hi; subst hi; simp [itrNext]
      rw [this, noteCur_noitr hi]
    rw [e]; rw [hi] at hitr
    exact ⟨q, n, pre, ho, hprog, hvis, by rw [hi]; exact hitr⟩
  | some it =>
    rw [hi] at hitr
    obtain ⟨p, hp, hpp⟩ := hitr
    have hnodup := (hwf.cont q ho).2.1
    obtain ⟨p', hp', _, hlt⟩ := hwf.itr q it ho hi
    have : p' = p := by rw [hp] at hp'; cases hp'; rfl
    subst this
    cases hr : it.removed with
    | false =>
      simp only [hr, Bool.false_eq_true, if_false] at hpp
      have hplt := hlt hk hr
      have hnd : q.chain[p']? = some q.chain[p'] := List.getElem?_eq_getElem hplt
      cases hnx : q.chain[p' + 1]? with
      | none =>
        rw [itrNext_end ho hi hp hr hnd hnx]
        have hlen : (ids q.chain).length ≤ pre.length := by
          have : q.chain.length ≤ p' + 1 := by simpa using hnx
          rw [ids_length]; omega
        exact ⟨q, n, pre, ho, hprog, hvis, hprog.done hlen⟩
      | some nd' =>
        rw [itrNext_adv ho hi hf hp hr hnd hnx hnodup]
        have hx : (ids q.chain)[pre.length]? = some nd'.id := by rw [ids_getElem?, ← hpp, hnx]; rfl
        obtain ⟨hprog', htake⟩ := hprog.advance hx
        refine ⟨q, n + 1, pre ++ [nd'.id], ho, hprog', ?_, p' + 1, linkPos_after_getElem hnodup hnd, ?_⟩
        · show visited (s.log ++ [Ev.cur (some nd')]) = V0 ++ List.take (n + 1) I
          rw [visited_append, hvis, htake]; simp [visited]
        · simp [hr]; omega
    | true =>
      simp only [hr, if_true] at hpp
      cases hnx : q.chain[p']? with
      | none =>
        rw [itrNext_rem_end ho hi hp hr hnx]
        have hlen : (ids q.chain).length ≤ pre.length := by
          have : q.chain.length ≤ p' := by simpa using hnx
          rw [ids_length]; omega
        exact ⟨q, n, pre, ho, hprog, hvis, hprog.done hlen⟩
      | some nd' =>
        rw [itrNext_rem_adv ho hi hf hp hr hnx]
        have hx : (ids q.chain)[pre.length]? = some nd'.id := by rw [ids_getElem?, ← hpp, hnx]; rfl
        obtain ⟨hprog', htake⟩ := hprog.advance hx
        refine ⟨q, n + 1, pre ++ [nd'.id], ho, hprog', ?_, p', hp, ?_⟩
        · show visited (s.log ++ [Ev.cur (some nd')]) = V0 ++ List.take (n + 1) I
          rw [visited_append, hvis, htake]; simp [visited]
        · simp; omega

theorem vis_itrRemove {k : Kind} (hk : k ≠ .list) {I V0 : List NodeId} {s : St} (h : VisInv k I V0 s) :
    VisInv k I V0 (itrRemove s).1 := by
  obtain ⟨⟨a, hR⟩, q, n, pre, ho, hprog, hvis, hitr⟩ := h
  refine ⟨⟨_, (itrRemove_R hk hR).1⟩, ?_⟩
  have hwf := wellFormed_of_R hR
  cases hi : s.itr with
  | none =>
    have : itrRemove s = (s, .int EINVAL) := by
      obtain ⟨obj, itr, log, fault⟩ := s
      simp only at hi; subst hi; simp [itrRemove]
    rw [this]; rw [hi] at hitr
    exact ⟨q, n, pre, ho, hprog, hvis, by rw [hi]; exact hitr⟩
  | some it =>
    rw [hi] at hitr
    obtain ⟨p, hp, hpp⟩ := hitr
    obtain ⟨p', hp', _, hlt⟩ := hwf.itr q it ho hi
    have : p' = p := by rw [hp] at hp'; cases hp'; rfl
    subst this
    cases hr : it.removed with
    | true =>
      rw [itrRemove_removed hi hr]
      exact ⟨q, n, pre, ho, hprog, hvis, by rw [hi]; exact ⟨p', hp, hpp⟩⟩
    | false =>
      simp only [hr, Bool.false_eq_true, if_false] at hpp
      have hplt := hlt hk hr
      have hnd : q.chain[p']? = some q.chain[p'] := List.getElem?_eq_getElem hplt
      obtain ⟨t, e⟩ := itrRemove_live ho hi hp hr hnd
      rw [e]
      refine ⟨_, n, pre.dropLast, rfl, ?_, ?_, p', linkPos_eraseAt hp, ?_⟩
      · simp only [ids_eraseAt]; exact hprog.remove hpp
      · simp only [visited_callDtor]; exact hvis
      · simp [List.length_dropLast]; omega

theorem vis_itrSet {k : Kind} (hk : k ≠ .list) {I V0 : List NodeId} {s : St} (v : Val) (h : VisInv k I V0 s) :
    VisInv k I V0 (itrSet s v).1 := by
  obtain ⟨⟨a, hR⟩, q, n, pre, ho, hprog, hvis, hitr⟩ := h
  refine ⟨⟨_, (itrSet_R hk v hR).1⟩, ?_⟩
  have hwf := wellFormed_of_R hR
  cases hi : s.itr with
  | none =>
    have : itrSet s v = (s, .int EINVAL) := by
      obtain ⟨obj, itr, log, fault⟩ := s
      simp only at hi; subst hi; simp [itrSet]
    rw [this]; rw [hi] at hitr
    exact ⟨q, n, pre, ho, hprog, hvis, by rw [hi]; exact hitr⟩
  | some it =>
    rw [hi] at hitr
    obtain ⟨p, hp, hpp⟩ := hitr
    obtain ⟨p', hp', _, hlt⟩ := hwf.itr q it ho hi
    have : p' = p := by rw [hp] at hp'; cases hp'; rfl
    subst this
    rcases itrSet_cases v ho hi hp (hlt hk) with e | e
    · rw [e]; exact ⟨q, n, pre, ho, hprog, hvis, by rw [hi]; exact ⟨p', hp, hpp⟩⟩
    · rw [e]
      refine ⟨_, n, pre, rfl, ?_, hvis, ?_⟩
      · simp only [ids_setAt]; exact hprog
      · simp only [hi, linkPos_setAt]; exact ⟨p', hp, hpp⟩

theorem vis_same {k : Kind} {I V0 : List NodeId} {s s' : St} {a' : ASt} (h : VisInv k I V0 s) (hR : R k s' a')
    (ho : s'.obj = s.obj) (hi : s'.itr = s.itr) (hl : visited s'.log = visited s.log) : VisInv k I V0 s' := by
  obtain ⟨_, q, n, pre, ho', hprog, hvis, hitr⟩ := h
  exact ⟨⟨a', hR⟩, q, n, pre, by rw [ho, ho'], hprog, by rw [hl, hvis], by rw [hi]; exact hitr⟩

theorem peek_state {k : Kind} {s : St} {a : ASt} (h : R k s a) : (peek s).1 = s := by
  have hw := wellFormed_of_R h
  unfold peek
  split
  · cases ho : s.obj with
    | none => rfl
    | some q =>
      cases hc : q.chain with
      | nil =>
        rename_i hpos
        have := (hw.cont q ho).1
        simp [ho, cLen, this, hc] at hpos
      | cons nd rest => simp [hc]
  · rfl

theorem iterate_state (s : St) (stop : Option Nat) :
    (iterate s stop).1.obj = s.obj ∧ (iterate s stop).1.itr = s.itr ∧ visited (iterate s stop).1.log = visited s.log := by
  obtain ⟨obj, itr, log, fault⟩ := s
  unfold iterate
  split
  · cases obj with
    | none => exact ⟨rfl, rfl, rfl⟩
    | some q => exact ⟨rfl, rfl, by simp [visited_append, visited]⟩
  · exact ⟨rfl, rfl, rfl⟩

/-- result of a finished or running iteration, as stated in the theorems: the first `n` nodes the
chain had at `itr_new` were visited, in chain order, each once; the chain now consists of some of
these (the ones not removed through the iterator) followed by all the others, untouched -/
theorem VisInv.result {k : Kind} {I V0 : List NodeId} {s : St} (h : VisInv k I V0 s) :
    ∃ n q, visited s.log = V0 ++ I.take n ∧ (s.itr = none → n = I.length) ∧ s.obj = some q ∧
      (ids q.chain).Sublist I ∧ ∃ pre, pre.Sublist (I.take n) ∧ ids q.chain = pre ++ I.drop n := by
  obtain ⟨_, q, n, pre, ho, hprog, hvis, hitr⟩ := h
  refine ⟨n, q, hvis, ?_, ho, ?_, pre, hprog.sub, hprog.eq⟩
  · intro hi; rw [hi] at hitr; exact hitr
  · rw [hprog.eq]
    have := List.Sublist.append hprog.sub (List.Sublist.refl (I.drop n))
    rwa [List.take_append_drop] at this

namespace Queue

/-- calls that may be made while an iteration is in progress and do not restart or abandon it -/
def Op.inIteration : Op → Bool
  | .itNext | .itGet | .itSet _ | .itRm | .peek | .len | .iterate _ => true
  | _ => false

theorem vis_step {I V0 : List NodeId} {s : St} (o : Op) (h : VisInv .queue I V0 s) (ho : o.inIteration = true) :
    VisInv .queue I V0 (step s o).1 := by
  obtain ⟨a, hR⟩ := h.1
  cases o with
  | itNext => exact vis_itrNext (by decide) h
  | itGet => simp only [step]; rw [itrGet_state (by decide) hR]; exact h
  | itSet v => exact vis_itrSet (by decide) v h
  | itRm => exact vis_itrRemove (by decide) h
  | peek => simp only [step]; rw [peek_state hR]; exact h
  | len => exact h
  | iterate k =>
    have := iterate_state s k
    exact vis_same h (iterate_R k hR).1 this.1 this.2.1 this.2.2
  | enq v => simp [Op.inIteration] at ho
  | deq => simp [Op.inIteration] at ho
  | rm => simp [Op.inIteration] at ho
  | clear => simp [Op.inIteration] at ho
  | free => simp [Op.inIteration] at ho
  | itNew => simp [Op.inIteration] at ho

theorem vis_run {I V0 : List NodeId} : ∀ (ops : List Op) {s : St}, VisInv .queue I V0 s →
    ops.all Op.inIteration = true → VisInv .queue I V0 (run s ops)
  | [], _, h, _ => h
  | o :: os, s, h, ha => by
    simp only [List.all_cons, Bool.and_eq_true] at ha
    exact vis_run os (vis_step o h ha.1) ha.2

end Queue

namespace Stack

def Op.inIteration : Op → Bool
  | .itNext | .itGet | .itSet _ | .itRm | .peek | .len | .iterate _ => true
  | _ => false

theorem vis_step {I V0 : List NodeId} {s : St} (o : Op) (h : VisInv .stack I V0 s) (ho : o.inIteration = true) :
    VisInv .stack I V0 (step s o).1 := by
  obtain ⟨a, hR⟩ := h.1
  cases o with
  | itNext => exact vis_itrNext (by decide) h
  | itGet => simp only [step]; rw [itrGet_state (by decide) hR]; exact h
  | itSet v => exact vis_itrSet (by decide) v h
  | itRm => exact vis_itrRemove (by decide) h
  | peek => simp only [step]; rw [peek_state hR]; exact h
  | len => exact h
  | iterate k =>
    have := iterate_state s k
    exact vis_same h (iterate_R k hR).1 this.1 this.2.1 this.2.2
  | push v => simp [Op.inIteration] at ho
  | pop => simp [Op.inIteration] at ho
  | rm => simp [Op.inIteration] at ho
  | clear => simp [Op.inIteration] at ho
  | free => simp [Op.inIteration] at ho
  | itNew => simp [Op.inIteration] at ho

theorem vis_run {I V0 : List NodeId} : ∀ (ops : List Op) {s : St}, VisInv .stack I V0 s →
    ops.all Op.inIteration = true → VisInv .stack I V0 (run s ops)
  | [], _, h, _ => h
  | o :: os, s, h, ha => by
    simp only [List.all_cons, Bool.and_eq_true] at ha
    exact vis_run os (vis_step o h ha.1) ha.2

end Stack

end Lm.Struct
