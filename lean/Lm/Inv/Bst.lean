import Lm.Struct.Bst
/-! Helper lemmas and invariants for the ordered-set model (used by `Lm.Props.C11`). -/
namespace Lm.Struct.Bst
open Tree

/-- What the set needs from a comparator `cmp key elem` (an `int`-valued three-way comparison):
`cmp a a = 0`, the sign flips when the arguments are swapped, and `≤` is transitive. -/
structure TotalOrderCmp {α : Type} (cmp : α → α → Int) : Prop where
  refl : ∀ a, cmp a a = 0
  antisymm : ∀ a b, cmp a b < 0 ↔ 0 < cmp b a
  trans : ∀ a b c, cmp a b ≤ 0 → cmp b c ≤ 0 → cmp a c ≤ 0

namespace TotalOrderCmp
variable {α : Type} {cmp : α → α → Int} (h : TotalOrderCmp cmp)
include h

theorem eq_symm {a b : α} (e : cmp a b = 0) : cmp b a = 0 := by
  have h1 := h.antisymm a b; have h2 := h.antisymm b a; omega

theorem lt_trans {a b c : α} (h1 : cmp a b < 0) (h2 : cmp b c < 0) : cmp a c < 0 := by
  have t := h.trans a b c (by omega) (by omega)
  by_cases g : cmp a c < 0
  · exact g
  · have e : cmp a c = 0 := by omega
    have e' := h.eq_symm e
    have t2 := h.trans c a b (by omega) (by omega)
    have := h.antisymm b c
    omega

theorem lt_of_eq_of_lt {a b c : α} (h1 : cmp a b = 0) (h2 : cmp b c < 0) : cmp a c < 0 := by
  have t := h.trans a b c (by omega) (by omega)
  by_cases g : cmp a c < 0
  · exact g
  · have e : cmp a c = 0 := by omega
    have e' := h.eq_symm e
    have e1 := h.eq_symm h1
    have t2 := h.trans c a b (by omega) (by omega)
    have := h.antisymm b c
    omega

theorem lt_of_lt_of_eq {a b c : α} (h1 : cmp a b < 0) (h2 : cmp b c = 0) : cmp a c < 0 := by
  have t := h.trans a b c (by omega) (by omega)
  by_cases g : cmp a c < 0
  · exact g
  · have e : cmp a c = 0 := by omega
    have e' := h.eq_symm e
    have t2 := h.trans b c a (by omega) (by omega)
    have := h.antisymm a b
    omega

theorem gt_iff {a b : α} : 0 < cmp a b ↔ cmp b a < 0 := (h.antisymm b a).symm

/-- a comparator seen through any map of the elements is still one -/
theorem comap {β : Type} (f : β → α) : TotalOrderCmp (fun x y => cmp (f x) (f y)) :=
  ⟨fun a => h.refl (f a), fun a b => h.antisymm (f a) (f b), fun a b c => h.trans (f a) (f b) (f c)⟩

end TotalOrderCmp

/-! ## Shape facts -/

@[simp] theorem inorderN_map_snd : ∀ t : Tree, t.inorderN.map Prod.snd = t.inorder
  | .nil => rfl
  | .node _ l _ r => by simp [inorderN, inorder, inorderN_map_snd l, inorderN_map_snd r]

@[simp] theorem inorderN_map_fst : ∀ t : Tree, t.inorderN.map Prod.fst = t.ids
  | .nil => rfl
  | .node _ l _ r => by simp [inorderN, ids, inorderN_map_fst l, inorderN_map_fst r]

@[simp] theorem inorder_length : ∀ t : Tree, t.inorder.length = t.size
  | .nil => rfl
  | .node _ l _ r => by simp [inorder, size, inorder_length l, inorder_length r]; omega

@[simp] theorem ids_length : ∀ t : Tree, t.ids.length = t.size
  | .nil => rfl
  | .node _ l _ r => by simp [ids, size, ids_length l, ids_length r]; omega

theorem inorderN_length (t : Tree) : t.inorderN.length = t.size := by
  rw [← inorder_length, ← inorderN_map_snd, List.length_map]

theorem preorder_perm : ∀ t : Tree, t.preorder.Perm t.inorder
  | .nil => .refl _
  | .node _ l v r => by
    simp only [preorder, inorder]
    exact ((preorder_perm l).append (preorder_perm r)).cons v |>.trans List.perm_middle.symm

theorem postorder_perm : ∀ t : Tree, t.postorder.Perm t.inorder
  | .nil => .refl _
  | .node _ l v r => by
    simp only [postorder, inorder]
    refine (postorder_perm l).append ?_
    exact (List.perm_append_singleton v _).trans ((postorder_perm r).cons v)

theorem isNil_iff (t : Tree) : t.isNil = true ↔ t = .nil := by cases t <;> simp [isNil]

theorem rootId_none_iff (t : Tree) : t.rootId = none ↔ t = .nil := by cases t <;> simp [rootId]

theorem size_eq_zero_iff (t : Tree) : t.size = 0 ↔ t = .nil := by
  cases t <;> simp [size]

/-! ## The search-tree invariant -/

/-- every element of the left subtree is below the node, every element of the right one above -/
def Ordered (cmp : Val → Val → Int) : Tree → Prop
  | .nil => True
  | .node _ l x r => Ordered cmp l ∧ Ordered cmp r ∧ (∀ y ∈ l.inorder, cmp y x < 0) ∧ (∀ z ∈ r.inorder, cmp x z < 0)

/-- strictly ascending w.r.t. `cmp` -/
def Ascending (cmp : Val → Val → Int) (l : List Val) : Prop := l.Pairwise (fun a b => cmp a b < 0)

theorem ordered_iff_ascending {cmp} (h : TotalOrderCmp cmp) : ∀ t : Tree, Ordered cmp t ↔ Ascending cmp t.inorder
  | .nil => by simp [Ordered, Ascending, inorder]
  | .node _ l x r => by
    simp only [Ordered, Ascending, inorder, List.pairwise_append, List.pairwise_cons, List.mem_cons]
    rw [ordered_iff_ascending h l, ordered_iff_ascending h r]
    simp only [Ascending]
    constructor
    · rintro ⟨hl, hr, hlx, hxr⟩
      refine ⟨hl, ⟨hxr, hr⟩, ?_⟩
      intro a ha b hb
      rcases hb with rfl | hb
      · exact hlx a ha
      · exact h.lt_trans (hlx a ha) (hxr b hb)
    · rintro ⟨hl, ⟨hxr, hr⟩, hlr⟩
      exact ⟨hl, hr, fun y hy => hlr y hy x (Or.inl rfl), hxr⟩

/-! ## find -/

theorem find_some {cmp} {v y : Val} : ∀ {t : Tree}, find cmp v t = some y → y ∈ t.inorder ∧ cmp v y = 0
  | .nil, h => by simp [find] at h
  | .node _ l x r, h => by
    simp only [find] at h
    split at h
    · cases h; exact ⟨by simp [inorder], by assumption⟩
    · split at h
      · have := find_some (t := r) h; exact ⟨by simp [inorder, this.1], this.2⟩
      · have := find_some (t := l) h; exact ⟨by simp [inorder, this.1], this.2⟩

/-- under the search-tree invariant the descent reaches every element comparing equal to the key -/
theorem find_complete {cmp} (h : TotalOrderCmp cmp) {v y : Val} :
    ∀ {t : Tree}, Ordered cmp t → y ∈ t.inorder → cmp v y = 0 → find cmp v t = some y
  | .nil, _, hm, _ => by simp [inorder] at hm
  | .node _ l x r, ho, hm, he => by
    obtain ⟨hol, hor, hlx, hxr⟩ := ho
    simp only [inorder, List.mem_append, List.mem_cons] at hm
    simp only [find]
    rcases hm with hm | rfl | hm
    · have hlt : cmp v x < 0 := h.lt_of_eq_of_lt he (hlx y hm)
      have := find_complete h hol hm he
      rw [if_neg (by omega), if_neg (by omega)]; exact this
    · simp [he]
    · have hlt : cmp x v < 0 := h.lt_of_lt_of_eq (hxr y hm) (h.eq_symm he)
      have hgt := (h.antisymm x v).mp hlt
      have := find_complete h hor hm he
      rw [if_neg (by omega), if_pos (by omega)]; exact this

theorem find_none {cmp} (h : TotalOrderCmp cmp) {v : Val} {t : Tree} (ho : Ordered cmp t)
    (hf : find cmp v t = none) : ∀ y ∈ t.inorder, cmp v y ≠ 0 := by
  intro y hy he
  rw [find_complete h ho hy he] at hf; cases hf

/-- in a search tree at most one element compares equal to a key -/
theorem equal_unique {cmp} (h : TotalOrderCmp cmp) {v y y' : Val} {t : Tree} (ho : Ordered cmp t)
    (hy : y ∈ t.inorder) (hy' : y' ∈ t.inorder) (he : cmp v y = 0) (he' : cmp v y' = 0) : y = y' := by
  have a := find_complete h ho hy he
  have b := find_complete h ho hy' he'
  rw [a] at b; cases b; rfl

/-! ## insert -/

/-- `insert` refuses exactly when the descent ends on a node (`*node != NULL`) -/
theorem insert_none_iff_find {cmp} {n : Nat} {v : Val} : ∀ {t : Tree}, insert cmp n v t = none ↔ (find cmp v t).isSome
  | .nil => by simp [insert, find]
  | .node _ l x r => by
    simp only [insert, find]
    split
    · simp
    · split
      · simp [insert_none_iff_find (t := r)]
      · simp [insert_none_iff_find (t := l)]

/-- a successful insert puts `(newId, v)` somewhere into the in-order sequence and changes nothing else -/
theorem insert_inorderN {cmp} {n : Nat} {v : Val} : ∀ {t t' : Tree}, insert cmp n v t = some t' →
    ∃ A B, t.inorderN = A ++ B ∧ t'.inorderN = A ++ (n, v) :: B
  | .nil, t', h => by simp [insert] at h; subst h; exact ⟨[], [], rfl, rfl⟩
  | .node id l x r, t', h => by
    simp only [insert] at h
    split at h
    · cases h
    · split at h
      · simp only [Option.map_eq_some_iff] at h
        obtain ⟨r', hr, rfl⟩ := h
        obtain ⟨A, B, e1, e2⟩ := insert_inorderN hr
        exact ⟨l.inorderN ++ (id, x) :: A, B, by simp [inorderN, e1], by simp [inorderN, e2]⟩
      · simp only [Option.map_eq_some_iff] at h
        obtain ⟨l', hl, rfl⟩ := h
        obtain ⟨A, B, e1, e2⟩ := insert_inorderN hl
        exact ⟨A, B ++ (id, x) :: r.inorderN, by simp [inorderN, e1], by simp [inorderN, e2]⟩

theorem insert_mem {cmp} {n : Nat} {v : Val} {t t' : Tree} (h : insert cmp n v t = some t') (z : Val) :
    z ∈ t'.inorder ↔ z = v ∨ z ∈ t.inorder := by
  obtain ⟨A, B, e1, e2⟩ := insert_inorderN h
  rw [← inorderN_map_snd, ← inorderN_map_snd, e1, e2]
  simp only [List.map_append, List.map_cons, List.mem_append, List.mem_cons]
  constructor
  · rintro (a | a | a) <;> simp [a]
  · rintro (a | a | a) <;> simp [a]

theorem insert_ordered {cmp} (h : TotalOrderCmp cmp) {n : Nat} {v : Val} :
    ∀ {t t' : Tree}, Ordered cmp t → insert cmp n v t = some t' → Ordered cmp t'
  | .nil, t', _, hi => by simp [insert] at hi; subst hi; simp [Ordered, inorder]
  | .node id l x r, t', ho, hi => by
    obtain ⟨hol, hor, hlx, hxr⟩ := ho
    simp only [insert] at hi
    split at hi
    · cases hi
    · rename_i hne
      split at hi
      · rename_i hgt
        simp only [Option.map_eq_some_iff] at hi
        obtain ⟨r', hr, rfl⟩ := hi
        refine ⟨hol, insert_ordered h hor hr, hlx, ?_⟩
        intro z hz
        rcases (insert_mem hr z).mp hz with rfl | hz
        · exact (h.antisymm x z).mpr hgt
        · exact hxr z hz
      · simp only [Option.map_eq_some_iff] at hi
        obtain ⟨l', hl, rfl⟩ := hi
        refine ⟨insert_ordered h hol hl, hor, ?_, hxr⟩
        intro z hz
        rcases (insert_mem hl z).mp hz with rfl | hz
        · omega
        · exact hlx z hz

/-! ## remove -/

/-- Effect of one successful `remove_node` on the in-order sequence of (identity, value) pairs:
the pair `(s, v)` of the node it is applied to disappears; either literally (at most one child: the
node itself is freed), or the *next* node `j` is freed and its value moves into `s` (two children). -/
def RmSpec (L L' : List (Nat × Val)) (s : Nat) (v : Val) (freed : Nat) : Prop :=
  ∃ B A, L = B ++ (s, v) :: A ∧
    ((L' = B ++ A ∧ freed = s) ∨ (∃ w rest, A = (freed, w) :: rest ∧ L' = B ++ (s, w) :: rest))

theorem RmSpec.wrap {L L' s v f} (h : RmSpec L L' s v f) (P S : List (Nat × Val)) :
    RmSpec (P ++ L ++ S) (P ++ L' ++ S) s v f := by
  obtain ⟨B, A, e, h⟩ := h
  refine ⟨P ++ B, A ++ S, by simp [e], ?_⟩
  rcases h with ⟨e', rfl⟩ | ⟨w, rest, rfl, e'⟩
  · left; simp [e']
  · right; exact ⟨w, rest ++ S, by simp, by simp [e']⟩

theorem RmSpec.vals {L L' s v f} (h : RmSpec L L' s v f) :
    ∃ X Y, L.map Prod.snd = X ++ v :: Y ∧ L'.map Prod.snd = X ++ Y := by
  obtain ⟨B, A, e, h⟩ := h
  refine ⟨B.map Prod.snd, A.map Prod.snd, by simp [e], ?_⟩
  rcases h with ⟨e', _⟩ | ⟨w, rest, rfl, e'⟩ <;> simp [e']

theorem RmSpec.ids {L L' s v f} (h : RmSpec L L' s v f) :
    ∃ X Y, L.map Prod.fst = X ++ f :: Y ∧ L'.map Prod.fst = X ++ Y := by
  obtain ⟨B, A, e, h⟩ := h
  rcases h with ⟨e', rfl⟩ | ⟨w, rest, rfl, e'⟩
  · exact ⟨B.map Prod.fst, A.map Prod.fst, by simp [e], by simp [e']⟩
  · exact ⟨B.map Prod.fst ++ [s], rest.map Prod.fst, by simp [e], by simp [e']⟩

theorem removeMinSwapped_spec (x : Val) : ∀ (t : Tree), t ≠ .nil →
    ∃ i m A rm, t.inorderN = (i, m) :: A ∧ removeMinSwapped x t = some (m, rm) ∧ rm.tree.inorderN = A ∧
      rm.dval = x ∧ rm.freed = i
  | .nil, h => absurd rfl h
  | .node id .nil m r, _ => ⟨id, m, r.inorderN, _, by simp [inorderN], rfl, rfl, rfl, rfl⟩
  | .node id (.node i2 l2 v2 r2) v r, _ => by
    obtain ⟨i, m, A, rm, e1, e2, e3, e4, e5⟩ := removeMinSwapped_spec x (.node i2 l2 v2 r2) (by simp)
    refine ⟨i, m, A ++ (id, v) :: r.inorderN, rm.wrapL id v r, ?_, ?_, ?_, e4, e5⟩
    · rw [inorderN, e1]; simp
    · simp [removeMinSwapped, e2]
    · simp [Rm.wrapL, inorderN, e3]

/-- `remove_node` on a non-empty subtree always succeeds, hands the node's value to the destructor
and removes exactly that (identity, value) from the sequence -/
theorem removeNode_spec (id : Nat) (l : Tree) (v : Val) (r : Tree) :
    ∃ rm, removeNode (.node id l v r) = some rm ∧ rm.dval = v ∧
      RmSpec (Tree.node id l v r).inorderN rm.tree.inorderN id v rm.freed := by
  cases l with
  | nil =>
    exact ⟨⟨r, id, v⟩, by simp [removeNode, isNil], rfl, [], r.inorderN, by simp [inorderN], Or.inl ⟨by simp, rfl⟩⟩
  | node li ll lv lr =>
    cases r with
    | nil =>
      exact ⟨⟨.node li ll lv lr, id, v⟩, by simp [removeNode, isNil], rfl, (Tree.node li ll lv lr).inorderN, [],
        by simp [inorderN], Or.inl ⟨by simp, rfl⟩⟩
    | node ri rl rv rr =>
      obtain ⟨i, m, A, rm, e1, e2, e3, e4, e5⟩ := removeMinSwapped_spec v (.node ri rl rv rr) (by simp)
      refine ⟨⟨.node id (.node li ll lv lr) m rm.tree, rm.freed, rm.dval⟩, by simp [removeNode, isNil, e2], e4,
        (Tree.node li ll lv lr).inorderN, (Tree.node ri rl rv rr).inorderN, by simp [inorderN], Or.inr ⟨m, A, ?_, ?_⟩⟩
      · simp [e1, e5]
      · simp [inorderN, e3]

theorem removeKey_isSome_iff_find {cmp} {k : Val} : ∀ {t : Tree}, (removeKey cmp k t).isSome = (find cmp k t).isSome
  | .nil => by simp [removeKey, find]
  | .node id l x r => by
    simp only [removeKey, find]
    split
    · obtain ⟨rm, e, _⟩ := removeNode_spec id l x r
      simp [e]
    · split
      · simp [removeKey_isSome_iff_find (t := r)]
      · simp [removeKey_isSome_iff_find (t := l)]

/-- `m_bst_remove` removes a node whose element compares equal to the key, and gives exactly that
element to the destructor -/
theorem removeKey_spec {cmp} {k : Val} : ∀ {t : Tree} {rm : Rm}, removeKey cmp k t = some rm →
    ∃ s, cmp k rm.dval = 0 ∧ RmSpec t.inorderN rm.tree.inorderN s rm.dval rm.freed
  | .nil, rm, h => by simp [removeKey] at h
  | .node id l x r, rm, h => by
    simp only [removeKey] at h
    split at h
    · rename_i he
      obtain ⟨rm', e, d, sp⟩ := removeNode_spec id l x r
      rw [e] at h; cases h
      exact ⟨id, by rw [d]; exact he, by rw [d]; exact sp⟩
    · split at h
      · simp only [Option.map_eq_some_iff] at h
        obtain ⟨rm', hr, rfl⟩ := h
        obtain ⟨s, he, sp⟩ := removeKey_spec hr
        refine ⟨s, he, ?_⟩
        have := sp.wrap (l.inorderN ++ [(id, x)]) []
        simpa [Rm.wrapR, inorderN] using this
      · simp only [Option.map_eq_some_iff] at h
        obtain ⟨rm', hl, rfl⟩ := h
        obtain ⟨s, he, sp⟩ := removeKey_spec hl
        refine ⟨s, he, ?_⟩
        have := sp.wrap [] ((id, x) :: r.inorderN)
        simpa [Rm.wrapL, inorderN] using this

theorem ascending_of_rm {cmp} {L L' : List Val} {X Y : List Val} {v : Val} (e : L = X ++ v :: Y) (e' : L' = X ++ Y)
    (h : Ascending cmp L) : Ascending cmp L' := by
  subst e e'
  unfold Ascending at *
  exact h.sublist (List.Sublist.append (List.Sublist.refl _) (List.sublist_cons_self _ _))

end Lm.Struct.Bst
