import Lm.Inv.BstItr
/-! State-level invariants of the ordered-set model: every API call, `clear` through the iterator,
the client iteration loop, arbitrary scripts.  Helper lemmas for `Lm.Props.C11`. -/
namespace Lm.Struct.Bst
open Tree

/-- the invariant of a set: search-tree order, exact length, distinct node identities below the
allocation counter -/
structure SetInv (cmp : Val → Val → Int) (b : Bst) : Prop where
  ord : Ordered cmp b.root
  len : b.len = b.root.size
  nodup : b.root.ids.Nodup
  fresh : ∀ k ∈ b.root.ids, k < b.nextId

theorem SetInv.empty (cmp) (d : Bool) : SetInv cmp { dtor := d } :=
  ⟨by simp [Ordered], rfl, by simp [ids], by simp [ids]⟩

def dtorEvs (d : Bool) (vs : List Val) : List Ev := if d then vs.map Ev.dtor else []

theorem dtorEv_eq (b : Bst) (v : Val) : dtorEv b v = dtorEvs b.dtor [v] := by
  simp [dtorEv, dtorEvs]

theorem dtorEvs_append (d : Bool) (xs ys : List Val) : dtorEvs d (xs ++ ys) = dtorEvs d xs ++ dtorEvs d ys := by
  cases d <;> simp [dtorEvs]

@[simp] theorem dtorEvs_nil (d : Bool) : dtorEvs d [] = [] := by cases d <;> simp [dtorEvs]

/-! ## insert -/

theorem bstInsert_inv {cmp} (h : TotalOrderCmp cmp) {b : Bst} (hi : SetInv cmp b) (v : Val) :
    SetInv cmp (bstInsert cmp b v).1 := by
  simp only [bstInsert]
  split
  · exact hi
  · split
    · exact hi
    · rename_i t ht
      obtain ⟨A, B, e1, e2⟩ := insert_inorderN ht
      have hids : t.ids = A.map Prod.fst ++ b.nextId :: B.map Prod.fst := by
        rw [← inorderN_map_fst, e2]; simp
      have hids0 : b.root.ids = A.map Prod.fst ++ B.map Prod.fst := ids_split e1
      refine ⟨insert_ordered h hi.ord ht, ?_, ?_, ?_⟩
      · have l1 := inorderN_length t
        have l0 := inorderN_length b.root
        rw [e2] at l1; rw [e1] at l0
        simp only [List.length_append, List.length_cons] at l1 l0
        simp only [hi.len]; omega
      · simp only
        rw [hids, List.perm_middle.nodup_iff, List.nodup_cons, ← hids0]
        exact ⟨fun hm => Nat.lt_irrefl _ (hi.fresh _ hm), hi.nodup⟩
      · intro k hk
        simp only at hk ⊢
        rw [hids] at hk
        simp only [List.mem_append, List.mem_cons] at hk
        have : k = b.nextId ∨ k ∈ b.root.ids := by
          rw [hids0]; simp only [List.mem_append]
          rcases hk with h | h | h
          · exact Or.inr (Or.inl h)
          · exact Or.inl h
          · exact Or.inr (Or.inr h)
        rcases this with rfl | h
        · omega
        · have := hi.fresh k h; omega

/-- `m_bst_insert`: refused with `-EEXIST` (state unchanged) exactly when an element comparing
equal is present; otherwise the element is added and nothing else changes -/
theorem bstInsert_spec {cmp} (h : TotalOrderCmp cmp) {b : Bst} (hi : SetInv cmp b) {v : Val} (hv : v ≠ 0) :
    ((∃ y ∈ b.root.inorder, cmp v y = 0) → bstInsert cmp b v = (b, -EEXIST)) ∧
    ((∀ y ∈ b.root.inorder, cmp v y ≠ 0) → ∃ b' X Y, bstInsert cmp b v = (b', 0) ∧
        b.root.inorder = X ++ Y ∧ b'.root.inorder = X ++ v :: Y ∧ b'.len = b.len + 1 ∧ b'.dtor = b.dtor) := by
  constructor
  · rintro ⟨y, hy, he⟩
    have hf := find_complete h hi.ord hy he
    have : insert cmp b.nextId v b.root = none := insert_none_iff_find.mpr (by simp [hf])
    simp [bstInsert, hv, this]
  · intro hno
    cases hins : insert cmp b.nextId v b.root with
    | none =>
      have := insert_none_iff_find.mp hins
      cases hf : find cmp v b.root with
      | none => simp [hf] at this
      | some y => obtain ⟨hy, he⟩ := find_some hf; exact absurd he (hno y hy)
    | some t =>
      obtain ⟨A, B, e1, e2⟩ := insert_inorderN hins
      refine ⟨{ b with root := t, len := b.len + 1, nextId := b.nextId + 1 }, A.map Prod.snd, B.map Prod.snd,
        by simp [bstInsert, hv, hins], ?_, ?_, rfl, rfl⟩
      · rw [← inorderN_map_snd, e1]; simp
      · simp only; rw [← inorderN_map_snd, e2]; simp

/-! ## remove -/

theorem SetInv.rm {cmp} (h : TotalOrderCmp cmp) {b : Bst} (hi : SetInv cmp b) {rm : Rm} {s v f}
    (sp : RmSpec b.root.inorderN rm.tree.inorderN s v f) : SetInv cmp (applyRm b rm).1 := by
  obtain ⟨X, Y, v1, v2⟩ := sp.vals
  obtain ⟨P, Q, i1, i2⟩ := sp.ids
  simp only [inorderN_map_snd] at v1 v2
  simp only [inorderN_map_fst] at i1 i2
  refine ⟨?_, ?_, ?_, ?_⟩
  · simp only [applyRm]
    rw [ordered_iff_ascending h]
    exact ascending_of_rm v1 v2 ((ordered_iff_ascending h _).mp hi.ord)
  · simp only [applyRm, hi.len]
    have a := inorder_length b.root
    have c := inorder_length rm.tree
    rw [v1] at a; rw [v2] at c
    simp only [List.length_append, List.length_cons] at a c
    omega
  · simp only [applyRm]
    rw [i2]
    have := hi.nodup
    rw [i1] at this
    exact this.sublist (List.Sublist.append (List.Sublist.refl _) (List.sublist_cons_self _ _))
  · intro k hk
    simp only [applyRm] at hk ⊢
    apply hi.fresh
    rw [i1]; rw [i2] at hk
    simp only [List.mem_append, List.mem_cons] at hk ⊢
    rcases hk with h | h
    · exact Or.inl h
    · exact Or.inr (Or.inr h)

/-- `m_bst_remove` -/
theorem bstRemove_spec {cmp} (h : TotalOrderCmp cmp) {b : Bst} (hi : SetInv cmp b) {v : Val} (hv : v ≠ 0) (hl : b.len ≠ 0) :
    ((∀ y ∈ b.root.inorder, cmp v y ≠ 0) → bstRemove cmp b v = (b, [], -ENOENT)) ∧
    (∀ y ∈ b.root.inorder, cmp v y = 0 → ∃ b' X Y, bstRemove cmp b v = (b', dtorEvs b.dtor [y], 0) ∧
        b.root.inorder = X ++ y :: Y ∧ b'.root.inorder = X ++ Y ∧ b'.len = b.len - 1 ∧ b'.dtor = b.dtor ∧ SetInv cmp b') := by
  constructor
  · intro hno
    cases hr : removeKey cmp v b.root with
    | none => simp [bstRemove, hl, hv, hr]
    | some rm =>
      have := @removeKey_isSome_iff_find cmp v b.root
      rw [hr] at this
      cases hf : find cmp v b.root with
      | none => simp [hf] at this
      | some y => obtain ⟨hy, he⟩ := find_some hf; exact absurd he (hno y hy)
  · intro y hy he
    have hf := find_complete h hi.ord hy he
    cases hr : removeKey cmp v b.root with
    | none =>
      have := @removeKey_isSome_iff_find cmp v b.root
      rw [hr, hf] at this; simp at this
    | some rm =>
      obtain ⟨s, he', sp⟩ := removeKey_spec hr
      obtain ⟨X, Y, v1, v2⟩ := sp.vals
      simp only [inorderN_map_snd] at v1 v2
      have hmem : rm.dval ∈ b.root.inorder := by rw [v1]; simp
      have hy' : rm.dval = y := equal_unique h hi.ord hmem hy he' he
      refine ⟨(applyRm b rm).1, X, Y, ?_, by rw [← hy']; exact v1, v2, rfl, rfl, hi.rm h sp⟩
      simp [bstRemove, hl, hv, hr, applyRm, dtorEv_eq, hy']

theorem bstRemove_inv {cmp} (h : TotalOrderCmp cmp) {b : Bst} (hi : SetInv cmp b) (v : Val) :
    SetInv cmp (bstRemove cmp b v).1 := by
  simp only [bstRemove]
  split
  · exact hi
  · split
    · exact hi
    · split
      · exact hi
      · rename_i rm hr
        obtain ⟨s, _, sp⟩ := removeKey_spec hr
        exact hi.rm h sp

/-- `m_bst_find` -/
theorem bstFind_spec {cmp} (h : TotalOrderCmp cmp) {b : Bst} (hi : SetInv cmp b) (v y : Val) :
    bstFind cmp b v = some y ↔ v ≠ 0 ∧ y ∈ b.root.inorder ∧ cmp v y = 0 := by
  simp only [bstFind]
  split
  · rename_i h0; simp [h0]
  · rename_i h0
    constructor
    · intro hf; exact ⟨h0, find_some hf⟩
    · rintro ⟨_, hy, he⟩; exact find_complete h hi.ord hy he

/-! ## clear / free: the loop over the iterator -/

theorem applyRm_fields (b : Bst) (rm : Rm) : (applyRm b rm).1.dtor = b.dtor ∧ (applyRm b rm).1.nextId = b.nextId ∧
    (applyRm b rm).1.root = rm.tree ∧ (applyRm b rm).1.len = b.len - 1 := ⟨rfl, rfl, rfl, rfl⟩

theorem root_nil_of_inorderN {t : Tree} (h : t.inorderN = []) : t = .nil := by
  have := inorderN_length t
  rw [h] at this
  exact (size_eq_zero_iff t).mp this.symm

/-- the loop of `m_bst_clear` destroys every remaining element once, in ascending order, never
faults and never runs out of the fuel `len + 1` -/
theorem clearLoop_spec {cmp} (h : TotalOrderCmp cmp) : ∀ (fuel : Nat) (b : Bst) (it : Itr) (A : List (Nat × Val)) (evs : List Ev),
    SetInv cmp b → ItAt b.root it [] A → it.removed = false → A.length ≤ fuel →
    ∃ b', clearLoop fuel b (some it) evs = (b', evs ++ dtorEvs b.dtor (A.map Prod.snd), false) ∧
      b'.root = .nil ∧ b'.len = 0 ∧ b'.dtor = b.dtor ∧ b'.nextId = b.nextId
  | 0, b, it, A, evs, _, hat, hr, hf => by
    obtain ⟨_, _, hc⟩ := hat
    have := (hc hr).2
    cases A with
    | nil => exact absurd rfl this
    | cons a A' => simp at hf
  | fuel + 1, b, it, A, evs, hi, hat, hr, hf => by
    obtain ⟨a, A', rm, A'', rfl, e1, e2, e3, e4, hat', sp⟩ := itrRemove_spec hi.nodup hat hr
    have hi' : SetInv cmp (applyRm b rm).1 := hi.rm h sp
    have hn' : (applyRm b rm).1.root.ids.Nodup := hi'.nodup
    have hnx := itrNext_spec (b := (applyRm b rm).1) (it := { it with removed := true }) hn' hat'
    simp only [if_true] at hnx
    obtain ⟨oi, n1, n2, n3⟩ := hnx
    have hlen : A''.length = A'.length := by
      have := congrArg List.length e4; simpa using this
    by_cases hA : A'' = []
    · have hoi := n2 hA
      subst hoi
      have hA' : A' = [] := by
        cases A' with
        | nil => rfl
        | cons x xs => rw [hA] at hlen; simp at hlen
      subst hA'
      have hroot : rm.tree = .nil := root_nil_of_inorderN (by rw [e3, hA]; rfl)
      refine ⟨(applyRm b rm).1, ?_, hroot, ?_, rfl, rfl⟩
      · simp [clearLoop, e1, n1, dtorEv_eq]
      · have := hi'.len
        rw [this]; show rm.tree.size = 0; rw [hroot]; rfl
    · obtain ⟨it', rfl, hat2, hr2⟩ := n3 hA
      have hf' : A''.length ≤ fuel := by rw [hlen]; simp at hf; omega
      obtain ⟨b', c1, c2, c3, c4, c5⟩ := clearLoop_spec h fuel (applyRm b rm).1 it' A'' (evs ++ dtorEvs b.dtor [a.2]) hi' hat2 hr2 hf'
      refine ⟨b', ?_, c2, c3, c4, c5⟩
      simp only [clearLoop, e1, n1, Bool.false_eq_true, if_false, dtorEv_eq]
      rw [c1]
      simp only [(applyRm_fields b rm).1, e4, List.map_cons, List.append_assoc, ← dtorEvs_append, List.singleton_append]

/-- `m_bst_clear` -/
theorem bstClear_spec {cmp} (h : TotalOrderCmp cmp) {b : Bst} (hi : SetInv cmp b) :
    (b.len = 0 → bstClear b = (b, [], -EINVAL, false)) ∧
    (b.len ≠ 0 → bstClear b = ({ b with root := .nil, len := 0 }, dtorEvs b.dtor b.root.inorder, 0, false)) := by
  constructor
  · intro h0; simp [bstClear, h0]
  · intro h0
    obtain ⟨it, e, hat, hr⟩ := (itrNew_spec hi.len hi.nodup).2 h0
    have hf : b.root.inorderN.length ≤ b.len + 1 := by rw [inorderN_length, hi.len]; omega
    obtain ⟨b', c1, c2, c3, c4, c5⟩ := clearLoop_spec h (b.len + 1) b it b.root.inorderN [] hi hat hr hf
    simp only [bstClear, h0, if_false, e, Bool.false_eq_true, c1]
    simp only [List.nil_append, inorderN_map_snd]
    cases b' with
    | mk root len dtor nextId =>
      simp only at c2 c3 c4 c5
      subst c2 c3 c4 c5
      rfl

/-! ## The client loop: iterate, optionally removing the current element -/

/-- `for (; it; m_bst_itr_next(&it)) { x = m_bst_itr_get_data(it); visit(x); if (rmv x) m_bst_itr_remove(it); }`
Returns the set, the visited values, the output events and whether the C code would have faulted
(or the fuel ran out). -/
def iterLoop (rmv : Val → Bool) : Nat → Bst → Option Itr → List Val → List Ev → Bst × List Val × List Ev × Bool
  | _, b, none, vis, evs => (b, vis, evs, false)
  | 0, b, some _, vis, evs => (b, vis, evs, true)
  | fuel + 1, b, some it, vis, evs =>
    match itrGet b it with
    | some (some x) =>
      if rmv x then
        let r := itrRemove b it
        if r.fault then (r.set, vis ++ [x], evs ++ r.evs, true)
        else match r.itr with
          | none => (r.set, vis ++ [x], evs ++ r.evs, true)
          | some it' =>
            let n := itrNext r.set it'
            if n.fault then (n.set, vis ++ [x], evs ++ r.evs, true)
            else iterLoop rmv fuel n.set n.itr (vis ++ [x]) (evs ++ r.evs)
      else
        let n := itrNext b it
        if n.fault then (n.set, vis ++ [x], evs, true)
        else iterLoop rmv fuel n.set n.itr (vis ++ [x]) evs
    | _ => (b, vis, evs, true)

theorem iterLoop_spec {cmp} (h : TotalOrderCmp cmp) (rmv : Val → Bool) :
    ∀ (fuel : Nat) (b : Bst) (it : Itr) (B A : List (Nat × Val)) (vis : List Val) (evs : List Ev),
    SetInv cmp b → ItAt b.root it B A → it.removed = false → A.length ≤ fuel →
    ∃ b', iterLoop rmv fuel b (some it) vis evs =
        (b', vis ++ A.map Prod.snd, evs ++ dtorEvs b.dtor ((A.map Prod.snd).filter rmv), false) ∧
      b'.root.inorder = B.map Prod.snd ++ (A.map Prod.snd).filter (fun x => !rmv x) ∧ SetInv cmp b' ∧ b'.dtor = b.dtor
  | 0, b, it, B, A, vis, evs, _, hat, hr, hf => by
    obtain ⟨_, _, hc⟩ := hat
    have := (hc hr).2
    cases A with
    | nil => exact absurd rfl this
    | cons a A' => simp at hf
  | fuel + 1, b, it, B, A, vis, evs, hi, hat, hr, hf => by
    have hg := itrGet_spec hi.nodup hat
    have hne := (hat.2.2 hr).2
    cases A with
    | nil => exact absurd rfl hne
    | cons a A' =>
    simp only [hr, Bool.false_eq_true, if_false, List.head?_cons, Option.map_some] at hg
    by_cases hrm : rmv a.2 = true
    · obtain ⟨a0, A0, rm, A'', e0, e1, e2, e3, e4, hat', sp⟩ := itrRemove_spec hi.nodup hat hr
      cases e0
      have hi' : SetInv cmp (applyRm b rm).1 := hi.rm h sp
      have hnx := itrNext_spec (b := (applyRm b rm).1) (it := { it with removed := true }) hi'.nodup hat'
      simp only [if_true] at hnx
      obtain ⟨oi, n1, n2, n3⟩ := hnx
      have hlen : A''.length = A'.length := by
        have := congrArg List.length e4; simpa using this
      by_cases hA : A'' = []
      · have hoi := n2 hA
        subst hoi
        have hA' : A' = [] := by
          cases A' with
          | nil => rfl
          | cons x xs => rw [hA] at hlen; simp at hlen
        subst hA'
        refine ⟨(applyRm b rm).1, ?_, ?_, hi', rfl⟩
        · simp [iterLoop, hg, hrm, e1, n1, dtorEv_eq]
        · show rm.tree.inorder = _
          rw [← inorderN_map_snd, e3, hA]; simp [hrm]
      · obtain ⟨it', rfl, hat2, hr2⟩ := n3 hA
        have hf' : A''.length ≤ fuel := by rw [hlen]; simp at hf; omega
        obtain ⟨b', c1, c2, c3, c4⟩ := iterLoop_spec h rmv fuel (applyRm b rm).1 it' B A'' (vis ++ [a.2])
          (evs ++ dtorEvs b.dtor [a.2]) hi' hat2 hr2 hf'
        refine ⟨b', ?_, ?_, c3, c4⟩
        · simp only [iterLoop, hg, hrm, if_true, e1, n1, Bool.false_eq_true, if_false, dtorEv_eq]
          rw [c1]
          simp only [(applyRm_fields b rm).1, e4, List.map_cons, List.append_assoc, List.singleton_append,
            List.filter_cons, hrm, if_true, ← dtorEvs_append]
        · rw [c2, e4]; simp [hrm]
    · have hrm' : rmv a.2 = false := by cases hx : rmv a.2 <;> simp_all
      have hnx := itrNext_spec (b := b) (it := it) hi.nodup hat
      simp only [hr, Bool.false_eq_true, if_false, List.tail_cons, List.take_succ_cons, List.take_zero] at hnx
      obtain ⟨oi, n1, n2, n3⟩ := hnx
      by_cases hA : A' = []
      · have hoi := n2 hA
        subst hoi hA
        refine ⟨b, ?_, ?_, hi, rfl⟩
        · simp [iterLoop, hg, hrm', n1]
        · rw [← inorderN_map_snd, hat.1]; simp [hrm']
      · obtain ⟨it', rfl, hat2, hr2⟩ := n3 hA
        have hf' : A'.length ≤ fuel := by simp at hf; omega
        obtain ⟨b', c1, c2, c3, c4⟩ := iterLoop_spec h rmv fuel b it' (B ++ [a]) A' (vis ++ [a.2]) evs hi hat2 hr2 hf'
        refine ⟨b', ?_, ?_, c3, c4⟩
        · simp only [iterLoop, hg, hrm', Bool.false_eq_true, if_false, n1]
          rw [c1]
          simp [hrm']
        · rw [c2]; simp [hrm']

/-! ## Traversals -/

theorem travPre_zero : ∀ (t : Tree) (acc : List Val), travPre (fun _ => 0) t acc = (acc ++ t.preorder, 0)
  | .nil, acc => by simp [travPre, preorder]
  | .node _ l v r, acc => by
    simp [travPre, travPre_zero l, travPre_zero r, preorder]

theorem travPost_zero : ∀ (t : Tree) (acc : List Val), travPost (fun _ => 0) t acc = (acc ++ t.postorder, 0)
  | .nil, acc => by simp [travPost, postorder]
  | .node _ l v r, acc => by
    simp [travPost, travPost_zero l, travPost_zero r, postorder]

theorem travIn_zero : ∀ (t : Tree) (acc : List Val), travIn (fun _ => 0) t acc = (acc ++ t.inorder, 0)
  | .nil, acc => by simp [travIn, inorder]
  | .node _ l v r, acc => by
    simp [travIn, travIn_zero l, travIn_zero r, inorder]

/-- a callback that stops early has seen a prefix of the full sequence (all of it if the
traversal returned 0) -/
theorem travPre_prefix (cb : Nat → Int) : ∀ (t : Tree) (acc : List Val),
    ∃ p s, (travPre cb t acc).1 = acc ++ p ∧ t.preorder = p ++ s ∧ ((travPre cb t acc).2 = 0 → s = [])
  | .nil, acc => ⟨[], [], by simp [travPre], by simp [preorder], fun _ => rfl⟩
  | .node _ l v r, acc => by
    simp only [travPre, preorder]
    split
    · obtain ⟨p1, s1, e1, f1, g1⟩ := travPre_prefix cb l (acc ++ [v])
      split
      · rename_i h0
        obtain ⟨p2, s2, e2, f2, g2⟩ := travPre_prefix cb r (travPre cb l (acc ++ [v])).1
        have := g1 h0; subst this
        refine ⟨v :: (p1 ++ p2), s2, by rw [e2, e1]; simp, by rw [f1, f2]; simp, g2⟩
      · rename_i h0
        exact ⟨v :: p1, s1 ++ r.preorder, by rw [e1]; simp, by rw [f1]; simp, fun e => absurd e h0⟩
    · rename_i h0
      exact ⟨[v], l.preorder ++ r.preorder, by simp, by simp, fun e => absurd e h0⟩

theorem travIn_prefix (cb : Nat → Int) : ∀ (t : Tree) (acc : List Val),
    ∃ p s, (travIn cb t acc).1 = acc ++ p ∧ t.inorder = p ++ s ∧ ((travIn cb t acc).2 = 0 → s = [])
  | .nil, acc => ⟨[], [], by simp [travIn], by simp [inorder], fun _ => rfl⟩
  | .node _ l v r, acc => by
    simp only [travIn, inorder]
    obtain ⟨p1, s1, e1, f1, g1⟩ := travIn_prefix cb l acc
    split
    · rename_i h0
      have := g1 h0; subst this
      split
      · obtain ⟨p2, s2, e2, f2, g2⟩ := travIn_prefix cb r ((travIn cb l acc).1 ++ [v])
        refine ⟨p1 ++ v :: p2, s2, by rw [e2, e1]; simp, by rw [f1, f2]; simp, g2⟩
      · rename_i h1
        exact ⟨p1 ++ [v], r.inorder, by rw [e1]; simp, by rw [f1]; simp, fun e => absurd e h1⟩
    · rename_i h0
      exact ⟨p1, s1 ++ v :: r.inorder, e1, by rw [f1]; simp, fun e => absurd e h0⟩

theorem travPost_prefix (cb : Nat → Int) : ∀ (t : Tree) (acc : List Val),
    ∃ p s, (travPost cb t acc).1 = acc ++ p ∧ t.postorder = p ++ s ∧ ((travPost cb t acc).2 = 0 → s = [])
  | .nil, acc => ⟨[], [], by simp [travPost], by simp [postorder], fun _ => rfl⟩
  | .node _ l v r, acc => by
    simp only [travPost, postorder]
    obtain ⟨p1, s1, e1, f1, g1⟩ := travPost_prefix cb l acc
    split
    · rename_i h0
      have := g1 h0; subst this
      obtain ⟨p2, s2, e2, f2, g2⟩ := travPost_prefix cb r (travPost cb l acc).1
      split
      · rename_i h1
        have := g2 h1; subst this
        exact ⟨p1 ++ (p2 ++ [v]), [], by rw [e2, e1]; simp, by rw [f1, f2]; simp, fun _ => rfl⟩
      · rename_i h1
        exact ⟨p1 ++ p2, s2 ++ [v], by rw [e2, e1]; simp, by rw [f1, f2]; simp, fun e => absurd e h1⟩
    · rename_i h0
      exact ⟨p1, s1 ++ (r.postorder ++ [v]), e1, by rw [f1]; simp, fun e => absurd e h0⟩

/-! ## Scripts -/

/-- the elements of the set, ascending (empty for a NULL handle) -/
def content (s : St) : List Val :=
  match s.set with
  | some b => b.root.inorder
  | none => []

/-- values the destructor was called with, in call order -/
def dtorVals (evs : List Ev) : List Val := evs.filterMap (fun e => match e with | .dtor v => some v | _ => none)

/-- the element a line added to the set (a successful `ins`) -/
def insertedBy (op : Op) (evs : List Ev) : List Val :=
  match op with
  | .ins v => if evs = [.ret 0] then [v] else []
  | _ => []

@[simp] theorem dtorVals_append (a b : List Ev) : dtorVals (a ++ b) = dtorVals a ++ dtorVals b := by
  simp [dtorVals, List.filterMap_append]

theorem dtorVals_dtorEvs (d : Bool) (vs : List Val) : dtorVals (dtorEvs d vs) = if d then vs else [] := by
  cases d
  · simp [dtorEvs, dtorVals]
  · simp only [dtorEvs, if_true, dtorVals, List.filterMap_map]
    induction vs with
    | nil => rfl
    | cons x xs ih => simp [ih]

@[simp] theorem dtorVals_ret (c : Int) : dtorVals [.ret c] = [] := rfl
@[simp] theorem dtorVals_nil : dtorVals [] = [] := rfl

/-- the invariant of the script state: no fault so far, the set (if any) satisfies `SetInv`, the
iterator (if any) sits at a position of the current in-order sequence -/
structure StInv (cmp : Val → Val → Int) (s : St) : Prop where
  nofault : s.fault = false
  set : ∀ b, s.set = some b → SetInv cmp b
  itr : ∀ it, s.itr = some it → ∃ b B A, s.set = some b ∧ ItAt b.root it B A

theorem StInv.init (cmp) : StInv cmp {} := ⟨rfl, by simp, by simp⟩

theorem SetInv.cleared {cmp} {b : Bst} (_ : SetInv cmp b) : SetInv cmp { b with root := .nil, len := 0 } :=
  ⟨by simp [Ordered], rfl, by simp [ids], by simp [ids]⟩

theorem step_inv {cmp} (h : TotalOrderCmp cmp) {s : St} (hi : StInv cmp s) (op : Op) : StInv cmp (step cmp s op).1 := by
  cases op with
  | new d => exact ⟨hi.nofault, by intro b hb; simp [step] at hb; subst hb; exact SetInv.empty cmp d, by simp [step]⟩
  | ins v =>
    cases hs : s.set with
    | none => exact ⟨by simp [step, hs, hi.nofault], by simp [step, hs], by simp [step, hs]⟩
    | some b =>
      refine ⟨by simp [step, hs, hi.nofault], ?_, by simp [step, hs]⟩
      intro b' hb'
      simp [step, hs] at hb'; subst hb'
      exact bstInsert_inv h (hi.set b hs) v
  | rm v =>
    cases hs : s.set with
    | none => exact ⟨by simp [step, hs, hi.nofault], by simp [step, hs], by simp [step, hs]⟩
    | some b =>
      refine ⟨by simp [step, hs, hi.nofault], ?_, by simp [step, hs]⟩
      intro b' hb'
      simp [step, hs] at hb'; subst hb'
      exact bstRemove_inv h (hi.set b hs) v
  | find v => cases hs : s.set <;> simpa [step, hs] using hi
  | len => cases hs : s.set <;> simpa [step, hs] using hi
  | trav o st => cases hs : s.set <;> simpa [step, hs] using hi
  | clear =>
    cases hs : s.set with
    | none => exact ⟨by simp [step, hs, hi.nofault], by simp [step, hs], by simp [step, hs]⟩
    | some b =>
      have hb := hi.set b hs
      by_cases h0 : b.len = 0
      · have e := (bstClear_spec h hb).1 h0
        exact ⟨by simp [step, hs, e, hi.nofault], by intro b' hb'; simp [step, hs, e] at hb'; subst hb'; exact hb,
          by simp [step, hs, e]⟩
      · have e := (bstClear_spec h hb).2 h0
        exact ⟨by simp [step, hs, e, hi.nofault], by intro b' hb'; simp [step, hs, e] at hb'; subst hb'; exact hb.cleared,
          by simp [step, hs, e]⟩
  | free =>
    cases hs : s.set with
    | none => exact ⟨by simp [step, hs, hi.nofault], by simp [step, hs], by simp [step, hs]⟩
    | some b =>
      have hb := hi.set b hs
      by_cases h0 : b.len = 0
      · have e := (bstClear_spec h hb).1 h0
        exact ⟨by simp [step, hs, e, hi.nofault], by simp [step, hs, e], by simp [step, hs, e]⟩
      · have e := (bstClear_spec h hb).2 h0
        exact ⟨by simp [step, hs, e, hi.nofault], by simp [step, hs, e], by simp [step, hs, e]⟩
  | itNew =>
    cases hs : s.set with
    | none => exact ⟨by simp [step, hs, hi.nofault], by simp [step, hs], by simp [step, hs]⟩
    | some b =>
      have hb := hi.set b hs
      by_cases h0 : b.len = 0
      · have e := (itrNew_spec hb.len hb.nodup).1 h0
        exact ⟨by simp [step, hs, e, ofItRes, hi.nofault], by intro b' hb'; simp [step, hs, e, ofItRes] at hb'; subst hb'; exact hb,
          by simp [step, hs, e, ofItRes]⟩
      · obtain ⟨it, e, hat, _⟩ := (itrNew_spec hb.len hb.nodup).2 h0
        refine ⟨by simp [step, hs, e, ofItRes, hi.nofault], by intro b' hb'; simp [step, hs, e, ofItRes] at hb'; subst hb'; exact hb, ?_⟩
        intro it' hit'
        simp [step, hs, e, ofItRes] at hit'; subst hit'
        exact ⟨b, [], b.root.inorderN, by simp [step, hs, e, ofItRes], hat⟩
  | itNext =>
    cases hs : s.set with
    | none => simpa [step, hs] using hi
    | some b =>
      cases hit : s.itr with
      | none => simpa [step, hs, hit] using hi
      | some it =>
        have hb := hi.set b hs
        obtain ⟨b0, B, A, hb0, hat⟩ := hi.itr it hit
        rw [hs] at hb0; cases hb0
        obtain ⟨oi, e, n2, n3⟩ := itrNext_spec hb.nodup hat
        refine ⟨by simp [step, hs, hit, e, ofItRes, hi.nofault],
          by intro b' hb'; simp [step, hs, hit, e, ofItRes] at hb'; subst hb'; exact hb, ?_⟩
        intro it' hit'
        simp [step, hs, hit, e, ofItRes] at hit'
        subst hit'
        by_cases hA : (if it.removed then A else A.tail) = []
        · have := n2 hA; cases this
        · obtain ⟨it2, e2, hat2, _⟩ := n3 hA
          cases e2
          exact ⟨b, _, _, by simp [step, hs, hit, e, ofItRes], hat2⟩
  | itGet =>
    cases hs : s.set with
    | none => simpa [step, hs] using hi
    | some b =>
      cases hit : s.itr with
      | none => simpa [step, hs, hit] using hi
      | some it =>
        have hb := hi.set b hs
        obtain ⟨b0, B, A, hb0, hat⟩ := hi.itr it hit
        rw [hs] at hb0; cases hb0
        have e := itrGet_spec hb.nodup hat
        simpa [step, hs, hit, e] using hi
  | itRm =>
    cases hs : s.set with
    | none => simpa [step, hs] using hi
    | some b =>
      cases hit : s.itr with
      | none => simpa [step, hs, hit] using hi
      | some it =>
        have hb := hi.set b hs
        obtain ⟨b0, B, A, hb0, hat⟩ := hi.itr it hit
        rw [hs] at hb0; cases hb0
        cases hr : it.removed with
        | true =>
          have e := itrRemove_removed (b := b) hr
          refine ⟨by simp [step, hs, hit, e, ofItRes, hi.nofault],
            by intro b' hb'; simp [step, hs, hit, e, ofItRes] at hb'; subst hb'; exact hb, ?_⟩
          intro it' hit'
          simp [step, hs, hit, e, ofItRes] at hit'; subst hit'
          exact ⟨b, B, A, by simp [step, hs, hit, e, ofItRes], hat⟩
        | false =>
          obtain ⟨a, A', rm, A'', _, e, _, _, _, hat', sp⟩ := itrRemove_spec hb.nodup hat hr
          refine ⟨by simp [step, hs, hit, e, ofItRes, hi.nofault],
            by intro b' hb'; simp [step, hs, hit, e, ofItRes] at hb'; subst hb'; exact hb.rm h sp, ?_⟩
          intro it' hit'
          simp [step, hs, hit, e, ofItRes] at hit'; subst hit'
          exact ⟨(applyRm b rm).1, B, A'', by simp [step, hs, hit, e, ofItRes], hat'⟩

theorem final_inv {cmp} (h : TotalOrderCmp cmp) : ∀ (ops : List Op) {s : St}, StInv cmp s → StInv cmp (final cmp s ops)
  | [], _, hi => hi
  | o :: os, _, hi => final_inv h os (step_inv h hi o)

/-! ## Conservation: every element that leaves the set is destroyed exactly once -/

theorem ascending_nodup {cmp} (h : TotalOrderCmp cmp) {l : List Val} (ha : Ascending cmp l) : l.Nodup := by
  unfold Ascending at ha
  refine ha.imp ?_
  intro a b hlt e
  subst e
  have := h.refl a
  omega

/-- One script line (other than `new`, which abandons the old set): the elements of the set
afterwards plus the values the destructor received are the elements before plus the one inserted.
`d` is the destructor flag of the set (if there is one); without a destructor nothing is called. -/
theorem step_conservation {cmp} (h : TotalOrderCmp cmp) {s : St} (hi : StInv cmp s) (op : Op)
    (hop : ∀ d, op ≠ .new d) :
    let r := step cmp s op
    (∀ b, s.set = some b → b.dtor = false → dtorVals r.2 = []) ∧
    (∀ b, s.set = some b → b.dtor = true →
      (content r.1 ++ dtorVals r.2).Perm (content s ++ insertedBy op r.2)) ∧
    (s.set = none → r.1.set = none ∧ dtorVals r.2 = [] ∧ insertedBy op r.2 = []) ∧
    (∀ b b', s.set = some b → r.1.set = some b' → b'.dtor = b.dtor) := by
  cases op with
  | new d => exact absurd rfl (hop d)
  | ins v =>
    cases hs : s.set with
    | none => simp [step, hs, content, insertedBy, EINVAL]
    | some b =>
      have hb := hi.set b hs
      by_cases hv : v = 0
      · simp [step, hs, bstInsert, hv, content, insertedBy, EINVAL]
      · cases hins : insert cmp b.nextId v b.root with
        | none => simp [step, hs, bstInsert, hv, hins, content, insertedBy, EEXIST]
        | some t =>
          obtain ⟨A, B, e1, e2⟩ := insert_inorderN hins
          have c0 : b.root.inorder = A.map Prod.snd ++ B.map Prod.snd := by rw [← inorderN_map_snd, e1]; simp
          have c1 : t.inorder = A.map Prod.snd ++ v :: B.map Prod.snd := by rw [← inorderN_map_snd, e2]; simp
          simp only [step, hs, bstInsert, hv, if_false, hins, content, insertedBy, dtorVals_ret, List.append_nil,
            if_true, c0, c1]
          refine ⟨by simp, ?_, by simp, by simp⟩
          intro _ _ _
          exact List.perm_middle.trans (List.perm_append_comm (l₁ := [v]) |>.trans (by simp))
  | rm v =>
    cases hs : s.set with
    | none => simp [step, hs, content, insertedBy]
    | some b =>
      have hb := hi.set b hs
      by_cases h0 : b.len = 0
      · simp [step, hs, bstRemove, h0, content, insertedBy]
      · by_cases hv : v = 0
        · simp [step, hs, bstRemove, h0, hv, content, insertedBy]
        · cases hr : removeKey cmp v b.root with
          | none => simp [step, hs, bstRemove, h0, hv, hr, content, insertedBy]
          | some rm =>
            obtain ⟨_, _, sp⟩ := removeKey_spec hr
            obtain ⟨X, Y, v1, v2⟩ := sp.vals
            simp only [inorderN_map_snd] at v1 v2
            simp only [step, hs, bstRemove, h0, if_false, hv, hr, applyRm, content, insertedBy, dtorVals_append,
              dtorVals_ret, List.append_nil, dtorEv_eq, dtorVals_dtorEvs, v1, v2]
            refine ⟨by intro _ e hd; cases e; simp [hd], ?_, by simp, by simp⟩
            intro _ e hd; cases e
            simp only [hd, if_true]
            exact (List.perm_middle (a := rm.dval) (l₁ := X) (l₂ := Y)).symm.trans (by simp) |> fun p =>
              (List.perm_append_comm (l₁ := X ++ Y) (l₂ := [rm.dval])).trans (by simpa using p)
  | find v => cases hs : s.set <;> simp [step, hs, content, insertedBy, dtorVals]
  | len => cases hs : s.set <;> simp [step, hs, content, insertedBy, dtorVals]
  | trav o st => cases hs : s.set <;> simp [step, hs, content, insertedBy, dtorVals]
  | clear =>
    cases hs : s.set with
    | none => simp [step, hs, content, insertedBy]
    | some b =>
      have hb := hi.set b hs
      by_cases h0 : b.len = 0
      · have e := (bstClear_spec h hb).1 h0
        simp [step, hs, e, content, insertedBy]
      · have e := (bstClear_spec h hb).2 h0
        simp only [step, hs, e, content, insertedBy, dtorVals_append, dtorVals_ret, List.append_nil, dtorVals_dtorEvs, inorder]
        refine ⟨by intro _ e hd; cases e; simp [hd], ?_, by simp, by simp⟩
        intro _ e hd; cases e
        simp [hd]
  | free =>
    cases hs : s.set with
    | none => simp [step, hs, content, insertedBy, dtorVals]
    | some b =>
      have hb := hi.set b hs
      by_cases h0 : b.len = 0
      · have e := (bstClear_spec h hb).1 h0
        have hroot : b.root.inorder = [] := by
          have := inorder_length b.root; rw [← hb.len, h0] at this; exact List.length_eq_zero_iff.mp this
        simp [step, hs, e, content, insertedBy, dtorVals, hroot]
      · have e := (bstClear_spec h hb).2 h0
        simp only [step, hs, e, content, insertedBy, dtorVals_append, List.append_nil, dtorVals_dtorEvs]
        refine ⟨by intro _ e hd; cases e; simp [hd, dtorVals], ?_, by simp, by simp⟩
        intro _ e hd; cases e
        simp [hd, dtorVals]
  | itNew =>
    cases hs : s.set with
    | none => simp [step, hs, content, insertedBy, dtorVals]
    | some b =>
      have hb := hi.set b hs
      by_cases h0 : b.len = 0
      · have e := (itrNew_spec hb.len hb.nodup).1 h0
        simp [step, hs, e, ofItRes, content, insertedBy, dtorVals]
      · obtain ⟨it, e, _, _⟩ := (itrNew_spec hb.len hb.nodup).2 h0
        simp [step, hs, e, ofItRes, content, insertedBy, dtorVals]
  | itNext =>
    cases hs : s.set with
    | none => simp [step, hs, content, insertedBy, dtorVals]
    | some b =>
      cases hit : s.itr with
      | none => simp [step, hs, hit, content, insertedBy, dtorVals]
      | some it =>
        have hb := hi.set b hs
        obtain ⟨b0, B, A, hb0, hat⟩ := hi.itr it hit
        rw [hs] at hb0; cases hb0
        obtain ⟨oi, e, _, _⟩ := itrNext_spec hb.nodup hat
        simp [step, hs, hit, e, ofItRes, content, insertedBy, dtorVals]
  | itGet =>
    cases hs : s.set with
    | none => simp [step, hs, content, insertedBy, dtorVals]
    | some b =>
      cases hit : s.itr with
      | none => simp [step, hs, hit, content, insertedBy, dtorVals]
      | some it =>
        have hb := hi.set b hs
        obtain ⟨b0, B, A, hb0, hat⟩ := hi.itr it hit
        rw [hs] at hb0; cases hb0
        have e := itrGet_spec hb.nodup hat
        simp [step, hs, hit, e, content, insertedBy, dtorVals]
  | itRm =>
    cases hs : s.set with
    | none => simp [step, hs, content, insertedBy, dtorVals]
    | some b =>
      cases hit : s.itr with
      | none => simp [step, hs, hit, content, insertedBy, dtorVals]
      | some it =>
        have hb := hi.set b hs
        obtain ⟨b0, B, A, hb0, hat⟩ := hi.itr it hit
        rw [hs] at hb0; cases hb0
        cases hr : it.removed with
        | true =>
          have e := itrRemove_removed (b := b) hr
          simp [step, hs, hit, e, ofItRes, content, insertedBy, dtorVals]
        | false =>
          obtain ⟨a, A', rm, A'', _, e, e2, _, _, _, sp⟩ := itrRemove_spec hb.nodup hat hr
          obtain ⟨X, Y, v1, v2⟩ := sp.vals
          simp only [inorderN_map_snd] at v1 v2
          simp only [step, hs, hit, e, ofItRes, applyRm, content, insertedBy, dtorVals_append,
            dtorVals_ret, List.append_nil, dtorEv_eq, dtorVals_dtorEvs, v1, v2]
          refine ⟨by intro _ e hd; cases e; simp [hd], ?_, by simp, by simp⟩
          intro _ e hd; cases e
          simp only [hd, if_true]
          exact (List.perm_append_comm (l₁ := X ++ Y) (l₂ := [a.2])).trans
            (by simpa using (List.perm_middle (a := a.2) (l₁ := X) (l₂ := Y)).symm)

/-- all destructor calls / all successful insertions of a script, in order -/
def allDtors (tr : List (Op × List Ev)) : List Val := tr.flatMap (fun p => dtorVals p.2)
def allInserted (tr : List (Op × List Ev)) : List Val := tr.flatMap (fun p => insertedBy p.1 p.2)

theorem trace_conservation {cmp} (h : TotalOrderCmp cmp) : ∀ (ops : List Op) (s : St), StInv cmp s →
    (∀ d, Op.new d ∉ ops) → (∀ b, s.set = some b → b.dtor = true) →
    (content (final cmp s ops) ++ allDtors (trace cmp s ops)).Perm (content s ++ allInserted (trace cmp s ops))
  | [], s, _, _, _ => by simp [final, trace, allDtors, allInserted]
  | o :: os, s, hi, hnew, hd => by
    have hop : ∀ d, o ≠ .new d := fun d e => hnew d (by simp [e])
    obtain ⟨_, c2, c3, c4⟩ := step_conservation h hi o hop
    have hi1 := step_inv h hi o
    have hd1 : ∀ b, (step cmp s o).1.set = some b → b.dtor = true := by
      intro b' hb'
      cases hs : s.set with
      | none => rw [(c3 hs).1] at hb'; cases hb'
      | some b => rw [c4 b b' hs hb']; exact hd b hs
    have ih := trace_conservation h os (step cmp s o).1 hi1 (fun d hm => hnew d (by simp [hm])) hd1
    have hstep : (content (step cmp s o).1 ++ dtorVals (step cmp s o).2).Perm (content s ++ insertedBy o (step cmp s o).2) := by
      cases hs : s.set with
      | none =>
        obtain ⟨e1, e2, e3⟩ := c3 hs
        simp [content, e1, e2, e3, hs]
      | some b => exact c2 b hs (hd b hs)
    simp only [final, List.foldl_cons, trace, allDtors, allInserted, List.flatMap_cons] at ih ⊢
    rw [List.perm_iff_count] at ih hstep ⊢
    intro a
    have i1 := ih a
    have i2 := hstep a
    simp only [List.count_append] at i1 i2 ⊢
    omega

theorem trace_no_dtor {cmp} (h : TotalOrderCmp cmp) : ∀ (ops : List Op) (s : St), StInv cmp s →
    (∀ d, Op.new d ∉ ops) → (∀ b, s.set = some b → b.dtor = false) → allDtors (trace cmp s ops) = []
  | [], s, _, _, _ => by simp [trace, allDtors]
  | o :: os, s, hi, hnew, hd => by
    have hop : ∀ d, o ≠ .new d := fun d e => hnew d (by simp [e])
    obtain ⟨c1, _, c3, c4⟩ := step_conservation h hi o hop
    have hi1 := step_inv h hi o
    have hd1 : ∀ b, (step cmp s o).1.set = some b → b.dtor = false := by
      intro b' hb'
      cases hs : s.set with
      | none => rw [(c3 hs).1] at hb'; cases hb'
      | some b => rw [c4 b b' hs hb']; exact hd b hs
    have ih := trace_no_dtor h os (step cmp s o).1 hi1 (fun d hm => hnew d (by simp [hm])) hd1
    have h0 : dtorVals (step cmp s o).2 = [] := by
      cases hs : s.set with
      | none => exact (c3 hs).2.1
      | some b => exact c1 b hs (hd b hs)
    simp only [trace, allDtors, List.flatMap_cons] at ih ⊢
    rw [h0, ih]; rfl

/-! ## pre-order + in-order determine the tree (so post-order is determined too) -/

theorem vals_split_unique {v : Val} : ∀ {X X2 Y Y2 : List Val}, (X ++ v :: Y).Nodup → X ++ v :: Y = X2 ++ v :: Y2 →
    X = X2 ∧ Y = Y2
  | [], [], _, _, _, e => by simp at e; exact ⟨rfl, e⟩
  | [], x :: X2, Y, Y2, hn, e => by
    simp at e; obtain ⟨rfl, rfl⟩ := e; simp at hn
  | x :: X, [], Y, Y2, hn, e => by
    simp at e; obtain ⟨rfl, rfl⟩ := e; simp at hn
  | x :: X, x2 :: X2, Y, Y2, hn, e => by
    simp only [List.cons_append, List.cons.injEq] at e
    obtain ⟨rfl, e⟩ := e
    simp only [List.cons_append, List.nodup_cons] at hn
    obtain ⟨rfl, h2⟩ := vals_split_unique hn.2 e
    exact ⟨rfl, h2⟩

@[simp] theorem preorder_length : ∀ t : Tree, t.preorder.length = t.size
  | .nil => rfl
  | .node _ l _ r => by simp [preorder, size, preorder_length l, preorder_length r]; omega

theorem postorder_determined : ∀ (t1 t2 : Tree), t1.inorder.Nodup → t1.preorder = t2.preorder → t1.inorder = t2.inorder →
    t1.postorder = t2.postorder
  | .nil, t2, _, hp, _ => by
    cases t2 with
    | nil => rfl
    | node => simp [preorder] at hp
  | .node _ l1 v r1, t2, hn, hp, hin => by
    cases t2 with
    | nil => simp [preorder] at hp
    | node _ l2 v2 r2 =>
      simp only [preorder, List.cons.injEq] at hp
      obtain ⟨rfl, hp⟩ := hp
      simp only [inorder] at hin hn
      obtain ⟨el, er⟩ := vals_split_unique hn hin
      have hl : l1.preorder.length = l2.preorder.length := by
        rw [preorder_length, preorder_length, ← inorder_length, ← inorder_length, el]
      obtain ⟨pl, pr⟩ := List.append_inj hp hl
      have nl : l1.inorder.Nodup := (List.nodup_append.mp hn).1
      have nr : r1.inorder.Nodup := (List.nodup_cons.mp (List.nodup_append.mp hn).2.1).2
      simp only [postorder]
      rw [postorder_determined l1 l2 nl pl el, postorder_determined r1 r2 nr pr er]

end Lm.Struct.Bst
