import Lm.Inv.ThpoolInv
/-! Preservation of the invariants about the shutdown sequence: alive counter, join loop, teardown. -/
namespace Lm.Thpool
variable {s s' : State} {l : Label}
set_option linter.unusedSimpArgs false
set_option linter.unusedVariables false

theorem countP_upd (p : Pc → Bool) (pc : Tid → Pc) (t : Tid) (q : Pc) (ls : List Tid) (hn : ls.Nodup) :
    ls.countP (fun u => p (upd pc t q u)) + (if t ∈ ls ∧ p (pc t) = true then 1 else 0)
      = ls.countP (fun u => p (pc u)) + (if t ∈ ls ∧ p q = true then 1 else 0) := by
  induction ls with
  | nil => simp
  | cons a as ih =>
    have hn' := (List.nodup_cons.mp hn)
    have := ih hn'.2
    simp only [upd_apply] at this ⊢
    by_cases hat : a = t
    · subst hat
      have hnot : a ∉ as := hn'.1
      simp only [hnot, false_and, if_false, Nat.add_zero] at this
      simp [List.countP_cons, this]
      cases p (pc a) <;> cases p q <;> simp <;> omega
    · have hta : ¬ t = a := fun e => hat e.symm
      simp [List.countP_cons, hat, hta]
      by_cases hm : t ∈ as <;> simp [hm] at this ⊢ <;> omega

theorem beforeDec_of (p : Pc) (h1 : isW p = true) (h2 : exiting p = false) : beforeDec p = true := by
  cases p <;> simp_all

theorem isW_not_isM (p : Pc) (h : isW p = true) : isM p = false := by
  cases p <;> simp_all

theorem beforeDec_isW (p : Pc) (h1 : beforeDec p = true) : isW p = true := by
  cases p <;> simp_all


theorem countP_upd' (p : Pc → Bool) (pc : Tid → Pc) (t : Tid) (q : Pc) (ls : List Tid) (hn : ls.Nodup) :
    ls.countP (fun u => p (upd pc t q u))
      = ls.countP (fun u => p (pc u)) + (if t ∈ ls ∧ p q = true then 1 else 0) - (if t ∈ ls ∧ p (pc t) = true then 1 else 0) := by
  have := countP_upd p pc t q ls hn
  omega

theorem countP_mem_pos (p : Pc → Bool) (pc : Tid → Pc) (t : Tid) (ls : List Tid) (h1 : t ∈ ls) (h2 : p (pc t) = true) :
    0 < ls.countP (fun u => p (pc u)) :=
  List.countP_pos_iff.mpr ⟨t, h1, h2⟩

/-- a worker that leaves the loop is in `pool->threads` -/
theorem exiting_mem_threads (hi : Inv s) (u : Tid) (hu : exiting (s.pc u) = true) (hph : ph (s.pc 0) ≤ 13) : u ∈ s.threads := by
  have hw : u ∈ s.workers := (hi.workersIff u).mpr (by revert hu; cases s.pc u <;> simp)
  have hs := hi.exitShut u hu
  cases hp : s.pendBy with
  | none => exact hi.pendNone hp hph u hw
  | some c =>
    exfalso
    rcases (hi.pendPc c).mp hp with hc | hc | hc
    · have := hi.liveHandle c (by simp [hc])
      exact hs (hi.shutNo (by simp [this]))
    · exact hs (hi.pastChkNo c (by simp [hc]))
    · by_cases c0 : c = 0
      · subst c0; exact hs (hi.shutNo (by simp [hc]))
      · have := hi.othersNotM c c0; simp [hc] at this

/-- the thread that was created but is not yet in `pool->threads` has not left the worker loop -/
theorem pending_beforeDec (hi : Inv s) (c : Tid) (hc : s.pc c = .sInsert ∨ s.pc c = .nInsert ∨ s.pc c = .mNewInsert) :
    beforeDec (s.pc (s.newTh c)) = true ∧ s.newTh c ∉ s.threads := by
  have hp := (hi.pendPc c).mpr hc
  have h3 := hi.pendSome c hp
  refine ⟨beforeDec_of _ ((hi.workersIff _).mp h3.2.2) ?_, h3.2.1⟩
  cases he : exiting (s.pc (s.newTh c)) with
  | false => rfl
  | true =>
    exfalso
    have hs := hi.exitShut _ he
    rcases hc with hc | hc | hc
    · have := hi.liveHandle c (by simp [hc])
      exact hs (hi.shutNo (by simp [this]))
    · exact hs (hi.pastChkNo c (by simp [hc]))
    · by_cases c0 : c = 0
      · subst c0; exact hs (hi.shutNo (by simp [hc]))
      · have := hi.othersNotM c c0; simp [hc] at this

theorem none_not_thread (hi : Inv s) (j : Tid) (hj : s.pc j = .none) : j ∉ s.threads := by
  intro hm
  have := (hi.workersIff j).mp (hi.thrSub j hm)
  simp [hj] at this

set_option maxHeartbeats 1000000 in
theorem aliveCnt_step (hi : Inv s) (h : step s l = some s') :
    ph (s'.pc 0) ≤ 13 → s'.alive = s'.threads.countP (fun u => beforeDec (s'.pc u)) := by
  have h1 := hi.aliveCnt
  have hn := hi.threadsNodup
  have h4 := hi.othersNotM l.tid
  have h5 := hi.mainIsM
  have h6 := exiting_mem_threads hi l.tid
  have h7 := countP_mem_pos beforeDec s.pc l.tid s.threads
  have h8 := none_not_thread hi
  have h9 := pending_beforeDec hi l.tid
  have h10 : (s.pc l.tid = .sInsert ∨ s.pc l.tid = .nInsert ∨ s.pc l.tid = .mNewInsert) → s.newTh l.tid ≠ l.tid :=
    fun hc => hi.pendSelf l.tid ((hi.pendPc l.tid).mpr hc)
  have hA := ph_of_pastChk hi l.tid
  have hB := ph_of_inTask hi l.tid
  step_cases h
  all_goals (
    simp only [State.goto, List.countP_cons, countP_upd' _ _ _ _ _ hn]
    by_cases h0 : l.tid = 0
    · simp_all [upd_apply, zero_eq] <;> fin
    · simp_all [upd_apply, zero_eq] <;> fin)


/-- once `shutdown` is set, every worker is in `pool->threads` -/
theorem worker_mem_threads (hi : Inv s) (hph : 5 ≤ ph (s.pc 0)) (hph2 : ph (s.pc 0) ≤ 13) (u : Tid) (hu : isW (s.pc u) = true) :
    u ∈ s.threads := by
  have hw := (hi.workersIff u).mpr hu
  cases hp : s.pendBy with
  | none => exact hi.pendNone hp hph2 u hw
  | some c =>
    exfalso
    rcases (hi.pendPc c).mp hp with hc | hc | hc
    · have := hi.liveHandle c (by simp [hc]); simp [this] at hph
    · have := ph_of_pastChk hi c (by simp [hc]); omega
    · by_cases c0 : c = 0
      · subst c0; simp [hc] at hph
      · have := hi.othersNotM c c0; simp [hc] at this

theorem join_all_done (hi : Inv s) (h0 : s.pc 0 = .fJoin) (hj : s.joinRest = []) (u : Tid) (hu : isW (s.pc u) = true) :
    s.pc u = .wDone := by
  have hm := worker_mem_threads hi (by simp [h0]) (by simp [h0]) u hu
  have := hi.joinCover h0 u hm
  simpa [hj] using this

theorem gone_of (p : Pc) (h1 : isW p = true) (h2 : beforeDec p = false) (h3 : holds p = false) : gone p = true := by
  cases p <;> simp_all

theorem alive_zero_gone (hi : Inv s) (h0 : s.pc 0 = .fAliveChk) (ha : s.alive = 0) (u : Tid) (hu : isW (s.pc u) = true) :
    gone (s.pc u) = true := by
  have hm := worker_mem_threads hi (by simp [h0]) (by simp [h0]) u hu
  have hc := hi.aliveCnt (by simp [h0])
  rw [ha] at hc
  have hz := List.countP_eq_zero.mp hc.symm u hm
  have hl := hi.mutex 0 (by simp [h0])
  have hh : holds (s.pc u) = false := by
    cases hh : holds (s.pc u) with
    | false => rfl
    | true =>
      have := hi.mutex u hh
      rw [hl] at this
      cases this
      simp [h0] at hu
  exact gone_of _ hu (by simpa using hz) hh

set_option maxHeartbeats 1000000 in
theorem joinCover_step (hi : Inv s) (h : step s l = some s') :
    s'.pc 0 = .fJoin → ∀ u, u ∈ s'.threads → u ∈ s'.joinRest ∨ s'.pc u = .wDone := by
  intro hp u hu
  have h1 : s.pc 0 = .fJoin → u ∈ s.threads → u ∉ s.joinRest → s.pc u = .wDone := fun a b c => (hi.joinCover a u b).resolve_left c
  have h2 := hi.liveHandle l.tid
  have h4 := hi.othersNotM l.tid
  have h5 := hi.mainIsM
  have h6 : u ∈ s.threads → u ≠ 0 := fun hm e => by
    have a := (hi.workersIff u).mp (hi.thrSub u hm); rw [e] at a
    have b := isW_not_isM _ a; rw [hi.mainIsM] at b; cases b
  have hA := ph_of_pastChk hi l.tid
  have hB := ph_of_inTask hi l.tid
  step_cases h
  all_goals (
    by_cases h0 : l.tid = 0 <;> by_cases ht : u = l.tid <;>
    (try simp only [State.goto, upd_apply, zero_eq, h0, ht, if_true, if_false, reduceCtorEq] at hp hu ⊢) <;>
    simp_all [State.goto, upd_apply, zero_eq] <;> fin)

set_option maxHeartbeats 1000000 in
theorem joinSub_step (hi : Inv s) (h : step s l = some s') :
    s'.pc 0 = .fJoin → ∀ u, u ∈ s'.joinRest → u ∈ s'.threads := by
  intro hp u hu
  have h1 := fun hp => hi.joinSub hp u
  have h2 := hi.liveHandle l.tid
  have h4 := hi.othersNotM l.tid
  have h5 := hi.mainIsM
  have hA := ph_of_pastChk hi l.tid
  have hB := ph_of_inTask hi l.tid
  step_cases h
  all_goals (
    by_cases h0 : l.tid = 0
    · simp_all [State.goto, upd_apply, zero_eq] <;> fin
    · simp_all [State.goto, upd_apply, zero_eq] <;> fin)

end Lm.Thpool
