import Lm.Inv.ThpoolInv
/-! Preservation of the invariants about worker threads and `pool->threads`. -/
namespace Lm.Thpool
variable {s s' : State} {l : Label}
set_option linter.unusedSimpArgs false
set_option linter.unusedVariables false

set_option maxHeartbeats 1000000 in
theorem workersIff_step (hi : Inv s) (h : step s l = some s') : ∀ u, u ∈ s'.workers ↔ isW (s'.pc u) = true := by
  intro u
  have h1 := hi.workersIff u
  have h2 := hi.workersIff l.tid
  step_cases h
  all_goals (
    by_cases ht : u = l.tid
    · subst ht; simp_all [State.goto, upd_apply, zero_eq] <;> fin
    · simp_all [State.goto, upd_apply, zero_eq] <;> fin)

set_option maxHeartbeats 1000000 in
theorem workersNodup_step (hi : Inv s) (h : step s l = some s') : s'.workers.Nodup := by
  have h1 := hi.workersNodup
  have h2 := fun j => hi.workersIff j
  step_cases h
  all_goals (first | exact h1 | (simp_all [State.goto] <;> fin))

/-- nobody else is between `pthread_create` and `m_list_insert` when a thread is about to create one -/
theorem pend_none_of_create (hi : Inv s) (ht : s.pc l.tid = .sCreate ∨ s.pc l.tid = .nCreate ∨ s.pc l.tid = .mNewCreate) :
    s.pendBy = none := by
  cases hp : s.pendBy with
  | none => rfl
  | some c =>
    exfalso
    have hc := (hi.pendPc c).mp hp
    have hm := hi.mutex
    have hl := hi.liveHandle
    have ho := hi.othersNotM
    have h0 := hi.mainIsM
    have hq := hi.newQuiet
    -- thread 0 is the only one in `m_thpool_new`
    have zero_of_M : ∀ u, isM (s.pc u) = true → u = 0 := fun u hu => Decidable.byContradiction fun u0 => by
      have := ho u u0; rw [hu] at this; cases this
    -- two threads that both hold the mutex are the same thread
    have same : ∀ u v, holds (s.pc u) = true → holds (s.pc v) = true → u = v := fun u v hu hv => by
      have a := hm u hu; have b := hm v hv; rw [a] at b; cases b; rfl
    rcases ht with ht | ht | ht <;> rcases hc with hc | hc | hc
    · have := same c l.tid (by simp [hc]) (by simp [ht]); subst this; simp [hc] at ht
    · have := same c l.tid (by simp [hc]) (by simp [ht]); subst this; simp [hc] at ht
    · have c0 := zero_of_M c (by simp [hc]); subst c0
      have := hl l.tid (by simp [ht]); simp [this] at hc
    · have := same c l.tid (by simp [hc]) (by simp [ht]); subst this; simp [hc] at ht
    · have := same c l.tid (by simp [hc]) (by simp [ht]); subst this; simp [hc] at ht
    · have c0 := zero_of_M c (by simp [hc]); subst c0
      have := (hq (by simp [hc])).2 l.tid; simp [ht] at this
    · have t0 := zero_of_M l.tid (by simp [ht])
      have := hl c (by simp [hc]); rw [t0] at ht; simp [this] at ht
    · have t0 := zero_of_M l.tid (by simp [ht])
      have := (hq (by rw [← t0, ht]; simp)).2 c; simp [hc] at this
    · have t0 := zero_of_M l.tid (by simp [ht]); have c0 := zero_of_M c (by simp [hc])
      rw [t0] at ht; rw [c0] at hc; simp [hc] at ht


set_option maxHeartbeats 1000000 in
theorem threadsNodup_step (hi : Inv s) (h : step s l = some s') : s'.threads.Nodup := by
  have h1 := hi.threadsNodup
  have h2 := hi.pendPc l.tid
  have h3 := hi.pendSome l.tid
  step_cases h
  all_goals (first | exact h1 | (simp_all [State.goto] <;> fin))

set_option maxHeartbeats 1000000 in
theorem thrSub_step (hi : Inv s) (h : step s l = some s') : ∀ u, u ∈ s'.threads → u ∈ s'.workers := by
  have h1 := hi.thrSub
  have h2 := hi.pendPc l.tid
  have h3 := hi.pendSome l.tid
  step_cases h
  all_goals (first | exact h1 | (simp_all [State.goto] <;> fin))

set_option maxHeartbeats 1000000 in
theorem pendPc_step (hi : Inv s) (h : step s l = some s') :
    ∀ c, s'.pendBy = some c ↔ (s'.pc c = .sInsert ∨ s'.pc c = .nInsert ∨ s'.pc c = .mNewInsert) := by
  intro c
  have h1 := hi.pendPc c
  have h2 := hi.pendPc l.tid
  have h3 := pend_none_of_create (l := l) hi
  step_cases h
  all_goals (
    by_cases ht : c = l.tid
    · subst ht; simp_all [State.goto, upd_apply, zero_eq] <;> fin
    · simp_all [State.goto, upd_apply, zero_eq] <;> fin)


set_option maxHeartbeats 1000000 in
theorem pendSelf_step (hi : Inv s) (h : step s l = some s') : ∀ c, s'.pendBy = some c → s'.newTh c ≠ c := by
  intro c
  have h1 := hi.pendSelf c
  have h2 := hi.pendPc c
  have h3 := pend_none_of_create (l := l) hi
  step_cases h
  all_goals (
    by_cases ht : c = l.tid
    · subst ht; simp_all [State.goto, upd_apply, zero_eq] <;> fin
    · simp_all [State.goto, upd_apply, zero_eq] <;> fin)

set_option maxHeartbeats 1000000 in
theorem pendNone_step (hi : Inv s) (h : step s l = some s') :
    s'.pendBy = none → ph (s'.pc 0) ≤ 13 → ∀ u, u ∈ s'.workers → u ∈ s'.threads := by
  have h1 := hi.pendNone
  have h2 := hi.pendPc l.tid
  have h3 := hi.pendSome l.tid
  have h4 := hi.othersNotM l.tid
  have h5 := hi.mainIsM
  step_cases h
  all_goals (
    by_cases h0 : l.tid = 0
    · simp_all [State.goto, upd_apply, zero_eq] <;> fin
    · simp_all [State.goto, upd_apply, zero_eq] <;> fin)


set_option maxHeartbeats 1000000 in
theorem pendSome_step (hi : Inv s) (h : step s l = some s') :
    ∀ c, s'.pendBy = some c → (∀ u, u ∈ s'.workers → (u = s'.newTh c ∨ u ∈ s'.threads)) ∧ s'.newTh c ∉ s'.threads
                                       ∧ s'.newTh c ∈ s'.workers := by
  intro c
  have h1 := hi.pendSome c
  have h2 := hi.pendPc c
  have h3 := pend_none_of_create (l := l) hi
  have h4 := hi.pendNone
  have h5 := hi.liveHandle c
  have h6 := hi.othersNotM c
  have h7 := hi.thrSub
  have h8 := hi.workersIff
  have h9 := hi.mainIsM
  have h10 := hi.othersNotM l.tid
  have h11 : s.pc c = .mNewInsert → c = 0 := fun e => Decidable.byContradiction fun c0 => by have := h6 c0; simp [e] at this
  -- past the shutdown check (lock held) the pool is not shutting down, so thread 0 has not got beyond `fSetShut`
  have h12 : pastChk (s.pc l.tid) = true → ph (s.pc 0) ≤ 4 := fun hp => by
    have a := hi.pastChkNo l.tid hp
    have b := hi.shutSet
    cases hm : s.mode <;> (apply Nat.le_of_not_lt; intro hlt; have := b (by omega); simp [hm, a] at this)
  -- once the workers are gone nobody is between create and insert
  have h13 : 10 ≤ ph (s.pc 0) → s.pc c ≠ .nInsert := fun hp e => by
    have := hi.goneAll (Or.inl hp) c (by simp [e]); simp [e] at this
  step_cases h
  all_goals (
    by_cases ht : c = l.tid
    · subst ht; simp_all [State.goto, upd_apply, zero_eq] <;> fin
    · simp_all [State.goto, upd_apply, zero_eq] <;> fin)

end Lm.Thpool
