import Lm.Inv.Map
/-!
# Map-level specifications of the operations (property C05)

`WF` is preserved by every operation and each operation acts on the set of entries `Has m.cells`
exactly like the corresponding dictionary operation.
-/
set_option linter.unusedSectionVars false
namespace Lm.Struct.Map
variable {κ : Type} [DecidableEq κ]

/-- the flags and the destructor never change -/
structure SameFlags (m m' : Map κ) : Prop where
  dup : m'.dup = m.dup
  autofree : m'.autofree = m.autofree
  update : m'.update = m.update
  dtor : m'.dtor = m.dtor

theorem SameFlags.refl (m : Map κ) : SameFlags m m := ⟨rfl, rfl, rfl, rfl⟩
theorem SameFlags.trans {a b c : Map κ} (h1 : SameFlags a b) (h2 : SameFlags b c) : SameFlags a c :=
  ⟨h2.dup.trans h1.dup, h2.autofree.trans h1.autofree, h2.update.trans h1.update, h2.dtor.trans h1.dtor⟩

/-- same entries, same `length` -/
def Unchanged (m m' : Map κ) : Prop := (∀ e, Has m'.cells e ↔ Has m.cells e) ∧ m'.length = m.length

/-- afterwards exactly `(k, v)` plus the entries with other keys -/
def PutOk (m m' : Map κ) (k : κ) (v : Nat) : Prop :=
  ∀ e, Has m'.cells e ↔ e = (k, v) ∨ (Has m.cells e ∧ e.1 ≠ k)

/-! ## the empty table -/

theorem slot_replicate (N j : Nat) : slot (List.replicate N (none : Cell κ)) j = none := by
  unfold slot
  cases h : (List.replicate N (none : Cell κ))[j % (List.replicate N (none : Cell κ)).length]? with
  | none => rfl
  | some x =>
    have := List.mem_of_getElem? h
    rw [List.mem_replicate] at this
    rw [this.2]; rfl

theorem TWF_replicate (P : Params κ) (N : Nat) : TWF P (List.replicate N (none : Cell κ)) := by
  constructor
  · intro j k v _ hs; rw [slot_replicate] at hs; cases hs
  · intro a b k v w _ _ hs; rw [slot_replicate] at hs; cases hs

theorem occ_replicate (N : Nat) : occ (List.replicate N (none : Cell κ)) = 0 := by
  induction N with
  | zero => rfl
  | succ N ih => rw [List.replicate_succ, occ_cons, ih]; rfl

theorem not_has_replicate (N : Nat) (e : κ × Nat) : ¬ Has (List.replicate N (none : Cell κ)) e := by
  rintro ⟨j, _, hs⟩; rw [slot_replicate] at hs; cases hs

theorem pow2_double {n : Nat} (h : Pow2 n) : Pow2 (2 * n) := by
  obtain ⟨k, hk⟩ := h
  exact ⟨k + 1, by rw [hk, Nat.pow_succ]; omega⟩

theorem WF_new (P : Params κ) (hP : P.Good) (a b c d : Bool) : WF P (new P a b c d) := by
  constructor
  · exact ⟨by simpa [new, Map.size] using hP.default_pow2, by simp [new, Map.size], by simpa [new, Map.size] using hP.default_le⟩
  · exact TWF_replicate P _
  · simp [new, occ_replicate]
  · have := hP.default_ge; simp [new, Map.size]; omega

/-! ## `hashmap_rehash` -/

theorem rehash_spec (P : Params κ) (hP : P.Good) (m : Map κ) (hwf : WF P m) :
    (∃ m', rehash P m = (m', 0) ∧ WF P m' ∧ m'.size = 2 * m.size ∧ Unchanged m m' ∧ SameFlags m m' ∧
        2 * m.size ≤ P.maxSize ∧ m'.oom = m.oom) ∨
    (∃ m', rehash P m = (m', -12) ∧ m'.cells = m.cells ∧ m'.length = m.length ∧ SameFlags m m' ∧
        (m.oom = true ∨ P.maxSize < 2 * m.size)) := by
  unfold rehash
  split
  · rename_i hoom
    right
    exact ⟨_, rfl, rfl, rfl, ⟨rfl, rfl, rfl, rfl⟩, Or.inl hoom⟩
  · split
    · rename_i hmax
      right
      exact ⟨_, rfl, rfl, rfl, SameFlags.refl m, Or.inr hmax⟩
    · rename_i hoom hmax
      left
      have hroom := hwf.room
      have hlen := hwf.len
      unfold Map.size at hroom hmax
      obtain ⟨t', h1, h2, h3, h4, h5⟩ := rehashFill_spec P hP m.cells (List.replicate (2 * m.cells.length) none)
        (by simp; omega) (TWF_replicate P _) (by rw [occ_replicate]; simp; omega)
        (nodup_keysOf P m.cells hwf.tbl) (fun k _ w => not_has_replicate _ _)
      unfold Map.size
      rw [h1]
      simp only [List.length_replicate] at h2
      refine ⟨_, rfl, ?_, by simpa [Map.size] using h2, ?_, ⟨rfl, rfl, rfl, rfl⟩, by omega, rfl⟩
      · constructor
        · exact ⟨by simp only [Map.size]; rw [h2]; exact pow2_double hwf.size.pow2,
                 by have := hwf.size.ge; simp only [Map.size] at this ⊢; omega,
                 by simp only [Map.size]; omega⟩
        · exact h3
        · simp only; rw [h4, occ_replicate, hlen]; omega
        · simp only [Map.size]; omega
      · refine ⟨?_, rfl⟩
        intro e
        simp only
        rw [h5, ← has_iff_mem]
        constructor
        · rintro (h | h)
          · exact absurd h (not_has_replicate _ _)
          · exact h
        · exact Or.inr

/-! ## `store`: the tail of `hashmap_put` -/

theorem has_update (P : Params κ) (c : List (Cell κ)) (h : TWF P c) (i : Nat) (k : κ) (v0 v : Nat)
    (hs : slot c i = some (k, v0)) (e : κ × Nat) :
    Has (c.set (i % c.length) (some (k, v))) e ↔ e = (k, v) ∨ (Has c e ∧ e.1 ≠ k) := by
  have hn : 0 < c.length := by
    rcases Nat.eq_zero_or_pos c.length with h0 | h0
    · unfold slot at hs; simp [h0] at hs
    · exact h0
  have hsi : slot c (i % c.length) = some (k, v0) := by rw [slot_mod]; exact hs
  unfold Has
  simp only [List.length_set]
  constructor
  · rintro ⟨j, hj, hjs⟩
    rw [slot_set c i j _ hn] at hjs
    split at hjs
    · cases hjs; left; rfl
    · rename_i hne
      right
      refine ⟨⟨j, hj, hjs⟩, ?_⟩
      intro hk
      obtain ⟨k', w⟩ := e
      simp only at hk; subst hk
      have := h.uniq j (i % c.length) k' w v0 hj (Nat.mod_lt _ hn) hjs hsi
      rw [← this, Nat.mod_eq_of_lt hj] at hne
      exact hne rfl
  · rintro (rfl | ⟨⟨j, hj, hjs⟩, hk⟩)
    · exact ⟨i % c.length, Nat.mod_lt _ hn, by rw [slot_set c i _ _ hn]; simp⟩
    · refine ⟨j, hj, ?_⟩
      rw [slot_set c i j _ hn]
      have : i % c.length ≠ j % c.length := by
        intro heq
        rw [Nat.mod_eq_of_lt hj] at heq
        rw [heq, hjs] at hsi; cases hsi; exact hk rfl
      simp [this, hjs]

theorem occ_update (c : List (Cell κ)) (i : Nat) (e0 e : κ × Nat) (hs : slot c i = some e0) :
    occ (c.set (i % c.length) (some e)) = occ c := by
  have hn : 0 < c.length := by
    rcases Nat.eq_zero_or_pos c.length with h0 | h0
    · unfold slot at hs; simp [h0] at hs
    · exact h0
  have hin : i % c.length < c.length := Nat.mod_lt _ hn
  have := occ_set c (i % c.length) (some e) hin
  have g : c[i % c.length] = some e0 := by
    unfold slot at hs; rw [List.getElem?_eq_getElem hin] at hs; simpa using hs
  rw [g] at this; simpa using this

theorem store_spec (P : Params κ) (hP : P.Good) (m : Map κ) (hwf : WF P m) (hroom : m.length + 1 < m.size)
    (k : κ) (v : Nat) (i : Nat) (hf : entryFind P m.cells k true = some i) :
    WF P (store m i k v).1 ∧ SameFlags m (store m i k v).1 ∧ (store m i k v).1.size = m.size ∧
    (((store m i k v).2.2 = 0 ∧ PutOk m (store m i k v).1 k v ∧
      (((∀ w, ¬ Has m.cells (k, w)) ∧ (store m i k v).1.length = m.length + 1 ∧ (store m i k v).2.1 = []) ∨
       (∃ w, Has m.cells (k, w) ∧ m.update = true ∧ (store m i k v).1.length = m.length ∧
          (store m i k v).2.1 = if m.dtor && w != v then [Ev.dtor w] else []))) ∨
     ((store m i k v).2.2 = -1 ∧ (store m i k v).1 = m ∧ (store m i k v).2.1 = [] ∧ m.update = false ∧
        ∃ w, Has m.cells (k, w))) := by
  have hle : m.cells.length ≤ P.maxSize := hwf.size.le
  have hn : 0 < m.cells.length := by have := hwf.size.pos hP; unfold Map.size at this; omega
  obtain ⟨d, _, _, _, h4⟩ := entryFind_sound P hP m.cells hle k true i hf
  unfold store
  rcases h4 with ⟨v0, hv0⟩ | ⟨_, hnone⟩
  · -- the key is there
    have hhas : Has m.cells (k, v0) := ⟨i % m.cells.length, Nat.mod_lt _ hn, by rw [slot_mod]; exact hv0⟩
    simp only [hv0]
    by_cases hu : m.update = true
    · rw [if_pos hu]
      refine ⟨?_, ⟨rfl, rfl, rfl, rfl⟩, by simp [Map.size], Or.inl ⟨rfl, ?_, Or.inr ⟨v0, hhas, hu, rfl, rfl⟩⟩⟩
      · constructor
        · simpa [Map.size] using hwf.size
        · exact TWF_update P m.cells hwf.tbl i k v0 v hv0
        · simp only [Map.size]; rw [occ_update m.cells i _ _ hv0]; exact hwf.len
        · simpa [Map.size] using hwf.room
      · intro e; exact has_update P m.cells hwf.tbl i k v0 v hv0 e
    · have hu' : m.update = false := by simpa using hu
      rw [if_neg hu]
      exact ⟨hwf, SameFlags.refl m, rfl, Or.inr ⟨rfl, rfl, rfl, hu', v0, hhas⟩⟩
  · -- an empty slot
    have habs := absent_of_find_empty P hP m.cells hle hwf.tbl k i hf hnone
    simp only [hnone]
    refine ⟨?_, ⟨rfl, rfl, rfl, rfl⟩, by simp [Map.size], Or.inl ⟨by first | rfl | trivial, ?_, Or.inl ⟨?_, by first | rfl | trivial, by first | rfl | trivial⟩⟩⟩
    · constructor
      · simpa [Map.size] using hwf.size
      · exact TWF_insert P hP m.cells hle hwf.tbl k v i hf hnone
      · simp only [Map.size]; rw [occ_insert m.cells i _ hn hnone, hwf.len]
      · simpa [Map.size] using hroom
    · intro e
      simp only [Map.size]
      rw [has_insert m.cells i (k, v) hn hnone e]
      constructor
      · rintro (h | h)
        · right
          refine ⟨h, ?_⟩
          intro hk
          obtain ⟨j, hj, hs⟩ := h
          obtain ⟨k', w⟩ := e
          simp only at hk; subst hk
          exact habs j w hj hs
        · left; exact h
      · rintro (h | ⟨h, _⟩)
        · right; exact h
        · left; exact h
    · intro w ⟨j, hj, hs⟩; exact habs j w hj hs

/-! ## `hashmap_put`, `m_map_put` -/

theorem Unchanged.refl (m : Map κ) : Unchanged m m := ⟨fun _ => Iff.rfl, rfl⟩

theorem Unchanged.trans {a b c : Map κ} (h1 : Unchanged a b) (h2 : Unchanged b c) : Unchanged a c :=
  ⟨fun e => (h2.1 e).trans (h1.1 e), h2.2.trans h1.2⟩

theorem PutOk.transfer {m m1 m' : Map κ} {k : κ} {v : Nat} (hU : Unchanged m m1) (h : PutOk m1 m' k v) :
    PutOk m m' k v := by
  intro e; rw [h e, hU.1 e]

/-- what a `put` does to a well-formed map, as seen by a dictionary; `lim` bounds the table size
at which the allocator gives up -/
def PutSpec (m : Map κ) (k : κ) (v : Nat) (lim : Prop) (r : Map κ × List (Ev κ) × Int) : Prop :=
  (r.2.2 = 0 ∧ PutOk m r.1 k v ∧
    (((∀ w, ¬ Has m.cells (k, w)) ∧ r.1.length = m.length + 1 ∧ r.2.1 = []) ∨
     (∃ w, Has m.cells (k, w) ∧ m.update = true ∧ r.1.length = m.length ∧
        r.2.1 = if m.dtor && w != v then [Ev.dtor w] else []))) ∨
  (r.2.2 = -1 ∧ Unchanged m r.1 ∧ r.2.1 = [] ∧ m.update = false ∧ ∃ w, Has m.cells (k, w)) ∨
  (r.2.2 = -12 ∧ Unchanged m r.1 ∧ r.2.1 = [] ∧ (m.oom = true ∨ lim))

theorem PutSpec.transfer {m m1 : Map κ} {k : κ} {v : Nat} {lim lim' : Prop} {r : Map κ × List (Ev κ) × Int}
    (hU : Unchanged m m1) (hF : SameFlags m m1) (hoom : m1.oom = m.oom) (hl : lim → lim')
    (h : PutSpec m1 k v lim r) : PutSpec m k v lim' r := by
  rcases h with ⟨h1, h2, h3⟩ | ⟨h1, h2, h3, h4, w, h5⟩ | ⟨h1, h2, h3, h4⟩
  · left
    refine ⟨h1, h2.transfer hU, ?_⟩
    rcases h3 with ⟨a, b, c⟩ | ⟨w, a, b, c, d⟩
    · left; exact ⟨fun w hw => a w ((hU.1 _).mpr hw), by rw [b, hU.2], c⟩
    · right; exact ⟨w, (hU.1 _).mp a, by rw [← hF.update]; exact b, by rw [c, hU.2], by rw [d, hF.dtor]⟩
  · right; left
    exact ⟨h1, hU.trans h2, h3, by rw [← hF.update]; exact h4, w, (hU.1 _).mp h5⟩
  · right; right
    refine ⟨h1, hU.trans h2, h3, ?_⟩
    rcases h4 with h4 | h4
    · left; rw [← hoom]; exact h4
    · right; exact hl h4

theorem store_PutSpec (P : Params κ) (hP : P.Good) (m : Map κ) (hwf : WF P m) (hroom : m.length + 1 < m.size)
    (k : κ) (v : Nat) (i : Nat) (hf : entryFind P m.cells k true = some i) (lim : Prop) :
    WF P (store m i k v).1 ∧ SameFlags m (store m i k v).1 ∧ PutSpec m k v lim (store m i k v) := by
  obtain ⟨h1, h2, _, h4⟩ := store_spec P hP m hwf hroom k v i hf
  refine ⟨h1, h2, ?_⟩
  rcases h4 with h4 | ⟨a, b, c, d, e⟩
  · left; exact h4
  · right; left; exact ⟨a, by rw [b]; exact Unchanged.refl m, c, d, e⟩

theorem hput2_spec (P : Params κ) (hP : P.Good) (m : Map κ) (hwf : WF P m) (hroom : m.length + 1 < m.size)
    (k : κ) (v : Nat) :
    WF P (hput2 P m k v).1 ∧ SameFlags m (hput2 P m k v).1 ∧
      PutSpec m k v (P.maxSize < 2 * m.size) (hput2 P m k v) := by
  unfold hput2
  split
  · rename_i i hf
    exact store_PutSpec P hP m hwf hroom k v i hf _
  · rename_i hf
    rcases rehash_spec P hP m hwf with ⟨m', h1, h2, h3, h4, h5, h6, h7⟩ | ⟨m', h1, h2, h3, h4, h5⟩
    · rw [h1]
      simp only [ne_eq, not_true_eq_false, if_false]
      have hocc : occ m'.cells < m'.cells.length / 2 := by
        have := h2.len; have := h4.2; have := hwf.room
        unfold Map.size at h3 this
        omega
      obtain ⟨i, hi⟩ := entryFind_succeeds P hP m'.cells h2.size.le k hocc
      rw [hi]
      have hroom' : m'.length + 1 < m'.size := by have := h4.2; have := hwf.room; omega
      obtain ⟨g1, g2, g3⟩ := store_PutSpec P hP m' h2 hroom' k v i hi (P.maxSize < 2 * m.size)
      exact ⟨g1, h5.trans g2, g3.transfer h4 h5 h7 id⟩
    · rw [h1]
      have : ((-12 : Int) ≠ 0) := by decide
      simp only [ne_eq, this, not_false_eq_true, if_true]
      have hU : Unchanged m m' := ⟨fun e => by rw [h2], h3⟩
      refine ⟨?_, h4, Or.inr (Or.inr ⟨rfl, hU, rfl, h5⟩)⟩
      exact ⟨by simpa [Map.size, h2] using hwf.size, by rw [h2]; exact hwf.tbl, by rw [h2, h3]; exact hwf.len,
             by simpa [Map.size, h2, h3] using hwf.room⟩

theorem hput_spec (P : Params κ) (hP : P.Good) (m : Map κ) (hwf : WF P m) (k : κ) (v : Nat) :
    WF P (hput P m k v).1 ∧ SameFlags m (hput P m k v).1 ∧
      PutSpec m k v (P.maxSize < 4 * m.size) (hput P m k v) := by
  unfold hput
  by_cases hg : m.size ≤ P.minSize m.length
  · simp only [hg, if_true]
    rcases rehash_spec P hP m hwf with ⟨m', h1, h2, h3, h4, h5, h6, h7⟩ | ⟨m', h1, h2, h3, h4, h5⟩
    · rw [h1]
      simp only [ne_eq, not_true_eq_false, if_false]
      have hroom' : m'.length + 1 < m'.size := by have := h4.2; have := hwf.room; omega
      obtain ⟨g1, g2, g3⟩ := hput2_spec P hP m' h2 hroom' k v
      exact ⟨g1, h5.trans g2, g3.transfer h4 h5 h7 (by rw [h3]; omega)⟩
    · rw [h1]
      have : ((-12 : Int) ≠ 0) := by decide
      simp only [ne_eq, this, not_false_eq_true, if_true]
      have hU : Unchanged m m' := ⟨fun e => by rw [h2], h3⟩
      refine ⟨?_, h4, Or.inr (Or.inr ⟨rfl, hU, rfl, ?_⟩)⟩
      · exact ⟨by simpa [Map.size, h2] using hwf.size, by rw [h2]; exact hwf.tbl, by rw [h2, h3]; exact hwf.len,
               by simpa [Map.size, h2, h3] using hwf.room⟩
      · rcases h5 with h5 | h5
        · left; exact h5
        · right; omega
  · simp only [hg, if_false]
    simp only [ne_eq, not_true_eq_false, if_false]
    have hroom : m.length + 1 < m.size := hP.load_ok m.size m.length hwf.size.ge hwf.size.le hwf.room hg
    obtain ⟨g1, g2, g3⟩ := hput2_spec P hP m hwf hroom k v
    exact ⟨g1, g2, g3.transfer (Unchanged.refl m) (SameFlags.refl m) rfl (by omega)⟩

/-- `m_map_put`: the dictionary view of `hashmap_put`, plus the key-copy events -/
theorem put_spec (P : Params κ) (hP : P.Good) (m : Map κ) (hwf : WF P m) (k : κ) (v : Nat) :
    WF P (put P m k v).1 ∧ SameFlags m (put P m k v).1 ∧
    ((v = 0 ∧ put P m k v = (m, [], -22)) ∨
     (v ≠ 0 ∧ ∃ r, PutSpec m k v (P.maxSize < 4 * m.size) r ∧ (put P m k v).1 = r.1 ∧ (put P m k v).2.2 = r.2.2 ∧
        (put P m k v).2.1 =
          if (m.dup || m.autofree) then
            [Ev.kalloc k] ++ r.2.1 ++ (if r.2.2 ≠ 0 ∨ r.1.length = m.length then [Ev.kfree k] else [])
          else r.2.1)) := by
  obtain ⟨g1, g2, g3⟩ := hput_spec P hP m hwf k v
  unfold put
  by_cases hv : v = 0
  · rw [if_pos hv]; exact ⟨hwf, SameFlags.refl m, Or.inl ⟨hv, rfl⟩⟩
  · rw [if_neg hv]
    by_cases ho : (m.dup || m.autofree) = true
    · simp only [ho, Bool.not_true, Bool.false_eq_true, if_false]
      refine ⟨g1, g2, Or.inr ⟨hv, hput P m k v, g3, rfl, rfl, ?_⟩⟩
      simp only [if_true]
      congr 2
      simp [Bool.or_eq_true, beq_iff_eq]
    · simp only [ho, Bool.not_false, if_true]
      exact ⟨g1, g2, Or.inr ⟨hv, hput P m k v, g3, rfl, rfl, by simp⟩⟩

/-! ## `m_map_get`, `m_map_contains` -/

theorem no_entries_of_length_zero (P : Params κ) (m : Map κ) (hwf : WF P m) (h0 : m.length = 0) (e : κ × Nat) :
    ¬ Has m.cells e := by
  rw [has_iff_mem]
  have : occ m.cells = 0 := by rw [← hwf.len]; exact h0
  unfold occ at this
  rw [List.length_eq_zero_iff] at this
  rw [this]; simp

theorem get_spec (P : Params κ) (hP : P.Good) (m : Map κ) (hwf : WF P m) (k : κ) (v : Nat) :
    get P m k = some v ↔ Has m.cells (k, v) := by
  have hle : m.cells.length ≤ P.maxSize := hwf.size.le
  have hn : 0 < m.cells.length := by have := hwf.size.pos hP; unfold Map.size at this; omega
  unfold get
  by_cases h0 : m.length = 0
  · rw [if_pos h0]
    constructor
    · intro h; cases h
    · intro h; exact absurd h (no_entries_of_length_zero P m hwf h0 _)
  · rw [if_neg h0]
    constructor
    · intro h
      cases hf : entryFind P m.cells k false with
      | none => rw [hf] at h; cases h
      | some i =>
        rw [hf] at h
        simp only at h
        obtain ⟨d, _, _, _, h4⟩ := entryFind_sound P hP m.cells hle k false i hf
        rcases h4 with ⟨w, hw⟩ | ⟨hfe, _⟩
        · rw [hw] at h; simp at h; subst h
          exact ⟨i % m.cells.length, Nat.mod_lt _ hn, by rw [slot_mod]; exact hw⟩
        · cases hfe
    · rintro ⟨j, hj, hs⟩
      obtain ⟨i, hi, hm⟩ := entryFind_complete P hP m.cells hle hwf.tbl false j k v hj hs
      rw [hi]
      simp only
      rw [← slot_mod, hm, hs]; rfl

theorem get_none_spec (P : Params κ) (hP : P.Good) (m : Map κ) (hwf : WF P m) (k : κ) :
    get P m k = none ↔ ∀ v, ¬ Has m.cells (k, v) := by
  constructor
  · intro h v hv
    rw [← get_spec P hP m hwf] at hv
    rw [h] at hv; cases hv
  · intro h
    cases hg : get P m k with
    | none => rfl
    | some v => exact absurd ((get_spec P hP m hwf k v).mp hg) (h v)

theorem contains_spec (P : Params κ) (hP : P.Good) (m : Map κ) (hwf : WF P m) (k : κ) :
    contains P m k = true ↔ ∃ v, Has m.cells (k, v) := by
  unfold contains
  rw [Option.isSome_iff_exists]
  constructor
  · rintro ⟨v, hv⟩; exact ⟨v, (get_spec P hP m hwf k v).mp hv⟩
  · rintro ⟨v, hv⟩; exact ⟨v, (get_spec P hP m hwf k v).mpr hv⟩

/-! ## `clear_elem`, `m_map_remove` -/

theorem clearElem_eq (P : Params κ) (m : Map κ) (i : Nat) (k : κ) (v : Nat) (hs : slot m.cells i = some (k, v)) :
    clearElem P m i = ({ m with cells := cleared P m.cells i, length := m.length - 1 },
      (if m.autofree then [Ev.kfree k] else []) ++ (if m.dtor then [Ev.dtor v] else [])) := by
  unfold clearElem cleared Map.size
  rw [hs]

/-- removing the entry in slot `i`: all and only the other entries stay -/
theorem clearElem_spec (P : Params κ) (hP : P.Good) (m : Map κ) (hwf : WF P m) (i : Nat) (k : κ) (v : Nat)
    (hs : slot m.cells i = some (k, v)) :
    WF P (clearElem P m i).1 ∧ SameFlags m (clearElem P m i).1 ∧
    (clearElem P m i).1.length + 1 = m.length ∧ (clearElem P m i).1.size = m.size ∧
    (∀ e, Has (clearElem P m i).1.cells e ↔ (Has m.cells e ∧ e.1 ≠ k)) ∧
    (clearElem P m i).2 = (if m.autofree then [Ev.kfree k] else []) ++ (if m.dtor then [Ev.dtor v] else []) := by
  rw [clearElem_eq P m i k v hs]
  have hocc : occ m.cells < m.cells.length := by have := hwf.room; have := hwf.len; unfold Map.size at *; omega
  have h1 := occ_cleared P m.cells i (k, v) hs hocc
  have hlen := length_cleared P m.cells i
  refine ⟨?_, ⟨rfl, rfl, rfl, rfl⟩, ?_, by simp [Map.size, hlen], ?_, rfl⟩
  · constructor
    · simpa [Map.size, hlen] using hwf.size
    · exact TWF_cleared P hP m.cells hwf.size hwf.tbl i (k, v) hs hocc
    · have := hwf.len; simp only; omega
    · have := hwf.room; simp only [Map.size, hlen]; unfold Map.size at this; omega
  · have := hwf.len; simp only; omega
  · intro e
    have := mem_cleared P m.cells hwf.tbl i k v hs hocc e
    unfold Has
    simp only [hlen]
    exact this

/-- `m_map_remove` deletes exactly the named entry, or fails without effect -/
theorem remove_spec (P : Params κ) (hP : P.Good) (m : Map κ) (hwf : WF P m) (k : κ) :
    WF P (remove P m k).1 ∧ SameFlags m (remove P m k).1 ∧
    ((∃ v, Has m.cells (k, v) ∧ (remove P m k).2.2 = 0 ∧ (remove P m k).1.length + 1 = m.length ∧
        (remove P m k).1.size = m.size ∧
        (∀ e, Has (remove P m k).1.cells e ↔ (Has m.cells e ∧ e.1 ≠ k)) ∧
        (remove P m k).2.1 = (if m.autofree then [Ev.kfree k] else []) ++ (if m.dtor then [Ev.dtor v] else [])) ∨
     ((∀ v, ¬ Has m.cells (k, v)) ∧ (remove P m k).1 = m ∧ (remove P m k).2.1 = [] ∧
        (remove P m k).2.2 = if m.length = 0 then -22 else -2)) := by
  have hle : m.cells.length ≤ P.maxSize := hwf.size.le
  have hn : 0 < m.cells.length := by have := hwf.size.pos hP; unfold Map.size at this; omega
  unfold remove
  by_cases h0 : m.length = 0
  · rw [if_pos h0]
    exact ⟨hwf, SameFlags.refl m, Or.inr ⟨fun v => no_entries_of_length_zero P m hwf h0 _, rfl, rfl, by simp [h0]⟩⟩
  · rw [if_neg h0]
    cases hf : entryFind P m.cells k false with
    | none =>
      simp only
      refine ⟨hwf, SameFlags.refl m, Or.inr ⟨?_, by first | rfl | trivial, by first | rfl | trivial, by simp [h0]⟩⟩
      rintro v ⟨j, hj, hs⟩
      obtain ⟨i, hi, _⟩ := entryFind_complete P hP m.cells hle hwf.tbl false j k v hj hs
      rw [hf] at hi; cases hi
    | some i =>
      simp only
      obtain ⟨d, _, _, _, h4⟩ := entryFind_sound P hP m.cells hle k false i hf
      rcases h4 with ⟨v, hv⟩ | ⟨hfe, _⟩
      · obtain ⟨g1, g2, g3, g4, g5, g6⟩ := clearElem_spec P hP m hwf i k v hv
        exact ⟨g1, g2, Or.inl ⟨v, ⟨i % m.cells.length, Nat.mod_lt _ hn, by rw [slot_mod]; exact hv⟩, by first | rfl | trivial, g3, g4, g5, g6⟩⟩
      · cases hfe

end Lm.Struct.Map
