import Lm.Core.Logic
/-!
# The part of the core state the life-cycle invariants talk about, and the operations that leave it alone

`Sig` = the fields of a module that the invariants mention.  Most state transformers of the model
(mailboxes, sources, batching, payload holders, output log) never touch them; that is proved here once
(`…_sig` / `…_ctx` / `…_trans` lemmas, all `@[simp]`) so that the program proofs only see the few
updates that matter.
-/
namespace Lm.Core

structure Sig where
  state : MState
  ctxId : Nat
  inCtx : Bool
  name : String
  slot : Nat
  flags : ModFlags
  hooks : Hooks
  deriving DecidableEq, Repr

def Mod.sig (md : Mod) : Sig :=
  { state := md.state, ctxId := md.ctxId, inCtx := md.inCtx, name := md.name, slot := md.slot,
    flags := md.flags, hooks := md.hooks }

def St.sigs (s : St) : List Sig := s.mods.map Mod.sig

theorem sigs_getElem? (s : St) (m : ModId) : s.sigs[m]? = (s.mods[m]?).map Mod.sig := by
  simp [St.sigs]

/-! ### output log -/
@[simp] theorem emit_mods (s : St) (o) : (s.emit o).mods = s.mods := rfl
@[simp] theorem emit_ctx (s : St) (o) : (s.emit o).ctx = s.ctx := rfl
@[simp] theorem emit_trans (s : St) (o) : (s.emit o).trans = s.trans := rfl
@[simp] theorem emit_sigs (s : St) (o) : (s.emit o).sigs = s.sigs := rfl
@[simp] theorem emit_srcs (s : St) (o) : (s.emit o).srcs = s.srcs := rfl
@[simp] theorem emit_deadCtx (s : St) (o) : (s.emit o).deadCtx = s.deadCtx := rfl
@[simp] theorem emit_nextCtx (s : St) (o) : (s.emit o).nextCtx = s.nextCtx := rfl

/-! ### module updates that keep the signature -/
theorem updMod_sigs (s : St) (m : ModId) (f : Mod → Mod) (hf : ∀ md, (f md).sig = md.sig) :
    (s.updMod m f).sigs = s.sigs := by
  unfold St.updMod St.sigs
  split
  · rename_i md h
    simp only
    apply List.ext_getElem?
    intro k
    simp only [List.getElem?_map, List.getElem?_set]
    by_cases hk : m = k
    · subst hk
      have hlt : m < s.mods.length := (List.getElem?_eq_some_iff.mp h).1
      have hget : s.mods[m] = md := (List.getElem?_eq_some_iff.mp h).2
      simp [hlt, hf, hget]
    · simp [hk]
  · rfl

@[simp] theorem updMod_ctx (s : St) (m) (f) : (s.updMod m f).ctx = s.ctx := by
  unfold St.updMod; split <;> rfl
@[simp] theorem updMod_trans (s : St) (m) (f) : (s.updMod m f).trans = s.trans := by
  unfold St.updMod; split <;> rfl
@[simp] theorem updMod_deadCtx (s : St) (m) (f) : (s.updMod m f).deadCtx = s.deadCtx := by
  unfold St.updMod; split <;> rfl
@[simp] theorem updMod_srcs (s : St) (m) (f) : (s.updMod m f).srcs = s.srcs := by
  unfold St.updMod; split <;> rfl
@[simp] theorem updMod_nextCtx (s : St) (m) (f) : (s.updMod m f).nextCtx = s.nextCtx := by
  unfold St.updMod; split <;> rfl
@[simp] theorem updMod_out (s : St) (m) (f) : (s.updMod m f).out = s.out := by
  unfold St.updMod; split <;> rfl
@[simp] theorem updMod_holders (s : St) (m) (f) : (s.updMod m f).holders = s.holders := by
  unfold St.updMod; split <;> rfl
@[simp] theorem updMod_holderPayload (s : St) (m) (f) : (s.updMod m f).holderPayload = s.holderPayload := by
  unfold St.updMod; split <;> rfl
@[simp] theorem updMod_length (s : St) (m) (f) : (s.updMod m f).mods.length = s.mods.length := by
  unfold St.updMod; split <;> simp

@[simp] theorem updSrc_mods (s : St) (i) (f) : (s.updSrc i f).mods = s.mods := by
  unfold St.updSrc; split <;> rfl
@[simp] theorem updSrc_ctx (s : St) (i) (f) : (s.updSrc i f).ctx = s.ctx := by
  unfold St.updSrc; split <;> rfl
@[simp] theorem updSrc_trans (s : St) (i) (f) : (s.updSrc i f).trans = s.trans := by
  unfold St.updSrc; split <;> rfl
@[simp] theorem updSrc_deadCtx (s : St) (i) (f) : (s.updSrc i f).deadCtx = s.deadCtx := by
  unfold St.updSrc; split <;> rfl
@[simp] theorem updSrc_nextCtx (s : St) (i) (f) : (s.updSrc i f).nextCtx = s.nextCtx := by
  unfold St.updSrc; split <;> rfl
@[simp] theorem updSrc_sigs (s : St) (i) (f) : (s.updSrc i f).sigs = s.sigs := by
  unfold St.sigs; simp

/-- a state transformer that leaves the life-cycle view alone -/
structure Quiet (g : St → St) : Prop where
  sigs : ∀ s, (g s).sigs = s.sigs
  ctx : ∀ s, (g s).ctx = s.ctx
  trans : ∀ s, (g s).trans = s.trans
  dead : ∀ s, (g s).deadCtx = s.deadCtx
  next : ∀ s, (g s).nextCtx = s.nextCtx

theorem Quiet.comp {g h : St → St} (hg : Quiet g) (hh : Quiet h) : Quiet (fun s => g (h s)) :=
  ⟨fun s => by rw [hg.sigs, hh.sigs], fun s => by rw [hg.ctx, hh.ctx], fun s => by rw [hg.trans, hh.trans],
   fun s => by rw [hg.dead, hh.dead], fun s => by rw [hg.next, hh.next]⟩

theorem Quiet.id : Quiet (fun s => s) := ⟨fun _ => rfl, fun _ => rfl, fun _ => rfl, fun _ => rfl, fun _ => rfl⟩

theorem Quiet.foldl {α} (g : St → α → St) (hg : ∀ a, Quiet (fun s => g s a)) (l : List α) :
    Quiet (fun s => l.foldl g s) := by
  induction l with
  | nil => exact Quiet.id
  | cons a l ih =>
    refine ⟨fun s => ?_, fun s => ?_, fun s => ?_, fun s => ?_, fun s => ?_⟩
    · simp only [List.foldl_cons]; rw [ih.sigs, (hg a).sigs]
    · simp only [List.foldl_cons]; rw [ih.ctx, (hg a).ctx]
    · simp only [List.foldl_cons]; rw [ih.trans, (hg a).trans]
    · simp only [List.foldl_cons]; rw [ih.dead, (hg a).dead]
    · simp only [List.foldl_cons]; rw [ih.next, (hg a).next]

theorem quiet_emit (o : Out) : Quiet (fun s => s.emit o) := ⟨fun _ => rfl, fun _ => rfl, fun _ => rfl, fun _ => rfl, fun _ => rfl⟩

theorem quiet_updMod (m : ModId) (f : Mod → Mod) (hf : ∀ md, (f md).sig = md.sig) : Quiet (fun s => s.updMod m f) :=
  ⟨fun s => updMod_sigs s m f hf, fun s => by simp, fun s => by simp, fun s => by simp, fun s => by simp⟩

theorem quiet_updSrc (i : SrcId) (f : Src → Src) : Quiet (fun s => s.updSrc i f) :=
  ⟨fun s => by simp, fun s => by simp, fun s => by simp, fun s => by simp, fun s => by simp⟩

theorem quiet_holderRef (h) : Quiet (fun s => holderRef s h) := by
  refine ⟨fun s => ?_, fun s => ?_, fun s => ?_, fun s => ?_, fun s => ?_⟩ <;>
  · unfold holderRef; split
    · rfl
    · split <;> rfl

theorem quiet_holderUnref (h) : Quiet (fun s => holderUnref s h) := by
  refine ⟨fun s => ?_, fun s => ?_, fun s => ?_, fun s => ?_, fun s => ?_⟩ <;>
  · unfold holderUnref; split
    · rfl
    · split
      · simp only; split <;> rfl
      · rfl

theorem quiet_destroyMsg (msg) : Quiet (fun s => destroyMsg s msg) := quiet_holderUnref _

theorem quiet_destroyEvt (e) : Quiet (fun s => destroyEvt s e) := by
  unfold destroyEvt
  cases e.msg with
  | none => exact Quiet.id
  | some m => exact quiet_destroyMsg m

theorem quiet_destroyEvts (evts keep) : Quiet (fun s => destroyEvts s evts keep) := by
  unfold destroyEvts
  apply Quiet.foldl
  intro e
  by_cases h : keep.contains e
  · simp only [h, if_true]; exact Quiet.id
  · simp only [h]; exact quiet_destroyEvt e

theorem Quiet.pointwise0 (g : St → St) (h : ∀ s, ∃ g', Quiet g' ∧ g s = g' s) : Quiet g := by
  refine ⟨fun s => ?_, fun s => ?_, fun s => ?_, fun s => ?_, fun s => ?_⟩ <;>
  · obtain ⟨g', hq, he⟩ := h s
    rw [he]
    first | exact hq.sigs s | exact hq.ctx s | exact hq.trans s | exact hq.dead s | exact hq.next s

theorem quiet_tellIf (msg key r) : Quiet (fun s => tellIf s msg key r) := by
  apply Quiet.pointwise0
  intro s
  unfold tellIf
  split
  · exact ⟨_, Quiet.id, rfl⟩
  · rename_i md _
    split
    · simp only
      split
      · rename_i q _
        split
        · exact ⟨fun s0 => (holderRef s0 msg.holder).updMod r (fun md => { md with pipe := some (q ++ [{ msg with sub := key.subOf, rcpt := some r }]) }),
            Quiet.comp (quiet_updMod r (fun md => { md with pipe := some (q ++ [{ msg with sub := key.subOf, rcpt := some r }]) }) (fun md => rfl)) (quiet_holderRef _), rfl⟩
        · exact ⟨_, Quiet.comp (quiet_destroyMsg _) (quiet_holderRef _), rfl⟩
      · exact ⟨_, Quiet.comp (quiet_destroyMsg _) (quiet_holderRef _), rfl⟩
    · exact ⟨_, Quiet.id, rfl⟩

theorem Quiet.pointwise' (g : St → St) (h : ∀ s, ∃ g', Quiet g' ∧ g s = g' s) : Quiet g := Quiet.pointwise0 g h

theorem Quiet.ite (c : Prop) [Decidable c] {g h : St → St} (hg : Quiet g) (hh : Quiet h) :
    Quiet (fun s => if c then g s else h s) := by
  by_cases hc : c
  · simp only [hc, if_true]; exact hg
  · simp only [hc, if_false]; exact hh

theorem quiet_tellPubsub (msg recipient) : Quiet (fun s => tellPubsub s msg recipient) := by
  unfold tellPubsub
  cases recipient with
  | some r => exact quiet_tellIf msg .direct r
  | none =>
    cases msg.topic with
    | none =>
      -- the list folded over depends on the state, but every step is quiet
      apply Quiet.pointwise0
      intro s
      exact ⟨_, Quiet.foldl (fun s r => tellIf s msg .bcast r) (fun r => quiet_tellIf msg .bcast r) s.tableOrder, rfl⟩
    | some t =>
      have step : ∀ r, Quiet (fun s =>
          match s.mods[r]? with
          | some md =>
            if md.state == .running || md.state == .paused then
              match fetchSub s md t with
              | some sub => tellIf s msg (.sub sub) r
              | none => s
            else s
          | none => s) := by
        intro r
        apply Quiet.pointwise'
        intro s
        split
        · split
          · split
            · exact ⟨_, quiet_tellIf _ _ _, rfl⟩
            · exact ⟨_, Quiet.id, rfl⟩
          · exact ⟨_, Quiet.id, rfl⟩
        · exact ⟨_, Quiet.id, rfl⟩
      apply Quiet.pointwise0
      intro s
      exact ⟨_, Quiet.foldl _ step s.tableOrder, rfl⟩

theorem quiet_tellSystem (recipient sender topic pill) : Quiet (fun s => tellSystem s recipient sender topic pill) := by
  unfold tellSystem
  cases sender with
  | none => exact quiet_tellPubsub _ _
  | some m =>
    exact Quiet.comp (quiet_tellPubsub _ _) (quiet_updMod m _ (fun md => rfl))

theorem quiet_newHolder (p) : Quiet (fun s => newHolder s p) := ⟨fun _ => rfl, fun _ => rfl, fun _ => rfl, fun _ => rfl, fun _ => rfl⟩

@[simp] theorem holderRef_sigs (s : St) (h) : (holderRef s h).sigs = s.sigs := (quiet_holderRef h).sigs s
@[simp] theorem holderRef_ctx (s : St) (h) : (holderRef s h).ctx = s.ctx := (quiet_holderRef h).ctx s
@[simp] theorem holderRef_trans (s : St) (h) : (holderRef s h).trans = s.trans := (quiet_holderRef h).trans s
@[simp] theorem holderRef_deadCtx (s : St) (h) : (holderRef s h).deadCtx = s.deadCtx := (quiet_holderRef h).dead s
@[simp] theorem holderRef_nextCtx (s : St) (h) : (holderRef s h).nextCtx = s.nextCtx := (quiet_holderRef h).next s
@[simp] theorem holderUnref_sigs (s : St) (h) : (holderUnref s h).sigs = s.sigs := (quiet_holderUnref h).sigs s
@[simp] theorem holderUnref_ctx (s : St) (h) : (holderUnref s h).ctx = s.ctx := (quiet_holderUnref h).ctx s
@[simp] theorem holderUnref_trans (s : St) (h) : (holderUnref s h).trans = s.trans := (quiet_holderUnref h).trans s
@[simp] theorem holderUnref_deadCtx (s : St) (h) : (holderUnref s h).deadCtx = s.deadCtx := (quiet_holderUnref h).dead s
@[simp] theorem holderUnref_nextCtx (s : St) (h) : (holderUnref s h).nextCtx = s.nextCtx := (quiet_holderUnref h).next s
@[simp] theorem destroyMsg_sigs (s : St) (msg) : (destroyMsg s msg).sigs = s.sigs := (quiet_destroyMsg msg).sigs s
@[simp] theorem destroyMsg_ctx (s : St) (msg) : (destroyMsg s msg).ctx = s.ctx := (quiet_destroyMsg msg).ctx s
@[simp] theorem destroyMsg_trans (s : St) (msg) : (destroyMsg s msg).trans = s.trans := (quiet_destroyMsg msg).trans s
@[simp] theorem destroyMsg_deadCtx (s : St) (msg) : (destroyMsg s msg).deadCtx = s.deadCtx := (quiet_destroyMsg msg).dead s
@[simp] theorem destroyMsg_nextCtx (s : St) (msg) : (destroyMsg s msg).nextCtx = s.nextCtx := (quiet_destroyMsg msg).next s
@[simp] theorem tellIf_sigs (s : St) (msg) (key) (r) : (tellIf s msg key r).sigs = s.sigs := (quiet_tellIf msg key r).sigs s
@[simp] theorem tellIf_ctx (s : St) (msg) (key) (r) : (tellIf s msg key r).ctx = s.ctx := (quiet_tellIf msg key r).ctx s
@[simp] theorem tellIf_trans (s : St) (msg) (key) (r) : (tellIf s msg key r).trans = s.trans := (quiet_tellIf msg key r).trans s
@[simp] theorem tellIf_deadCtx (s : St) (msg) (key) (r) : (tellIf s msg key r).deadCtx = s.deadCtx := (quiet_tellIf msg key r).dead s
@[simp] theorem tellIf_nextCtx (s : St) (msg) (key) (r) : (tellIf s msg key r).nextCtx = s.nextCtx := (quiet_tellIf msg key r).next s
@[simp] theorem tellPubsub_sigs (s : St) (msg) (r) : (tellPubsub s msg r).sigs = s.sigs := (quiet_tellPubsub msg r).sigs s
@[simp] theorem tellPubsub_ctx (s : St) (msg) (r) : (tellPubsub s msg r).ctx = s.ctx := (quiet_tellPubsub msg r).ctx s
@[simp] theorem tellPubsub_trans (s : St) (msg) (r) : (tellPubsub s msg r).trans = s.trans := (quiet_tellPubsub msg r).trans s
@[simp] theorem tellPubsub_deadCtx (s : St) (msg) (r) : (tellPubsub s msg r).deadCtx = s.deadCtx := (quiet_tellPubsub msg r).dead s
@[simp] theorem tellPubsub_nextCtx (s : St) (msg) (r) : (tellPubsub s msg r).nextCtx = s.nextCtx := (quiet_tellPubsub msg r).next s
@[simp] theorem tellSystem_sigs (s : St) (r) (sd) (t) (p) : (tellSystem s r sd t p).sigs = s.sigs := (quiet_tellSystem r sd t p).sigs s
@[simp] theorem tellSystem_ctx (s : St) (r) (sd) (t) (p) : (tellSystem s r sd t p).ctx = s.ctx := (quiet_tellSystem r sd t p).ctx s
@[simp] theorem tellSystem_trans (s : St) (r) (sd) (t) (p) : (tellSystem s r sd t p).trans = s.trans := (quiet_tellSystem r sd t p).trans s
@[simp] theorem tellSystem_deadCtx (s : St) (r) (sd) (t) (p) : (tellSystem s r sd t p).deadCtx = s.deadCtx := (quiet_tellSystem r sd t p).dead s
@[simp] theorem tellSystem_nextCtx (s : St) (r) (sd) (t) (p) : (tellSystem s r sd t p).nextCtx = s.nextCtx := (quiet_tellSystem r sd t p).next s
@[simp] theorem newHolder_sigs (s : St) (p) : (newHolder s p).sigs = s.sigs := (quiet_newHolder p).sigs s
@[simp] theorem newHolder_ctx (s : St) (p) : (newHolder s p).ctx = s.ctx := (quiet_newHolder p).ctx s
@[simp] theorem newHolder_trans (s : St) (p) : (newHolder s p).trans = s.trans := (quiet_newHolder p).trans s
@[simp] theorem newHolder_deadCtx (s : St) (p) : (newHolder s p).deadCtx = s.deadCtx := (quiet_newHolder p).dead s
@[simp] theorem newHolder_nextCtx (s : St) (p) : (newHolder s p).nextCtx = s.nextCtx := (quiet_newHolder p).next s

theorem quiet_sendMsg (m recipient topic payload af) : Quiet (fun s => sendMsg s m recipient topic payload af) := by
  apply Quiet.pointwise0
  intro s
  unfold sendMsg
  by_cases h : af
  · simp only [h, if_true]
    exact ⟨fun s0 => holderUnref (tellPubsub (newHolder (s0.updMod m fun md => { md with sent := md.sent + 1 }) payload)
        { sender := some m, topic := topic, payload := payload, sys := false,
          holder := some (s.updMod m fun md => { md with sent := md.sent + 1 }).holders.length, sub := none } recipient)
        (some (s.updMod m fun md => { md with sent := md.sent + 1 }).holders.length),
      Quiet.comp (quiet_holderUnref _) (Quiet.comp (quiet_tellPubsub _ _) (Quiet.comp (quiet_newHolder payload)
        (quiet_updMod m (fun md => { md with sent := md.sent + 1 }) (fun md => rfl)))), rfl⟩
  · simp only [h, Bool.false_eq_true, if_false]
    exact ⟨fun s0 => tellPubsub (s0.updMod m fun md => { md with sent := md.sent + 1 })
        { sender := some m, topic := topic, payload := payload, sys := false, holder := none, sub := none } recipient,
      Quiet.comp (quiet_tellPubsub _ _) (quiet_updMod m (fun md => { md with sent := md.sent + 1 }) (fun md => rfl)), rfl⟩

theorem quiet_destroySrc (i) : Quiet (fun s => destroySrc s i) := by
  apply Quiet.pointwise'
  intro s
  unfold destroySrc
  split
  · rename_i x _
    by_cases h : (x.autoclose && !x.isSub) = true
    · simp only [h, if_true]; exact ⟨_, Quiet.comp (quiet_emit _) (quiet_updSrc i _), rfl⟩
    · simp only [h]; exact ⟨_, quiet_updSrc i _, rfl⟩
  · exact ⟨_, Quiet.id, rfl⟩

theorem quiet_removeSrc (m i) : Quiet (fun s => removeSrc s m i) :=
  Quiet.comp (quiet_destroySrc i) (quiet_updMod m _ (fun md => rfl))

theorem quiet_flushDestroy (m) : Quiet (fun s => flushDestroy s m) := by
  apply Quiet.pointwise'
  intro s
  unfold flushDestroy
  split
  · split
    · rename_i q _
      exact ⟨_, Quiet.comp (quiet_updMod m (fun md => { md with pipe := some [], pipeSkip := 0 }) (fun md => rfl))
                (Quiet.foldl destroyMsg quiet_destroyMsg q), rfl⟩
    · exact ⟨_, Quiet.id, rfl⟩
  · exact ⟨_, Quiet.id, rfl⟩

theorem quiet_manageSrcsRm (m stop) : Quiet (fun s => manageSrcsRm s m stop) := by
  apply Quiet.pointwise'
  intro s
  unfold manageSrcsRm
  split
  · exact ⟨_, Quiet.id, rfl⟩
  · rename_i md _
    by_cases hs : stop
    · simp only [hs, if_true]
      have q1 : Quiet (fun s => if md.pipe.isSome then (flushDestroy s m).emit (.close .pipeR) else s) :=
        Quiet.ite _ (Quiet.comp (quiet_emit _) (quiet_flushDestroy m)) Quiet.id
      have q2 := Quiet.comp (quiet_updMod m (fun md => { md with pipePolled := false }) (fun md => rfl)) q1
      have q3 := Quiet.foldl (fun s i => removeSrc s m i) (fun i => quiet_removeSrc m i) (sortSrcs s md.srcs)
      exact ⟨_, Quiet.comp q3 q2, rfl⟩
    · simp only [hs]
      have q2 := quiet_updMod m (fun md => { md with pipePolled := false }) (fun md => rfl)
      have q3 := Quiet.foldl (fun s i => s.updSrc i fun x => { x with polled := false }) (fun i => quiet_updSrc i _) md.srcs
      exact ⟨_, Quiet.comp q3 q2, rfl⟩

theorem quiet_manageSrcsAdd (m) : Quiet (fun s => manageSrcsAdd s m) := by
  apply Quiet.pointwise'
  intro s
  unfold manageSrcsAdd
  split
  · exact ⟨_, Quiet.id, rfl⟩
  · rename_i md _
    have q2 := quiet_updMod m (fun md => { md with pipePolled := md.pipe.isSome }) (fun md => rfl)
    have q3 := Quiet.foldl (fun s i => s.updSrc i fun x => { x with polled := true }) (fun i => quiet_updSrc i _) md.srcs
    exact ⟨_, Quiet.comp q3 q2, rfl⟩

theorem quiet_resetModule (m) : Quiet (fun s => resetModule s m) := by
  apply Quiet.pointwise'
  intro s
  unfold resetModule
  split
  · exact ⟨_, Quiet.id, rfl⟩
  · rename_i md _
    have q1 : Quiet (fun s => if md.pipe.isSome then s.emit (.close .pipeW) else s) :=
      Quiet.ite _ (quiet_emit _) Quiet.id
    have q2 := Quiet.foldl (fun s i => removeSrc s m i) (fun i => quiet_removeSrc m i) md.subs
    have q3 := quiet_destroyEvts md.stash []
    have q4 := quiet_destroyEvts md.batch []
    have q5 := quiet_updMod m Mod.reset (fun md => rfl)
    exact ⟨_, Quiet.comp q5 (Quiet.comp q4 (Quiet.comp q3 (Quiet.comp q2 q1))), rfl⟩

@[simp] theorem sendMsg_sigs (s : St) (m) (r) (t) (p) (af) : (sendMsg s m r t p af).sigs = s.sigs := (quiet_sendMsg m r t p af).sigs s
@[simp] theorem sendMsg_ctx (s : St) (m) (r) (t) (p) (af) : (sendMsg s m r t p af).ctx = s.ctx := (quiet_sendMsg m r t p af).ctx s
@[simp] theorem sendMsg_trans (s : St) (m) (r) (t) (p) (af) : (sendMsg s m r t p af).trans = s.trans := (quiet_sendMsg m r t p af).trans s
@[simp] theorem sendMsg_deadCtx (s : St) (m) (r) (t) (p) (af) : (sendMsg s m r t p af).deadCtx = s.deadCtx := (quiet_sendMsg m r t p af).dead s
@[simp] theorem sendMsg_nextCtx (s : St) (m) (r) (t) (p) (af) : (sendMsg s m r t p af).nextCtx = s.nextCtx := (quiet_sendMsg m r t p af).next s
@[simp] theorem destroySrc_sigs (s : St) (i) : (destroySrc s i).sigs = s.sigs := (quiet_destroySrc i).sigs s
@[simp] theorem destroySrc_ctx (s : St) (i) : (destroySrc s i).ctx = s.ctx := (quiet_destroySrc i).ctx s
@[simp] theorem destroySrc_trans (s : St) (i) : (destroySrc s i).trans = s.trans := (quiet_destroySrc i).trans s
@[simp] theorem destroySrc_deadCtx (s : St) (i) : (destroySrc s i).deadCtx = s.deadCtx := (quiet_destroySrc i).dead s
@[simp] theorem destroySrc_nextCtx (s : St) (i) : (destroySrc s i).nextCtx = s.nextCtx := (quiet_destroySrc i).next s
@[simp] theorem removeSrc_sigs (s : St) (m) (i) : (removeSrc s m i).sigs = s.sigs := (quiet_removeSrc m i).sigs s
@[simp] theorem removeSrc_ctx (s : St) (m) (i) : (removeSrc s m i).ctx = s.ctx := (quiet_removeSrc m i).ctx s
@[simp] theorem removeSrc_trans (s : St) (m) (i) : (removeSrc s m i).trans = s.trans := (quiet_removeSrc m i).trans s
@[simp] theorem removeSrc_deadCtx (s : St) (m) (i) : (removeSrc s m i).deadCtx = s.deadCtx := (quiet_removeSrc m i).dead s
@[simp] theorem removeSrc_nextCtx (s : St) (m) (i) : (removeSrc s m i).nextCtx = s.nextCtx := (quiet_removeSrc m i).next s
@[simp] theorem flushDestroy_sigs (s : St) (m) : (flushDestroy s m).sigs = s.sigs := (quiet_flushDestroy m).sigs s
@[simp] theorem flushDestroy_ctx (s : St) (m) : (flushDestroy s m).ctx = s.ctx := (quiet_flushDestroy m).ctx s
@[simp] theorem flushDestroy_trans (s : St) (m) : (flushDestroy s m).trans = s.trans := (quiet_flushDestroy m).trans s
@[simp] theorem flushDestroy_deadCtx (s : St) (m) : (flushDestroy s m).deadCtx = s.deadCtx := (quiet_flushDestroy m).dead s
@[simp] theorem flushDestroy_nextCtx (s : St) (m) : (flushDestroy s m).nextCtx = s.nextCtx := (quiet_flushDestroy m).next s
@[simp] theorem manageSrcsRm_sigs (s : St) (m) (b) : (manageSrcsRm s m b).sigs = s.sigs := (quiet_manageSrcsRm m b).sigs s
@[simp] theorem manageSrcsRm_ctx (s : St) (m) (b) : (manageSrcsRm s m b).ctx = s.ctx := (quiet_manageSrcsRm m b).ctx s
@[simp] theorem manageSrcsRm_trans (s : St) (m) (b) : (manageSrcsRm s m b).trans = s.trans := (quiet_manageSrcsRm m b).trans s
@[simp] theorem manageSrcsRm_deadCtx (s : St) (m) (b) : (manageSrcsRm s m b).deadCtx = s.deadCtx := (quiet_manageSrcsRm m b).dead s
@[simp] theorem manageSrcsRm_nextCtx (s : St) (m) (b) : (manageSrcsRm s m b).nextCtx = s.nextCtx := (quiet_manageSrcsRm m b).next s
@[simp] theorem manageSrcsAdd_sigs (s : St) (m) : (manageSrcsAdd s m).sigs = s.sigs := (quiet_manageSrcsAdd m).sigs s
@[simp] theorem manageSrcsAdd_ctx (s : St) (m) : (manageSrcsAdd s m).ctx = s.ctx := (quiet_manageSrcsAdd m).ctx s
@[simp] theorem manageSrcsAdd_trans (s : St) (m) : (manageSrcsAdd s m).trans = s.trans := (quiet_manageSrcsAdd m).trans s
@[simp] theorem manageSrcsAdd_deadCtx (s : St) (m) : (manageSrcsAdd s m).deadCtx = s.deadCtx := (quiet_manageSrcsAdd m).dead s
@[simp] theorem manageSrcsAdd_nextCtx (s : St) (m) : (manageSrcsAdd s m).nextCtx = s.nextCtx := (quiet_manageSrcsAdd m).next s
@[simp] theorem resetModule_sigs (s : St) (m) : (resetModule s m).sigs = s.sigs := (quiet_resetModule m).sigs s
@[simp] theorem resetModule_ctx (s : St) (m) : (resetModule s m).ctx = s.ctx := (quiet_resetModule m).ctx s
@[simp] theorem resetModule_trans (s : St) (m) : (resetModule s m).trans = s.trans := (quiet_resetModule m).trans s
@[simp] theorem resetModule_deadCtx (s : St) (m) : (resetModule s m).deadCtx = s.deadCtx := (quiet_resetModule m).dead s
@[simp] theorem resetModule_nextCtx (s : St) (m) : (resetModule s m).nextCtx = s.nextCtx := (quiet_resetModule m).next s
@[simp] theorem destroyEvts_sigs (s : St) (e) (k) : (destroyEvts s e k).sigs = s.sigs := (quiet_destroyEvts e k).sigs s
@[simp] theorem destroyEvts_ctx (s : St) (e) (k) : (destroyEvts s e k).ctx = s.ctx := (quiet_destroyEvts e k).ctx s
@[simp] theorem destroyEvts_trans (s : St) (e) (k) : (destroyEvts s e k).trans = s.trans := (quiet_destroyEvts e k).trans s
@[simp] theorem destroyEvts_deadCtx (s : St) (e) (k) : (destroyEvts s e k).deadCtx = s.deadCtx := (quiet_destroyEvts e k).dead s
@[simp] theorem destroyEvts_nextCtx (s : St) (e) (k) : (destroyEvts s e k).nextCtx = s.nextCtx := (quiet_destroyEvts e k).next s

end Lm.Core
