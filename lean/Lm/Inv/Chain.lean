import Lm.Struct.Chain
/-!
# Lemmas about chains with node identities: positions of links, well-formedness

Helper lemmas for property C12 (`Lm.Props.C12`).
-/
namespace Lm.Struct

/-! ## `posOf` / `linkPos` -/

theorem posOf_lt {n : NodeId} : ∀ {c : Chain} {i : Nat}, posOf n c = some i → i < c.length
  | [], i, h => by simp [posOf] at h
  | x :: xs, i, h => by
    simp only [posOf] at h
    split at h
    · cases h; simp
    · cases hp : posOf n xs with
      | none => simp [hp] at h
      | some j =>
        simp [hp] at h
        have := posOf_lt hp
        simp; omega

theorem posOf_getElem {n : NodeId} : ∀ {c : Chain} {i : Nat}, posOf n c = some i → ∃ nd, c[i]? = some nd ∧ nd.id = n
  | [], i, h => by simp [posOf] at h
  | x :: xs, i, h => by
    simp only [posOf] at h
    split at h
    · cases h; exact ⟨x, by simp, by assumption⟩
    · cases hp : posOf n xs with
      | none => simp [hp] at h
      | some j =>
        simp [hp] at h
        obtain ⟨nd, h1, h2⟩ := posOf_getElem hp
        subst h
        exact ⟨nd, by simpa using h1, h2⟩

theorem posOf_none_iff {n : NodeId} : ∀ {c : Chain}, posOf n c = none ↔ n ∉ ids c
  | [] => by simp [posOf, ids]
  | x :: xs => by
    have ih := @posOf_none_iff n xs
    simp only [posOf, ids, List.map_cons, List.mem_cons] at *
    split
    · rename_i h; simp [h]
    · rename_i h
      have : ¬ n = x.id := fun e => h e.symm
      simp [this, ih]

/-- with distinct identities the node at index `i` is found at index `i` -/
theorem posOf_of_getElem : ∀ {c : Chain} {i : Nat} {nd : Node}, (ids c).Nodup → c[i]? = some nd → posOf nd.id c = some i
  | [], i, nd, _, h => by simp at h
  | x :: xs, 0, nd, _, h => by simp at h; subst h; simp [posOf]
  | x :: xs, i + 1, nd, hn, h => by
    simp at h
    simp only [ids, List.map_cons, List.nodup_cons] at hn
    have hmem : nd.id ∈ ids xs := by
      simp only [ids, List.mem_map]
      exact ⟨nd, List.mem_of_getElem? h, rfl⟩
    have hne : x.id ≠ nd.id := fun e => hn.1 (e ▸ hmem)
    simp [posOf, hne, posOf_of_getElem hn.2 h]

theorem linkPos_le {c : Chain} {l : Link} {p : Nat} (h : linkPos c l = some p) : p ≤ c.length := by
  cases l with
  | head => simp [linkPos] at h; omega
  | after n =>
    simp only [linkPos] at h
    cases hp : posOf n c with
    | none => simp [hp] at h
    | some i => simp [hp] at h; have := posOf_lt hp; omega

theorem linkPos_after_getElem {c : Chain} {p : Nat} {nd : Node} (hn : (ids c).Nodup) (h : c[p]? = some nd) :
    linkPos c (.after nd.id) = some (p + 1) := by
  simp [linkPos, posOf_of_getElem hn h]

/-- `posOf` only looks at the identities -/
theorem posOf_congr {n : NodeId} : ∀ {c c' : Chain}, ids c = ids c' → posOf n c = posOf n c'
  | [], [], _ => rfl
  | [], _ :: _, h => by simp [ids] at h
  | _ :: _, [], h => by simp [ids] at h
  | x :: xs, y :: ys, h => by
    simp only [ids, List.map_cons, List.cons.injEq] at h
    simp only [posOf, h.1]
    rw [posOf_congr (c := xs) (c' := ys) h.2]

theorem linkPos_congr {c c' : Chain} (l : Link) (h : ids c = ids c') : linkPos c l = linkPos c' l := by
  cases l with
  | head => rfl
  | after n => simp [linkPos, posOf_congr h]

/-- a node found in front of index `p` is found at the same place whatever follows index `p` -/
theorem posOf_take_append {n : NodeId} : ∀ {c : Chain} {i p : Nat} (r : Chain), posOf n c = some i → i < p →
    posOf n (c.take p ++ r) = some i
  | [], i, p, r, h, _ => by simp [posOf] at h
  | x :: xs, i, 0, r, h, hp => by omega
  | x :: xs, i, p + 1, r, h, hp => by
    simp only [posOf] at h
    simp only [List.take_succ_cons, List.cons_append, posOf]
    split
    · rename_i e; simp [e] at h; exact congrArg some h
    · rename_i e
      simp [e] at h
      obtain ⟨j, hj, rfl⟩ := h
      simp [posOf_take_append r hj (by omega : j < p)]

/-- the link an iterator holds stays where it is when the chain changes at or behind it -/
theorem linkPos_take_append {c : Chain} {l : Link} {p : Nat} (r : Chain) (h : linkPos c l = some p) :
    linkPos (c.take p ++ r) l = some p := by
  cases l with
  | head => simpa [linkPos] using h
  | after n =>
    simp only [linkPos] at h ⊢
    cases hp : posOf n c with
    | none => simp [hp] at h
    | some i =>
      simp [hp] at h
      subst h
      simp [posOf_take_append r hp (by omega : i < i + 1)]

/-- appending behind the last node moves no link -/
theorem linkPos_append {c : Chain} {l : Link} {p : Nat} (r : Chain) (h : linkPos c l = some p) :
    linkPos (c ++ r) l = some p := by
  cases l with
  | head => simpa [linkPos] using h
  | after n =>
    simp only [linkPos] at h ⊢
    cases hp : posOf n c with
    | none => simp [hp] at h
    | some i =>
      simp [hp] at h
      subst h
      have := posOf_take_append (p := c.length) r hp (posOf_lt hp)
      rw [List.take_length] at this
      simp [this]

theorem linkPos_eraseAt {c : Chain} {l : Link} {p : Nat} (h : linkPos c l = some p) :
    linkPos (eraseAt c p) l = some p := linkPos_take_append _ h

theorem linkPos_insertAt {c : Chain} {l : Link} {p : Nat} (nd : Node) (h : linkPos c l = some p) :
    linkPos (insertAt c p nd) l = some p := linkPos_take_append _ h

/-! ## `eraseAt`, `insertAt`, `setAt` on identities and values -/

theorem ids_setAt (c : Chain) (p : Nat) (v : Val) : ids (setAt c p v) = ids c := by
  unfold setAt
  split
  · rename_i nd h
    simp only [ids, List.map_set]
    apply List.ext_getElem?
    intro i
    simp only [List.getElem?_set, List.getElem?_map, List.length_map]
    split
    · rename_i e; subst e
      have : p < c.length := by
        rcases Nat.lt_or_ge p c.length with h' | h'
        · exact h'
        · simp [List.getElem?_eq_none h'] at h
      have e : c[p] = nd := by simpa [List.getElem?_eq_getElem this] using h
      simp [this, e]
    · rfl
  · rfl

theorem vals_setAt (c : Chain) (p : Nat) (v : Val) : vals (setAt c p v) = (vals c).set p v := by
  unfold setAt
  split
  · simp [vals, List.map_set]
  · rename_i h
    simp only [vals]
    have : c.length ≤ p := by simpa using h
    rw [List.set_eq_of_length_le (by simpa using this)]

theorem length_setAt (c : Chain) (p : Nat) (v : Val) : (setAt c p v).length = c.length := by
  have := congrArg List.length (ids_setAt c p v)
  simpa [ids] using this

theorem linkPos_setAt {c : Chain} (l : Link) (p : Nat) (v : Val) : linkPos (setAt c p v) l = linkPos c l :=
  linkPos_congr l (ids_setAt c p v)

theorem vals_eraseAt (c : Chain) (p : Nat) : vals (eraseAt c p) = (vals c).eraseIdx p := by
  simp [vals, eraseAt, List.eraseIdx_eq_take_drop_succ, List.map_take, List.map_drop]

theorem eraseAt_sublist (c : Chain) (p : Nat) : (eraseAt c p).Sublist c := by
  have h := List.Sublist.append (List.Sublist.refl (c.take p)) (List.drop_sublist 1 (c.drop p))
  rw [List.take_append_drop] at h
  simpa [eraseAt, List.drop_drop, Nat.add_comm] using h

theorem length_eraseAt {c : Chain} {p : Nat} (h : p < c.length) : (eraseAt c p).length = c.length - 1 := by
  simp [eraseAt]; omega

theorem length_insertAt {c : Chain} {p : Nat} (nd : Node) (h : p ≤ c.length) : (insertAt c p nd).length = c.length + 1 := by
  simp [insertAt]; omega

theorem insertAt_perm (c : Chain) (p : Nat) (nd : Node) : (insertAt c p nd).Perm (nd :: c) := by
  have := @List.perm_middle _ nd (c.take p) (c.drop p)
  rwa [List.take_append_drop] at this

theorem vals_insertAt {c : Chain} {p : Nat} (nd : Node) (h : p ≤ c.length) : vals (insertAt c p nd) = (vals c).insertIdx p nd.val := by
  apply List.ext_getElem?
  intro i
  simp only [vals, insertAt, List.getElem?_insertIdx, List.getElem?_map, List.length_map]
  rw [List.getElem?_append]
  simp only [List.length_take, Nat.min_eq_left h]
  split
  · rename_i hi
    have : i < c.length := by omega
    simp [List.getElem?_take, hi]
  · rename_i hi
    split
    · rename_i e; subst e; simp [h]
    · have : i - p = (i - 1 - p) + 1 := by omega
      rw [this]
      simp only [List.getElem?_cons_succ, List.getElem?_drop]
      congr 2; omega

theorem getElem?_split {c : Chain} {p : Nat} {nd : Node} (h : c[p]? = some nd) :
    c = c.take p ++ nd :: c.drop (p + 1) := by
  have hp : p < c.length := by
    rcases Nat.lt_or_ge p c.length with h' | h'
    · exact h'
    · simp [List.getElem?_eq_none h'] at h
  have : c[p] = nd := by simpa [List.getElem?_eq_getElem hp] using h
  rw [← this, List.getElem_cons_drop, List.take_append_drop]

end Lm.Struct

namespace Lm.Struct

/-! ## Well-formedness of a container object -/

/-- the `len` field is the chain length, node identities are distinct (and older than the
allocation counter), no stored user pointer is NULL -/
structure Cont.WF (q : Cont) : Prop where
  len : q.len = q.chain.length
  nodup : (ids q.chain).Nodup
  fresh : ∀ nd ∈ q.chain, nd.id < q.fresh
  nonnull : ∀ nd ∈ q.chain, nd.val ≠ 0

/-- identity of the last node of the chain: what a correct `tail` pointer holds -/
def lastId (c : Chain) : Option NodeId := (c.getLast?).map (·.id)

theorem ids_eraseAt_sublist (c : Chain) (p : Nat) : (ids (eraseAt c p)).Sublist (ids c) :=
  (eraseAt_sublist c p).map _

theorem Cont.WF.erase {q : Cont} (h : q.WF) {p : Nat} (hp : p < q.chain.length) (t : Option NodeId) :
    Cont.WF { q with chain := eraseAt q.chain p, len := q.len - 1, tail := t } where
  len := by simp [length_eraseAt hp, h.len]
  nodup := List.Nodup.sublist (ids_eraseAt_sublist _ _) h.nodup
  fresh := fun nd hnd => h.fresh nd ((eraseAt_sublist _ _).subset hnd)
  nonnull := fun nd hnd => h.nonnull nd ((eraseAt_sublist _ _).subset hnd)

theorem Cont.WF.insert {q : Cont} (h : q.WF) {p : Nat} (hp : p ≤ q.chain.length) {v : Val} (hv : v ≠ 0) :
    Cont.WF { q with chain := insertAt q.chain p ⟨q.fresh, v⟩, len := q.len + 1, fresh := q.fresh + 1 } where
  len := by simp [length_insertAt _ hp, h.len]
  nodup := by
    have hp := (insertAt_perm q.chain p ⟨q.fresh, v⟩).map (·.id)
    show (ids (insertAt q.chain p ⟨q.fresh, v⟩)).Nodup
    unfold ids
    rw [hp.nodup_iff, List.map_cons, List.nodup_cons]
    refine ⟨?_, h.nodup⟩
    intro hm
    obtain ⟨nd, hnd, e⟩ := List.mem_map.mp hm
    have := h.fresh nd hnd
    simp at e; omega
  fresh := by
    intro nd hnd
    have := (insertAt_perm q.chain p ⟨q.fresh, v⟩).mem_iff.mp hnd
    simp only [List.mem_cons] at this
    rcases this with rfl | hm
    · simp
    · have := h.fresh nd hm; simp; omega
  nonnull := by
    intro nd hnd
    have := (insertAt_perm q.chain p ⟨q.fresh, v⟩).mem_iff.mp hnd
    simp only [List.mem_cons] at this
    rcases this with rfl | hm
    · exact hv
    · exact h.nonnull nd hm

theorem Cont.WF.set {q : Cont} (h : q.WF) (p : Nat) {v : Val} (hv : v ≠ 0) :
    Cont.WF { q with chain := setAt q.chain p v } where
  len := by simp [length_setAt, h.len]
  nodup := by show (ids (setAt q.chain p v)).Nodup; rw [ids_setAt]; exact h.nodup
  fresh := by
    intro nd hnd
    show nd.id < q.fresh
    have hid : nd.id ∈ ids (setAt q.chain p v) := List.mem_map.mpr ⟨nd, hnd, rfl⟩
    rw [ids_setAt] at hid
    obtain ⟨nd', hnd', e⟩ := List.mem_map.mp hid
    rw [← e]; exact h.fresh nd' hnd'
  nonnull := by
    intro nd hnd
    simp only [setAt] at hnd
    split at hnd
    · rcases List.mem_or_eq_of_mem_set hnd with hm | rfl
      · exact h.nonnull nd hm
      · exact hv
    · exact h.nonnull nd hnd

/-! ## The queue's tail pointer -/

/-- with distinct identities only the last node carries the last node's identity -/
theorem last_unique {c : Chain} {p : Nat} {tmp : Node} (hn : (ids c).Nodup) (h : c[p]? = some tmp)
    (ht : lastId c = some tmp.id) : p + 1 = c.length := by
  simp only [lastId, List.getLast?_eq_getElem?, Option.map_eq_some_iff] at ht
  obtain ⟨l, hl, e⟩ := ht
  have h1 := posOf_of_getElem hn hl
  have h2 := posOf_of_getElem hn h
  rw [e, h2] at h1
  have : p < c.length := by
    rcases Nat.lt_or_ge p c.length with h' | h'
    · exact h'
    · simp [List.getElem?_eq_none h'] at h
  simp at h1; omega

theorem lastId_of_last {c : Chain} {p : Nat} {tmp : Node} (h : c[p]? = some tmp) (hp : p + 1 = c.length) :
    lastId c = some tmp.id := by
  have : c.length - 1 = p := by omega
  simp [lastId, List.getLast?_eq_getElem?, this, h]

/-- unlinking a node that is not the last one keeps the last node -/
theorem lastId_eraseAt_of_lt {c : Chain} {p : Nat} (hp : p + 1 < c.length) : lastId (eraseAt c p) = lastId c := by
  have : ¬ c.length ≤ p + 1 := by omega
  have hl : c.getLast? ≠ none := by simp [List.getLast?_eq_none_iff]; intro e; simp [e] at hp
  cases hc : c.getLast? with
  | none => exact absurd hc hl
  | some x => simp [lastId, eraseAt, List.getLast?_append, List.getLast?_drop, this, hc]

/-- unlinking the last node: the new last node is the one holding the link (D-12a) -/
theorem lastId_eraseAt_last {c : Chain} {p : Nat} {l : Link} (hl : linkPos c l = some p) (hp : p + 1 = c.length) :
    lastId (eraseAt c p) = l.owner := by
  have hd : c.drop (p + 1) = [] := by simp [List.drop_eq_nil_iff]; omega
  simp only [lastId, eraseAt, hd, List.append_nil]
  cases l with
  | head =>
    simp [linkPos] at hl; subst hl; simp [Link.owner]
  | after n =>
    simp only [linkPos] at hl
    cases hq : posOf n c with
    | none => simp [hq] at hl
    | some i =>
      simp [hq] at hl
      subst hl
      obtain ⟨nd, h1, h2⟩ := posOf_getElem hq
      simp [List.getLast?_take, h1, h2, Link.owner]

theorem lastId_eq_ids (c : Chain) : lastId c = (ids c).getLast? := by
  simp [lastId, ids, List.getLast?_map]

theorem lastId_setAt (c : Chain) (p : Nat) (v : Val) : lastId (setAt c p v) = lastId c := by
  rw [lastId_eq_ids, lastId_eq_ids, ids_setAt]

theorem lastId_concat (c : Chain) (nd : Node) : lastId (c ++ [nd]) = some nd.id := by
  simp [lastId]

end Lm.Struct
