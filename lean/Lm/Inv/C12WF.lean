import Lm.Inv.C12List
/-! # The well-formedness invariant in the form used by the C12 theorems -/
namespace Lm.Struct
open Lm.Spec.C12

/-- The well-formedness invariant of a state of kind `k`. -/
structure WellFormed (k : Kind) (s : St) : Prop where
  /-- no NULL / dangling dereference has happened -/
  nofault : s.fault = false
  /-- `len` is the chain length, node identities are distinct, no stored pointer is NULL, and the
  queue's `tail` names the last node (is NULL iff the queue is empty) -/
  cont : ∀ q, s.obj = some q → q.len = q.chain.length ∧ (ids q.chain).Nodup ∧ (∀ nd ∈ q.chain, nd.val ≠ 0) ∧
    (k = .queue → q.tail = lastId q.chain)
  /-- a live iterator points at a link of the chain (never into a freed node); for queue and stack
  it is on an element unless that element was just removed through it -/
  itr : ∀ q it, s.obj = some q → s.itr = some it → ∃ p, linkPos q.chain it.elem = some p ∧ p ≤ q.chain.length ∧
    (k ≠ .list → it.removed = false → p < q.chain.length)
  /-- no iterator outlives its container -/
  noitr : s.obj = none → s.itr = none

theorem wellFormed_of_R {k : Kind} {s : St} {a : ASt} (h : R k s a) : WellFormed k s := by
  obtain ⟨obj, itr, log, fault⟩ := s
  cases obj with
  | none =>
    simp only [R] at h
    exact ⟨h.1, (fun q hq => nomatch hq), (fun q it hq => nomatch hq), fun _ => h.2.2.2.2.2⟩
  | some q =>
    simp only [R] at h
    obtain ⟨hf, _, _, _, _, _, wf, tl, hi⟩ := h
    refine ⟨hf, ?_, ?_, (fun hq => nomatch hq)⟩
    · intro q' hq; cases hq
      refine ⟨wf.len, wf.nodup, wf.nonnull, ?_⟩
      intro hk; subst hk; exact tl
    · intro q' it hq hit; cases hq
      simp only at hit; subst hit
      obtain ⟨ac, _, hpos, hrem, _, hk⟩ := hi
      refine ⟨ac.pos, hpos, linkPos_le hpos, ?_⟩
      intro hne hr
      cases k <;> simp_all

/-- content of the container in container order (empty for a NULL handle) -/
def content (s : St) : List Val := match s.obj with | some q => vals q.chain | none => []

theorem content_of_R {k : Kind} {s : St} {a : ASt} (h : R k s a) : content s = a.xs ∧ s.log.map absEv = a.out := by
  obtain ⟨obj, itr, log, fault⟩ := s
  cases obj with
  | none => simp only [R] at h; exact ⟨h.2.2.2.1.symm, h.2.1.symm⟩
  | some q => simp only [R] at h; exact ⟨h.2.2.2.2.2.1.symm, h.2.1.symm⟩


end Lm.Struct
