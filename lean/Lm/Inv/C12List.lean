import Lm.Inv.C12Stack
/-! # `list.c` refines the list array machine -/
namespace Lm.Struct.ListM
open Lm.Struct Lm.Spec.C12

/-! ## The scan loop (`l->len` rounds) finds the first match -/

theorem scan_eq (p : Val → Bool) : ∀ (c : Chain) (i : Nat),
    scan p c.length c i =
      if (vals c).findIdx p < c.length then .hit (i + (vals c).findIdx p) else .miss (i + c.length)
  | [], i => by simp [scan, vals]
  | nd :: rest, i => by
    simp only [List.length_cons, scan, vals, List.map_cons, List.findIdx_cons]
    cases hp : p nd.val with
    | true => simp
    | false =>
      have ih := scan_eq p rest (i + 1)
      simp only [vals] at ih
      simp only [Bool.false_eq_true, if_false, ih, cond_false, Nat.add_lt_add_iff_right]
      by_cases hlt : List.findIdx p (List.map (fun x => x.val) rest) < rest.length
      · simp only [hlt, if_true, Scan.hit.injEq]; omega
      · simp only [hlt, if_false, Scan.miss.injEq]; omega

theorem isMatch_eq_hits (eq : Val → Val → Bool) (cmp : Bool) (v : Val) :
    isMatch eq cmp v = Spec.C12.ListM.hits eq cmp v := rfl

theorem R_list_tail {q : Cont} (tl : tailOK .list q) (c : Chain) (n f : Nat) :
    tailOK .list { q with chain := c, len := n, fresh := f } := tl

/-! ## insert / remove / find -/

theorem insert_R (eq : Val → Val → Bool) {s : St} {a : ASt} (v : Val) (h : R .list s a) (hi : s.itr = none) :
    R .list (insert eq s v).1 (Spec.C12.ListM.step eq a (.ins v)).1 ∧
    (insert eq s v).2 = (Spec.C12.ListM.step eq a (.ins v)).2 := by
  obtain ⟨alive, dt, cmp, xs, cur, out⟩ := a
  obtain ⟨obj, itr, log, fault⟩ := s
  simp only at hi; subst hi
  cases obj with
  | none =>
    have h' := h
    simp only [R] at h; obtain ⟨rfl, rfl, rfl, rfl, rfl, _⟩ := h
    simp [insert, Spec.C12.ListM.step]; exact h'
  | some q =>
    have h' := h
    simp only [R] at h
    obtain ⟨rfl, rfl, rfl, rfl, rfl, rfl, wf, tl, rfl⟩ := h
    by_cases hv : v = 0
    · simp [insert, Spec.C12.ListM.step, hv]; exact h'
    · -- both exits of the loop leave `tmp` at index `insPos`
      have key : ∀ i, i ≤ q.chain.length → i = Spec.C12.ListM.insPos eq ⟨true, q.dtor, q.cmp, vals q.chain, none, log.map absEv⟩ v →
          R .list ⟨some (insertNode q i v), none, log, false⟩
            ⟨true, q.dtor, q.cmp, (vals q.chain).insertIdx (Spec.C12.ListM.insPos eq ⟨true, q.dtor, q.cmp, vals q.chain, none, log.map absEv⟩ v) v, none, log.map absEv⟩ := by
        intro i hi e
        rw [← e]
        have hw := wf.insert hi hv
        simp only [R, insertNode, vals_insertAt _ hi]
        exact ⟨trivial, trivial, trivial, trivial, trivial, trivial, hw, tl, trivial⟩
      have hle : (vals q.chain).findIdx (fun x => eq v x) ≤ q.chain.length := by
        have := @List.findIdx_le_length _ (fun x => eq v x) (vals q.chain); simpa [vals] using this
      have hscan : ∃ j, j ≤ q.chain.length ∧
          j = Spec.C12.ListM.insPos eq ⟨true, q.dtor, q.cmp, vals q.chain, none, log.map absEv⟩ v ∧
          ((if q.cmp then scan (fun x => eq v x) q.len q.chain 0 else Scan.miss 0) = .hit j ∨
           (if q.cmp then scan (fun x => eq v x) q.len q.chain 0 else Scan.miss 0) = .miss j) := by
        cases hc : q.cmp with
        | false => exact ⟨0, Nat.zero_le _, by simp [Spec.C12.ListM.insPos, hc], Or.inr (by simp)⟩
        | true =>
          simp only [if_true, wf.len, scan_eq, Nat.zero_add]
          by_cases hlt : (vals q.chain).findIdx (fun x => eq v x) < q.chain.length
          · exact ⟨_, hle, by simp [Spec.C12.ListM.insPos, hc], Or.inl (by simp [hlt])⟩
          · have e : (vals q.chain).findIdx (fun x => eq v x) = q.chain.length := by omega
            exact ⟨q.chain.length, Nat.le_refl _, by simp [Spec.C12.ListM.insPos, hc, e], Or.inr (by simp [hlt])⟩
      obtain ⟨j, hj, ej, hs⟩ := hscan
      have hr := key j hj ej
      have hspec : Spec.C12.ListM.step eq ⟨true, q.dtor, q.cmp, vals q.chain, none, log.map absEv⟩ (.ins v) =
          (⟨true, q.dtor, q.cmp, (vals q.chain).insertIdx (Spec.C12.ListM.insPos eq ⟨true, q.dtor, q.cmp, vals q.chain, none, log.map absEv⟩ v) v, none, log.map absEv⟩, .int 0) := by
        simp [Spec.C12.ListM.step, hv]
      rw [hspec]
      rcases hs with hs | hs <;> simp only [insert, hv, if_false, hs] <;> exact ⟨hr, trivial⟩

theorem WF_erase_list {q : Cont} (wf : q.WF) {p : Nat} (hp : p < q.chain.length) :
    Cont.WF { q with chain := eraseAt q.chain p, len := q.len - 1 } := by
  have := wf.erase hp q.tail
  exact this

/-- where the scan of `m_list_remove` / `m_list_find` ends: at the first match (`hit`) or behind the
last node (`miss`) -/
theorem scan_match (eq : Val → Val → Bool) {q : Cont} (wf : q.WF) (v : Val) :
    let j := (vals q.chain).findIdx (Spec.C12.ListM.hits eq q.cmp v)
    (j < q.chain.length ∧ scan (isMatch eq q.cmp v) q.len q.chain 0 = .hit j) ∨
    (j = q.chain.length ∧ scan (isMatch eq q.cmp v) q.len q.chain 0 = .miss j) := by
  intro j
  have hle : j ≤ q.chain.length := by
    have := @List.findIdx_le_length _ (Spec.C12.ListM.hits eq q.cmp v) (vals q.chain)
    rw [vals_length] at this; exact this
  rw [wf.len, scan_eq, isMatch_eq_hits]
  by_cases hlt : j < q.chain.length
  · left; exact ⟨hlt, by simp [j] at hlt ⊢; simp [hlt]⟩
  · right
    have e : j = q.chain.length := by omega
    refine ⟨e, ?_⟩
    have : ¬ (vals q.chain).findIdx (Spec.C12.ListM.hits eq q.cmp v) < q.chain.length := hlt
    simp [this, e.symm, j]

theorem remove_R (eq : Val → Val → Bool) {s : St} {a : ASt} (v : Val) (h : R .list s a) (hi : s.itr = none) :
    R .list (remove eq s v).1 (Spec.C12.ListM.step eq a (.rm v)).1 ∧
    (remove eq s v).2 = (Spec.C12.ListM.step eq a (.rm v)).2 := by
  by_cases hx : a.xs = []
  · have hn : ¬ cLen s.obj > 0 := by rw [R_cLen_pos h]; simp [hx]
    simp only [remove, hn, if_false, Spec.C12.ListM.step, hx, true_or, if_true]
    exact ⟨h, trivial⟩
  · have hpos : cLen s.obj > 0 := (R_cLen_pos h).mpr hx
    obtain ⟨alive, dt, cmp, xs, cur, out⟩ := a
    obtain ⟨obj, itr, log, fault⟩ := s
    simp only at hi; subst hi
    cases obj with
    | none => simp [cLen, EINVAL] at hpos
    | some q =>
      have h' := h
      simp only [R] at h
      obtain ⟨rfl, rfl, rfl, rfl, rfl, rfl, wf, tl, rfl⟩ := h
      simp only at hx
      by_cases hv : v = 0
      · simp only [remove, hpos, if_true, hv, Spec.C12.ListM.step, or_true]
        exact ⟨h', trivial⟩
      · simp only [remove, hpos, if_true, hv, if_false, Spec.C12.ListM.step, hx, or_self,
          List.find?_eq_getElem?_findIdx]
        rcases scan_match eq wf v with ⟨hlt, hs⟩ | ⟨he, hs⟩
        · have hnd : q.chain[(vals q.chain).findIdx (Spec.C12.ListM.hits eq q.cmp v)]? = some q.chain[(vals q.chain).findIdx (Spec.C12.ListM.hits eq q.cmp v)] :=
            List.getElem?_eq_getElem hlt
          simp only [hs, removeNode, hnd, vals_getElem?, Option.map_some]
          simp only [R, vals_eraseAt, absEv_callDtor]
          exact ⟨⟨trivial, trivial, trivial, trivial, trivial, trivial, WF_erase_list wf hlt, tl, trivial⟩, trivial⟩
        · have hnd : q.chain[(vals q.chain).findIdx (Spec.C12.ListM.hits eq q.cmp v)]? = none := by
            rw [he]; simp
          simp only [hs, removeNode, hnd, vals_getElem?, Option.map_none]
          exact ⟨h', trivial⟩

theorem find_R (eq : Val → Val → Bool) {s : St} {a : ASt} (v : Val) (h : R .list s a) :
    R .list (find eq s v).1 (Spec.C12.ListM.step eq a (.find v)).1 ∧
    (find eq s v).2 = (Spec.C12.ListM.step eq a (.find v)).2 := by
  obtain ⟨alive, dt, cmp, xs, cur, out⟩ := a
  obtain ⟨obj, itr, log, fault⟩ := s
  cases obj with
  | none =>
    have h' := h
    simp only [R] at h; obtain ⟨rfl, rfl, rfl, rfl, rfl, _⟩ := h
    by_cases hv : v = 0 <;> simp [find, Spec.C12.ListM.step, hv] <;> exact h'
  | some q =>
    have h' := h
    simp only [R] at h
    obtain ⟨rfl, rfl, rfl, rfl, rfl, rfl, wf, tl, hi⟩ := h
    by_cases hv : v = 0
    · simp [find, Spec.C12.ListM.step, hv]; exact h'
    · simp only [find, hv, if_false, Spec.C12.ListM.step, List.find?_eq_getElem?_findIdx]
      rcases scan_match eq wf v with ⟨hlt, hs⟩ | ⟨he, hs⟩
      · have hnd : q.chain[(vals q.chain).findIdx (Spec.C12.ListM.hits eq q.cmp v)]? = some q.chain[(vals q.chain).findIdx (Spec.C12.ListM.hits eq q.cmp v)] :=
          List.getElem?_eq_getElem hlt
        simp only [hs, hnd, vals_getElem?, Option.map_some]
        exact ⟨h', trivial⟩
      · have hnd : q.chain[(vals q.chain).findIdx (Spec.C12.ListM.hits eq q.cmp v)]? = none := by
          rw [he]; simp
        simp only [hs, hnd, vals_getElem?, Option.map_none]
        exact ⟨h', trivial⟩

/-! ## clear / free -/

theorem clearLoop_eq (d : Bool) : ∀ (c : Chain) (n : Nat) (log : List Ev),
    (clearLoop d c n log).1 = n - c.length ∧
    (clearLoop d c n log).2.map absEv = log.map absEv ++ drop d (vals c)
  | [], n, log => by simp [clearLoop, vals, drop_nil]
  | nd :: rest, n, log => by
    have ih := clearLoop_eq d rest (n - 1) (callDtor d log nd.val)
    simp only [clearLoop, ih, List.length_cons, absEv_callDtor, vals, List.map_cons]
    refine ⟨by omega, ?_⟩
    rw [drop_cons d nd.val (List.map (fun x => x.val) rest)]; simp [List.append_assoc, vals]

theorem clear_R {s : St} {a : ASt} (h : R .list s a) (hi : s.itr = none) :
    R .list (clear s).1 (Spec.C12.ListM.step eq a .clear).1 ∧ (clear s).2 = (Spec.C12.ListM.step eq a .clear).2 ∧
    (clear s).1.itr = none := by
  have ha := Stack.R_alive h
  cases ho : s.obj with
  | none =>
    simp only [ho, Option.isSome_none] at ha
    have hna : ¬ a.alive = true := by simp [ha]
    simp only [clear, ho, Spec.C12.ListM.step, if_neg hna]
    exact ⟨h, trivial, hi⟩
  | some q =>
    simp only [ho, Option.isSome_some] at ha
    obtain ⟨alive, dt, cmp, xs, cur, out⟩ := a
    obtain ⟨obj, itr, log, fault⟩ := s
    simp only at hi ho ha; subst hi ho ha
    simp only [R] at h
    obtain ⟨rfl, rfl, _, rfl, rfl, rfl, wf, tl, rfl⟩ := h
    simp only [clear, Spec.C12.ListM.step, if_true]
    by_cases hl : q.len > 0
    · have e := clearLoop_eq q.dtor q.chain q.len log
      simp only [hl, if_true, R, e.2]
      refine ⟨⟨trivial, trivial, trivial, trivial, trivial, by simp [vals], ?_, tl, trivial⟩, trivial, trivial⟩
      exact ⟨by have := e.1; simp only [wf.len] at this ⊢; simp [this], by simp [ids], by simp, by simp⟩
    · have hc : q.chain = [] := by
        have : q.chain.length = 0 := by rw [← wf.len]; omega
        exact List.eq_nil_of_length_eq_zero this
      simp only [hl, if_false, R, hc, vals, List.map_nil, drop_nil, List.append_nil]
      exact ⟨⟨trivial, trivial, trivial, trivial, trivial, by simp [hc], wf, tl, trivial⟩, trivial, trivial⟩

theorem free_R {s : St} {a : ASt} (h : R .list s a) :
    R .list (free s).1 (Spec.C12.ListM.step eq a .free).1 ∧ (free s).2 = (Spec.C12.ListM.step eq a .free).2 := by
  have h0 : R .list { s with itr := none } { a with cur := none } := by
    obtain ⟨obj, itr, log, fault⟩ := s
    cases obj with
    | none => simp only [R] at h ⊢; simp_all
    | some q => simp only [R] at h ⊢; simp_all
  have hc := clear_R (eq := eq) h0 rfl
  have ha := Stack.R_alive h
  cases ho : s.obj with
  | none =>
    simp only [ho, Option.isSome_none] at ha
    have e : clear { s with itr := none } = ({ s with itr := none }, .int EINVAL) := by simp [clear, ho]
    have hna : ¬ a.alive = true := by simp [ha]
    simp only [free, e, Spec.C12.ListM.step, if_neg hna]
    refine ⟨?_, by simp [EINVAL]⟩
    simp only [EINVAL]
    obtain ⟨obj, itr, log, fault⟩ := s
    simp only at ho; subst ho
    simp only [R] at h ⊢
    obtain ⟨h1, h2, h3, h4, h5, h6⟩ := h
    exact ⟨h1, h2, h3, h4, h5, trivial⟩
  | some q =>
    simp only [ho, Option.isSome_some] at ha
    have e2 : (clear { s with itr := none }).2 = .int 0 := by
      simp only [clear, ho]; split <;> rfl
    simp only [Spec.C12.ListM.step, if_pos ha] at hc ⊢
    obtain ⟨h1, _, h3⟩ := hc
    have e : clear { s with itr := none } = ((clear { s with itr := none }).1, .int 0) := by
      rw [← e2]
    simp only [free]
    rw [e]
    refine ⟨?_, rfl⟩
    simp only [R] at h1 ⊢
    exact ⟨h1.1, h1.2.1, trivial, trivial, trivial, h3⟩

/-! ## The list iterator -/

/-- `k` rounds of `elem = &(*elem)->next` (stopping at the end) move the link `k` nodes on -/
theorem advance_spec {c : Chain} (hn : (ids c).Nodup) : ∀ (k : Nat) (l : Link) (p : Nat), linkPos c l = some p →
    linkPos c (advance c k (l, p)).1 = some (advance c k (l, p)).2 ∧ (advance c k (l, p)).2 = min (p + k) c.length
  | 0, l, p, h => by
    have := linkPos_le h
    simp [advance, h]; omega
  | k + 1, l, p, h => by
    cases hc : c[p]? with
    | none =>
      have h1 : c.length ≤ p := by simpa using hc
      have h2 := linkPos_le h
      simp [advance, hc, h]; omega
    | some nd =>
      have ih := advance_spec hn k (.after nd.id) (p + 1) (linkPos_after_getElem hn hc)
      simp only [advance, hc]
      refine ⟨ih.1, ?_⟩
      rw [ih.2]; congr 1; omega

theorem noteCur_list {r : St × Ret} {q : Cont} {it : Itr} {p : Nat}
    (ho : r.1.obj = some q) (hi : r.1.itr = some it) (hf : r.1.fault = false)
    (hp : linkPos q.chain it.elem = some p) :
    noteCur r = ({ r.1 with log := r.1.log ++ [Ev.cur q.chain[p]?] }, r.2) := by
  unfold noteCur
  rw [ho, hi]
  simp [hf, hp]

theorem noteCur_list_noitr {r : St × Ret} (hi : r.1.itr = none) : noteCur r = r := by
  unfold noteCur
  rw [hi]

theorem itrNew_R {s : St} {a : ASt} (h : R .list s a) :
    R .list (noteCur (itrNew s)).1 (itNew a).1 ∧ (noteCur (itrNew s)).2 = (itNew a).2 := by
  obtain ⟨alive, dt, cmp, xs, cur, out⟩ := a
  obtain ⟨obj, itr, log, fault⟩ := s
  cases obj with
  | none =>
    simp only [R] at h
    obtain ⟨rfl, rfl, rfl, rfl, rfl, rfl⟩ := h
    simp [itrNew, Lm.Struct.itrNew, cLen, EINVAL, noteCur, itNew, R]
  | some q =>
    simp only [R] at h
    obtain ⟨rfl, rfl, rfl, rfl, rfl, rfl, wf, tl, hi⟩ := h
    cases hc : q.chain with
    | nil =>
      have : q.len = 0 := by simp [wf.len, hc]
      simp [itrNew, Lm.Struct.itrNew, cLen, this, noteCur, itNew, R, hc, vals, wf, tl]
    | cons nd rest =>
      have hl : 0 < q.len := by simp [wf.len, hc]
      have e1 : itrNew ⟨some q, itr, log, false⟩ = (⟨some q, some { elem := .head }, log, false⟩, .handle true) := by
        simp [itrNew, Lm.Struct.itrNew, cLen, hl]
      rw [e1, noteCur_list (q := q) (it := { elem := .head }) (p := 0) rfl rfl rfl rfl]
      simp [itNew, R, hc, vals, wf, tl, linkPos, absEv, ItrR]

theorem itrNext_R {s : St} {a : ASt} (h : R .list s a) :
    R .list (noteCur (itrNext s)).1 (Spec.C12.ListM.step eq a .itNext).1 ∧
    (noteCur (itrNext s)).2 = (Spec.C12.ListM.step eq a .itNext).2 := by
  obtain ⟨alive, dt, cmp, xs, cur, out⟩ := a
  obtain ⟨obj, itr, log, fault⟩ := s
  cases obj with
  | none =>
    simp only [R] at h
    obtain ⟨rfl, rfl, rfl, rfl, rfl, rfl⟩ := h
    simp [itrNext, noteCur, Spec.C12.ListM.step, R]
  | some q =>
    simp only [R] at h
    obtain ⟨rfl, rfl, rfl, rfl, rfl, rfl, wf, tl, hi⟩ := h
    cases itr with
    | none =>
      simp only at hi; subst hi
      simp [itrNext, noteCur, Spec.C12.ListM.step, R, wf, tl]
    | some it =>
      obtain ⟨ac, rfl, hpos, hrem, hdiff, hk'⟩ := hi
      obtain ⟨p, rem, df⟩ := ac
      simp only at hpos hrem hdiff hk'
      subst hrem hdiff
      -- the link and index the iterator is left on
      generalize hlp : (if (q.chain[p]?).isSome ∧ it.diff ≥ 0 then advance q.chain (it.diff.toNat + 1) (it.elem, p)
                else (it.elem, p)) = lp
      have hlp1 : linkPos q.chain lp.1 = some lp.2 ∧
          lp.2 = (if p < q.chain.length ∧ it.diff ≥ 0 then min (p + it.diff.toNat + 1) q.chain.length else p) := by
        by_cases hc : (q.chain[p]?).isSome ∧ it.diff ≥ 0
        · have hp : p < q.chain.length := by
            obtain ⟨x, hx⟩ := Option.isSome_iff_exists.mp hc.1
            exact lt_of_getElem?_some hx
          have := advance_spec wf.nodup (it.diff.toNat + 1) it.elem p hpos
          rw [if_pos hc] at hlp
          rw [← hlp, if_pos ⟨hp, hc.2⟩]
          exact ⟨this.1, by rw [this.2]; congr 1⟩
        · have hn : ¬ (p < q.chain.length ∧ it.diff ≥ 0) := by
            intro ⟨h1, h2⟩; exact hc ⟨by simp [List.getElem?_eq_getElem h1], h2⟩
          rw [if_neg hc] at hlp
          rw [← hlp, if_neg hn]
          exact ⟨hpos, rfl⟩
      have hspec : Spec.C12.ListM.step eq ⟨true, q.dtor, q.cmp, vals q.chain, some ⟨p, it.removed, it.diff⟩, log.map absEv⟩ .itNext =
          settle ⟨true, q.dtor, q.cmp, vals q.chain, some ⟨p, it.removed, it.diff⟩, log.map absEv⟩ lp.2 := by
        simp only [Spec.C12.ListM.step, vals_length, hlp1.2]
      rw [hspec]
      cases hnx : q.chain[lp.2]? with
      | none =>
        have e1 : itrNext ⟨some q, some it, log, false⟩ = (⟨some q, none, log, false⟩, .int 0) := by
          simp only [itrNext, hpos, hlp, hnx, Option.isNone_none, if_true]
        rw [e1, noteCur_list_noitr rfl]
        simp [settle, vals_getElem?, hnx, R, wf, tl]
      | some nd' =>
        have e1 : itrNext ⟨some q, some it, log, false⟩ =
            (⟨some q, some { it with elem := lp.1, diff := 0 }, log, false⟩, .int 0) := by
          simp only [itrNext, hpos, hlp, hnx, Option.isNone_some, Bool.false_eq_true, if_false]
        rw [e1, noteCur_list (q := q) (it := { it with elem := lp.1, diff := 0 }) (p := lp.2) rfl rfl rfl hlp1.1]
        simp [settle, vals_getElem?, hnx, R, wf, tl, absEv, ItrR, hlp1.1, hk']

theorem itrGet_R {s : St} {a : ASt} (h : R .list s a) :
    R .list (itrGet s).1 (Spec.C12.ListM.step eq a .itGet).1 ∧ (itrGet s).2 = (Spec.C12.ListM.step eq a .itGet).2 := by
  obtain ⟨alive, dt, cmp, xs, cur, out⟩ := a
  obtain ⟨obj, itr, log, fault⟩ := s
  cases obj with
  | none =>
    have h' := h
    simp only [R] at h
    obtain ⟨rfl, rfl, rfl, rfl, rfl, rfl⟩ := h
    simp [itrGet, Spec.C12.ListM.step]; exact h'
  | some q =>
    have h' := h
    simp only [R] at h
    obtain ⟨rfl, rfl, rfl, rfl, rfl, rfl, wf, tl, hi⟩ := h
    cases itr with
    | none =>
      simp only at hi; subst hi
      simp [itrGet, Spec.C12.ListM.step]; exact h'
    | some it =>
      obtain ⟨ac, rfl, hpos, hrem, hdiff, hk'⟩ := hi
      obtain ⟨p, rem, df⟩ := ac
      simp only at hpos hrem hdiff hk'
      subst hrem hdiff
      cases hnd : q.chain[p]? <;> simp [itrGet, Spec.C12.ListM.step, hpos, hnd, vals_getElem?] <;> exact h'

theorem itrSet_R {s : St} {a : ASt} (v : Val) (h : R .list s a) :
    R .list (itrSet s v).1 (Spec.C12.ListM.step eq a (.itSet v)).1 ∧
    (itrSet s v).2 = (Spec.C12.ListM.step eq a (.itSet v)).2 := by
  obtain ⟨alive, dt, cmp, xs, cur, out⟩ := a
  obtain ⟨obj, itr, log, fault⟩ := s
  cases obj with
  | none =>
    have h' := h
    simp only [R] at h
    obtain ⟨rfl, rfl, rfl, rfl, rfl, rfl⟩ := h
    simp [itrSet, Spec.C12.ListM.step]; exact h'
  | some q =>
    have h' := h
    simp only [R] at h
    obtain ⟨rfl, rfl, rfl, rfl, rfl, rfl, wf, tl, hi⟩ := h
    cases itr with
    | none =>
      simp only at hi; subst hi
      simp [itrSet, Spec.C12.ListM.step]; exact h'
    | some it =>
      obtain ⟨ac, rfl, hpos, hrem, hdiff, hk'⟩ := hi
      obtain ⟨p, rem, df⟩ := ac
      simp only at hpos hrem hdiff hk'
      subst hrem hdiff
      by_cases hv : v = 0
      · simp [itrSet, Spec.C12.ListM.step, hv]; exact h'
      · cases hnd : q.chain[p]? with
        | none =>
          have : q.chain.length ≤ p := by simpa using hnd
          simp [itrSet, Spec.C12.ListM.step, hv, hpos, hnd, vals_length, this]; exact h'
        | some nd =>
          have hp := lt_of_getElem?_some hnd
          have : ¬ q.chain.length ≤ p := by omega
          simp only [itrSet, Spec.C12.ListM.step, hv, hpos, hnd, vals_length, this, if_false, or_self]
          simp only [R, vals_setAt, linkPos_setAt, ItrR, hpos]
          refine ⟨⟨trivial, trivial, trivial, trivial, trivial, trivial, wf.set p hv, ?_, _, rfl, rfl, rfl, rfl, hk'⟩, trivial⟩
          simpa [tailOK] using tl

theorem itrInsert_R {s : St} {a : ASt} (v : Val) (h : R .list s a) :
    R .list (itrInsert s v).1 (Spec.C12.ListM.step eq a (.itIns v)).1 ∧
    (itrInsert s v).2 = (Spec.C12.ListM.step eq a (.itIns v)).2 := by
  obtain ⟨alive, dt, cmp, xs, cur, out⟩ := a
  obtain ⟨obj, itr, log, fault⟩ := s
  cases obj with
  | none =>
    have h' := h
    simp only [R] at h
    obtain ⟨rfl, rfl, rfl, rfl, rfl, rfl⟩ := h
    simp [itrInsert, Spec.C12.ListM.step]; exact h'
  | some q =>
    have h' := h
    simp only [R] at h
    obtain ⟨rfl, rfl, rfl, rfl, rfl, rfl, wf, tl, hi⟩ := h
    cases itr with
    | none =>
      simp only at hi; subst hi
      simp [itrInsert, Spec.C12.ListM.step]; exact h'
    | some it =>
      obtain ⟨ac, rfl, hpos, hrem, hdiff, hk'⟩ := hi
      obtain ⟨p, rem, df⟩ := ac
      simp only at hpos hrem hdiff hk'
      subst hrem hdiff
      by_cases hv : v = 0
      · simp [itrInsert, Spec.C12.ListM.step, hv]; exact h'
      · have hp := linkPos_le hpos
        simp only [itrInsert, Spec.C12.ListM.step, hv, hpos, if_false, insertNode]
        simp only [R, vals_insertAt _ hp, linkPos_insertAt _ hpos, ItrR]
        exact ⟨⟨trivial, trivial, trivial, trivial, trivial, trivial, wf.insert hp hv, tl, _, rfl, rfl, rfl, rfl, hk'⟩, trivial⟩

theorem itrRemove_R {s : St} {a : ASt} (h : R .list s a) :
    R .list (itrRemove s).1 (Spec.C12.ListM.step eq a .itRm).1 ∧
    (itrRemove s).2 = (Spec.C12.ListM.step eq a .itRm).2 := by
  obtain ⟨alive, dt, cmp, xs, cur, out⟩ := a
  obtain ⟨obj, itr, log, fault⟩ := s
  cases obj with
  | none =>
    have h' := h
    simp only [R] at h
    obtain ⟨rfl, rfl, rfl, rfl, rfl, rfl⟩ := h
    simp [itrRemove, Spec.C12.ListM.step]; exact h'
  | some q =>
    have h' := h
    simp only [R] at h
    obtain ⟨rfl, rfl, rfl, rfl, rfl, rfl, wf, tl, hi⟩ := h
    cases itr with
    | none =>
      simp only at hi; subst hi
      simp [itrRemove, Spec.C12.ListM.step]; exact h'
    | some it =>
      obtain ⟨ac, rfl, hpos, hrem, hdiff, hk'⟩ := hi
      obtain ⟨p, rem, df⟩ := ac
      simp only at hpos hrem hdiff hk'
      subst hrem hdiff
      cases hnd : q.chain[p]? with
      | none =>
        simp [itrRemove, Spec.C12.ListM.step, hpos, hnd, removeNode, vals_getElem?]; exact h'
      | some nd =>
        have hp := lt_of_getElem?_some hnd
        simp only [itrRemove, Spec.C12.ListM.step, hpos, hnd, removeNode, vals_getElem?, Option.map_some]
        simp only [R, vals_eraseAt, linkPos_eraseAt hpos, ItrR, absEv_callDtor]
        exact ⟨⟨trivial, trivial, trivial, trivial, trivial, trivial, WF_erase_list wf hp, tl, _, rfl, rfl, rfl, rfl, hk'⟩, trivial⟩

theorem okOp_itr {s : St} {o : Op} (h : okOp s o = true) (hm : o.mutates = true) : s.itr = none := by
  simp only [okOp, hm, Bool.true_and, Bool.not_eq_true', Option.isSome_eq_false_iff, Option.isNone_iff_eq_none] at h
  exact h

/-- one call: the chain model does what the list array machine does -/
theorem step_R (eq : Val → Val → Bool) {s : St} {a : ASt} (o : Op) (h : R .list s a) (hok : okOp s o = true) :
    R .list (step eq s o).1 (Spec.C12.ListM.step eq a o).1 ∧ (step eq s o).2 = (Spec.C12.ListM.step eq a o).2 := by
  cases o with
  | ins v => exact insert_R eq v h (okOp_itr hok rfl)
  | rm v => exact remove_R eq v h (okOp_itr hok rfl)
  | find v => exact find_R eq v h
  | len => simp only [step, Spec.C12.ListM.step, R_len h]; exact ⟨h, trivial⟩
  | clear => have := clear_R (eq := eq) h (okOp_itr hok rfl); exact ⟨this.1, this.2.1⟩
  | free => exact free_R h
  | iterate k => exact iterate_R k h
  | itNew => exact itrNew_R h
  | itNext => exact itrNext_R h
  | itGet => exact itrGet_R h
  | itSet v => exact itrSet_R v h
  | itRm => exact itrRemove_R h
  | itIns v => exact itrInsert_R v h

theorem run_R (eq : Val → Val → Bool) : ∀ (ops : List Op) {s : St} {a : ASt}, R .list s a → okRun eq s ops = true →
    R .list (run eq s ops) (Spec.C12.ListM.run eq a ops) ∧ trace eq s ops = Spec.C12.ListM.trace eq a ops
  | [], s, a, h, _ => ⟨h, rfl⟩
  | o :: os, s, a, h, hok => by
    simp only [okRun, Bool.and_eq_true] at hok
    have h1 := step_R eq o h hok.1
    have h2 := run_R eq os h1.1 hok.2
    simp only [run, List.foldl_cons, Spec.C12.ListM.run, trace, Spec.C12.ListM.trace, h1.2] at h2 ⊢
    exact ⟨h2.1, by rw [h2.2]⟩

theorem init_R (dtor cmp : Bool) : R .list (new dtor cmp) (Spec.C12.ListM.init dtor cmp) := by
  simp [R, new, Spec.C12.ListM.init, vals, tailOK]
  exact ⟨rfl, by simp [ids], by simp, by simp⟩

end Lm.Struct.ListM
