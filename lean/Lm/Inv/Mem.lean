import Lm.Mem
/-! Invariants of the reference-count machine (helper lemmas for `Lm.Props.C10`). -/
namespace Lm.Mem

/-- number of live blocks whose destructor will drop a reference on `j` -/
def owners (s : St) (j : Nat) : Nat := s.heap.countP (fun b => b.live && b.child == some j)

/-- `RefInv s ex`: for every live block, `refs` = references held by the caller + references held by
live owners (+ 1 for the block named by `ex`, whose reference is about to be dropped), `refs ≥ 1`,
and the block a live destructor will drop is older and live. -/
def RefInv (s : St) (ex : Option Nat) : Prop :=
  ∀ i b, s.heap[i]? = some b → b.live = true →
    b.refs = b.user + owners s i + (if ex = some i then 1 else 0) ∧ 1 ≤ b.refs ∧
    (∀ j, b.child = some j → j < i ∧ ∃ c, s.heap[j]? = some c ∧ c.live = true)

theorem owners_set (s : St) (i : Nat) (b b' : Block) (h : s.heap[i]? = some b) (j : Nat) :
    (s.heap.set i b').countP (fun b => b.live && b.child == some j)
      = owners s j - (if (b.live && b.child == some j) then 1 else 0)
        + (if (b'.live && b'.child == some j) then 1 else 0) := by
  have hlt : i < s.heap.length := (List.getElem?_eq_some_iff.mp h).1
  have hget : s.heap[i] = b := (List.getElem?_eq_some_iff.mp h).2
  rw [List.countP_set hlt, hget]; rfl

theorem owners_pos (s : St) (i : Nat) (b : Block) (h : s.heap[i]? = some b) (j : Nat)
    (hl : b.live = true) (hc : b.child = some j) : 1 ≤ owners s j := by
  unfold owners
  exact List.countP_pos_iff.mpr ⟨b, List.mem_of_getElem? h, by simp [hl, hc]⟩

/-- Facts about `dropRef` that do not need the invariant. -/
theorem dropRef_length : ∀ (fuel i : Nat) (s : St), (dropRef fuel i s).heap.length = s.heap.length := by
  intro fuel
  induction fuel with
  | zero => intro i s; rfl
  | succ n ih =>
    intro i s
    unfold dropRef
    split
    · rename_i b hb
      split
      · rfl
      · split
        · simp only
          cases hc : b.child with
          | none => simp [kill]
          | some j => simp [ih, kill]
        · simp
    · rfl

/-- The core step: dropping the reference named by `ex` re-establishes the exact invariant, never
faults, and needs no more nesting than `i + 1`. -/
theorem dropRef_inv : ∀ (fuel i : Nat) (s : St) (b : Block), i < fuel → RefInv s (some i) →
    s.heap[i]? = some b → b.live = true →
    RefInv (dropRef fuel i s) none ∧ (dropRef fuel i s).fault = s.fault := by
  intro fuel
  induction fuel with
  | zero => intro i s b h; omega
  | succ n ih =>
    intro i s b hfuel hinv hb hlive
    have hI := hinv i b hb hlive
    simp only [if_true] at hI
    obtain ⟨hrefs, hge, hchild⟩ := hI
    have hlt : i < s.heap.length := (List.getElem?_eq_some_iff.mp hb).1
    have hnl : (!b.live) = false := by simp [hlive]
    unfold dropRef
    simp only [hb, hnl, Bool.false_eq_true, if_false]
    by_cases h1 : b.refs = 1
    · -- last reference: destroy
      simp only [h1, if_true]
      have huser : b.user = 0 := by omega
      have hown : owners s i = 0 := by omega
      -- nobody live has `i` as child
      have hnochild : ∀ (k : Nat) (c : Block), s.heap[k]? = some c → c.live = true → c.child ≠ some i := by
        intro k c hk hl hc
        have := owners_pos s k c hk i hl hc
        omega
      -- state after kill
      let s1 := kill s i b
      have hs1heap : s1.heap = s.heap.set i { b with live := false, refs := 0 } := rfl
      have hs1fault : s1.fault = s.fault := rfl
      have hget1 : ∀ k, s1.heap[k]? = if i = k then some { b with live := false, refs := 0 } else s.heap[k]? := by
        intro k; rw [hs1heap, List.getElem?_set]; simp [hlt]
      have hown1 : ∀ j, owners s1 j = owners s j - (if b.child = some j then 1 else 0) := by
        intro j
        unfold owners
        rw [hs1heap, owners_set s i b _ hb j]
        simp [hlive]
        unfold owners; rfl
      -- invariant after kill, with the child (if any) carrying the extra reference
      have hinv1 : RefInv s1 b.child := by
        intro k c hk hl
        rw [hget1] at hk
        by_cases hik : i = k
        · simp [hik] at hk; subst hk; simp at hl
        · simp [hik] at hk
          have hK := hinv k c hk hl
          have hne : (some i : Option Nat) ≠ some k := by intro h; exact hik (Option.some.inj h)
          simp only [hne, if_false, Nat.add_zero] at hK
          obtain ⟨hr, hg, hc⟩ := hK
          refine ⟨?_, hg, ?_⟩
          · rw [hown1 k]
            by_cases hck : b.child = some k
            · have := owners_pos s i b hb k hlive hck
              simp [hck]; omega
            · simp [hck]; exact hr
          · intro j hj
            obtain ⟨hjk, c', hc', hl'⟩ := hc j hj
            refine ⟨hjk, ?_⟩
            have hij : i ≠ j := by
              intro h; subst h; exact hnochild k c hk hl hj
            exact ⟨c', by rw [hget1]; simp [hij, hc'], hl'⟩
      cases hc : b.child with
      | none =>
        simp only
        rw [hc] at hinv1
        exact ⟨hinv1, by first | exact hs1fault | trivial⟩
      | some j =>
        simp only
        obtain ⟨hji, cj, hcj, hlj⟩ := hchild j hc
        rw [hc] at hinv1
        have hij : i ≠ j := by omega
        have hcj1 : s1.heap[j]? = some cj := by rw [hget1]; simp [hij, hcj]
        have := ih j s1 cj (by omega) hinv1 hcj1 hlj
        exact ⟨this.1, by first | (rw [this.2]; done) | (simp [this.2]; done) | exact this.2.trans hs1fault⟩
    · -- other references remain
      simp only [h1, if_false]
      refine ⟨?_, by first | rfl | trivial⟩
      intro k c hk hl
      simp only at hk
      rw [List.getElem?_set] at hk
      have hownk : ∀ j, (s.heap.set i { b with refs := b.refs - 1 }).countP (fun b => b.live && b.child == some j) = owners s j := by
        intro j
        rw [owners_set s i b _ hb j]
        have : (({ b with refs := b.refs - 1 } : Block).live && ({ b with refs := b.refs - 1 } : Block).child == some j) = (b.live && b.child == some j) := rfl
        rw [this]
        by_cases hx : (b.live && b.child == some j) = true
        · have : 1 ≤ owners s j := by
            simp at hx
            exact owners_pos s i b hb j hx.1 hx.2
          simp [hx]; omega
        · simp [hx]
      by_cases hik : i = k
      · simp [hik] at hk
        obtain ⟨hkl, hk⟩ := hk
        subst hk
        subst hik
        refine ⟨?_, ?_, ?_⟩
        · show b.refs - 1 = b.user + owners _ i + 0
          unfold owners; simp only; rw [hownk]; omega
        · show 1 ≤ b.refs - 1; omega
        · intro j hj
          obtain ⟨hji, c', hc', hl'⟩ := hchild j hj
          refine ⟨hji, c', ?_, hl'⟩
          simp only; rw [List.getElem?_set]
          have : i ≠ j := by omega
          simp [this, hc']
      · simp [hik] at hk
        have hK := hinv k c hk hl
        have hne : (some i : Option Nat) ≠ some k := by intro h; exact hik (Option.some.inj h)
        simp only [hne, if_false, Nat.add_zero] at hK
        obtain ⟨hr, hg, hc⟩ := hK
        refine ⟨?_, hg, ?_⟩
        · unfold owners; simp only; rw [hownk]; simpa using hr
        · intro j hj
          obtain ⟨hjk, c', hc', hl'⟩ := hc j hj
          refine ⟨hjk, ?_⟩
          simp only; rw [List.getElem?_set]
          by_cases hij : i = j
          · subst hij
            simp [hlt]
            rw [hb] at hc'; cases hc'
            exact hl'
          · exact ⟨c', by simp [hij, hc'], hl'⟩

end Lm.Mem

namespace Lm.Mem

/-! ## Dead blocks hold no caller reference -/

def DeadInv (s : St) : Prop := ∀ (i : Nat) (b : Block), s.heap[i]? = some b → b.live = false → b.user = 0

theorem dropRef_dead : ∀ (fuel i : Nat) (s : St) (b : Block), i < fuel → RefInv s (some i) → DeadInv s →
    s.heap[i]? = some b → b.live = true → DeadInv (dropRef fuel i s) := by
  intro fuel
  induction fuel with
  | zero => intro i s b h; omega
  | succ n ih =>
    intro i s b hfuel hinv hdead hb hlive
    obtain ⟨hrefs, hge, hchild⟩ := hinv i b hb hlive
    simp only [if_true] at hrefs
    have hlt : i < s.heap.length := (List.getElem?_eq_some_iff.mp hb).1
    have hnl : (!b.live) = false := by simp [hlive]
    -- reuse the invariant lemma for the state reached by the nested call
    have key := dropRef_inv (n + 1) i s b hfuel hinv hb hlive
    unfold dropRef
    simp only [hb, hnl, Bool.false_eq_true, if_false]
    by_cases h1 : b.refs = 1
    · simp only [h1, if_true]
      have huser : b.user = 0 := by omega
      let s1 := kill s i b
      have hget1 : ∀ k, s1.heap[k]? = if i = k then some { b with live := false, refs := 0 } else s.heap[k]? := by
        intro k
        show (s.heap.set i { b with live := false, refs := 0 })[k]? = _
        rw [List.getElem?_set]; simp [hlt]
      have hdead1 : DeadInv s1 := by
        intro k c hk hl
        rw [hget1] at hk
        by_cases hik : i = k
        · simp [hik] at hk; subst hk; exact huser
        · simp [hik] at hk; exact hdead k c hk hl
      cases hc : b.child with
      | none => simp only; exact hdead1
      | some j =>
        simp only
        obtain ⟨hji, cj, hcj, hlj⟩ := hchild j hc
        have hij : i ≠ j := by omega
        have hcj1 : s1.heap[j]? = some cj := by rw [hget1]; simp [hij, hcj]
        -- invariant for s1 with excess at j: obtained from the first lemma's proof obligations
        have hinv1 : RefInv s1 (some j) := by
          -- recompute as in `dropRef_inv`
          have hown : owners s i = 0 := by omega
          have hnochild : ∀ (k : Nat) (c : Block), s.heap[k]? = some c → c.live = true → c.child ≠ some i := by
            intro k c hk hl hc'
            have := owners_pos s k c hk i hl hc'
            omega
          have hown1 : ∀ x, owners s1 x = owners s x - (if b.child = some x then 1 else 0) := by
            intro x
            unfold owners
            show (s.heap.set i { b with live := false, refs := 0 }).countP _ = _
            rw [owners_set s i b _ hb x]
            simp [hlive]
            unfold owners; rfl
          intro k c hk hl
          rw [hget1] at hk
          by_cases hik : i = k
          · simp [hik] at hk; subst hk; simp at hl
          · simp [hik] at hk
            have hK := hinv k c hk hl
            have hne : (some i : Option Nat) ≠ some k := by intro h; exact hik (Option.some.inj h)
            simp only [hne, if_false, Nat.add_zero] at hK
            obtain ⟨hr, hg, hcc⟩ := hK
            refine ⟨?_, hg, ?_⟩
            · rw [hown1 k]
              by_cases hck : b.child = some k
              · have := owners_pos s i b hb k hlive hck
                have hjk : j = k := by rw [hc] at hck; exact Option.some.inj hck
                subst hjk
                simp [hc]; omega
              · have hjk : ¬ (some j : Option Nat) = some k := by rw [← hc]; exact hck
                simp [hck, hjk]; exact hr
            · intro x hx
              obtain ⟨hxk, c', hc', hl'⟩ := hcc x hx
              refine ⟨hxk, ?_⟩
              have hix : i ≠ x := by
                intro h; subst h; exact hnochild k c hk hl hx
              exact ⟨c', by rw [hget1]; simp [hix, hc'], hl'⟩
        exact ih j s1 cj (by omega) hinv1 hdead1 hcj1 hlj
    · simp only [h1, if_false]
      intro k c hk hl
      simp only at hk
      rw [List.getElem?_set] at hk
      by_cases hik : i = k
      · simp [hik] at hk
        obtain ⟨_, hk⟩ := hk
        subst hk
        simp [hlive] at hl
      · simp [hik] at hk; exact hdead k c hk hl

/-! ## The event log: destructor and free exactly once, in that order -/

def cnt (e : Ev) (l : List Ev) : Nat := l.count e

/-- per block: `free k` was logged once iff the block is dead (and its destruction is not still in
progress, `P k`), `dtor k` once iff dead and it has a destructor -/
def LogInvP (s : St) (P : Nat → Bool) : Prop :=
  ∀ k, (P k = true → ∃ b, s.heap[k]? = some b ∧ b.live = false) ∧
       (s.log.count (Ev.free k) = match s.heap[k]? with
          | some b => if b.live then 0 else if P k then 0 else 1
          | none => 0) ∧
       (s.log.count (Ev.dtor k) = match s.heap[k]? with
          | some b => if !b.live && b.dtor then 1 else 0
          | none => 0)

def LogInv (s : St) : Prop := LogInvP s (fun _ => false)

/-- no destructor of `i` after the release of `i` -/
def Ord (l : List Ev) : Prop := ∀ i l1 l2, l = l1 ++ Ev.free i :: l2 → Ev.dtor i ∉ l2

theorem append_singleton_split {α} (l l1 l2 : List α) (a e : α) (h : l ++ [e] = l1 ++ a :: l2) :
    (l2 = [] ∧ a = e ∧ l = l1) ∨ (∃ l2', l2 = l2' ++ [e] ∧ l = l1 ++ a :: l2') := by
  induction l1 generalizing l with
  | nil =>
    cases l with
    | nil => simp at h; left; exact ⟨h.2, h.1.symm, rfl⟩
    | cons x xs =>
      simp at h
      right; exact ⟨xs, h.2.symm, by simp [h.1]⟩
  | cons y ys ih =>
    cases l with
    | nil =>
      have := congrArg List.length h
      simp at this
    | cons x xs =>
      simp at h
      rcases ih xs h.2 with ⟨h1, h2, h3⟩ | ⟨l2', h1, h2⟩
      · left; exact ⟨h1, h2, by simp [h.1, h3]⟩
      · right; exact ⟨l2', h1, by simp [h.1, h2]⟩

theorem Ord_append_free (l : List Ev) (k : Nat) (h : Ord l) : Ord (l ++ [Ev.free k]) := by
  intro i l1 l2 heq
  rcases append_singleton_split l l1 l2 (Ev.free i) (Ev.free k) heq with ⟨h1, _, _⟩ | ⟨l2', h1, h2⟩
  · simp [h1]
  · have := h i l1 l2' h2
    simp [h1, this]

theorem Ord_append_dtor (l : List Ev) (k : Nat) (h : Ord l) (hk : Ev.free k ∉ l) : Ord (l ++ [Ev.dtor k]) := by
  intro i l1 l2 heq
  rcases append_singleton_split l l1 l2 (Ev.free i) (Ev.dtor k) heq with ⟨_, h2, _⟩ | ⟨l2', h1, h2⟩
  · cases h2
  · have := h i l1 l2' h2
    rw [h1]
    simp only [List.mem_append, List.mem_singleton, not_or]
    refine ⟨this, ?_⟩
    intro hik
    cases hik
    apply hk
    rw [h2]; simp

theorem dropRef_log : ∀ (fuel i : Nat) (s : St) (P : Nat → Bool), LogInvP s P → Ord s.log →
    LogInvP (dropRef fuel i s) P ∧ Ord (dropRef fuel i s).log := by
  intro fuel
  induction fuel with
  | zero => intro i s P h1 h2; exact ⟨h1, h2⟩
  | succ n ih =>
    intro i s P hL hO
    unfold dropRef
    split
    · rename_i b hb
      have hlt : i < s.heap.length := (List.getElem?_eq_some_iff.mp hb).1
      by_cases hlive : b.live = true
      · have hnl : (!b.live) = false := by simp [hlive]
        simp only [hnl, Bool.false_eq_true, if_false]
        have hPi : P i = false := by
          cases hp : P i with
          | false => rfl
          | true =>
            obtain ⟨c, hc, hcl⟩ := (hL i).1 hp
            rw [hb] at hc; cases hc; rw [hlive] at hcl; cases hcl
        by_cases h1 : b.refs = 1
        · simp only [h1, if_true]
          have hfree0 : s.log.count (Ev.free i) = 0 := by
            have := (hL i).2.1
            rw [hb] at this; simpa only [hlive, if_true] using this
          have hdt0 : s.log.count (Ev.dtor i) = 0 := by
            have := (hL i).2.2
            rw [hb] at this; simpa [hlive] using this
          let P' : Nat → Bool := fun k => P k || k == i
          have hL1 : LogInvP (kill s i b) P' := by
            intro k
            have hk := hL k
            simp only [kill]
            rw [List.getElem?_set]
            by_cases hik : i = k
            · subst hik
              simp only [hlt, if_true]
              refine ⟨fun _ => ⟨_, rfl, rfl⟩, ?_, ?_⟩
              · rw [List.count_append, hfree0]
                by_cases hd : b.dtor <;> simp [hd, P']
              · rw [List.count_append, hdt0]
                by_cases hd : b.dtor <;> simp [hd]
            · have hki : ¬ k = i := fun h => hik h.symm
              simp only [hik, if_false]
              refine ⟨?_, ?_, ?_⟩
              · intro hp
                have : P k = true := by simpa [P', hki] using hp
                exact hk.1 this
              · rw [List.count_append, hk.2.1]
                have : (if b.dtor then [Ev.dtor i] else []).count (Ev.free k) = 0 := by
                  by_cases hd : b.dtor <;> simp [hd]
                rw [this]
                simp [P', hki]
              · rw [List.count_append, hk.2.2]
                have : (if b.dtor then [Ev.dtor i] else []).count (Ev.dtor k) = 0 := by
                  by_cases hd : b.dtor <;> simp [hd, hik]
                rw [this]; simp
          have hO1 : Ord (kill s i b).log := by
            simp only [kill]
            by_cases hd : b.dtor
            · simp only [hd, if_true]
              exact Ord_append_dtor _ _ hO (List.count_eq_zero.mp hfree0)
            · simp [hd]; exact hO
          -- nested drop (if any)
          have hnest : ∀ s2 : St, LogInvP s2 P' → Ord s2.log →
              LogInvP { s2 with log := s2.log ++ [Ev.free i] } P ∧ Ord (s2.log ++ [Ev.free i]) := by
            intro s2 h2 ho2
            refine ⟨?_, Ord_append_free _ _ ho2⟩
            intro k
            have hk := h2 k
            simp only
            by_cases hik : i = k
            · subst hik
              obtain ⟨c, hc, hcl⟩ := hk.1 (by simp [P'])
              refine ⟨fun hp => (by rw [hPi] at hp; cases hp), ?_, ?_⟩
              · rw [List.count_append, hk.2.1, hc]; simp [hcl, P', hPi]
              · rw [List.count_append, hk.2.2]; simp
            · have hki : ¬ k = i := fun h => hik h.symm
              refine ⟨?_, ?_, ?_⟩
              · intro hp; exact hk.1 (by simp [P', hp])
              · rw [List.count_append, hk.2.1]
                have : [Ev.free i].count (Ev.free k) = 0 := by simp [hik]
                rw [this]; simp [P', hki]
              · rw [List.count_append, hk.2.2]; simp
          cases hc : b.child with
          | none => simp only; exact hnest _ hL1 hO1
          | some j =>
            simp only
            have := ih j (kill s i b) P' hL1 hO1
            exact hnest _ this.1 this.2
        · simp only [h1, if_false]
          refine ⟨?_, hO⟩
          intro k
          have hk := hL k
          simp only
          rw [List.getElem?_set]
          by_cases hik : i = k
          · subst hik; simp only [hlt, if_true]; rw [hb] at hk
            refine ⟨fun hp => (by rw [hPi] at hp; cases hp), ?_, ?_⟩
            · simpa [hlive] using hk.2.1
            · simpa [hlive] using hk.2.2
          · simp only [hik, if_false]; exact hk
      · have hnl : (!b.live) = true := by simp at hlive; simp [hlive]
        simp only [hnl, if_true]
        exact ⟨hL, hO⟩
    · exact ⟨hL, hO⟩

end Lm.Mem

namespace Lm.Mem

/-- everything the machine maintains between API calls -/
structure Good (s : St) : Prop where
  ref  : RefInv s none
  dead : DeadInv s
  log  : LogInv s
  ord  : Ord s.log
  nofault : s.fault = false

theorem owners_user_set (s : St) (i : Nat) (b b' : Block) (h : s.heap[i]? = some b)
    (hl : b'.live = b.live) (hc : b'.child = b.child) (j : Nat) :
    (s.heap.set i b').countP (fun b => b.live && b.child == some j) = owners s j := by
  rw [owners_set s i b b' h j, hl, hc]
  by_cases hx : (b.live && b.child == some j) = true
  · have : 1 ≤ owners s j := by
      simp at hx
      exact owners_pos s i b h j hx.1 hx.2
    simp [hx]; omega
  · simp [hx]

theorem good_init : Good {} := by
  refine ⟨?_, ?_, ?_, ?_, rfl⟩
  · intro i b h; simp at h
  · intro i b h; simp at h
  · intro k; simp
  · intro i l1 l2 h; simp at h

theorem LogInv_heap_set (s : St) (i : Nat) (b b' : Block) (h : s.heap[i]? = some b)
    (hl : b'.live = b.live) (hd : b'.dtor = b.dtor) (hL : LogInv s) :
    LogInv { s with heap := s.heap.set i b' } := by
  have hlt : i < s.heap.length := (List.getElem?_eq_some_iff.mp h).1
  intro k
  have hk := hL k
  simp only
  rw [List.getElem?_set]
  by_cases hik : i = k
  · subst hik
    simp only [hlt, if_true]
    rw [h] at hk
    simpa [hl, hd] using hk
  · simp only [hik, if_false]; exact hk

theorem step_good (s : St) (o : Op) (hok : okOp s o = true) (g : Good s) : Good (step s o).1 := by
  obtain ⟨hR, hD, hL, hO, hF⟩ := g
  cases o with
  | size i =>
    simp only [okOp] at hok
    simp only [step]
    cases hb : s.heap[i]? with
    | none => simp [hb] at hok
    | some b =>
      simp [hb] at hok
      simp [hok.1]
      exact ⟨hR, hD, hL, hO, hF⟩
  | ref i =>
    simp only [okOp] at hok
    simp only [step]
    cases hb : s.heap[i]? with
    | none => simp [hb] at hok
    | some b =>
      simp [hb] at hok
      obtain ⟨hlive, huser⟩ := hok
      dsimp only
      rw [if_pos hlive]
      have hlt : i < s.heap.length := (List.getElem?_eq_some_iff.mp hb).1
      have hown : ∀ j, (s.heap.set i { b with refs := b.refs + 1, user := b.user + 1 }).countP
          (fun b => b.live && b.child == some j) = owners s j :=
        fun j => owners_user_set s i b { b with refs := b.refs + 1, user := b.user + 1 } hb rfl rfl j
      refine ⟨?_, ?_, LogInv_heap_set s i b { b with refs := b.refs + 1, user := b.user + 1 } hb rfl rfl hL, hO, hF⟩
      · intro k c hk hl
        simp only at hk
        rw [List.getElem?_set] at hk
        by_cases hik : i = k
        · subst hik
          simp [hlt] at hk; subst hk
          obtain ⟨hr, hg, hc⟩ := hR i b hb hlive
          refine ⟨?_, ?_, ?_⟩
          · show b.refs + 1 = b.user + 1 + owners _ i + _
            unfold owners; simp only; rw [hown]; simp at hr ⊢; omega
          · show 1 ≤ b.refs + 1; omega
          · intro j hj
            obtain ⟨hji, c', hc', hl'⟩ := hc j hj
            refine ⟨hji, c', ?_, hl'⟩
            simp only; rw [List.getElem?_set]
            have : i ≠ j := by omega
            simp [this, hc']
        · simp only [hik, if_false] at hk
          obtain ⟨hr, hg, hc⟩ := hR k c hk hl
          refine ⟨?_, hg, ?_⟩
          · unfold owners; simp only; rw [hown]; exact hr
          · intro j hj
            obtain ⟨hjk, c', hc', hl'⟩ := hc j hj
            refine ⟨hjk, ?_⟩
            simp only; rw [List.getElem?_set]
            by_cases hij : i = j
            · subst hij; simp [hlt]; rw [hb] at hc'; cases hc'; exact hl'
            · exact ⟨c', by simp [hij, hc'], hl'⟩
      · intro k c hk hl
        simp only at hk
        rw [List.getElem?_set] at hk
        by_cases hik : i = k
        · subst hik; simp [hlt] at hk; subst hk; simp [hlive] at hl
        · simp only [hik, if_false] at hk; exact hD k c hk hl
  | unref i =>
    simp only [okOp] at hok
    simp only [step]
    cases hb : s.heap[i]? with
    | none => simp [hb] at hok
    | some b =>
      simp [hb] at hok
      obtain ⟨hlive, huser⟩ := hok
      have hlt : i < s.heap.length := (List.getElem?_eq_some_iff.mp hb).1
      let b' : Block := { b with user := b.user - 1 }
      have hgive : giveUp s i = { s with heap := s.heap.set i b' } := by simp [giveUp, hb, b']
      have hown : ∀ j, (s.heap.set i b').countP (fun b => b.live && b.child == some j) = owners s j :=
        fun j => owners_user_set s i b b' hb rfl rfl j
      have hb' : (giveUp s i).heap[i]? = some b' := by rw [hgive]; simp [hlt]
      have hR' : RefInv (giveUp s i) (some i) := by
        rw [hgive]
        intro k c hk hl
        simp only at hk
        rw [List.getElem?_set] at hk
        by_cases hik : i = k
        · subst hik
          simp [hlt] at hk; subst hk
          obtain ⟨hr, hg, hc⟩ := hR i b hb hlive
          refine ⟨?_, hg, ?_⟩
          · show b.refs = b.user - 1 + owners _ i + _
            unfold owners; simp only; rw [hown]; simp at hr ⊢; omega
          · intro j hj
            obtain ⟨hji, c', hc', hl'⟩ := hc j hj
            refine ⟨hji, c', ?_, hl'⟩
            simp only; rw [List.getElem?_set]
            have : i ≠ j := by omega
            simp [this, hc']
        · simp only [hik, if_false] at hk
          obtain ⟨hr, hg, hc⟩ := hR k c hk hl
          have hne : ¬ (some i : Option Nat) = some k := by intro h; exact hik (Option.some.inj h)
          refine ⟨?_, hg, ?_⟩
          · unfold owners; simp only; rw [hown]; simpa [hne] using hr
          · intro j hj
            obtain ⟨hjk, c', hc', hl'⟩ := hc j hj
            refine ⟨hjk, ?_⟩
            simp only; rw [List.getElem?_set]
            by_cases hij : i = j
            · subst hij; simp [hlt]; rw [hb] at hc'; cases hc'; exact hl'
            · exact ⟨c', by simp [hij, hc'], hl'⟩
      have hD' : DeadInv (giveUp s i) := by
        rw [hgive]
        intro k c hk hl
        simp only at hk
        rw [List.getElem?_set] at hk
        by_cases hik : i = k
        · subst hik; simp [hlt] at hk; subst hk; simp [b', hlive] at hl
        · simp only [hik, if_false] at hk; exact hD k c hk hl
      have hL' : LogInv (giveUp s i) := by rw [hgive]; exact LogInv_heap_set s i b b' hb rfl rfl hL
      have hO' : Ord (giveUp s i).log := by rw [hgive]; exact hO
      have hF' : (giveUp s i).fault = false := by rw [hgive]; exact hF
      have k1 := dropRef_inv (i + 1) i _ b' (by omega) hR' hb' hlive
      have k2 := dropRef_dead (i + 1) i _ b' (by omega) hR' hD' hb' hlive
      have k3 := dropRef_log (i + 1) i _ _ hL' hO'
      exact ⟨k1.1, k2, k3.1, k3.2, by rw [k1.2]; exact hF'⟩
  | new size dtor owns =>
    simp only [step]
    -- no live block has the fresh index as child
    have hfresh : ∀ s' : St, s'.heap.length = s.heap.length →
        (∀ (k : Nat) (c : Block), s'.heap[k]? = some c → c.live = true → ∀ j, c.child = some j → j < k) →
        s'.heap.countP (fun b => b.live && b.child == some s.heap.length) = 0 := by
      intro s' hlen hch
      apply List.countP_eq_zero.mpr
      intro c hc
      obtain ⟨k, hk, hkc⟩ := List.getElem_of_mem hc
      have hk' : s'.heap[k]? = some c := by simp [List.getElem?_eq_getElem hk, hkc]
      intro hx
      simp at hx
      have := hch k c hk' hx.1 _ hx.2
      omega
    cases owns with
    | none =>
      simp only
      let nb : Block := { live := true, refs := 1, user := 1, size := size, dtor := dtor, owns := none }
      have hnc : nb.child = none := by simp [nb, Block.child]
      have hown : ∀ j, (s.heap ++ [nb]).countP (fun b => b.live && b.child == some j) = owners s j := by
        intro j; rw [List.countP_append]; simp [hnc, owners]
      refine ⟨?_, ?_, ?_, hO, hF⟩
      · intro k c hk hl
        simp only at hk
        by_cases hkl : k < s.heap.length
        · rw [List.getElem?_append_left hkl] at hk
          obtain ⟨hr, hg, hc⟩ := hR k c hk hl
          refine ⟨?_, hg, ?_⟩
          · unfold owners; simp only; rw [hown]; exact hr
          · intro j hj
            obtain ⟨hjk, c', hc', hl'⟩ := hc j hj
            exact ⟨hjk, c', by simp only; rw [List.getElem?_append_left (by omega)]; exact hc', hl'⟩
        · have hke : k = s.heap.length := by
            have := (List.getElem?_eq_some_iff.mp hk).1
            simp at this; omega
          subst hke
          simp at hk; subst hk
          refine ⟨?_, by simp [nb], ?_⟩
          · unfold owners; simp only; rw [hown]
            have := hfresh s rfl (fun k c hk hl j hj => (hR k c hk hl).2.2 j hj |>.1)
            unfold owners; simp [nb, this]
          · intro j hj; rw [hnc] at hj; cases hj
      · intro k c hk hl
        simp only at hk
        by_cases hkl : k < s.heap.length
        · rw [List.getElem?_append_left hkl] at hk; exact hD k c hk hl
        · have hke : k = s.heap.length := by
            have := (List.getElem?_eq_some_iff.mp hk).1
            simp at this; omega
          subst hke; simp at hk; subst hk; simp [nb] at hl
      · intro k
        have hk := hL k
        simp only
        by_cases hkl : k < s.heap.length
        · rw [List.getElem?_append_left hkl]; exact hk
        · have hn : s.heap[k]? = none := by simp; omega
          rw [hn] at hk
          by_cases hke : k = s.heap.length
          · subst hke; simp [nb]; exact ⟨hk.2.1, hk.2.2⟩
          · have : (s.heap ++ [nb])[k]? = none := by simp; omega
            rw [this]; exact hk
    | some j =>
      simp only [okOp] at hok
      cases hbj : s.heap[j]? with
      | none => simp [hbj] at hok
      | some bj =>
        simp [hbj] at hok
        obtain ⟨hdt, hlive, huser⟩ := hok
        subst hdt
        have hlt : j < s.heap.length := (List.getElem?_eq_some_iff.mp hbj).1
        let bj' : Block := { bj with user := bj.user - 1 }
        have hgive : giveUp s j = { s with heap := s.heap.set j bj' } := by simp [giveUp, hbj, bj']
        simp only [hgive]
        let nb : Block := { live := true, refs := 1, user := 1, size := size, dtor := true, owns := some j }
        have hnc : nb.child = some j := by simp [nb, Block.child]
        have hown0 : ∀ x, (s.heap.set j bj').countP (fun b => b.live && b.child == some x) = owners s x :=
          fun x => owners_user_set s j bj bj' hbj rfl rfl x
        have hown : ∀ x, (s.heap.set j bj' ++ [nb]).countP (fun b => b.live && b.child == some x)
            = owners s x + (if j = x then 1 else 0) := by
          intro x; rw [List.countP_append, hown0]
          by_cases hjx : j = x
          · subst hjx; simp [hnc, nb]
          · simp [hnc, nb, hjx]
        have hgetset : ∀ k, (s.heap.set j bj')[k]? = if j = k then some bj' else s.heap[k]? := by
          intro k; rw [List.getElem?_set]; simp [hlt]
        refine ⟨?_, ?_, ?_, hO, hF⟩
        · intro k c hk hl
          simp only at hk
          by_cases hkl : k < s.heap.length
          · rw [List.getElem?_append_left (by simpa using hkl), hgetset] at hk
            by_cases hjk : j = k
            · subst hjk
              simp at hk; subst hk
              obtain ⟨hr, hg, hc⟩ := hR j bj hbj hlive
              refine ⟨?_, hg, ?_⟩
              · show bj.refs = bj.user - 1 + owners _ j + _
                unfold owners; simp only; rw [hown]; simp at hr ⊢; omega
              · intro x hx
                obtain ⟨hxj, c', hc', hl'⟩ := hc x hx
                refine ⟨hxj, c', ?_, hl'⟩
                simp only
                rw [List.getElem?_append_left (by simp; omega), hgetset]
                have : j ≠ x := by omega
                simp [this, hc']
            · simp only [hjk, if_false] at hk
              obtain ⟨hr, hg, hc⟩ := hR k c hk hl
              refine ⟨?_, hg, ?_⟩
              · unfold owners; simp only; rw [hown]; simpa [hjk] using hr
              · intro x hx
                obtain ⟨hxk, c', hc', hl'⟩ := hc x hx
                refine ⟨hxk, ?_⟩
                simp only
                rw [List.getElem?_append_left (by simp; omega), hgetset]
                by_cases hjx : j = x
                · subst hjx; simp; rw [hbj] at hc'; cases hc'; exact hl'
                · exact ⟨c', by simp [hjx, hc'], hl'⟩
          · have hke : k = s.heap.length := by
              have := (List.getElem?_eq_some_iff.mp hk).1
              simp at this; omega
            subst hke
            simp at hk; subst hk
            refine ⟨?_, by simp [nb], ?_⟩
            · unfold owners; simp only; rw [hown]
              have := hfresh s rfl (fun k c hk hl x hx => (hR k c hk hl).2.2 x hx |>.1)
              have hne : ¬ j = s.heap.length := by omega
              unfold owners at this
              simp [nb, owners, this, hne]
            · intro x hx
              rw [hnc] at hx; cases hx
              refine ⟨hlt, bj', ?_, hlive⟩
              simp only
              rw [List.getElem?_append_left (by simpa using hlt), hgetset]; simp
        · intro k c hk hl
          simp only at hk
          by_cases hkl : k < s.heap.length
          · rw [List.getElem?_append_left (by simpa using hkl), hgetset] at hk
            by_cases hjk : j = k
            · subst hjk; simp at hk; subst hk; simp [bj', hlive] at hl
            · simp only [hjk, if_false] at hk; exact hD k c hk hl
          · have hke : k = s.heap.length := by
              have := (List.getElem?_eq_some_iff.mp hk).1
              simp at this; omega
            subst hke; simp at hk; subst hk; simp [nb] at hl
        · have hL0 : LogInv { s with heap := s.heap.set j bj' } := LogInv_heap_set s j bj bj' hbj rfl rfl hL
          intro k
          have hk := hL0 k
          simp only at hk ⊢
          by_cases hkl : k < s.heap.length
          · rw [List.getElem?_append_left (by simpa using hkl)]; exact hk
          · have hn : (s.heap.set j bj')[k]? = none := by simp; omega
            rw [hn] at hk
            by_cases hke : k = s.heap.length
            · subst hke
              have : (s.heap.set j bj' ++ [nb])[s.heap.length]? = some nb := by
                rw [List.getElem?_append_right (by simp)]; simp
              rw [this]; simp [nb]; exact ⟨hk.2.1, hk.2.2⟩
            · have : (s.heap.set j bj' ++ [nb])[k]? = none := by simp; omega
              rw [this]; exact hk

theorem run_good : ∀ (ops : List Op) (s : St), okRun s ops = true → Good s → Good (run s ops) := by
  intro ops
  induction ops with
  | nil => intro s _ g; exact g
  | cons o os ih =>
    intro s hok g
    simp only [okRun, Bool.and_eq_true] at hok
    exact ih _ hok.2 (step_good s o hok.1 g)

end Lm.Mem

namespace Lm.Mem

/-! ## Static attributes (`size`, `dtor`) never change; blocks are only appended -/

def attrs (s : St) : List (Nat × Bool) := s.heap.map (fun b => (b.size, b.dtor))

theorem map_set_same {α β} (f : α → β) (l : List α) (i : Nat) (a b : α) (h : l[i]? = some a) (hf : f b = f a) :
    (l.set i b).map f = l.map f := by
  apply List.ext_getElem?
  intro k
  simp only [List.getElem?_map, List.getElem?_set]
  by_cases hik : i = k
  · subst hik
    have hlt : i < l.length := (List.getElem?_eq_some_iff.mp h).1
    have hget : l[i] = a := (List.getElem?_eq_some_iff.mp h).2
    simp [hlt, hf, hget]
  · simp [hik]

theorem dropRef_attrs : ∀ (fuel i : Nat) (s : St), attrs (dropRef fuel i s) = attrs s := by
  intro fuel
  induction fuel with
  | zero => intro i s; rfl
  | succ n ih =>
    intro i s
    unfold dropRef
    split
    · rename_i b hb
      split
      · rfl
      · split
        · have hk : attrs (kill s i b) = attrs s := by
            simp only [attrs, kill]
            exact map_set_same _ _ _ b _ hb rfl
          cases hc : b.child with
          | none => simp only [attrs] at hk ⊢; exact hk
          | some j =>
            simp only
            have := ih j (kill s i b)
            simp only [attrs] at this hk ⊢
            rw [this, hk]
        · simp only [attrs]
          exact map_set_same _ _ _ b _ hb rfl
    · rfl

def newAttrs : List Op → List (Nat × Bool)
  | [] => []
  | .new size dtor _ :: os => (size, dtor) :: newAttrs os
  | _ :: os => newAttrs os

theorem giveUp_attrs (s : St) (i : Nat) : attrs (giveUp s i) = attrs s := by
  unfold giveUp
  split
  · rename_i b hb
    simp only [attrs]
    exact map_set_same _ _ _ b _ hb rfl
  · rfl

theorem step_attrs (s : St) (o : Op) :
    attrs (step s o).1 = attrs s ++ newAttrs [o] := by
  cases o with
  | new size dtor owns =>
    simp only [step, newAttrs]
    cases owns with
    | none => simp [attrs]
    | some j =>
      have := giveUp_attrs s j
      simp only [attrs] at this ⊢
      simp [this]
  | ref i =>
    simp only [step, newAttrs, List.append_nil]
    split
    · rename_i b hb
      split
      · simp only [attrs]; exact map_set_same _ _ _ b _ hb rfl
      · rfl
    · rfl
  | unref i =>
    simp only [step, newAttrs, List.append_nil]
    rw [dropRef_attrs, giveUp_attrs]
  | size i =>
    simp only [step, newAttrs, List.append_nil]
    split
    · split <;> rfl
    · rfl

theorem newAttrs_cons (o : Op) (os : List Op) : newAttrs (o :: os) = newAttrs [o] ++ newAttrs os := by
  cases o <;> simp [newAttrs]

theorem run_attrs : ∀ (ops : List Op) (s : St), attrs (run s ops) = attrs s ++ newAttrs ops := by
  intro ops
  induction ops with
  | nil => intro s; simp [run, newAttrs]
  | cons o os ih =>
    intro s
    have := ih (step s o).1
    simp only [run, List.foldl_cons] at this ⊢
    rw [this, step_attrs, newAttrs_cons o os, List.append_assoc]

/-- a live block whose references are all gone cannot exist: follow owners upwards -/
theorem live_has_user (s : St) (hR : RefInv s none) :
    ∀ (n i : Nat) (b : Block), s.heap.length - i = n → s.heap[i]? = some b → b.live = true →
      ∃ (k : Nat) (c : Block), s.heap[k]? = some c ∧ c.live = true ∧ 1 ≤ c.user := by
  intro n
  induction n using Nat.strongRecOn with
  | _ n ih =>
    intro i b hn hb hl
    obtain ⟨hr, hg, _⟩ := hR i b hb hl
    simp at hr
    by_cases hu : 1 ≤ b.user
    · exact ⟨i, b, hb, hl, hu⟩
    · have hown : 1 ≤ owners s i := by omega
      unfold owners at hown
      obtain ⟨c, hc, hp⟩ := List.countP_pos_iff.mp hown
      obtain ⟨k, hk, hkc⟩ := List.getElem_of_mem hc
      have hk' : s.heap[k]? = some c := by simp [List.getElem?_eq_getElem hk, hkc]
      simp at hp
      have hik := ((hR k c hk' hp.1).2.2 i hp.2).1
      have hlt : i < s.heap.length := (List.getElem?_eq_some_iff.mp hb).1
      exact ih (s.heap.length - k) (by omega) k c rfl hk' hp.1

end Lm.Mem
