import Lm.Inv.ThpoolC2
/-! Preservation of the invariants about the teardown: nobody touches the pool once it is destroyed. -/
namespace Lm.Thpool
variable {s s' : State} {l : Label}
set_option linter.unusedSimpArgs false
set_option linter.unusedVariables false

set_option maxHeartbeats 1000000 in
theorem paths_step (hi : Inv s) (h : step s l = some s') :
    (s'.cfg.detached = true → ph (s'.pc 0) ≠ 8 ∧ ph (s'.pc 0) ≠ 9) ∧ (s'.cfg.detached = false → ph (s'.pc 0) ≠ 6) := by
  have h1 := hi.detPath
  have h2 := hi.nondetPath
  have h4 := hi.othersNotM l.tid
  have h5 := hi.mainIsM
  have hA := ph_of_pastChk hi l.tid
  have hB := ph_of_inTask hi l.tid
  step_cases h
  all_goals (
    by_cases h0 : l.tid = 0
    · simp_all [State.goto, upd_apply, zero_eq] <;> fin
    · simp_all [State.goto, upd_apply, zero_eq] <;> fin)

set_option maxHeartbeats 1000000 in
theorem flags_step (hi : Inv s) (h : step s l = some s') :
    (s'.condDestroyed = true → 11 ≤ ph (s'.pc 0)) ∧ (s'.mutexDestroyed = true → 12 ≤ ph (s'.pc 0)) ∧
    (s'.poolFreed = true → 15 ≤ ph (s'.pc 0)) := by
  have h1 := hi.flags
  have h4 := hi.othersNotM l.tid
  have h5 := hi.mainIsM
  have hA := ph_of_pastChk hi l.tid
  have hB := ph_of_inTask hi l.tid
  step_cases h
  all_goals (
    by_cases h0 : l.tid = 0
    · simp_all [State.goto, upd_apply, zero_eq] <;> fin
    · simp_all [State.goto, upd_apply, zero_eq] <;> fin)

set_option maxHeartbeats 1000000 in
theorem goneAll_step (hi : Inv s) (h : step s l = some s') :
    (10 ≤ ph (s'.pc 0) ∨ (s'.cfg.detached = true ∧ s'.pc 0 = .fUnlock)) → ∀ u, isW (s'.pc u) = true → gone (s'.pc u) = true := by
  intro hp u hu
  have h1 := fun hp => hi.goneAll hp u
  have h2 := fun hp => hi.goneAll hp l.tid
  have h3 := fun a b => join_all_done hi a b u
  have h4 := hi.othersNotM l.tid
  have h5 := hi.mainIsM
  have h6 := fun a b => alive_zero_gone hi a b u
  have h7 := hi.nondetPath
  have h8 := hi.liveHandle l.tid
  have hA := ph_of_pastChk hi l.tid
  have hB := ph_of_inTask hi l.tid
  step_cases h
  all_goals (
    by_cases h0 : l.tid = 0 <;> by_cases ht : u = l.tid <;>
    (try simp only [State.goto, upd_apply, zero_eq, h0, ht, if_true, if_false, reduceCtorEq] at hp hu ⊢) <;>
    simp_all [State.goto, upd_apply, zero_eq] <;> fin)

set_option maxHeartbeats 1000000 in
theorem doneAll_step (hi : Inv s) (h : step s l = some s') :
    s'.cfg.detached = false → 10 ≤ ph (s'.pc 0) → ∀ u, isW (s'.pc u) = true → s'.pc u = .wDone := by
  intro hd hp u hu
  rw [cfg_step h] at hd
  have h1 := fun hp => hi.doneAll hd hp u
  have h2 := fun hp => hi.doneAll hd hp l.tid
  have h7 := hi.detPath
  have h3 := fun a b => join_all_done hi a b u
  have h4 := hi.othersNotM l.tid
  have h5 := hi.mainIsM
  have h8 := hi.liveHandle l.tid
  have hA := ph_of_pastChk hi l.tid
  have hB := ph_of_inTask hi l.tid
  step_cases h
  all_goals (
    by_cases h0 : l.tid = 0 <;> by_cases ht : u = l.tid <;>
    (try simp only [State.goto, upd_apply, zero_eq, h0, ht, if_true, if_false, reduceCtorEq] at hp hu ⊢) <;>
    simp_all [State.goto, upd_apply, zero_eq] <;> fin)

end Lm.Thpool
