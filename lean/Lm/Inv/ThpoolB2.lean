import Lm.Inv.ThpoolB
/-! Preservation of the invariants about the number of worker threads. -/
namespace Lm.Thpool
variable {s s' : State} {l : Label}
set_option linter.unusedSimpArgs false
set_option linter.unusedVariables false

set_option maxHeartbeats 1000000 in
theorem lenRel_step (hi : Inv s) (h : step s l = some s') :
    ph (s'.pc 0) ≤ 13 → s'.workers.length = s'.threads.length + (if s'.pendBy.isSome then 1 else 0) := by
  have h1 := hi.lenRel
  have h2 := hi.pendPc l.tid
  have h3 := pend_none_of_create (l := l) hi
  have h4 := hi.othersNotM l.tid
  have h5 := hi.mainIsM
  have h6 := hi.liveHandle l.tid
  step_cases h
  all_goals (
    by_cases h0 : l.tid = 0
    · simp_all [State.goto, upd_apply, zero_eq] <;> fin
    · simp_all [State.goto, upd_apply, zero_eq] <;> fin)

set_option maxHeartbeats 1000000 in
theorem createRoom_step (hi : Inv s) (h : step s l = some s') :
    ∀ u, s'.pc u = .sCreate → s'.threads.length < s'.cfg.maxThreads := by
  intro u hu
  have h1 := hi.createRoom u
  have h2 := hi.mutex u
  have h3 := hi.mutex l.tid
  have h4 := hi.liveHandle u
  have h5 := hi.maxPos
  have h6 := hi.othersNotM l.tid
  step_cases h
  all_goals (
    by_cases ht : u = l.tid
    · subst ht; simp_all [State.goto, upd_apply, zero_eq] <;> fin
    · simp_all [State.goto, upd_apply, zero_eq] <;> fin)


set_option maxHeartbeats 1000000 in
theorem workersLe_step (hi : Inv s) (h : step s l = some s') : s'.workers.length ≤ s'.cfg.maxThreads := by
  have h1 := hi.workersLe
  have h2 := hi.lenRel
  have h3 := pend_none_of_create (l := l) hi
  have h4 := hi.createRoom l.tid
  have h5 := hi.newIdx
  have h6 := hi.liveHandle l.tid
  have h7 := hi.othersNotM l.tid
  step_cases h
  all_goals (first | exact h1 | (
    by_cases h0 : l.tid = 0
    · simp_all [State.goto, upd_apply, zero_eq] <;> fin
    · simp_all [State.goto, upd_apply, zero_eq] <;> fin))

set_option maxHeartbeats 1000000 in
theorem newIdx_step (hi : Inv s) (h : step s l = some s') :
    ph (s'.pc 0) = 0 → s'.idx = s'.threads.length ∧ s'.idx < s'.cfg.maxThreads ∧ s'.cfg.isLazy = false := by
  have h1 := hi.newIdx
  have h4 := hi.othersNotM l.tid
  have h5 := hi.mainIsM
  have h6 := hi.liveHandle l.tid
  step_cases h
  all_goals (
    by_cases h0 : l.tid = 0
    · simp_all [State.goto, upd_apply, zero_eq] <;> fin
    · simp_all [State.goto, upd_apply, zero_eq] <;> fin)

set_option maxHeartbeats 1000000 in
theorem eagerFull_step (hi : Inv s) (h : step s l = some s') :
    s'.cfg.isLazy = false → (s'.pc 0 = .mNewRet ∨ s'.pc 0 = .mIdle) → s'.threads ≠ [] := by
  have h1 := hi.eagerFull
  have h4 := hi.othersNotM l.tid
  have h5 := hi.mainIsM
  step_cases h
  all_goals (
    by_cases h0 : l.tid = 0
    · simp_all [State.goto, upd_apply, zero_eq] <;> fin
    · simp_all [State.goto, upd_apply, zero_eq] <;> fin)

set_option maxHeartbeats 1000000 in
theorem enqThreads_step (hi : Inv s) (h : step s l = some s') : ∀ u, s'.pc u = .sEnq → s'.threads ≠ [] := by
  intro u hu
  have h1 := hi.enqThreads u
  have h2 := hi.eagerFull
  have h3 := hi.liveHandle l.tid
  have h4 := hi.liveHandle u
  have h5 := hi.maxPos
  have h6 := hi.othersNotM l.tid
  step_cases h
  all_goals (
    by_cases ht : u = l.tid
    · subst ht; simp_all [State.goto, upd_apply, zero_eq] <;> fin
    · simp_all [State.goto, upd_apply, zero_eq] <;> fin)

set_option maxHeartbeats 1000000 in
theorem tasksThreads_step (hi : Inv s) (h : step s l = some s') : s'.tasks ≠ [] → s'.threads ≠ [] := by
  have h1 := hi.tasksThreads
  have h2 := hi.enqThreads l.tid
  have h3 := hi.tasksFreed
  have h4 := hi.othersNotM l.tid
  step_cases h
  all_goals (first | exact h1 | (by_cases h0 : l.tid = 0 <;> simp_all [State.goto] <;> fin))

set_option maxHeartbeats 1000000 in
theorem tasksFreed_step (hi : Inv s) (h : step s l = some s') : 13 ≤ ph (s'.pc 0) → s'.tasks = [] := by
  have h1 := hi.tasksFreed
  have h2 := hi.liveHandle l.tid
  have h4 := hi.othersNotM l.tid
  have h5 := hi.mainIsM
  step_cases h
  all_goals (
    by_cases h0 : l.tid = 0
    · simp_all [State.goto, upd_apply, zero_eq] <;> fin
    · simp_all [State.goto, upd_apply, zero_eq] <;> fin)

end Lm.Thpool
