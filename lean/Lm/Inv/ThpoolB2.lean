import Lm.Inv.ThpoolB
/-! Preservation of the invariants about the number of worker threads. -/
namespace Lm.Thpool
variable {s s' : State} {l : Label}
set_option linter.unusedSimpArgs false
set_option linter.unusedVariables false

set_option maxHeartbeats 1000000 in
theorem lenRel_step (hi : Inv s) (h : step s l = some s') :
    ph (s'.pc 0) ≤ 13 → s'.workers.length = s'.threads.length + (if s'.pendBy.isSome then 1 else 0) := by
  have h1 := hi.lenRel
  have h2 := hi.pendPc l.tid
  have h3 := pend_none_of_create (l := l) hi
  have h4 := hi.othersNotM l.tid
  have h5 := hi.mainIsM
  have h6 := hi.liveHandle l.tid
  have hA := ph_of_pastChk hi l.tid
  have hB := ph_of_inTask hi l.tid
  step_cases h
  all_goals (
    by_cases h0 : l.tid = 0
    · simp_all [State.goto, upd_apply, zero_eq] <;> fin
    · simp_all [State.goto, upd_apply, zero_eq] <;> fin)

/-- a worker that holds the mutex after `m_thpool_new` has returned is in `pool->threads` (nobody else can be between
`pthread_create` and `m_list_insert`) -/
theorem holder_in_threads (hi : Inv s) (u : Tid) (hw : isW (s.pc u) = true) (hh : holds (s.pc u) = true)
    (hne : s.pc u ≠ .nInsert) (h2 : 2 ≤ ph (s.pc 0)) (h13 : ph (s.pc 0) ≤ 13) : u ∈ s.threads := by
  have hmem := (hi.workersIff u).mpr hw
  cases hp : s.pendBy with
  | none => exact hi.pendNone hp h13 u hmem
  | some c =>
    exfalso
    rcases (hi.pendPc c).mp hp with hc | hc | hc
    · have a := hi.mutex c (by simp [hc]); have b := hi.mutex u hh
      rw [a] at b; cases b; simp [hc] at hw
    · have a := hi.mutex c (by simp [hc]); have b := hi.mutex u hh
      rw [a] at b; cases b; exact hne hc
    · by_cases c0 : c = 0
      · subst c0; simp [hc] at h2
      · have := hi.othersNotM c c0; simp [hc] at this

set_option maxHeartbeats 1000000 in
theorem createRoom_step (hi : Inv s) (h : step s l = some s') :
    ∀ u, (s'.pc u = .sCreate ∨ s'.pc u = .nCreate) → s'.threads.length < s'.cfg.maxThreads := by
  intro u hu
  have h1 := hi.createRoom u
  have hAu := ph_of_pastChk hi u
  have hBu := ph_of_inTask hi u
  have h2 := hi.mutex u
  have h3 := hi.mutex l.tid
  have h4 := hi.liveHandle u
  have h5 := hi.maxPos
  have h6 := hi.othersNotM l.tid
  have hA := ph_of_pastChk hi l.tid
  have hB := ph_of_inTask hi l.tid
  step_cases h
  all_goals (
    by_cases ht : u = l.tid
    · subst ht; simp_all [State.goto, upd_apply, zero_eq] <;> fin
    · simp_all [State.goto, upd_apply, zero_eq] <;> fin)


set_option maxHeartbeats 1000000 in
theorem workersLe_step (hi : Inv s) (h : step s l = some s') : s'.workers.length ≤ s'.cfg.maxThreads := by
  have h1 := hi.workersLe
  have h2 := hi.lenRel
  have h3 := pend_none_of_create (l := l) hi
  have h4 := hi.createRoom l.tid
  have h5 := hi.newIdx
  have h6 := hi.liveHandle l.tid
  have h7 := hi.othersNotM l.tid
  have hA := ph_of_pastChk hi l.tid
  have hB := ph_of_inTask hi l.tid
  step_cases h
  all_goals (first | exact h1 | (
    by_cases h0 : l.tid = 0
    · simp_all [State.goto, upd_apply, zero_eq] <;> fin
    · simp_all [State.goto, upd_apply, zero_eq] <;> fin))

set_option maxHeartbeats 1000000 in
theorem newIdx_step (hi : Inv s) (h : step s l = some s') :
    ph (s'.pc 0) = 0 → s'.idx = s'.threads.length ∧ s'.idx < s'.cfg.maxThreads ∧ s'.cfg.isLazy = false := by
  have h1 := hi.newIdx
  have h4 := hi.othersNotM l.tid
  have h5 := hi.mainIsM
  have h6 := hi.liveHandle l.tid
  have hA := ph_of_pastChk hi l.tid
  have hB := ph_of_inTask hi l.tid
  step_cases h
  all_goals (
    by_cases h0 : l.tid = 0
    · simp_all [State.goto, upd_apply, zero_eq] <;> fin
    · simp_all [State.goto, upd_apply, zero_eq] <;> fin)

set_option maxHeartbeats 1000000 in
theorem eagerFull_step (hi : Inv s) (h : step s l = some s') :
    s'.cfg.isLazy = false → (s'.pc 0 = .mNewRet ∨ s'.pc 0 = .mIdle) → s'.threads ≠ [] := by
  have h1 := hi.eagerFull
  have h4 := hi.othersNotM l.tid
  have h5 := hi.mainIsM
  have hA := ph_of_pastChk hi l.tid
  have hB := ph_of_inTask hi l.tid
  step_cases h
  all_goals (
    by_cases h0 : l.tid = 0
    · simp_all [State.goto, upd_apply, zero_eq] <;> fin
    · simp_all [State.goto, upd_apply, zero_eq] <;> fin)

set_option maxHeartbeats 1000000 in
theorem enqThreads_step (hi : Inv s) (h : step s l = some s') : ∀ u, (s'.pc u = .sEnq ∨ s'.pc u = .nEnq) → s'.threads ≠ [] := by
  intro u hu
  have h1 := hi.enqThreads u
  have hAu := ph_of_pastChk hi u
  have hBu := ph_of_inTask hi u
  have hT : s.pc l.tid = .nShutChk → s.shutdown = .no → s.threads ≠ [] := fun e hno hnil => by
    have h2 := ph_of_inTask hi l.tid (by simp [e])
    have h4 : ph (s.pc 0) ≤ 4 := by
      have b := hi.shutSet
      cases hm : s.mode <;> (apply Nat.le_of_not_lt; intro hlt; have := b (by omega); simp [hm, hno] at this)
    have := holder_in_threads hi l.tid (by simp [e]) (by simp [e]) (by simp [e]) h2 (by omega)
    rw [hnil] at this; cases this
  have h2 := hi.eagerFull
  have h3 := hi.liveHandle l.tid
  have h4 := hi.liveHandle u
  have h5 := hi.maxPos
  have h6 := hi.othersNotM l.tid
  have hA := ph_of_pastChk hi l.tid
  have hB := ph_of_inTask hi l.tid
  step_cases h
  all_goals (
    by_cases ht : u = l.tid
    · subst ht; simp_all [State.goto, upd_apply, zero_eq] <;> fin
    · simp_all [State.goto, upd_apply, zero_eq] <;> fin)

set_option maxHeartbeats 1000000 in
theorem tasksThreads_step (hi : Inv s) (h : step s l = some s') : s'.tasks ≠ [] → s'.threads ≠ [] := by
  have h1 := hi.tasksThreads
  have h2 := hi.enqThreads l.tid
  have h3 := hi.tasksFreed
  have h4 := hi.othersNotM l.tid
  have hA := ph_of_pastChk hi l.tid
  have hB := ph_of_inTask hi l.tid
  step_cases h
  all_goals (first | exact h1 | (by_cases h0 : l.tid = 0 <;> simp_all [State.goto] <;> fin))

set_option maxHeartbeats 1000000 in
theorem tasksFreed_step (hi : Inv s) (h : step s l = some s') : 13 ≤ ph (s'.pc 0) → s'.tasks = [] := by
  have h1 := hi.tasksFreed
  have h2 := hi.liveHandle l.tid
  have h4 := hi.othersNotM l.tid
  have h5 := hi.mainIsM
  have hA := ph_of_pastChk hi l.tid
  have hB := ph_of_inTask hi l.tid
  step_cases h
  all_goals (
    by_cases h0 : l.tid = 0
    · simp_all [State.goto, upd_apply, zero_eq] <;> fin
    · simp_all [State.goto, upd_apply, zero_eq] <;> fin)

end Lm.Thpool
