import Lm.Inv.Bst
/-! Links, `bst_next`, the iterator: helper lemmas for `Lm.Props.C11`. -/
namespace Lm.Struct.Bst
open Tree

/-- the node a link lives in -/
def Link.holder : Link → Option Nat
  | .root => none
  | .left n => some n
  | .right n => some n
  | .parent n => some n

/-- the element following the first occurrence of `n` -/
def nextOf (n : Nat) : List Nat → Option Nat
  | [] => none
  | x :: xs => if x = n then xs.head? else nextOf n xs

theorem nextOf_not_mem {n : Nat} : ∀ {xs : List Nat}, n ∉ xs → nextOf n xs = none
  | [], _ => rfl
  | x :: xs, h => by
    simp only [List.mem_cons, not_or] at h
    simp only [nextOf, if_neg (Ne.symm h.1)]
    exact nextOf_not_mem h.2

theorem nextOf_append (n : Nat) : ∀ (xs ys : List Nat), nextOf n (xs ++ ys) =
    if n ∈ xs then (match nextOf n xs with | some m => some m | none => ys.head?) else nextOf n ys
  | [], ys => by simp
  | x :: xs, ys => by
    by_cases hx : x = n
    · subst hx
      simp only [List.cons_append, nextOf, if_true, List.mem_cons, true_or]
      cases xs <;> simp
    · have : (n ∈ x :: xs) = (n ∈ xs) := by simp [Ne.symm hx]
      simp only [List.cons_append, nextOf, if_neg hx, this]
      exact nextOf_append n xs ys

theorem nextOf_split {n : Nat} {B A : List Nat} (h : n ∉ B) : nextOf n (B ++ n :: A) = A.head? := by
  rw [nextOf_append, if_neg h]; simp [nextOf]

/-! ## `derefIn` -/

theorem fieldOf_holder {up id l r lk x} (h : fieldOf up id l r lk = some x) : lk.holder = some id := by
  cases lk <;> simp [fieldOf] at h <;> simp [Link.holder, h.1]

theorem fieldOf_none {up id l r lk} (h : lk.holder ≠ some id) : fieldOf up id l r lk = none := by
  cases lk <;> simp [fieldOf] <;> simp [Link.holder] at h <;> exact h

theorem derefIn_holder {lk : Link} {x} : ∀ {t : Tree} {up}, derefIn up t lk = some x → ∃ h, lk.holder = some h ∧ h ∈ t.ids
  | .nil, _, h => by simp [derefIn] at h
  | .node id l v r, up, h => by
    simp only [derefIn] at h
    split at h
    · rename_i y hy
      exact ⟨id, fieldOf_holder hy, by simp [ids]⟩
    · split at h
      · rename_i y hy
        obtain ⟨k, hk, hm⟩ := derefIn_holder hy
        exact ⟨k, hk, by simp [ids, hm]⟩
      · obtain ⟨k, hk, hm⟩ := derefIn_holder h
        exact ⟨k, hk, by simp [ids, hm]⟩

theorem derefIn_none {lk : Link} {t : Tree} {up} (h : ∀ k, lk.holder = some k → k ∉ t.ids) : derefIn up t lk = none := by
  cases e : derefIn up t lk with
  | none => rfl
  | some x => obtain ⟨k, hk, hm⟩ := derefIn_holder e; exact absurd hm (h k hk)

theorem derefIn_node_left {up id l v r lk x} (h : derefIn (some id) l lk = some x) (hid : id ∉ l.ids) :
    derefIn up (.node id l v r) lk = some x := by
  obtain ⟨k, hk, hm⟩ := derefIn_holder h
  have : fieldOf up id l r lk = none := fieldOf_none (by rw [hk]; intro e; cases e; exact hid hm)
  simp [derefIn, this, h]

theorem derefIn_node_right {up id l v r lk x} (h : derefIn (some id) r lk = some x) (hid : id ∉ r.ids)
    (hd : ∀ k ∈ r.ids, k ∉ l.ids) : derefIn up (.node id l v r) lk = some x := by
  obtain ⟨k, hk, hm⟩ := derefIn_holder h
  have h1 : fieldOf up id l r lk = none := fieldOf_none (by rw [hk]; intro e; cases e; exact hid hm)
  have h2 : derefIn (some id) l lk = none := derefIn_none (by intro k' hk'; rw [hk] at hk'; cases hk'; exact hd k hm)
  simp [derefIn, h1, h2, h]

theorem nodup_node {id l v r} (h : (Tree.node id l v r).ids.Nodup) :
    l.ids.Nodup ∧ r.ids.Nodup ∧ id ∉ l.ids ∧ id ∉ r.ids ∧ (∀ k ∈ r.ids, k ∉ l.ids) := by
  simp only [ids, List.nodup_append, List.nodup_cons, List.mem_cons] at h
  obtain ⟨hl, ⟨hir, hr⟩, hd⟩ := h
  refine ⟨hl, hr, ?_, hir, ?_⟩
  · intro hm; exact hd id hm id (Or.inl rfl) rfl
  · intro k hk hm; exact hd k hm k (Or.inr hk) rfl

/-! ## `find_min_subtree` -/

theorem minLink_spec : ∀ (s : Tree) (lk0 : Link), s ≠ .nil → s.ids.Nodup →
    (minLink lk0 s = lk0 ∧ s.ids.head? = s.rootId) ∨
    (∃ h, minLink lk0 s = .left h ∧ h ∈ s.ids ∧ ∀ up, derefIn up s (.left h) = some s.ids.head?)
  | .nil, _, h, _ => absurd rfl h
  | .node id .nil v r, lk0, _, _ => Or.inl ⟨rfl, by simp [ids, rootId]⟩
  | .node id (.node i2 l2 v2 r2) v r, lk0, _, hn => by
    obtain ⟨hl, _, hil, _, _⟩ := nodup_node hn
    have hh : (Tree.node id (.node i2 l2 v2 r2) v r).ids.head? = (Tree.node i2 l2 v2 r2).ids.head? := by
      rw [ids]
      cases e : (Tree.node i2 l2 v2 r2).ids with
      | nil => have := ids_length (.node i2 l2 v2 r2); rw [e] at this; simp [size] at this; omega
      | cons a b => simp
    right
    rcases minLink_spec (.node i2 l2 v2 r2) (.left id) (by simp) hl with ⟨e1, e2⟩ | ⟨h, e1, e2, e3⟩
    · refine ⟨id, by rw [minLink, e1], by simp [ids], ?_⟩
      intro up
      rw [hh, e2]
      simp [derefIn, fieldOf]
    · refine ⟨h, by rw [minLink, e1], by rw [ids]; simp [e2], ?_⟩
      intro up
      rw [hh]
      exact derefIn_node_left (e3 (some id)) hil

/-! ## `bst_next` -/

theorem nextLinkAux_not_mem {n : Nat} : ∀ {t : Tree} {top}, n ∉ t.ids → nextLinkAux n top t = none
  | .nil, _, _ => rfl
  | .node id l v r, top, h => by
    simp only [ids, List.mem_append, List.mem_cons, not_or] at h
    simp only [nextLinkAux, if_neg (Ne.symm h.2.1), nextLinkAux_not_mem h.1, nextLinkAux_not_mem h.2.2]

theorem nextLinkAux_spec (n : Nat) : ∀ (t : Tree) (top : Nat) (up : Option Nat), t.ids.Nodup → n ∈ t.ids →
    ∃ lk, nextLinkAux n top t = some lk ∧
      (match nextOf n t.ids with
       | some m => derefIn up t lk = some (some m)
       | none => lk = .parent top)
  | .nil, _, _, _, hm => by simp [ids] at hm
  | .node id l v r, top, up, hn, hm => by
    obtain ⟨hl, hr, hil, hir, hd⟩ := nodup_node hn
    by_cases hid : id = n
    · subst hid
      have hnx : nextOf id (Tree.node id l v r).ids = r.ids.head? := by rw [ids]; exact nextOf_split hil
      rw [hnx]
      cases r with
      | nil => exact ⟨.parent top, by simp [nextLinkAux, isNil], by simp [ids]⟩
      | node ri rl rv rr =>
        refine ⟨minLink (.right id) (.node ri rl rv rr), by simp [nextLinkAux, isNil], ?_⟩
        have hne : (Tree.node ri rl rv rr).ids.head? = some ((Tree.node ri rl rv rr).ids.head?.getD 0) := by
          cases e : (Tree.node ri rl rv rr).ids with
          | nil => have := ids_length (.node ri rl rv rr); rw [e] at this; simp [size] at this; omega
          | cons a b => simp
        rw [hne]
        simp only
        rw [← hne]
        rcases minLink_spec (.node ri rl rv rr) (.right id) (by simp) hr with ⟨e1, e2⟩ | ⟨h, e1, e2, e3⟩
        · rw [e1, e2]; simp [derefIn, fieldOf]
        · rw [e1]; exact derefIn_node_right (e3 (some id)) hir hd
    · simp only [ids, List.mem_append, List.mem_cons] at hm
      by_cases hml : n ∈ l.ids
      · obtain ⟨lk, e1, e2⟩ := nextLinkAux_spec n l (l.rootId.getD 0) (some id) hl hml
        refine ⟨lk, by simp [nextLinkAux, hid, e1], ?_⟩
        have hnx : nextOf n (Tree.node id l v r).ids = (match nextOf n l.ids with | some m => some m | none => some id) := by
          rw [ids, nextOf_append, if_pos hml]; simp
        rw [hnx]
        cases e : nextOf n l.ids with
        | some m =>
          rw [e] at e2
          exact derefIn_node_left e2 hil
        | none =>
          rw [e] at e2
          simp only at e2 ⊢
          subst e2
          cases l with
          | nil => simp [ids] at hml
          | node li ll lv lr =>
            have : li ≠ id := by intro e; subst e; exact hil (by simp [ids])
            simp [rootId, derefIn, fieldOf, this]
      · have hmr : n ∈ r.ids := by
          rcases hm with h | h | h
          · exact absurd h hml
          · exact absurd h.symm hid
          · exact h
        obtain ⟨lk, e1, e2⟩ := nextLinkAux_spec n r top (some id) hr hmr
        refine ⟨lk, by simp [nextLinkAux, hid, nextLinkAux_not_mem hml, e1], ?_⟩
        have hnx : nextOf n (Tree.node id l v r).ids = nextOf n r.ids := by
          rw [ids, nextOf_append, if_neg hml]; simp [nextOf, hid]
        rw [hnx]
        cases e : nextOf n r.ids with
        | some m => rw [e] at e2; exact derefIn_node_right e2 hir hd
        | none => rw [e] at e2; exact e2

theorem deref_of_derefIn {t : Tree} {lk : Link} {x} (h : derefIn none t lk = some x) : deref t lk = some x := by
  obtain ⟨k, hk, _⟩ := derefIn_holder h
  cases lk <;> simp [Link.holder] at hk <;> simpa [deref] using h

/-- `bst_next` lands on a link whose target is the in-order successor (NULL after the last node) -/
theorem nextLink_spec {t : Tree} (hn : t.ids.Nodup) {n : Nat} (hm : n ∈ t.ids) :
    ∃ lk, nextLink t n = some lk ∧ deref t lk = some (nextOf n t.ids) := by
  obtain ⟨lk, e1, e2⟩ := nextLinkAux_spec n t (t.rootId.getD 0) none hn hm
  refine ⟨lk, e1, ?_⟩
  cases e : nextOf n t.ids with
  | some m => rw [e] at e2; exact deref_of_derefIn e2
  | none =>
    rw [e] at e2; simp only at e2; subst e2
    cases t with
    | nil => simp [ids] at hm
    | node id l v r => simp [deref, derefIn, fieldOf, rootId]

/-- `find_min_subtree(&l->root)` lands on a link whose target is the first node in in-order -/
theorem minLink_root_spec {t : Tree} (hne : t ≠ .nil) (hn : t.ids.Nodup) : deref t (minLink .root t) = some t.ids.head? := by
  rcases minLink_spec t .root hne hn with ⟨e1, e2⟩ | ⟨h, e1, _, e3⟩
  · rw [e1, e2]; rfl
  · rw [e1]; exact deref_of_derefIn (e3 none)

/-! ## `node->userptr` by identity -/

theorem valOf_not_mem {n : Nat} : ∀ {t : Tree}, n ∉ t.ids → valOf n t = none
  | .nil, _ => rfl
  | .node id l v r, h => by
    simp only [ids, List.mem_append, List.mem_cons, not_or] at h
    simp only [valOf, if_neg (Ne.symm h.2.1), valOf_not_mem h.1, valOf_not_mem h.2.2]

theorem valOf_of_mem {n : Nat} {x : Val} : ∀ {t : Tree}, t.ids.Nodup → (n, x) ∈ t.inorderN → valOf n t = some x
  | .nil, _, h => by simp [inorderN] at h
  | .node id l v r, hn, h => by
    obtain ⟨hl, hr, hil, hir, hd⟩ := nodup_node hn
    simp only [inorderN, List.mem_append, List.mem_cons] at h
    have memids : ∀ {t : Tree}, (n, x) ∈ t.inorderN → n ∈ t.ids := by
      intro t hm; rw [← inorderN_map_fst]; exact List.mem_map.mpr ⟨(n, x), hm, rfl⟩
    rcases h with h | h | h
    · have hne : id ≠ n := by intro e; subst e; exact hil (memids h)
      simp [valOf, hne, valOf_of_mem hl h]
    · cases h; simp [valOf]
    · have hne : id ≠ n := by intro e; subst e; exact hir (memids h)
      have hnl : n ∉ l.ids := hd n (memids h)
      simp [valOf, hne, valOf_not_mem hnl, valOf_of_mem hr h]

/-! ## `remove_node` through the iterator's normalised link -/

/-- (ghost) `remove_node` applied to the link that reaches the node with identity `s` -/
def removeById (s : Nat) : Tree → Option Rm
  | .nil => none
  | .node id l x r =>
    if id = s then removeNode (.node id l x r)
    else match removeById s l with
      | some rm => some (rm.wrapL id x r)
      | none => (removeById s r).map (·.wrapR id l x)

theorem removeById_not_mem {s : Nat} : ∀ {t : Tree}, s ∉ t.ids → removeById s t = none
  | .nil, _ => rfl
  | .node id l v r, h => by
    simp only [ids, List.mem_append, List.mem_cons, not_or] at h
    simp [removeById, Ne.symm h.2.1, removeById_not_mem h.1, removeById_not_mem h.2.2]

theorem removeChild_not_mem {p : Nat} {b : Bool} : ∀ {t : Tree}, p ∉ t.ids → removeChild p b t = none
  | .nil, _ => rfl
  | .node id l v r, h => by
    simp only [ids, List.mem_append, List.mem_cons, not_or] at h
    simp [removeChild, Ne.symm h.2.1, removeChild_not_mem h.1, removeChild_not_mem h.2.2]

theorem removeById_spec {s : Nat} : ∀ {t : Tree}, t.ids.Nodup → s ∈ t.ids →
    ∃ rm v, removeById s t = some rm ∧ rm.dval = v ∧ RmSpec t.inorderN rm.tree.inorderN s v rm.freed
  | .nil, _, h => by simp [ids] at h
  | .node id l x r, hn, hm => by
    obtain ⟨hl, hr, hil, hir, hd⟩ := nodup_node hn
    by_cases hid : id = s
    · subst hid
      obtain ⟨rm, e, d, sp⟩ := removeNode_spec id l x r
      exact ⟨rm, x, by simp [removeById, e], d, sp⟩
    · simp only [ids, List.mem_append, List.mem_cons] at hm
      by_cases hml : s ∈ l.ids
      · obtain ⟨rm, v, e, d, sp⟩ := removeById_spec hl hml
        refine ⟨rm.wrapL id x r, v, by simp [removeById, hid, e], d, ?_⟩
        have := sp.wrap [] ((id, x) :: r.inorderN)
        simpa [Rm.wrapL, inorderN] using this
      · have hmr : s ∈ r.ids := by
          rcases hm with h | h | h
          · exact absurd h hml
          · exact absurd h.symm hid
          · exact h
        obtain ⟨rm, v, e, d, sp⟩ := removeById_spec hr hmr
        refine ⟨rm.wrapR id l x, v, by simp [removeById, hid, removeById_not_mem hml, e], d, ?_⟩
        have := sp.wrap (l.inorderN ++ [(id, x)]) []
        simpa [Rm.wrapR, inorderN] using this

theorem mem_ids_of_rootId {t : Tree} {s : Nat} (h : t.rootId = some s) : s ∈ t.ids := by
  cases t with
  | nil => simp [rootId] at h
  | node id l v r => simp [rootId] at h; subst h; simp [ids]

/-- the normalisation of `m_bst_itr_remove` inside a subtree: for a node `s` strictly below the
root of `t`, `&s->parent` names its parent `p`, and comparing `s` with `p->right` selects the child
link of `p` that reaches `s` -/
theorem canon_inside (s : Nat) : ∀ (t : Tree) (up : Option Nat), t.ids.Nodup → s ∈ t.ids → t.rootId ≠ some s →
    ∃ p x, derefIn up t (.parent s) = some (some p) ∧ derefIn up t (.right p) = some x ∧
      removeChild p (decide (x = some s)) t = removeById s t
  | .nil, _, _, hm, _ => by simp [ids] at hm
  | .node id l v r, up, hn, hm, hroot => by
    obtain ⟨hl, hr, hil, hir, hd⟩ := nodup_node hn
    have hid : id ≠ s := by intro e; subst e; exact hroot rfl
    have hf : fieldOf up id l r (.parent s) = none := by simp [fieldOf, Ne.symm hid]
    simp only [ids, List.mem_append, List.mem_cons] at hm
    by_cases hml : s ∈ l.ids
    · have hsr : s ∉ r.ids := fun h => hd s h hml
      by_cases hlr : l.rootId = some s
      · -- `s` is the left child of this node
        cases l with
        | nil => simp [rootId] at hlr
        | node li ll lv lr =>
          simp [rootId] at hlr; subst hlr
          refine ⟨id, r.rootId, ?_, by simp [derefIn, fieldOf], ?_⟩
          · simp [derefIn, fieldOf, Ne.symm hid]
          · have : r.rootId ≠ some li := fun e => hsr (mem_ids_of_rootId e)
            obtain ⟨rm, e, _⟩ := removeNode_spec li ll lv lr
            simp [removeChild, removeById, this, hid, e]
      · obtain ⟨p, x, e1, e2, e3⟩ := canon_inside s l (some id) hl hml hlr
        obtain ⟨k, hk, hpm⟩ := derefIn_holder e2
        simp [Link.holder] at hk; subst hk
        have hpid : id ≠ p := by intro e; subst e; exact hil hpm
        have hpr : p ∉ r.ids := fun h => hd p h hpm
        refine ⟨p, x, derefIn_node_left e1 hil, derefIn_node_left e2 hil, ?_⟩
        simp only [removeChild, if_neg hpid, removeById, if_neg hid, e3, removeChild_not_mem hpr, removeById_not_mem hsr]
        cases removeById s l <;> rfl
    · have hmr : s ∈ r.ids := by
        rcases hm with h | h | h
        · exact absurd h hml
        · exact absurd h.symm hid
        · exact h
      by_cases hrr : r.rootId = some s
      · cases r with
        | nil => simp [rootId] at hrr
        | node ri rl rv rr =>
          simp [rootId] at hrr; subst hrr
          refine ⟨id, some ri, ?_, by simp [derefIn, fieldOf, rootId], ?_⟩
          · have : derefIn (some id) l (.parent ri) = none :=
              derefIn_none (by intro k hk; simp [Link.holder] at hk; subst hk; exact hml)
            simp [derefIn, this, fieldOf, Ne.symm hid]
          · simp [removeChild, removeById, hid, removeById_not_mem hml]
      · obtain ⟨p, x, e1, e2, e3⟩ := canon_inside s r (some id) hr hmr hrr
        obtain ⟨k, hk, hpm⟩ := derefIn_holder e2
        simp [Link.holder] at hk; subst hk
        have hpid : id ≠ p := by intro e; subst e; exact hir hpm
        have hpl : p ∉ l.ids := hd p hpm
        refine ⟨p, x, derefIn_node_right e1 hir hd, derefIn_node_right e2 hir hd, ?_⟩
        simp [removeChild, hpid, removeById, hid, e3, removeChild_not_mem hpl, removeById_not_mem hml]

/-- `m_bst_itr_remove` reaches, from any link to the node `s`, the link `remove_node` expects -/
theorem canon_removeAt {t : Tree} (hn : t.ids.Nodup) {s : Nat} (hm : s ∈ t.ids) :
    ∃ lk, canonLink t s = some lk ∧ removeAt t lk = removeById s t := by
  by_cases hroot : t.rootId = some s
  · cases t with
    | nil => simp [rootId] at hroot
    | node id l v r =>
      simp [rootId] at hroot; subst hroot
      exact ⟨.root, by simp [canonLink, deref, derefIn, fieldOf], by simp [removeAt, removeById]⟩
  · obtain ⟨p, x, e1, e2, e3⟩ := canon_inside s t none hn hm hroot
    have d1 := deref_of_derefIn e1
    have d2 := deref_of_derefIn e2
    by_cases hx : x = some s
    · refine ⟨.right p, by simp [canonLink, d1, d2, hx], ?_⟩
      simpa [removeAt, hx] using e3
    · refine ⟨.left p, by simp [canonLink, d1, d2, hx], ?_⟩
      simpa [removeAt, hx] using e3

/-! ## Position of an identity in a duplicate-free sequence -/

theorem split_unique {s : Nat} {v v2 : Val} : ∀ {B B2 A A2 : List (Nat × Val)},
    ((B ++ (s, v) :: A).map Prod.fst).Nodup → B ++ (s, v) :: A = B2 ++ (s, v2) :: A2 → B = B2 ∧ v = v2 ∧ A = A2
  | [], [], A, A2, _, e => by simp at e; exact ⟨rfl, e.1, e.2⟩
  | [], b :: B2, A, A2, hn, e => by
    simp at e
    obtain ⟨rfl, rfl⟩ := e
    simp at hn
  | b :: B, [], A, A2, hn, e => by
    simp at e
    obtain ⟨rfl, rfl⟩ := e
    simp at hn
  | b :: B, b2 :: B2, A, A2, hn, e => by
    simp only [List.cons_append, List.cons.injEq] at e
    obtain ⟨rfl, e⟩ := e
    simp only [List.cons_append, List.map_cons, List.nodup_cons] at hn
    obtain ⟨rfl, h2, h3⟩ := split_unique hn.2 e
    exact ⟨rfl, h2, h3⟩

theorem last_split {B : List (Nat × Val)} {p : Nat} (h : (B.map Prod.fst).getLast? = some p) :
    ∃ B0 v, B = B0 ++ [(p, v)] := by
  rcases List.eq_nil_or_concat B with rfl | ⟨L, b, rfl⟩
  · simp at h
  · simp at h
    exact ⟨L, b.2, by subst h; simp⟩

theorem last_none {B : List (Nat × Val)} (h : (B.map Prod.fst).getLast? = none) : B = [] := by
  rcases List.eq_nil_or_concat B with rfl | ⟨L, b, rfl⟩
  · rfl
  · simp at h

/-! ## The iterator invariant -/

/-- Position of the iterator in the in-order sequence of (identity, value) pairs: `B` = the part
already passed (elements still in the set), `A` = what is still to come, beginning with the
current element unless that one has just been removed through the iterator. -/
def ItAt (t : Tree) (it : Itr) (B A : List (Nat × Val)) : Prop :=
  t.inorderN = B ++ A ∧ it.prev = (B.map Prod.fst).getLast? ∧
  (it.removed = false → deref t it.curr = some (A.head?.map Prod.fst) ∧ A ≠ [])

theorem ids_split {t : Tree} {B A : List (Nat × Val)} (h : t.inorderN = B ++ A) :
    t.ids = B.map Prod.fst ++ A.map Prod.fst := by
  rw [← inorderN_map_fst, h, List.map_append]

theorem itrNew_spec {b : Bst} (hl : b.len = b.root.size) (hn : b.root.ids.Nodup) :
    (b.len = 0 → itrNew b = { set := b, itr := none }) ∧
    (b.len ≠ 0 → ∃ it, itrNew b = { set := b, itr := some it } ∧ ItAt b.root it [] b.root.inorderN ∧ it.removed = false) := by
  constructor
  · intro h; simp [itrNew, h]
  · intro h
    have hne : b.root ≠ .nil := by
      intro e; rw [e] at hl; simp [size] at hl; exact h hl
    have hnil : b.root.isNil = false := by
      cases hb : b.root.isNil with
      | false => rfl
      | true => exact absurd ((isNil_iff _).mp hb) hne
    refine ⟨{ curr := minLink .root b.root }, by simp [itrNew, h, hnil], ⟨by simp, by simp, ?_⟩, rfl⟩
    intro _
    refine ⟨?_, ?_⟩
    · rw [minLink_root_spec hne hn, ← inorderN_map_fst, List.head?_map]
    · intro e
      have := inorderN_length b.root
      rw [e] at this
      exact hne ((size_eq_zero_iff _).mp this.symm)

theorem itrSettle_some {b : Bst} {lk : Link} {prev : Option Nat} {x : Option Nat} (h : deref b.root lk = some x) :
    itrSettle b lk prev = { set := b, itr := x.map (fun _ => { curr := lk, prev := prev, removed := false }) } := by
  cases x <;> simp [itrSettle, h]

/-- `m_bst_itr_next`: never faults, leaves the set alone, and moves to the element following the
position (`A.tail`, or `A` itself when the element at the position has just been removed). -/
theorem itrNext_spec {b : Bst} {it : Itr} {B A : List (Nat × Val)} (hn : b.root.ids.Nodup)
    (h : ItAt b.root it B A) :
    let A₁ := if it.removed then A else A.tail
    let B₁ := if it.removed then B else B ++ A.take 1
    ∃ oi, itrNext b it = { set := b, itr := oi } ∧ (A₁ = [] → oi = none) ∧
      (A₁ ≠ [] → ∃ it', oi = some it' ∧ ItAt b.root it' B₁ A₁ ∧ it'.removed = false) := by
  obtain ⟨hs, hp, hc⟩ := h
  have hids := ids_split hs
  cases hr : it.removed with
  | false =>
    obtain ⟨hd, hne⟩ := hc hr
    cases A with
    | nil => exact absurd rfl hne
    | cons a A' =>
      simp only [Bool.false_eq_true, if_false, List.tail_cons, List.take_succ_cons, List.take_zero]
      have hmem : a.1 ∈ b.root.ids := by rw [hids]; simp
      obtain ⟨lk, e1, e2⟩ := nextLink_spec hn hmem
      have hnb : a.1 ∉ B.map Prod.fst := by
        rw [hids] at hn
        intro hm
        exact (List.nodup_append.mp hn).2.2 a.1 hm a.1 (by simp) rfl
      have hnx : nextOf a.1 b.root.ids = (A'.map Prod.fst).head? := by
        rw [hids, List.map_cons]; exact nextOf_split hnb
      rw [hnx] at e2
      simp only [List.head?_cons, Option.map_some] at hd
      refine ⟨(A'.map Prod.fst).head?.map (fun _ => ({ curr := lk, prev := some a.1, removed := false } : Itr)),
        by simp only [itrNext, hr, Bool.not_false, if_true, hd, e1, itrSettle_some e2], ?_, ?_⟩
      · intro e; simp [e]
      · intro e
        cases A' with
        | nil => exact absurd rfl e
        | cons a2 A2 =>
          refine ⟨{ curr := lk, prev := some a.1, removed := false }, by simp, ⟨by simp [hs], by simp, ?_⟩, rfl⟩
          intro _
          exact ⟨by simpa using e2, by simp⟩
  | true =>
    simp only [if_true]
    cases hpv : it.prev with
    | some p =>
      rw [hpv] at hp
      obtain ⟨B0, v, rfl⟩ := last_split hp.symm
      have hmem : p ∈ b.root.ids := by rw [hids]; simp
      obtain ⟨lk, e1, e2⟩ := nextLink_spec hn hmem
      have hnb : p ∉ B0.map Prod.fst := by
        rw [hids] at hn
        intro hm
        have := (List.nodup_append.mp hn).1
        simp only [List.map_append, List.map_cons, List.map_nil] at this
        exact (List.nodup_append.mp this).2.2 p hm p (by simp) rfl
      have hnx : nextOf p b.root.ids = (A.map Prod.fst).head? := by
        rw [hids]
        simp only [List.map_append, List.map_cons, List.map_nil, List.append_assoc, List.cons_append, List.nil_append]
        exact nextOf_split hnb
      rw [hnx] at e2
      refine ⟨(A.map Prod.fst).head?.map (fun _ => ({ curr := lk, prev := some p, removed := false } : Itr)),
        by simp only [itrNext, hr, Bool.not_true, Bool.false_eq_true, if_false, hpv, e1, itrSettle_some e2], ?_, ?_⟩
      · intro e; simp [e]
      · intro e
        cases A with
        | nil => exact absurd rfl e
        | cons a A' =>
          refine ⟨{ curr := lk, prev := some p, removed := false }, by simp, ⟨hs, by simp, ?_⟩, rfl⟩
          intro _
          exact ⟨by simpa using e2, by simp⟩
    | none =>
      rw [hpv] at hp
      have hB := last_none hp.symm
      subst hB
      simp only [List.nil_append] at hs
      by_cases hroot : b.root = .nil
      · rw [hroot] at hs
        have hA : A = [] := by simpa [inorderN] using hs.symm
        subst hA
        refine ⟨none, ?_, fun _ => rfl, fun e => absurd rfl e⟩
        simp [itrNext, hr, hpv, hroot, isNil, itrSettle, deref, rootId]
      · have e2 := minLink_root_spec hroot hn
        rw [← inorderN_map_fst, hs] at e2
        have hnil : b.root.isNil = false := by
          cases hb : b.root.isNil with
          | false => rfl
          | true => exact absurd ((isNil_iff _).mp hb) hroot
        refine ⟨(A.map Prod.fst).head?.map (fun _ => ({ curr := minLink .root b.root, prev := none, removed := false } : Itr)),
          by simp only [itrNext, hr, Bool.not_true, Bool.false_eq_true, if_false, hpv, hnil, Bool.not_false, if_true, itrSettle_some e2], ?_, ?_⟩
        · intro e; simp [e]
        · intro e
          cases A with
          | nil => exact absurd rfl e
          | cons a A' =>
            refine ⟨{ curr := minLink .root b.root, prev := none, removed := false }, by simp, ⟨by simpa using hs, by simp, ?_⟩, rfl⟩
            intro _
            exact ⟨by simpa using e2, by simp⟩

/-- `m_bst_itr_get_data` returns the element at the position (NULL right after a removal) -/
theorem itrGet_spec {b : Bst} {it : Itr} {B A : List (Nat × Val)} (hn : b.root.ids.Nodup) (h : ItAt b.root it B A) :
    itrGet b it = some (if it.removed then none else A.head?.map Prod.snd) := by
  obtain ⟨hs, _, hc⟩ := h
  cases hr : it.removed with
  | true => simp [itrGet, hr]
  | false =>
    obtain ⟨hd, hne⟩ := hc hr
    cases A with
    | nil => exact absurd rfl hne
    | cons a A' =>
      have hv : valOf a.1 b.root = some a.2 := valOf_of_mem hn (by rw [hs]; simp)
      simp only [List.head?_cons, Option.map_some] at hd
      simp [itrGet, hr, hd, hv]

/-- `m_bst_itr_remove` removes exactly the element at the position, gives exactly that element to
the destructor, never faults, and keeps the position. -/
theorem itrRemove_spec {b : Bst} {it : Itr} {B A : List (Nat × Val)} (hn : b.root.ids.Nodup)
    (h : ItAt b.root it B A) (hr : it.removed = false) :
    ∃ a A' rm A'', A = a :: A' ∧
      itrRemove b it = { set := (applyRm b rm).1, itr := some { it with removed := true }, evs := dtorEv b a.2, ret := 0 } ∧
      rm.dval = a.2 ∧ rm.tree.inorderN = B ++ A'' ∧ A''.map Prod.snd = A'.map Prod.snd ∧
      ItAt rm.tree { it with removed := true } B A'' ∧
      RmSpec b.root.inorderN rm.tree.inorderN a.1 a.2 rm.freed := by
  obtain ⟨hs, hp, hc⟩ := h
  obtain ⟨hd, hne⟩ := hc hr
  cases A with
  | nil => exact absurd rfl hne
  | cons a A' =>
    have hids := ids_split hs
    have hmem : a.1 ∈ b.root.ids := by rw [hids]; simp
    obtain ⟨lk, c1, c2⟩ := canon_removeAt hn hmem
    obtain ⟨rm, v, r1, r2, sp⟩ := removeById_spec hn hmem
    have sp0 := sp
    obtain ⟨B2, A2, e, alt⟩ := sp
    rw [hs] at e
    have hn' : ((B ++ (a.1, a.2) :: A').map Prod.fst).Nodup := by
      have : (B ++ (a.1, a.2) :: A') = B ++ a :: A' := rfl
      rw [this, ← hs, inorderN_map_fst]; exact hn
    obtain ⟨rfl, rfl, rfl⟩ := split_unique hn' (show B ++ (a.1, a.2) :: A' = B2 ++ (a.1, v) :: A2 from e)
    simp only [List.head?_cons, Option.map_some] at hd
    have hrun : itrRemove b it = { set := (applyRm b rm).1, itr := some { it with removed := true }, evs := dtorEv b a.2, ret := 0 } := by
      simp [itrRemove, hr, hd, c1, c2, r1, applyRm, r2]
    rcases alt with ⟨e', _⟩ | ⟨w, rest, rfl, e'⟩
    · exact ⟨a, A', rm, A', rfl, hrun, r2, e', rfl, ⟨e', hp, by simp⟩, sp0⟩
    · exact ⟨a, _, rm, (a.1, w) :: rest, rfl, hrun, r2, e', by simp, ⟨e', hp, by simp⟩, sp0⟩

theorem itrRemove_removed {b : Bst} {it : Itr} (hr : it.removed = true) :
    itrRemove b it = { set := b, itr := some it, ret := -EINVAL } := by
  simp [itrRemove, hr]

end Lm.Struct.Bst
