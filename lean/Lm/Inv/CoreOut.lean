import Lm.Core.Model
/-! What the stop / reset / removal paths may append to the output trace (for C20 and C04). -/
namespace Lm.Core

/-- source table of `s'` has the same descriptors, flags and kinds as `s` (only `registered`/`polled` may differ) -/
def SrcFrame (s s' : St) : Prop :=
  ∀ (i : Nat) (x' : Src), s'.srcs[i]? = some x' → ∃ x : Src, s.srcs[i]? = some x ∧ x.key = x'.key ∧ x.autoclose = x'.autoclose ∧ x.isSub = x'.isSub

theorem SrcFrame.refl (s : St) : SrcFrame s s := fun _ x' h => ⟨x', h, rfl, rfl, rfl⟩
theorem SrcFrame.trans {a b c : St} (h1 : SrcFrame a b) (h2 : SrcFrame b c) : SrcFrame a c := by
  intro i x' h
  obtain ⟨y, hy, k1, a1, s1⟩ := h2 i x' h
  obtain ⟨x, hx, k2, a2, s2⟩ := h1 i y hy
  exact ⟨x, hx, k2.trans k1, a2.trans a1, s2.trans s1⟩
theorem SrcFrame.of_srcs_eq {s s' : St} (h : s'.srcs = s.srcs) : SrcFrame s s' := by
  intro i x' hx; rw [h] at hx; exact ⟨x', hx, rfl, rfl, rfl⟩

/-- an output the removal paths are allowed to produce from state `s`: a payload free, a pipe end, or the
descriptor of a source that was registered with AUTOCLOSE -/
def Allowed (s : St) : Out → Prop
  | .close (.fd k) => ∃ (i : Nat) (x : Src), s.srcs[i]? = some x ∧ x.key = k ∧ x.autoclose = true ∧ x.isSub = false
  | .close (.dup _) => False
  | .close .pipeR => True
  | .close .pipeW => True
  | .free _ => True
  | _ => False

theorem Allowed.mono {a b : St} (h : SrcFrame a b) {o : Out} (ho : Allowed b o) : Allowed a o := by
  cases o with
  | close w =>
    cases w with
    | fd k =>
      obtain ⟨i, x', hx, hk, ha, hs⟩ := ho
      obtain ⟨x, hx0, k1, a1, s1⟩ := h i x' hx
      exact ⟨i, x, hx0, k1.trans hk, a1.trans ha, s1.trans hs⟩
    | dup k => exact (ho : False).elim
    | pipeR => exact True.intro
    | pipeW => exact True.intro
  | free p => exact True.intro
  | ret c => exact (ho : False).elim
  | invoke cb m e => exact (ho : False).elim
  | note n => exact (ho : False).elim

/-- `g` only appends allowed outputs and keeps the source table's descriptors -/
def Emits (g : St → St) : Prop :=
  ∀ s, SrcFrame s (g s) ∧ ∃ l, (g s).out = s.out ++ l ∧ ∀ o ∈ l, Allowed s o

theorem Emits.id : Emits (fun s => s) := fun s => ⟨SrcFrame.refl s, [], by simp, by simp⟩

theorem Emits.comp {g h : St → St} (hg : Emits g) (hh : Emits h) : Emits (fun s => g (h s)) := by
  intro s
  obtain ⟨f1, l1, e1, a1⟩ := hh s
  obtain ⟨f2, l2, e2, a2⟩ := hg (h s)
  refine ⟨f1.trans f2, l1 ++ l2, by rw [e2, e1, List.append_assoc], ?_⟩
  intro o ho
  rcases List.mem_append.1 ho with ho | ho
  · exact a1 o ho
  · exact Allowed.mono f1 (a2 o ho)

theorem Emits.foldl {α} (g : St → α → St) (hg : ∀ a, Emits (fun s => g s a)) (l : List α) :
    Emits (fun s => l.foldl g s) := by
  induction l with
  | nil => exact Emits.id
  | cons a l ih => exact Emits.comp ih (hg a)

theorem Emits.pointwise (g : St → St) (h : ∀ s, ∃ g', Emits g' ∧ g s = g' s) : Emits g := by
  intro s
  obtain ⟨g', hq, he⟩ := h s
  rw [he]; exact hq s

theorem Emits.ite (c : Prop) [Decidable c] {g h : St → St} (hg : Emits g) (hh : Emits h) :
    Emits (fun s => if c then g s else h s) := by
  by_cases hc : c
  · simpa [hc] using hg
  · simpa [hc] using hh

theorem emits_of_eq (g : St → St) (hs : ∀ s, (g s).srcs = s.srcs) (ho : ∀ s, (g s).out = s.out) : Emits g :=
  fun s => ⟨SrcFrame.of_srcs_eq (hs s), [], by simp [ho s], by simp⟩

theorem emits_updMod (m : ModId) (f : Mod → Mod) : Emits (fun s => s.updMod m f) :=
  emits_of_eq _ (fun s => by unfold St.updMod; split <;> rfl) (fun s => by unfold St.updMod; split <;> rfl)

theorem emits_emit (o : Out) (h : ∀ s, Allowed s o) : Emits (fun s => s.emit o) :=
  fun s => ⟨SrcFrame.of_srcs_eq rfl, [o], rfl, by simpa using h s⟩

theorem emits_holderUnref (h) : Emits (fun s => holderUnref s h) := by
  apply Emits.pointwise
  intro s
  cases h with
  | none => exact ⟨_, Emits.id, rfl⟩
  | some i =>
    cases hn : s.holders[i]? with
    | none => exact ⟨fun s => s, Emits.id, by simp [holderUnref, hn]⟩
    | some n =>
      by_cases h1 : n = 1
      · refine ⟨fun s' => ({ s' with holders := s.holders.set i (n - 1) } : St).emit (.free (s.holderPayload[i]?.getD 0)), ?_, by simp [holderUnref, hn, h1]⟩
        intro s'
        exact ⟨SrcFrame.of_srcs_eq rfl, [.free (s.holderPayload[i]?.getD 0)], rfl, by simp [Allowed]⟩
      · exact ⟨fun s' => { s' with holders := s.holders.set i (n - 1) }, emits_of_eq _ (fun _ => rfl) (fun _ => rfl), by simp [holderUnref, hn, h1]⟩

theorem emits_destroyMsg (msg) : Emits (fun s => destroyMsg s msg) := emits_holderUnref _

theorem emits_destroyEvt (e) : Emits (fun s => destroyEvt s e) := by
  unfold destroyEvt
  cases e.msg with
  | none => exact Emits.id
  | some m => exact emits_destroyMsg m

theorem emits_destroyEvts (evts keep) : Emits (fun s => destroyEvts s evts keep) := by
  unfold destroyEvts
  apply Emits.foldl
  intro e
  by_cases h : keep.contains e
  · simp only [h, if_true]; exact Emits.id
  · simp only [h]; exact emits_destroyEvt e

theorem srcFrame_updSrc (s : St) (i : SrcId) (f : Src → Src)
    (hf : ∀ x, (f x).key = x.key ∧ (f x).autoclose = x.autoclose ∧ (f x).isSub = x.isSub) : SrcFrame s (s.updSrc i f) := by
  intro j x' hx'
  unfold St.updSrc at hx'
  split at hx'
  · rename_i x hx
    simp only at hx'
    by_cases hij : i = j
    · subst hij
      have hlt : i < s.srcs.length := by
        rcases Nat.lt_or_ge i s.srcs.length with h | h
        · exact h
        · simp [List.getElem?_eq_none h] at hx
      simp [hlt] at hx'
      subst hx'
      obtain ⟨a, b, c⟩ := hf x
      exact ⟨x, hx, a.symm, b.symm, c.symm⟩
    · rw [List.getElem?_set_ne hij] at hx'
      exact ⟨x', hx', rfl, rfl, rfl⟩
  · exact ⟨x', hx', rfl, rfl, rfl⟩

theorem emits_updSrc_flags (i : SrcId) (f : Src → Src)
    (hf : ∀ x, (f x).key = x.key ∧ (f x).autoclose = x.autoclose ∧ (f x).isSub = x.isSub) : Emits (fun s => s.updSrc i f) :=
  fun s => ⟨srcFrame_updSrc s i f hf, [], by (show (s.updSrc i f).out = _; unfold St.updSrc; split <;> simp), by simp⟩

theorem emits_destroySrc (i) : Emits (fun s => destroySrc s i) := by
  intro s
  show SrcFrame s (destroySrc s i) ∧ ∃ l, (destroySrc s i).out = s.out ++ l ∧ ∀ o ∈ l, Allowed s o
  unfold destroySrc
  split
  · rename_i x hx
    have hfr := srcFrame_updSrc s i (fun x => { x with registered := false, polled := false }) (fun _ => ⟨rfl, rfl, rfl⟩)
    have hout : (s.updSrc i fun x => { x with registered := false, polled := false }).out = s.out := by
      unfold St.updSrc; split <;> rfl
    by_cases h : (x.autoclose && !x.isSub) = true
    · simp only [h, if_true]
      refine ⟨hfr, [.close (.fd x.key)], by simp [St.emit, hout], ?_⟩
      intro o ho
      simp at ho; subst ho
      simp at h
      exact ⟨i, x, hx, rfl, h.1, h.2⟩
    · simp only [h]
      exact ⟨hfr, [], by simp [hout], by simp⟩
  · exact ⟨SrcFrame.refl s, [], by simp, by simp⟩

theorem emits_removeSrc (m i) : Emits (fun s => removeSrc s m i) :=
  Emits.comp (emits_destroySrc i) (emits_updMod m _)

theorem emits_flushDestroy (m) : Emits (fun s => flushDestroy s m) := by
  apply Emits.pointwise
  intro s
  unfold flushDestroy
  split
  · split
    · rename_i q _
      exact ⟨_, Emits.comp (emits_updMod m (fun md => { md with pipe := some [], pipeSkip := 0 })) (Emits.foldl destroyMsg emits_destroyMsg q), rfl⟩
    · exact ⟨_, Emits.id, rfl⟩
  · exact ⟨_, Emits.id, rfl⟩

theorem emits_manageSrcsRm (m stop) : Emits (fun s => manageSrcsRm s m stop) := by
  apply Emits.pointwise
  intro s
  unfold manageSrcsRm
  split
  · exact ⟨_, Emits.id, rfl⟩
  · rename_i md _
    by_cases hs : stop
    · simp only [hs, if_true]
      have q1 : Emits (fun s => if md.pipe.isSome then (flushDestroy s m).emit (.close .pipeR) else s) :=
        Emits.ite _ (Emits.comp (emits_emit _ (fun _ => by simp [Allowed])) (emits_flushDestroy m)) Emits.id
      have q2 := Emits.comp (emits_updMod m (fun md => { md with pipePolled := false })) q1
      have q3 := Emits.foldl (fun s i => removeSrc s m i) (fun i => emits_removeSrc m i) (sortSrcs s md.srcs)
      exact ⟨_, Emits.comp q3 q2, rfl⟩
    · simp only [hs]
      have q2 := emits_updMod m (fun md => { md with pipePolled := false })
      have q3 := Emits.foldl (fun s i => s.updSrc i fun x => { x with polled := false })
        (fun i => emits_updSrc_flags i _ (fun _ => ⟨rfl, rfl, rfl⟩)) md.srcs
      exact ⟨_, Emits.comp q3 q2, rfl⟩

theorem emits_resetModule (m) : Emits (fun s => resetModule s m) := by
  apply Emits.pointwise
  intro s
  unfold resetModule
  split
  · exact ⟨_, Emits.id, rfl⟩
  · rename_i md _
    have q1 : Emits (fun s => if md.pipe.isSome then s.emit (.close .pipeW) else s) :=
      Emits.ite _ (emits_emit _ (fun _ => by simp [Allowed])) Emits.id
    have q2 := Emits.foldl (fun s i => removeSrc s m i) (fun i => emits_removeSrc m i) md.subs
    have q3 := emits_destroyEvts md.stash []
    have q4 := emits_destroyEvts md.batch []
    have q5 := emits_updMod m Mod.reset
    exact ⟨_, Emits.comp q5 (Emits.comp q4 (Emits.comp q3 (Emits.comp q2 q1))), rfl⟩

end Lm.Core
