import Lm.Inv.ThpoolInv
/-! Preservation of the control-flow invariants: roles, mutex, condition variable, submitters, shutdown. -/
namespace Lm.Thpool
variable {s s' : State} {l : Label}
set_option linter.unusedSimpArgs false
set_option linter.unusedVariables false

set_option maxHeartbeats 1000000 in
theorem mainIsM_step (hi : Inv s) (h : step s l = some s') : isM (s'.pc 0) = true := by
  have h0 := hi.mainIsM
  have h1 := hi.othersNotM l.tid
  step_cases h
  all_goals (
    by_cases ht : l.tid = 0
    · simp_all [State.goto, upd_apply, zero_eq]
    · simp_all [State.goto, upd_apply, zero_eq]
      try (split <;> (first | omega | simp_all)))

set_option maxHeartbeats 1000000 in
theorem othersNotM_step (hi : Inv s) (h : step s l = some s') : ∀ u, u ≠ 0 → isM (s'.pc u) = false := by
  have h0 := hi.mainIsM
  have h1 := hi.othersNotM l.tid
  intro u hu
  have h2 := hi.othersNotM u hu
  step_cases h
  all_goals (
    by_cases ht : u = l.tid
    · subst ht; simp_all [State.goto, upd_apply, zero_eq]
    · simp_all [State.goto, upd_apply, zero_eq]
      try (split <;> simp_all))


set_option maxHeartbeats 1000000 in
theorem mutex_step (hi : Inv s) (h : step s l = some s') : ∀ u, holds (s'.pc u) = true → s'.lockOwner = some u := by
  intro u hu
  have h1 := hi.mutex u
  have h2 := hi.mutex l.tid
  step_cases h
  all_goals (
    by_cases ht : u = l.tid
    · subst ht; simp_all [State.goto, upd_apply, zero_eq]
    · simp_all [State.goto, upd_apply, zero_eq]
      try (split at hu <;> simp_all))

set_option maxHeartbeats 1000000 in
theorem owner_step (hi : Inv s) (h : step s l = some s') : ∀ u, s'.lockOwner = some u → holds (s'.pc u) = true := by
  intro u hu
  have h1 := hi.owner u
  have h2 := hi.owner l.tid
  step_cases h
  all_goals (
    by_cases ht : u = l.tid
    · subst ht; simp_all [State.goto, upd_apply, zero_eq]
    · simp_all [State.goto, upd_apply, zero_eq]
      try (split <;> simp_all))


set_option maxHeartbeats 1000000 in
theorem waitPc_step (hi : Inv s) (h : step s l = some s') : ∀ u, u ∈ s'.waiters → waitingPc (s'.pc u) = true := by
  intro u hu
  have h1 := hi.waitPc u
  have h2 := hi.waitPc l.tid
  have h3 := fun w => List.mem_of_mem_erase (a := u) (b := w) (l := s.waiters)
  step_cases h
  all_goals (
    by_cases ht : u = l.tid
    · subst ht; simp_all [State.goto, upd_apply, zero_eq]
    · simp_all [State.goto, upd_apply, zero_eq] <;> first | (split <;> simp_all <;> done) | grind)

set_option maxHeartbeats 1000000 in
theorem waitNodup_step (hi : Inv s) (h : step s l = some s') : s'.waiters.Nodup := by
  have h1 := hi.waitNodup
  have h2 := hi.waitPc l.tid
  have h3 := fun w => List.Nodup.erase (a := w) h1
  step_cases h
  all_goals (first | exact h1 | simp_all [State.goto])


set_option maxHeartbeats 1000000 in
theorem addingIff_step (hi : Inv s) (h : step s l = some s') : ∀ u, u ∈ s'.adding ↔ isS (s'.pc u) = true := by
  intro u
  have h1 := hi.addingIff u
  have h2 := hi.addingIff l.tid
  have h3 := hi.addingNodup
  have h4 := fun w => List.Nodup.mem_erase_iff (a := u) (b := w) h3
  step_cases h
  all_goals (
    by_cases ht : u = l.tid
    · subst ht; simp_all [State.goto, upd_apply, zero_eq]
    · simp_all [State.goto, upd_apply, zero_eq] <;> first | (split <;> simp_all <;> done) | grind)

set_option maxHeartbeats 1000000 in
theorem addingNodup_step (hi : Inv s) (h : step s l = some s') : s'.adding.Nodup := by
  have h1 := hi.addingNodup
  have h2 := hi.addingIff l.tid
  have h3 := fun w => List.Nodup.erase (a := w) h1
  step_cases h
  all_goals (first | exact h1 | simp_all [State.goto])

set_option maxHeartbeats 1000000 in
theorem liveHandle_step (hi : Inv s) (hp : pre s l = true) (h : step s l = some s') :
    ∀ u, isS (s'.pc u) = true → s'.pc 0 = .mIdle := by
  intro u hu
  have h1 := hi.liveHandle u
  have h2 := hi.liveHandle l.tid
  have h3 := hi.addingIff u
  have h4 := hi.othersNotM l.tid
  have h5 := hi.mainIsM
  step_cases h
  all_goals (
    simp [pre, *] at hp
    by_cases ht : u = l.tid
    · subst ht
      by_cases h0 : l.tid = 0
      · simp_all [State.goto, upd_apply, zero_eq]
      · simp_all [State.goto, upd_apply, zero_eq] <;> fin
    · by_cases h0 : l.tid = 0
      · simp_all [State.goto, upd_apply, zero_eq] <;> first | (split at hu <;> simp_all <;> done) | grind
      · simp_all [State.goto, upd_apply, zero_eq] <;> first | (split at hu <;> simp_all <;> done) | grind)


set_option maxHeartbeats 1000000 in
theorem shut_step (hi : Inv s) (h : step s l = some s') :
    (ph (s'.pc 0) ≤ 4 → s'.shutdown = .no) ∧
    (5 ≤ ph (s'.pc 0) → s'.shutdown = (if s'.mode then .waitAll else .waitCurr)) := by
  have h1 := hi.shutNo
  have h2 := hi.shutSet
  have h4 := hi.othersNotM l.tid
  have h5 := hi.mainIsM
  step_cases h
  all_goals (
    by_cases h0 : l.tid = 0
    · simp_all [State.goto, upd_apply, zero_eq] <;> fin
    · simp_all [State.goto, upd_apply, zero_eq] <;> fin)

end Lm.Thpool
