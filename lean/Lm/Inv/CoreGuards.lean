import Lm.Core.Lemmas
/-! Refused calls: the guard that fails determines a negative code and the configuration is untouched. -/
namespace Lm.Core

theorem modAssert_neg (s : St) (m : ModId) (e : Int) (h : modAssert s m = some e) : e < 0 := by
  unfold modAssert at h
  have hneg : EINVAL < 0 ∧ EACCES < 0 ∧ EPERM < 0 := by decide
  split at h
  · cases h; exact hneg.1
  · split at h
    · cases h; exact hneg.2.1
    · split at h
      · cases h; exact hneg.2.2
      · split at h
        · cases h
        · cases h; exact hneg.2.2

/-- a guarded call on a module in a state outside the mask is refused -/
theorem guarded_refuses_state (s : St) (m : ModId) (md : Mod) (deny mask tok) (body : Prog Int)
    (hm : s.mods[m]? = some md) (hs : !mask.contains md.state) :
    ∃ code : Int, code < 0 ∧ Refuses (guarded m deny (some mask) tok body) s code := by
  unfold Refuses guarded
  simp only [runP_getSt_bind]
  cases hma : modAssert s m with
  | some e => exact ⟨e, modAssert_neg s m e hma, by simp⟩
  | none =>
    simp only [hm]
    by_cases hd : deny md.flags = true
    · exact ⟨EPERM, by decide, by simp [hd]⟩
    · have hnm : ¬ md.state ∈ mask := by simpa using hs
      exact ⟨EACCES, by decide, by simp [hd, hnm]⟩

/-- a guarded call by a module lacking the permission is refused -/
theorem guarded_refuses_perm (s : St) (m : ModId) (md : Mod) (deny mask tok) (body : Prog Int)
    (hm : s.mods[m]? = some md) (hd : deny md.flags = true) :
    ∃ code : Int, code < 0 ∧ Refuses (guarded m deny mask tok body) s code := by
  unfold Refuses guarded
  simp only [runP_getSt_bind]
  cases hma : modAssert s m with
  | some e => exact ⟨e, modAssert_neg s m e hma, by simp⟩
  | none => exact ⟨EPERM, by decide, by simp [hm, hd]⟩

/-- any guarded call on a ZOMBIE is refused with -EACCES -/
theorem guarded_refuses_zombie (s : St) (m : ModId) (md : Mod) (deny mask tok) (body : Prog Int)
    (hm : s.mods[m]? = some md) (hz : md.state = .zombie) :
    Refuses (guarded m deny mask tok body) s EACCES := by
  unfold Refuses guarded
  simp [modAssert, hm, hz]

/-- a guarded token-consuming call on an exhausted bucket is refused with -EAGAIN -/
theorem guarded_refuses_token (s : St) (m : ModId) (md : Mod) (deny) (mask : Option (List MState)) (body : Prog Int)
    (hm : s.mods[m]? = some md) (hma : modAssert s m = none) (hd : deny md.flags = false)
    (hmask : (match mask with | some l => !l.contains md.state | none => false) = false)
    (tb : TB) (htb : md.tb = some tb) (h0 : tb.tokens = 0) :
    Refuses (guarded m deny mask true body) s EAGAIN := by
  unfold Refuses guarded
  cases mask with
  | none => simp [hma, hm, hd, consumeToken, htb, h0]
  | some l =>
    have : md.state ∈ l := by simpa using hmask
    simp [hma, hm, hd, consumeToken, htb, h0, this]

/-- every context call fails with -EPIPE when `m_ctx()` yields nothing
(no context on this thread, or the executing callback belongs to a DENY_CTX module) -/
theorem ctx_calls_refused (s : St) (h : mctx s = none) :
    Refuses ctxDeregisterP s EPIPE ∧ Refuses apiFinalize s EPIPE ∧ Refuses apiDispatch s EPIPE ∧ Refuses apiLoop s EPIPE ∧
    (∀ c, Refuses (apiQuit c) s EPIPE) ∧ Refuses apiCtxLen s EPIPE ∧ (∀ n, Refuses (apiSetTick n) s EPIPE) ∧
    (∀ n sl f hk, n ≠ "" → Refuses (apiRegister n sl f hk) s EPIPE) := by
  refine ⟨?_, ?_, ?_, ?_, ?_, ?_, ?_, ?_⟩
  · simp [Refuses, ctxDeregisterP, h]
  · simp [Refuses, apiFinalize, h]
  · simp [Refuses, apiDispatch, h]
  · simp [Refuses, apiLoop, h]
  · intro c; simp [Refuses, apiQuit, h]
  · simp [Refuses, apiCtxLen, h]
  · intro n; simp [Refuses, apiSetTick, h]
  · intro n sl f hk hn
    have : n.isEmpty = false := by
      cases hne : n.isEmpty with
      | false => rfl
      | true => exact absurd (String.isEmpty_iff.mp hne) hn
    simp [Refuses, apiRegister, h, this]


/-- the state-mask test of a guarded call passes -/
def maskOk (mask : Option (List MState)) (st : MState) : Prop :=
  match mask with | some l => st ∈ l | none => True

/-- all guards pass (token included): the call behaves as its body, started after the token was taken -/
theorem guarded_pass_tok (s s' : St) (m : ModId) (md : Mod) (deny mask) (body : Prog Int)
    (hm : s.mods[m]? = some md) (hma : modAssert s m = none) (hd : deny md.flags = false) (hmask : maskOk mask md.state)
    (ht : consumeToken s m = some s') : runP (guarded m deny mask true body) s = runP body s' := by
  unfold guarded
  cases mask with
  | none => simp [hma, hm, hd, ht]
  | some l =>
    have : md.state ∈ l := hmask
    simp [hma, hm, hd, ht, this]

theorem guarded_pass_notok (s : St) (m : ModId) (md : Mod) (deny mask) (body : Prog Int)
    (hm : s.mods[m]? = some md) (hma : modAssert s m = none) (hd : deny md.flags = false) (hmask : maskOk mask md.state) :
    runP (guarded m deny mask false body) s = runP body s := by
  unfold guarded
  cases mask with
  | none => simp [hma, hm, hd]
  | some l =>
    have : md.state ∈ l := hmask
    simp [hma, hm, hd, this]

end Lm.Core
