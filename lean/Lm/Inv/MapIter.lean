import Lm.Inv.MapOps
/-!
# Iteration over the map (property C05): circular scan, removal of the current entry, clear
-/
set_option linter.unusedSectionVars false
namespace Lm.Struct.Map
variable {κ : Type} [DecidableEq κ]

/-! ## `clear_elem` only depends on the slot, not on the unreduced index -/

theorem backshift_congr (P : Params κ) (n : Nat) : ∀ (fuel : Nat) (c : List (Cell κ)) (h h' i i' : Nat),
    c.length = n → h % n = h' % n → i % n = i' % n →
    backshift P n fuel c h i = backshift P n fuel c h' i' := by
  intro fuel
  induction fuel with
  | zero => intro c h h' i i' _ _ _; rfl
  | succ fuel ih =>
    intro c h h' i i' hc hh hi
    unfold backshift
    have hs : slot c i = slot c i' := slot_congr c i i' (by rw [hc]; exact hi)
    rw [hs, hh, hi]
    have hi1 : (i + 1) % n = (i' + 1) % n := add_mod_congr i i' 1 n hi
    split
    · rfl
    · split
      · exact ih _ i i' (i + 1) (i' + 1) (by simp [hc]) hi hi1
      · exact ih c h h' (i + 1) (i' + 1) hc hh hi1

theorem clearElem_congr (P : Params κ) (m : Map κ) (i i' : Nat) (h : i % m.size = i' % m.size) :
    clearElem P m i = clearElem P m i' := by
  unfold clearElem
  have hs : slot m.cells i = slot m.cells i' := slot_congr m.cells i i' h
  rw [hs, h]
  split
  · rfl
  · rw [backshift_congr P m.size (m.size - 1) _ i i' (i + 1) (i' + 1) (by simp [Map.size]) h
      (add_mod_congr i i' 1 m.size h)]

/-- `m_map_remove(key of the entry in slot p)` is `clear_elem` on slot `p` -/
theorem remove_eq_clearElem (P : Params κ) (hP : P.Good) (m : Map κ) (hwf : WF P m) (p : Nat) (k : κ) (v : Nat)
    (hs : slot m.cells p = some (k, v)) :
    remove P m k = ((clearElem P m p).1, (clearElem P m p).2, 0) := by
  have hn : 0 < m.cells.length := by have := hwf.size.pos hP; unfold Map.size at this; omega
  have hhas : Has m.cells (k, v) := ⟨p % m.cells.length, Nat.mod_lt _ hn, by rw [slot_mod]; exact hs⟩
  unfold remove
  have h0 : m.length ≠ 0 := fun h0 => no_entries_of_length_zero P m hwf h0 _ hhas
  rw [if_neg h0]
  obtain ⟨i, hi, hm⟩ := entryFind_complete P hP m.cells hwf.size.le hwf.tbl false (p % m.cells.length) k v
    (Nat.mod_lt _ hn) (by rw [slot_mod]; exact hs)
  rw [hi]
  simp only
  rw [clearElem_congr P m i p (by unfold Map.size; exact hm)]

/-! ## The window of a scan -/

/-- the entry `e` sits at a position of the scan window `[p, stop)` -/
def InWin (c : List (Cell κ)) (p stop : Nat) (e : κ × Nat) : Prop := ∃ q, p ≤ q ∧ q < stop ∧ slot c q = some e

theorem inWin_step_none (c : List (Cell κ)) (p stop : Nat) (h : slot c p = none) (e : κ × Nat) :
    InWin c p stop e ↔ InWin c (p + 1) stop e := by
  constructor
  · rintro ⟨q, h1, h2, h3⟩
    refine ⟨q, ?_, h2, h3⟩
    rcases Nat.eq_or_lt_of_le h1 with heq | hlt
    · subst heq; rw [h] at h3; cases h3
    · exact hlt
  · rintro ⟨q, h1, h2, h3⟩; exact ⟨q, by omega, h2, h3⟩

theorem inWin_step_some (c : List (Cell κ)) (p stop : Nat) (hp : p < stop) (e0 : κ × Nat) (h : slot c p = some e0)
    (e : κ × Nat) : InWin c p stop e ↔ e = e0 ∨ InWin c (p + 1) stop e := by
  constructor
  · rintro ⟨q, h1, h2, h3⟩
    rcases Nat.eq_or_lt_of_le h1 with heq | hlt
    · subst heq; rw [h] at h3; cases h3; left; rfl
    · right; exact ⟨q, hlt, h2, h3⟩
  · rintro (rfl | ⟨q, h1, h2, h3⟩)
    · exact ⟨p, Nat.le_refl _, hp, h⟩
    · exact ⟨q, by omega, h2, h3⟩

theorem inWin_empty (c : List (Cell κ)) (p stop : Nat) (h : stop ≤ p) (e : κ × Nat) : ¬ InWin c p stop e := by
  rintro ⟨q, h1, h2, _⟩; omega

theorem inWin_has (c : List (Cell κ)) (p stop : Nat) (e : κ × Nat) (hn : 0 < c.length) (h : InWin c p stop e) : Has c e := by
  obtain ⟨q, _, _, h3⟩ := h
  exact ⟨q % c.length, Nat.mod_lt _ hn, by rw [slot_mod]; exact h3⟩

/-- the full circular scan `(s, s + n)` after an empty slot `s` sees the whole table -/
theorem inWin_full (c : List (Cell κ)) (s : Nat) (hn : 0 < c.length) (hs : slot c s = none) (e : κ × Nat) :
    InWin c (s + 1) (s + c.length) e ↔ Has c e := by
  unfold Has
  rw [← window_full c c.length (s + 1) rfl hn e]
  constructor
  · rintro ⟨q, h1, h2, h3⟩; exact ⟨q, h1, by omega, h3⟩
  · rintro ⟨q, h1, h2, h3⟩
    refine ⟨q, h1, ?_, h3⟩
    rcases Nat.lt_or_ge q (s + c.length) with hlt | hge
    · exact hlt
    · have : q = s + c.length := by omega
      subst this
      rw [slot_congr c (s + c.length) s (by simp), hs] at h3; cases h3

/-! ## One step of an iteration that removes the current entry -/

/-- the state of a scan: position `p` inside the window that ends at the empty slot `stop` -/
structure ScanOk (P : Params κ) (m : Map κ) (p stop : Nat) : Prop where
  wf : WF P m
  lo : stop < p + m.size
  stopNone : slot m.cells stop = none

/-- events of removing the entry `(k, v)` -/
def remEvs (m : Map κ) (e : κ × Nat) : List (Ev κ) :=
  (if m.autofree then [Ev.kfree e.1] else []) ++ (if m.dtor then [Ev.dtor e.2] else [])

theorem rm_step (P : Params κ) (hP : P.Good) (m : Map κ) (p stop : Nat) (h : ScanOk P m p stop) (hp : p < stop)
    (k : κ) (v : Nat) (hs : slot m.cells p = some (k, v)) :
    ScanOk P (clearElem P m p).1 p stop ∧ SameFlags m (clearElem P m p).1 ∧
    (clearElem P m p).1.size = m.size ∧ (clearElem P m p).1.length + 1 = m.length ∧
    (clearElem P m p).2 = remEvs m (k, v) ∧
    (∀ e, Has (clearElem P m p).1.cells e ↔ (Has m.cells e ∧ e.1 ≠ k)) ∧
    (∀ e, InWin (clearElem P m p).1.cells p stop e ↔ InWin m.cells (p + 1) stop e) := by
  obtain ⟨g1, g2, g3, g4, g5, g6⟩ := clearElem_spec P hP m h.wf p k v hs
  have hw := cleared_window P m.cells p (k, v) hs stop stop hp (by have := h.lo; unfold Map.size at this; omega)
    (Nat.le_refl _) (by have := h.lo; unfold Map.size at this; omega) h.stopNone
  have hc : (clearElem P m p).1.cells = cleared P m.cells p := by rw [clearElem_eq P m p k v hs]
  refine ⟨⟨g1, by rw [g4]; exact h.lo, by rw [hc]; exact hw.1⟩, g2, g4, g3, g6, g5, ?_⟩
  intro e
  rw [hc]
  exact hw.2 e

/-! ## `m_map_iterate` with a callback that keeps or removes the current entry -/

/-- the entries the callback was invoked on, in order -/
def visitsOf : List (Out κ) → List (κ × Nat)
  | [] => []
  | .visit k v :: r => (k, v) :: visitsOf r
  | .ev _ :: r => visitsOf r
  | .rc _ :: r => visitsOf r

/-- the visited entries the callback removed (`vn` = index of the first visit) -/
def rmList (cb : Nat → κ → Nat → CbAct κ) : Nat → List (κ × Nat) → List (κ × Nat)
  | _, [] => []
  | vn, e :: rest => (match cb vn e.1 e.2 with | .rm => [e] | _ => []) ++ rmList cb (vn + 1) rest

/-- the callback only ever continues or removes the current entry -/
def ContRm (cb : Nat → κ → Nat → CbAct κ) : Prop := ∀ i k v, cb i k v = .cont ∨ cb i k v = .rm

theorem visitsOf_append (a b : List (Out κ)) : visitsOf (a ++ b) = visitsOf a ++ visitsOf b := by
  induction a with
  | nil => rfl
  | cons x xs ih => cases x <;> simp [visitsOf, ih]

theorem visitsOf_evs (evs : List (Ev κ)) : visitsOf (evs.map Out.ev) = [] := by
  induction evs with
  | nil => rfl
  | cons x xs ih => simp [visitsOf, ih]

theorem outEvs_append (a b : List (Out κ)) : outEvs (a ++ b) = outEvs a ++ outEvs b := by
  induction a with
  | nil => rfl
  | cons x xs ih => cases x <;> simp [outEvs, ih]

theorem outEvs_evs (evs : List (Ev κ)) : outEvs (evs.map Out.ev) = evs := by
  induction evs with
  | nil => rfl
  | cons x xs ih => simp [outEvs, ih]

theorem remEvs_congr {m m' : Map κ} (h : SameFlags m m') (e : κ × Nat) : remEvs m' e = remEvs m e := by
  unfold remEvs; rw [h.autofree, h.dtor]

theorem flatMap_remEvs_congr {m m' : Map κ} (h : SameFlags m m') (l : List (κ × Nat)) :
    l.flatMap (remEvs m') = l.flatMap (remEvs m) := by
  congr 1; funext e; exact remEvs_congr h e

/-- what the scan loop of `m_map_iterate` achieves from position `p` on -/
structure IterPost (P : Params κ) (cb : Nat → κ → Nat → CbAct κ) (m : Map κ) (p stop vn : Nat)
    (r : Map κ × List (Out κ) × Int) : Prop where
  rc : r.2.2 = 0
  wf : WF P r.1
  flags : SameFlags m r.1
  size : r.1.size = m.size
  nodup : ((visitsOf r.2.1).map (·.1)).Nodup
  visits : ∀ e, e ∈ visitsOf r.2.1 ↔ InWin m.cells p stop e
  after : ∀ e, Has r.1.cells e ↔ (Has m.cells e ∧ e.1 ∉ (rmList cb vn (visitsOf r.2.1)).map (·.1))
  evs : outEvs r.2.1 = (rmList cb vn (visitsOf r.2.1)).flatMap (remEvs m)

theorem iterLoop_spec (P : Params κ) (hP : P.Good) (cb : Nat → κ → Nat → CbAct κ) (hcb : ContRm cb) (stop : Nat) :
    ∀ (fuel : Nat) (m : Map κ) (p vn : Nat), ScanOk P m p stop → (stop - p) + m.length < fuel →
      IterPost P cb m p stop vn (iterLoop P cb fuel m p stop vn) := by
  intro fuel
  induction fuel with
  | zero => intro m p vn _ hf; omega
  | succ fuel ih =>
    intro m p vn hok hf
    have hn : 0 < m.cells.length := by have := hok.wf.size.pos hP; unfold Map.size at this; omega
    rw [iterLoop]
    by_cases hp : p < stop
    · rw [if_pos hp]
      cases hs : slot m.cells p with
      | none =>
        simp only
        have := ih m (p + 1) vn ⟨hok.wf, by have := hok.lo; omega, hok.stopNone⟩ (by omega)
        exact { this with visits := fun e => by rw [this.visits e, inWin_step_none m.cells p stop hs e] }
      | some kv =>
        obtain ⟨k, v⟩ := kv
        simp only
        have hhas : Has m.cells (k, v) := ⟨p % m.cells.length, Nat.mod_lt _ hn, by rw [slot_mod]; exact hs⟩
        rcases hcb vn k v with hc | hc
        · -- the callback keeps the entry
          rw [hc]
          simp only [runCb]
          have hk : (Option.map (fun x => x.1) (slot m.cells p) ≠ some k) = False := by rw [hs]; simp
          simp only [Int.lt_irrefl, if_false, hk, ne_eq, not_true_eq_false, List.nil_append]
          have := ih m (p + 1) (vn + 1) ⟨hok.wf, by have := hok.lo; omega, hok.stopNone⟩ (by omega)
          have hrm : rmList cb vn ((k, v) :: visitsOf (iterLoop P cb fuel m (p + 1) stop (vn + 1)).2.1) =
              rmList cb (vn + 1) (visitsOf (iterLoop P cb fuel m (p + 1) stop (vn + 1)).2.1) := by
            simp [rmList, hc]
          have hvis : visitsOf ([Out.visit k v] ++ (iterLoop P cb fuel m (p + 1) stop (vn + 1)).2.1) =
              (k, v) :: visitsOf (iterLoop P cb fuel m (p + 1) stop (vn + 1)).2.1 := by
            simp [visitsOf]
          have hoe : outEvs ([Out.visit k v] ++ (iterLoop P cb fuel m (p + 1) stop (vn + 1)).2.1) =
              outEvs (iterLoop P cb fuel m (p + 1) stop (vn + 1)).2.1 := by
            simp [outEvs]
          refine ⟨this.rc, this.wf, this.flags, this.size, ?_, ?_, ?_, ?_⟩
          · rw [hvis]
            simp only [List.map_cons, List.nodup_cons]
            refine ⟨?_, this.nodup⟩
            intro hmem
            obtain ⟨e, he, hek⟩ := List.mem_map.mp hmem
            obtain ⟨q, hq1, hq2, hq3⟩ := (this.visits e).mp he
            obtain ⟨k', w⟩ := e
            simp only at hek; subst hek
            have := hok.wf.tbl.uniq (q % m.cells.length) (p % m.cells.length) k' w v (Nat.mod_lt _ hn) (Nat.mod_lt _ hn)
              (by rw [slot_mod]; exact hq3) (by rw [slot_mod]; exact hs)
            have hlo := hok.lo; unfold Map.size at hlo
            exact mod_ne_of_lt m.cells.length p q (by omega) (by omega) this.symm
          · intro e
            rw [hvis]
            simp only [List.mem_cons]
            rw [this.visits e, inWin_step_some m.cells p stop hp (k, v) hs e]
          · intro e; rw [hvis, hrm]; exact this.after e
          · rw [hvis, hoe, hrm]; exact this.evs
        · -- the callback removes the entry
          rw [hc]
          simp only [runCb]
          simp only [remove_eq_clearElem P hP m hok.wf p k v hs]
          obtain ⟨g1, g2, g3, g4, g5, g6, g7⟩ := rm_step P hP m p stop hok hp k v hs
          have hk : (Option.map (fun x => x.1) (slot (clearElem P m p).1.cells p) ≠ some k) = True := by
            apply eq_true
            intro hh
            cases hsl : slot (clearElem P m p).1.cells p with
            | none => rw [hsl] at hh; cases hh
            | some e =>
              rw [hsl] at hh; simp at hh
              have hn' : 0 < (clearElem P m p).1.cells.length := by
                have := g3; unfold Map.size at this; omega
              have : Has (clearElem P m p).1.cells e :=
                ⟨p % (clearElem P m p).1.cells.length, Nat.mod_lt _ hn', by rw [slot_mod]; exact hsl⟩
              exact ((g6 e).mp this).2 hh
          simp only [Int.lt_irrefl, if_false, hk, if_true]
          have := ih (clearElem P m p).1 p (vn + 1) g1 (by omega)
          have hrm : rmList cb vn ((k, v) :: visitsOf (iterLoop P cb fuel (clearElem P m p).1 p stop (vn + 1)).2.1) =
              (k, v) :: rmList cb (vn + 1) (visitsOf (iterLoop P cb fuel (clearElem P m p).1 p stop (vn + 1)).2.1) := by
            simp [rmList, hc]
          have hvis : visitsOf (Out.visit k v :: (List.map Out.ev (clearElem P m p).2 ++ [Out.rc 0]) ++
              (iterLoop P cb fuel (clearElem P m p).1 p stop (vn + 1)).2.1) =
              (k, v) :: visitsOf (iterLoop P cb fuel (clearElem P m p).1 p stop (vn + 1)).2.1 := by
            simp [visitsOf, visitsOf_append, visitsOf_evs]
          refine ⟨this.rc, this.wf, g2.trans this.flags, by rw [this.size, g3], ?_, ?_, ?_, ?_⟩
          · rw [hvis]
            simp only [List.map_cons, List.nodup_cons]
            refine ⟨?_, this.nodup⟩
            intro hmem
            obtain ⟨e, he, hek⟩ := List.mem_map.mp hmem
            have hin := (this.visits e).mp he
            have hn' : 0 < (clearElem P m p).1.cells.length := by
              have := g3; unfold Map.size at this; omega
            exact ((g6 e).mp (inWin_has _ _ _ _ hn' hin)).2 hek
          · intro e
            rw [hvis]
            simp only [List.mem_cons]
            rw [this.visits e, g7 e, inWin_step_some m.cells p stop hp (k, v) hs e]
          · intro e
            rw [hvis, hrm, this.after e, g6 e]
            simp only [List.map_cons, List.mem_cons, not_or]
            constructor
            · rintro ⟨⟨a, b⟩, c⟩; exact ⟨a, b, c⟩
            · rintro ⟨a, b, c⟩; exact ⟨⟨a, b⟩, c⟩
          · rw [hvis, hrm]
            simp only [outEvs, outEvs_append, outEvs_evs, List.flatMap_cons]
            rw [this.evs, flatMap_remEvs_congr g2, g5]
            simp [outEvs]
    · rw [if_neg hp]
      refine ⟨rfl, hok.wf, SameFlags.refl m, rfl, by simp [visitsOf], ?_, ?_, by simp [visitsOf, rmList, outEvs]⟩
      · intro e
        simp only [visitsOf, List.not_mem_nil, false_iff]
        exact inWin_empty m.cells p stop (by omega) e
      · intro e; simp [visitsOf, rmList]

/-! ## Where the scan starts: `hashmap_first_empty` -/

theorem firstEmpty_get : ∀ (c : List (Cell κ)), occ c < c.length →
    firstEmpty c < c.length ∧ c[firstEmpty c]? = some none := by
  intro c
  induction c with
  | nil => intro h; simp at h
  | cons x xs ih =>
    intro h
    cases x with
    | none => simp [firstEmpty]
    | some e =>
      have : occ xs < xs.length := by simp [occ_cons] at h; omega
      obtain ⟨h1, h2⟩ := ih this
      simp only [firstEmpty, List.length_cons]
      exact ⟨by omega, by simpa using h2⟩

theorem firstEmpty_spec (c : List (Cell κ)) (h : occ c < c.length) :
    firstEmpty c < c.length ∧ slot c (firstEmpty c) = none := by
  obtain ⟨h1, h2⟩ := firstEmpty_get c h
  exact ⟨h1, by rw [slot_lt c _ h1, h2]; rfl⟩

theorem scanOk_start (P : Params κ) (m : Map κ) (hwf : WF P m) :
    ScanOk P m (firstEmpty m.cells + 1) (firstEmpty m.cells + m.size) ∧
    ∀ e, InWin m.cells (firstEmpty m.cells + 1) (firstEmpty m.cells + m.size) e ↔ Has m.cells e := by
  have hocc : occ m.cells < m.cells.length := by have := hwf.room; have := hwf.len; unfold Map.size at *; omega
  obtain ⟨h1, h2⟩ := firstEmpty_spec m.cells hocc
  have hstop : slot m.cells (firstEmpty m.cells + m.size) = none := by
    rw [slot_congr m.cells _ (firstEmpty m.cells) (by simp [Map.size])]; exact h2
  exact ⟨⟨hwf, by omega, hstop⟩, fun e => inWin_full m.cells _ (by omega) h2 e⟩

/-- `m_map_iterate` with a callback that keeps or removes the current entry -/
theorem iterate_spec (P : Params κ) (hP : P.Good) (m : Map κ) (hwf : WF P m)
    (cb : Nat → κ → Nat → CbAct κ) (hcb : ContRm cb) :
    (m.length = 0 ∧ iterate P m cb = (m, [], -22)) ∨
    (m.length ≠ 0 ∧
      (iterate P m cb).2.2 = 0 ∧ WF P (iterate P m cb).1 ∧ SameFlags m (iterate P m cb).1 ∧
      (iterate P m cb).1.size = m.size ∧
      ((visitsOf (iterate P m cb).2.1).map (·.1)).Nodup ∧
      (∀ e, e ∈ visitsOf (iterate P m cb).2.1 ↔ Has m.cells e) ∧
      (∀ e, Has (iterate P m cb).1.cells e ↔
        (Has m.cells e ∧ e.1 ∉ (rmList cb 0 (visitsOf (iterate P m cb).2.1)).map (·.1))) ∧
      outEvs (iterate P m cb).2.1 = (rmList cb 0 (visitsOf (iterate P m cb).2.1)).flatMap (remEvs m)) := by
  unfold iterate
  by_cases h0 : m.length = 0
  · left; rw [if_pos h0]; exact ⟨h0, rfl⟩
  · right
    rw [if_neg h0]
    obtain ⟨hok, hwin⟩ := scanOk_start P m hwf
    have := iterLoop_spec P hP cb hcb _ (2 * m.size + 1) m (firstEmpty m.cells + 1) 0 hok
      (by have := hwf.room; omega)
    exact ⟨h0, this.rc, this.wf, this.flags, this.size, this.nodup,
      fun e => by rw [this.visits e, hwin e], this.after, this.evs⟩

/-! ## The iterator -/

theorem scan_some (c : List (Cell κ)) : ∀ (fuel p q : Nat), scan c fuel p = some q →
    p ≤ q ∧ q < p + fuel ∧ (∃ e, slot c q = some e) ∧ ∀ r, p ≤ r → r < q → slot c r = none := by
  intro fuel
  induction fuel with
  | zero => intro p q h; simp [scan] at h
  | succ fuel ih =>
    intro p q h
    rw [scan] at h
    split at h
    · rename_i e hs
      cases h
      exact ⟨Nat.le_refl _, by omega, ⟨e, hs⟩, fun r h1 h2 => by omega⟩
    · rename_i hs
      obtain ⟨h1, h2, h3, h4⟩ := ih _ _ h
      refine ⟨by omega, by omega, h3, ?_⟩
      intro r hr1 hr2
      rcases Nat.eq_or_lt_of_le hr1 with heq | hlt
      · subst heq; exact hs
      · exact h4 r hlt hr2

theorem scan_none (c : List (Cell κ)) : ∀ (fuel p : Nat), scan c fuel p = none →
    ∀ r, p ≤ r → r < p + fuel → slot c r = none := by
  intro fuel
  induction fuel with
  | zero => intro p _ r h1 h2; omega
  | succ fuel ih =>
    intro p h r hr1 hr2
    rw [scan] at h
    split at h
    · cases h
    · rename_i hs
      rcases Nat.eq_or_lt_of_le hr1 with heq | hlt
      · subst heq; exact hs
      · exact ih _ h r hlt (by omega)

/-- the iterator is inside its scan window, which ends at an empty slot; unless the current entry
was just removed it stands on an entry -/
structure ItrOk (P : Params κ) (m : Map κ) (it : Itr) : Prop where
  scan : ScanOk P m it.pos it.stop
  lt : it.pos < it.stop
  occupied : it.removed = false → ∃ e, slot m.cells it.pos = some e

theorem inWin_skip (c : List (Cell κ)) (p q stop : Nat) (hpq : p ≤ q) (h : ∀ r, p ≤ r → r < q → slot c r = none)
    (e : κ × Nat) : InWin c p stop e ↔ InWin c q stop e := by
  constructor
  · rintro ⟨r, h1, h2, h3⟩
    refine ⟨r, ?_, h2, h3⟩
    rcases Nat.lt_or_ge r q with hlt | hge
    · rw [h r h1 hlt] at h3; cases h3
    · exact hge
  · rintro ⟨r, h1, h2, h3⟩; exact ⟨r, by omega, h2, h3⟩

/-- scanning on from `p` inside a window: either nothing is left or the iterator stands on the next entry -/
theorem scan_window (P : Params κ) (m : Map κ) (p stop : Nat) (hok : ScanOk P m p stop) (hp : p ≤ stop) :
    (scan m.cells (stop - p) p = none ∧ ∀ e, ¬ InWin m.cells p stop e) ∨
    (∃ q, scan m.cells (stop - p) p = some q ∧ p ≤ q ∧ q < stop ∧ (∃ e, slot m.cells q = some e) ∧
      ∀ e, InWin m.cells q stop e ↔ InWin m.cells p stop e) := by
  cases hsc : scan m.cells (stop - p) p with
  | none =>
    left
    refine ⟨rfl, ?_⟩
    rintro e ⟨r, h1, h2, h3⟩
    rw [scan_none m.cells _ _ hsc r h1 (by omega)] at h3; cases h3
  | some q =>
    right
    obtain ⟨h1, h2, h3, h4⟩ := scan_some m.cells _ _ _ hsc
    exact ⟨q, rfl, h1, by omega, h3, fun e => (inWin_skip m.cells p q stop h1 h4 e).symm⟩

theorem exists_has_of_length_ne_zero (P : Params κ) (m : Map κ) (hwf : WF P m) (h0 : m.length ≠ 0) :
    ∃ e, Has m.cells e := by
  have : occ m.cells ≠ 0 := by rw [← hwf.len]; exact h0
  unfold occ at this
  cases hc : m.cells.filterMap id with
  | nil => rw [hc] at this; simp at this
  | cons e _ => exact ⟨e, by rw [has_iff_mem, hc]; simp⟩

/-- `m_map_itr_new`: `NULL` exactly for an empty map, otherwise on the first entry of the scan, with
every live entry still ahead -/
theorem itrNew_spec (P : Params κ) (m : Map κ) (hwf : WF P m) :
    (m.length = 0 ∧ itrNew m = none) ∨
    (m.length ≠ 0 ∧ ∃ it, itrNew m = some it ∧ ItrOk P m it ∧ it.removed = false ∧
      ∀ e, InWin m.cells it.pos it.stop e ↔ Has m.cells e) := by
  unfold itrNew
  by_cases h0 : m.length = 0
  · left; rw [if_pos h0]; exact ⟨h0, rfl⟩
  · right
    rw [if_neg h0]
    refine ⟨h0, ?_⟩
    obtain ⟨hok, hwin⟩ := scanOk_start P m hwf
    have hfuel : m.size - 1 = (firstEmpty m.cells + m.size) - (firstEmpty m.cells + 1) := by omega
    simp only
    rw [hfuel]
    rcases scan_window P m _ _ hok (by have := hwf.room; omega) with ⟨_, h2⟩ | ⟨q, h1, h2, h3, h4, h5⟩
    · exfalso
      obtain ⟨e, he⟩ := exists_has_of_length_ne_zero P m hwf h0
      exact h2 e ((hwin e).mpr he)
    · rw [h1]
      refine ⟨_, rfl, ⟨⟨hwf, by simp only; omega, hok.stopNone⟩, h3, fun _ => h4⟩, rfl, ?_⟩
      intro e
      simp only
      rw [h5 e, hwin e]

/-- `m_map_itr_next` -/
theorem itrNext_spec (P : Params κ) (m : Map κ) (it : Itr) (hok : ItrOk P m it) :
    (itrNext m it = none ∧ ∀ e, ¬ InWin m.cells (if it.removed then it.pos else it.pos + 1) it.stop e) ∨
    (∃ it', itrNext m it = some it' ∧ ItrOk P m it' ∧ it'.removed = false ∧ it'.stop = it.stop ∧
      (if it.removed then it.pos else it.pos + 1) ≤ it'.pos ∧
      ∀ e, InWin m.cells it'.pos it.stop e ↔ InWin m.cells (if it.removed then it.pos else it.pos + 1) it.stop e) := by
  unfold itrNext
  simp only
  have hok' : ScanOk P m (if it.removed then it.pos else it.pos + 1) it.stop := by
    split
    · exact hok.scan
    · exact ⟨hok.scan.wf, by have := hok.scan.lo; omega, hok.scan.stopNone⟩
  have hle : (if it.removed then it.pos else it.pos + 1) ≤ it.stop := by
    have := hok.lt; split <;> omega
  rcases scan_window P m _ _ hok' hle with ⟨h1, h2⟩ | ⟨q, h1, h2, h3, h4, h5⟩
  · left; rw [h1]; exact ⟨rfl, h2⟩
  · right
    rw [h1]
    refine ⟨_, rfl, ⟨⟨hok.scan.wf, ?_, hok.scan.stopNone⟩, h3, fun _ => h4⟩, rfl, rfl, h2, h5⟩
    simp only
    have := hok.scan.lo
    split at h2 <;> omega

/-! ## Walking the map with the iterator (`m_itr_foreach`), removing some of the visited entries -/

/-- `for (itr = m_map_itr_new(m); itr; m_map_itr_next(&itr)) { read key and value; maybe m_map_itr_remove(itr); }`
with `dec i k v` = "remove the `i`-th visited entry"; returns the map, the visited entries, the events -/
def itrWalk (P : Params κ) (dec : Nat → κ → Nat → Bool) :
    Nat → Map κ → Option Itr → Nat → Map κ × List (κ × Nat) × List (Ev κ)
  | 0, m, _, _ => (m, [], [])
  | _ + 1, m, none, _ => (m, [], [])
  | fuel + 1, m, some it, vn =>
    match itrKey m it, itrGet m it with
    | some k, some v =>
      if dec vn k v then
        let r := itrRemove P m it
        let r' := itrWalk P dec fuel r.1 (itrNext r.1 r.2.2.1) (vn + 1)
        (r'.1, (k, v) :: r'.2.1, r.2.1 ++ r'.2.2)
      else
        let r' := itrWalk P dec fuel m (itrNext m it) (vn + 1)
        (r'.1, (k, v) :: r'.2.1, r'.2.2)
    | _, _ => (m, [], [])

/-- the visited entries that were removed -/
def rmListB (dec : Nat → κ → Nat → Bool) : Nat → List (κ × Nat) → List (κ × Nat)
  | _, [] => []
  | vn, e :: rest => (if dec vn e.1 e.2 then [e] else []) ++ rmListB dec (vn + 1) rest

theorem itrWalk_none (P : Params κ) (dec : Nat → κ → Nat → Bool) (fuel : Nat) (m : Map κ) (vn : Nat) :
    itrWalk P dec fuel m none vn = (m, [], []) := by
  cases fuel <;> rfl

structure WalkPost (P : Params κ) (dec : Nat → κ → Nat → Bool) (m : Map κ) (p stop vn : Nat)
    (r : Map κ × List (κ × Nat) × List (Ev κ)) : Prop where
  wf : WF P r.1
  flags : SameFlags m r.1
  size : r.1.size = m.size
  nodup : (r.2.1.map (·.1)).Nodup
  visits : ∀ e, e ∈ r.2.1 ↔ InWin m.cells p stop e
  after : ∀ e, Has r.1.cells e ↔ (Has m.cells e ∧ e.1 ∉ (rmListB dec vn r.2.1).map (·.1))
  evs : r.2.2 = (rmListB dec vn r.2.1).flatMap (remEvs m)

theorem walkPost_nil (P : Params κ) (dec : Nat → κ → Nat → Bool) (m : Map κ) (hwf : WF P m) (p stop vn : Nat)
    (h : ∀ e, ¬ InWin m.cells p stop e) : WalkPost P dec m p stop vn (m, [], []) :=
  ⟨hwf, SameFlags.refl m, rfl, by simp, fun e => by simp; exact h e, fun e => by simp [rmListB], by simp [rmListB]⟩

theorem itrWalk_spec (P : Params κ) (hP : P.Good) (dec : Nat → κ → Nat → Bool) :
    ∀ (fuel : Nat) (m : Map κ) (it : Itr) (vn : Nat), ItrOk P m it → it.removed = false →
      (it.stop - it.pos) + m.length < fuel →
      WalkPost P dec m it.pos it.stop vn (itrWalk P dec fuel m (some it) vn) := by
  intro fuel
  induction fuel with
  | zero => intro m it vn _ _ hf; omega
  | succ fuel ih =>
    intro m it vn hok hnr hf
    have hn : 0 < m.cells.length := by have := hok.scan.wf.size.pos hP; unfold Map.size at this; omega
    obtain ⟨⟨k, v⟩, hs⟩ := hok.occupied hnr
    have hkey : itrKey m it = some k := by unfold itrKey; rw [hnr, hs]; rfl
    have hget : itrGet m it = some v := by unfold itrGet; rw [hnr, hs]; rfl
    rw [itrWalk, hkey, hget]
    simp only
    by_cases hd : dec vn k v = true
    · -- remove the current entry
      rw [if_pos hd]
      have hrem : itrRemove P m it = ((clearElem P m it.pos).1, (clearElem P m it.pos).2, { it with removed := true }, 0) := by
        unfold itrRemove; rw [hnr]; rfl
      rw [hrem]
      simp only
      obtain ⟨g1, g2, g3, g4, g5, g6, g7⟩ := rm_step P hP m it.pos it.stop hok.scan hok.lt k v hs
      have hn' : 0 < (clearElem P m it.pos).1.cells.length := by have := g3; unfold Map.size at this; omega
      have hok1 : ItrOk P (clearElem P m it.pos).1 { it with removed := true } :=
        ⟨g1, hok.lt, fun h => by cases h⟩
      have hrm : ∀ vis, rmListB dec vn ((k, v) :: vis) = (k, v) :: rmListB dec (vn + 1) vis := by
        intro vis; simp [rmListB, hd]
      have hpost : ∀ r', WalkPost P dec (clearElem P m it.pos).1 it.pos it.stop (vn + 1) r' →
          WalkPost P dec m it.pos it.stop vn (r'.1, (k, v) :: r'.2.1, (clearElem P m it.pos).2 ++ r'.2.2) := by
        intro r' this
        refine ⟨this.wf, g2.trans this.flags, by rw [this.size, g3], ?_, ?_, ?_, ?_⟩
        · simp only [List.map_cons, List.nodup_cons]
          refine ⟨?_, this.nodup⟩
          intro hmem
          obtain ⟨e, he, hek⟩ := List.mem_map.mp hmem
          have hin := (this.visits e).mp he
          exact ((g6 e).mp (inWin_has _ _ _ _ hn' hin)).2 hek
        · intro e
          simp only [List.mem_cons]
          rw [this.visits e, g7 e, inWin_step_some m.cells it.pos it.stop hok.lt (k, v) hs e]
        · intro e
          simp only
          rw [hrm, this.after e, g6 e]
          simp only [List.map_cons, List.mem_cons, not_or]
          constructor
          · rintro ⟨⟨a, b⟩, c⟩; exact ⟨a, b, c⟩
          · rintro ⟨a, b, c⟩; exact ⟨⟨a, b⟩, c⟩
        · simp only
          rw [hrm, List.flatMap_cons, this.evs, flatMap_remEvs_congr g2, g5]
      rcases itrNext_spec P _ _ hok1 with ⟨h1, h2⟩ | ⟨it', h1, h2, h3, h4, h5, h6⟩
      · rw [h1, itrWalk_none]
        exact hpost _ (walkPost_nil P dec _ g1.wf _ _ _ (by simpa using h2))
      · rw [h1]
        simp only [if_true] at h5 h6
        have h4' : it'.stop = it.stop := h4
        have := ih (clearElem P m it.pos).1 it' (vn + 1) h2 h3 (by have := h2.lt; omega)
        rw [h4'] at this
        have hw : WalkPost P dec (clearElem P m it.pos).1 it.pos it.stop (vn + 1)
            (itrWalk P dec fuel (clearElem P m it.pos).1 (some it') (vn + 1)) :=
          { this with visits := fun e => by rw [this.visits e, h6 e] }
        exact hpost _ hw
    · -- keep it
      rw [if_neg hd]
      have hrm : ∀ vis, rmListB dec vn ((k, v) :: vis) = rmListB dec (vn + 1) vis := by
        intro vis; simp [rmListB, hd]
      have hpost : ∀ r', WalkPost P dec m (it.pos + 1) it.stop (vn + 1) r' →
          WalkPost P dec m it.pos it.stop vn (r'.1, (k, v) :: r'.2.1, r'.2.2) := by
        intro r' this
        refine ⟨this.wf, this.flags, this.size, ?_, ?_, ?_, ?_⟩
        · simp only [List.map_cons, List.nodup_cons]
          refine ⟨?_, this.nodup⟩
          intro hmem
          obtain ⟨e, he, hek⟩ := List.mem_map.mp hmem
          obtain ⟨q, hq1, hq2, hq3⟩ := (this.visits e).mp he
          obtain ⟨k', w⟩ := e
          simp only at hek; subst hek
          have := hok.scan.wf.tbl.uniq (q % m.cells.length) (it.pos % m.cells.length) k' w v (Nat.mod_lt _ hn)
            (Nat.mod_lt _ hn) (by rw [slot_mod]; exact hq3) (by rw [slot_mod]; exact hs)
          have hlo := hok.scan.lo; unfold Map.size at hlo
          exact mod_ne_of_lt m.cells.length it.pos q (by omega) (by omega) this.symm
        · intro e
          simp only [List.mem_cons]
          rw [this.visits e, inWin_step_some m.cells it.pos it.stop hok.lt (k, v) hs e]
        · intro e; simp only; rw [hrm]; exact this.after e
        · simp only; rw [hrm]; exact this.evs
      rcases itrNext_spec P _ _ hok with ⟨h1, h2⟩ | ⟨it', h1, h2, h3, h4, h5, h6⟩
      · rw [h1, itrWalk_none]
        rw [hnr] at h2
        exact hpost _ (walkPost_nil P dec _ hok.scan.wf _ _ _ (by simpa using h2))
      · rw [h1]
        rw [hnr] at h5 h6
        simp only [Bool.false_eq_true, if_false] at h5 h6
        have := ih m it' (vn + 1) h2 h3 (by have := h2.lt; omega)
        rw [h4] at this
        have hw : WalkPost P dec m (it.pos + 1) it.stop (vn + 1) (itrWalk P dec fuel m (some it') (vn + 1)) :=
          { this with visits := fun e => by rw [this.visits e, h6 e] }
        exact hpost _ hw

/-! ## `m_map_clear` -/

theorem has_key_unique (P : Params κ) (c : List (Cell κ)) (h : TWF P c) (k : κ) (v w : Nat)
    (h1 : Has c (k, v)) (h2 : Has c (k, w)) : v = w := by
  obtain ⟨i, hi, hsi⟩ := h1
  obtain ⟨j, hj, hsj⟩ := h2
  have := h.uniq i j k v w hi hj hsi hsj
  subst this
  rw [hsi] at hsj; cases hsj; rfl

theorem occ_zero_of_no_entries (c : List (Cell κ)) (h : ∀ e, ¬ Has c e) : occ c = 0 := by
  unfold occ
  cases hc : c.filterMap id with
  | nil => rfl
  | cons e _ => exact absurd ((has_iff_mem c e).mpr (by rw [hc]; simp)) (h e)

structure ClearPost (P : Params κ) (m : Map κ) (r : Map κ × List (Ev κ)) : Prop where
  wf : WF P r.1
  flags : SameFlags m r.1
  size : r.1.size = m.size
  len : r.1.length = 0
  empty : ∀ e, ¬ Has r.1.cells e
  evs : ∃ order : List (κ × Nat), r.2 = order.flatMap (remEvs m) ∧ (order.map (·.1)).Nodup ∧
    ∀ e, e ∈ order ↔ Has m.cells e

theorem clearLoop_spec (P : Params κ) (hP : P.Good) :
    ∀ (fuel : Nat) (m : Map κ) (it : Itr), ItrOk P m it → it.removed = false → m.length < fuel →
      (∀ e, InWin m.cells it.pos it.stop e ↔ Has m.cells e) →
      ClearPost P m (clearLoop P fuel m (some it)) := by
  intro fuel
  induction fuel with
  | zero => intro m it _ _ hf; omega
  | succ fuel ih =>
    intro m it hok hnr hf hall
    have hn : 0 < m.cells.length := by have := hok.scan.wf.size.pos hP; unfold Map.size at this; omega
    obtain ⟨⟨k, v⟩, hs⟩ := hok.occupied hnr
    rw [clearLoop]
    have hrem : itrRemove P m it = ((clearElem P m it.pos).1, (clearElem P m it.pos).2, { it with removed := true }, 0) := by
      unfold itrRemove; rw [hnr]; rfl
    rw [hrem]
    simp only
    obtain ⟨g1, g2, g3, g4, g5, g6, g7⟩ := rm_step P hP m it.pos it.stop hok.scan hok.lt k v hs
    have hok1 : ItrOk P (clearElem P m it.pos).1 { it with removed := true } := ⟨g1, hok.lt, fun h => by cases h⟩
    have hhas : Has m.cells (k, v) := ⟨it.pos % m.cells.length, Nat.mod_lt _ hn, by rw [slot_mod]; exact hs⟩
    -- what is left after the removal is what is left in the window
    have hall1 : ∀ e, InWin (clearElem P m it.pos).1.cells it.pos it.stop e ↔ Has (clearElem P m it.pos).1.cells e := by
      intro e
      rw [g7 e, g6 e, ← hall e, inWin_step_some m.cells it.pos it.stop hok.lt (k, v) hs e]
      constructor
      · intro h
        have hne : e.1 ≠ k := by
          obtain ⟨q, hq1, hq2, hq3⟩ := h
          intro hek
          obtain ⟨k', w⟩ := e
          simp only at hek; subst hek
          have := hok.scan.wf.tbl.uniq (q % m.cells.length) (it.pos % m.cells.length) k' w v (Nat.mod_lt _ hn)
            (Nat.mod_lt _ hn) (by rw [slot_mod]; exact hq3) (by rw [slot_mod]; exact hs)
          have hlo := hok.scan.lo; unfold Map.size at hlo
          exact mod_ne_of_lt m.cells.length it.pos q (by omega) (by omega) this.symm
        exact ⟨Or.inr h, hne⟩
      · rintro ⟨h | h, hne⟩
        · subst h; exact absurd rfl hne
        · exact h
    have hmem : ∀ e, (e = (k, v) ∨ Has (clearElem P m it.pos).1.cells e) ↔ Has m.cells e := by
      intro e
      rw [g6 e]
      constructor
      · rintro (h | h)
        · subst h; exact hhas
        · exact h.1
      · intro h
        by_cases hek : e.1 = k
        · left
          obtain ⟨k', w⟩ := e
          simp only at hek; subst hek
          rw [has_key_unique P m.cells hok.scan.wf.tbl k' w v h hhas]
        · right; exact ⟨h, hek⟩
    rcases itrNext_spec P _ _ hok1 with ⟨h1, h2⟩ | ⟨it', h1, h2, h3, h4, h5, h6⟩
    · rw [h1]
      have hempty : ∀ e, ¬ Has (clearElem P m it.pos).1.cells e := by
        intro e he
        exact h2 e (by simpa using (hall1 e).mpr he)
      have hcl : clearLoop P fuel (clearElem P m it.pos).1 none = ((clearElem P m it.pos).1, []) := by
        cases fuel <;> rfl
      rw [hcl]
      refine ⟨g1.wf, g2, g3, ?_, hempty, [(k, v)], by simp [g5], by simp, ?_⟩
      · rw [g1.wf.len]; exact occ_zero_of_no_entries _ hempty
      · intro e
        rw [← hmem e]
        simp only [List.mem_singleton]
        constructor
        · exact Or.inl
        · rintro (h | h)
          · exact h
          · exact absurd h (hempty e)
    · rw [h1]
      have h4' : it'.stop = it.stop := h4
      simp only [if_true] at h6
      have := ih (clearElem P m it.pos).1 it' h2 h3 (by omega) (by
        intro e; rw [h4', h6 e]; exact hall1 e)
      obtain ⟨order, ho1, ho2, ho3⟩ := this.evs
      refine ⟨this.wf, g2.trans this.flags, by rw [this.size, g3], this.len, this.empty, (k, v) :: order, ?_, ?_, ?_⟩
      · simp only
        rw [ho1, List.flatMap_cons, flatMap_remEvs_congr g2, g5]
      · simp only [List.map_cons, List.nodup_cons]
        refine ⟨?_, ho2⟩
        intro hmem'
        obtain ⟨e, he, hek⟩ := List.mem_map.mp hmem'
        exact ((g6 e).mp ((ho3 e).mp he)).2 hek
      · intro e
        simp only [List.mem_cons]
        rw [ho3 e]
        exact hmem e

/-- `m_map_clear` empties the map and releases every entry exactly once -/
theorem clear_spec (P : Params κ) (hP : P.Good) (m : Map κ) (hwf : WF P m) : ClearPost P m (clear P m) := by
  unfold clear
  rcases itrNew_spec P m hwf with ⟨h0, h1⟩ | ⟨h0, it, h1, h2, h3, h4⟩
  · rw [h1]
    have : clearLoop P (m.length + 1) m none = (m, []) := rfl
    rw [this]
    have hempty := no_entries_of_length_zero P m hwf h0
    exact ⟨hwf, SameFlags.refl m, rfl, h0, hempty, [], rfl, by simp, fun e => by simpa using hempty e⟩
  · rw [h1]
    exact clearLoop_spec P hP (m.length + 1) m it h2 h3 (by omega) h4

/-! ## `m_map_itr_set_data` -/

theorem itrSet_spec (P : Params κ) (m : Map κ) (hwf : WF P m) (it : Itr) (v : Nat) :
    WF P (itrSet m it v).1 ∧ SameFlags m (itrSet m it v).1 ∧ (itrSet m it v).1.size = m.size ∧
    (itrSet m it v).1.length = m.length ∧
    (∀ j, (slot (itrSet m it v).1.cells j).map (·.1) = (slot m.cells j).map (·.1)) ∧
    ((it.removed = true ∨ v = 0) → itrSet m it v = (m, -22)) ∧
    (it.removed = false → v ≠ 0 → ∀ k w, slot m.cells it.pos = some (k, w) →
      (itrSet m it v).2 = 0 ∧ ∀ e, Has (itrSet m it v).1.cells e ↔ e = (k, v) ∨ (Has m.cells e ∧ e.1 ≠ k)) := by
  unfold itrSet
  by_cases hr : it.removed = true
  · rw [if_pos hr]
    exact ⟨hwf, SameFlags.refl m, rfl, rfl, fun _ => rfl, fun _ => rfl, fun h => by rw [hr] at h; cases h⟩
  · rw [if_neg hr]
    by_cases hv : v = 0
    · rw [if_pos hv]
      exact ⟨hwf, SameFlags.refl m, rfl, rfl, fun _ => rfl, fun _ => rfl, fun _ h => absurd hv h⟩
    · rw [if_neg hv]
      cases hs : slot m.cells it.pos with
      | none =>
        simp only
        refine ⟨hwf, SameFlags.refl m, (by first | rfl | trivial), (by first | rfl | trivial), (by first | exact fun _ => rfl | simp), ?_, ?_⟩
        · rintro (h | h)
          · exact absurd h hr
          · exact absurd h hv
        · intro _ _ k w h; cases h
      | some e =>
        obtain ⟨k, w⟩ := e
        simp only
        have hn : 0 < m.cells.length := by
          rcases Nat.eq_zero_or_pos m.cells.length with h0 | h0
          · unfold slot at hs; simp [h0] at hs
          · exact h0
        refine ⟨?_, ⟨rfl, rfl, rfl, rfl⟩, by simp [Map.size], (by first | rfl | trivial), ?_, ?_, ?_⟩
        · constructor
          · simpa [Map.size] using hwf.size
          · exact TWF_update P m.cells hwf.tbl it.pos k w v hs
          · simp only [Map.size]; rw [occ_update m.cells it.pos _ _ hs]; exact hwf.len
          · simpa [Map.size] using hwf.room
        · intro j
          simp only [Map.size]
          rw [slot_set m.cells it.pos j _ hn]
          split
          · rename_i hij; rw [← slot_congr m.cells it.pos j hij, hs]; rfl
          · rfl
        · rintro (h | h)
          · exact absurd h hr
          · exact absurd h hv
        · intro _ _ k' w' h
          cases h
          exact ⟨(by first | rfl | trivial), fun e => has_update P m.cells hwf.tbl it.pos k w v hs e⟩

end Lm.Struct.Map
