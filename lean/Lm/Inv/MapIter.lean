import Lm.Inv.MapOps
/-!
# Iteration over the map (property C05): circular scan, removal of the current entry, clear
-/
set_option linter.unusedSectionVars false
namespace Lm.Struct.Map
variable {κ : Type} [DecidableEq κ]

/-! ## `clear_elem` only depends on the slot, not on the unreduced index -/

theorem backshift_congr (P : Params κ) (n : Nat) : ∀ (fuel : Nat) (c : List (Cell κ)) (h h' i i' : Nat),
    c.length = n → h % n = h' % n → i % n = i' % n →
    backshift P n fuel c h i = backshift P n fuel c h' i' := by
  intro fuel
  induction fuel with
  | zero => intro c h h' i i' _ _ _; rfl
  | succ fuel ih =>
    intro c h h' i i' hc hh hi
    unfold backshift
    have hs : slot c i = slot c i' := slot_congr c i i' (by rw [hc]; exact hi)
    rw [hs, hh, hi]
    have hi1 : (i + 1) % n = (i' + 1) % n := add_mod_congr i i' 1 n hi
    split
    · rfl
    · split
      · exact ih _ i i' (i + 1) (i' + 1) (by simp [hc]) hi hi1
      · exact ih c h h' (i + 1) (i' + 1) hc hh hi1

theorem clearElem_congr (P : Params κ) (m : Map κ) (i i' : Nat) (h : i % m.size = i' % m.size) :
    clearElem P m i = clearElem P m i' := by
  unfold clearElem
  have hs : slot m.cells i = slot m.cells i' := slot_congr m.cells i i' h
  rw [hs, h]
  split
  · rfl
  · rw [backshift_congr P m.size (m.size - 1) _ i i' (i + 1) (i' + 1) (by simp [Map.size]) h
      (add_mod_congr i i' 1 m.size h)]

/-- `m_map_remove(key of the entry in slot p)` is `clear_elem` on slot `p` -/
theorem remove_eq_clearElem (P : Params κ) (hP : P.Good) (m : Map κ) (hwf : WF P m) (p : Nat) (k : κ) (v : Nat)
    (hs : slot m.cells p = some (k, v)) :
    remove P m k = ((clearElem P m p).1, (clearElem P m p).2, 0) := by
  have hn : 0 < m.cells.length := by have := hwf.size.pos hP; unfold Map.size at this; omega
  have hhas : Has m.cells (k, v) := ⟨p % m.cells.length, Nat.mod_lt _ hn, by rw [slot_mod]; exact hs⟩
  unfold remove
  have h0 : m.length ≠ 0 := fun h0 => no_entries_of_length_zero P m hwf h0 _ hhas
  rw [if_neg h0]
  obtain ⟨i, hi, hm⟩ := entryFind_complete P hP m.cells hwf.size.le hwf.tbl false (p % m.cells.length) k v
    (Nat.mod_lt _ hn) (by rw [slot_mod]; exact hs)
  rw [hi]
  simp only
  rw [clearElem_congr P m i p (by unfold Map.size; exact hm)]

/-! ## The window of a scan -/

/-- the entry `e` sits at a position of the scan window `[p, stop)` -/
def InWin (c : List (Cell κ)) (p stop : Nat) (e : κ × Nat) : Prop := ∃ q, p ≤ q ∧ q < stop ∧ slot c q = some e

theorem inWin_step_none (c : List (Cell κ)) (p stop : Nat) (h : slot c p = none) (e : κ × Nat) :
    InWin c p stop e ↔ InWin c (p + 1) stop e := by
  constructor
  · rintro ⟨q, h1, h2, h3⟩
    refine ⟨q, ?_, h2, h3⟩
    rcases Nat.eq_or_lt_of_le h1 with heq | hlt
    · subst heq; rw [h] at h3; cases h3
    · exact hlt
  · rintro ⟨q, h1, h2, h3⟩; exact ⟨q, by omega, h2, h3⟩

theorem inWin_step_some (c : List (Cell κ)) (p stop : Nat) (hp : p < stop) (e0 : κ × Nat) (h : slot c p = some e0)
    (e : κ × Nat) : InWin c p stop e ↔ e = e0 ∨ InWin c (p + 1) stop e := by
  constructor
  · rintro ⟨q, h1, h2, h3⟩
    rcases Nat.eq_or_lt_of_le h1 with heq | hlt
    · subst heq; rw [h] at h3; cases h3; left; rfl
    · right; exact ⟨q, hlt, h2, h3⟩
  · rintro (rfl | ⟨q, h1, h2, h3⟩)
    · exact ⟨p, Nat.le_refl _, hp, h⟩
    · exact ⟨q, by omega, h2, h3⟩

theorem inWin_empty (c : List (Cell κ)) (p stop : Nat) (h : stop ≤ p) (e : κ × Nat) : ¬ InWin c p stop e := by
  rintro ⟨q, h1, h2, _⟩; omega

theorem inWin_has (c : List (Cell κ)) (p stop : Nat) (e : κ × Nat) (hn : 0 < c.length) (h : InWin c p stop e) : Has c e := by
  obtain ⟨q, _, _, h3⟩ := h
  exact ⟨q % c.length, Nat.mod_lt _ hn, by rw [slot_mod]; exact h3⟩

/-- the full circular scan `(s, s + n)` after an empty slot `s` sees the whole table -/
theorem inWin_full (c : List (Cell κ)) (s : Nat) (hn : 0 < c.length) (hs : slot c s = none) (e : κ × Nat) :
    InWin c (s + 1) (s + c.length) e ↔ Has c e := by
  unfold Has
  rw [← window_full c c.length (s + 1) rfl hn e]
  constructor
  · rintro ⟨q, h1, h2, h3⟩; exact ⟨q, h1, by omega, h3⟩
  · rintro ⟨q, h1, h2, h3⟩
    refine ⟨q, h1, ?_, h3⟩
    rcases Nat.lt_or_ge q (s + c.length) with hlt | hge
    · exact hlt
    · have : q = s + c.length := by omega
      subst this
      rw [slot_congr c (s + c.length) s (by simp), hs] at h3; cases h3

/-! ## One step of an iteration that removes the current entry -/

/-- the state of a scan: position `p` inside the window that ends at the empty slot `stop` -/
structure ScanOk (P : Params κ) (m : Map κ) (p stop : Nat) : Prop where
  wf : WF P m
  lo : stop < p + m.size
  stopNone : slot m.cells stop = none

/-- events of removing the entry `(k, v)` -/
def remEvs (m : Map κ) (e : κ × Nat) : List (Ev κ) :=
  (if m.autofree then [Ev.kfree e.1] else []) ++ (if m.dtor then [Ev.dtor e.2] else [])

theorem rm_step (P : Params κ) (hP : P.Good) (m : Map κ) (p stop : Nat) (h : ScanOk P m p stop) (hp : p < stop)
    (k : κ) (v : Nat) (hs : slot m.cells p = some (k, v)) :
    ScanOk P (clearElem P m p).1 p stop ∧ SameFlags m (clearElem P m p).1 ∧
    (clearElem P m p).1.size = m.size ∧ (clearElem P m p).1.length + 1 = m.length ∧
    (clearElem P m p).2 = remEvs m (k, v) ∧
    (∀ e, Has (clearElem P m p).1.cells e ↔ (Has m.cells e ∧ e.1 ≠ k)) ∧
    (∀ e, InWin (clearElem P m p).1.cells p stop e ↔ InWin m.cells (p + 1) stop e) := by
  obtain ⟨g1, g2, g3, g4, g5, g6⟩ := clearElem_spec P hP m h.wf p k v hs
  have hw := cleared_window P m.cells p (k, v) hs stop stop hp (by have := h.lo; unfold Map.size at this; omega)
    (Nat.le_refl _) (by have := h.lo; unfold Map.size at this; omega) h.stopNone
  have hc : (clearElem P m p).1.cells = cleared P m.cells p := by rw [clearElem_eq P m p k v hs]
  refine ⟨⟨g1, by rw [g4]; exact h.lo, by rw [hc]; exact hw.1⟩, g2, g4, g3, g6, g5, ?_⟩
  intro e
  rw [hc]
  exact hw.2 e

/-! ## `m_map_iterate` with a callback that keeps or removes the current entry -/

/-- the entries the callback was invoked on, in order -/
def visitsOf : List (Out κ) → List (κ × Nat)
  | [] => []
  | .visit k v :: r => (k, v) :: visitsOf r
  | .ev _ :: r => visitsOf r
  | .rc _ :: r => visitsOf r

/-- the visited entries the callback removed (`vn` = index of the first visit) -/
def rmList (cb : Nat → κ → Nat → CbAct κ) : Nat → List (κ × Nat) → List (κ × Nat)
  | _, [] => []
  | vn, e :: rest => (match cb vn e.1 e.2 with | .rm => [e] | _ => []) ++ rmList cb (vn + 1) rest

/-- the callback only ever continues or removes the current entry -/
def ContRm (cb : Nat → κ → Nat → CbAct κ) : Prop := ∀ i k v, cb i k v = .cont ∨ cb i k v = .rm

theorem visitsOf_append (a b : List (Out κ)) : visitsOf (a ++ b) = visitsOf a ++ visitsOf b := by
  induction a with
  | nil => rfl
  | cons x xs ih => cases x <;> simp [visitsOf, ih]

theorem visitsOf_evs (evs : List (Ev κ)) : visitsOf (evs.map Out.ev) = [] := by
  induction evs with
  | nil => rfl
  | cons x xs ih => simp [visitsOf, ih]

theorem outEvs_append (a b : List (Out κ)) : outEvs (a ++ b) = outEvs a ++ outEvs b := by
  induction a with
  | nil => rfl
  | cons x xs ih => cases x <;> simp [outEvs, ih]

theorem outEvs_evs (evs : List (Ev κ)) : outEvs (evs.map Out.ev) = evs := by
  induction evs with
  | nil => rfl
  | cons x xs ih => simp [outEvs, ih]

theorem remEvs_congr {m m' : Map κ} (h : SameFlags m m') (e : κ × Nat) : remEvs m' e = remEvs m e := by
  unfold remEvs; rw [h.autofree, h.dtor]

theorem flatMap_remEvs_congr {m m' : Map κ} (h : SameFlags m m') (l : List (κ × Nat)) :
    l.flatMap (remEvs m') = l.flatMap (remEvs m) := by
  congr 1; funext e; exact remEvs_congr h e

/-- what the scan loop of `m_map_iterate` achieves from position `p` on -/
structure IterPost (P : Params κ) (cb : Nat → κ → Nat → CbAct κ) (m : Map κ) (p stop vn : Nat)
    (r : Map κ × List (Out κ) × Int) : Prop where
  rc : r.2.2 = 0
  wf : WF P r.1
  flags : SameFlags m r.1
  size : r.1.size = m.size
  nodup : ((visitsOf r.2.1).map (·.1)).Nodup
  visits : ∀ e, e ∈ visitsOf r.2.1 ↔ InWin m.cells p stop e
  after : ∀ e, Has r.1.cells e ↔ (Has m.cells e ∧ e.1 ∉ (rmList cb vn (visitsOf r.2.1)).map (·.1))
  evs : outEvs r.2.1 = (rmList cb vn (visitsOf r.2.1)).flatMap (remEvs m)

theorem iterLoop_spec (P : Params κ) (hP : P.Good) (cb : Nat → κ → Nat → CbAct κ) (hcb : ContRm cb) (stop : Nat) :
    ∀ (fuel : Nat) (m : Map κ) (p vn : Nat), ScanOk P m p stop → (stop - p) + m.length < fuel →
      IterPost P cb m p stop vn (iterLoop P cb fuel m p stop vn) := by
  intro fuel
  induction fuel with
  | zero => intro m p vn _ hf; omega
  | succ fuel ih =>
    intro m p vn hok hf
    have hn : 0 < m.cells.length := by have := hok.wf.size.pos hP; unfold Map.size at this; omega
    rw [iterLoop]
    by_cases hp : p < stop
    · rw [if_pos hp]
      cases hs : slot m.cells p with
      | none =>
        simp only
        have := ih m (p + 1) vn ⟨hok.wf, by have := hok.lo; omega, hok.stopNone⟩ (by omega)
        exact { this with visits := fun e => by rw [this.visits e, inWin_step_none m.cells p stop hs e] }
      | some kv =>
        obtain ⟨k, v⟩ := kv
        simp only
        have hhas : Has m.cells (k, v) := ⟨p % m.cells.length, Nat.mod_lt _ hn, by rw [slot_mod]; exact hs⟩
        rcases hcb vn k v with hc | hc
        · -- the callback keeps the entry
          rw [hc]
          simp only [runCb]
          have hk : (Option.map (fun x => x.1) (slot m.cells p) ≠ some k) = False := by rw [hs]; simp
          simp only [Int.lt_irrefl, if_false, hk, ne_eq, not_true_eq_false, List.nil_append]
          have := ih m (p + 1) (vn + 1) ⟨hok.wf, by have := hok.lo; omega, hok.stopNone⟩ (by omega)
          have hrm : rmList cb vn ((k, v) :: visitsOf (iterLoop P cb fuel m (p + 1) stop (vn + 1)).2.1) =
              rmList cb (vn + 1) (visitsOf (iterLoop P cb fuel m (p + 1) stop (vn + 1)).2.1) := by
            simp [rmList, hc]
          have hvis : visitsOf ([Out.visit k v] ++ (iterLoop P cb fuel m (p + 1) stop (vn + 1)).2.1) =
              (k, v) :: visitsOf (iterLoop P cb fuel m (p + 1) stop (vn + 1)).2.1 := by
            simp [visitsOf]
          have hoe : outEvs ([Out.visit k v] ++ (iterLoop P cb fuel m (p + 1) stop (vn + 1)).2.1) =
              outEvs (iterLoop P cb fuel m (p + 1) stop (vn + 1)).2.1 := by
            simp [outEvs]
          refine ⟨this.rc, this.wf, this.flags, this.size, ?_, ?_, ?_, ?_⟩
          · rw [hvis]
            simp only [List.map_cons, List.nodup_cons]
            refine ⟨?_, this.nodup⟩
            intro hmem
            obtain ⟨e, he, hek⟩ := List.mem_map.mp hmem
            obtain ⟨q, hq1, hq2, hq3⟩ := (this.visits e).mp he
            obtain ⟨k', w⟩ := e
            simp only at hek; subst hek
            have := hok.wf.tbl.uniq (q % m.cells.length) (p % m.cells.length) k' w v (Nat.mod_lt _ hn) (Nat.mod_lt _ hn)
              (by rw [slot_mod]; exact hq3) (by rw [slot_mod]; exact hs)
            have hlo := hok.lo; unfold Map.size at hlo
            exact mod_ne_of_lt m.cells.length p q (by omega) (by omega) this.symm
          · intro e
            rw [hvis]
            simp only [List.mem_cons]
            rw [this.visits e, inWin_step_some m.cells p stop hp (k, v) hs e]
          · intro e; rw [hvis, hrm]; exact this.after e
          · rw [hvis, hoe, hrm]; exact this.evs
        · -- the callback removes the entry
          rw [hc]
          simp only [runCb]
          simp only [remove_eq_clearElem P hP m hok.wf p k v hs]
          obtain ⟨g1, g2, g3, g4, g5, g6, g7⟩ := rm_step P hP m p stop hok hp k v hs
          have hk : (Option.map (fun x => x.1) (slot (clearElem P m p).1.cells p) ≠ some k) = True := by
            apply eq_true
            intro hh
            cases hsl : slot (clearElem P m p).1.cells p with
            | none => rw [hsl] at hh; cases hh
            | some e =>
              rw [hsl] at hh; simp at hh
              have hn' : 0 < (clearElem P m p).1.cells.length := by
                have := g3; unfold Map.size at this; omega
              have : Has (clearElem P m p).1.cells e :=
                ⟨p % (clearElem P m p).1.cells.length, Nat.mod_lt _ hn', by rw [slot_mod]; exact hsl⟩
              exact ((g6 e).mp this).2 hh
          simp only [Int.lt_irrefl, if_false, hk, if_true]
          have := ih (clearElem P m p).1 p (vn + 1) g1 (by omega)
          have hrm : rmList cb vn ((k, v) :: visitsOf (iterLoop P cb fuel (clearElem P m p).1 p stop (vn + 1)).2.1) =
              (k, v) :: rmList cb (vn + 1) (visitsOf (iterLoop P cb fuel (clearElem P m p).1 p stop (vn + 1)).2.1) := by
            simp [rmList, hc]
          have hvis : visitsOf (Out.visit k v :: (List.map Out.ev (clearElem P m p).2 ++ [Out.rc 0]) ++
              (iterLoop P cb fuel (clearElem P m p).1 p stop (vn + 1)).2.1) =
              (k, v) :: visitsOf (iterLoop P cb fuel (clearElem P m p).1 p stop (vn + 1)).2.1 := by
            simp [visitsOf, visitsOf_append, visitsOf_evs]
          refine ⟨this.rc, this.wf, g2.trans this.flags, by rw [this.size, g3], ?_, ?_, ?_, ?_⟩
          · rw [hvis]
            simp only [List.map_cons, List.nodup_cons]
            refine ⟨?_, this.nodup⟩
            intro hmem
            obtain ⟨e, he, hek⟩ := List.mem_map.mp hmem
            have hin := (this.visits e).mp he
            have hn' : 0 < (clearElem P m p).1.cells.length := by
              have := g3; unfold Map.size at this; omega
            exact ((g6 e).mp (inWin_has _ _ _ _ hn' hin)).2 hek
          · intro e
            rw [hvis]
            simp only [List.mem_cons]
            rw [this.visits e, g7 e, inWin_step_some m.cells p stop hp (k, v) hs e]
          · intro e
            rw [hvis, hrm, this.after e, g6 e]
            simp only [List.map_cons, List.mem_cons, not_or]
            constructor
            · rintro ⟨⟨a, b⟩, c⟩; exact ⟨a, b, c⟩
            · rintro ⟨a, b, c⟩; exact ⟨⟨a, b⟩, c⟩
          · rw [hvis, hrm]
            simp only [outEvs, outEvs_append, outEvs_evs, List.flatMap_cons]
            rw [this.evs, flatMap_remEvs_congr g2, g5]
            simp [outEvs]
    · rw [if_neg hp]
      refine ⟨rfl, hok.wf, SameFlags.refl m, rfl, by simp [visitsOf], ?_, ?_, by simp [visitsOf, rmList, outEvs]⟩
      · intro e
        simp only [visitsOf, List.not_mem_nil, false_iff]
        exact inWin_empty m.cells p stop (by omega) e
      · intro e; simp [visitsOf, rmList]

end Lm.Struct.Map
