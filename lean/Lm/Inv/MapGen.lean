import Lm.Struct.MapGen
import Lm.Inv.Map
/-!
# Tie A for C05: the fragments regenerated from `map.c` satisfy the side conditions of the proofs

Every statement here is about the definitions in `Lm.Generated.Map`, which are rewritten from the C
source on every run.  If `MAP_PROBE_LEN`, `MAP_SIZE_MOD`, the load rule, the back-shift decision or
`MAP_SIZE_DEFAULT` change so that a side condition becomes false, this file stops compiling.
-/
set_option linter.unusedSectionVars false
namespace Lm.Struct.Map
open Lm.Generated.Map

theorem ofNat_toNat_lt (n : Nat) (h : n < 2 ^ 64) : (BitVec.ofNat 64 n).toNat = n := by
  simp [BitVec.toNat_ofNat, Nat.mod_eq_of_lt h]

theorem one32 : (BitVec.signExtend 64 1#32) = 1#64 := by decide
theorem three32 : (BitVec.signExtend 64 3#32) = 3#64 := by decide

/-- `size - 1` as a natural number -/
theorem toNat_size_sub_one (n : Nat) (h0 : 0 < n) (h : n < 2 ^ 64) :
    (BitVec.ofNat 64 n - 1#64).toNat = n - 1 := by
  rw [BitVec.toNat_sub, ofNat_toNat_lt n h]
  have : (1#64).toNat = 1 := by decide
  rw [this, show 2 ^ 64 - 1 + n = (n - 1) + 2 ^ 64 by omega, Nat.add_mod_right, Nat.mod_eq_of_lt (by omega)]

/-- `MAP_SIZE_MOD` yields an index below the table size (any size) -/
theorem gen_home_lt (n : Nat) (val : BitVec 64) (h0 : 0 < n) (h : n < 2 ^ 64) :
    (sizeMod (BitVec.ofNat 64 n) val).toNat < n := by
  unfold sizeMod
  rw [one32, BitVec.toNat_and, toNat_size_sub_one n h0 h]
  have := @Nat.and_le_right val.toNat (n - 1)
  omega

/-- `MAP_PROBE_LEN` is half the table -/
theorem gen_probe_eq (n : Nat) (h : n < 2 ^ 64) : (probeLen (BitVec.ofNat 64 n)).toNat = n / 2 := by
  unfold probeLen
  have : (1#32).toNat = 1 := by decide
  rw [this, BitVec.toNat_ushiftRight, ofNat_toNat_lt n h, Nat.shiftRight_eq_div_pow]

/-- the load rule keeps one slot free -/
theorem gen_minSize (len : Nat) (h : len < 2 ^ 62) : (minSize (BitVec.ofNat 64 len)).toNat = len + len / 3 := by
  unfold minSize
  rw [three32, BitVec.toNat_add, BitVec.toNat_udiv, ofNat_toNat_lt len (by omega)]
  have : (3#64).toNat = 3 := by decide
  rw [this, Nat.mod_eq_of_lt (by omega)]

/-- `(a - b) & (size - 1)` on `size_t` is the circular distance for a power-of-two size -/
theorem gen_dist (k : Nat) (hk : k ≤ 62) (a b : Nat) (ha : a < 2 ^ k) (hb : b < 2 ^ k) :
    ((BitVec.ofNat 64 a - BitVec.ofNat 64 b) &&& (BitVec.ofNat 64 (2 ^ k) - 1#64)).toNat = (a + 2 ^ k - b) % 2 ^ k := by
  have hp : 2 ^ k < 2 ^ 64 := Nat.pow_lt_pow_right (by omega) (by omega)
  have hpos : 0 < 2 ^ k := Nat.two_pow_pos k
  rw [BitVec.toNat_and, toNat_size_sub_one (2 ^ k) hpos hp, Nat.and_two_pow_sub_one_eq_mod,
      BitVec.toNat_sub, ofNat_toNat_lt a (by omega), ofNat_toNat_lt b (by omega)]
  have hdvd : 2 ^ k ∣ 2 ^ 64 := Nat.pow_dvd_pow 2 (by omega)
  rw [Nat.mod_mod_of_dvd _ hdvd]
  obtain ⟨q, hq⟩ := hdvd
  have hq1 : 1 ≤ q := by
    rcases Nat.eq_zero_or_pos q with h0 | h0
    · subst h0; simp at hq
    · exact h0
  rw [show 2 ^ 64 - b + a = (a + 2 ^ k - b) + 2 ^ k * (q - 1) by
        rw [hq, Nat.mul_sub, Nat.mul_one]
        have : 2 ^ k ≤ 2 ^ k * q := Nat.le_mul_of_pos_right _ hq1
        omega]
  exact Nat.add_mul_mod_self_left _ _ _

theorem gen_shift_eq (n hole idx home : Nat) (hp : Pow2 n) (hle : n ≤ 2 ^ 58) (h1 : hole < n) (h2 : idx < n)
    (h3 : home < n) :
    shiftDec (BitVec.ofNat 64 n) (BitVec.ofNat 64 hole) (BitVec.ofNat 64 idx) (BitVec.ofNat 64 home) =
      decide ((idx + n - hole) % n ≤ (idx + n - home) % n) := by
  obtain ⟨k, rfl⟩ := hp
  have hk : k ≤ 62 := by
    rcases Nat.lt_or_ge 62 k with h | h
    · have : 2 ^ 63 ≤ 2 ^ k := Nat.pow_le_pow_right (by omega) (by omega)
      have : (2:Nat) ^ 58 < 2 ^ 63 := by decide
      omega
    · exact h
  unfold shiftDec
  rw [one32, BitVec.ule_eq_decide, gen_dist k hk idx hole h2 h1, gen_dist k hk idx home h2 h3]

/-- the regenerated fragments meet every side condition the proofs use -/
theorem genParams_good {κ : Type} (bytes : κ → List (BitVec 8)) : (genParams bytes).Good := by
  have hmax : genMaxSize < 2 ^ 62 := by decide
  constructor
  · intro n k h0 hle
    exact gen_home_lt n _ h0 (by simp only [genParams] at hle; omega)
  · intro n hle
    exact gen_probe_eq n (by simp only [genParams] at hle; omega)
  · intro n len hge hle hlt hng
    simp only [genParams] at hge hle hng
    rw [gen_minSize len (by omega)] at hng
    have : sizeDefault = 256 := by decide
    omega
  · intro n hole idx home hp hle h1 h2 h3
    exact gen_shift_eq n hole idx home hp (by simpa [genParams, genMaxSize] using hle) h1 h2 h3
  · exact ⟨8, by show sizeDefault = 2 ^ 8; decide⟩
  · show 2 ≤ sizeDefault; decide
  · show sizeDefault ≤ genMaxSize; decide

end Lm.Struct.Map
