import Lm.Inv.CoreSafe
import Lm.Inv.CoreGuards
/-! Calls that cross a context boundary: a module operated from a thread that does not own its context, a message
addressed to a module of another context.  Used by `Lm.Props.C14`. -/
namespace Lm.Core

/-- the module an operation acts on (none: context calls and script-only lines) -/
def Op.modTarget : Op → Option ModId
  | .dereg m | .start m | .pause m | .resume m | .stop m | .become m _ | .unbecome m | .stash m _ | .unstash m _
  | .batchSize m _ | .batchTimeout m _ | .tokenBucket m _ _ | .tell m _ _ _ | .publish m _ _ _ | .pill m _
  | .subscribe m _ _ _ _ _ _ | .unsubscribe m _ | .regSrc m _ _ _ | .deregSrc m _ _ _ | .srcLen m => some m
  | _ => none

/-- the kind-specific parameter guard of a source call passed (it is checked before the module is looked at) -/
def Op.paramsOk : Op → Bool
  | .regSrc _ ok _ _ => ok
  | .deregSrc _ ok _ _ => ok
  | _ => true

theorem modAssert_foreign (s : St) (hc : Bool) (m : ModId) (md : Mod) (hm : s.mods[m]? = some md)
    (hz : md.state ≠ .zombie) (hf : md.ctxId < s.nextCtx) : modAssert (foreignView s hc) m = some EPERM := by
  have hm' : (foreignView s hc).mods[m]? = some md := hm
  unfold modAssert
  simp only [hm']
  have hz' : (md.state == MState.zombie) = false := by simp [hz]
  simp only [hz', Bool.false_eq_true, if_false]
  cases hc with
  | false => simp [foreignView, mctx]
  | true =>
    have hne : (s.nextCtx == md.ctxId) = false := by
      simp only [beq_eq_false_iff_ne, ne_eq]; omega
    simp [foreignView, mctx, hne]

theorem guarded_refuses_assert (s : St) (m : ModId) (e : Int) (deny mask tok) (body : Prog Int)
    (h : modAssert s m = some e) : Refuses (guarded m deny mask tok body) s e := by
  unfold Refuses guarded
  simp [h]

/-- every module operation, run against a state in which `M_MOD_ASSERT` fails with `e`, returns at once and changes
nothing: `e` itself, or -EINVAL when a kind-specific parameter guard in front of it already failed -/
theorem modop_refused (c : Cfg) (s : St) (op : Op) (m : ModId) (e : Int) (ht : op.modTarget = some m)
    (h : modAssert s m = some e) :
    ∃ code : Int, runP (apiProg c op) s = (s, .inl code) ∧ (op.paramsOk = true → code = e ∨ code = EPERM) ∧
      (op.paramsOk = false → code = EINVAL) := by
  cases op with
  | regSrc m' ok x pb =>
    have hm : m' = m := by simpa [Op.modTarget] using ht
    subst hm
    cases ok with
    | false => exact ⟨EINVAL, by simp [apiProg, apiRegSrc], by simp [Op.paramsOk], fun _ => rfl⟩
    | true => exact ⟨e, by simp [apiProg, apiRegSrc, guarded, h], fun _ => .inl rfl, by simp [Op.paramsOk]⟩
  | deregSrc m' ok k key =>
    have hm : m' = m := by simpa [Op.modTarget] using ht
    subst hm
    cases ok with
    | false => exact ⟨EINVAL, by simp [apiProg, apiDeregSrc], by simp [Op.paramsOk], fun _ => rfl⟩
    | true =>
      by_cases hk : k = .task
      · exact ⟨EPERM, by simp [apiProg, apiDeregSrc, hk], fun _ => .inr rfl, by simp [Op.paramsOk]⟩
      · exact ⟨e, by simp [apiProg, apiDeregSrc, hk, guarded, h], fun _ => .inl rfl, by simp [Op.paramsOk]⟩
  | dereg m' =>
    have hm : m' = m := by simpa [Op.modTarget] using ht
    subst hm
    refine ⟨e, ?_, fun _ => .inl rfl, by simp [Op.paramsOk]⟩
    have hne : e ≠ 0 := by
      have := modAssert_neg s _ e h
      omega
    simp [apiProg, modDeregisterP, modDeregCore, h, hne]
  | start m' =>
    have hm : m' = m := by simpa [Op.modTarget] using ht
    subst hm
    exact ⟨e, by simp [apiProg, apiStart, h], fun _ => .inl rfl, by simp [Op.paramsOk]⟩
  | pause m' | resume m' | stop m' | become m' _ | unbecome m' | stash m' _ | unstash m' _ | batchSize m' _
  | batchTimeout m' _ | tokenBucket m' _ _ | tell m' _ _ _ | publish m' _ _ _ | pill m' _ | subscribe m' _ _ _ _ _ _
  | unsubscribe m' _ | srcLen m' =>
    have hm : m' = m := by simpa [Op.modTarget] using ht
    subst hm
    exact ⟨e, by simp [apiProg, apiPause, apiResume, apiStop, apiBecome, apiUnbecome, apiStash, apiUnstash, apiBatchSize,
      apiBatchTimeout, apiTokenBucket, apiTell, apiPublish, apiPill, apiSubscribe, apiUnsubscribe, apiSrcLen, guarded, h],
      fun _ => .inl rfl, by simp [Op.paramsOk]⟩
  | _ => simp [Op.modTarget] at ht

@[simp] theorem beq_list_mod_self (l : List Mod) : (l == l) = true := by simp
@[simp] theorem beq_list_src_self (l : List Src) : (l == l) = true := by simp
@[simp] theorem beq_list_out_self (l : List Out) : (l == l) = true := by simp

/-- **A module operation attempted from a foreign thread fails and changes nothing.** -/
theorem foreign_refused (c : Cfg) (hc : Bool) (op : Op) (m : ModId) (md : Mod) (ht : op.modTarget = some m)
    (hm : c.st.mods[m]? = some md) (hz : md.state ≠ .zombie) (hf : md.ctxId < c.st.nextCtx) :
    ∃ code : Int, step c (.foreign hc op) = { c with st := c.st.emit (.ret code) } ∧
      (op.paramsOk = true → code = EPERM) ∧ (op.paramsOk = false → code = EINVAL) := by
  obtain ⟨code, hr, h1, h2⟩ := modop_refused c (foreignView c.st hc) op m EPERM ht (modAssert_foreign c.st hc m md hm hz hf)
  refine ⟨code, ?_, fun hp => by rcases h1 hp with h | h <;> exact h, h2⟩
  show foreignStep c hc op = _
  unfold foreignStep
  simp [hr]

/-- the same for a ZOMBIE handle: -EACCES (the handle is checked before the calling thread is) -/
theorem foreign_zombie_refused (c : Cfg) (hc : Bool) (op : Op) (m : ModId) (md : Mod) (ht : op.modTarget = some m)
    (hm : c.st.mods[m]? = some md) (hz : md.state = .zombie) :
    ∃ code : Int, code < 0 ∧ step c (.foreign hc op) = { c with st := c.st.emit (.ret code) } := by
  have hma : modAssert (foreignView c.st hc) m = some EACCES := by
    have hm' : (foreignView c.st hc).mods[m]? = some md := hm
    simp [modAssert, hm', hz]
  obtain ⟨code, hr, h1, h2⟩ := modop_refused c (foreignView c.st hc) op m EACCES ht hma
  refine ⟨code, ?_, ?_⟩
  · cases hp : op.paramsOk with
    | true => rcases h1 hp with h | h <;> rw [h] <;> decide
    | false => rw [h2 hp]; decide
  · show foreignStep c hc op = _
    unfold foreignStep
    simp [hr]


theorem getElem?_alien (s : St) (name : String) (k : Nat) :
    (s.mods ++ [alienMod s name])[k]? = if k < s.mods.length then s.mods[k]? else if k = s.mods.length then some (alienMod s name) else none := by
  by_cases h1 : k < s.mods.length
  · simp [h1, List.getElem?_append_left h1]
  · by_cases h2 : k = s.mods.length
    · subst h2; simp
    · have : s.mods.length + 1 ≤ k := by omega
      simp [h1, h2, List.getElem?_eq_none, this]

theorem sameCtx_alien (s : St) (m : ModId) (md : Mod) (name : String) (hm : s.mods[m]? = some md) (hf : md.ctxId < s.nextCtx) :
    sameCtx { s with mods := s.mods ++ [alienMod s name] } m s.mods.length = false := by
  have hlt : m < s.mods.length := (List.getElem?_eq_some_iff.mp hm).1
  have h1 : (s.mods ++ [alienMod s name])[m]? = some md := by rw [List.getElem?_append_left hlt]; exact hm
  have h2 : (s.mods ++ [alienMod s name])[s.mods.length]? = some (alienMod s name) := by simp
  show (match (s.mods ++ [alienMod s name])[m]?, (s.mods ++ [alienMod s name])[s.mods.length]? with
    | some a, some b => a.ctxId == b.ctxId | _, _ => false) = false
  rw [h1, h2]
  simp only [alienMod, beq_eq_false_iff_ne, ne_eq]
  omega

/-- the alien module object does not change what `m_ctx()` yields -/
theorem mctx_alien (s : St) (name : String) : mctx { s with mods := s.mods ++ [alienMod s name] } = mctx s := by
  unfold mctx
  cases s.ctx with
  | none => rfl
  | some c =>
    simp only
    cases c.currMod with
    | none => rfl
    | some cm =>
      simp only
      rw [getElem?_alien]
      by_cases h1 : cm < s.mods.length
      · simp [h1]
      · have hn : s.mods[cm]? = none := List.getElem?_eq_none (Nat.le_of_not_lt h1)
        by_cases h2 : cm = s.mods.length
        · simp [h1, h2, alienMod]
        · simp [h1, h2, hn]

/-- **A message cannot be addressed to a module of another context**: tell and poison pill towards a module object
owned by another thread's context fail (the sender's own guards first, then -EINVAL) and change nothing — neither the
sender, nor the alien module, nor anybody else. -/
theorem xtell_refused (c : Cfg) (m : ModId) (md : Mod) (name : String) (pill : Bool)
    (hm : c.st.mods[m]? = some md) (hf : md.ctxId < c.st.nextCtx) :
    ∃ code : Int, code < 0 ∧ step c (.xtell m name pill) = { c with st := c.st.emit (.ret code) } ∧
      (modAssert c.st m = none → md.flags.denyPub = false → code = EINVAL) := by
  let view : St := { c.st with mods := c.st.mods ++ [alienMod c.st name] }
  have hlt : m < c.st.mods.length := (List.getElem?_eq_some_iff.mp hm).1
  have hmv : view.mods[m]? = some md := by
    show (c.st.mods ++ [alienMod c.st name])[m]? = some md
    rw [List.getElem?_append_left hlt]; exact hm
  have hsc := sameCtx_alien c.st m md name hm hf
  have hma : modAssert view m = modAssert c.st m := by
    have hmc : mctx view = mctx c.st := mctx_alien c.st name
    simp only [modAssert, hmv, hm, hmc]
  have key : ∃ code : Int, code < 0 ∧ runP (if pill then apiPill m c.st.mods.length else apiTell m c.st.mods.length 0 false) view
      = (view, .inl code) ∧ (modAssert c.st m = none → md.flags.denyPub = false → code = EINVAL) := by
    cases hmm : modAssert view m with
    | some e =>
      refine ⟨e, modAssert_neg _ _ _ hmm, ?_, fun h => by rw [hma] at hmm; rw [h] at hmm; cases hmm⟩
      cases pill <;> simp [apiPill, apiTell, guarded, hmm]
    | none =>
      by_cases hd : md.flags.denyPub = true
      · refine ⟨EPERM, by decide, ?_, fun _ h => by rw [hd] at h; cases h⟩
        cases pill <;> simp [apiPill, apiTell, guarded, hmm, hmv, hd]
      · refine ⟨EINVAL, by decide, ?_, fun _ _ => rfl⟩
        have hsc' : sameCtx view m c.st.mods.length = false := hsc
        cases pill <;> simp [apiPill, apiTell, guarded, hmm, hmv, hd, hsc']
  obtain ⟨code, hneg, hr, hcode⟩ := key
  refine ⟨code, hneg, ?_, hcode⟩
  show xtellStep c m name pill = _
  unfold xtellStep
  simp only
  rw [hr]
  simp only
  rw [if_pos (by simp [view])]

end Lm.Core
