import Lm.Inv.ThpoolA
import Lm.Inv.ThpoolB2
import Lm.Inv.ThpoolC
import Lm.Inv.ThpoolC3
import Lm.Inv.ThpoolC4
import Lm.Inv.ThpoolD
import Lm.Inv.ThpoolE
/-! The invariant holds initially, is preserved by every transition, hence holds in every reachable state. -/
namespace Lm.Thpool
variable {s s' : State} {l : Label}
set_option linter.unusedSimpArgs false
set_option linter.unusedVariables false

theorem finSupp_step (hi : Inv s) (h : step s l = some s') : ∃ N : Nat, ∀ u : Nat, N ≤ u → s'.pc u = .none := by
  obtain ⟨N, hN⟩ := hi.finSupp
  refine ⟨N + l.tid + 1 + (match l.act with | .create j => j + 1 | _ => 0), fun (u : Nat) hu => ?_⟩
  have hu' : N + l.tid + 1 ≤ u := Nat.le_trans (Nat.le_add_right _ _) hu
  have hne : u ≠ l.tid := by omega
  rcases pc_frame h u hne with e | ⟨_, _, e⟩
  · rw [e]; exact hN u (by omega)
  · rw [e] at hu; simp only at hu; omega

theorem inv_init (c : Cfg) (hc : 0 < c.maxThreads) : Inv (init c) := by
  constructor
  all_goals (cases hl : c.isLazy <;> simp [init, upd_apply, hl, hc])
  all_goals (try (intro u; split <;> simp_all))
  all_goals (exact ⟨1, fun (u : Nat) hu e => by omega⟩)

theorem inv_step (hi : Inv s) (hp : pre s l = true) (h : step s l = some s') : Inv s' where
  maxPos := by rw [cfg_step h]; exact hi.maxPos
  mainIsM := mainIsM_step hi h
  othersNotM := othersNotM_step hi h
  mutex := mutex_step hi h
  owner := owner_step hi h
  waitPc := waitPc_step hi h
  waitNodup := waitNodup_step hi h
  addingIff := addingIff_step hi h
  addingNodup := addingNodup_step hi h
  liveHandle := liveHandle_step hi hp h
  shutNo := (shut_step hi h).1
  shutSet := (shut_step hi h).2
  workersIff := workersIff_step hi h
  workersNodup := workersNodup_step hi h
  threadsNodup := threadsNodup_step hi h
  thrSub := thrSub_step hi h
  pendPc := pendPc_step hi h
  pendNone := pendNone_step hi h
  pendSome := pendSome_step hi h
  pendSelf := pendSelf_step hi h
  lenRel := lenRel_step hi h
  workersLe := workersLe_step hi h
  createRoom := createRoom_step hi h
  newIdx := newIdx_step hi h
  eagerFull := eagerFull_step hi h
  enqThreads := enqThreads_step hi h
  tasksThreads := tasksThreads_step hi h
  tasksFreed := tasksFreed_step hi h
  waitShut := waitShut_step hi h
  bcastDone := bcastDone_step hi h
  breakChk := breakChk_step hi h
  breakLen := breakLen_step hi h
  deqNonempty := deqNonempty_step hi h
  exitShut := exitShut_step hi h
  exitAllEmpty := exitAllEmpty_step hi h
  aliveCnt := aliveCnt_step hi h
  joinCover := joinCover_step hi h
  joinSub := joinSub_step hi h
  goneAll := goneAll_step hi h
  doneAll := doneAll_step hi h
  flags := flags_step hi h
  detPath := (paths_step hi h).1
  nondetPath := (paths_step hi h).2
  tasksNodup := tasksNodup_step hi h
  queued := queued_step hi h
  heldInv := heldInv_step hi h
  inTaskInv := inTaskInv_step hi h
  execCnt := fun k => (taskFacts_step hi h k).1
  finStarted := fun k => (taskFacts_step hi h k).2.1
  accSub := fun k => (taskFacts_step hi h k).2.2.1
  startAcc := fun k => (taskFacts_step hi h k).2.2.2.1
  discInv := fun k => (taskFacts_step hi h k).2.2.2.2.1
  ranArg := fun k => (taskFacts_step hi h k).2.2.2.2.2
  runningInv := runningInv_step hi h
  pendingInv := pendingInv_step hi h
  preEnqInv := preEnqInv_step hi h
  nPreEnqInv := nPreEnqInv_step hi h
  pastChkNo := pastChkNo_step hi h
  newQuiet := newQuiet_step hi h
  discPhase := discPhase_step hi h
  waitAlive := waitAlive_step hi h
  mainWait := mainWait_step hi h
  finSupp := finSupp_step hi h

theorem inv_reach {c : Cfg} (hc : 0 < c.maxThreads) {s : State} (hr : Reach c s) : Inv s := by
  induction hr with
  | init => exact inv_init c hc
  | step l _ hp hs ih => exact inv_step ih hp hs

theorem reach_cfg {c : Cfg} {s : State} (hr : Reach c s) : s.cfg = c := by
  induction hr with
  | init => rfl
  | step l _ _ hs ih => rw [cfg_step hs]; exact ih

/-- a history that respects the API precondition leads to a reachable state -/
theorem reach_of_run {c : Cfg} : ∀ (ls : List Label) (s s' : State), Reach c s → okRun s ls = true → run s ls = some s' → Reach c s'
  | [], s, s', hr, _, h => by simp [run] at h; subst h; exact hr
  | l :: ls, s, s', hr, hok, h => by
    simp only [okRun, Bool.and_eq_true] at hok
    simp only [run] at h
    cases hs : step s l with
    | none => simp [hs] at h
    | some s1 =>
      simp only [hs] at h hok
      exact reach_of_run ls s1 s' (Reach.step l hr hok.1 hs) hok.2 h

end Lm.Thpool
