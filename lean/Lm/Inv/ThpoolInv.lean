import Lm.Inv.ThpoolPc
/-!
# The inductive invariant of the thread-pool transition system (statement)

`Inv s` collects everything that is needed to carry the property theorems of `Lm.Props.C06` through
every transition.  The preservation proofs are in `ThpoolA … ThpoolD`, the assembly in `ThpoolAll`.
-/
namespace Lm.Thpool

/-- Reachable states: from the initial state of a configuration by enabled transitions whose API
calls respect the precondition `pre`. -/
inductive Reach (c : Cfg) : State → Prop
  | init : Reach c (init c)
  | step {s s' : State} (l : Label) : Reach c s → pre s l = true → step s l = some s' → Reach c s'

structure Inv (s : State) : Prop where
  maxPos : 0 < s.cfg.maxThreads
  /- roles -/
  mainIsM : isM (s.pc 0) = true
  othersNotM : ∀ u, u ≠ 0 → isM (s.pc u) = false
  /- the mutex -/
  mutex : ∀ u, holds (s.pc u) = true → s.lockOwner = some u
  owner : ∀ u, s.lockOwner = some u → holds (s.pc u) = true
  /- the condition variable -/
  waitPc : ∀ u, u ∈ s.waiters → waitingPc (s.pc u) = true
  waitNodup : s.waiters.Nodup
  /- submitters and the API precondition -/
  addingIff : ∀ u, u ∈ s.adding ↔ isS (s.pc u) = true
  addingNodup : s.adding.Nodup
  liveHandle : ∀ u, isS (s.pc u) = true → s.pc 0 = .mIdle
  /- pool->shutdown -/
  shutNo : ph (s.pc 0) ≤ 4 → s.shutdown = .no
  shutSet : 5 ≤ ph (s.pc 0) → s.shutdown = (if s.mode then .waitAll else .waitCurr)
  /- worker threads and pool->threads -/
  workersIff : ∀ u, u ∈ s.workers ↔ isW (s.pc u) = true
  workersNodup : s.workers.Nodup
  threadsNodup : s.threads.Nodup
  thrSub : ∀ u, u ∈ s.threads → u ∈ s.workers
  pendPc : ∀ c, s.pendBy = some c ↔ (s.pc c = .sInsert ∨ s.pc c = .nInsert ∨ s.pc c = .mNewInsert)
  pendNone : s.pendBy = none → ph (s.pc 0) ≤ 13 → ∀ u, u ∈ s.workers → u ∈ s.threads
  pendSome : ∀ c, s.pendBy = some c → (∀ u, u ∈ s.workers → (u = s.newTh c ∨ u ∈ s.threads)) ∧ s.newTh c ∉ s.threads
                                       ∧ s.newTh c ∈ s.workers
  pendSelf : ∀ c, s.pendBy = some c → s.newTh c ≠ c
  lenRel : ph (s.pc 0) ≤ 13 → s.workers.length = s.threads.length + (if s.pendBy.isSome then 1 else 0)
  workersLe : s.workers.length ≤ s.cfg.maxThreads
  createRoom : ∀ u, (s.pc u = .sCreate ∨ s.pc u = .nCreate) → s.threads.length < s.cfg.maxThreads
  newIdx : ph (s.pc 0) = 0 → s.idx = s.threads.length ∧ s.idx < s.cfg.maxThreads ∧ s.cfg.isLazy = false
  eagerFull : s.cfg.isLazy = false → (s.pc 0 = .mNewRet ∨ s.pc 0 = .mIdle) → s.threads ≠ []
  enqThreads : ∀ u, (s.pc u = .sEnq ∨ s.pc u = .nEnq) → s.threads ≠ []
  tasksThreads : s.tasks ≠ [] → s.threads ≠ []
  tasksFreed : 13 ≤ ph (s.pc 0) → s.tasks = []
  /- the worker loop -/
  waitShut : ∀ u, s.pc u = .wWait → s.shutdown = .no
  bcastDone : 6 ≤ ph (s.pc 0) → ∀ u, u ∈ s.waiters → u = 0
  breakChk : ∀ u, s.pc u = .wBreakChk → s.tasks ≠ [] ∨ s.shutdown ≠ .no
  breakLen : ∀ u, s.pc u = .wBreakLen → s.shutdown = .waitAll
  deqNonempty : ∀ u, s.pc u = .wDequeue → s.tasks ≠ []
  exitShut : ∀ u, exiting (s.pc u) = true → s.shutdown ≠ .no
  exitAllEmpty : ∀ u, exiting (s.pc u) = true → s.shutdown = .waitAll → s.tasks = []
  /- shutdown: join / alive counter / teardown -/
  aliveCnt : ph (s.pc 0) ≤ 13 → s.alive = s.threads.countP (fun u => beforeDec (s.pc u))
  joinCover : s.pc 0 = .fJoin → ∀ u, u ∈ s.threads → u ∈ s.joinRest ∨ s.pc u = .wDone
  joinSub : s.pc 0 = .fJoin → ∀ u, u ∈ s.joinRest → u ∈ s.threads
  goneAll : (10 ≤ ph (s.pc 0) ∨ (s.cfg.detached = true ∧ s.pc 0 = .fUnlock)) → ∀ u, isW (s.pc u) = true → gone (s.pc u) = true
  doneAll : s.cfg.detached = false → 10 ≤ ph (s.pc 0) → ∀ u, isW (s.pc u) = true → s.pc u = .wDone
  flags : (s.condDestroyed = true → 11 ≤ ph (s.pc 0)) ∧ (s.mutexDestroyed = true → 12 ≤ ph (s.pc 0)) ∧
          (s.poolFreed = true → 15 ≤ ph (s.pc 0))
  detPath : s.cfg.detached = true → ph (s.pc 0) ≠ 8 ∧ ph (s.pc 0) ≠ 9
  nondetPath : s.cfg.detached = false → ph (s.pc 0) ≠ 6
  /- tasks -/
  tasksNodup : s.tasks.Nodup
  queued : ∀ k, k ∈ s.tasks → (s.task k).accepted = true ∧ (s.task k).started = false ∧ (s.task k).discarded = false
  heldInv : ∀ u, held (s.pc u) = true →
    (s.task (s.cur u)).accepted = true ∧ (s.task (s.cur u)).started = false ∧ (s.task (s.cur u)).discarded = false ∧
    s.cur u ∉ s.tasks ∧ (s.task (s.cur u)).runner = u
  inTaskInv : ∀ u, inTask (s.pc u) = true →
    (s.task (s.cur u)).started = true ∧ (s.task (s.cur u)).finished = false ∧ (s.task (s.cur u)).runner = u
  execCnt : ∀ k, (s.task k).execCount = if (s.task k).started then 1 else 0
  finStarted : ∀ k, (s.task k).finished = true → (s.task k).started = true
  runningInv : ∀ k, (s.task k).started = true → (s.task k).finished = false →
    inTask (s.pc (s.task k).runner) = true ∧ s.cur (s.task k).runner = k
  pendingInv : ∀ k, (s.task k).accepted = true → (s.task k).started = false → (s.task k).discarded = false →
    k ∈ s.tasks ∨ (held (s.pc (s.task k).runner) = true ∧ s.cur (s.task k).runner = k)
  preEnqInv : ∀ u, preEnq (s.pc u) = true →
    (s.task (s.cur u)).submitted = true ∧ (s.task (s.cur u)).accepted = false ∧ (s.task (s.cur u)).subBy = u
  nPreEnqInv : ∀ u, nPreEnq (s.pc u) = true →
    (s.task (s.addK u)).submitted = true ∧ (s.task (s.addK u)).accepted = false ∧ (s.task (s.addK u)).subBy = u
  /- while `m_thpool_new` has not returned nothing has been submitted: no task is queued, held or running -/
  newQuiet : ph (s.pc 0) ≤ 1 → s.tasks = [] ∧ ∀ u, held (s.pc u) = false ∧ inTask (s.pc u) = false
  /- the shutdown check of m_thpool_add is made with the lock held -/
  pastChkNo : ∀ u, pastChk (s.pc u) = true → s.shutdown = .no
  accSub : ∀ k, (s.task k).accepted = true → (s.task k).submitted = true
  startAcc : ∀ k, (s.task k).started = true → (s.task k).accepted = true
  discInv : ∀ k, (s.task k).discarded = true → (s.task k).accepted = true ∧ (s.task k).started = false
  ranArg : ∀ k, (s.task k).started = true → (s.task k).ranWith = some (s.task k).arg
  discPhase : ∀ k, (s.task k).discarded = true → 13 ≤ ph (s.pc 0) ∧ s.mode = false
  /- the wait of wait_pool for detached workers -/
  waitAlive : s.pc 0 = .fWait → 0 < s.alive
  mainWait : s.pc 0 = .fWaiting → 0 ∈ s.waiters → s.alive = 0 → ∃ u, s.pc u = .wExitBcast
  /- only finitely many threads exist -/
  finSupp : ∃ N : Nat, ∀ u : Nat, N ≤ u → s.pc u = .none

/-- past the shutdown check of `m_thpool_add` (lock held) the pool is not shutting down: thread 0 has not got beyond
`fSetShut` -/
theorem ph_of_pastChk {s : State} (hi : Inv s) (u : Tid) (hp : pastChk (s.pc u) = true) : ph (s.pc 0) ≤ 4 := by
  have a := hi.pastChkNo u hp
  have b := hi.shutSet
  cases hm : s.mode <;> (apply Nat.le_of_not_lt; intro hlt; have := b (by omega); simp [hm, a] at this)

/-- a task runs only after `m_thpool_new` has returned -/
theorem ph_of_inTask {s : State} (hi : Inv s) (u : Tid) (hp : inTask (s.pc u) = true) : 2 ≤ ph (s.pc 0) := by
  apply Nat.le_of_not_lt; intro hlt
  have := (hi.newQuiet (by omega)).2 u
  rw [hp] at this; cases this.2

/-- case analysis on `h : step s l = some s'`: one goal per enabled transition, with `s'` replaced
by the explicit successor state -/
macro "step_cases" h:ident : tactic => `(tactic| (
  unfold step at $h:ident
  simp only [] at $h:ident
  repeat' (split at $h:ident)
  all_goals (cases $h:ident)))

theorem zero_eq (a : Nat) : (0 = a) = (a = 0) := by simp [eq_comm]

/-- closes what `simp_all` leaves over -/
macro "fin" : tactic => `(tactic| first | omega | (split <;> simp_all <;> done) | grind)

theorem cfg_step {s s' : State} {l : Label} (h : step s l = some s') : s'.cfg = s.cfg := by
  step_cases h
  all_goals rfl

/-- a step of thread `t` changes the program counter of another thread only by creating it -/
theorem pc_frame {s s' : State} {l : Label} (h : step s l = some s') (u : Tid) (hu : u ≠ l.tid) :
    s'.pc u = s.pc u ∨ (s.pc u = .none ∧ s'.pc u = .wLock ∧ l.act = .create u) := by
  step_cases h
  all_goals first
    | (left; simp [State.goto, upd_apply, hu]; done)
    | (rename_i j _ _; by_cases hj : u = j
       · subst hj; right; simp_all [upd_apply]
       · left; simp [upd_apply, hu, hj])

end Lm.Thpool
