import Lm.Inv.ThpoolD
/-! Preservation of the invariants about `m_thpool_add` called from inside a task, and about the window before
`m_thpool_new` returns. -/
namespace Lm.Thpool
variable {s s' : State} {l : Label}
set_option linter.unusedSimpArgs false
set_option linter.unusedVariables false

set_option maxHeartbeats 1000000 in
theorem nPreEnqInv_step (hi : Inv s) (h : step s l = some s') : ∀ u, nPreEnq (s'.pc u) = true →
    (s'.task (s'.addK u)).submitted = true ∧ (s'.task (s'.addK u)).accepted = false ∧ (s'.task (s'.addK u)).subBy = u := by
  intro u hu
  have h1 := hi.nPreEnqInv u
  have h2 := hi.nPreEnqInv l.tid
  have h3 := hi.queued
  have h4 := hi.accSub
  have h5 := hi.heldInv l.tid
  have h6 := hi.inTaskInv l.tid
  have h7 := hi.startAcc
  have hP := hi.preEnqInv l.tid
  have hA := ph_of_pastChk hi l.tid
  have hB := ph_of_inTask hi l.tid
  step_cases h
  all_goals (
    by_cases ht : u = l.tid
    · subst ht
      simp [State.goto, upd_apply] at hu ⊢ <;> grind
    · simp [State.goto, upd_apply, ht] at hu ⊢ <;> grind)

set_option maxHeartbeats 1000000 in
/-- the shutdown check of `m_thpool_add` is made with the lock held, and `shutdown` is only written with the lock held -/
theorem pastChkNo_step (hi : Inv s) (h : step s l = some s') : ∀ u, pastChk (s'.pc u) = true → s'.shutdown = .no := by
  intro u hu
  have h1 := hi.pastChkNo u
  have h2 := hi.pastChkNo l.tid
  have h3 := hi.mutex u
  have h4 := hi.mutex l.tid
  have h5 : pastChk (s.pc u) = true → holds (s.pc u) = true := by cases s.pc u <;> simp
  step_cases h
  all_goals (
    by_cases ht : u = l.tid
    · subst ht; simp_all [State.goto, upd_apply, zero_eq] <;> fin
    · simp_all [State.goto, upd_apply, zero_eq] <;> fin)

set_option maxHeartbeats 1000000 in
/-- nothing is queued, held or running before `m_thpool_new` has returned -/
theorem newQuiet_step (hi : Inv s) (h : step s l = some s') :
    ph (s'.pc 0) ≤ 1 → s'.tasks = [] ∧ ∀ u, held (s'.pc u) = false ∧ inTask (s'.pc u) = false := by
  intro hp
  have h1 := hi.newQuiet
  have h2 := hi.liveHandle l.tid
  have h4 := hi.othersNotM l.tid
  have h5 := hi.mainIsM
  have h6 := hi.deqNonempty l.tid
  refine ⟨?_, fun u => ?_⟩
  · step_cases h
    all_goals (
      by_cases h0 : l.tid = 0
      · simp_all [State.goto, upd_apply, zero_eq] <;> fin
      · simp_all [State.goto, upd_apply, zero_eq] <;> fin)
  · have h7 : ph (s.pc 0) ≤ 1 → held (s.pc u) = false ∧ inTask (s.pc u) = false := fun a => (h1 a).2 u
    have h8 : ph (s.pc 0) ≤ 1 → held (s.pc l.tid) = false ∧ inTask (s.pc l.tid) = false := fun a => (h1 a).2 l.tid
    have h9 : ph (s.pc 0) ≤ 1 → s.tasks = [] := fun a => (h1 a).1
    step_cases h
    all_goals (
      by_cases h0 : l.tid = 0 <;> by_cases ht : u = l.tid <;>
      first
        | (simp_all [State.goto, upd_apply, zero_eq] <;> fin)
        | (simp [State.goto, upd_apply, zero_eq, h0, ht] at hp ⊢ <;> grind))

end Lm.Thpool
