import Lm.Inv.C12Queue
/-! # `stack.c` refines the LIFO array machine -/
namespace Lm.Struct.Stack
open Lm.Struct Lm.Spec.C12

theorem push_R {s : St} {a : ASt} (v : Val) (h : R .stack s a) (hi : s.itr = none) :
    R .stack (push s v).1 (Spec.C12.Stack.step a (.push v)).1 ∧ (push s v).2 = (Spec.C12.Stack.step a (.push v)).2 := by
  obtain ⟨alive, dt, cmp, xs, cur, out⟩ := a
  obtain ⟨obj, itr, log, fault⟩ := s
  simp only at hi; subst hi
  cases obj with
  | none =>
    have h' := h
    simp only [R] at h; obtain ⟨rfl, rfl, rfl, rfl, rfl, _⟩ := h
    simp [push, Spec.C12.Stack.step]; exact h'
  | some q =>
    have h' := h
    simp only [R] at h
    obtain ⟨rfl, rfl, rfl, rfl, rfl, rfl, wf, tl, rfl⟩ := h
    by_cases hv : v = 0
    · simp [push, Spec.C12.Stack.step, hv]; exact h'
    · simp only [push, hv, if_false, Spec.C12.Stack.step]
      simp only [R]
      simp [hv, vals]
      refine ⟨?_, ?_⟩
      · have := wf.insert (p := 0) (Nat.zero_le _) hv
        simpa [insertAt] using this
      · simpa [tailOK] using tl

theorem pop_empty {s : St} (h : ¬ cLen s.obj > 0) : pop s = (s, .ptr 0) := by
  simp [pop, h]

theorem pop_cons {s : St} {q : Cont} {hd : Node} {rest : Chain} (ho : s.obj = some q) (wf : q.WF)
    (hc : q.chain = hd :: rest) :
    pop s = ({ s with obj := some { q with chain := rest, len := q.len - 1 } }, .ptr hd.val) := by
  have : cLen s.obj > 0 := by simp [ho, cLen, wf.len, hc]
  have h2 : cLen (some q) > 0 := ho ▸ this
  simp only [pop, ho, h2, if_true, hc]

theorem head_erase_ok {q : Cont} {hd : Node} {rest : Chain} (wf : q.WF) (tl : tailOK .stack q) (hc : q.chain = hd :: rest) :
    Cont.WF { q with chain := rest, len := q.len - 1 } ∧ tailOK .stack { q with chain := rest, len := q.len - 1 } := by
  have := Queue.head_erase_ok wf tl hc
  have ht : q.tail = none := tl
  simpa [ht] using this

theorem pop_R {s : St} {a : ASt} (h : R .stack s a) (hi : s.itr = none) :
    R .stack (pop s).1 (takeFirst a).1 ∧ (pop s).2 = (takeFirst a).2 := by
  by_cases hx : a.xs = []
  · have hn : ¬ cLen s.obj > 0 := by rw [R_cLen_pos h]; simp [hx]
    rw [pop_empty hn]
    simp [takeFirst, hx]; exact h
  · have hpos : cLen s.obj > 0 := (R_cLen_pos h).mpr hx
    obtain ⟨alive, dt, cmp, xs, cur, out⟩ := a
    obtain ⟨obj, itr, log, fault⟩ := s
    simp only at hi; subst hi
    cases obj with
    | none => simp [cLen, EINVAL] at hpos
    | some q =>
      simp only [R] at h
      obtain ⟨rfl, rfl, rfl, rfl, rfl, rfl, wf, tl, rfl⟩ := h
      cases hc : q.chain with
      | nil => simp [vals, hc] at hx
      | cons hd rest =>
        rw [pop_cons rfl wf hc]
        have := head_erase_ok wf tl hc
        simp [takeFirst, vals, hc, R, this]

theorem remove_R {s : St} {a : ASt} (h : R .stack s a) (hi : s.itr = none) :
    R .stack (remove s).1 (rmFirst a).1 ∧ (remove s).2 = (rmFirst a).2 ∧ (remove s).1.itr = none := by
  by_cases hx : a.xs = []
  · have hn : ¬ cLen s.obj > 0 := by rw [R_cLen_pos h]; simp [hx]
    simp only [remove, pop_empty hn]
    simp [rmFirst, hx, hi]; exact h
  · have hpos : cLen s.obj > 0 := (R_cLen_pos h).mpr hx
    obtain ⟨alive, dt, cmp, xs, cur, out⟩ := a
    obtain ⟨obj, itr, log, fault⟩ := s
    simp only at hi; subst hi
    cases obj with
    | none => simp [cLen, EINVAL] at hpos
    | some q =>
      simp only [R] at h
      obtain ⟨rfl, rfl, rfl, rfl, rfl, rfl, wf, tl, rfl⟩ := h
      cases hc : q.chain with
      | nil => simp [vals, hc] at hx
      | cons hd rest =>
        have hv : hd.val ≠ 0 := wf.nonnull hd (by simp [hc])
        have e := pop_cons (s := ⟨some q, none, log, false⟩) rfl wf hc
        simp only [remove, e]
        have := head_erase_ok wf tl hc
        simp [rmFirst, vals, hc, R, this, hv, absEv_callDtor]

theorem clearLoop_R : ∀ (n : Nat) {s : St} {a : ASt}, R .stack s a → s.itr = none → n = a.xs.length →
    R .stack (clearLoop n s) { a with xs := [], out := a.out ++ drop a.dtor a.xs } ∧ (clearLoop n s).itr = none
  | 0, s, a, h, hi, hn => by
    have : a.xs = [] := List.eq_nil_of_length_eq_zero hn.symm
    simp only [clearLoop, this, drop_nil, List.append_nil]
    refine ⟨?_, hi⟩
    have e : { a with xs := [], out := a.out } = a := by cases a; simp_all
    rw [e]; exact h
  | n + 1, s, a, h, hi, hn => by
    have hx : a.xs ≠ [] := by intro e; simp [e] at hn
    have hpos : cLen s.obj > 0 := (R_cLen_pos h).mpr hx
    simp only [clearLoop, Queue.R_nofault h, hpos, if_true, Bool.false_eq_true, if_false]
    obtain ⟨h1, _, h3⟩ := remove_R h hi
    cases hxs : a.xs with
    | nil => exact absurd hxs hx
    | cons x r =>
      have hr : (rmFirst a).1 = { a with xs := r, out := a.out ++ drop a.dtor [x] } := by simp [rmFirst, hxs]
      rw [hr] at h1
      have := clearLoop_R n h1 h3 (by simp [hxs] at hn; simpa using hn)
      simpa [drop_cons a.dtor x r, List.append_assoc] using this

theorem R_alive {k : Kind} {s : St} {a : ASt} (h : R k s a) : a.alive = s.obj.isSome := by
  obtain ⟨obj, itr, log, fault⟩ := s
  cases obj with
  | none => simp only [R] at h; simp [h.2.2.1]
  | some q => simp only [R] at h; simp [h.2.2.1]

theorem R_len_some {k : Kind} {s : St} {a : ASt} {q : Cont} (h : R k s a) (ho : s.obj = some q) : q.len = a.xs.length := by
  obtain ⟨obj, itr, log, fault⟩ := s
  simp only at ho; subst ho
  simp only [R] at h
  obtain ⟨_, _, _, _, _, hx, wf, _⟩ := h
  simp [hx, vals, wf.len]

theorem clear_R {s : St} {a : ASt} (h : R .stack s a) (hi : s.itr = none) :
    R .stack (clear s).1 (Spec.C12.Stack.step a .clear).1 ∧ (clear s).2 = (Spec.C12.Stack.step a .clear).2 ∧
    (clear s).1.itr = none := by
  have ha := R_alive h
  cases ho : s.obj with
  | none =>
    simp only [ho, Option.isSome_none] at ha
    simp only [clear, ho, Spec.C12.Stack.step, ha, Bool.false_eq_true, if_false]
    exact ⟨h, trivial, hi⟩
  | some q =>
    simp only [ho, Option.isSome_some] at ha
    have := clearLoop_R q.len h hi (R_len_some h ho)
    simp only [clear, ho, Spec.C12.Stack.step, if_pos ha]
    exact ⟨this.1, trivial, this.2⟩

theorem free_R {s : St} {a : ASt} (h : R .stack s a) :
    R .stack (free s).1 (Spec.C12.Stack.step a .free).1 ∧ (free s).2 = (Spec.C12.Stack.step a .free).2 := by
  have h0 : R .stack { s with itr := none } { a with cur := none } := by
    obtain ⟨obj, itr, log, fault⟩ := s
    cases obj with
    | none => simp only [R] at h ⊢; simp_all
    | some q => simp only [R] at h ⊢; simp_all
  have hc := clear_R h0 rfl
  have ha := R_alive h
  cases ho : s.obj with
  | none =>
    simp only [ho, Option.isSome_none] at ha
    have e : clear { s with itr := none } = ({ s with itr := none }, .int EINVAL) := by simp [clear, ho]
    have hna : ¬ a.alive = true := by simp [ha]
    simp only [free, e, Spec.C12.Stack.step, if_neg hna]
    refine ⟨?_, by simp [EINVAL]⟩
    simp only [EINVAL]
    -- the iterator handle is NULL already (no container)
    obtain ⟨obj, itr, log, fault⟩ := s
    simp only at ho; subst ho
    simp only [R] at h ⊢
    obtain ⟨h1, h2, h3, h4, h5, h6⟩ := h
    exact ⟨h1, h2, h3, h4, h5, trivial⟩
  | some q =>
    simp only [ho, Option.isSome_some] at ha
    have e : clear { s with itr := none } = (clearLoop q.len { s with itr := none }, .int 0) := by simp [clear, ho]
    simp only [Spec.C12.Stack.step, if_pos ha] at hc ⊢
    rw [e] at hc
    simp only [free, e]
    obtain ⟨h1, _, h3⟩ := hc
    refine ⟨?_, trivial⟩
    simp only [R] at h1 ⊢
    exact ⟨h1.1, h1.2.1, trivial, trivial, trivial, h3⟩

theorem okOp_itr {s : St} {o : Op} (h : okOp s o = true) (hm : o.mutates = true) : s.itr = none := by
  simp only [okOp, hm, Bool.true_and, Bool.not_eq_true', Option.isSome_eq_false_iff, Option.isNone_iff_eq_none] at h
  exact h

/-- one call: the chain model does what the LIFO array machine does -/
theorem step_R {s : St} {a : ASt} (o : Op) (h : R .stack s a) (hok : okOp s o = true) :
    R .stack (step s o).1 (Spec.C12.Stack.step a o).1 ∧ (step s o).2 = (Spec.C12.Stack.step a o).2 := by
  cases o with
  | push v => exact push_R v h (okOp_itr hok rfl)
  | pop => exact pop_R h (okOp_itr hok rfl)
  | peek => exact peek_R h
  | rm => have := remove_R h (okOp_itr hok rfl); exact ⟨this.1, this.2.1⟩
  | len => simp only [step, Spec.C12.Stack.step, R_len h]; exact ⟨h, trivial⟩
  | clear => have := clear_R h (okOp_itr hok rfl); exact ⟨this.1, this.2.1⟩
  | free => exact free_R h
  | iterate k => exact iterate_R k h
  | itNew => exact itrNew_R h
  | itNext => exact itrNext_R (by decide) h
  | itGet => exact itrGet_R (by decide) h
  | itSet v => exact itrSet_R (by decide) v h
  | itRm => exact itrRemove_R (by decide) h

theorem run_R : ∀ (ops : List Op) {s : St} {a : ASt}, R .stack s a → okRun s ops = true →
    R .stack (run s ops) (Spec.C12.Stack.run a ops) ∧ trace s ops = Spec.C12.Stack.trace a ops
  | [], s, a, h, _ => ⟨h, rfl⟩
  | o :: os, s, a, h, hok => by
    simp only [okRun, Bool.and_eq_true] at hok
    have h1 := step_R o h hok.1
    have h2 := run_R os h1.1 hok.2
    simp only [run, List.foldl_cons, Spec.C12.Stack.run, trace, Spec.C12.Stack.trace, h1.2] at h2 ⊢
    exact ⟨h2.1, by rw [h2.2]⟩

theorem init_R (dtor : Bool) : R .stack (new dtor) (Spec.C12.Stack.init dtor) := by
  simp [R, new, Spec.C12.Stack.init, vals, tailOK]
  exact ⟨rfl, by simp [ids], by simp, by simp⟩

end Lm.Struct.Stack
