/-!
# Model of `Lib/mem/mem.c` (property C10)

Two parts.

* Layout: the size/offset arithmetic of `m_mem_new` / `get_header` is *not* written here; it is
  regenerated from the C source into `Lm.Generated.Mem` on every run (tie A).
* The reference-count machine, transcribed from `m_mem_ref` / `m_mem_unref` / `m_mem_unrefp` /
  `m_mem_size`.  Blocks get consecutive ids in creation order; a block may carry a destructor that
  (like the destructors inside libmodule: module → ctx, message → sender, event → source) drops one
  reference on another, older block.  `user` is ghost state: the number of references the script
  (the "caller") holds; it never influences what the machine does.
-/
namespace Lm.Mem

structure Block where
  live : Bool
  refs : Nat
  user : Nat            -- ghost
  size : Nat
  dtor : Bool
  owns : Option Nat     -- reference dropped by the destructor (meaningful only when `dtor`)
  deriving Repr, DecidableEq

inductive Ev
  | dtor (i : Nat)
  | free (i : Nat)
  deriving Repr, DecidableEq

structure St where
  heap  : List Block := []
  log   : List Ev := []
  fault : Bool := false
  deriving Repr, DecidableEq

/-- child reference actually dropped when block `b` is destroyed -/
def Block.child (b : Block) : Option Nat := if b.dtor then b.owns else none

def kill (s : St) (i : Nat) (b : Block) : St :=
  { s with heap := s.heap.set i { b with live := false, refs := 0 },
           log := s.log ++ (if b.dtor then [Ev.dtor i] else []) }

/-- `m_mem_unref` on block `i`: `--refs == 0` → destructor (which may drop a reference on an older
block) → free.  `fuel` bounds the nesting; `dropRef_fuel` shows `i + 1` is always enough. -/
def dropRef : Nat → Nat → St → St
  | 0, _, s => { s with fault := true }
  | fuel + 1, i, s =>
    match s.heap[i]? with
    | some b =>
      if !b.live then { s with fault := true }            -- use after free
      else if b.refs = 1 then
        let s1 := kill s i b
        let s2 := match b.child with
          | some j => dropRef fuel j s1
          | none => s1
        { s2 with log := s2.log ++ [Ev.free i] }
      else { s with heap := s.heap.set i { b with refs := b.refs - 1 } }
    | none => { s with fault := true }

inductive Op
  | new (size : Nat) (dtor : Bool) (owns : Option Nat)
  | ref (i : Nat)
  | unref (i : Nat)
  | size (i : Nat)
  deriving Repr, DecidableEq

/-- ghost bookkeeping: the caller gives up one of its references on `i` -/
def giveUp (s : St) (i : Nat) : St :=
  match s.heap[i]? with
  | some b => { s with heap := s.heap.set i { b with user := b.user - 1 } }
  | none => s

/-- one API call; the `Option Nat` is the value returned by `m_mem_size` -/
def step (s : St) : Op → St × Option Nat
  | .new size dtor owns =>
    -- the new block takes over one caller reference on `owns` (no `m_mem_ref` call happens)
    let s1 := match owns with
      | some j => giveUp s j
      | none => s
    ({ s1 with heap := s1.heap ++ [{ live := true, refs := 1, user := 1, size := size, dtor := dtor, owns := owns }] }, none)
  | .ref i =>
    match s.heap[i]? with
    | some b => if b.live then ({ s with heap := s.heap.set i { b with refs := b.refs + 1, user := b.user + 1 } }, none)
                else ({ s with fault := true }, none)
    | none => ({ s with fault := true }, none)
  | .unref i => (dropRef (i + 1) i (giveUp s i), none)
  | .size i =>
    match s.heap[i]? with
    | some b => if b.live then (s, some b.size) else ({ s with fault := true }, none)
    | none => ({ s with fault := true }, none)

def run (s : St) (ops : List Op) : St := ops.foldl (fun s o => (step s o).1) s

/-- The documented precondition, as a decidable predicate on one call in a given state: handles
passed are references the caller holds (and an owner has a destructor, points to an existing block,
and is handed a reference the caller holds). -/
def okOp (s : St) : Op → Bool
  | .new _ dtor owns =>
    match owns with
    | none => true
    | some j => dtor && (match s.heap[j]? with | some b => b.live && decide (1 ≤ b.user) | none => false)
  | .ref i | .unref i | .size i =>
    match s.heap[i]? with | some b => b.live && decide (1 ≤ b.user) | none => false

/-- every call of the history respects the precondition in the state it is made in -/
def okRun : St → List Op → Bool
  | _, [] => true
  | s, o :: os => okOp s o && okRun (step s o).1 os

end Lm.Mem
