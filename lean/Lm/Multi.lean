import Lm.Core.Machine
/-!
# Several threads, each with its own context (C14)

`World` = one core machine per thread.  There is deliberately **no shared component**: that the library has no mutable
state shared between contexts is not assumed here but established from the source on every run
(`Lm.Generated.Statics`, theorem `C14_no_shared_mutable_statics`), and sampled on the compiled code by the concurrent
correspondence runs and ThreadSanitizer.  A line of thread `t` is a step of thread `t`'s machine; a call that crosses
threads (`foreign`, `xtell`) is a line of the *owner's* script — the owner's objects are the ones that could be affected.
-/
namespace Lm.Multi
open Lm.Core

structure World where
  threads : List Cfg := []

/-- one line of thread `t`'s script -/
structure Line where
  t : Nat
  op : Op

def wstep (w : World) (l : Line) : World :=
  { threads := w.threads.modify l.t (fun c => step c l.op) }

def wrun (w : World) (ls : List Line) : World := ls.foldl wstep w

/-- the lines of thread `t`, in order -/
def project (t : Nat) (ls : List Line) : List Op := (ls.filter (·.t == t)).map (·.op)

theorem wstep_same (w : World) (l : Line) (t : Nat) (h : l.t = t) :
    (wstep w l).threads[t]? = (w.threads[t]?).map (fun c => step c l.op) := by
  subst h
  simp [wstep, List.getElem?_modify]

theorem wstep_other (w : World) (l : Line) (t : Nat) (h : l.t ≠ t) :
    (wstep w l).threads[t]? = w.threads[t]? := by
  simp [wstep, List.getElem?_modify, h]

/-- **Non-interference.**  For every interleaving `ls` of the threads' scripts, thread `t` ends in exactly the
configuration — state, pending callbacks and complete output trace — that its own lines produce when run alone. -/
theorem interleaving_irrelevant (ls : List Line) (w : World) (t : Nat) :
    (wrun w ls).threads[t]? = (w.threads[t]?).map (fun c => run c (project t ls)) := by
  induction ls generalizing w with
  | nil => simp [wrun, project, run]
  | cons l rest ih =>
    have h := ih (wstep w l)
    simp only [wrun, List.foldl_cons] at h ⊢
    rw [h]
    by_cases hl : l.t = t
    · rw [wstep_same w l t hl]
      have : project t (l :: rest) = l.op :: project t rest := by simp [project, hl]
      rw [this]
      cases w.threads[t]? <;> simp [run]
    · rw [wstep_other w l t hl]
      have : project t (l :: rest) = project t rest := by
        have : (l.t == t) = false := by simp [hl]
        simp [project, this]
      rw [this]

end Lm.Multi
