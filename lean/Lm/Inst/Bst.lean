import Lm.Generated.Bst
import Lm.Struct.BstCmp
import Lm.Inv.Bst
/-!
# Instantiation of the ordered-set theorems with the comparator regenerated from the source (tie A)

`Lm.Generated.Bst.ptrcmp` is the translation of `ptrcmp()` in `Lib/structs/bst.c` (rewritten from the
C source on every run).  The theorems of `Lm.Props.C11` are parametric in a comparator satisfying
`TotalOrderCmp`; this file proves that obligation for the generated term, for all 2^64 × 2^64
pairs of addresses, by case analysis on the unsigned order of the two addresses.
-/
namespace Lm.Inst.Bst
open Lm.Generated.Bst Lm.Struct.Bst

/-- the three possible results -/
theorem ptrcmp_cases (a b : BitVec 64) :
    (a.toNat < b.toNat → (ptrcmp a b).toInt = -1) ∧
    (a.toNat = b.toNat → (ptrcmp a b).toInt = 0) ∧
    (b.toNat < a.toNat → (ptrcmp a b).toInt = 1) := by
  refine ⟨?_, ?_, ?_⟩
  · intro h
    have h2 : ¬ b.toNat < a.toNat := by omega
    simp [ptrcmp, BitVec.ult, h, h2]
  · intro h
    have h1 : ¬ a.toNat < b.toNat := by omega
    have h2 : ¬ b.toNat < a.toNat := by omega
    simp [ptrcmp, BitVec.ult, h1, h2]
  · intro h
    have h1 : ¬ a.toNat < b.toNat := by omega
    simp [ptrcmp, BitVec.ult, h, h1]

/-- the default comparator orders addresses as unsigned integers, however far apart they are -/
theorem ptrcmp_lt_iff (a b : BitVec 64) : (ptrcmp a b).toInt < 0 ↔ a.toNat < b.toNat := by
  obtain ⟨h1, h2, h3⟩ := ptrcmp_cases a b
  rcases Nat.lt_trichotomy a.toNat b.toNat with h | h | h
  · simp [h1 h, h]
  · simp [h2 h, h]
  · rw [h3 h]; constructor <;> intro <;> omega

theorem ptrcmp_gt_iff (a b : BitVec 64) : 0 < (ptrcmp a b).toInt ↔ b.toNat < a.toNat := by
  obtain ⟨h1, h2, h3⟩ := ptrcmp_cases a b
  rcases Nat.lt_trichotomy a.toNat b.toNat with h | h | h
  · rw [h1 h]; constructor <;> intro <;> omega
  · simp [h2 h, h]
  · simp [h3 h, h]

/-- distinct addresses never compare equal -/
theorem ptrcmp_eq_iff (a b : BitVec 64) : (ptrcmp a b).toInt = 0 ↔ a = b := by
  obtain ⟨h1, h2, h3⟩ := ptrcmp_cases a b
  rcases Nat.lt_trichotomy a.toNat b.toNat with h | h | h
  · rw [h1 h]; constructor
    · intro e; omega
    · intro e; subst e; omega
  · have : a = b := BitVec.eq_of_toNat_eq h
    exact ⟨fun _ => this, fun _ => h2 h⟩
  · rw [h3 h]; constructor
    · intro e; omega
    · intro e; subst e; omega

/-- THE OBLIGATION of tie A: the generated comparator is a total order comparator on all addresses -/
theorem ptrcmp_total : TotalOrderCmp (fun a b : BitVec 64 => (ptrcmp a b).toInt) := by
  refine ⟨?_, ?_, ?_⟩
  · intro a; exact (ptrcmp_eq_iff a a).mpr rfl
  · intro a b; rw [ptrcmp_lt_iff, ptrcmp_gt_iff]
  · intro a b c h1 h2
    have l1 := ptrcmp_gt_iff a b
    have l2 := ptrcmp_gt_iff b c
    have l3 := ptrcmp_gt_iff a c
    by_cases g : 0 < (ptrcmp a c).toInt
    · have := l3.mp g
      have n1 : ¬ b.toNat < a.toNat := fun x => by have := l1.mpr x; omega
      have n2 : ¬ c.toNat < b.toNat := fun x => by have := l2.mpr x; omega
      omega
    · omega

theorem defaultCmp_total : TotalOrderCmp defaultCmp := ptrcmp_total.comap (BitVec.ofNat 64)

theorem defaultCmp_eq_iff {a b : Val} (ha : a < 2 ^ 64) (hb : b < 2 ^ 64) : defaultCmp a b = 0 ↔ a = b := by
  unfold defaultCmp
  rw [ptrcmp_eq_iff]
  constructor
  · intro e
    have := congrArg BitVec.toNat e
    simp only [BitVec.toNat_ofNat] at this
    rw [Nat.mod_eq_of_lt ha, Nat.mod_eq_of_lt hb] at this
    exact this
  · intro e; rw [e]

theorem defaultCmp_lt_iff {a b : Val} (ha : a < 2 ^ 64) (hb : b < 2 ^ 64) : defaultCmp a b < 0 ↔ a < b := by
  unfold defaultCmp
  rw [ptrcmp_lt_iff]
  simp only [BitVec.toNat_ofNat]
  rw [Nat.mod_eq_of_lt ha, Nat.mod_eq_of_lt hb]

/-! ## The user comparator of the correspondence harness -/

theorem keyCmp_total (key : Val → Nat) : TotalOrderCmp (keyCmp key) := by
  refine ⟨?_, ?_, ?_⟩
  · intro a; simp [keyCmp]
  · intro a b
    unfold keyCmp
    generalize key a = x, key b = y
    (repeat' split) <;> omega
  · intro a b c
    unfold keyCmp
    generalize key a = x, key b = y, key c = z
    intro h1 h2
    by_cases c1 : x < y <;> by_cases c2 : y < x <;> by_cases c3 : y < z <;> by_cases c4 : z < y <;>
      by_cases c5 : x < z <;> by_cases c6 : z < x <;> simp [c1, c2, c3, c4, c5, c6] at h1 h2 ⊢ <;> omega

theorem userCmp_total : TotalOrderCmp userCmp := keyCmp_total _

end Lm.Inst.Bst
