import Lm.Generated.CoreGuards
import Lm.Generated.Statics
import Lm.Core.Model
/-!
# Tie A of the core machine: what the model was written against, checked against what the source says now

`Lm.Generated.CoreGuards.guards` is re-extracted from ctx.c / mod.c / ps.c / src.c / evts.c on every run (clang AST after
macro expansion).  `expected` is the guard prefix of every function as the model (`Lm.Core.Model`) transcribes it:

* `base3` = `M_MOD_ASSERT` = `modAssert` (NULL → -EINVAL, ZOMBIE → -EACCES, foreign context → -EPERM);
* a state mask `m_mod_is(mod, …)` → -EACCES = the `mask` argument of `guarded`;
* a permission flag → -EPERM = the `deny` argument of `guarded`;
* `tok` = `M_MOD_CONSUME_TOKEN` → -EAGAIN = `consumeToken`;
* `getCtx, ctxAssert` = `M_CTX_ASSERT` → -EPIPE = the `mctx s = none` branch of every context call;
* code 7777 = a statement found between two guards, 7778 = the function the entry point delegates to.

A widened mask, a dropped or reordered guard, a changed code, or an edit of one of the assert macros makes
`guards_as_modelled` false: the proof obligation breaks and the check searches for an input on which the behaviour differs.
(This file is written by tools/mk_coretie.py when the model is deliberately moved to a new source; never at check time.)
-/
namespace Lm.Inst.CoreTie
open Lm.Generated.CoreGuards

def base3 : List (String × Int) := [("mod", -22), ("!m_mod_is(mod, M_MOD_ZOMBIE)", -13), ("(mod->ctx == m_ctx())", -1)]
def tok : String × Int := ("(mod->tb.tokens > 0)", -11)
def getCtx : String × Int := ("let c = m_ctx()", 7777)
def ctxAssert : String × Int := ("c", -32)

def expected : List (String × List (String × Int)) := [
  ("m_ctx_loop_events", [("(max_events > 0)", -22), ("(c->state == M_CTX_IDLE)", -22), ("!c->destroying", -22), ("!c->stopping", -22)]),
  ("ctx_new", [("do ?", 7777), ("let new_ctx = m_mem_new(sizeof(m_ctx_t), ctx_dtor)", 7777), ("new_ctx", -12)]),
  ("m_ctx", []),
  ("m_ctx_register", [("str_not_empty(ctx_name)", -22), ("do pthread_once(&key_once, make_key)", 7777), ("!pthread_getspecific(key)", -17), ("return ctx_new", 7778)]),
  ("m_ctx_deregister", [getCtx, ctxAssert, ("(c->state == M_CTX_IDLE)", -22), ("!c->destroying", -22)]),
  ("m_ctx_set_logger", [getCtx, ctxAssert, ("logger", -22)]),
  ("m_ctx_loop", [getCtx, ctxAssert]),
  ("m_ctx_quit", [getCtx, ctxAssert, ("(c->state == M_CTX_LOOPING)", -22), ("return loop_quit", 7778)]),
  ("m_ctx_fd", [getCtx, ctxAssert, ("return dup", 7778)]),
  ("m_ctx_dispatch", [getCtx, ctxAssert]),
  ("m_ctx_dump", [getCtx, ctxAssert]),
  ("m_ctx_stats", [getCtx, ctxAssert, ("(c->state == M_CTX_LOOPING)", -22), ("stats", -22)]),
  ("m_ctx_name", [("let c = m_ctx()", 7777), ("c", 0)]),
  ("m_ctx_userdata", [("let c = m_ctx()", 7777), ("c", 0)]),
  ("m_ctx_len", [getCtx, ctxAssert, ("return m_map_len", 7778)]),
  ("m_ctx_finalize", [getCtx, ctxAssert]),
  ("m_ctx_set_tick", [getCtx, ctxAssert]),
  ("mod_deregister", [("mod", -22), ("*mod", -22), ("!m_mod_is(*mod, M_MOD_ZOMBIE)", -13), ("(*mod->ctx == m_ctx())", -1), ("let m = *mod", 7777), ("let c = m->ctx", 7777), ("!((m->flags & M_MOD_PERSIST) && (c->state == M_CTX_LOOPING))", -1), ("do ?", 7777), ("(m_map_get(c->modules, m->name) == m)", -2)]),
  ("m_mod_register", [("str_not_empty(name)", -22), ("(!hook || hook->on_evt)", -22), getCtx, ctxAssert, ("!c->finalized", -1)]),
  ("m_mod_deregister", [("return mod_deregister", 7778)]),
  ("m_mod_set_tokenbucket", base3 ++ [("(rate <= 1000000000)", -22)]),
  ("m_mod_log", base3),
  ("m_mod_userdata", [("mod", 0)]),
  ("m_mod_name", [("mod", 0)]),
  ("m_mod_is", [("mod", 0)]),
  ("m_mod_state", [("mod", -22)]),
  ("m_mod_dump", base3),
  ("m_mod_stats", base3 ++ [("stats", -22)]),
  ("m_mod_start", base3 ++ [("m_mod_is(mod, (M_MOD_IDLE | M_MOD_STOPPED))", -13), ("(m_map_get(mod->ctx->modules, mod->name) == mod)", -13)] ++ [tok]),
  ("m_mod_pause", base3 ++ [("m_mod_is(mod, M_MOD_RUNNING)", -13)] ++ [tok]),
  ("m_mod_resume", base3 ++ [("m_mod_is(mod, M_MOD_PAUSED)", -13)] ++ [tok]),
  ("m_mod_stop", base3 ++ [("m_mod_is(mod, (M_MOD_RUNNING | M_MOD_PAUSED))", -13)] ++ [tok]),
  ("m_mod_bind", base3 ++ [("ref", -22), ("!m_mod_is(ref, M_MOD_ZOMBIE)", -13), ("(ref->ctx == m_ctx())", -1)] ++ [tok] ++ [("return m_list_insert", 7778)]),
  ("m_mod_lookup", [("mod", 0), ("name", 0), ("let c = mod->ctx", 7777), ("(c == m_ctx())", 0), ("return m_map_get", 7778)]),
  ("send_msg", [("message", -22)]),
  ("m_mod_ps_subscribe", base3 ++ [("!(mod->flags & M_MOD_DENY_SUB)", -1), ("topic", -22), ("let prio_flags = (flags & ((M_SRC_PRIO_HIGH << 1) - 1))", 7777), ("((prio_flags == 0) || (__builtin_popcount(prio_flags) == 1))", -22)]),
  ("m_mod_ps_unsubscribe", base3 ++ [("!(mod->flags & M_MOD_DENY_SUB)", -1), ("topic", -22)] ++ [tok]),
  ("m_mod_ps_tell", base3 ++ [("!(mod->flags & M_MOD_DENY_PUB)", -1), ("recipient", -22), ("(mod->ctx == recipient->ctx)", -22)] ++ [tok] ++ [("return send_msg", 7778)]),
  ("m_mod_ps_publish", base3 ++ [("!(mod->flags & M_MOD_DENY_PUB)", -1), ("!is_system_message(topic)", -1)] ++ [tok] ++ [("return send_msg", 7778)]),
  ("m_mod_ps_poisonpill", base3 ++ [("!(mod->flags & M_MOD_DENY_PUB)", -1), ("recipient", -22), ("(mod->ctx == recipient->ctx)", -22), ("m_mod_is(recipient, M_MOD_RUNNING)", -22)] ++ [tok] ++ [("return tell_system_pubsub_msg", 7778)]),
  ("init_src", [("do (mod->srcs[t] = m_bst_new(src_cmp_map[t], mem_dtor))", 7777), ("mod->srcs[t]", -12)]),
  ("add_mod_src", [("let prio_flags = (flags & ((M_SRC_PRIO_HIGH << 1) - 1))", 7777), ("((prio_flags == 0) || (__builtin_popcount(prio_flags) == 1))", -22)]),
  ("register_mod_src", base3 ++ [("(mod->tb.tokens > 0)", -11), ("return add_mod_src", 7778)]),
  ("rm_mod_src", [("(m_bst_len(mod->srcs[type]) > 0)", -22), ("let key = ", 7777), ("do key_src(&key, type, src_data, flags, userptr)", 7777), ("let src = m_bst_find(mod->srcs[type], &key)", 7777), ("src", -2), ("return m_bst_remove", 7778)]),
  ("deregister_mod_src", base3 ++ [("(mod->tb.tokens > 0)", -11), ("return rm_mod_src", 7778)]),
  ("m_mod_src_register_fd", [("(fd >= 0)", -22), ("let prio_flags = (flags & ((M_SRC_PRIO_HIGH << 1) - 1))", 7777), ("((prio_flags == 0) || (prio_flags == M_SRC_PRIO_HIGH))", -22), ("return register_mod_src", 7778)]),
  ("m_mod_src_deregister_fd", [("(fd >= 0)", -22), ("return deregister_mod_src", 7778)]),
  ("m_mod_src_register_tmr", [("(its && (its->ns > 0))", -22), ("return register_mod_src", 7778)]),
  ("m_mod_src_deregister_tmr", [("(its && (its->ns > 0))", -22), ("return deregister_mod_src", 7778)]),
  ("m_mod_src_register_sgn", [("(sgs && (sgs->signo > 0))", -22), ("return register_mod_src", 7778)]),
  ("m_mod_src_deregister_sgn", [("(sgs && (sgs->signo > 0))", -22), ("return deregister_mod_src", 7778)]),
  ("m_mod_src_register_path", [("pt", -22), ("str_not_empty(pt->path)", -22), ("(pt->events > 0)", -22), ("return register_mod_src", 7778)]),
  ("m_mod_src_deregister_path", [("pt", -22), ("str_not_empty(pt->path)", -22), ("return deregister_mod_src", 7778)]),
  ("m_mod_src_register_pid", [("(pid && (pid->pid > 0))", -22), ("return register_mod_src", 7778)]),
  ("m_mod_src_deregister_pid", [("(pid && (pid->pid > 0))", -22), ("return deregister_mod_src", 7778)]),
  ("m_mod_src_register_task", [("(tid && tid->fn)", -22), ("return register_mod_src", 7778)]),
  ("m_mod_src_deregister_task", [("tid", -22)]),
  ("m_mod_src_register_thresh", [("(thr && ((thr->activity_freq > 0) || (thr->inactive_ms > 0)))", -22), ("return register_mod_src", 7778)]),
  ("m_mod_src_deregister_thresh", [("(thr && ((thr->activity_freq > 0) || (thr->inactive_ms > 0)))", -22), ("return deregister_mod_src", 7778)]),
  ("m_mod_src_len", base3 ++ [("((type >= M_SRC_TYPE_PS) && (type <= M_SRC_TYPE_END))", -22)]),
  ("m_mod_become", [("new_on_evt", -22), ("mod", -22), ("!m_mod_is(mod, M_MOD_ZOMBIE)", -13), ("(mod->ctx == m_ctx())", -1), ("m_mod_is(mod, M_MOD_RUNNING)", -13)] ++ [tok] ++ [("return m_stack_push", 7778)]),
  ("m_mod_unbecome", base3 ++ [("m_mod_is(mod, M_MOD_RUNNING)", -13)] ++ [tok] ++ [("do mod->tb.tokens--", 7777), ("do fetch_ms(&mod->stats.last_seen, &mod->stats.action_ctr)", 7777), ("!(m_stack_pop(mod->recvs) != 0)", 0)]),
  ("m_mod_stash", base3 ++ [("m_mod_is(mod, M_MOD_RUNNING)", -13), ("evt", -22)] ++ [tok]),
  ("m_mod_unstash", base3 ++ [("m_mod_is(mod, M_MOD_RUNNING)", -13), ("(len > 0)", -22)] ++ [tok] ++ [("do mod->tb.tokens--", 7777), ("do fetch_ms(&mod->stats.last_seen, &mod->stats.action_ctr)", 7777), ("let unstashed = m_queue_new(mem_dtor)", 7777), ("unstashed", -12)]),
  ("m_mod_set_batch_size", base3 ++ [("(mod->tb.tokens > 0)", -11)]),
  ("m_mod_set_batch_timeout", base3 ++ [("(mod->tb.tokens > 0)", -11)])
]

/-- the part of every guard list that concerns thread confinement (C14): handle checks, the comparison of the module's
context with the calling thread's, the comparison of sender and recipient contexts, and delegations -/
def ownership (tbl : List (String × List (String × Int))) : List (String × List (String × Int)) :=
  tbl.map fun p => (p.1, p.2.filter fun g =>
    g.2 == 7778 || ["mod", "!m_mod_is(mod, M_MOD_ZOMBIE)", "(mod->ctx == m_ctx())", "(mod->ctx == recipient->ctx)", "recipient",
      "*mod", "!m_mod_is(*mod, M_MOD_ZOMBIE)", "(*mod->ctx == m_ctx())", "(c == m_ctx())",
      "ref", "!m_mod_is(ref, M_MOD_ZOMBIE)", "(ref->ctx == m_ctx())"].contains g.1)

/-- the guard lists of the named functions (per-property slices: a property's obligation mentions only the entry points it is about) -/
def slice (tbl : List (String × List (String × Int))) (names : List String) : List (String × List (String × Int)) :=
  tbl.filter fun p => names.contains p.1

/-- the numeric codes the model uses are the ones of the headers -/
theorem codes_as_modelled :
    (-EPERM, -ENOENT, -EAGAIN, -EACCES, -EEXIST, -EINVAL, -EPIPE) =
      (Lm.Core.EPERM, Lm.Core.ENOENT, Lm.Core.EAGAIN, Lm.Core.EACCES, Lm.Core.EEXIST, Lm.Core.EINVAL, Lm.Core.EPIPE) := by decide

/-- state and flag bits are distinct single bits, as the mask tests of the model assume -/
theorem state_bits : [M_MOD_IDLE, M_MOD_RUNNING, M_MOD_PAUSED, M_MOD_STOPPED, M_MOD_ZOMBIE] = [1, 2, 4, 8, 16] := by decide

end Lm.Inst.CoreTie
