/-!
# Linked chains with node identities (shared by the models of `queue.c`, `stack.c`, `list.c`)

All three containers of `Lib/structs` are singly linked chains

    head ─▶ n₀ ─▶ n₁ ─▶ … ─▶ NULL          (`prev` in queue/stack, `next` in the list)

plus auxiliary pointers: the queue's `tail`, and in every iterator a pointer `elem` *to a link*
(`&q->head` or `&n->prev`).  The model keeps the nodes reachable from `head` as a `List Node` in
chain order and represents every auxiliary pointer the way the C code has it, as an *identity*:

* `tail : Option NodeId`  — the node `q->tail` points at (it need not be the last one, it need not
  even be in the chain: the model says what `enqueue`/`dequeue` do in those cases too);
* `Link.head | Link.after n` — the link an iterator points at.  A link is resolved against the
  current chain on every use (`linkPos`), exactly as the C code dereferences `*itr->elem` on every
  use; a link living in a node that is no longer in the chain is a dangling pointer (`fault`).

Scope of the model: one container handle and at most one live iterator handle per history (the C
API allows several iterators on one container; they are independent objects and each one alone is
what the theorems speak about).  `len` is a `Nat` and `len--` is truncated subtraction: the C field
is a `size_t`, the difference only shows when `len` is already wrong (`len = 0` with a non-empty
chain), which the well-formedness theorem excludes.  `-ENOMEM` paths are not modelled (the
allocator of the harness does not fail).

Node identities are handed out by an allocation counter (`fresh`).  User data are fake pointers
`Val = Nat`, `0` is `NULL`.  Destructor calls and the element an iterator is positioned on after
`new`/`next` are output events (`St.log`).
-/
namespace Lm.Struct

abbrev NodeId := Nat
abbrev Val := Nat

structure Node where
  id  : Nat          -- NodeId
  val : Nat          -- Val
  deriving DecidableEq, Repr

abbrev Chain := List Node

inductive Link
  | head
  | after (n : NodeId)
  deriving DecidableEq, Repr

/-- the node whose link field a link pointer points into (`container_of(elem, queue_elem, prev)`),
`none` for `&q->head` -/
def Link.owner : Link → Option NodeId
  | .head => none
  | .after n => some n

/-- index of the node with identity `n` -/
def posOf (n : NodeId) : Chain → Option Nat
  | [] => none
  | x :: xs => if x.id = n then some 0 else (posOf n xs).map (· + 1)

/-- index (in the chain) of the node a link points at: `*link == chain[linkPos]`, `NULL` when the
index is the chain length.  `none`: the link lives in a node that is not in the chain. -/
def linkPos (c : Chain) : Link → Option Nat
  | .head => some 0
  | .after n => (posOf n c).map (· + 1)

/-- `*link = (*link)->next` : unlink the node at index `p` -/
def eraseAt (c : Chain) (p : Nat) : Chain := c.take p ++ c.drop (p + 1)

/-- `node->next = *link; *link = node` : link a node in at index `p` -/
def insertAt (c : Chain) (p : Nat) (nd : Node) : Chain := c.take p ++ nd :: c.drop p

/-- `(*link)->userptr = v` -/
def setAt (c : Chain) (p : Nat) (v : Val) : Chain :=
  match c[p]? with
  | some nd => c.set p { nd with val := v }
  | none => c

def ids (c : Chain) : List NodeId := c.map (·.id)
def vals (c : Chain) : List Val := c.map (·.val)

/-- container object (`struct _queue` / `struct _stack` / `struct _list`) -/
structure Cont where
  chain : Chain := []
  len   : Nat := 0               -- the `len` field, maintained by the code (not derived)
  tail  : Option NodeId := none  -- queue only
  dtor  : Bool := false          -- a destructor was supplied
  cmp   : Bool := false          -- list only: a comparator was supplied
  fresh : Nat := 0               -- allocation counter (ghost): next NodeId
  deriving DecidableEq, Repr

/-- iterator object (`struct _queue_itr` / `_stack_itr` / `_list_itr`) -/
structure Itr where
  elem    : Link
  removed : Bool := false        -- queue, stack
  diff    : Int := 0             -- list
  deriving DecidableEq, Repr

inductive Ev
  | dtor (v : Val)                 -- the element destructor was called with `v`
  | cur (nd : Option Node)         -- element the iterator is on after `itr_new` / `itr_next`
  | cb (vs : List Val)             -- values handed to the callback of `m_*_iterate`
  deriving DecidableEq, Repr

inductive Ret
  | int (i : Int)                  -- return code / length
  | ptr (v : Val)                  -- user pointer, `0` = NULL
  | handle (ok : Bool)             -- iterator returned by `itr_new` (NULL or not)
  deriving DecidableEq, Repr

/-- one container handle and one iterator handle, as held by the caller (`none` = NULL) -/
structure St where
  obj   : Option Cont := none
  itr   : Option Itr := none
  log   : List Ev := []
  fault : Bool := false          -- the C code would dereference NULL / a freed node here
  deriving DecidableEq, Repr

def EINVAL : Int := -22
def ENOENT : Int := -2

def St.crash (s : St) : St := { s with fault := true }

/-- `if (dtor) dtor(v)` -/
def callDtor (d : Bool) (log : List Ev) (v : Val) : List Ev := if d then log ++ [Ev.dtor v] else log

/-! ## Functions that are the same text in `queue.c` and `stack.c`

`m_queue_len`/`m_stack_len`, `…_itr_new`, `…_itr_next`, `…_itr_get_data`, `…_itr_set_data`,
`…_iterate`, `…_peek` are word for word the same in both files; `…_itr_remove` differs only in the
queue's tail update, which is dead code for a stack (a stack never has a `tail`). -/

/-- `m_*_len` -/
def cLen : Option Cont → Int
  | none => EINVAL
  | some q => q.len

/-- `m_*_itr_new` (the caller's old iterator handle is overwritten) -/
def itrNew (s : St) : St × Ret :=
  if cLen s.obj > 0 then ({ s with itr := some { elem := .head } }, .handle true)
  else ({ s with itr := none }, .handle false)

/-- `m_queue_itr_next` / `m_stack_itr_next` -/
def itrNext (s : St) : St × Ret :=
  match s.itr, s.obj with
  | none, _ => (s, .int EINVAL)
  | some _, none => (s.crash, .int 0)
  | some it, some q =>
    match linkPos q.chain it.elem with
    | none => (s.crash, .int 0)
    | some p =>
      if !it.removed then
        -- i->elem = &(*i->elem)->prev;
        match q.chain[p]? with
        | none => (s.crash, .int 0)
        | some nd =>
          -- if (!*i->elem) { free(*itr); *itr = NULL; }
          if (q.chain[p + 1]?).isNone then ({ s with itr := none }, .int 0)
          else ({ s with itr := some { it with elem := .after nd.id } }, .int 0)
      else
        -- i->removed = false;
        if (q.chain[p]?).isNone then ({ s with itr := none }, .int 0)
        else ({ s with itr := some { it with removed := false } }, .int 0)

/-- `m_queue_itr_remove` (after the D-12a fix) / `m_stack_itr_remove` -/
def itrRemove (s : St) : St × Ret :=
  match s.itr, s.obj with
  | none, _ => (s, .int EINVAL)
  | some it, obj =>
    if it.removed then (s, .int EINVAL) else
    match obj with
    | none => (s.crash, .int 0)
    | some q =>
      match linkPos q.chain it.elem with
      | none => (s.crash, .int 0)
      | some p =>
        match q.chain[p]? with
        | none => (s, .int ENOENT)
        | some tmp =>
          -- *itr->elem = (*itr->elem)->prev; dtor; if (tmp == tail) tail = <predecessor or NULL>; len--
          let tail' := if q.tail = some tmp.id then it.elem.owner else q.tail
          ({ s with obj := some { q with chain := eraseAt q.chain p, tail := tail', len := q.len - 1 },
                    itr := some { it with removed := true },
                    log := callDtor q.dtor s.log tmp.val }, .int 0)

/-- `m_queue_itr_get_data` / `m_stack_itr_get_data` -/
def itrGet (s : St) : St × Ret :=
  match s.itr, s.obj with
  | none, _ => (s, .ptr 0)
  | some it, obj =>
    if it.removed then (s, .ptr 0) else
    match obj with
    | none => (s.crash, .ptr 0)
    | some q =>
      match linkPos q.chain it.elem with
      | none => (s.crash, .ptr 0)
      | some p =>
        match q.chain[p]? with
        | none => (s.crash, .ptr 0)
        | some nd => (s, .ptr nd.val)

/-- `m_queue_itr_set_data` / `m_stack_itr_set_data` -/
def itrSet (s : St) (v : Val) : St × Ret :=
  match s.itr, s.obj with
  | none, _ => (s, .int EINVAL)
  | some it, obj =>
    if it.removed then (s, .int EINVAL) else
    if v = 0 then (s, .int EINVAL) else
    match obj with
    | none => (s.crash, .int 0)
    | some q =>
      match linkPos q.chain it.elem with
      | none => (s.crash, .int 0)
      | some p =>
        match q.chain[p]? with
        | none => (s.crash, .int 0)
        | some _ => ({ s with obj := some { q with chain := setAt q.chain p v } }, .int 0)

/-- `m_*_iterate` with a callback that returns 1 when it is handed the element of index `stop`
(and 0 otherwise): the values the callback accepted are an output event. -/
def iterate (s : St) (stop : Option Nat) : St × Ret :=
  if cLen s.obj > 0 then
    match s.obj with
    | some q =>
      let vs := match stop with
        | some k => (vals q.chain).take k
        | none => vals q.chain
      ({ s with log := s.log ++ [Ev.cb vs] }, .int 0)
    | none => (s, .int EINVAL)
  else (s, .int EINVAL)

/-- `m_queue_peek` / `m_stack_peek` -/
def peek (s : St) : St × Ret :=
  if cLen s.obj > 0 then
    match s.obj with
    | some q =>
      match q.chain with
      | hd :: _ => (s, .ptr hd.val)
      | [] => (s.crash, .ptr 0)
    | none => (s, .ptr 0)
  else (s, .ptr 0)

/-- the harness prints the element the iterator is on after `itr_new`/`itr_next` through
`m_*_itr_get_data` (this is the element a `for (itr = new; itr; next(&itr))` body works on) -/
def noteCur (r : St × Ret) : St × Ret :=
  match r.1.itr, r.1.obj with
  | some it, some q =>
    if r.1.fault then r else
    match linkPos q.chain it.elem with
    | none => (r.1.crash, r.2)
    | some p =>
      match q.chain[p]? with
      | none => (r.1.crash, r.2)
      | some nd => ({ r.1 with log := r.1.log ++ [Ev.cur (some nd)] }, r.2)
  | _, _ => r

end Lm.Struct
