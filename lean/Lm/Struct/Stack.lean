import Lm.Struct.Chain
/-!
# Model of `Lib/structs/stack.c`

`data` (top of the stack) is the first node of `chain`.  The iterator functions are in
`Lm.Struct.Chain` (same text as in `queue.c`; a stack has no `tail`, the field stays `none`).
-/
namespace Lm.Struct.Stack
open Lm.Struct

/-- `m_stack_new(fn)` -/
def new (dtor : Bool) : St := { obj := some { dtor := dtor } }

/-- `m_stack_push` -/
def push (s : St) (v : Val) : St × Ret :=
  match s.obj with
  | none => (s, .int EINVAL)
  | some q =>
    if v = 0 then (s, .int EINVAL) else
    -- elem->prev = s->data; s->data = elem;
    ({ s with obj := some { q with chain := ⟨q.fresh, v⟩ :: q.chain, len := q.len + 1, fresh := q.fresh + 1 } }, .int 0)

/-- `m_stack_pop` -/
def pop (s : St) : St × Ret :=
  if cLen s.obj > 0 then
    match s.obj with
    | none => (s, .ptr 0)
    | some q =>
      match q.chain with
      | [] => (s.crash, .ptr 0)                    -- `s->data->prev` with data == NULL
      | hd :: rest => ({ s with obj := some { q with chain := rest, len := q.len - 1 } }, .ptr hd.val)
  else (s, .ptr 0)

/-- `m_stack_remove` -/
def remove (s : St) : St × Ret :=
  match pop s with
  | (s', .ptr data) =>
    if data ≠ 0 then
      match s'.obj with
      | some q => ({ s' with log := callDtor q.dtor s'.log data }, .int 0)
      | none => (s'.crash, .int 0)
    else (s', .int EINVAL)
  | (s', _) => (s', .int EINVAL)

/-- `while (s->len > 0) m_stack_remove(s);` -/
def clearLoop : Nat → St → St
  | 0, s => s
  | n + 1, s => if s.fault then s else if cLen s.obj > 0 then clearLoop n (remove s).1 else s

/-- `m_stack_clear` (an empty stack is fine, unlike `m_queue_clear`) -/
def clear (s : St) : St × Ret :=
  match s.obj with
  | some q => (clearLoop q.len s, .int 0)
  | none => (s, .int EINVAL)

/-- `m_stack_free(&s)`: frees only if `m_stack_clear` succeeded (a NULL handle gives -EINVAL) -/
def free (s : St) : St × Ret :=
  match clear { s with itr := none } with
  | (s1, .int 0) => ({ s1 with obj := none }, .int 0)
  | (s1, r) => (s1, r)

inductive Op
  | push (v : Val) | pop | peek | rm | len | clear | free | iterate (stop : Option Nat)
  | itNew | itNext | itGet | itSet (v : Val) | itRm
  deriving DecidableEq, Repr

def step (s : St) : Op → St × Ret
  | .push v => push s v
  | .pop => pop s
  | .peek => peek s
  | .rm => remove s
  | .len => (s, .int (cLen s.obj))
  | .clear => clear s
  | .free => free s
  | .iterate k => iterate s k
  | .itNew => noteCur (itrNew s)
  | .itNext => noteCur (itrNext s)
  | .itGet => itrGet s
  | .itSet v => itrSet s v
  | .itRm => itrRemove s

def Op.mutates : Op → Bool
  | .push _ | .pop | .rm | .clear => true
  | _ => false

/-- API precondition (iterator invalidation): while an iterator is live the container is modified
only through it. -/
def okOp (s : St) (o : Op) : Bool := !(o.mutates && s.itr.isSome)

def run (s : St) (ops : List Op) : St := ops.foldl (fun s o => (step s o).1) s

/-- the value returned by every call of a history -/
def trace (s : St) : List Op → List Ret
  | [] => []
  | o :: os => (step s o).2 :: trace (step s o).1 os

def okRun : St → List Op → Bool
  | _, [] => true
  | s, o :: os => okOp s o && okRun (step s o).1 os

end Lm.Struct.Stack
