/-!
# Model of `Lib/structs/bst.c` (property C11), as the code is after the two `fix:` commits

* A tree is `nil | node id l v r`.  Node identities (`id`, the address of the `bst_node`) matter: the
  two-children case of `remove_node` moves the successor's value into the surviving node and frees
  the *successor's* node.  Values (`Val`) are the user pointers, as unsigned integers; the set never
  dereferences them.  Parent pointers are not stored: `node->parent` is read off the shape
  (`derefIn`), which is what the C code maintains (`insert_node`, the splice in `remove_node`).
* The comparator `cmp : Val → Val → Int` is a parameter of everything that searches
  (`l->comp(data, (*tmp)->userptr)`: key first, element second).  The default comparator is *not*
  written here: `ptrcmp` is regenerated from the C source into `Lm.Generated.Bst` (tie A).
* `bst_find`'s loop `while (*tmp)` is structural recursion on the subtree `*tmp`.
* The iterator is kept as the C keeps it: `curr` is a pointer to a *link* (`&l->root`, `&n->left`,
  `&n->right`, `&n->parent`), `prev` a node, `removed` a flag.  `bst_next` is computed from the shape
  (`nextLink`): right subtree → `find_min_subtree(&n->right)`, else the parent-pointer walk, which
  ends on `&top->parent` for the topmost node `top` of the right spine it climbed.
* Destructor calls are output events carrying the value the destructor receives
  (`node->userptr` of the node being freed, at the time of the call).
-/
namespace Lm.Struct.Bst

abbrev Val := Nat

inductive Tree where
  | nil : Tree
  | node (id : Nat) (l : Tree) (v : Val) (r : Tree) : Tree
  deriving Repr, DecidableEq, Inhabited

namespace Tree

def isNil : Tree → Bool
  | nil => true
  | node .. => false

/-- identity of the node a non-NULL pointer to this (sub)tree points at -/
def rootId : Tree → Option Nat
  | nil => none
  | node id .. => some id

/-- `traverse_inorder` without early stop -/
def inorder : Tree → List Val
  | nil => []
  | node _ l v r => inorder l ++ v :: inorder r

/-- `traverse_preorder` without early stop -/
def preorder : Tree → List Val
  | nil => []
  | node _ l v r => v :: (preorder l ++ preorder r)

/-- `traverse_postorder` without early stop -/
def postorder : Tree → List Val
  | nil => []
  | node _ l v r => postorder l ++ (postorder r ++ [v])

/-- node identities in in-order -/
def ids : Tree → List Nat
  | nil => []
  | node id l _ r => ids l ++ id :: ids r

/-- (identity, value) in in-order -/
def inorderN : Tree → List (Nat × Val)
  | nil => []
  | node id l v r => inorderN l ++ (id, v) :: inorderN r

def size : Tree → Nat
  | nil => 0
  | node _ l _ r => size l + 1 + size r

end Tree
open Tree

/-! ## Search, insert, remove -/

/-- `m_bst_find`: `bst_find` descends by `cmp`; returns the element stored in the node it stops at. -/
def find (cmp : Val → Val → Int) (v : Val) : Tree → Option Val
  | .nil => none
  | .node _ l x r =>
    let c := cmp v x
    if c = 0 then some x
    else if c > 0 then find cmp v r
    else find cmp v l

/-- `m_bst_insert` after the parameter checks: `bst_find`; a non-NULL `*node` is `-EEXIST` (`none`);
otherwise `insert_node` hangs a fresh node (identity `newId`) on the link the search ended on. -/
def insert (cmp : Val → Val → Int) (newId : Nat) (v : Val) : Tree → Option Tree
  | .nil => some (.node newId .nil v .nil)
  | .node id l x r =>
    let c := cmp v x
    if c = 0 then none
    else if c > 0 then (insert cmp newId v r).map (fun r' => .node id l x r')
    else (insert cmp newId v l).map (fun l' => .node id l' x r)

/-- result of a successful `remove_node` -/
structure Rm where
  tree  : Tree    -- what the link points at afterwards
  freed : Nat     -- identity of the node handed to `_free`
  dval  : Val     -- `node->userptr` of that node when the destructor is called
  deriving Repr, DecidableEq

def Rm.wrapL (rm : Rm) (id : Nat) (x : Val) (r : Tree) : Rm := { rm with tree := .node id rm.tree x r }
def Rm.wrapR (rm : Rm) (id : Nat) (l : Tree) (x : Val) : Rm := { rm with tree := .node id l x rm.tree }

/-- Two-children case of `remove_node` below the node: `tmp = find_min_subtree(&node->right)` walks
down the left spine; the left-most node's value `m` goes up into `node`, the removed value `x` goes
into the left-most node (the swap), and `remove_node(l, tmp)` splices that node out (it has no left
child: `*elem = node->right`), calls the destructor on its `userptr` — now `x` — and frees it.
Returns `(m, result)`. -/
def removeMinSwapped (x : Val) : Tree → Option (Val × Rm)
  | .nil => none
  | .node id .nil m r => some (m, { tree := r, freed := id, dval := x })
  | .node id (.node i2 l2 v2 r2) v r =>
    (removeMinSwapped x (.node i2 l2 v2 r2)).map (fun p => (p.1, p.2.wrapL id v r))

/-- `remove_node(l, elem)` where `*elem` is this subtree; `none` is `-ENOENT`. -/
def removeNode : Tree → Option Rm
  | .nil => none
  | .node id l v r =>
    if l.isNil || r.isNil then
      some { tree := if !l.isNil then l else r, freed := id, dval := v }
    else
      (removeMinSwapped v r).map (fun p => { p.2 with tree := .node id l p.1 p.2.tree })

/-- `m_bst_remove` after the parameter checks: `bst_find`, then `remove_node` on the link found. -/
def removeKey (cmp : Val → Val → Int) (v : Val) : Tree → Option Rm
  | .nil => none
  | .node id l x r =>
    let c := cmp v x
    if c = 0 then removeNode (.node id l x r)
    else if c > 0 then (removeKey cmp v r).map (·.wrapR id l x)
    else (removeKey cmp v l).map (·.wrapL id x r)

/-! ## Links (what `bst_node **` values can be) -/

inductive Link where
  | root                -- `&l->root`
  | left (n : Nat)      -- `&n->left`
  | right (n : Nat)     -- `&n->right`
  | parent (n : Nat)    -- `&n->parent`
  deriving Repr, DecidableEq, Inhabited

/-- what the field named by a link that lives in the node `id` contains, for the node
`node id l _ r` whose parent is `up` -/
def fieldOf (up : Option Nat) (id : Nat) (l r : Tree) : Link → Option (Option Nat)
  | .left n => if n = id then some l.rootId else none
  | .right n => if n = id then some r.rootId else none
  | .parent n => if n = id then some up else none
  | .root => none

/-- `*link` for a link that lives inside a node of `t` (`up` = parent of `t`'s root).  Outer `none`:
no such node in `t` (a dangling pointer if `t` is the whole tree). -/
def derefIn (up : Option Nat) : Tree → Link → Option (Option Nat)
  | .nil, _ => none
  | .node id l _ r, lk =>
    match fieldOf up id l r lk with
    | some x => some x
    | none =>
      match derefIn (some id) l lk with
      | some x => some x
      | none => derefIn (some id) r lk

/-- `*link` in the whole tree -/
def deref (t : Tree) : Link → Option (Option Nat)
  | .root => some t.rootId
  | lk => derefIn none t lk

/-- `node->userptr` of the node with identity `n` -/
def valOf (n : Nat) : Tree → Option Val
  | .nil => none
  | .node id l v r =>
    if id = n then some v
    else match valOf n l with
      | some x => some x
      | none => valOf n r

/-- `find_min_subtree(link)` where `*link` is this (non-empty) subtree -/
def minLink (link : Link) : Tree → Link
  | .nil => link
  | .node _ .nil _ _ => link
  | .node id (.node i2 l2 v2 r2) _ _ => minLink (.left id) (.node i2 l2 v2 r2)

/-- `bst_next` on a link whose target is the node `n`: if `n` has a right subtree,
`find_min_subtree(&n->right)`; otherwise the walk up the parent pointers while the node is its
parent's right child, which ends on `&top->parent` where `top` is the topmost node of that right
spine (`top` is threaded through the descent: it is reset when the path turns left). -/
def nextLinkAux (n : Nat) : Nat → Tree → Option Link
  | _, .nil => none
  | top, .node id l _ r =>
    if id = n then
      (if r.isNil then some (.parent top) else some (minLink (.right id) r))
    else
      match nextLinkAux n (l.rootId.getD 0) l with
      | some k => some k
      | none => nextLinkAux n top r

def nextLink (t : Tree) (n : Nat) : Option Link := nextLinkAux n (t.rootId.getD 0) t

/-- `remove_node` on the link `&p->left` (`right = false`) or `&p->right` of the node `p` -/
def removeChild (p : Nat) (right : Bool) : Tree → Option Rm
  | .nil => none
  | .node id l x r =>
    if id = p then
      (if right then (removeNode r).map (·.wrapR id l x) else (removeNode l).map (·.wrapL id x r))
    else
      match removeChild p right l with
      | some rm => some (rm.wrapL id x r)
      | none => (removeChild p right r).map (·.wrapR id l x)

/-- `remove_node(l, link)` for the links the code passes (never a `&n->parent` link) -/
def removeAt (t : Tree) : Link → Option Rm
  | .root => removeNode t
  | .left p => removeChild p false t
  | .right p => removeChild p true t
  | .parent _ => none

/-- the normalisation in `m_bst_itr_remove`: from the current node `s` to the link through which
its parent (or the set) reaches it.  `none`: a pointer involved dangles. -/
def canonLink (t : Tree) (s : Nat) : Option Link :=
  match deref t (.parent s) with
  | none => none
  | some none => some .root
  | some (some p) =>
    match deref t (.right p) with
    | none => none
    | some x => if x = some s then some (.right p) else some (.left p)

/-! ## The set, the iterator, the API -/

structure Bst where
  root   : Tree := .nil
  len    : Nat := 0
  dtor   : Bool := false
  nextId : Nat := 0          -- allocation counter: identity of the next node
  deriving Repr, DecidableEq

structure Itr where
  curr    : Link
  prev    : Option Nat := none
  removed : Bool := false
  deriving Repr, DecidableEq

inductive Ev where
  | dtor (v : Val)               -- destructor called with this value
  | ret (c : Int)                -- integer return value
  | ptr (v : Option Val)         -- pointer return value (`m_bst_find`, `m_bst_itr_get_data`)
  | seq (vs : List Val)          -- values handed to a traversal callback, in order
  | handle (live : Bool)         -- iterator / set handle non-NULL afterwards
  deriving Repr, DecidableEq

def EEXIST : Int := 17
def ENOENT : Int := 2
def EINVAL : Int := 22

def dtorEv (b : Bst) (v : Val) : List Ev := if b.dtor then [.dtor v] else []

/-- bookkeeping shared by every successful `remove_node`: destructor, `l->len--` -/
def applyRm (b : Bst) (rm : Rm) : Bst × List Ev :=
  ({ b with root := rm.tree, len := b.len - 1 }, dtorEv b rm.dval)

def bstInsert (cmp : Val → Val → Int) (b : Bst) (v : Val) : Bst × Int :=
  if v = 0 then (b, -EINVAL)
  else match insert cmp b.nextId v b.root with
    | none => (b, -EEXIST)
    | some t => ({ b with root := t, len := b.len + 1, nextId := b.nextId + 1 }, 0)

def bstRemove (cmp : Val → Val → Int) (b : Bst) (v : Val) : Bst × List Ev × Int :=
  if b.len = 0 then (b, [], -EINVAL)
  else if v = 0 then (b, [], -EINVAL)
  else match removeKey cmp v b.root with
    | none => (b, [], -ENOENT)
    | some rm => let (b', e) := applyRm b rm; (b', e, 0)

def bstFind (cmp : Val → Val → Int) (b : Bst) (v : Val) : Option Val :=
  if v = 0 then none else find cmp v b.root

/-- Traversals with a callback that returns `cb i` on the `i`-th element it is given.  The
accumulator is the list of values handed to the callback so far. -/
def travPre (cb : Nat → Int) : Tree → List Val → List Val × Int
  | .nil, acc => (acc, 0)
  | .node _ l v r, acc =>
    let ret := cb acc.length
    let acc := acc ++ [v]
    if ret = 0 then
      let p := travPre cb l acc
      if p.2 = 0 then travPre cb r p.1 else p
    else (acc, ret)

def travPost (cb : Nat → Int) : Tree → List Val → List Val × Int
  | .nil, acc => (acc, 0)
  | .node _ l v r, acc =>
    let p := travPost cb l acc
    if p.2 = 0 then
      let q := travPost cb r p.1
      if q.2 = 0 then (q.1 ++ [v], cb q.1.length) else q
    else p

def travIn (cb : Nat → Int) : Tree → List Val → List Val × Int
  | .nil, acc => (acc, 0)
  | .node _ l v r, acc =>
    let p := travIn cb l acc
    if p.2 = 0 then
      let ret := cb p.1.length
      let acc := p.1 ++ [v]
      if ret = 0 then travIn cb r acc else (acc, ret)
    else p

inductive Order where
  | pre | post | inord
  deriving Repr, DecidableEq

/-- `m_bst_traverse` (and `m_bst_iterate` = pre-order): `ret >= 0 ? 0 : ret` -/
def bstTraverse (b : Bst) (o : Order) (cb : Nat → Int) : List Val × Int :=
  let p := match o with
    | .pre => travPre cb b.root []
    | .post => travPost cb b.root []
    | .inord => travIn cb b.root []
  (p.1, if p.2 ≥ 0 then 0 else p.2)

/-- result of an iterator call: `fault` = the C code would dereference NULL or a dangling pointer -/
structure ItRes where
  set   : Bst
  itr   : Option Itr
  evs   : List Ev := []
  ret   : Int := 0
  fault : Bool := false
  deriving Repr, DecidableEq

/-- `m_bst_itr_new` -/
def itrNew (b : Bst) : ItRes :=
  if b.len = 0 then { set := b, itr := none }
  else if b.root.isNil then { set := b, itr := none, fault := true }   -- find_min_subtree reads NULL->left
  else { set := b, itr := some { curr := minLink .root b.root } }

/-- the tail of `m_bst_itr_next`: `removed = false; if (!*curr) free(itr)` -/
def itrSettle (b : Bst) (curr : Link) (prev : Option Nat) : ItRes :=
  match deref b.root curr with
  | none => { set := b, itr := none, fault := true }
  | some none => { set := b, itr := none }
  | some (some _) => { set := b, itr := some { curr := curr, prev := prev, removed := false } }

/-- `m_bst_itr_next` on a live iterator -/
def itrNext (b : Bst) (it : Itr) : ItRes :=
  if !it.removed then
    match deref b.root it.curr with
    | none => { set := b, itr := none, fault := true }
    | some none => itrSettle b it.curr none          -- bst_next returns its argument when `*node` is NULL
    | some (some s) =>
      match nextLink b.root s with
      | none => { set := b, itr := none, fault := true }
      | some lk => itrSettle b lk (some s)
  else
    match it.prev with
    | some p =>
      match nextLink b.root p with
      | none => { set := b, itr := none, fault := true }
      | some lk => itrSettle b lk it.prev
    | none =>
      if !b.root.isNil then itrSettle b (minLink .root b.root) none
      else itrSettle b .root none

/-- `m_bst_itr_remove` on a live iterator -/
def itrRemove (b : Bst) (it : Itr) : ItRes :=
  if it.removed then { set := b, itr := some it, ret := -EINVAL }
  else match deref b.root it.curr with
    | none => { set := b, itr := some it, fault := true }
    | some none => { set := b, itr := some it, ret := -EINVAL }
    | some (some s) =>
      match canonLink b.root s with
      | none => { set := b, itr := some it, fault := true }
      | some lk =>
        match removeAt b.root lk with
        | none => { set := b, itr := some { it with removed := false }, ret := -ENOENT }
        | some rm =>
          let (b', e) := applyRm b rm
          { set := b', itr := some { it with removed := true }, evs := e, ret := 0 }

/-- `m_bst_itr_get_data` on a live iterator; `none` = fault -/
def itrGet (b : Bst) (it : Itr) : Option (Option Val) :=
  if it.removed then some none
  else match deref b.root it.curr with
    | none => none
    | some none => some none
    | some (some s) =>
      match valOf s b.root with
      | none => none
      | some v => some (some v)

/-- the loop of `m_bst_clear`: `for (itr = m_bst_itr_new(l); itr; m_bst_itr_next(&itr)) m_bst_itr_remove(itr);`
`fuel` bounds the number of rounds; `clearLoop_fuel` shows `len + 1` is never exhausted. -/
def clearLoop : Nat → Bst → Option Itr → List Ev → Bst × List Ev × Bool
  | _, b, none, evs => (b, evs, false)
  | 0, b, some _, evs => (b, evs, true)
  | fuel + 1, b, some it, evs =>
    let r := itrRemove b it
    if r.fault then (r.set, evs ++ r.evs, true)
    else match r.itr with
      | none => (r.set, evs ++ r.evs, true)
      | some it' =>
        let n := itrNext r.set it'
        if n.fault then (n.set, evs ++ r.evs, true)
        else clearLoop fuel n.set n.itr (evs ++ r.evs)

/-- `m_bst_clear` on a non-NULL set: (set, events, return code, fault) -/
def bstClear (b : Bst) : Bst × List Ev × Int × Bool :=
  if b.len = 0 then (b, [], -EINVAL, false)
  else
    let i := itrNew b
    if i.fault then (b, [], 0, true)
    else
      let (b', evs, f) := clearLoop (b.len + 1) b i.itr []
      ({ b' with root := .nil }, evs, 0, f)

/-! ## Scripts: the state the harness holds (set handle, one iterator handle) -/

structure St where
  set   : Option Bst := none      -- `none`: NULL handle (before `new`, after `free`)
  itr   : Option Itr := none
  fault : Bool := false
  deriving Repr, DecidableEq

inductive Op where
  | new (dtor : Bool)
  | ins (v : Val)
  | rm (v : Val)
  | find (v : Val)
  | len
  | clear
  | free
  | trav (o : Order) (stopAt : Option (Nat × Int))
  | itNew | itNext | itGet | itRm
  deriving Repr, DecidableEq

def stopCb : Option (Nat × Int) → Nat → Int
  | none, _ => 0
  | some (i, c), k => if k = i then c else 0

def ofItRes (s : St) (r : ItRes) : St := { set := some r.set, itr := r.itr, fault := s.fault || r.fault }

/-- One script line.  Ops that modify the set other than through the iterator drop the script's
iterator first (in C it would be invalid; the harness frees it). -/
def step (cmp : Val → Val → Int) (s : St) : Op → St × List Ev
  | .new d => ({ set := some { dtor := d }, itr := none, fault := s.fault }, [.handle true])
  | .ins v =>
    match s.set with
    | none => ({ s with itr := none }, [.ret (-EINVAL)])
    | some b => let (b', c) := bstInsert cmp b v; ({ s with set := some b', itr := none }, [.ret c])
  | .rm v =>
    match s.set with
    | none => ({ s with itr := none }, [.ret (-EINVAL)])
    | some b => let (b', e, c) := bstRemove cmp b v; ({ s with set := some b', itr := none }, e ++ [.ret c])
  | .find v =>
    match s.set with
    | none => (s, [.ptr none])
    | some b => (s, [.ptr (bstFind cmp b v)])
  | .len =>
    match s.set with
    | none => (s, [.ret (-EINVAL)])
    | some b => (s, [.ret b.len])
  | .clear =>
    match s.set with
    | none => ({ s with itr := none }, [.ret (-EINVAL)])
    | some b =>
      let (b', e, c, f) := bstClear b
      ({ set := some b', itr := none, fault := s.fault || f }, e ++ [.ret c])
  | .free =>
    match s.set with
    | none => ({ s with itr := none }, [.ret 0, .handle false])
    | some b =>
      let (_, e, _, f) := bstClear b
      ({ set := none, itr := none, fault := s.fault || f }, e ++ [.ret 0, .handle false])
  | .trav o st =>
    match s.set with
    | none => (s, [.seq [], .ret (-EINVAL)])
    | some b => let (vs, c) := bstTraverse b o (stopCb st); (s, [.seq vs, .ret c])
  | .itNew =>
    match s.set with
    | none => ({ s with itr := none }, [.handle false])
    | some b => let r := itrNew b; (ofItRes s r, [.handle r.itr.isSome])
  | .itNext =>
    match s.set, s.itr with
    | some b, some it => let r := itrNext b it; (ofItRes s r, [.ret r.ret, .handle r.itr.isSome])
    | _, _ => (s, [.ret (-EINVAL), .handle false])
  | .itGet =>
    match s.set, s.itr with
    | some b, some it =>
      match itrGet b it with
      | none => ({ s with fault := true }, [.ptr none])
      | some x => (s, [.ptr x])
    | _, _ => (s, [.ptr none])
  | .itRm =>
    match s.set, s.itr with
    | some b, some it => let r := itrRemove b it; (ofItRes s r, r.evs ++ [.ret r.ret])
    | _, _ => (s, [.ret (-EINVAL)])

/-- the state after a script -/
def final (cmp : Val → Val → Int) (s : St) (ops : List Op) : St :=
  ops.foldl (fun s o => (step cmp s o).1) s

/-- the output of a script, line by line -/
def trace (cmp : Val → Val → Int) : St → List Op → List (Op × List Ev)
  | _, [] => []
  | s, o :: os => (o, (step cmp s o).2) :: trace cmp (step cmp s o).1 os

end Lm.Struct.Bst
