/-!
# Model of `Lib/structs/map.c` (property C05)

Open-addressing hash table with linear probing and back-shift deletion, transcribed function by
function from the C source *as it is after the `fix:` commits* (D-05a/b back-shift, D-05c circular
scan, D-05d duplicated key).

* The table is `cells : List (Option (κ × Nat))` (`table_size = cells.length`); a cell is `none`
  when `entry->key == NULL`.  Values are pointer identities (`0` = `NULL`).
* Indices stay **unreduced** naturals; only `slot c i = c[i % n]` reduces (the C code reduces with
  `MAP_SIZE_MOD` at every step; the correspondence check compares the layouts slot by slot).
* Everything that is pure arithmetic in the C source is a field of `Params` and is instantiated with
  the definitions regenerated from the source (`Lm.Generated.Map`) in the driver and in
  `Lm.Props.C05`; the proofs only use the side conditions `Params.Good`.
* Destructor calls and key allocations/releases are output events.
* Loops take the loop bound of the C code as fuel.
-/
namespace Lm.Struct.Map

/-- the pure fragments of `map.c` (regenerated from the source, see `Lm.Generated.Map`) -/
structure Params (κ : Type) where
  /-- `hashmap_calc_index`: table size → key → home slot (`MAP_SIZE_MOD(m, hashmap_hash_string(key))`) -/
  home : Nat → κ → Nat
  /-- `MAP_PROBE_LEN` as a function of the table size -/
  probeLen : Nat → Nat
  /-- `hashmap_table_min_size_calc` -/
  minSize : Nat → Nat
  /-- the back-shift decision of `clear_elem`: size, removed index, index, home of the entry at index -/
  shift : Nat → Nat → Nat → Nat → Bool
  /-- `MAP_SIZE_DEFAULT` -/
  sizeDefault : Nat
  /-- environment: the largest table (in entries) the allocator can deliver; `calloc` of more fails -/
  maxSize : Nat

abbrev Cell (κ : Type) := Option (κ × Nat)

inductive Ev (κ : Type)
  | dtor (v : Nat)
  | kalloc (k : κ)
  | kfree (k : κ)
  deriving Repr, DecidableEq

structure Map (κ : Type) where
  cells : List (Cell κ)
  length : Nat
  dup : Bool        -- M_MAP_KEY_DUP
  autofree : Bool   -- M_MAP_KEY_AUTOFREE (forced by KEY_DUP)
  update : Bool     -- M_MAP_VAL_ALLOW_UPDATE
  dtor : Bool
  /-- environment: the next table allocation fails -/
  oom : Bool := false
  deriving Repr

variable {κ : Type} [DecidableEq κ]

def Map.size (m : Map κ) : Nat := m.cells.length

/-- `&m->table[i & (table_size - 1)]` -/
def slot (c : List (Cell κ)) (i : Nat) : Cell κ := (c[i % c.length]?).join

/-- `m_map_new` -/
def new (P : Params κ) (dup autofree update dtor : Bool) : Map κ :=
  { cells := List.replicate P.sizeDefault none, length := 0, dup := dup, autofree := autofree || dup,
    update := update, dtor := dtor }

/-- the probing loop of `hashmap_entry_find`; `fuel` is `probe_len - i` -/
def findFrom (c : List (Cell κ)) (k : κ) (findEmpty : Bool) : Nat → Nat → Option Nat
  | _, 0 => none
  | s, fuel + 1 =>
    match slot c s with
    | none => if findEmpty then some s else none
    | some (k', _) => if k' = k then some s else findFrom c k findEmpty (s + 1) fuel

/-- `hashmap_entry_find` -/
def entryFind (P : Params κ) (c : List (Cell κ)) (k : κ) (findEmpty : Bool) : Option Nat :=
  findFrom c k findEmpty (P.home c.length k) (P.probeLen c.length)

/-- the `MAP_FOREACH(old_table …)` loop of `hashmap_rehash`; `none` = `goto revert` -/
def rehashFill (P : Params κ) : List (Cell κ) → List (Cell κ) → Option (List (Cell κ))
  | [], t => some t
  | none :: rest, t => rehashFill P rest t
  | some (k, v) :: rest, t =>
    match entryFind P t k true with
    | none => none
    | some i => rehashFill P rest (t.set (i % t.length) (some (k, v)))

/-- `hashmap_rehash` -/
def rehash (P : Params κ) (m : Map κ) : Map κ × Int :=
  if m.oom then ({ m with oom := false }, -12)
  else if P.maxSize < 2 * m.size then (m, -12)
  else match rehashFill P m.cells (List.replicate (2 * m.size) none) with
    | none => (m, -12)
    | some t => ({ m with cells := t }, 0)

/-- the tail of `hashmap_put`, once `entry` is known -/
def store (m : Map κ) (i : Nat) (k : κ) (v : Nat) : Map κ × List (Ev κ) × Int :=
  match slot m.cells i with
  | some (k0, v0) =>
    if m.update then
      ({ m with cells := m.cells.set (i % m.size) (some (k0, v)) },
       if m.dtor && v0 != v then [Ev.dtor v0] else [], 0)
    else (m, [], -1)
  | none => ({ m with cells := m.cells.set (i % m.size) (some (k, v)), length := m.length + 1 }, [], 0)

/-- `hashmap_put` after the load-factor check -/
def hput2 (P : Params κ) (m : Map κ) (k : κ) (v : Nat) : Map κ × List (Ev κ) × Int :=
  match entryFind P m.cells k true with
  | some i => store m i k v
  | none =>
    -- no slot in the probe window: rehash once more
    let r2 := rehash P m
    if r2.2 ≠ 0 then (r2.1, [], r2.2) else
    match entryFind P r2.1.cells k true with
    | some i => store r2.1 i k v
    | none => (r2.1, [], -12)

/-- `hashmap_put` -/
def hput (P : Params κ) (m : Map κ) (k : κ) (v : Nat) : Map κ × List (Ev κ) × Int :=
  let r1 := if m.size ≤ P.minSize m.length then rehash P m else (m, 0)
  if r1.2 ≠ 0 then (r1.1, [], r1.2) else hput2 P r1.1 k v

/-- `m_map_put` (`v = 0` is the `NULL` value).  With `KEY_DUP` the library makes a private copy of
the key (`kalloc`) and releases it again when no new entry was created.  With `KEY_AUTOFREE` alone it
is the *caller* who hands over a heap copy and keeps (here: releases) it when the map did not take
it: the same two events, issued by the harness. -/
def put (P : Params κ) (m : Map κ) (k : κ) (v : Nat) : Map κ × List (Ev κ) × Int :=
  if v = 0 then (m, [], -22)
  else if !(m.dup || m.autofree) then hput P m k v
  else
    let r := hput P m k v
    let notStored := r.2.2 ≠ 0 || r.1.length == m.length
    (r.1, [Ev.kalloc k] ++ r.2.1 ++ (if notStored then [Ev.kfree k] else []), r.2.2)

/-- `m_map_get` -/
def get (P : Params κ) (m : Map κ) (k : κ) : Option Nat :=
  if m.length = 0 then none
  else match entryFind P m.cells k false with
    | none => none
    | some i => (slot m.cells i).map (·.2)

/-- `m_map_contains` -/
def contains (P : Params κ) (m : Map κ) (k : κ) : Bool := (get P m k).isSome

/-- the back-shift loop of `clear_elem`.  The C code copies the entry into the hole and leaves the
copy behind as the new hole (cleared at the end, never read in between because the loop makes fewer
than `table_size` steps); the model clears it at once. -/
def backshift (P : Params κ) (n : Nat) : Nat → List (Cell κ) → Nat → Nat → List (Cell κ)
  | 0, c, _, _ => c
  | fuel + 1, c, hole, idx =>
    match slot c idx with
    | none => c
    | some (k, v) =>
      if P.shift n (hole % n) (idx % n) (P.home n k) then
        backshift P n fuel ((c.set (hole % n) (some (k, v))).set (idx % n) none) idx (idx + 1)
      else backshift P n fuel c hole (idx + 1)

/-- `clear_elem` on the (occupied) slot `i` -/
def clearElem (P : Params κ) (m : Map κ) (i : Nat) : Map κ × List (Ev κ) :=
  match slot m.cells i with
  | none => (m, [])          -- callers only pass occupied slots
  | some (k, v) =>
    ({ m with cells := backshift P m.size (m.size - 1) (m.cells.set (i % m.size) none) i (i + 1),
              length := m.length - 1 },
     (if m.autofree then [Ev.kfree k] else []) ++ (if m.dtor then [Ev.dtor v] else []))

/-- `m_map_remove` -/
def remove (P : Params κ) (m : Map κ) (k : κ) : Map κ × List (Ev κ) × Int :=
  if m.length = 0 then (m, [], -22)
  else match entryFind P m.cells k false with
    | none => (m, [], -2)
    | some i => let r := clearElem P m i; (r.1, r.2, 0)

/-! ## Iterator -/

structure Itr where
  pos : Nat        -- `index` (unreduced)
  stop : Nat       -- `end`
  removed : Bool
  deriving Repr, DecidableEq

/-- `hashmap_first_empty` -/
def firstEmpty : List (Cell κ) → Nat
  | [] => 0
  | none :: _ => 0
  | some _ :: r => firstEmpty r + 1

/-- `for (; index < end; index++) if (table[index mod size].key) break;` with `fuel = end - index` -/
def scan (c : List (Cell κ)) : Nat → Nat → Option Nat
  | 0, _ => none
  | fuel + 1, p =>
    match slot c p with
    | some _ => some p
    | none => scan c fuel (p + 1)

/-- `m_map_itr_new` (with the first `m_map_itr_next`) -/
def itrNew (m : Map κ) : Option Itr :=
  if m.length = 0 then none
  else
    let s := firstEmpty m.cells
    match scan m.cells (m.size - 1) (s + 1) with
    | some p => some { pos := p, stop := s + m.size, removed := false }
    | none => none

/-- `m_map_itr_next`; `none` = the iterator was released -/
def itrNext (m : Map κ) (it : Itr) : Option Itr :=
  let p := if it.removed then it.pos else it.pos + 1
  match scan m.cells (it.stop - p) p with
  | some q => some { it with pos := q, removed := false }
  | none => none

/-- `m_map_itr_remove` -/
def itrRemove (P : Params κ) (m : Map κ) (it : Itr) : Map κ × List (Ev κ) × Itr × Int :=
  if it.removed then (m, [], it, -22)
  else let r := clearElem P m it.pos; (r.1, r.2, { it with removed := true }, 0)

/-- `m_map_itr_get_key` -/
def itrKey (m : Map κ) (it : Itr) : Option κ :=
  if it.removed then none else (slot m.cells it.pos).map (·.1)

/-- `m_map_itr_get_data` -/
def itrGet (m : Map κ) (it : Itr) : Option Nat :=
  if it.removed then none else (slot m.cells it.pos).map (·.2)

/-- `m_map_itr_set_data` (plain store: no destructor call) -/
def itrSet (m : Map κ) (it : Itr) (v : Nat) : Map κ × Int :=
  if it.removed then (m, -22)
  else if v = 0 then (m, -22)
  else match slot m.cells it.pos with
    | some (k, _) => ({ m with cells := m.cells.set (it.pos % m.size) (some (k, v)) }, 0)
    | none => (m, 0)

/-! ## `m_map_iterate` -/

/-- what the user callback does on one visit -/
inductive CbAct (κ : Type)
  | cont                      -- return 0
  | rm                        -- m_map_remove(current key); return 0
  | stop                      -- return 1
  | err                       -- return -7
  | del (k : κ)               -- m_map_remove(other key); return 0
  | put (k : κ) (v : Nat)     -- m_map_put; return 0

inductive Out (κ : Type)
  | visit (k : κ) (v : Nat)
  | ev (e : Ev κ)
  | rc (r : Int)               -- return code of the call made by the callback
  deriving Repr, DecidableEq

/-- run the callback on entry `(k, v)`: new map, its outputs, its return value -/
def runCb (P : Params κ) (m : Map κ) (k : κ) : CbAct κ → Map κ × List (Out κ) × Int
  | .cont => (m, [], 0)
  | .rm => let r := remove P m k; (r.1, r.2.1.map Out.ev ++ [Out.rc r.2.2], 0)
  | .stop => (m, [], 1)
  | .err => (m, [], -7)
  | .del k' => let r := remove P m k'; (r.1, r.2.1.map Out.ev ++ [Out.rc r.2.2], 0)
  | .put k' v' => let r := put P m k' v'; (r.1, r.2.1.map Out.ev ++ [Out.rc r.2.2], 0)

/-- the scan loop of `m_map_iterate`: position `p = start + i`, `stop = start + table_size`,
`vn` = number of callback invocations so far.  `fuel` bounds positions left + re-runs. -/
def iterLoop (P : Params κ) (cb : Nat → κ → Nat → CbAct κ) :
    Nat → Map κ → Nat → Nat → Nat → Map κ × List (Out κ) × Int
  | 0, m, _, _, _ => (m, [], 0)
  | fuel + 1, m, p, stop, vn =>
    if p < stop then
      match slot m.cells p with
      | none => iterLoop P cb fuel m (p + 1) stop vn
      | some (k, v) =>
        let r := runCb P m k (cb vn k v)
        if r.2.2 < 0 then (r.1, Out.visit k v :: r.2.1, r.2.2)
        else if r.2.2 > 0 then (r.1, Out.visit k v :: r.2.1, 0)
        else if (slot r.1.cells p).map (·.1) ≠ some k then
          -- `entry->key != key`: run this slot again
          let r' := iterLoop P cb fuel r.1 p stop (vn + 1)
          (r'.1, Out.visit k v :: r.2.1 ++ r'.2.1, r'.2.2)
        else if m.length ≠ r.1.length then (r.1, Out.visit k v :: r.2.1, -13)
        else
          let r' := iterLoop P cb fuel r.1 (p + 1) stop (vn + 1)
          (r'.1, Out.visit k v :: r.2.1 ++ r'.2.1, r'.2.2)
    else (m, [], 0)

/-- `m_map_iterate` -/
def iterate (P : Params κ) (m : Map κ) (cb : Nat → κ → Nat → CbAct κ) : Map κ × List (Out κ) × Int :=
  if m.length = 0 then (m, [], -22)
  else
    let s := firstEmpty m.cells
    iterLoop P cb (2 * m.size + 1) m (s + 1) (s + m.size) 0

/-! ## `m_map_clear`, `m_map_free` -/

/-- `for (itr = m_map_itr_new(m); itr; m_map_itr_next(&itr)) m_map_itr_remove(itr);` -/
def clearLoop (P : Params κ) : Nat → Map κ → Option Itr → Map κ × List (Ev κ)
  | 0, m, _ => (m, [])
  | _ + 1, m, none => (m, [])
  | fuel + 1, m, some it =>
    let r := itrRemove P m it
    let r' := clearLoop P fuel r.1 (itrNext r.1 r.2.2.1)
    (r'.1, r.2.1 ++ r'.2)

/-- `m_map_clear` (every round removes one entry: `length` rounds) -/
def clear (P : Params κ) (m : Map κ) : Map κ × List (Ev κ) :=
  clearLoop P (m.length + 1) m (itrNew m)

/-- the table in scan order (what an iteration without removal visits) -/
def scanOrder (m : Map κ) : List (κ × Nat) :=
  let s := firstEmpty m.cells
  (m.cells.drop (s + 1) ++ m.cells.take s).filterMap id

/-- the live entries, in table order -/
def content (m : Map κ) : List (κ × Nat) := m.cells.filterMap id

/-! ## The machine over operation sequences (one map, one iterator handle) -/

inductive Op (κ : Type)
  | put (k : κ) (v : Nat)
  | get (k : κ)
  | has (k : κ)
  | del (k : κ)
  | len
  | clear
  | oom
  | iterate (cb : Nat → κ → Nat → CbAct κ)
  | itNew | itNext | itGet | itKey | itSet (v : Nat) | itRm

structure St (κ : Type) where
  map : Map κ
  itr : Option Itr := none
  log : List (Ev κ) := []

/-- the events among the outputs of an `iterate` -/
def outEvs : List (Out κ) → List (Ev κ)
  | [] => []
  | .ev e :: r => e :: outEvs r
  | _ :: r => outEvs r

/-- One API call.  Calls that change the table other than through the iterator drop the script's
iterator handle (using a stale iterator is outside the API contract). -/
def step (P : Params κ) (s : St κ) : Op κ → St κ
  | .put k v => let r := put P s.map k v; { map := r.1, itr := none, log := s.log ++ r.2.1 }
  | .get _ | .has _ | .len => s
  | .del k => let r := remove P s.map k; { map := r.1, itr := none, log := s.log ++ r.2.1 }
  | .clear => let r := clear P s.map; { map := r.1, itr := none, log := s.log ++ r.2 }
  | .oom => { s with map := { s.map with oom := true } }
  | .iterate cb => let r := iterate P s.map cb; { map := r.1, itr := none, log := s.log ++ outEvs r.2.1 }
  | .itNew => { s with itr := itrNew s.map }
  | .itNext => match s.itr with
    | some it => { s with itr := itrNext s.map it }
    | none => s
  | .itGet | .itKey => s
  | .itSet v => match s.itr with
    | some it => { s with map := (itrSet s.map it v).1 }
    | none => s
  | .itRm => match s.itr with
    | some it => let r := itrRemove P s.map it; { map := r.1, itr := some r.2.2.1, log := s.log ++ r.2.1 }
    | none => s

def run (P : Params κ) (s : St κ) (ops : List (Op κ)) : St κ := ops.foldl (step P) s

end Lm.Struct.Map
