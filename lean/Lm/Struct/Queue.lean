import Lm.Struct.Chain
/-!
# Model of `Lib/structs/queue.c` (after the D-12a fix)

`head` is the first node of `chain`; `tail` is kept as the identity the C field holds.  The
iterator functions are in `Lm.Struct.Chain` (same text as in `stack.c`).
-/
namespace Lm.Struct.Queue
open Lm.Struct

/-- `m_queue_new(fn)` -/
def new (dtor : Bool) : St := { obj := some { dtor := dtor } }

/-- the chain after the pointer updates of `m_queue_enqueue` for the new node `nd`:
`if (q->tail) q->tail->prev = elem;  q->tail = elem;  if (!q->head) q->head = q->tail;` -/
def enqChain (q : Cont) (nd : Node) : Chain :=
  let c1 := match q.tail with
    | some t =>
      match posOf t q.chain with
      | some i => q.chain.take (i + 1) ++ [nd]   -- whatever followed the node `tail` names is cut off
      | none => q.chain                          -- `tail` names a node that is not reachable from head
    | none => q.chain
  if c1.isEmpty then [nd] else c1

/-- `m_queue_enqueue` -/
def enqueue (s : St) (v : Val) : St × Ret :=
  match s.obj with
  | none => (s, .int EINVAL)
  | some q =>
    if v = 0 then (s, .int EINVAL) else
    let nd : Node := ⟨q.fresh, v⟩
    ({ s with obj := some { q with chain := enqChain q nd, tail := some nd.id, len := q.len + 1, fresh := q.fresh + 1 } }, .int 0)

/-- `m_queue_dequeue` -/
def dequeue (s : St) : St × Ret :=
  if cLen s.obj > 0 then
    match s.obj with
    | none => (s, .ptr 0)
    | some q =>
      match q.chain with
      | [] => (s.crash, .ptr 0)                    -- `q->head->prev` with head == NULL
      | hd :: rest =>
        -- if (q->tail == q->head) q->tail = NULL;
        let tail' := if q.tail = some hd.id then none else q.tail
        ({ s with obj := some { q with chain := rest, tail := tail', len := q.len - 1 } }, .ptr hd.val)
  else (s, .ptr 0)

/-- `m_queue_remove` -/
def remove (s : St) : St × Ret :=
  match dequeue s with
  | (s', .ptr data) =>
    if data ≠ 0 then
      match s'.obj with
      | some q => ({ s' with log := callDtor q.dtor s'.log data }, .int 0)
      | none => (s'.crash, .int 0)
    else (s', .int EINVAL)
  | (s', _) => (s', .int EINVAL)

/-- `while (q->len > 0) m_queue_remove(q);` — every round decrements `len`, so `len` is the fuel -/
def clearLoop : Nat → St → St
  | 0, s => s
  | n + 1, s => if s.fault then s else if cLen s.obj > 0 then clearLoop n (remove s).1 else s

/-- `m_queue_clear` -/
def clear (s : St) : St × Ret :=
  if cLen s.obj > 0 then
    match s.obj with
    | some q => (clearLoop q.len s, .int 0)
    | none => (s, .int EINVAL)
  else (s, .int EINVAL)

/-- `m_queue_free(&q)`: the result of `m_queue_clear` is ignored, the handle becomes NULL.
(The harness releases a live iterator object first.) -/
def free (s : St) : St × Ret :=
  let s1 := (clear { s with itr := none }).1
  ({ s1 with obj := none }, .int 0)

inductive Op
  | enq (v : Val) | deq | peek | rm | len | clear | free | iterate (stop : Option Nat)
  | itNew | itNext | itGet | itSet (v : Val) | itRm
  deriving DecidableEq, Repr

def step (s : St) : Op → St × Ret
  | .enq v => enqueue s v
  | .deq => dequeue s
  | .peek => peek s
  | .rm => remove s
  | .len => (s, .int (cLen s.obj))
  | .clear => clear s
  | .free => free s
  | .iterate k => iterate s k
  | .itNew => noteCur (itrNew s)
  | .itNext => noteCur (itrNext s)
  | .itGet => itrGet s
  | .itSet v => itrSet s v
  | .itRm => itrRemove s

/-- calls that invalidate a live iterator: they free or relink nodes the iterator may point into.
`enqueue` is not among them: it only appends behind the last node, an iterator keeps its place and
will reach the new element. -/
def Op.mutates : Op → Bool
  | .deq | .rm | .clear => true
  | _ => false

/-- API precondition (iterator invalidation): while an iterator is live the container is modified
only through it or by `enqueue`.  `free` is how an unfinished iterator is abandoned. -/
def okOp (s : St) (o : Op) : Bool := !(o.mutates && s.itr.isSome)

def run (s : St) (ops : List Op) : St := ops.foldl (fun s o => (step s o).1) s

/-- the value returned by every call of a history -/
def trace (s : St) : List Op → List Ret
  | [] => []
  | o :: os => (step s o).2 :: trace (step s o).1 os

def okRun : St → List Op → Bool
  | _, [] => true
  | s, o :: os => okOp s o && okRun (step s o).1 os

end Lm.Struct.Queue
