import Lm.Generated.Bst
import Lm.Struct.Bst
/-! The two comparators the correspondence scripts use (definitions only, no proofs: the driver
must keep building when an obligation about the regenerated `ptrcmp` breaks). -/
namespace Lm.Struct.Bst

/-- the default comparator as the set uses it: the regenerated `ptrcmp` on user pointers given as
integers below 2^64 -/
def defaultCmp (a b : Val) : Int :=
  (Lm.Generated.Bst.ptrcmp (BitVec.ofNat 64 a) (BitVec.ofNat 64 b)).toInt

/-- three-way comparison of a key derived from the element (distinct pointers may compare equal) -/
def keyCmp (key : Val → Nat) (a b : Val) : Int :=
  (if key a > key b then 1 else 0) - (if key a < key b then 1 else 0)

/-- the comparator the harness passes for `new … user`: order by `v / 4` -/
def userCmp : Val → Val → Int := keyCmp (· / 4)

end Lm.Struct.Bst
