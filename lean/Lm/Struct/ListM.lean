import Lm.Struct.Chain
/-!
# Model of `Lib/structs/list.c` (after the D-12b fix)

`data` is the first node of `chain`, links are `next` fields.  The comparator is a parameter
`eq a b` ("`l->comp(a, b) == 0`") of every function that calls it; `Cont.cmp` records whether the
list was created with a comparator at all.
-/
namespace Lm.Struct.ListM
open Lm.Struct

/-- `m_list_new(comp, fn)` -/
def new (dtor cmp : Bool) : St := { obj := some { dtor := dtor, cmp := cmp } }

/-- result of the `for (i = 0; i < l->len; i++) { if (match(*tmp)) break; tmp = &(*tmp)->next; }` loops -/
inductive Scan
  | hit (i : Nat)      -- left the loop through the `break`/`return` at index `i`
  | miss (i : Nat)     -- loop bound reached; `tmp` is the link of index `i`
  | null               -- `(*tmp)->userptr` with `*tmp == NULL`
  deriving DecidableEq, Repr

/-- the scan loop: `fuel` is the loop bound `l->len`, the list argument is what `*tmp` still has
in front of it, `i` the index of `tmp` -/
def scan (p : Val → Bool) : Nat → Chain → Nat → Scan
  | 0, _, i => .miss i
  | _ + 1, [], _ => .null
  | f + 1, nd :: rest, i => if p nd.val then .hit i else scan p f rest (i + 1)

/-- `insert_node(l, elem, data)` with `elem` the link of index `p` -/
def insertNode (q : Cont) (p : Nat) (v : Val) : Cont :=
  { q with chain := insertAt q.chain p ⟨q.fresh, v⟩, len := q.len + 1, fresh := q.fresh + 1 }

/-- `remove_node(l, elem)` with `elem` the link of index `p`: `none` = `-ENOENT` -/
def removeNode (q : Cont) (log : List Ev) (p : Nat) : Option (Cont × List Ev) :=
  match q.chain[p]? with
  | some tmp => some ({ q with chain := eraseAt q.chain p, len := q.len - 1 }, callDtor q.dtor log tmp.val)
  | none => none

/-- `m_list_itr_new` -/
def itrNew (s : St) : St × Ret := Lm.Struct.itrNew s

/-- `for (n = 0; n <= diff && *elem; n++) elem = &(*elem)->next;` — `k` rounds left, link of index `p` -/
def advance (c : Chain) : Nat → Link × Nat → Link × Nat
  | 0, lp => lp
  | k + 1, (l, p) =>
    match c[p]? with
    | some nd => advance c k (.after nd.id, p + 1)
    | none => (l, p)

/-- `m_list_itr_next` (after the D-12b fix) -/
def itrNext (s : St) : St × Ret :=
  match s.itr, s.obj with
  | none, _ => (s, .int EINVAL)
  | some _, none => (s.crash, .int 0)
  | some it, some q =>
    match linkPos q.chain it.elem with
    | none => (s.crash, .int 0)
    | some p =>
      -- if (*i->elem) { if (i->diff >= 0) <advance diff + 1 links>; i->diff = 0; }
      let lp := if (q.chain[p]?).isSome ∧ it.diff ≥ 0 then advance q.chain (it.diff.toNat + 1) (it.elem, p)
                else (it.elem, p)
      -- if (!*(i->elem)) { free(*itr); *itr = NULL; }
      if (q.chain[lp.2]?).isNone then ({ s with itr := none }, .int 0)
      else ({ s with itr := some { it with elem := lp.1, diff := 0 } }, .int 0)

/-- `m_list_itr_get_data` -/
def itrGet (s : St) : St × Ret :=
  match s.itr, s.obj with
  | none, _ => (s, .ptr 0)
  | some _, none => (s.crash, .ptr 0)
  | some it, some q =>
    match linkPos q.chain it.elem with
    | none => (s.crash, .ptr 0)
    | some p =>
      match q.chain[p]? with
      | none => (s, .ptr 0)
      | some nd => (s, .ptr nd.val)

/-- `m_list_itr_set_data` -/
def itrSet (s : St) (v : Val) : St × Ret :=
  match s.itr, s.obj with
  | none, _ => (s, .int EINVAL)
  | some it, obj =>
    if v = 0 then (s, .int EINVAL) else
    match obj with
    | none => (s.crash, .int 0)
    | some q =>
      match linkPos q.chain it.elem with
      | none => (s.crash, .int 0)
      | some p =>
        match q.chain[p]? with
        | none => (s, .int EINVAL)
        | some _ => ({ s with obj := some { q with chain := setAt q.chain p v } }, .int 0)

/-- `m_list_itr_insert` -/
def itrInsert (s : St) (v : Val) : St × Ret :=
  match s.itr, s.obj with
  | none, _ => (s, .int EINVAL)
  | some it, obj =>
    if v = 0 then (s, .int EINVAL) else
    match obj with
    | none => (s.crash, .int 0)
    | some q =>
      match linkPos q.chain it.elem with
      | none => (s.crash, .int 0)
      | some p =>
        -- itr->diff++; return insert_node(itr->l, itr->elem, value);
        ({ s with obj := some (insertNode q p v), itr := some { it with diff := it.diff + 1 } }, .int 0)

/-- `m_list_itr_remove` -/
def itrRemove (s : St) : St × Ret :=
  match s.itr, s.obj with
  | none, _ => (s, .int EINVAL)
  | some _, none => (s.crash, .int 0)
  | some it, some q =>
    match linkPos q.chain it.elem with
    | none => (s.crash, .int 0)
    | some p =>
      -- M_RET_ASSERT(*itr->elem, -EINVAL); itr->diff--; return remove_node(itr->l, itr->elem);
      match removeNode q s.log p with
      | none => (s, .int EINVAL)
      | some (q', log') => ({ s with obj := some q', itr := some { it with diff := it.diff - 1 }, log := log' }, .int 0)

/-- `m_list_insert`: in front of the first element comparing equal, at the end if there is none,
at the head if the list has no comparator -/
def insert (eq : Val → Val → Bool) (s : St) (v : Val) : St × Ret :=
  match s.obj with
  | none => (s, .int EINVAL)
  | some q =>
    if v = 0 then (s, .int EINVAL) else
    -- for (int i = 0; i < l->len && l->comp; i++)
    match (if q.cmp then scan (fun x => eq v x) q.len q.chain 0 else .miss 0) with
    | .null => (s.crash, .int 0)
    | .hit i | .miss i => ({ s with obj := some (insertNode q i v) }, .int 0)

/-- the test of `m_list_remove` / `m_list_find`: `(l->comp && l->comp(data, x) == 0) || x == data` -/
def isMatch (eq : Val → Val → Bool) (cmp : Bool) (v x : Val) : Bool := (cmp && eq v x) || x == v

/-- `m_list_remove` -/
def remove (eq : Val → Val → Bool) (s : St) (v : Val) : St × Ret :=
  if cLen s.obj > 0 then
    match s.obj with
    | none => (s, .int EINVAL)
    | some q =>
      if v = 0 then (s, .int EINVAL) else
      match scan (isMatch eq q.cmp v) q.len q.chain 0 with
      | .null => (s.crash, .int 0)
      | .hit i | .miss i =>
        match removeNode q s.log i with
        | some (q', log') => ({ s with obj := some q', log := log' }, .int 0)
        | none => (s, .int ENOENT)
  else (s, .int EINVAL)

/-- `m_list_find` -/
def find (eq : Val → Val → Bool) (s : St) (v : Val) : St × Ret :=
  match s.obj with
  | none => (s, .ptr 0)
  | some q =>
    if v = 0 then (s, .ptr 0) else
    match scan (isMatch eq q.cmp v) q.len q.chain 0 with
    | .null => (s.crash, .ptr 0)
    | .hit i => (match q.chain[i]? with | some nd => (s, .ptr nd.val) | none => (s.crash, .ptr 0))
    | .miss _ => (s, .ptr 0)

/-- the loop of `m_list_clear`: `for (itr = m_list_itr_new(l); itr; m_list_itr_next(&itr)) m_list_itr_remove(itr);`
The internal iterator stays on `&l->data`; every round unlinks the first node, calls the destructor
and decrements `len`; the loop ends when `l->data` is NULL. -/
def clearLoop (dtor : Bool) : Chain → Nat → List Ev → Nat × List Ev
  | [], len, log => (len, log)
  | nd :: rest, len, log => clearLoop dtor rest (len - 1) (callDtor dtor log nd.val)

/-- `m_list_clear` -/
def clear (s : St) : St × Ret :=
  match s.obj with
  | none => (s, .int EINVAL)
  | some q =>
    -- m_list_itr_new returns NULL when len is 0: nothing happens
    if q.len > 0 then
      let r := clearLoop q.dtor q.chain q.len s.log
      ({ s with obj := some { q with chain := [], len := r.1 }, log := r.2 }, .int 0)
    else (s, .int 0)

/-- `m_list_free(&l)` -/
def free (s : St) : St × Ret :=
  match clear { s with itr := none } with
  | (s1, .int 0) => ({ s1 with obj := none }, .int 0)
  | (s1, r) => (s1, r)

/-- `m_list_itr_get_data` right after `itr_new`/`itr_next` (printed by the harness as `cur`) -/
def noteCur (r : St × Ret) : St × Ret :=
  match r.1.itr, r.1.obj with
  | some it, some q =>
    if r.1.fault then r else
    match linkPos q.chain it.elem with
    | none => (r.1.crash, r.2)
    | some p => ({ r.1 with log := r.1.log ++ [Ev.cur q.chain[p]?] }, r.2)
  | _, _ => r

inductive Op
  | ins (v : Val) | rm (v : Val) | find (v : Val) | len | clear | free | iterate (stop : Option Nat)
  | itNew | itNext | itGet | itSet (v : Val) | itRm | itIns (v : Val)
  deriving DecidableEq, Repr

def step (eq : Val → Val → Bool) (s : St) : Op → St × Ret
  | .ins v => insert eq s v
  | .rm v => remove eq s v
  | .find v => find eq s v
  | .len => (s, .int (cLen s.obj))
  | .clear => clear s
  | .free => free s
  | .iterate k => iterate s k
  | .itNew => noteCur (itrNew s)
  | .itNext => noteCur (itrNext s)
  | .itGet => itrGet s
  | .itSet v => itrSet s v
  | .itRm => itrRemove s
  | .itIns v => itrInsert s v

def Op.mutates : Op → Bool
  | .ins _ | .rm _ | .clear => true
  | _ => false

/-- API precondition (iterator invalidation): while an iterator is live the container is modified
only through it. -/
def okOp (s : St) (o : Op) : Bool := !(o.mutates && s.itr.isSome)

def run (eq : Val → Val → Bool) (s : St) (ops : List Op) : St := ops.foldl (fun s o => (step eq s o).1) s

/-- the value returned by every call of a history -/
def trace (eq : Val → Val → Bool) (s : St) : List Op → List Ret
  | [] => []
  | o :: os => (step eq s o).2 :: trace eq (step eq s o).1 os

def okRun (eq : Val → Val → Bool) : St → List Op → Bool
  | _, [] => true
  | s, o :: os => okOp s o && okRun eq (step eq s o).1 os

end Lm.Struct.ListM
