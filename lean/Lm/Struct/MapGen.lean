import Lm.Generated.Map
import Lm.Struct.Map
/-!
# The map model instantiated with the fragments regenerated from `map.c`

`genParams bytes` is what the driver runs (with `bytes` = the UTF-8 bytes of the key token) and what
`Lm.Props.C05` instantiates the parametric theorems with (for an arbitrary `bytes`, so for every
key set).  Sizes and indices are `size_t` in C: the wrappers convert with `BitVec.ofNat 64`.
-/
namespace Lm.Struct.Map
open Lm.Generated.Map

/-- `calloc` cannot deliver more than `PTRDIFF_MAX` bytes: a table has at most `2^63 / sizeof(map_elem)`
entries (environment assumption, see the trusted base). -/
def genMaxSize : Nat := 2 ^ 58

def genParams {κ : Type} (bytes : κ → List (BitVec 8)) : Params κ where
  home n k := (sizeMod (BitVec.ofNat 64 n) (hashBytes (bytes k))).toNat
  probeLen n := (probeLen (BitVec.ofNat 64 n)).toNat
  minSize len := (minSize (BitVec.ofNat 64 len)).toNat
  shift n hole idx home := shiftDec (BitVec.ofNat 64 n) (BitVec.ofNat 64 hole) (BitVec.ofNat 64 idx) (BitVec.ofNat 64 home)
  sizeDefault := sizeDefault
  maxSize := genMaxSize

end Lm.Struct.Map
