import Lm.Generated.Bst
import Lm.Struct.Bst
import Lm.Inst.Bst
import Lm.Inv.BstRun
/-!
# C11 — Ordered set (BST): set semantics, sorted iteration, right destructor target

Property theorems only (helper lemmas: `Lm.Inv.Bst`, `Lm.Inv.BstItr`, `Lm.Inv.BstRun`).  Everything
is stated for an arbitrary comparator `cmp` with `TotalOrderCmp cmp` (sign-antisymmetric, `≤`
transitive, `cmp a a = 0`); `Lm.Inst.Bst` proves that hypothesis for the default comparator as it is
regenerated from `Lib/structs/bst.c` on every run (tie A) and for the harness's user comparator.
The model (`Lm.Struct.Bst`) is tied to the compiled library by the correspondence check (tie B).
No theorem bounds the size of the set, the length of a script or the insertion order.
-/
namespace Lm.Props.C11
open Lm.Struct.Bst Lm.Struct.Bst.Tree Lm.Inst.Bst

/-! ## The default comparator (tie A: obligation on the regenerated `ptrcmp`) -/

/-- `ptrcmp`, as translated from the source, is a total-order comparator on all 2^64 × 2^64 pairs
of addresses (false for the pointer-difference-truncated-to-`int` version: D-11b). -/
theorem C11_ptrcmp_total : TotalOrderCmp defaultCmp := defaultCmp_total

/-- With the default comparator distinct pointers are always distinct elements, and they are
ordered as unsigned addresses however far apart they are. -/
theorem C11_ptrcmp_distinct_and_ordered {a b : Val} (ha : a < 2 ^ 64) (hb : b < 2 ^ 64) :
    (defaultCmp a b = 0 ↔ a = b) ∧ (defaultCmp a b < 0 ↔ a < b) :=
  ⟨defaultCmp_eq_iff ha hb, defaultCmp_lt_iff ha hb⟩

/-! ## Every script: the invariant -/

/-- After any script (any sequence of new/ins/rm/find/len/clear/free/trav/iterator calls, from the
initial state) the model never dereferenced NULL or a dangling pointer (`fault = false`), the set is
a search tree w.r.t. `cmp`, `len` is exact, node identities are distinct, and a live iterator sits
at a position of the in-order sequence (`ItAt`). -/
theorem C11_invariant {cmp} (h : TotalOrderCmp cmp) (ops : List Op) : StInv cmp (final cmp {} ops) :=
  final_inv h ops (StInv.init cmp)

/-- In-order traversal is strictly ascending, `m_bst_len` is exact — after every script. -/
theorem C11_sorted_and_len {cmp} (h : TotalOrderCmp cmp) (ops : List Op) (b : Bst)
    (hb : (final cmp {} ops).set = some b) :
    Ascending cmp b.root.inorder ∧ b.len = b.root.inorder.length ∧ b.root.inorder.Nodup := by
  have hi := (C11_invariant h ops).set b hb
  have ha := (ordered_iff_ascending h _).mp hi.ord
  exact ⟨ha, by rw [inorder_length]; exact hi.len, ascending_nodup h ha⟩

/-- `len` reports exactly the number of elements after every script. -/
theorem C11_len_exact {cmp} (h : TotalOrderCmp cmp) (ops : List Op) (b : Bst)
    (hb : (final cmp {} ops).set = some b) :
    (step cmp (final cmp {} ops) .len).2 = [.ret (b.root.inorder.length : Nat)] := by
  have := (C11_sorted_and_len h ops b hb).2.1
  simp [step, hb, this]

/-! ## insert / find / remove on a set satisfying the invariant -/

/-- `m_bst_insert` succeeds iff no element comparing equal is present; otherwise `-EEXIST` (-17)
and nothing changes.  On success exactly `v` is added. -/
theorem C11_insert {cmp} (h : TotalOrderCmp cmp) {b : Bst} (hi : SetInv cmp b) {v : Val} (hv : v ≠ 0) :
    ((∃ y ∈ b.root.inorder, cmp v y = 0) → bstInsert cmp b v = (b, -17)) ∧
    ((∀ y ∈ b.root.inorder, cmp v y ≠ 0) → ∃ b' X Y, bstInsert cmp b v = (b', 0) ∧
        b.root.inorder = X ++ Y ∧ b'.root.inorder = X ++ v :: Y ∧ b'.len = b.len + 1 ∧ SetInv cmp b') := by
  obtain ⟨h1, h2⟩ := bstInsert_spec h hi hv
  refine ⟨h1, fun hno => ?_⟩
  obtain ⟨b', X, Y, e, c0, c1, l, _⟩ := h2 hno
  exact ⟨b', X, Y, e, c0, c1, l, by have := bstInsert_inv h hi v; rwa [e] at this⟩

/-- `m_bst_find` returns exactly the element comparing equal to the key (there is at most one). -/
theorem C11_find {cmp} (h : TotalOrderCmp cmp) {b : Bst} (hi : SetInv cmp b) (v y : Val) :
    (bstFind cmp b v = some y ↔ v ≠ 0 ∧ y ∈ b.root.inorder ∧ cmp v y = 0) ∧
    (∀ y', y ∈ b.root.inorder → y' ∈ b.root.inorder → cmp v y = 0 → cmp v y' = 0 → y = y') :=
  ⟨bstFind_spec h hi v y, fun _ hy hy' he he' => equal_unique h hi.ord hy hy' he he'⟩

/-- `m_bst_remove`: `-ENOENT` (-2) without effect when nothing compares equal; otherwise exactly the
equal element `y` leaves the set, the destructor (if any) is called exactly once, with `y`, the
length drops by one and the invariant is kept. -/
theorem C11_remove {cmp} (h : TotalOrderCmp cmp) {b : Bst} (hi : SetInv cmp b) {v : Val} (hv : v ≠ 0) (hl : b.len ≠ 0) :
    ((∀ y ∈ b.root.inorder, cmp v y ≠ 0) → bstRemove cmp b v = (b, [], -2)) ∧
    (∀ y ∈ b.root.inorder, cmp v y = 0 → ∃ b' X Y,
        bstRemove cmp b v = (b', (if b.dtor then [Ev.dtor y] else []), 0) ∧
        b.root.inorder = X ++ y :: Y ∧ b'.root.inorder = X ++ Y ∧ b'.len = b.len - 1 ∧ SetInv cmp b') := by
  obtain ⟨h1, h2⟩ := bstRemove_spec h hi hv hl
  refine ⟨h1, fun y hy he => ?_⟩
  obtain ⟨b', X, Y, e, c0, c1, l, _, inv⟩ := h2 y hy he
  refine ⟨b', X, Y, ?_, c0, c1, l, inv⟩
  rw [e]; cases b.dtor <;> simp [dtorEvs]

/-! ## Traversals -/

/-- The three traversals hand the callback the pre-order, in-order and post-order sequence of one and the same
tree; all three are permutations of the content; in-order is strictly ascending. -/
theorem C11_traversals {cmp} (h : TotalOrderCmp cmp) {b : Bst} (hi : SetInv cmp b) :
    bstTraverse b .pre (fun _ => 0) = (b.root.preorder, 0) ∧
    bstTraverse b .inord (fun _ => 0) = (b.root.inorder, 0) ∧
    bstTraverse b .post (fun _ => 0) = (b.root.postorder, 0) ∧
    b.root.preorder.Perm b.root.inorder ∧ b.root.postorder.Perm b.root.inorder ∧
    Ascending cmp b.root.inorder := by
  refine ⟨by simp [bstTraverse, travPre_zero], by simp [bstTraverse, travIn_zero], by simp [bstTraverse, travPost_zero],
    preorder_perm _, postorder_perm _, (ordered_iff_ascending h _).mp hi.ord⟩

/-- Pre-order and in-order of a set determine its post-order: two trees with duplicate-free
content that agree on the first two traversals agree on the third (what "consistent with one
binary search tree" means for the three observed sequences). -/
theorem C11_traversals_one_tree (t1 t2 : Tree) (hn : t1.inorder.Nodup) (hp : t1.preorder = t2.preorder)
    (hin : t1.inorder = t2.inorder) : t1.postorder = t2.postorder :=
  postorder_determined t1 t2 hn hp hin

/-- A callback that stops a traversal has been given a prefix of the full sequence; the return
value is 0 for a positive stop code and the code itself for a negative one. -/
theorem C11_traverse_stop (b : Bst) (o : Order) (cb : Nat → Int) :
    ∃ p s, (bstTraverse b o cb).1 = p ∧
      (match o with | .pre => b.root.preorder | .inord => b.root.inorder | .post => b.root.postorder) = p ++ s ∧
      (bstTraverse b o cb).2 ≤ 0 := by
  cases o with
  | pre =>
    obtain ⟨p, s, e, f, _⟩ := travPre_prefix cb b.root []
    refine ⟨p, s, by simpa [bstTraverse] using e, f, ?_⟩
    simp only [bstTraverse]; split <;> omega
  | post =>
    obtain ⟨p, s, e, f, _⟩ := travPost_prefix cb b.root []
    refine ⟨p, s, by simpa [bstTraverse] using e, f, ?_⟩
    simp only [bstTraverse]; split <;> omega
  | inord =>
    obtain ⟨p, s, e, f, _⟩ := travIn_prefix cb b.root []
    refine ⟨p, s, by simpa [bstTraverse] using e, f, ?_⟩
    simp only [bstTraverse]; split <;> omega

/-! ## Iterator -/

/-- A new iterator stands on the smallest element (NULL for an empty set). -/
theorem C11_itr_new {cmp} {b : Bst} (hi : SetInv cmp b) :
    (b.len = 0 → itrNew b = { set := b, itr := none }) ∧
    (b.len ≠ 0 → ∃ it, itrNew b = { set := b, itr := some it } ∧ ItAt b.root it [] b.root.inorderN ∧ it.removed = false) :=
  itrNew_spec hi.len hi.nodup

/-- `m_bst_itr_next` from any position `B | A` of the in-order sequence: no fault, the set is
untouched, the iterator moves to the element following the position (`A.tail`; `A` itself when the
current element has just been removed through the iterator) and is freed exactly when there is none. -/
theorem C11_itr_next {cmp} {b : Bst} (hi : SetInv cmp b) {it : Itr} {B A : List (Nat × Val)} (hat : ItAt b.root it B A) :
    let A₁ := if it.removed then A else A.tail
    let B₁ := if it.removed then B else B ++ A.take 1
    ∃ oi, itrNext b it = { set := b, itr := oi } ∧ (A₁ = [] → oi = none) ∧
      (A₁ ≠ [] → ∃ it', oi = some it' ∧ ItAt b.root it' B₁ A₁ ∧ it'.removed = false) :=
  itrNext_spec hi.nodup hat

/-- `m_bst_itr_get_data` returns the element at the position (NULL right after a removal). -/
theorem C11_itr_get {cmp} {b : Bst} (hi : SetInv cmp b) {it : Itr} {B A : List (Nat × Val)} (hat : ItAt b.root it B A) :
    itrGet b it = some (if it.removed then none else A.head?.map Prod.snd) :=
  itrGet_spec hi.nodup hat

/-- `m_bst_itr_remove` removes exactly the current element `a`, the destructor receives exactly
`a`, once; the rest of the sequence (`B` before, `A'` after, as values) is unchanged, the iterator
keeps its position and the invariant holds for the new set.  A second call without `next` is
refused (`-EINVAL`) without effect. -/
theorem C11_itr_remove {cmp} (h : TotalOrderCmp cmp) {b : Bst} (hi : SetInv cmp b) {it : Itr} {B A : List (Nat × Val)}
    (hat : ItAt b.root it B A) :
    (it.removed = true → itrRemove b it = { set := b, itr := some it, ret := -22 }) ∧
    (it.removed = false → ∃ a A' b' A'', A = a :: A' ∧
      itrRemove b it = { set := b', itr := some { it with removed := true },
                         evs := (if b.dtor then [Ev.dtor a.2] else []), ret := 0 } ∧
      b'.root.inorder = B.map Prod.snd ++ A'.map Prod.snd ∧ A''.map Prod.snd = A'.map Prod.snd ∧
      ItAt b'.root { it with removed := true } B A'' ∧ SetInv cmp b' ∧ b'.len = b.len - 1) := by
  refine ⟨fun hr => itrRemove_removed hr, fun hr => ?_⟩
  obtain ⟨a, A', rm, A'', e0, e1, _, e3, e4, hat', sp⟩ := itrRemove_spec hi.nodup hat hr
  refine ⟨a, A', (applyRm b rm).1, A'', e0, ?_, ?_, e4, hat', hi.rm h sp, rfl⟩
  · rw [e1]; cases hd : b.dtor <;> simp [dtorEv, hd]
  · show rm.tree.inorder = _
    rw [← inorderN_map_snd, e3, List.map_append, e4]

/-- Iterating over the whole set with the iterator, removing any subset of the elements on the way
(`rmv` decides per element): every element is visited exactly once, in strictly ascending order;
exactly the chosen elements are destroyed (each once, with its own value) and exactly the others
remain; no fault; the invariant holds afterwards. -/
theorem C11_iterate_with_removal {cmp} (h : TotalOrderCmp cmp) {b : Bst} (hi : SetInv cmp b) (rmv : Val → Bool) :
    ∃ b', iterLoop rmv b.len b (itrNew b).itr [] [] =
        (b', b.root.inorder, (if b.dtor then (b.root.inorder.filter rmv).map Ev.dtor else []), false) ∧
      (itrNew b).fault = false ∧ Ascending cmp b.root.inorder ∧
      b'.root.inorder = b.root.inorder.filter (fun x => !rmv x) ∧ SetInv cmp b' := by
  have hasc := (ordered_iff_ascending h _).mp hi.ord
  by_cases h0 : b.len = 0
  · have e := (itrNew_spec hi.len hi.nodup).1 h0
    have hroot : b.root.inorder = [] := by
      have := inorder_length b.root; rw [← hi.len, h0] at this; exact List.length_eq_zero_iff.mp this
    refine ⟨b, ?_, by rw [e], hasc, by simp [hroot], hi⟩
    rw [e, hroot]; cases b.dtor <;> simp [iterLoop]
  · obtain ⟨it, e, hat, hr⟩ := (itrNew_spec hi.len hi.nodup).2 h0
    have hf : b.root.inorderN.length ≤ b.len := by rw [inorderN_length, hi.len]; omega
    obtain ⟨b', c1, c2, c3, _⟩ := iterLoop_spec h rmv b.len b it [] b.root.inorderN [] [] hi hat hr hf
    refine ⟨b', ?_, by rw [e], hasc, by simpa using c2, c3⟩
    rw [e]; simp only
    rw [c1]; simp [dtorEvs]

/-! ## Destructor: exactly once, on the element actually removed -/

/-- `m_bst_clear`: every element is destroyed exactly once (in ascending order), with its own
value; the set is empty afterwards; on an empty set `-EINVAL`, nothing is called. -/
theorem C11_clear {cmp} (h : TotalOrderCmp cmp) {b : Bst} (hi : SetInv cmp b) :
    (b.len = 0 → bstClear b = (b, [], -22, false)) ∧
    (b.len ≠ 0 → bstClear b =
      ({ b with root := .nil, len := 0 }, (if b.dtor then b.root.inorder.map Ev.dtor else []), 0, false)) := by
  obtain ⟨h1, h2⟩ := bstClear_spec h hi
  exact ⟨h1, fun h0 => by rw [h2 h0]; simp [dtorEvs]⟩

/-- `m_bst_free` (script level): the same destructor calls as `clear`, then the handle is NULL. -/
theorem C11_free {cmp} (h : TotalOrderCmp cmp) {s : St} (hi : StInv cmp s) (b : Bst) (hb : s.set = some b) :
    (step cmp s .free).1 = { set := none, itr := none, fault := false } ∧
    (step cmp s .free).2 = (if b.dtor then b.root.inorder.map Ev.dtor else []) ++ [.ret 0, .handle false] := by
  have hbi := hi.set b hb
  by_cases h0 : b.len = 0
  · have e := (bstClear_spec h hbi).1 h0
    have hroot : b.root.inorder = [] := by
      have := inorder_length b.root; rw [← hbi.len, h0] at this; exact List.length_eq_zero_iff.mp this
    simp [step, hb, e, hi.nofault, hroot]
  · have e := (bstClear_spec h hbi).2 h0
    simp [step, hb, e, hi.nofault, dtorEvs]

/-- One script line from any reachable state: the values handed to the destructor are pairwise
distinct, each was an element of the set before the call and none is an element afterwards — the
destructor never runs on an element that stays in the set, and never twice on one. -/
theorem C11_dtor_target_step {cmp} (h : TotalOrderCmp cmp) (ops : List Op) (op : Op) :
    let s := final cmp {} ops
    let r := step cmp s op
    (dtorVals r.2).Nodup ∧ ∀ v ∈ dtorVals r.2, v ∈ content s ∧ v ∉ content r.1 := by
  intro s r
  have hi : StInv cmp s := C11_invariant h ops
  by_cases hop : ∃ d, op = .new d
  · obtain ⟨d, rfl⟩ := hop
    simp [r, step, dtorVals]
  · have hop' : ∀ d, op ≠ .new d := fun d e => hop ⟨d, e⟩
    obtain ⟨c1, c2, c3, _⟩ := step_conservation h hi op hop'
    cases hs : s.set with
    | none => simp [r, (c3 hs).2.1]
    | some b =>
      cases hd : b.dtor with
      | false => simp [r, c1 b hs hd]
      | true =>
        have hp := c2 b hs hd
        have hins : insertedBy op r.2 = [] ∨ dtorVals r.2 = [] := by
          cases op <;> simp [insertedBy, r, step, hs, dtorVals]
        have hcn : (content s).Nodup := by
          have hb := hi.set b hs
          simp only [content, hs]
          exact ascending_nodup h ((ordered_iff_ascending h _).mp hb.ord)
        rcases hins with h0 | h0
        · rw [h0, List.append_nil] at hp
          have hn := hp.nodup_iff.mpr hcn
          obtain ⟨_, n2, n3⟩ := List.nodup_append.mp hn
          refine ⟨n2, fun v hv => ⟨hp.subset (List.mem_append.mpr (Or.inr hv)), fun hm => n3 v hm v hv rfl⟩⟩
        · simp [r] at h0 ⊢; simp [h0]

/-- Whole scripts on a set with a destructor (`new 1` followed by any lines that do not create
another set): the elements still in the set together with all values the destructor has received
are, as multisets, exactly the elements that were successfully inserted — every element that left
the set (remove, iterator-remove, clear, free) was destroyed exactly once, and no other value ever. -/
theorem C11_dtor_exactly_once {cmp} (h : TotalOrderCmp cmp) (ops : List Op) (hnew : ∀ d, Op.new d ∉ ops) :
    let s0 : St := (step cmp {} (.new true)).1
    (content (final cmp s0 ops) ++ allDtors (trace cmp s0 ops)).Perm (allInserted (trace cmp s0 ops)) := by
  intro s0
  have hi0 : StInv cmp s0 := step_inv h (StInv.init cmp) (.new true)
  have := trace_conservation h ops s0 hi0 hnew (by intro b hb; simp [s0, step] at hb; subst hb; rfl)
  simpa [s0, step, content, inorder] using this

/-- Without a destructor nothing is ever called. -/
theorem C11_no_dtor_no_calls {cmp} (h : TotalOrderCmp cmp) (ops : List Op) (hnew : ∀ d, Op.new d ∉ ops) :
    allDtors (trace cmp (step cmp {} (.new false)).1 ops) = [] := by
  have hi0 : StInv cmp (step cmp {} (.new false)).1 := step_inv h (StInv.init cmp) (.new false)
  exact trace_no_dtor h ops _ hi0 hnew (by intro b hb; simp [step] at hb; subst hb; rfl)

/-! ## Non-vacuity: concrete comparators meet the hypothesis, concrete scripts exercise the cases -/

example : TotalOrderCmp userCmp := userCmp_total
example : TotalOrderCmp defaultCmp := C11_ptrcmp_total

/-- 0x1_0000_0000 and 0x2_0000_0000 (D-11b) are distinct, ordered elements for the default comparator -/
example : defaultCmp 0x100000000 0x200000000 < 0 ∧ defaultCmp 0x200000000 0x100000000 > 0 ∧
    defaultCmp 10 2147483658 < 0 := by decide

/-- D-11a: removing a node with two children hands the removed value (20) to the destructor, the
successor's value (30) moves up and stays; `clear` then destroys 10 and 30 once each. -/
def demo : List Op := [.new true, .ins 20, .ins 10, .ins 30, .rm 20, .clear]

example : (trace userCmp {} demo).map (fun p => dtorVals p.2) = [[], [], [], [], [20], [10, 30]] := by decide
example : (final userCmp {} demo).fault = false := by decide

/-- iterating over 7 elements, removing the 2nd (two children) and the 4th (the root, two
children): every element is visited once, ascending -/
def demoIt : List Op := [.new true, .ins 40, .ins 20, .ins 60, .ins 10, .ins 30, .ins 50, .ins 70]

example : (match (final userCmp {} demoIt).set with
    | some b => (iterLoop (fun x => x == 20 || x == 40) b.len b (itrNew b).itr [] []).2.1
    | none => []) = [10, 20, 30, 40, 50, 60, 70] := by decide

end Lm.Props.C11
