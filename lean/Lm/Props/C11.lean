import Lm.Generated.Bst
import Lm.Struct.Bst
namespace Lm.Props.C11
end Lm.Props.C11
