import Lm.Inv.C12WF
/-!
# C12 — Queue, stack, list keep their order discipline under all ops and iterators

Property theorems only.  Models: `Lm.Struct.{Chain,Queue,Stack,ListM}` (linked chains with node
identities, the queue's `tail` pointer, iterator links, transcribed from `Lib/structs/{queue,stack,
list}.c` after the D-12a / D-12b fixes; tied to the compiled library by the correspondence check).
Spec: the array machines of `Lm.Spec.C12` (content = plain list, iterator = cursor index).

Histories: every finite sequence of API calls on one container handle and one iterator handle,
subject to the iterator-invalidation rule `okRun` (while an iterator is live the container is
modified only through it; `free` abandons an iterator).  NULL handles (calls after `free`, iterator
calls without / after the end of an iteration) and NULL data are part of the histories.
-/
namespace Lm.Props.C12
open Lm.Struct Lm.Spec.C12

/-! ## Well-formedness is preserved by every operation, iterator operations at every position included -/

/-- Queue: after every history the chain is well formed and **the tail pointer names the last node**
(this is what D-12a broke), whatever was removed through iterators and wherever. -/
theorem C12_queue_wellformed (dtor : Bool) (ops : List Queue.Op) (h : Queue.okRun (Queue.new dtor) ops = true) :
    WellFormed .queue (Queue.run (Queue.new dtor) ops) :=
  wellFormed_of_R (Queue.run_R ops (Queue.init_R dtor) h).1

theorem C12_stack_wellformed (dtor : Bool) (ops : List Stack.Op) (h : Stack.okRun (Stack.new dtor) ops = true) :
    WellFormed .stack (Stack.run (Stack.new dtor) ops) :=
  wellFormed_of_R (Stack.run_R ops (Stack.init_R dtor) h).1

theorem C12_list_wellformed (eq : Val → Val → Bool) (dtor cmp : Bool) (ops : List ListM.Op)
    (h : ListM.okRun eq (ListM.new dtor cmp) ops = true) :
    WellFormed .list (ListM.run eq (ListM.new dtor cmp) ops) :=
  wellFormed_of_R (ListM.run_R eq ops (ListM.init_R dtor cmp) h).1

/-! ## Refinement: the linked structures behave as the array machines

For every history the chain model returns the same value for every call, produces the same
destructor / iterator-position / callback events, and ends with the same content as the array
machine, in which: `enq` appends and `deq`/`peek`/`rm` take the first element (FIFO); `push`
prepends and `pop`/`peek`/`rm` take the first element (LIFO); `ins` adds one element leaving the
others in order, `find`/`rm` hit the first element with `cmp = 0` or the same pointer; an iterator
is a cursor index; the destructor is called exactly for the elements dropped by
`rm`/`clear`/`free`/`it rm` and never for the ones returned by `deq`/`pop`. -/

theorem C12_queue_refines_fifo (dtor : Bool) (ops : List Queue.Op) (h : Queue.okRun (Queue.new dtor) ops = true) :
    Queue.trace (Queue.new dtor) ops = Spec.C12.Queue.trace (Spec.C12.Queue.init dtor) ops ∧
    content (Queue.run (Queue.new dtor) ops) = (Spec.C12.Queue.run (Spec.C12.Queue.init dtor) ops).xs ∧
    (Queue.run (Queue.new dtor) ops).log.map absEv = (Spec.C12.Queue.run (Spec.C12.Queue.init dtor) ops).out := by
  have := Queue.run_R ops (Queue.init_R dtor) h
  exact ⟨this.2, content_of_R this.1⟩

theorem C12_stack_refines_lifo (dtor : Bool) (ops : List Stack.Op) (h : Stack.okRun (Stack.new dtor) ops = true) :
    Stack.trace (Stack.new dtor) ops = Spec.C12.Stack.trace (Spec.C12.Stack.init dtor) ops ∧
    content (Stack.run (Stack.new dtor) ops) = (Spec.C12.Stack.run (Spec.C12.Stack.init dtor) ops).xs ∧
    (Stack.run (Stack.new dtor) ops).log.map absEv = (Spec.C12.Stack.run (Spec.C12.Stack.init dtor) ops).out := by
  have := Stack.run_R ops (Stack.init_R dtor) h
  exact ⟨this.2, content_of_R this.1⟩

/-- for every comparator `eq` (no assumption on it at all) -/
theorem C12_list_refines_multiset (eq : Val → Val → Bool) (dtor cmp : Bool) (ops : List ListM.Op)
    (h : ListM.okRun eq (ListM.new dtor cmp) ops = true) :
    ListM.trace eq (ListM.new dtor cmp) ops = Spec.C12.ListM.trace eq (Spec.C12.ListM.init dtor cmp) ops ∧
    content (ListM.run eq (ListM.new dtor cmp) ops) = (Spec.C12.ListM.run eq (Spec.C12.ListM.init dtor cmp) ops).xs ∧
    (ListM.run eq (ListM.new dtor cmp) ops).log.map absEv = (Spec.C12.ListM.run eq (Spec.C12.ListM.init dtor cmp) ops).out := by
  have := ListM.run_R eq ops (ListM.init_R dtor cmp) h
  exact ⟨this.2, content_of_R this.1⟩

/-- Lengths are exact: what `m_*_len` reports is the number of elements (or `-EINVAL` for NULL). -/
theorem C12_len_exact {k : Kind} {s : St} (h : WellFormed k s) :
    cLen s.obj = (match s.obj with | some _ => ((content s).length : Int) | none => EINVAL) := by
  cases ho : s.obj with
  | none => rfl
  | some q => simp [cLen, content, ho, (h.cont q ho).1, vals]

end Lm.Props.C12
