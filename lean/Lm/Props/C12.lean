import Lm.Struct.Queue
import Lm.Struct.Stack
import Lm.Struct.ListM
namespace Lm.Props.C12
theorem C12_placeholder : True := trivial
end Lm.Props.C12
